----------------------------- MODULE X09Density -----------------------------
(***************************************************************************)
(* X09 -- step-level extension of the C08 design model (Density.tla).      *)
(*                                                                         *)
(* Density.tla models DBSCAN (seed loop, search queue as a set, only core  *)
(* points extend it) and OPTICS (start sample, seed list with reachability *)
(* updates, pop of a minimum-reachability seed) and is model-checked       *)
(* against the input/output relations of C08.  This module adds what is    *)
(* needed to bind that model to the code *step by step*:                   *)
(*                                                                         *)
(*  1. history variables (how often a label was written, how often a point *)
(*     entered the search queue / seed list, which points extended it) and *)
(*     the step invariants stated over them:                               *)
(*       InvLabelOnce       every point is labelled at most once           *)
(*       InvQueueUnlabelled queued points are unlabelled (a point leaves   *)
(*                          the queue when it is labelled)                 *)
(*       InvPushOnce        a point enters the queue / seed list at most   *)
(*                          once (search_found; reachability None -> Some) *)
(*       InvOnlyCoresExtend only core points extend the queue / seed list  *)
(*       InvSeedReach       the reachability held for a seed is the        *)
(*                          minimum of max(core(o), d(o, s)) over the      *)
(*                          processed core points o reaching it; samples   *)
(*                          that no processed core point reaches have none *)
(*       InvReachMin        at termination the listed reachability is that *)
(*                          minimum over the cores listed strictly earlier *)
(*                          (OpReachMin: stronger than C08's OpReach, which*)
(*                          only asks for *some* earlier core)             *)
(*     XNext = Density!Next + the history updates; TLC checks the          *)
(*     invariants on the bounded lattice domains of C08.                   *)
(*  2. the vocabulary of the hook events dbscan.step / optics.step: for    *)
(*     every event kind the Density action it denotes and the values its   *)
(*     fields must have in the current abstract state (used by             *)
(*     Trace_X09Density, which replays recorded runs of the real code).    *)
(***************************************************************************)
EXTENDS Density

VARIABLES nlab,     \* nlab[i]  = number of times lab[i] changed
          npush,    \* npush[i] = number of times i entered the search queue (dbscan) / the seed list (optics)
          ext       \* points whose step added something to the queue / seed list or lowered a reachability

hvars == <<nlab, npush, ext>>
xvars == <<vars, hvars>>

HInit ==
  /\ nlab = [i \in 1..Len(pts) |-> 0]
  /\ npush = [i \in 1..Len(pts) |-> 0]
  /\ ext = {}

\* the container of pending points and the point whose step is being taken
Pending == IF alg = "dbscan" THEN queue ELSE seeds
PendingN == IF alg = "dbscan" THEN queue' ELSE seeds'
\* the point acting in this step: the outer index (seed / start) or the member that left the container
Actor == IF pc = "outer" THEN {oi} ELSE Pending \ PendingN

\* history updates, as a function of the step taken by the design model
Hist ==
  /\ nlab' = [i \in 1..MN |-> nlab[i] + (IF lab'[i] # lab[i] THEN 1 ELSE 0)]
  /\ npush' = [i \in 1..MN |-> npush[i] + (IF i \in PendingN \ Pending THEN 1 ELSE 0)]
  /\ ext' = IF PendingN \ Pending # {} \/ rch' # rch THEN ext \cup Actor ELSE ext

XInit == Init /\ HInit
XDSkip == DSkip /\ Hist
XDSeed == DSeed /\ Hist
XDPop == DPop /\ Hist
XDClose == DClose /\ Hist
XOSkip == OSkip /\ Hist
XOStart == OStart /\ Hist
XOPop == OPop /\ Hist
XOEnd == OEnd /\ Hist
XDone == Done /\ Hist
XNext == XDSkip \/ XDSeed \/ XDPop \/ XDClose \/ XOSkip \/ XOStart \/ XOPop \/ XOEnd \/ XDone

-----------------------------------------------------------------------------
(* step invariants *)

TrueCore == CoreSet(nb, mp)

InvLabelOnce == \A i \in 1..MN : nlab[i] <= 1
InvQueueUnlabelled == (alg = "dbscan" /\ pc = "grow") => \A j \in queue : lab[j] = -1
InvPushOnce == \A i \in 1..MN : npush[i] <= 1
InvOnlyCoresExtend == ext \subseteq TrueCore

\* reachability offered to s by the processed core points
Offers(s, done) == {Max2(MCoreDist(o), MD[o][s]) : o \in (done \cap TrueCore) \cap MNb[s]}
InvSeedReach ==
  (alg = "optics" /\ Variant = "ok") =>
     \A s \in (1..MN) \ processed :
        IF s \in seeds
          THEN Offers(s, processed) # {} /\ rch[s] = MinSet(Offers(s, processed))
          ELSE Offers(s, processed) = {} /\ rch[s] = -1

\* the listed reachability is the minimum over the core points listed strictly earlier that reach the sample
OpReachMin(o, D, Nb, C, CD) ==
  \A p \in DOMAIN o :
     LET i == o[p].idx + 1
         offers == {Max2(CD[o[q].idx + 1], D[o[q].idx + 1][i]) : q \in {qq \in 1..(p - 1) : (o[qq].idx + 1) \in C /\ (o[qq].idx + 1) \in Nb[i]}}
     IN IF offers = {} THEN ~o[p].reach.def
        ELSE o[p].reach.def /\ o[p].reach.exact /\ o[p].reach.i = MinSet(offers)
OpReachMinOf(o, D, Nb, m) ==
  LET C  == CoreSet(Nb, m)
      CD == [i \in DOMAIN D |-> IF i \in C THEN CoreDistNb(D, Nb, i, m) ELSE -1]
  IN OpReachMin(o, D, Nb, C, CD)
InvReachMin == (alg = "optics" /\ pc = "done" /\ Variant = "ok") => OpReachMinOf(ord, MD, nb, mp)

\* everything that must hold after every step of a run (Density's own step invariants included)
StepInv ==
  /\ InvLabelOnce /\ InvQueueUnlabelled /\ InvPushOnce /\ InvOnlyCoresExtend
  /\ InvGrow /\ InvLabels /\ InvSeeds /\ InvSeedReach

-----------------------------------------------------------------------------
(* vocabulary of the hook events.  Indices in events are 0-based, the model is 1-based. *)

SeqSet(s) == {s[k] + 1 : k \in DOMAIN s}
NoDup(s) == Cardinality(SeqSet(s)) = Len(s)
Count(i) == Cardinality(MNb[i])            \* what find_neighbors counts: the point itself included

(* dbscan.step *)
\* {"ev":"skip","i","why","cnt"}: the outer scan passes point i: already labelled (why 0) or not a core point (why 1)
SkipFields(ev) ==
  /\ ev.i = oi - 1
  /\ ev.why \in {0, 1}
  /\ (ev.why = 0) <=> (lab[oi] >= 0)
  /\ ev.why = 1 => ev.cnt = Count(oi) /\ ev.cnt < mp
\* {"ev":"seed","i","cid","cnt","push"}: unlabelled core point i founds cluster cid; its unlabelled neighbours are queued
SeedFields(ev) ==
  /\ ev.i = oi - 1 /\ ev.cid = cur
  /\ ev.cnt = Count(oi) /\ ev.cnt >= mp
  /\ NoDup(ev.push) /\ SeqSet(ev.push) = Fresh(oi)
\* {"ev":"pop","i","cid","cnt","push"}: candidate i leaves the queue and is labelled cid; only if it is a core point
\* its unlabelled neighbours that are not queued yet are pushed
PopFields(ev) ==
  LET j == ev.i + 1 IN
  /\ j \in queue /\ lab[j] = -1 /\ ev.cid = cur
  /\ ev.cnt = Count(j)
  /\ NoDup(ev.push)
  /\ SeqSet(ev.push) = (IF MCore(j) THEN Fresh(j) \ queue ELSE {})
CloseFields(ev) == ev.cid = cur

(* optics.step *)
Listed(ev, i, r) == [idx |-> ev.i, core |-> ev.core, reach |-> ev.reach] = Obs(i, r)
\* the seed-list inserts / reachability updates logged for the step of core point o:
\* exactly the samples whose reachability the model changes, with the model's values
\* (base = size of the seed list before the first insert; every insert reports the size it produced)
UpdFields(ev, o, done, base) ==
  LET new == Upd(o, done, rch)
      ch  == {j \in 1..MN : new[j] # rch[j]}
  IN /\ Len(ev.upd) = Cardinality(ch)
     /\ {ev.upd[k].j + 1 : k \in DOMAIN ev.upd} = ch
     /\ \A k \in DOMAIN ev.upd :
          LET j == ev.upd[k].j + 1 IN
          /\ ev.upd[k].r = Def(new[j])
          /\ ev.upd[k].isnew <=> rch[j] < 0
          /\ ev.upd[k].nseeds = base + Cardinality({m \in 1..k : ev.upd[m].isnew})
\* {"ev":"start","i","nn","nseeds","core","reach","upd"}: the lowest unprocessed index starts a walk
StartFields(ev) ==
  /\ ev.i = oi - 1 /\ oi \notin processed
  /\ ev.nn = Count(oi) /\ ev.nseeds = 0
  /\ Listed(ev, oi, rch[oi])
  /\ IF MCore(oi) THEN UpdFields(ev, oi, processed \cup {oi}, 0) ELSE ev.upd = <<>>
\* {"ev":"pop",...}: a seed of minimum reachability is listed
OPopFields(ev) ==
  LET s == ev.i + 1 IN
  /\ s \in seeds /\ ev.nseeds = Cardinality(seeds)
  /\ \A u \in seeds : rch[s] <= rch[u]
  /\ ev.nn = Count(s)
  /\ Listed(ev, s, rch[s])
  /\ IF MCore(s) THEN UpdFields(ev, s, processed \cup {s}, Cardinality(seeds) - 1) ELSE ev.upd = <<>>
=============================================================================
