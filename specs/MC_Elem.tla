------------------------------- MODULE MC_Elem -------------------------------
(* Model-checks the Elem tables against the defining equations of exp / ln / sigmoid in      *)
(* integer arithmetic, so that a wrong table entry is caught by TLC rather than trusted.     *)
(* One state per grid point (x is the state variable); every invariant is a defining         *)
(* property evaluated at that point.                                                          *)
EXTENDS Elem, TLC

VARIABLE x
Init == x \in 0..1600
Next == UNCHANGED x

H == 100    \* grid step of the exp tables = 0.01 * S

\* E(0) = S
ExpZero == ExpNegT[1] = ES /\ ExpPosT[1] = ES
\* smallest step bracketed by its Taylor polynomial: exp(-0.01) in [1 - h + h^2/2 - h^3/6, 1 - h + h^2/2]
ExpStep == /\ ExpNegT[2] = 9900           \* S(1 - .01 + .00005 - ...) = 9900.498.. -> 9900
           /\ ExpPosT[2] = 10101          \* S(1 + .01 + .00005 + ...) = 10100.50.. -> 10101 (round half up of 10100.5017)
\* functional equation E(x + h) * S ~ E(x) * E(h) (rounding of each factor: <= 0.5 units each)
ExpNegFunctional ==
  x + 1 <= 1600 =>
    Abs(ExpNegT[x + 2] * ES - ExpNegT[x + 1] * ExpNegT[2]) <= ES + ExpNegT[2]
ExpPosFunctional ==
  x + 1 <= 300 =>
    LET a == ExpPosT[x + 1]  b == ExpPosT[x + 2] IN
    \* b*S ~ a*E(h): compare through MulDiv to stay inside 31 bits (a <= 200 855)
    Abs(b - MulDiv(a, ExpPosT[2], ES)) <= 2 + a \div ES   \* E(h) itself is rounded: relative 5e-5
\* exp(x) exp(-x) = 1
ExpInverse == x <= 300 => Abs(MulDiv(ExpPosT[x + 1], ExpNegT[x + 1], ES) - ES) <= 3 + ExpPosT[x + 1] \div ES
\* monotone
ExpMonotone == (x + 1 <= 1600 => ExpNegT[x + 2] <= ExpNegT[x + 1]) /\ (x + 1 <= 300 => ExpPosT[x + 2] >= ExpPosT[x + 1])

\* ln: Ln(1) = 0, Ln(ab) = Ln a + Ln b, monotone, Ln(E(x)) ~ x
LnOne == LnIntT[1] = 0 /\ LnMantT[1] = 0
LnProduct ==
  \A a \in {2, 3, 5, 7} : (x >= 1 /\ a * x <= 1024) => Abs(LnIntT[a * x] - LnIntT[a] - LnIntT[x]) <= 2
LnMonotone == (x >= 1 /\ x + 1 <= 1024) => LnIntT[x + 1] > LnIntT[x] \/ (x > 500 /\ LnIntT[x + 1] >= LnIntT[x])
LnMantMonotone == x + 1 <= 1000 => LnMantT[x + 2] >= LnMantT[x + 1]
LnMantEnd == Abs(LnMantT[1001] - Ln2S) <= 1 /\ Abs(LnIntT[2] - Ln2S) <= 1
\* Ln(E(x)) = x for x in 0..3 (value E(x)/S >= 1)
LnExp == x <= 300 => Abs(LnFx(ExpPosT[x + 1]) - x * H) <= 5
\* LnFx agrees with the integer table on integers k = x (k*S may not overflow: k <= 1024 -> 1.02e7)
LnFxInt == (x >= 1 /\ x <= 1024) => Abs(LnFx(x * ES) - LnIntT[x]) <= 12
\* ln below one: Ln(E(-x)) = -x  for x in 0..6
LnExpNeg == (x <= 600 /\ ExpNegT[x + 1] >= 20) => Abs(LnFx(ExpNegT[x + 1]) + x * H) <= 4 + (5000 \div ExpNegT[x + 1])

\* sigmoid: s(z) + s(-z) = S ; s(z)(S + E(-z)) ~ S^2 ; monotone ; s(0) = S/2
SigmoidSym == Sigmoid(x * 10) + Sigmoid(-(x * 10)) = ES
SigmoidDef == Abs(Sigmoid(x * 10) * (ES + ExpNeg(x * 10)) - ES * ES) <= ES + ExpNeg(x * 10)
SigmoidMono == Sigmoid((x + 1) * 10) >= Sigmoid(x * 10)
SigmoidZero == Sigmoid(0) = 5000
\* interpolation stays between the neighbouring entries
InterpBetween ==
  \A r \in {0, 1, 37, 50, 99} :
     x < 1600 => (ExpNeg(x * H + r) <= ExpNegT[x + 1] /\ ExpNeg(x * H + r) >= ExpNegT[x + 2])
=============================================================================
