------------------------------ MODULE LloydIdx ------------------------------
(***************************************************************************)
(* X08 (3b, unbounded) -- POINTWISE version of specs/LloydInd.tla: the     *)
(* history arrays hin / hiters / hkept are replaced by the cells of ONE    *)
(* probe run s (p_in, p_iters, p_kept), s a rigid variable with s >= 1.    *)
(* Every variable is an unbounded integer / boolean / string and no        *)
(* constant bounds the model: ONE Apalache consecution run proves the      *)
(* invariant for ALL nruns, ALL maxit, every sequence of stop decisions    *)
(* and run inertias and every probe; a statement that holds for every      *)
(* probe s is the universally quantified statement about the history:      *)
(*   PBest for all s  <=>  IsFirstMin(brun) /\ bin = hin[brun]             *)
(*                         (LloydInd.InvBest without the hkept clause)     *)
(*   PPublish + PBest ==>  LloydInd.InvPublish                             *)
(* Checked by TLC (XC_LloydIdx.tla): for EVERY probe s <= R, every step of *)
(* LloydInd is a step of this module with p_in <- hin[s], ..., and IndInv  *)
(* holds.  Variant as in LloydInd.tla.                                     *)
(***************************************************************************)
EXTENDS Integers

CONSTANTS
  \* @type: Str;
  Variant

VARIABLES
  \* @type: Int;
  maxit,
  \* @type: Int;
  nruns,
  \* the probe run (rigid)
  \* @type: Int;
  s,
  \* @type: Str;
  pc,
  \* @type: Int;
  run,
  \* @type: Int;
  it,
  \* @type: Str;
  dec,
  \* @type: Int;
  brun,
  \* @type: Int;
  bin,
  \* @type: Int;
  hlen,
  \* the history cell of run s; lastin = the inertia of the run that ended last (LloydInd: hin[hlen])
  \* @type: Int;
  p_in,
  \* @type: Int;
  p_iters,
  \* @type: Bool;
  p_kept,
  \* @type: Int;
  lastin,
  \* @type: Int;
  pubrun,
  \* @type: Int;
  pubin

vars == <<maxit, nruns, s, pc, run, it, dec, brun, bin, hlen, p_in, p_iters, p_kept, lastin, pubrun, pubin>>

Init ==
  /\ maxit \in Int /\ maxit >= 1 /\ nruns \in Int /\ nruns >= 1 /\ s \in Int /\ s >= 1
  /\ pc = "start" /\ run = 0 /\ it = 0 /\ dec = "none"
  /\ brun = 0 /\ bin = 0
  /\ hlen = 0 /\ p_in = 0 /\ p_iters = 0 /\ p_kept = FALSE /\ lastin = 0
  /\ pubrun = 0 /\ pubin = 0

StartRun ==
  /\ pc = "start" /\ run < nruns
  /\ run' = run + 1 /\ it' = 0 /\ dec' = "none" /\ pc' = "iter"
  /\ UNCHANGED <<maxit, nruns, s, brun, bin, hlen, p_in, p_iters, p_kept, lastin, pubrun, pubin>>

Budget == IF Variant = "lloyd_budget_off_by_one" THEN maxit + 1 ELSE maxit
\* @type: (Bool, Int) => Str;
Decision(conv, iters) == IF conv THEN "converged" ELSE IF iters = Budget THEN "budget" ELSE "continue"

\* @type: (Bool) => Bool;
IterateC(conv) ==
  /\ pc = "iter"
  /\ it' = it + 1
  /\ dec' = Decision(conv, it + 1)
  /\ pc' = (IF Decision(conv, it + 1) = "continue" THEN "iter" ELSE "end")
  /\ UNCHANGED <<maxit, nruns, s, run, brun, bin, hlen, p_in, p_iters, p_kept, lastin, pubrun, pubin>>
Iterate == \E conv \in BOOLEAN : IterateC(conv)

\* @type: (Int) => Bool;
Keeps(v) == brun = 0 \/ (IF Variant = "lloyd_last_best" THEN v <= bin ELSE v < bin)

\* @type: (Int) => Bool;
EndRunV(v) ==
  /\ pc = "end"
  /\ hlen' = hlen + 1
  /\ lastin' = v
  /\ p_in' = (IF hlen + 1 = s THEN v ELSE p_in)
  /\ p_iters' = (IF hlen + 1 = s THEN it ELSE p_iters)
  /\ p_kept' = (IF hlen + 1 = s THEN Keeps(v) ELSE p_kept)
  /\ brun' = (IF Keeps(v) THEN run ELSE brun)
  /\ bin' = (IF Keeps(v) THEN v ELSE bin)
  /\ pc' = (IF run = nruns THEN "publish" ELSE "start")
  /\ UNCHANGED <<maxit, nruns, s, run, it, dec, pubrun, pubin>>
EndRun == lastin' \in Int /\ EndRunV(lastin')

Publish ==
  /\ pc = "publish" /\ brun > 0
  /\ pubrun' = (IF Variant = "lloyd_publish_last" THEN run ELSE brun)
  /\ pubin' = (IF Variant = "lloyd_publish_last" THEN lastin ELSE bin)
  /\ pc' = "done"
  /\ UNCHANGED <<maxit, nruns, s, run, it, dec, brun, bin, hlen, p_in, p_iters, p_kept, lastin>>

Next == StartRun \/ Iterate \/ EndRun \/ Publish
Spec == Init /\ [][Next]_vars

-----------------------------------------------------------------------------
(* The statements, pointwise *)
InvBudget ==
  /\ it <= maxit /\ run <= nruns /\ hlen <= run
  /\ dec = "continue" => it < maxit
  /\ dec = "budget" => it = maxit
  /\ pc = "end" => dec \in {"converged", "budget"}
  /\ pc \in {"publish", "done"} => (run = nruns /\ hlen = nruns)
  /\ s <= hlen => (p_iters >= 1 /\ p_iters <= maxit)
PBest ==
  s <= hlen =>
    /\ brun >= 1 /\ brun <= hlen
    /\ bin <= p_in
    /\ s < brun => bin < p_in
    /\ s = brun => p_in = bin
    /\ p_kept => s <= brun
PPublish == pc = "done" => (pubrun = brun /\ pubin = bin /\ brun >= 1)
Safety == InvBudget /\ PBest /\ PPublish

-----------------------------------------------------------------------------
(* The inductive invariant *)
TypeOk ==
  /\ maxit \in Int /\ nruns \in Int /\ s \in Int
  /\ pc \in {"start", "iter", "end", "publish", "done"}
  /\ run \in Int /\ it \in Int
  /\ dec \in {"none", "converged", "budget", "continue"}
  /\ brun \in Int /\ bin \in Int /\ hlen \in Int
  /\ p_in \in Int /\ p_iters \in Int /\ p_kept \in BOOLEAN /\ lastin \in Int
  /\ pubrun \in Int /\ pubin \in Int

IndInv ==
  /\ TypeOk
  /\ maxit >= 1 /\ nruns >= 1 /\ s >= 1 /\ run >= 0 /\ it >= 0 /\ hlen >= 0 /\ brun >= 0
  /\ InvBudget /\ PBest /\ PPublish
  /\ pc = "start" => hlen = run
  /\ pc \in {"iter", "end"} => (run >= 1 /\ hlen = run - 1)
  /\ pc = "iter" => (it < maxit /\ dec \in {"none", "continue"} /\ (dec = "none" <=> it = 0))
  /\ pc = "end" => it >= 1
  /\ hlen = 0 => (brun = 0 /\ bin = 0 /\ lastin = 0)
  /\ hlen > 0 => (brun >= 1 /\ brun <= hlen)
  /\ s = hlen => lastin = p_in
  /\ pc # "done" => (pubrun = 0 /\ pubin = 0)
  /\ s > hlen => (p_in = 0 /\ p_iters = 0 /\ ~p_kept)
=============================================================================
