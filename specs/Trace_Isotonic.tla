--------------------------- MODULE Trace_Isotonic ---------------------------
(***************************************************************************************************)
(* X01 trace validation: events recorded from linfa_linear::IsotonicRegression are checked with    *)
(* the relation of Isotonic.tla (the relation whose max-min formula TLC proves to be the terminal   *)
(* state of pool-adjacent-violators).                                                              *)
(*   fit  : accepted; the published knots (r exact integers, v at scale S) satisfy KnotsOk for a   *)
(*          direction the data allow (sign of the covariance; zero covariance: either)             *)
(*   pred : the predictions at the queries q/2 are the clamped linear interpolation through the    *)
(*          published knots and are monotone in the direction of the fit                           *)
(*   shape: a mismatching shape is rejected (Err or panic -- the tests pin panics), a matching     *)
(*          one is not                                                                             *)
(* Named deviations (enabled only when listed in Devs; each models what the code computes):        *)
(*   "tied_x_not_pooled"         samples with equal abscissa are not pooled: the fit is PAVA over  *)
(*        the samples in SOME order that sorts x (ties in arbitrary order), one knot per run of    *)
(*        the run partition at the run's largest abscissa -- the knot list may repeat an abscissa  *)
(*        with different values; predict is then the code's scan (ImplPredict)                     *)
(*   "decreasing_predict_clamps" decreasing fit: the knots are listed with descending abscissae    *)
(*        but predict assumes ascending ones: every query >= the last (smallest) knot gets the     *)
(*        last value, every other query the first value (ImplPredict on the descending list)       *)
(***************************************************************************************************)
EXTENDS Isotonic, TraceIO

CONSTANT Devs

VARIABLES c, e,       \* case and event cursor
          st,         \* after the fit event: [dir, r, v]
          used        \* deviations needed so far

tvars == <<c, e, st, used>>

Case == Rec[c]
In   == Case.inp
Ev   == Case.ev[e]
X == In.x
Y == In.y
W == IF "w" \in DOMAIN In THEN In.w ELSE <<>>
What == IF Case.kind = "shape" THEN In.what ELSE "none"

S == 1000000
Slack == IF In.ty = "f32" THEN 40 ELSE 2
Finite(s) == \A i \in 1..Len(s) : Abs(s[i]) <= 20000000

TraceInit ==
  /\ c \in 1..Len(Rec) /\ e = 1
  /\ st = [dir |-> "none", r |-> <<>>, v |-> <<>>] /\ used = {}
  /\ ys = <<>> /\ ws = <<>> /\ mode = "trace" /\ blocks = <<>> /\ cur = 0 /\ pc = "trace" /\ steps = 0

HasEv(name) == e <= Len(Case.ev) /\ Ev.ev = name
Adv == e' = e + 1 /\ UNCHANGED <<c, vars>>

-----------------------------------------------------------------------------
(* deviation "tied_x_not_pooled": what the code computes when abscissae repeat *)

HasTies == Cardinality(Range(X)) < Len(X)

\* all orders of the sample indices that sort x in the processing direction (ties in any order)
RECURSIVE Orders(_, _)
Orders(R, dir) ==
  IF R = {} THEN {<<>>}
  ELSE LET m == IF dir = "inc" THEN MinSet({X[i] : i \in R}) ELSE MaxSet({X[i] : i \in R})
       IN UNION {{<<i>> \o t : t \in Orders(R \ {i}, dir)} : i \in {j \in R : X[j] = m}}

\* the knots are the runs of a partition of the processing order into consecutive runs of constant fit;
\* knot abscissa = largest abscissa of the run (its last element when ascending, its first when descending).
\* Runs: knots b..m explain the positions s0..n of the processing order (xsq = abscissae, f = fit along it)
RECURSIVE Runs(_, _, _, _, _, _, _)
Runs(dir, xsq, f, r, v, b, s0) ==
  IF b > Len(r) THEN s0 = Len(xsq) + 1
  ELSE \E en \in s0..Len(xsq) :
         /\ r[b] = (IF dir = "inc" THEN xsq[en] ELSE xsq[s0])
         /\ \A p \in s0..en : Close(v[b], f[p][1], f[p][2], S, Slack)
         /\ Runs(dir, xsq, f, r, v, b + 1, en + 1)
KnotsSeq(dir, sg, r, v) ==
  LET n  == Len(sg)
      sy == Eag([p \in 1..n |-> Wt(W, sg[p]) * Y[sg[p]]])
      sw == Eag([p \in 1..n |-> Wt(W, sg[p])])
  IN /\ Len(r) = Len(v) /\ Len(r) >= 1 /\ Len(r) <= n
     /\ \E f \in {IsoFit(sy, sw)} :             \* non-decreasing along the processing order (both directions)
        \E xsq \in {Eag([p \in 1..n |-> X[sg[p]]])} : Runs(dir, xsq, f, r, v, 1, 1)

FitTies(dir, r, v) == \E sg \in Orders(1..Len(X), dir) : KnotsSeq(dir, sg, r, v)

\* predict_inplace transcribed: knots r (in list order), values v, doubled query q2 -> rational <<num, den>>
ImplPredict(r, v, q2) ==
  LET m == Len(r) IN
  IF q2 >= 2 * r[m] THEN <<v[m], 1>>
  ELSE IF q2 <= 2 * r[1] THEN <<v[1], 1>>
  ELSE LET j == CHOOSE b \in 1..m : 2 * r[b] >= q2 /\ \A d \in 1..(b - 1) : 2 * r[d] < q2   \* position(|x| x >= val)
           den == 2 * (r[j] - r[j - 1])
       IN <<v[j - 1] * den + (q2 - 2 * r[j - 1]) * (v[j] - v[j - 1]), den>>
PredImpl(r, v, qs, p) ==
  /\ Len(p) = Len(qs)
  /\ \A j \in 1..Len(qs) : LET x == ImplPredict(r, v, qs[j]) IN Abs(p[j] * x[2] - x[1]) <= Slack * x[2]

-----------------------------------------------------------------------------
(* events *)

FitStrict(dir) == KnotsOk(dir, X, Y, W, Ev.r, Ev.v, S, Slack)
FitDev(dir)    == "tied_x_not_pooled" \in Devs /\ HasTies /\ FitTies(dir, Ev.r, Ev.v)

\* a valid data set is accepted and its knots are the isotonic fit
TFit ==
  /\ HasEv("fit") /\ e = 1
  /\ What \in {"none", "pred_dim", "pred_len"}
  /\ Ev.res = "ok" /\ Ev.rexact
  /\ Len(X) = Len(Y) /\ Finite(Ev.v) /\ Len(Ev.r) >= 1
  /\ \E dir \in Dirs(X, Y) :
       /\ IF FitStrict(dir) THEN used' = used
          ELSE FitDev(dir) /\ used' = used \cup {"tied_x_not_pooled"}
       /\ st' = [dir |-> dir, r |-> Ev.r, v |-> Ev.v]
  /\ Adv

\* mismatching shapes at fit time are rejected
TFitRejected ==
  /\ HasEv("fit") /\ e = 1
  /\ What \in {"fit_dim", "fit_len"}
  /\ Ev.res \in {"err", "panic"}
  /\ Len(Case.ev) = 1
  /\ Adv /\ UNCHANGED <<st, used>>

PredStrict == PredOk(st.r, st.v, In.q, Ev.p, Slack) /\ MonoOk(st.dir, In.q, Ev.p, Slack)
PredDevName ==
  IF "tied_x_not_pooled" \in used THEN "tied_x_not_pooled"
  ELSE IF "decreasing_predict_clamps" \in Devs /\ st.dir = "dec" /\ Len(st.r) >= 2 /\ StrictDesc(st.r)
    THEN "decreasing_predict_clamps" ELSE "none"

TPred ==
  /\ HasEv("pred") /\ e = 2 /\ st.dir # "none"
  /\ What = "none"
  /\ Ev.res = "ok" /\ Finite(Ev.p)
  /\ IF "tied_x_not_pooled" \notin used /\ PredStrict THEN used' = used
     ELSE /\ PredDevName # "none"
          /\ PredImpl(st.r, st.v, In.q, Ev.p)
          /\ used' = used \cup {PredDevName}
  /\ Adv /\ UNCHANGED st

\* mismatching shapes at predict time are rejected (predict_inplace returns nothing: a panic)
TPredRejected ==
  /\ HasEv("pred") /\ e = 2 /\ st.dir # "none"
  /\ What \in {"pred_dim", "pred_len"}
  /\ Ev.res = "panic"
  /\ Adv /\ UNCHANGED <<st, used>>

Complete == IF What \in {"fit_dim", "fit_len"} THEN Len(Case.ev) = 1 ELSE Len(Case.ev) = 2

Accept ==
  /\ e = Len(Case.ev) + 1 /\ Complete
  /\ IF used = {} THEN Ok(Case.id) ELSE OkDev(Case.id, used)
  /\ e' = e + 1 /\ UNCHANGED <<c, vars, st, used>>

\* best-effort diagnostics: the first false clause (under the first direction the data allow)
Dir1 == IF "inc" \in Dirs(X, Y) THEN "inc" ELSE "dec"
FitWhy ==
  IF What \in {"fit_dim", "fit_len"} THEN "accepted"
  ELSE IF Ev.res # "ok" THEN "rejected"
  ELSE IF ~Ev.rexact \/ ~Finite(Ev.v) \/ Len(Ev.r) < 1 THEN "nonfinite"
  ELSE IF ~KnotsShape(X, Ev.r, Ev.v) THEN "knots-x"
  ELSE IF \A dir \in Dirs(X, Y) : ~KnotsFit(dir, X, Y, W, Ev.r, Ev.v, S, Slack) THEN "knots-fit"
  ELSE "?"
PredWhy ==
  IF What \in {"pred_dim", "pred_len"} THEN "accepted"
  ELSE IF Ev.res # "ok" THEN "rejected"
  ELSE IF ~Finite(Ev.p) THEN "nonfinite"
  ELSE IF "tied_x_not_pooled" \in used THEN "pred-scan"
  ELSE IF ~PredOk(st.r, st.v, In.q, Ev.p, Slack) THEN "pred-interp"
  ELSE IF ~MonoOk(st.dir, In.q, Ev.p, Slack) THEN "pred-mono"
  ELSE "?"

Stuck ==
  /\ e <= Len(Case.ev)
  /\ ~(ENABLED TFit \/ ENABLED TFitRejected \/ ENABLED TPred \/ ENABLED TPredRejected)
  /\ Fail(Case.id, <<e, Ev.ev, IF Ev.ev = "fit" /\ e = 1 THEN FitWhy
                               ELSE IF Ev.ev = "pred" /\ e = 2 /\ st.dir # "none" THEN PredWhy ELSE "unexpected">>)
  /\ e' = Len(Case.ev) + 2 /\ UNCHANGED <<c, vars, st, used>>

Incomplete ==
  /\ e = Len(Case.ev) + 1 /\ ~Complete
  /\ Fail(Case.id, <<e, "missing">>)
  /\ e' = e + 1 /\ UNCHANGED <<c, vars, st, used>>

TraceNext == TFit \/ TFitRejected \/ TPred \/ TPredRejected \/ Accept \/ Stuck \/ Incomplete
=============================================================================
