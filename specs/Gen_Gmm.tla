------------------------------ MODULE Gen_Gmm ------------------------------
(* Case generator for C10: lattice datasets built from blobs (separated / overlapping, isotropic, *)
(* anisotropic, correlated, rank-deficient, with duplicates, with a far outlier), every component *)
(* count, both                                                                                     *)
(* initialisers, seeds, regularisation values, tolerances / run counts / iteration budgets, float *)
(* types; queries = the training points, a point between two blobs and points 10 .. 10^6 "box      *)
(* radii" (>= standard deviations of any component) away from the data.                            *)
(* kind "sweep": a fixed unit-variance dataset and queries every 1/4 from 10 to 45 standard        *)
(* deviations, which crosses the range where exp() of the weighted log-probabilities is subnormal  *)
(* (f64: 37.6 .. 38.6 sd, f32: 13.1 .. 14.3 sd) and then zero.                                     *)
EXTENDS Integers, Sequences, FiniteSets, TLC, Json

CONSTANTS Tier,        \* "quick" | "thorough"
          Thin         \* keep one configuration out of Thin (Latin-square style selection)

VARIABLE case

Quick == Tier = "quick"
MaxP  == IF Quick THEN 3 ELSE 6
MaxB  == 3
MaxK  == 4
Shapes == <<"cross", "aniso", "diag", "line", "dup", "outlier", "twopt", "onept">>
Clumps == {"twopt", "onept"}     \* fewer distinct points than components ; shifted so that the bounding box excludes the origin
Spacings == <<10, 2>>                  \* separated / overlapping blob centres
Inits == <<"kmeans", "random">>
Seeds == IF Quick THEN <<1>> ELSE <<1, 7, 42>>
Regs  == << <<0, 1>>, <<1, 1000000>>, <<1, 100>>, <<1, 2>> >>
\* <<tolerance num, den, n_runs, max_n_iterations>>
Cfgs  == << <<1, 1000, 1, 100>>, <<1, 1000000, 1, 200>>, <<1, 10, 2, 100>>, <<1, 1000, 1, 3>>, <<1, 1000000, 3, 4>>, <<1, 1000, 3, 5>> >>
Fts   == <<"f64", "f32">>
FarD  == <<10, 40, 1000, 1000000>>

\* ---- vectors
Zero(p) == [j \in 1..p |-> 0]
Unit(p, i) == [j \in 1..p |-> IF j = i THEN 1 ELSE 0]
Ones(p) == [j \in 1..p |-> 1]
Add(a, b) == [j \in 1..Len(a) |-> a[j] + b[j]]
Mul(c, a) == [j \in 1..Len(a) |-> c * a[j]]
RECURSIVE Concat(_)
Concat(ss) == IF ss = <<>> THEN <<>> ELSE Head(ss) \o Concat(Tail(ss))

\* ---- blob shapes: sequences of offsets from the centre
Shape(name, p) ==
  CASE name = "cross" -> <<Zero(p)>> \o Concat([i \in 1..p |-> <<Unit(p, i), Mul(-1, Unit(p, i))>>])
    [] name = "aniso" -> <<Zero(p), Mul(3, Unit(p, 1)), Mul(-3, Unit(p, 1)), Unit(p, 1), Mul(-1, Unit(p, 1))>>
                         \o Concat([i \in 1..(p - 1) |-> <<Unit(p, i + 1), Mul(-1, Unit(p, i + 1))>>])
    [] name = "diag"  -> [t \in 1..5 |-> Mul(t - 3, Ones(p))]
                         \o (IF p >= 2 THEN <<Add(Unit(p, 1), Mul(-1, Unit(p, p))), Add(Mul(-1, Unit(p, 1)), Unit(p, p))>> ELSE <<>>)
    [] name = "line"  -> [t \in 1..5 |-> Mul(t - 3, Ones(p))]
    [] name = "dup"   -> <<Zero(p), Zero(p), Zero(p), Unit(p, 1)>>
    \* heavy duplicates: 10 copies each of two points / 8 copies of one point
    [] name = "twopt" -> [q \in 1..20 |-> IF q <= 10 THEN Zero(p) ELSE Ones(p)]
    [] name = "onept" -> [q \in 1..8 |-> Zero(p)]
    \* a blob and one training point hundreds of standard deviations away from it
    [] name = "outlier" -> <<Zero(p)>> \o Concat([i \in 1..p |-> <<Unit(p, i), Mul(-1, Unit(p, i))>>]) \o <<Mul(200, Unit(p, p))>>

\* centre of blob b (0-based): steps of `sp` along axis 1, then axis 2, ... (cyclic)
RECURSIVE Centre(_, _, _)
Centre(b, p, sp) == IF b = 0 THEN Zero(p) ELSE Add(Centre(b - 1, p, sp), Mul(sp, Unit(p, ((b - 1) % p) + 1)))

Offset(name, p) == IF name \in Clumps THEN Mul(5, Ones(p)) ELSE Zero(p)
Data(name, p, nb, sp) ==
  Concat([b \in 1..nb |-> LET sh == Shape(name, p) IN
            [q \in 1..Len(sh) |-> Add(Offset(name, p), Add(Centre(b - 1, p, sp), sh[q]))]])

ColMin(d, j) == CHOOSE x \in {d[q][j] : q \in DOMAIN d} : \A y \in {d[q][j] : q \in DOMAIN d} : x <= y
ColMax(d, j) == CHOOSE x \in {d[q][j] : q \in DOMAIN d} : \A y \in {d[q][j] : q \in DOMAIN d} : x >= y
RECURSIVE MaxRange(_, _)
MaxRange(d, j) == IF j = 0 THEN 0 ELSE LET r == ColMax(d, j) - ColMin(d, j)  m == MaxRange(d, j - 1) IN IF r > m THEN r ELSE m

\* R >= sqrt(p) * range / 2 + sqrt(max reg) : no component has a standard deviation above R in any direction
Radius(d, p) == MaxRange(d, p) * p + 1
Queries(d, p, nb, sp) ==
  LET lo == [j \in 1..p |-> ColMin(d, j)]
      hi == [j \in 1..p |-> ColMax(d, j)]
      R  == Radius(d, p)
  IN d
     \o (IF nb >= 2 THEN <<Mul(sp \div 2, Unit(p, 1))>> ELSE <<>>)          \* half-way between blob 0 and blob 1
     \o Concat([f \in 1..Len(FarD) |->
          << Add(hi, Mul(FarD[f] * R, Unit(p, 1))),
             Add(lo, Mul(-(FarD[f] * R), Ones(p))),
             Add(Zero(p), Mul(FarD[f] * R, Unit(p, p))) >>])

Keep(ix) == (ix % Thin) = 0

\* selection: blob count 1 has no spacing ; f32 only for a third of the configurations ; thinning
Selected(p, si, nb, li, k, ii, zi, ri, ci, fi) ==
  /\ nb = 1 => li = 1
  /\ fi = 2 => (p + si + nb + k + ri) % 3 = 0
  /\ IF Shapes[si] \in Clumps
       THEN nb = 1 /\ ((p + k + ii + zi + 2 * ri + ci + fi) % 3) = 0        \* one clump only, lighter thinning
       ELSE Keep(p + 2 * si + 3 * nb + li + 5 * k + ii + zi + 7 * ri + 3 * ci + fi)

SweepData == << <<-4>>, <<4>>, <<-4>>, <<4>> >>                  \* ds = 4 : -1, 1, -1, 1  (variance exactly 1)
SweepData2 == << <<-4, 0>>, <<4, 0>>, <<0, -4>>, <<0, 4>>, <<-4, 0>>, <<4, 0>>, <<0, -4>>, <<0, 4>> >>   \* covariance I / 2
SweepQ(p) == [q \in 1..141 |-> [j \in 1..p |-> IF j = 1 THEN 40 + (q - 1) ELSE 0]]    \* 10.0, 10.25, ... 45.0

Init ==
  \/ \E p \in 1..MaxP, si \in 1..Len(Shapes), nb \in 1..MaxB, li \in 1..Len(Spacings), k \in 1..MaxK,
        ii \in 1..Len(Inits), zi \in 1..Len(Seeds), ri \in 1..Len(Regs), ci \in 1..Len(Cfgs), fi \in 1..Len(Fts) :
       /\ Selected(p, si, nb, li, k, ii, zi, ri, ci, fi)
       /\ LET d == Data(Shapes[si], p, nb, Spacings[li]) IN
          case = [kind |-> "fit",
                  inp |-> [ft |-> Fts[fi], p |-> p, ds |-> 1, data |-> d,
                           shape |-> Shapes[si], nb |-> nb, sp |-> Spacings[li],
                           k |-> k, init |-> Inits[ii], seed |-> Seeds[zi],
                           regn |-> Regs[ri][1], regd |-> Regs[ri][2],
                           toln |-> Cfgs[ci][1], told |-> Cfgs[ci][2], runs |-> Cfgs[ci][3], maxit |-> Cfgs[ci][4],
                           queries |-> Queries(d, p, nb, Spacings[li])]]
  \/ \E p \in 1..2, k \in 1..2, fi \in 1..Len(Fts), ri \in {1, 2} :
       case = [kind |-> "sweep",
               inp |-> [ft |-> Fts[fi], p |-> p, ds |-> 4, data |-> IF p = 1 THEN SweepData ELSE SweepData2,
                        shape |-> "sweep", nb |-> 1, sp |-> 0,
                        k |-> k, init |-> "kmeans", seed |-> 1,
                        regn |-> Regs[ri][1], regd |-> Regs[ri][2],
                        toln |-> 1, told |-> 1000, runs |-> 1, maxit |-> 100,
                        queries |-> SweepQ(p)]]

Next == UNCHANGED case
Emit == PrintT("CASE " \o ToJson(case))
=============================================================================
