---------------------------- MODULE Gen_Embedding ----------------------------
(***************************************************************************************************)
(* Case generator for X03.  Every initial state is one case, printed as JSON.                       *)
(*   rp : random projection with an explicit target dimension                                       *)
(*        meth x float type x n_features x target_dim (0, 1, nf-1, nf, nf+1, 2nf) x n_samples x rngs *)
(*        and pooled-density cases (sparse, n_features a perfect square, several seeds)             *)
(*   jl : dimension from the precision eps = ep/eq; n_features placed around the                    *)
(*        Johnson-Lindenstrauss dimension of (n_samples, eps) (the documented error boundary),      *)
(*        and eps outside (0, 1)                                                                     *)
(*   dm : diffusion map of a dense Gaussian kernel of lattice points (all sorted multisets of 1-D    *)
(*        points, fixed 2-D configurations incl. the sizes that take the truncated solver), or of a  *)
(*        diagonally dominant symmetric matrix with dyadic entries; embedding sizes 0 .. n+1         *)
(***************************************************************************************************)
EXTENDS Embedding, Json

CONSTANTS NfSet,      \* numbers of features of the rp cases
          MaxPts,     \* largest multiset of 1-D points
          MaxCoord,   \* 1-D coordinates 0..MaxCoord
          JlNs,       \* numbers of samples of the jl cases
          MaxJlDim    \* jl cases with a larger dimension are left out (cost)

VARIABLE case

\* ---- random projections
Unit(ff, k, v) == [q \in 1..ff |-> IF q = k THEN v ELSE 0]
XOf(ff) == << Unit(ff, 1, 1), Unit(ff, ff, -2), [q \in 1..ff |-> ((2 * q) % 7) - 3],
              [q \in 1..ff |-> 0], [q \in 1..ff |-> 3] >>
Dims(ff) == {0, 1, ff - 1, ff, ff + 1, 2 * ff} \ {-1}
SeedSets == {<<-1, 7>>, <<3, 11>>}
RpCases ==
  {[kind |-> "rp", inp |-> [meth |-> m, ft |-> ft, nf |-> ff, ns |-> ns, td |-> dd, seeds |-> sd, X |-> XOf(ff)]] :
     m \in {"gauss", "sparse"}, ft \in {"f64", "f32"}, ff \in NfSet, dd \in 0..20, ns \in {1, 4}, sd \in SeedSets}
RpOk(c) == c.inp.td \in Dims(c.inp.nf)
\* pooled density: <<nf, seeds>>
PoolSet == {<<4, <<1, 2, 3, 4, 5, 6, 8, 9>>>>, <<9, <<1, 2, 3, 4, 5, 6, 8, 9>>>>, <<16, <<1, 2, 3, 4>>>>, <<25, <<1, 2, 3>>>>}
PoolCases ==
  {[kind |-> "rp", inp |-> [meth |-> "sparse", ft |-> ft, nf |-> p[1], ns |-> 2, td |-> p[1], seeds |-> p[2], X |-> XOf(p[1])]] :
     p \in PoolSet, ft \in {"f64", "f32"}}

\* ---- dimension from eps
EpsOk == {<<9, 10>>, <<3, 4>>, <<7, 10>>, <<1, 2>>, <<1, 4>>}
EpsBad == {<<0, 1>>, <<1, 1>>, <<3, 2>>, <<-1, 2>>}
Ones(ff) == <<[q \in 1..ff |-> 1]>>
JlCases ==
  {[kind |-> "jl", inp |-> [meth |-> m, ft |-> "f64", nf |-> JLLo(ns, e[1], e[2]) + off, ns |-> ns, ep |-> e[1], eq |-> e[2],
                            seeds |-> IF off = 0 THEN <<-1>> ELSE <<5>>, X |-> Ones(JLLo(ns, e[1], e[2]) + off)]] :
     m \in {"gauss", "sparse"}, e \in EpsOk, ns \in JlNs, off \in {-1, 0, 1, 2}}
JlOk(c) == JLHi(c.inp.ns, c.inp.ep, c.inp.eq) <= MaxJlDim
JlBadCases ==
  {[kind |-> "jl", inp |-> [meth |-> m, ft |-> "f64", nf |-> 5, ns |-> 3, ep |-> e[1], eq |-> e[2], seeds |-> <<5>>, X |-> Ones(5)]] :
     m \in {"gauss", "sparse"}, e \in EpsBad}

\* ---- diffusion maps
Sorted(s) == \A q \in 1..(Len(s) - 1) : s[q] <= s[q + 1]
MultiSets(n) == {s \in [1..n -> 0..MaxCoord] : Sorted(s)}
Pts1(s) == [q \in 1..Len(s) |-> <<s[q]>>]
StepsOf(n, es) == IF (n + es) % 2 = 0 THEN <<1, 2>> ELSE <<1, 3>>
DmRec(pts, en, ed, es, steps) ==
  [kind |-> "dm", inp |-> [direct |-> FALSE, pts |-> pts, en |-> en, ed |-> ed, es |-> es, steps |-> steps,
                           kn |-> <<>>, kd |-> 1]]
Dm1Cases ==
  {DmRec(Pts1(s), e[1], e[2], es, StepsOf(Len(s), es)) :
     s \in UNION {MultiSets(n) : n \in 2..MaxPts}, e \in {<<4, 1>>, <<9, 2>>}, es \in 1..(MaxPts + 1)}
Dm1Ok(c) == c.inp.es <= Len(c.inp.pts) + 1
\* fixed planar configurations; sizes 6..8 with one coordinate take the truncated (LOBPCG) solver
Grid(w, h) == [q \in 1..(w * h) |-> <<(q - 1) % w, (q - 1) \div w>>]
Planar == { Grid(2, 2), Grid(3, 2), Grid(4, 2), Grid(3, 3),
            <<<<0, 0>>, <<1, 0>>, <<2, 0>>, <<0, 1>>, <<0, 2>>>>,
            <<<<0, 0>>, <<1, 0>>, <<0, 1>>, <<3, 3>>, <<3, 2>>, <<2, 3>>>>,
            <<<<0, 0>>, <<0, 0>>, <<1, 1>>, <<2, 0>>, <<2, 0>>, <<3, 1>>, <<1, 3>>>>,
            <<<<0>>, <<1>>, <<2>>, <<3>>, <<4>>, <<5>>>>,
            <<<<0>>, <<1>>, <<1>>, <<3>>, <<4>>, <<4>>, <<5>>>>,
            <<<<0>>, <<2>>, <<3>>, <<5>>, <<6>>, <<7>>, <<8>>, <<9>>>> }
Dm2Cases ==
  {DmRec(p, e[1], e[2], es, StepsOf(Len(p), es)) :
     p \in Planar, e \in {<<8, 1>>, <<25, 2>>}, es \in {1, 2, 3}}
DmBadCases ==
  {DmRec(Grid(2, 2), 4, 1, es, st) : es \in {0, 1}, st \in {<<0>>, <<1, 0>>}} \cup {DmRec(Grid(2, 2), 4, 1, 0, <<1>>)}
\* symmetric, unit diagonal, off-diagonal entries a, b, c in sixteenths with row sums < 1: positive definite
Direct3 ==
  {[kind |-> "dm", inp |-> [direct |-> TRUE, pts |-> <<>>, en |-> 1, ed |-> 1, es |-> es, steps |-> StepsOf(3, es),
                            kn |-> <<<<16, a, b>>, <<a, 16, c>>, <<b, c, 16>>>>, kd |-> 16]] :
     a \in {1, 2, 4}, b \in {1, 2, 4}, c \in {1, 2, 4}, es \in {1, 2}}

GInit ==
  /\ \/ case \in {c \in RpCases : RpOk(c)} \/ case \in PoolCases
     \/ case \in {c \in JlCases : JlOk(c)} \/ case \in JlBadCases
     \/ case \in {c \in Dm1Cases : Dm1Ok(c)} \/ case \in Dm2Cases \/ case \in DmBadCases \/ case \in Direct3
  /\ phase = "gen" /\ nf = 0 /\ td = 0 /\ R = <<>> /\ graph = {}
GNext == UNCHANGED <<case, vars>>
Emit == PrintT("CASE " \o ToJson(case))
=============================================================================
