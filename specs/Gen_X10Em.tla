---------------------------- MODULE Gen_X10Em ----------------------------
(* Case generator for X10 / Gaussian mixture: the lattice blob families of C10 (Gen_Gmm: separated /  *)
(* overlapping, anisotropic, rank-deficient, duplicated, clumped data; both initialisers; seeds;      *)
(* regularisations; the six (tolerance, n_runs, max_n_iterations) configurations, three of them with  *)
(* n_runs >= 2 and two with budgets of 3..5 iterations), f64 only, one case = one `fit`.              *)
EXTENDS Gen_Gmm

XEmit ==
  IF case.kind = "fit" /\ case.inp.ft = "f64"
  THEN PrintT("CASE " \o ToJson([kind |-> "gm",
         inp |-> [p |-> case.inp.p, ds |-> case.inp.ds, data |-> case.inp.data, shape |-> case.inp.shape,
                  k |-> case.inp.k, init |-> case.inp.init, seed |-> case.inp.seed,
                  regn |-> case.inp.regn, regd |-> case.inp.regd, toln |-> case.inp.toln, told |-> case.inp.told,
                  runs |-> case.inp.runs, maxit |-> case.inp.maxit]]))
  ELSE TRUE
=============================================================================
