-------------------------- MODULE XC_DTreeIterInd --------------------------
(***************************************************************************)
(* X08 cross-check, typed side: TLC explores specs/DTreeIterInd.tla from   *)
(* EVERY subset of 1..M as the tree (the Build action is left out: Init    *)
(* already starts from every subset), checks IndInv and Safety on all      *)
(* reachable states and prints the states with a running / finished        *)
(* iterator in the JSON form of XC_DTreeIterRef.tla.                       *)
(***************************************************************************)
EXTENDS DTreeIterInd, Sequences, Json, TLC

TNext == IterStart \/ IterNext
Vec(s) == [i \in Idx |-> IF i \in s THEN 1 ELSE 0]
Emit == st # "idle" => PrintT("ST " \o ToJson([tree |-> Vec(tree), st |-> st, buf |-> buf, hd |-> hd, tl |-> tl]))
=============================================================================
