----------------------------- MODULE Gen_KMeans -----------------------------
(* Case generator for C09.                                                                      *)
(*  "traj"    : every dataset (sorted multiset of lattice points, so duplicates and "fewer      *)
(*              distinct points than clusters" are included), every k <= min(n, MaxK), every     *)
(*              tuple of precomputed lattice centroids (ordered for k <= 2, sorted for k = 3;    *)
(*              2 features and k >= 2: from corners, centre and an edge midpoint),               *)
(*              budgets 1..MaxB, n_runs 1..3, new observations = the whole grid plus one point outside on     *)
(*              either side.  Metric / float type: all variants for n = 1,                         *)
(*              one variant picked by a checksum of the input otherwise (half of them f64 + l2). *)
(*  Every case also names one of 8 memory layouts (reversed / strided views, F order) for its records.  *)
(*  "restart" : datasets as above (n >= 2), k, initialiser random / k-means++ (n_runs 1..Runs)   *)
(*              and k-means|| (one run), seeds, budgets 1, 2, 3 in turn or run to convergence.   *)
EXTENDS Integers, Sequences, FiniteSets, TLC, Json

CONSTANTS Grid1, MaxN1,      \* traj, 1 feature : points on 0..Grid1
          Grid2, MaxN2,      \* traj, 2 features: points on (0..Grid2)^2
          MaxK, MaxB,
          DeepN,             \* datasets with n <= DeepN get one more budget (denominators stay <= (DeepN+1)^(MaxB+1))
          RGrid1, RMaxN1, RGrid2, RMaxN2, Runs, Seeds,
          SparseLevel, SparseSeedMax  \* k-means|| on sparse positive data: which shapes (1, 2), seeds 1..SparseSeedMax

VARIABLE case

Pts1(g) == {<<a>> : a \in 0..g}
Pts2(g) == {<<a, b>> : a \in 0..g, b \in 0..g}
PLe(p, q) == \/ p[1] < q[1]
             \/ p[1] = q[1] /\ (Len(p) = 1 \/ p[2] <= q[2])
SortedSeqs(P, nn) == {s \in [1..nn -> P] : \A i \in 1..(nn - 1) : PLe(s[i], s[i + 1])}

Queries(f, g) ==
  IF f = 1 THEN [q \in 1..(g + 3) |-> <<q - 2>>]                                \* -1 .. g+1
  ELSE [q \in 1..((g + 1) * (g + 1)) |-> <<(q - 1) \div (g + 1), (q - 1) % (g + 1)>>] \o <<<<-1, -1>>, <<g + 1, 1>>>>

RECURSIVE SumTo(_, _)
SumTo(s, i) == IF i = 0 THEN 0 ELSE s[i] + SumTo(s, i - 1)
Check(pts, c0) ==
  SumTo([i \in 1..Len(pts) |-> (i + 2) * SumTo(pts[i], Len(pts[i])) + pts[i][1]], Len(pts))
  + SumTo([j \in 1..Len(c0) |-> (3 * j + 1) * SumTo(c0[j], Len(c0[j])) + 5 * c0[j][Len(c0[j])]], Len(c0))
  + Len(pts)

\* <<float type, metric, calling form>>
Variants(f) == <<
  <<"f64", "l2", "owned">>, <<"f64", "l2", "view">>, <<"f64", "lp3", "owned">>, <<"f64", "l2", "owned">>,
  <<"f32", "l2", "owned">>, <<"f64", "l1", "owned">>,
  <<"f64", IF f = 1 THEN "l1" ELSE "linf", "view">>, <<"f32", IF f = 1 THEN "l2" ELSE "l1", "owned">>,
  <<"f64", "lp1", "owned">>, <<"f64", "lp2", "owned">>, <<"f64", "lp3", "owned">>, <<"f64", "l2", "owned">> >>
NV == 12
\* lp3 (cubes, denominators den^3) only where every product stays below 2^31: n <= 4
Guard(v, n) == IF v[2] = "lp3" /\ n > 4 THEN <<v[1], "lp1", v[3]>> ELSE v
VarSet(f, n, h) == IF n = 1 THEN {Guard(Variants(f)[v], n) : v \in 1..NV} ELSE {Guard(Variants(f)[(h % NV) + 1], n)}

\* memory layout in which the harness hands the (same logical) records to fit / predict / transform
Layouts == <<"owned", "view", "revf", "revr", "revb", "forder", "row2", "col2">>
Layout(h) == Layouts[((h \div 4) % 8) + 1]

\* tolerance as a fraction: 10^-9 (never met by a non-zero move), or 1/2, 3/2 (l2 only: the documented
\* criterion is the euclidean distance between old and new centroids) which stop the iteration early
Tiny == <<1, 1000000000>>
Huge == <<"4294967296", "4294967297", "4294967298", "18446744073709551615">>   \* 2^32, 2^32+1, 2^32+2, 2^64-1
TolSet(f, n, v, h) ==
  IF v[2] # "l2" THEN {Tiny}
  ELSE IF n = 1 /\ v = <<"f64", "l2", "owned">> THEN {Tiny, <<1, 2>>, <<3, 2>>}
  ELSE {<<Tiny, Tiny, <<1, 2>>, <<3, 2>>>>[((h \div 8) % 4) + 1]}

\* precomputed centroids: 1 feature: any grid points; 2 features, k >= 2: corners, centre and one edge midpoint
Sub2(g) == {<<0, 0>>, <<g, 0>>, <<0, g>>, <<g, g>>, <<g \div 2, g \div 2>>, <<g \div 2, 0>>}
C0s(f, g, P, k) ==
  LET Q == IF f = 2 /\ k >= 2 THEN Sub2(g) ELSE P
  IN IF k <= 2 THEN [1..k -> Q] ELSE SortedSeqs(Q, k)

Traj ==
  \E f \in 1..2 :
  LET g == IF f = 1 THEN Grid1 ELSE Grid2
      P == IF f = 1 THEN Pts1(g) ELSE Pts2(g)
  IN \E n \in 1..(IF f = 1 THEN MaxN1 ELSE MaxN2) :
     \E k \in 1..(IF n < MaxK THEN n ELSE MaxK) :
     \E pts \in SortedSeqs(P, n), c0 \in C0s(f, g, P, k) :
     \E v \in VarSet(f, n, Check(pts, c0)) :
     \E tol \in TolSet(f, n, v, Check(pts, c0)) :
       case = [kind |-> "traj",
               inp |-> [ft |-> v[1], metric |-> v[2], form |-> Layout(Check(pts, c0) + Len(v[1]) + Len(v[2])),
                        f |-> f, pts |-> pts, c0 |-> c0,
                        qs |-> Queries(f, g), ms |-> [m \in 1..(IF n <= DeepN /\ v[2] # "lp3" THEN MaxB + 1 ELSE MaxB) |-> m],
                        \* restarts from the same precomputed centroids: n_runs must not change anything
                        nruns |-> <<1, 2, 1, 3>>[((Check(pts, c0) \div 32) % 4) + 1],
                        \* budgets of 2^32 and more where the tolerance ends the run after a few iterations
                        hms |-> IF tol # Tiny THEN Huge ELSE <<>>,
                        tol |-> tol]]

Restart ==
  \E f \in 1..2 :
  LET g == IF f = 1 THEN RGrid1 ELSE RGrid2
      P == IF f = 1 THEN Pts1(g) ELSE Pts2(g)
  IN \E n \in 2..(IF f = 1 THEN RMaxN1 ELSE RMaxN2) :
     \E k \in 1..(IF n < MaxK THEN n ELSE MaxK) :
     \E pts \in SortedSeqs(P, n), init \in {"random", "kmpp", "kmpara"}, seed \in Seeds :
     LET h == Check(pts, <<>>) + k + seed
         v == Variants(f)[(h % NV) + 1]
         \* iteration budgets: 1, 2, 3 one after the other (same seed), or run to convergence
         mi == IF (h \div 8) % 2 = 0 THEN <<1, 2, 3>> ELSE <<300>>
     IN
       case = [kind |-> "restart",
               inp |-> [ft |-> v[1], metric |-> v[2], form |-> Layout(h + Len(init)), f |-> f, pts |-> pts, k |-> k,
                        init |-> init,
                        seed |-> seed, runs |-> IF init = "kmpara" THEN 1 ELSE Runs, maxits |-> mi,
                        qs |-> Queries(f, g), tol |-> <<1, 1000000>>]]

\* k-means|| on sparse, strictly positive data: n observations with d features, all 1 except one "hot"
\* feature of value hot per observation (observation i: feature ((i-1) mod d) + 1).  Shapes are chosen
\* with (d - 1) + hot^2 < 2 (hot - 1)^2: an observation is nearer to the origin -- which lies outside the
\* bounding box [1, hot]^d -- than to any observation with another hot feature.  Every result must have
\* its centroids inside the bounding box (k-means|| is not repeatable, the clause is per result).
\* n is well above the 8k rows of the candidate buffer of k-means||, so most observations are no candidates.
SparsePts(n, d, hot) == [i \in 1..n |-> [j \in 1..d |-> IF j = ((i - 1) % d) + 1 THEN hot ELSE 1]]
SparseShapes ==     \* <<n, d, hot>>
  IF SparseLevel = 0 THEN {}
  ELSE IF SparseLevel = 1 THEN {<<40, 40, 9>>, <<40, 20, 7>>, <<30, 15, 7>>}
  ELSE {<<40, 40, 9>>, <<40, 20, 7>>, <<30, 15, 7>>, <<36, 12, 6>>, <<24, 24, 8>>}
Sparse ==
  \E sh \in SparseShapes, k \in 1..2, seed \in 1..SparseSeedMax :
    LET n == sh[1]
        d == sh[2]
        hot == sh[3]
        pts == SparsePts(n, d, hot)
    IN case = [kind |-> "restart",
               inp |-> [ft |-> IF seed % 3 = 0 THEN "f32" ELSE "f64", metric |-> "l2",
                        form |-> Layouts[((seed + k) % 8) + 1], f |-> d, pts |-> pts, k |-> k,
                        init |-> "kmpara", seed |-> seed, runs |-> 1, maxits |-> <<1, 2, 300>>,
                        qs |-> <<pts[1], pts[n], [j \in 1..d |-> 0], [j \in 1..d |-> 1]>>, tol |-> <<1, 1000000>>]]

Init == Traj \/ Restart \/ Sparse
Next == UNCHANGED case
Emit == PrintT("CASE " \o ToJson(case))
=============================================================================
