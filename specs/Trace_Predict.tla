--------------------------- MODULE Trace_Predict ---------------------------
(***************************************************************************)
(* C03 trace validation.  A case is the history of one fitted model:       *)
(*   member  : member j of a wrapper (or the inner decision function of a  *)
(*             Platt / probability-SVM model) predicts pool row `id` alone *)
(*   params  : the Platt parameters A, B (10^4)                            *)
(*   call    : entry k of the generated program was executed through the   *)
(*             real API: n outputs of width w, the codes, and for the      *)
(*             dataset forms the records handed back                       *)
(* The relations are the operators of Predict.tla (the invariants of the   *)
(* design model).  fnw / fnm are *inferred*: the first value recorded for  *)
(* a row is the reference every later call must reproduce.                 *)
(***************************************************************************)
EXTENDS Predict, TraceIO

CONSTANT Devs      \* named deviations (known findings)

VARIABLES c, e,      \* case and event cursor
          k,         \* program entries answered so far
          fnw,       \* row -> first recorded output of the model under test
          fnm,       \* member j -> (row -> first recorded output)
          ab         \* <<A, B>> at 10^4, or <<>>

tvars == <<c, e, k, fnw, fnm, ab>>

Case == Rec[c]
In   == Case.inp
Ev   == Case.ev[e]
M    == In.nm

\* tolerance on the model's own outputs, in code units, per row: labels exact; probabilities ("pr", always
\* at 10^6) 2; unbounded floats of ordinary rows (10^6): f64 2, f32 200; of extreme rows (10^3): f64 2,
\* f32 2000 (absolute error of an f32 linear form grows with the magnitude of the row)
TolOf(ot, row) == IF ot = "lab" THEN 0
                  ELSE IF ot = "pr" \/ In.ft # "f32" THEN 2
                  ELSE IF Extreme(row) THEN 2000 ELSE 200
Tol(row)  == TolOf(In.ot, row)
MTol(row) == TolOf(In.mot, row)

TraceInit ==
  /\ c \in 1..Len(Rec) /\ e = 1 /\ k = 0
  /\ fnw = <<>> /\ fnm = [jj \in 1..Rec[c].inp.nm |-> <<>>] /\ ab = <<>>
  \* the design-model variables are not used during trace validation
  /\ kind = "trace" /\ nm = 0 /\ mfn = <<>> /\ labels = <<>> /\ pa = 0 /\ pb = 0 /\ seen = <<>>
  /\ form = "none" /\ ids = <<>> /\ recs = <<>> /\ buf = <<>> /\ flat = <<>> /\ res = <<>> /\ j = 0 /\ pc = "trace"

HasEv(name) == e <= Len(Case.ev) /\ Ev.ev = name
Adv == e' = e + 1 /\ UNCHANGED <<c, vars>>

IsCode(x) == x \in Int
IsCodeVec(v) == \A q \in 1..Len(v) : IsCode(v[q])

TMember ==
  /\ HasEv("member")
  /\ Ev.j \in 1..M /\ Ev.id \in 1..Len(In.pool)
  /\ IsCodeVec(Ev.out) /\ Len(Ev.out) = 1
  /\ LET row == In.pool[Ev.id] IN
       /\ PerSampleOk(fnm[Ev.j], <<row>>, <<Ev.out>>, MTol)
       /\ fnm' = [fnm EXCEPT ![Ev.j] = Extend(@, <<row>>, <<Ev.out>>)]
  /\ Adv /\ UNCHANGED <<k, fnw, ab>>

TParams ==
  /\ HasEv("params")
  /\ IsCode(Ev.a) /\ IsCode(Ev.b)
  /\ ab = <<>> /\ ab' = <<Ev.a, Ev.b>>
  /\ Adv /\ UNCHANGED <<k, fnw, fnm>>

\* the clauses of one call, named so that a rejection can say which one is false
PE(kk)      == In.prog[kk]
RowsOf(kk)  == CallRows(In.pool, PE(kk).ids)
ClCount(kk)  == OnePerRow(PE(kk).ids, Ev.outs, Ev.n)
ClWidth(kk)  == Ev.w = In.w /\ AllWidth(Ev.outs, In.w) /\ \A p \in 1..Len(Ev.outs) : IsCodeVec(Ev.outs[p])
ClSample(kk) == PerSampleOk(fnw, RowsOf(kk), Ev.outs, Tol)
ClBack(kk)   == /\ Ev.hb = (PE(kk).fm \in {"own_arr", "own_ds"})
                /\ Ev.hb => (Ev.bx /\ RecordsBack(RowsOf(kk), Ev.back))
ClKind(kk)   == CASE Case.kind = "mt" -> MTOk(fnm, M, RowsOf(kk), Ev.outs, MTol)
                  [] Case.kind = "mc" -> MCOk(fnm, M, In.labels, RowsOf(kk), Ev.outs, 2)
                  [] Case.kind = "platt" -> ab # <<>> /\ PlattOk(ab[1], ab[2], fnm[1], RowsOf(kk), Ev.outs)
                  [] OTHER -> TRUE

TCall ==
  /\ HasEv("call")
  /\ Ev.k = k + 1 /\ Ev.k <= Len(In.prog)
  /\ ClCount(Ev.k) /\ ClWidth(Ev.k) /\ ClSample(Ev.k) /\ ClBack(Ev.k) /\ ClKind(Ev.k)
  /\ fnw' = Extend(fnw, RowsOf(Ev.k), Ev.outs)
  /\ k' = Ev.k
  /\ Adv /\ UNCHANGED <<fnm, ab>>

Done == e = Len(Case.ev) + 1
MonoOk == Case.kind = "platt" => (ab # <<>> /\ PlattMono(ab[1], fnw, fnm[1]))

Accept ==
  /\ Done /\ k = Len(In.prog) /\ MonoOk
  /\ Ok(Case.id)
  /\ e' = e + 1 /\ UNCHANGED <<c, vars, k, fnw, fnm, ab>>

\* diagnostics (best effort): the first unexplained event and the clauses that are false, as one short
\* string (TLC wraps long tuples over several lines)
Falses(kk) ==
  (IF ClCount(kk) THEN "" ELSE " count") \o
  (IF ClCount(kk) /\ ~ClWidth(kk) THEN " width" ELSE "") \o
  (IF ClCount(kk) /\ ClWidth(kk) /\ ~ClSample(kk) THEN " per-sample" ELSE "") \o
  (IF ~ClBack(kk) THEN " back" ELSE "") \o
  (IF ClCount(kk) /\ ClWidth(kk) /\ ~ClKind(kk) THEN " wrapper" ELSE "")
Stuck ==
  /\ e <= Len(Case.ev)
  /\ ~(ENABLED TMember \/ ENABLED TParams \/ ENABLED TCall)
  /\ IF Ev.ev = "call" /\ Ev.k = k + 1 /\ Ev.k <= Len(In.prog)
       THEN Fail(Case.id, "k" \o ToString(Ev.k) \o " " \o PE(Ev.k).st \o "/" \o PE(Ev.k).fm \o "/" \o PE(Ev.k).ly \o ":" \o Falses(Ev.k))
       ELSE Fail(Case.id, "e" \o ToString(e) \o " " \o Ev.ev)
  /\ e' = Len(Case.ev) + 2 /\ UNCHANGED <<c, vars, k, fnw, fnm, ab>>
StuckEnd ==
  /\ Done /\ ~(k = Len(In.prog) /\ MonoOk)
  /\ Fail(Case.id, IF k # Len(In.prog) THEN "program not completed" ELSE "platt-monotone")
  /\ e' = e + 1 /\ UNCHANGED <<c, vars, k, fnw, fnm, ab>>

TraceNext == TMember \/ TParams \/ TCall \/ Accept \/ Stuck \/ StuckEnd
=============================================================================
