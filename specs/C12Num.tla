------------------------------- MODULE C12Num -------------------------------
(***************************************************************************)
(* C12 helper: rigorous interval arithmetic at fixed point S = 10^4 on top *)
(* of the shared Elem tables, so that every numeric clause of the C12      *)
(* relations is a sound enclosure: a quantity is a pair <<lo, hi>> of      *)
(* integers with  lo <= (true real value) * S <= hi.                       *)
(* Error sources enclosed: quantisation of the logged coefficients (scale  *)
(* 10^6, half a unit each), floor/ceil of every fixed-point product, and   *)
(* the table error of Elem (ElemErr units, checked by MC_Elem).            *)
(* All intermediate products stay below 2^31 for the stated ranges         *)
(* (|coefficients| <= 50, table values <= 2*10^5); TLC raises an error on  *)
(* overflow, never a wrong verdict.                                        *)
(***************************************************************************)
EXTENDS Elem

S == 10000

CeilDiv(a, b) == -((-a) \div b)                        \* b > 0
AbsSum(x) == SumSeq([j \in 1..Len(x) |-> Abs(x[j])])
MaxAbs(x) == IF Len(x) = 0 THEN 0 ELSE MaxSeq([j \in 1..Len(x) |-> Abs(x[j])])

IvPt(v) == <<v, v>>
IvAdd(a, b) == <<a[1] + b[1], a[2] + b[2]>>
IvSub(a, b) == <<a[1] - b[2], a[2] - b[1]>>
IvNeg(a) == <<-a[2], -a[1]>>
IvScale(a, k) == IF k >= 0 THEN <<a[1] * k, a[2] * k>> ELSE <<a[2] * k, a[1] * k>>    \* integer factor
IvWiden(a, e) == <<a[1] - e, a[2] + e>>
IvSum(s) == <<SumSeq([q \in 1..Len(s) |-> s[q][1]]), SumSeq([q \in 1..Len(s) |-> s[q][2]])>>
IvIn(v, a) == a[1] <= v /\ v <= a[2]
IvMeet(a, b) == a[1] <= b[2] /\ b[1] <= a[2]            \* the two enclosures are compatible
IvDivInt(a, d) == <<a[1] \div d, CeilDiv(a[2], d)>>     \* d > 0

\* floor / ceil of a*b/S for fixed-point a, b (|b| < 2*10^5): Fx.MulDiv is exact floor here
MulFl(a, b) == MulDiv(a, b, S)
MulCl(a, b) == -MulDiv(a, -b, S)
IvMul(a, b) ==
  LET lo == {MulFl(a[i], b[j]) : i \in 1..2, j \in 1..2}
      hi == {MulCl(a[i], b[j]) : i \in 1..2, j \in 1..2}
  IN <<MinSet(lo), MaxSet(hi)>>
\* 1/a for a strictly positive enclosure
IvRecip(a) == <<(S * S) \div a[2], CeilDiv(S * S, a[1])>>
\* sqrt(a) for a positive enclosure, a[2] < 2*10^5
IvSqrt(a) == <<Isqrt(a[1] * S), Isqrt(a[2] * S) + 1>>

\* elementary functions: enclosure of the table value widened by the table error
ExpErr(v) == ElemErr + v \div 20000                      \* ExpPos: interpolation error grows with the value
IvExp(a) == LET l == Exp(a[1])  h == Exp(a[2]) IN <<Max2(0, l - ExpErr(l)), h + ExpErr(h)>>   \* a[2] <= 3 S
IvSig(a) == <<Max2(0, Sigmoid(a[1]) - ElemErr), Min2(S, Sigmoid(a[2]) + ElemErr)>>

\* ---------------------------------------------------------------------------------------------
\* linear predictor  x . w + b  of an integer row x for logged coefficients w6, b6 (scale 10^6, each
\* within half a unit of the implementation's float), as an enclosure at scale 10^4
ZExactOk(x, w6, b6) ==
  SumSeq([j \in 1..Len(x) |-> Abs(x[j]) * (Abs(w6[j]) \div 1000 + 1)]) + Abs(b6) \div 1000 < 2000000
ZIv(x, w6, b6) ==
  IF ZExactOk(x, w6, b6)
    THEN LET z6 == Dot(x, w6) + b6
             e6 == (AbsSum(x) + 1) \div 2 + 1
         IN <<(z6 - e6) \div 100, CeilDiv(z6 + e6, 100)>>
    ELSE LET z4 == SumSeq([j \in 1..Len(x) |-> MulDiv(w6[j], x[j], 100)]) + b6 \div 100
             e4 == Len(x) + 2 + AbsSum(x) \div 200
         IN <<z4 - e4, z4 + e4>>

\* alpha * w at scale 10^4 for alpha = an/ad and w6 at scale 10^6
AlphaW(an, ad, w6) == <<(an * w6) \div (ad * 100) - 1, CeilDiv(an * w6, ad * 100) + 1>>

\* soft-max of a row of score enclosures zs (sequence of K enclosures): component k is increasing in its own
\* score and decreasing in the others, so the enclosure takes the extreme corners
SoftmaxIv(zs) ==
  LET K == Len(zs)
      m == MaxSeq([k \in 1..K |-> zs[k][2]])
      elo == [k \in 1..K |-> Max2(0, ExpNeg(m - zs[k][1]) - ElemErr)]
      ehi == [k \in 1..K |-> ExpNeg(m - zs[k][2]) + ElemErr]
      slo == SumSeq(elo)
      shi == SumSeq(ehi)
  IN [k \in 1..K |->
        << (elo[k] * S) \div (elo[k] + (shi - ehi[k])),
           Min2(S, CeilDiv(ehi[k] * S, ehi[k] + (slo - elo[k]))) >>]

\* a stationarity clause: the enclosure of a gradient component reaches zero up to the allowance
Stationary(g, allow) == g[1] - allow <= 0 /\ 0 <= g[2] + allow

\* f64 order key of 1.0 (harness::key64): sign-flipped bit pattern 0xBFF0000000000000 split 22/21/21
KeyOne == <<3144704, 0, 0>>
IsInt(v) == v \in Int
=============================================================================
