------------------------------ MODULE XC_EmIdx ------------------------------
(***************************************************************************)
(* X08 cross-check of the pointwise model: TLC explores specs/EmInd.tla    *)
(* (lower bounds -2..2, tol 2, as XC_EmInd.tla) and checks that for EVERY  *)
(* probe run sv <= R the module specs/EmIdx.tla is its projection on the   *)
(* history cell sv:                                                        *)
(*   IdxRefines  every initial state / step of EmInd is an initial state / *)
(*               step of EmIdx with s <- sv, p_lb <- hlb[sv], ...          *)
(*   IdxInv      IndInv and Safety of EmIdx hold for every probe           *)
(*   IdxSaysInd  the pointwise statements for all probes give EmInd's      *)
(*               quantified InvBest (without the hkept clause),            *)
(*               InvConverged and InvResult                                *)
(***************************************************************************)
EXTENDS XC_EmInd

\* Variant of the instantiated EmIdx (= Variant, except in the test that the refinement property has teeth)
CONSTANT IdxVariant
Idx(sv) == INSTANCE EmIdx WITH Variant <- IdxVariant, s <- sv, p_lb <- hlb[sv], p_conv <- hconv[sv], p_kept <- hkept[sv], p_iters <- hiters[sv]

IdxInv == \A sv \in Runs : Idx(sv)!IndInv /\ Idx(sv)!Safety
IdxInit == \A sv \in Runs : Idx(sv)!Init
IdxNext == \A sv \in Runs : Idx(sv)!Next
IdxRefines == IdxInit /\ [][IdxNext]_vars
IdxSaysInd ==
  ((\A sv \in Runs : Idx(sv)!PBest /\ Idx(sv)!PConv /\ Idx(sv)!PResult) /\ (hlen = 0 => brun = 0)) =>
     /\ hlen > 0 => (brun >= 1 /\ brun <= hlen /\ IsFirstMax(brun) /\ blbfin /\ blbv = hlb[brun] /\ bconv = hconv[brun])
     /\ InvConverged
     /\ InvResult
=============================================================================
