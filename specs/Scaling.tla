------------------------------- MODULE Scaling -------------------------------
(***************************************************************************************************)
(* C16 -- scalers and whiteners of linfa-preprocessing.                                            *)
(*                                                                                                 *)
(* Part 1: the defining relations, on integer matrices (rows = samples), with implementation       *)
(*   outputs observed as fixed point integers (S = 10^4 for values, SP = 10^6 for scales and       *)
(*   whitening matrices).  Every relation is exact integer arithmetic (ScalingBig: TLC integers     *)
(*   are 32 bit); irrational targets (1/std, 1/||x||_2) are compared through squares.              *)
(*     LinCellOk   the documented affine image of one cell for the six linear scaler variants      *)
(*     LinPostOk   the normalisation reached on the training matrix, computed from the outputs     *)
(*     LinFitOk    published offsets / scales                                                      *)
(*     NormRowOk   x / ||x|| per row, unit norm of the output, zero rows only finite               *)
(*     WhApplyOk   y = (x - mean) W^T with the published W ; WhCovOk identity sample covariance    *)
(*     AffineCol   "some fixed affine map": used for the columns whose image the statement leaves  *)
(*                 open (constant column under min-max, all-zero column under max-abs)             *)
(* Part 2: a bounded design model (Fit ; Apply row by row) in which the outputs are the exact      *)
(*   images rounded to the grid.  Its invariants are consequences of the definitions: the          *)
(*   relation accepts the rounded exact image (slack covers quantisation), rejects the image       *)
(*   moved by 3 grid units (the relation is tight), the postconditions follow from the cell        *)
(*   relation with the stated tolerances, parameters do not depend on the row order.               *)
(***************************************************************************************************)
EXTENDS Fx, TLC, ScalingBig

RECURSIVE Pow2(_)
Pow2(e) == IF e = 0 THEN 1 ELSE 2 * Pow2(e - 1)

S  == 10000       \* fixed point scale of values
SP == 1000000     \* fixed point scale of scales / whitening matrices

-----------------------------------------------------------------------------
(* column statistics of the training matrix, exact *)
Col(X, j) == [i \in 1..Len(X) |-> X[i][j]]
AbsSeq(s) == [i \in 1..Len(s) |-> Abs(s[i])]

\* shifted by the first element so that offset columns stay small:  dn = n * SUM d^2 - (SUM d)^2 = n^2 * variance
ColStats(col) ==
  LET n  == Len(col)
      c0 == col[1]
      d  == [i \in 1..n |-> col[i] - c0]
      sd == SumSeq(d)
      dm == MaxSeq(AbsSeq(d))
      dn == IF dm <= 1000 /\ n <= 40                       \* n^2 dm^2 < 2^31: machine arithmetic is exact
              THEN BInt(n * SumSeq([i \in 1..n |-> d[i] * d[i]]) - sd * sd)
              ELSE BNorm(BSub(BMulI(BDotI(d, d), n), BSq(BInt(sd))))
  IN [n |-> n, c0 |-> c0, sd |-> sd, sum |-> sd + n * c0, dn |-> dn, var |-> dn # <<>>,
      mn |-> MinSeq(col), mx |-> MaxSeq(col), ma |-> MaxSeq(AbsSeq(col))]

Stats(X, p) == [j \in 1..p |-> ColStats(Col(X, j))]

\* n * z - sum  (n times the centred value)
Cen(st, z) == st.n * (z - st.c0) - st.sd

\* | y/S - num/den | <= slack/S           (machine integers; den > 0) ; machine arithmetic where it cannot overflow
RatOk(y, num, den, slack) ==
  IF den <= 1000 /\ Abs(y) <= 1000000 /\ Abs(num) <= 100000
    THEN Abs(y * den - num * S) <= slack * den
    ELSE BRatClose(BInt(y), BMulI(BInt(num), S), BInt(den), BInt(slack))
\* | obs - scale * num / sqrt(dn) | <= slack     (obs big; num, slack, scale machine integers; dn big > 0)
SqrtOk(obs, num, dn, slack, scale) == BSqrtClose(obs, BMulI(BInt(num), scale), dn, BInt(slack))
\* the same for a machine-integer observation
SqrtOkI(y, num, dn, slack, scale) == BSqrtCloseI(y, Sgn(num), BSq(BMulC(BInt(num), BInt(scale))), dn, slack)

LinMethods == {"std", "nomean", "nostd", "none", "minmax", "maxabs"}

\* the statement fixes the image of the column (constant min-max columns and zero max-abs columns are left open)
Specified(meth, st) == ~(meth = "minmax" /\ st.mx = st.mn) /\ ~(meth = "maxabs" /\ st.ma = 0)

\* Columns may be expressed in a small unit: the real value of integer entry z of a column is z / d with d a power
\* of two carried by the case (d = 1: the integers themselves).  Dimensionless images (standardised, min-max,
\* max-abs) do not depend on d; images in data units (centred only / unchanged) do.
\* image of entry z in a column with statistics st and unit 1/d, observed as y (scale S), tolerance sl grid units
\* the min-max range is lo/rd .. hi/rd (rd = 1 or 2: integers and halves, exact in binary floating point)
LinCellOk(meth, lo, hi, st, z, y, sl, d, rd) ==
  CASE meth = "std"    -> IF st.var THEN SqrtOkI(y, Cen(st, z), st.dn, sl, S)
                                    ELSE RatOk(y, Cen(st, z), st.n * d, sl)         \* constant: only centred
    [] meth = "nomean" -> IF st.var
                            THEN IF d = 1 /\ Abs(y) <= 10000000 /\ Abs(st.sum) <= 100000    \* machine arithmetic exact
                                   THEN SqrtOkI(y * st.n - st.sum * S, st.n * Cen(st, z), st.dn, st.n * sl, S)
                                   \* | y n d - S sum - S n d Cen / sqrt(dn) | <= n d sl
                                   ELSE BSqrtClose(BSub(BMulI(BInt(y), st.n * d), BMulI(BInt(st.sum), S)),
                                                   BMulI(BMulI(BInt(Cen(st, z)), st.n * d), S), st.dn, BInt(st.n * d * sl))
                            ELSE RatOk(y, z, d, sl)
    [] meth = "nostd"  -> RatOk(y, Cen(st, z), st.n * d, sl)
    [] meth = "none"   -> RatOk(y, z, d, sl)
    [] meth = "minmax" -> st.mx > st.mn =>
                            RatOk(y, (z - st.mn) * (hi - lo) + lo * (st.mx - st.mn), (st.mx - st.mn) * rd, sl)
    [] meth = "maxabs" -> st.ma > 0 => RatOk(y, z, st.ma, sl)

\* centred second moment of an observed column: n * SUM y^2 - (SUM y)^2  (= n^2 * variance, scale S^2)
BigSeq(s) == [i \in 1..Len(s) |-> BInt(s[i])]
SumB(ycol) == BNorm(BSumSeq(BigSeq(ycol)))
M2(ycol) == BSub(BMulI(BDotI(ycol, ycol), Len(ycol)), BSq(SumB(ycol)))
BWithin(a, b, tol) == BLe(BAbs(BSub(a, b)), tol)

\* normalisation reached on the training matrix: ycol = observed outputs of column with statistics st, unit 1/d
LinPostOk(meth, lo, hi, st, ycol, sl, d, rd) ==
  LET n    == st.n
      n2   == n * n
      mean0 == BWithin(SumB(ycol), <<>>, BInt(n * sl))                               \* mean 0
      meanK == BWithin(BMulI(SumB(ycol), d), BMulI(BInt(st.sum), S), BInt(n * sl * d))  \* mean kept (= sum / (n d))
      var1  == BWithin(M2(ycol), BMulI(BInt(n2), S * S),               \* variance 1
                       BInt(n2 * (2 * S * sl + sl * sl)))
      \* spread kept: variance of the output = variance of the input = dn / (n d)^2 ; std(input) <= (mx - mn) / d
      varK  == BWithin(BMulI(BMulI(M2(ycol), d), d), BMul(BMulI(st.dn, S), BInt(S)),
                       BMulI(BAdd(BMulI(BMul(BInt(2 * S * sl), BInt(st.mx - st.mn)), d), BMulI(BInt(sl * sl * d), d)), n2))
  IN CASE meth = "std"    -> mean0 /\ (IF st.var THEN var1 ELSE \A i \in 1..n : Abs(ycol[i]) <= sl)
       [] meth = "nomean" -> meanK /\ (st.var => var1)
       [] meth = "nostd"  -> mean0 /\ varK
       [] meth = "none"   -> meanK /\ varK
       [] meth = "minmax" -> st.mx > st.mn =>                                     \* both ends attained
                               /\ Abs(rd * MinSeq(ycol) - S * lo) <= sl * rd
                               /\ Abs(rd * MaxSeq(ycol) - S * hi) <= sl * rd
       [] meth = "maxabs" -> st.ma > 0 => Abs(MaxSeq(AbsSeq(ycol)) - S) <= sl

\* published parameters of one column, observed in the unit of the integer entries: off = offset * d (scale S),
\* sc = scale / d (scale SP) -- exact rescalings by the power of two d, done by the harness; sc1 = the scale as
\* published (scale SP; 0 when too large for the grid).  slp = tolerance of sc, sc1 in SP units.
LinFitOk(meth, st, off, sc, sc1, sl, slp) ==
  LET scOne == Abs(sc1 - SP) <= slp
  IN CASE meth = "std"    -> /\ RatOk(off, st.sum, st.n, sl)
                             /\ st.var => SqrtOkI(sc, st.n, st.dn, slp, SP)
       [] meth = "nomean" -> st.var => SqrtOkI(sc, st.n, st.dn, slp, SP)
       [] meth = "nostd"  -> RatOk(off, st.sum, st.n, sl) /\ scOne
       [] meth = "none"   -> scOne
       [] meth = "minmax" -> /\ RatOk(off, st.mn, 1, sl)
                             /\ st.mx > st.mn => BRatClose(BInt(sc), BInt(SP), BInt(st.mx - st.mn), BInt(slp))
       [] meth = "maxabs" -> /\ Abs(off) <= sl
                             /\ st.ma > 0 => BRatClose(BInt(sc), BInt(SP), BInt(st.ma), BInt(slp))

-----------------------------------------------------------------------------
(* "some fixed affine map" for one column: obs = set of <<x, y>> (x input value, y observed output, scale S). *)
(* y = a*x + b for some a, b up to tol per observation  <=  every triple is collinear up to the        *)
(* propagated tolerance, and equal inputs give equal outputs.                                          *)
AffineCol(obs, tol) ==
  \A o1 \in obs : \A o2 \in obs : \A o3 \in obs :
    LET dx2 == o2[1] - o1[1]
        dx3 == o3[1] - o1[1]
    IN BLe(BAbs(BSub(BMul(BInt(o2[2] - o1[2]), BInt(dx3)), BMul(BInt(o3[2] - o1[2]), BInt(dx2)))),
           BInt(2 * tol * (Abs(dx2) + Abs(dx3))))

-----------------------------------------------------------------------------
(* norm scaling of one row x (machine integers) observed as y *)
Norms == {"l1", "l2", "max"}
ZeroRow(x) == \A j \in 1..Len(x) : x[j] = 0

NormRowOk(norm, x, y, sl) ==
  LET p == Len(x) IN
  ZeroRow(x) \/
  CASE norm = "l1"  -> LET n1 == SumSeq(AbsSeq(x)) IN
                       /\ \A j \in 1..p : RatOk(y[j], x[j], n1, sl)
                       /\ Abs(SumSeq(AbsSeq(y)) - S) <= p * sl                      \* unit l1 norm
    [] norm = "l2"  -> LET q == BDotI(x, x) IN
                       /\ \A j \in 1..p : SqrtOkI(y[j], x[j], q, sl, S)
                       /\ BWithin(BDotI(y, y), BInt(S * S), BInt(p * (2 * S * sl + sl * sl)))
    [] norm = "max" -> LET m == MaxSeq(AbsSeq(x)) IN
                       /\ \A j \in 1..p : RatOk(y[j], x[j], m, sl)
                       /\ Abs(MaxSeq(AbsSeq(y)) - S) <= sl

-----------------------------------------------------------------------------
(* whitening *)
\* n^2 * population covariance = n * SUM d_a d_b - sd_a sd_b  (integers, shifted columns), as a big integer
Scatter(X, sts, a, b) ==
  LET n  == Len(X)
      da == [i \in 1..n |-> X[i][a] - sts[a].c0]
      db == [i \in 1..n |-> X[i][b] - sts[b].c0]
  IN BNorm(BSub(BMulI(BDotI(da, db), n), BMul(BInt(sts[a].sd), BInt(sts[b].sd))))

\* determinant of a square matrix of big integers (Laplace expansion along the first row; p <= 4)
Minor(M, c) == [i \in 1..(Len(M) - 1) |-> [j \in 1..(Len(M) - 1) |-> M[i + 1][IF j < c THEN j ELSE j + 1]]]
RECURSIVE BDet(_)
BDet(M) ==
  IF Len(M) = 1 THEN M[1][1]
  ELSE BNorm(BSumSeq([c \in 1..Len(M) |->
         LET t == BMul(M[1][c], BDet(Minor(M, c))) IN IF c % 2 = 1 THEN t ELSE BNeg(t)]))

FullRank(X, p) ==
  LET sts == Stats(X, p) IN
  BSign(BDet([a \in 1..p |-> [b \in 1..p |-> Scatter(X, sts, a, b)]])) # 0

\* y = (x - mean) W^T, W observed at scale SP = 100 S (row a of W = wrow), mean exact; after division by S:
\*   | 100 n y - SUM_b (n x_b - sum_b) w_b | <= wq * SUM_b |n x_b - sum_b| + 100 n sl
\* ext = additional tolerance in the same units (0 normally; see WhMeanExtra for columns carrying a large offset)
WhCellOkX(sts, x, wrow, y, sl, wq, ext) ==
  LET p    == Len(x)
      cen  == [b \in 1..p |-> Cen(sts[b], x[b])]
      n    == sts[1].n
      sa   == SumSeq(AbsSeq(cen))
  IN IF sa <= 200 /\ Abs(y) <= 100000 /\ n <= 40 /\ ext <= 100000000 /\ \A b \in 1..p : Abs(wrow[b]) <= 5000000
       THEN Abs(100 * n * y - SumSeq([b \in 1..p |-> cen[b] * wrow[b]])) <= wq * sa + 100 * n * sl + ext  \* < 2^31
       ELSE BWithin(BMulI(BInt(y), 100 * n), BDotI(cen, wrow), BAdd(BInt(wq * sa + 100 * n * sl), BInt(ext)))
WhCellOk(sts, x, wrow, y, sl, wq) == WhCellOkX(sts, x, wrow, y, sl, wq, 0)

\* Columns carrying a large offset 2^oe[b] (exactly representable data; the specification works on the un-shifted
\* integers, whitening being shift-equivariant in the mean and shift-invariant otherwise).  A backward-stable
\* centring subtracts a mean that is correct to one or two units in the last place of the offset:
\*   | fitted mean - true mean | <= 2^(oe - T + 1)      (T = 52 for f64, 23 for f32; T - 1 - oe >= 0 here)
\* which moves EVERY whitened row by the same vector -delta W^T.  In the units of WhCellOk this adds
\*   n * SUM_b 2^(oe[b] - T + 1) |w_b|   <=  n * SUM_b (|w_b| \div 2^(T - 1 - oe[b]) + 1)        (columns with oe[b] > 0)
WhMeanExtra(n, wrow, oe, T) ==
  n * SumSeq([b \in 1..Len(wrow) |-> IF oe[b] = 0 THEN 0
                                        ELSE IF T - 1 - oe[b] >= 30 THEN 1
                                        ELSE Abs(wrow[b]) \div Pow2(T - 1 - oe[b]) + 1])
\* ... while DIFFERENCES of rows are unaffected (differences of exactly representable values are exact):
\*   | 100 n (y - yref) - SUM_b n (x_b - xref_b) w_b | <= wq * SUM_b n |x_b - xref_b| + 200 n sl
WhDiffOk(n, x, xref, wrow, y, yref, sl, wq) ==
  LET p   == Len(x)
      dx  == [b \in 1..p |-> n * (x[b] - xref[b])]
      sa  == SumSeq(AbsSeq(dx))
  IN IF sa <= 200 /\ Abs(y) <= 100000 /\ Abs(yref) <= 100000 /\ n <= 40 /\ \A b \in 1..p : Abs(wrow[b]) <= 5000000
       THEN Abs(100 * n * (y - yref) - SumSeq([b \in 1..p |-> dx[b] * wrow[b]])) <= wq * sa + 200 * n * sl
       ELSE BWithin(BMulI(BSub(BInt(y), BInt(yref)), 100 * n), BDotI(dx, wrow), BInt(wq * sa + 200 * n * sl))

\* sample covariance (ddof 1) of the observed training outputs Y (rows) is the identity:
\*   | n SUM y_a y_b - SUM y_a SUM y_b - n (n-1) S^2 [a = b] | <= n (n-1) S * slw
WhCovOk(Y, p, slw) ==
  LET n == Len(Y) IN
  \A a \in 1..p : \A b \in a..p :
    LET ya == Col(Y, a)
        yb == Col(Y, b)
    IN BWithin(BSub(BMulI(BDotI(ya, yb), n), BMul(SumB(ya), SumB(yb))),
               IF a = b THEN BMul(BInt(n * (n - 1)), BMul(BInt(S), BInt(S))) ELSE <<>>,
               BMulI(BInt(n * (n - 1)), S * slw))

\* The same when the fitted mean may be off by delta (large column offsets, see WhMeanExtra): the code then whitens
\* the second moment about the fitted mean, and the covariance about the true mean is I - n/(n-1) ybar ybar^T, where
\* ybar = -W delta is the (small, common) mean of the whitened rows.  In the units above the tolerance grows by
\* |SUM y_a| |SUM y_b|, a quantity of the outputs themselves.
WhCovOkShift(Y, p, slw) ==
  LET n == Len(Y) IN
  \A a \in 1..p : \A b \in a..p :
    LET ya == Col(Y, a)
        yb == Col(Y, b)
    IN BWithin(BSub(BMulI(BDotI(ya, yb), n), BMul(SumB(ya), SumB(yb))),
               IF a = b THEN BMul(BInt(n * (n - 1)), BMul(BInt(S), BInt(S))) ELSE <<>>,
               BAdd(BMulI(BInt(n * (n - 1)), S * slw), BMul(BAbs(SumB(ya)), BAbs(SumB(yb)))))

-----------------------------------------------------------------------------
(* Part 2 -- bounded design model.  Fit fixes the parameters; Apply maps one row at a time (the    *)
(* rows of the training matrix first, then two unseen rows outside the training range) to the      *)
(* exact image rounded to the grid.                                                                *)
CONSTANTS MaxN,        \* one-column training matrices have 1..MaxN rows
          MaxN2,       \* two-column training matrices have 1..MaxN2 rows (0: none)
          NegV, PosV,  \* entry values of one-column matrices: -NegV..PosV  (wider matrices: Vals2)
          Sorted,      \* TRUE: one-column matrices are enumerated as non-decreasing columns only
          SmallSh      \* > 0: one-column linear scalers are also run on the data divided by 2^SmallSh (small unit)

Vals1 == (0 - NegV)..PosV
Vals2 == {-1, 0, 2}

VARIABLES meth, rng, X, pc, par, k, outs
vars == <<meth, rng, X, pc, par, k, outs>>

P == Len(X[1])
N == Len(X)
Lowest  == CHOOSE v \in Vals1 : \A w \in Vals1 : v <= w
Highest == CHOOSE v \in Vals1 : \A w \in Vals1 : v >= w
AllRows == X \o <<[j \in 1..P |-> Lowest - 1], [j \in 1..P |-> Highest + 2]>>

RoundRat(num, den) == RoundDiv(num, den)          \* nearest integer to num/den, den > 0

\* largest f in lo..hi-1 with f^2 * D <= E2   (lo^2 D <= E2 < hi^2 D)
RECURSIVE FloorSqrtB(_, _, _, _)
FloorSqrtB(E2, D, lo, hi) ==
  IF hi - lo <= 1 THEN lo
  ELSE LET mid == (lo + hi) \div 2 IN
       IF BLe(BMul(BSq(BInt(mid)), D), E2) THEN FloorSqrtB(E2, D, mid, hi) ELSE FloorSqrtB(E2, D, lo, mid)
\* nearest integer to sgn * sqrt(E2 / D), bound > sqrt(E2 / D)
RoundSqrt(sgn, E2, D, bound) ==
  LET f == FloorSqrtB(E2, D, 0, bound + 1)
      up == BLe(BMul(BSq(BInt(2 * f + 1)), D), BMulI(E2, 4))
  IN sgn * (IF up THEN f + 1 ELSE f)
IdealSqrt(num, D) == RoundSqrt(Sgn(num), BSq(BInt(num)), D, Abs(num))        \* num / sqrt(D), D >= 1

IdealLin(m, lo, hi, st, z, d) ==                 \* d = unit of the column (real value = z / d)
  CASE m = "std"    -> IF st.var THEN IdealSqrt(S * Cen(st, z), st.dn) ELSE RoundRat(S * Cen(st, z), st.n * d)
    [] m = "nomean" -> IF st.var THEN IdealSqrt(S * Cen(st, z), st.dn) + RoundRat(S * st.sum, st.n * d)
                                 ELSE RoundRat(S * z, d)
    [] m = "nostd"  -> RoundRat(S * Cen(st, z), st.n * d)
    [] m = "none"   -> RoundRat(S * z, d)
    [] m = "minmax" -> IF st.mx > st.mn
                         THEN RoundRat(S * ((z - st.mn) * (hi - lo) + lo * (st.mx - st.mn)), st.mx - st.mn)
                         ELSE S * lo + RoundRat(S * (z - st.mn) * (hi - lo), d)     \* convention of the code (not demanded)
    [] m = "maxabs" -> IF st.ma > 0 THEN RoundRat(S * z, st.ma) ELSE RoundRat(S * z, d)

IdealNorm(m, x) ==
  IF ZeroRow(x) THEN x
  ELSE CASE m = "l1"  -> [j \in 1..Len(x) |-> RoundRat(S * x[j], SumSeq(AbsSeq(x)))]
         [] m = "l2"  -> [j \in 1..Len(x) |-> IdealSqrt(S * x[j], BDotI(x, x))]
         [] m = "max" -> [j \in 1..Len(x) |-> RoundRat(S * x[j], MaxSeq(AbsSeq(x)))]

\* one-column whitening: y = (x - mean) / sample std = Cen * sqrt(n - 1) / sqrt(n * dn)
IdealWh1(st, z) ==
  LET c == Cen(st, z) IN
  RoundSqrt(Sgn(c), BMulI(BSq(BInt(S * c)), st.n - 1), BMulI(st.dn, st.n), S * Abs(c) * st.n)

IdealRow(x) ==
  IF meth \in LinMethods THEN [j \in 1..P |-> IdealLin(meth, rng[1], rng[2], par[j], x[j], rng[3])]
  ELSE IF meth \in Norms THEN IdealNorm(meth, x)
  ELSE <<IdealWh1(par[1], x[1])>>

\* <<lo, hi, d>>: min-max range and the unit 1/d of the columns (d = 2^SmallSh only for one-column linear scalers)
Units(m, p) == IF SmallSh > 0 /\ p = 1 /\ m \in LinMethods THEN {1, Pow2(SmallSh)} ELSE {1}
Ranges(m, p) == {<<r[1], r[2], d>> : r \in (IF m = "minmax" THEN {<<0, 1>>, <<-1, 1>>, <<5, 10>>, <<2, 2>>, <<1, 2>>, <<-1, 0>>} ELSE {<<0, 1>>}),
                                     d \in Units(m, p)}

Init ==
  /\ \/ \E n \in 1..MaxN  : /\ X \in [1..n -> [1..1 -> Vals1]]
                            /\ Sorted => \A i \in 1..(n - 1) : X[i][1] <= X[i + 1][1]
     \/ \E n \in 1..MaxN2 : X \in [1..n -> [1..2 -> Vals2]]
  /\ meth \in LinMethods \cup Norms \cup {"wh1"}
  /\ meth = "wh1" => P = 1 /\ N >= 2 /\ \E i \in 1..N : X[i] # X[1]
  /\ rng \in Ranges(meth, P)
  /\ pc = "fit" /\ par = <<>> /\ k = 0 /\ outs = <<>>

Fit ==
  /\ pc = "fit"
  /\ par' = Stats(X, P)
  /\ pc' = "apply"
  /\ UNCHANGED <<meth, rng, X, k, outs>>

Apply ==
  /\ pc = "apply" /\ k < Len(AllRows)
  /\ outs' = Append(outs, IdealRow(AllRows[k + 1]))
  /\ k' = k + 1
  /\ UNCHANGED <<meth, rng, X, pc, par>>

Done ==
  /\ pc = "apply" /\ k = Len(AllRows)
  /\ pc' = "done"
  /\ UNCHANGED <<meth, rng, X, par, k, outs>>

Next == Fit \/ Apply \/ Done
Spec == Init /\ [][Next]_vars

\* vacuity guard (POSTCONDITION): the longest behaviour is Init ; Fit ; Apply x (rows + 2 unseen) ; Done, so the
\* search depth shows that every action was taken up to the last row of the largest matrix
PostDepth == TLCGet("diameter") = (IF MaxN >= MaxN2 THEN MaxN ELSE MaxN2) + 5

YCol(j) == [i \in 1..N |-> outs[i][j]]

\* the relation accepts the rounded exact image of every row (slack 1 covers the quantisation)
InvAccept ==
  \A r \in {k} \ {0} :                 \* the row applied last (every row is the last one in some state)
    IF meth \in LinMethods
      THEN \A j \in 1..P : LinCellOk(meth, rng[1], rng[2], par[j], AllRows[r][j], outs[r][j], 1, rng[3], 1)
    ELSE IF meth \in Norms THEN NormRowOk(meth, AllRows[r], outs[r], 1)
    ELSE TRUE

\* ... and rejects it when one cell is moved by three grid units (relation is tight, never vacuous)
Bump(y, j, d) == [y EXCEPT ![j] = @ + d]
InvTight ==
  \A r \in {k} \ {0} : \A j \in 1..P : \A d \in {-3, 3} :
    IF meth \in LinMethods
      THEN Specified(meth, par[j]) =>
             ~LinCellOk(meth, rng[1], rng[2], par[j], AllRows[r][j], outs[r][j] + d, 1, rng[3], 1)
    ELSE IF meth \in Norms THEN ZeroRow(AllRows[r]) \/ ~NormRowOk(meth, AllRows[r], Bump(outs[r], j, d), 1)
    ELSE TRUE

\* the normalisation of the statement follows from the cell relation, with the tolerances used
InvPost ==
  k >= N =>
    IF meth \in LinMethods
      THEN \A j \in 1..P : LinPostOk(meth, rng[1], rng[2], par[j], YCol(j), 1, rng[3], 1)
    ELSE IF meth = "wh1" THEN WhCovOk([i \in 1..N |-> outs[i]], 1, 4)
    ELSE TRUE

\* a 2 % error of the scale (e.g. sample instead of population deviation is >= 1.6 % for n <= 30) is rejected
Stretch(ycol) == [i \in 1..Len(ycol) |-> ycol[i] + ycol[i] \div 50]
InvPostTight ==
  k >= N =>
    /\ meth \in {"std", "nomean"} =>
         \A j \in 1..P : par[j].var /\ (meth = "std" \/ par[j].sum = 0) =>
                           ~LinPostOk(meth, rng[1], rng[2], par[j], Stretch(YCol(j)), 1, rng[3], 1)
    /\ meth = "wh1" => ~WhCovOk([i \in 1..N |-> <<outs[i][1] + outs[i][1] \div 50>>], 1, 4)

\* parameters do not depend on the order of the training rows
Rev(s) == [i \in 1..Len(s) |-> s[Len(s) + 1 - i]]
Core(st) == <<st.n, st.sum, st.var, st.mn, st.mx, st.ma>>
InvOrder ==
  pc # "fit" => \A j \in 1..P : LET rs == ColStats(Rev(Col(X, j))) IN
                                  Core(rs) = Core(par[j]) /\ BEq(rs.dn, par[j].dn)

\* every column of a linear scaler is an affine map of the input (also where the statement leaves the image open)
InvAffine ==
  pc = "done" /\ meth \in LinMethods =>
    \A j \in 1..P : AffineCol({<<AllRows[r][j], outs[r][j]>> : r \in 1..Len(AllRows)}, 1)

=============================================================================
