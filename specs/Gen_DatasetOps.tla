-------------------------- MODULE Gen_DatasetOps --------------------------
(* Case generator for C02: initial dataset configurations x programs (sequences of dataset         *)
(* operations with their arguments).  Programs are built along the static type of the dataset      *)
(* (DatasetOps!Applicable / ResTy), so every operation of a program exists for the Rust type it is  *)
(* applied to.  Sizes that depend on random outcomes are handled at run time (pick modulo the       *)
(* number of results; a program stops when nothing is left to continue with).                       *)
(*                                                                                                  *)
(* An operation is [op, a, b, pick, ls]:                                                            *)
(*   split  ratio = a / 2^b, pick = which half to continue with                                     *)
(*   shuffle a = seed; boot (a, b) = (samples, features); boots a = samples; bootf a = features     *)
(*   wl     ls = labels to keep; ova pick = which label's view; chunk a = chunk size                *)
(*   titer / fiter pick = which column's view; map a = 0 "inc" (l+1), 1 "half" (l div 2),           *)
(*   2 "rot" ((2l+1) mod 3: not monotone)                                                           *)
EXTENDS DatasetOps, Json

CONSTANTS Ns, Fs, Ts, Metas, Stores, Pats,   \* sets: initial configurations
          Depth,                             \* program length
          Level                              \* argument alphabet: "full", "mid", "min"

VARIABLE case

O(op, a, b, pick, ls) == [op |-> op, a |-> a, b |-> b, pick |-> pick, ls |-> ls]
O0(op) == O(op, 0, 0, 0, <<>>)

Third == <<11184811, 25>>      \* f32(1/3) = 0.33333334
Tenth == <<13421773, 27>>      \* f32(0.1)

SplitRatios(lv) == CASE lv = "full" -> {<<0, 0>>, <<1, 2>>, <<1, 1>>, <<3, 2>>, <<1, 0>>, Third, Tenth}
                     [] lv = "mid"  -> {<<1, 1>>, Third, <<1, 0>>}
                     [] OTHER       -> {<<1, 1>>}
Picks2(lv) == IF lv = "min" THEN {1} ELSE {0, 1}

\* label lists of with_labels: the caller's slice is arbitrary -- every order of each list, repeated labels, labels
\* that no sample carries (9; 3 unless a map produced it), the empty list
Perms3(a, b, c) == {<<a, b, c>>, <<a, c, b>>, <<b, a, c>>, <<b, c, a>>, <<c, a, b>>, <<c, b, a>>}
WlLists(lv) ==
  CASE lv = "full" -> {<<>>, <<0>>, <<1>>, <<0, 2>>, <<2, 0>>, <<1, 1>>, <<2, 0, 2>>, <<0, 0, 1>>, <<9, 1>>, <<1, 9>>, <<9>>}
                      \cup Perms3(1, 2, 3) \cup {<<2, 1, 0>>, <<1, 0, 2>>}
    [] lv = "mid"  -> {<<0>>, <<1, 2>>, <<2, 1>>, <<2, 0, 1>>, <<2, 2, 1>>, <<9, 1>>}
    [] OTHER       -> {<<0, 1>>, <<1, 0>>, <<1, 0, 1>>, <<9, 0>>}

\* iterator protocols: up to two non-consuming steps, then one consuming step
ProtoPre  == {100, 200, 201, 301, 400}                  \* next, nth(0), nth(1), by_ref().take(1), size_hint
ProtoLast == {500, 601, 602, 701, 702, 800, 900}        \* collect, skip(1), skip(2), step_by(1), step_by(2), last, count
Protocols == {<<z>> : z \in ProtoLast} \cup {<<x, z>> : x \in ProtoPre, z \in ProtoLast}
             \cup {<<x, y, z>> : x \in ProtoPre, y \in ProtoPre, z \in ProtoLast}
ProtoOps == {O("iterp", w, 1, 0, pr) : w \in 0..3, pr \in Protocols}

Alpha(lv, nf, nt, lastop) ==
  IF lv = "proto" THEN ProtoOps ELSE
  (IF lv \in {"mid", "min"} THEN {O("iterp", 0, 1, 0, <<100, 601>>)} ELSE {O("iterp", 0, 1, 0, <<100, 200, 702>>), O("iterp", 3, 2, 0, <<100, 601>>)}) \cup
  {O0("view"), O0("toowned"), O0("single")}
  \cup {O("split", ab[1], ab[2], p, <<>>) : ab \in SplitRatios(lv), p \in (IF lv = "min" THEN {0, 1} ELSE {0, 1})}
  \cup {O("shuffle", s, 0, 0, <<>>) : s \in (IF lv = "full" THEN {1, 2} ELSE {1})}
  \cup (CASE lv = "full" -> {O("boot", 2, 2, 0, <<>>), O("boot", 2, 2, 1, <<>>), O("boot", 3, 1, 0, <<>>)}
          [] lv = "mid"  -> {O("boot", 2, 2, 1, <<>>)}
          [] OTHER       -> {O("boot", 2, 2, 0, <<>>)})
  \cup {O("boots", s, 0, 0, <<>>) : s \in (IF lv = "full" THEN {1, 3} ELSE {2})}
  \cup {O("bootf", k, 0, 0, <<>>) : k \in (IF lv = "full" THEN {1, 3} ELSE {2})}
  \cup {O("wl", 0, 0, 0, ls) : ls \in WlLists(lv)}
  \cup {O("ova", 0, 0, p, <<>>) : p \in (CASE lv = "full" -> {0, 1, 2} [] lv = "mid" -> {0, 1} [] OTHER -> {1})}
  \cup (CASE lv = "full" -> {O("chunk", 1, 0, 0, <<>>), O("chunk", 1, 0, 2, <<>>), O("chunk", 2, 0, 0, <<>>),
                             O("chunk", 2, 0, 1, <<>>), O("chunk", 3, 0, 0, <<>>), O("chunk", 5, 0, 0, <<>>), O("chunk", 0, 0, 0, <<>>)}
          [] lv = "mid"  -> {O("chunk", 1, 0, 1, <<>>), O("chunk", 2, 0, 0, <<>>)}
          [] OTHER       -> {O("chunk", 2, 0, 0, <<>>)})
  \cup {O("titer", 0, 0, p, <<>>) : p \in 0..((IF nt > 2 THEN 2 ELSE nt) - 1)}
  \cup {O("fiter", 0, 0, p, <<>>) : p \in 0..((IF nf > 2 THEN 2 ELSE nf) - 1)}
  \cup {O("map", m, 0, 0, <<>>) : m \in (IF lv = "min" THEN {2} ELSE {0, 1, 2})}

NextNf(o, nf) == CASE o.op = "boot" -> o.b [] o.op = "bootf" -> o.a [] o.op = "fiter" -> 1 [] OTHER -> nf
NextNt(o, nt) == IF o.op = "titer" THEN 1 ELSE nt

\* operations that are statically known to be refused end their program: into_single_target of several target
\* columns (documented panic), sample_chunks(0)
Final(o, nt) == (o.op = "single" /\ nt # 1) \/ (o.op = "chunk" /\ o.a = 0)

\* all programs of length d (shorter only when no operation applies); sample_iter only as the last operation
RECURSIVE Progs(_, _, _, _, _)
Progs(ty, nf, nt, d, lv) ==
  IF d = 0 THEN {<<>>}
  ELSE LET os == {o \in Alpha(lv, nf, nt, "") : Applicable(o.op, ty, nt)} \cup (IF d = 1 THEN {O0("siter")} ELSE {})
       IN UNION {{<<o>> \o rest : rest \in (IF Final(o, nt) THEN {<<>>}
                                               ELSE Progs(ResTy(o.op, ty), NextNf(o, nf), NextNt(o, nt), d - 1, lv))} : o \in os}

GenInit ==
  /\ lab = <<>> /\ st = <<>> /\ depth = 0 /\ last = "gen"      \* the design-model variables are not used
  /\ \E n \in Ns, f \in Fs, t \in Ts, meta \in Metas, store \in Stores, pat \in Pats :
    LET nt == IF t = 0 THEN 1 ELSE t
        d0 == InitDs(n, f, t, meta \in {"all", "w"}, meta \in {"all", "names"}, IF store \in {"view", "views2"} THEN "view" ELSE "owned")
    IN \E prog \in Progs(d0.ty, f, nt, Depth, Level) :
         case = [kind |-> "prog",
                 inp |-> [n |-> n, f |-> f, t |-> t, w |-> meta \in {"all", "w"}, names |-> meta \in {"all", "names"},
                          store |-> store, lab |-> LabPat(pat, n, nt), prog |-> prog]]

GenNext == UNCHANGED <<case, dvars>>
Emit == PrintT("CASE " \o ToJson(case))
=============================================================================
