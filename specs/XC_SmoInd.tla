------------------------------ MODULE XC_SmoInd ------------------------------
(***************************************************************************)
(* X06 cross-check, typed side: TLC explores specs/SmoInd.tla and prints   *)
(* the states with pc \in {"run","done"} (outside the unrolled shrink and  *)
(* write-back loops) projected on the variables of Smo.tla, in the JSON    *)
(* form of XC_Smo.tla (Smo.tla keeps outv = <<>> until the write-back).    *)
(* TLC also checks IndInv and Safety of SmoInd here.                       *)
(***************************************************************************)
EXTENDS SmoInd, Sequences, Json, TLC

AsSeq(b) == [p \in 1..Cardinality(DOMAIN b) |-> b[p]]
Proj == [pos2s |-> AsSeq(pos2s), y |-> AsSeq(yP), b |-> AsSeq(bP), p |-> AsSeq(pP), ki |-> AsSeq(kiP), a |-> AsSeq(aP),
         nact |-> nact, pc |-> pc, out |-> IF pc = "run" THEN <<>> ELSE AsSeq(outv)]
Emit == pc \in {"run", "done"} => PrintT("ST " \o ToJson(Proj))
=============================================================================
