------------------------------- MODULE EmIdx -------------------------------
(***************************************************************************)
(* X08 (3a, unbounded) -- POINTWISE version of specs/EmInd.tla: the        *)
(* history arrays hlb / hconv / hkept / hiters are replaced by the cells   *)
(* of ONE probe run s (p_lb, p_conv, p_kept, p_iters), s being a rigid     *)
(* variable about which nothing is assumed but s >= 1.  Every variable is  *)
(* an unbounded integer / boolean / string and no constant bounds the      *)
(* model, so ONE Apalache consecution run proves the invariant for ALL     *)
(* nruns, ALL maxit, every tolerance, every sequence of lower bounds and   *)
(* every probe -- and a statement that holds for every probe s is the      *)
(* universally quantified statement about the history:                     *)
(*   PBest for all s   <=>   IsFirstMax(brun) /\ blbv = hlb[brun] /\       *)
(*                           bconv = hconv[brun]          (EmInd.InvBest,  *)
(*                           without the characterisation of hkept)        *)
(*   PConv for all s   <=>   EmInd.InvConverged (history part)             *)
(*   PResult + PBest   ==>   EmInd.InvResult                               *)
(* That this module is the projection of EmInd.tla on the probe cell is    *)
(* checked by TLC (XC_EmIdx.tla: for EVERY probe s <= R, every step of     *)
(* EmInd is a step of EmIdx with p_lb <- hlb[s], ..., and IndInv holds).   *)
(* The argument "holds for every probe => holds quantified" is the only    *)
(* step outside the tools (one line of predicate logic: s is rigid and     *)
(* arbitrary).                                                             *)
(* Variant as in EmInd.tla.                                                *)
(***************************************************************************)
EXTENDS Integers

CONSTANTS
  \* @type: Str;
  Variant

VARIABLES
  \* @type: Int;
  maxit,
  \* @type: Int;
  nruns,
  \* @type: Int;
  tol,
  \* the probe run (rigid)
  \* @type: Int;
  s,
  \* @type: Str;
  pc,
  \* @type: Int;
  run,
  \* @type: Int;
  it,
  \* @type: Bool;
  lbfin,
  \* @type: Int;
  lbv,
  \* @type: Int;
  conv,
  \* @type: Str;
  dec,
  \* @type: Int;
  brun,
  \* @type: Bool;
  blbfin,
  \* @type: Int;
  blbv,
  \* @type: Int;
  bconv,
  \* @type: Int;
  hlen,
  \* the history cell of run s (initial values until run s has ended)
  \* @type: Int;
  p_lb,
  \* @type: Int;
  p_conv,
  \* @type: Bool;
  p_kept,
  \* @type: Int;
  p_iters,
  \* @type: Str;
  res

vars == <<maxit, nruns, tol, s, pc, run, it, lbfin, lbv, conv, dec, brun, blbfin, blbv, bconv, hlen, p_lb, p_conv, p_kept, p_iters, res>>

\* @type: (Int) => Int;
EAbs(x) == IF x < 0 THEN -x ELSE x

Init ==
  /\ maxit \in Int /\ maxit >= 1 /\ nruns \in Int /\ nruns >= 1 /\ tol \in Int /\ s \in Int /\ s >= 1
  /\ pc = "start" /\ run = 0 /\ it = 0 /\ lbfin = FALSE /\ lbv = 0 /\ conv = -1 /\ dec = "none"
  /\ brun = 0 /\ blbfin = FALSE /\ blbv = 0 /\ bconv = -1
  /\ hlen = 0 /\ p_lb = 0 /\ p_conv = -1 /\ p_kept = FALSE /\ p_iters = 0
  /\ res = "none"

StartRun ==
  /\ pc = "start" /\ run < nruns
  /\ run' = run + 1 /\ it' = 0 /\ lbfin' = FALSE /\ lbv' = 0 /\ dec' = "none"
  /\ conv' = (IF Variant = "conv_not_reset" THEN conv ELSE -1)
  /\ pc' = "iter"
  /\ UNCHANGED <<maxit, nruns, tol, s, brun, blbfin, blbv, bconv, hlen, p_lb, p_conv, p_kept, p_iters, res>>

\* @type: (Int) => Bool;
Conv(v) ==
  IF ~lbfin THEN (Variant = "first_iter_converges" /\ EAbs(v) < tol)
  ELSE EAbs(v - lbv) < tol

\* @type: (Int) => Bool;
EmIterV(v) ==
  /\ pc = "iter" /\ it < maxit
  /\ dec' = (IF Conv(v) THEN "converged" ELSE "continue")
  /\ conv' = (IF Conv(v) THEN it ELSE IF Variant = "conv_not_reset" THEN conv ELSE -1)
  /\ pc' = (IF Conv(v) \/ it + 1 = maxit THEN "end" ELSE "iter")
  /\ lbfin' = TRUE /\ lbv' = v
  /\ it' = it + 1
  /\ UNCHANGED <<maxit, nruns, tol, s, run, brun, blbfin, blbv, bconv, hlen, p_lb, p_conv, p_kept, p_iters, res>>
EmIter == lbv' \in Int /\ EmIterV(lbv')

Kept ==
  IF ~lbfin THEN FALSE
  ELSE IF ~blbfin THEN TRUE
  ELSE IF Variant = "last_best" THEN lbv >= blbv ELSE lbv > blbv

EmRunEnd ==
  /\ pc = "end"
  /\ brun' = (IF Kept THEN run ELSE brun)
  /\ blbfin' = (IF Kept THEN lbfin ELSE blbfin)
  /\ blbv' = (IF Kept THEN lbv ELSE blbv)
  /\ bconv' = (IF Kept THEN conv ELSE bconv)
  /\ hlen' = hlen + 1
  /\ p_lb' = (IF hlen + 1 = s THEN lbv ELSE p_lb)
  /\ p_conv' = (IF hlen + 1 = s THEN conv ELSE p_conv)
  /\ p_kept' = (IF hlen + 1 = s THEN Kept ELSE p_kept)
  /\ p_iters' = (IF hlen + 1 = s THEN it ELSE p_iters)
  /\ pc' = (IF run = nruns THEN "result" ELSE "start")
  /\ UNCHANGED <<maxit, nruns, tol, s, run, it, lbfin, lbv, conv, dec, res>>

\* (the variant ok_if_any_converged of EmInd.tla reads the whole history: in the pointwise model it reads the probe cell)
EmResult ==
  /\ pc = "result"
  /\ res' = (IF Variant = "ok_if_any_converged"
               THEN (IF (s <= hlen /\ p_conv >= 0) \/ (brun > 0 /\ bconv >= 0) THEN "ok" ELSE "NotConverged")
               ELSE (IF brun > 0 /\ bconv >= 0 THEN "ok" ELSE "NotConverged"))
  /\ pc' = "done"
  /\ UNCHANGED <<maxit, nruns, tol, s, run, it, lbfin, lbv, conv, dec, brun, blbfin, blbv, bconv, hlen, p_lb, p_conv, p_kept, p_iters>>

Next == StartRun \/ EmIter \/ EmRunEnd \/ EmResult
Spec == Init /\ [][Next]_vars

-----------------------------------------------------------------------------
(* The statements, pointwise *)
InvBudget ==
  /\ it <= maxit /\ run <= nruns
  /\ pc = "end" => (conv >= 0 \/ it = maxit)
  /\ pc \in {"result", "done"} => hlen = nruns
\* the best run is at least as good as the probe run, strictly better than an EARLIER probe run, and IS the probe
\* run's record when the probe is the best run
PBest ==
  s <= hlen =>
    /\ brun >= 1 /\ brun <= hlen /\ blbfin
    /\ p_lb <= blbv
    /\ s < brun => p_lb < blbv
    /\ s = brun => (p_lb = blbv /\ p_conv = bconv)
    \* a kept run was strictly better than everything before it: at that moment it became the best run
    /\ p_kept => s <= brun
PConv ==
  /\ conv >= 0 => (conv = it - 1 /\ it >= 2 /\ dec = "converged")
  /\ s <= hlen => /\ p_iters >= 1 /\ p_iters <= maxit
                  /\ p_conv >= 0 => (p_conv = p_iters - 1 /\ p_iters >= 2)
                  /\ p_conv < 0 => p_iters = maxit
\* Ok iff the kept run converged (with PBest at s = brun: iff hconv[brun] >= 0)
PResult == pc = "done" => (brun >= 1 /\ ((res = "ok") <=> bconv >= 0))
Safety == InvBudget /\ PBest /\ PConv /\ PResult

-----------------------------------------------------------------------------
(* The inductive invariant *)
TypeOk ==
  /\ maxit \in Int /\ nruns \in Int /\ tol \in Int /\ s \in Int
  /\ pc \in {"start", "iter", "end", "result", "done"}
  /\ run \in Int /\ it \in Int
  /\ lbfin \in BOOLEAN /\ lbv \in Int /\ conv \in Int
  /\ dec \in {"none", "converged", "continue"}
  /\ brun \in Int /\ blbfin \in BOOLEAN /\ blbv \in Int /\ bconv \in Int
  /\ hlen \in Int /\ p_lb \in Int /\ p_conv \in Int /\ p_kept \in BOOLEAN /\ p_iters \in Int
  /\ res \in {"none", "ok", "NotConverged"}

IndInv ==
  /\ TypeOk
  /\ maxit >= 1 /\ nruns >= 1 /\ s >= 1
  /\ run >= 0 /\ it >= 0 /\ conv >= -1 /\ bconv >= -1 /\ hlen >= 0 /\ brun >= 0
  /\ InvBudget /\ PBest /\ PConv /\ PResult
  /\ pc = "start" => hlen = run
  /\ pc \in {"iter", "end"} => (run >= 1 /\ hlen = run - 1)
  /\ pc \in {"result", "done"} => (run = nruns /\ hlen = nruns)
  /\ pc = "iter" => (it < maxit /\ conv = -1 /\ (lbfin <=> it >= 1))
  /\ pc = "end" => (it >= 1 /\ lbfin)
  /\ pc # "done" => res = "none"
  /\ hlen = 0 => (brun = 0 /\ ~blbfin /\ blbv = 0 /\ bconv = -1)
  /\ hlen > 0 => (brun >= 1 /\ brun <= hlen /\ blbfin)
  /\ s > hlen => (p_lb = 0 /\ p_conv = -1 /\ ~p_kept /\ p_iters = 0)
=============================================================================
