----------------------------- MODULE MC_DTreeLn -----------------------------
(* Self-check of the table DTreeLn.Ln6T (one state per entry k).                                  *)
EXTENDS DTreeLn, Elem, TLC

VARIABLE k
Init == k \in 1..LnMax
Next == UNCHANGED k

LnOne6 == Ln6T[1] = 0 /\ Len(Ln6T) = LnMax
\* ln(k+1) - ln k against the atanh series (both entries rounded: 1 unit; series: < 0.03 units)
LnStep6 == k < LnMax => Abs((Ln6T[k + 1] - Ln6T[k]) * 1000 - LnStep9(k)) <= 1030
\* ln(ab) = ln a + ln b (three roundings)
LnProduct6 == \A a \in 2..17 : a * k <= LnMax => Abs(Ln6T[a * k] - Ln6T[a] - Ln6T[k]) <= 1
\* strictly increasing
LnMono6 == k < LnMax => Ln6T[k + 1] > Ln6T[k]
\* agreement with the shared, independently generated table (10^-4 units)
LnElem6 == Abs(Ln6T[k] - 100 * LnIntT[k]) <= 51
\* anchors: ln 2, ln 3, ln 10 to 10^-6
LnAnchors6 == Ln6T[2] = 693147 /\ Ln6T[3] = 1098612 /\ Ln6T[10] = 2302585
=============================================================================
