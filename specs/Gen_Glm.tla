------------------------------ MODULE Gen_Glm ------------------------------
(***************************************************************************)
(* Case generator for C12 (GLM part).  TLC enumerates small regression     *)
(* data sets (sorted 1-D designs x over 0..XMax with at least two distinct *)
(* values, targets from YSet -- quarter units for the logit link so that   *)
(* they lie in (0,1) --, optionally a second parity feature), every Tweedie*)
(* power {0, 1, 3/2, 2, 3} x link {identity, log, logit, auto (default)},  *)
(* alpha in {0, 1/10, 1}, with / without intercept; thinned by a hash      *)
(* modulus.  Not generated: identity link with power > 0 and no intercept  *)
(* (the implementation's start w = 0 has mean 0, outside the domain of the *)
(* deviance); identity link with power > 0 uses targets y + 1 >= 2 so that *)
(* the optimum stays well inside mu > 0.                                   *)
(* UnitInit: the same integer targets in the units 2^-10, 2^-20, 2^-30 and *)
(* 2^10 for the log link.                                                  *)
(* A second family probes the support check: targets containing 0 or a     *)
(* negative value for every power.                                         *)
(***************************************************************************)
EXTENDS Integers, Sequences, FiniteSets, TLC, Json

CONSTANTS NGlm, XMax, YSet, ThinD, Thin, UnitCodes, ThinU

VARIABLE case

Sorted(n, hi) == {s \in [1..n -> 0..hi] : (\A q \in 1..(n - 1) : s[q] <= s[q + 1]) /\ s[1] # s[n]}
RECURSIVE SumTo(_, _)
SumTo(f, n) == IF n = 0 THEN 0 ELSE f[n] + SumTo(f, n - 1)
Hash(xs, ts) == SumTo([q \in 1..Len(xs) |-> (q + 1) * (xs[q] + 1) * (ts[q] + 2) + q * q * ts[q]], Len(xs))

Powers == <<[n |-> 0, d |-> 1], [n |-> 1, d |-> 1], [n |-> 3, d |-> 2], [n |-> 2, d |-> 1], [n |-> 3, d |-> 1]>>
Links == <<"identity", "log", "logit", "auto">>
EffLink(lk, pn) == IF lk = "auto" THEN (IF pn <= 0 THEN "identity" ELSE "log") ELSE lk

Row(form, x, q) == IF form = 0 THEN <<x>> ELSE <<x, q % 2>>
QRows(form) == IF form = 0 THEN << <<0>>, <<2>> >> ELSE << <<0, 0>>, <<2, 1>> >>

\* thinning: a data set is kept iff Hash % ThinD = 0; a configuration of a kept data set iff (31 Hash + 17 code) % Thin = 0
MainInit ==
  \E n \in NGlm : \E xs \in Sorted(n, XMax), ys \in [1..n -> YSet] :
    /\ Hash(xs, ys) % ThinD = 0
    /\ \E pi \in 1..5, li \in 1..4, ai \in 0..2, ic \in BOOLEAN, form \in {0, 1} :
        LET pw == Powers[pi]
            lk == Links[li]
            an == <<0, 1, 10>>[ai + 1]
            eff == EffLink(lk, pw.n)
            h == 31 * Hash(xs, ys) + 17 * ((pi - 1) + 5 * (li - 1) + 20 * ai + 60 * (IF ic THEN 1 ELSE 0) + 120 * form)
            \* targets adapted to the link: quarter units 1..3 for the logit link, >= 2 for identity with power > 0
            yy == IF eff = "logit" THEN [q \in 1..n |-> ((ys[q] + q) % 3) + 1]
                  ELSE IF eff = "identity" /\ pw.n > 0 THEN [q \in 1..n |-> ys[q] + 1]
                  ELSE ys
        IN /\ h % Thin = 0
           /\ ~(eff = "identity" /\ pw.n > 0 /\ ~ic)
           /\ case = [kind |-> "glm",
                      inp |-> [x |-> [q \in 1..n |-> Row(form, xs[q], q)], p |-> form + 1, q |-> QRows(form),
                               y |-> yy, yd |-> IF eff = "logit" THEN 4 ELSE 1,
                               pn |-> pw.n, pd |-> pw.d, link |-> lk, an |-> an, ad |-> 10, icpt |-> ic, ue |-> 0,
                               maxit |-> 2000, te |-> IF (h \div 7) % 4 = 0 THEN 4 ELSE 6]]

\* support probes: the first target is 0 or negative
SupportInit ==
  \E pi \in 1..5, li \in {2, 4}, an \in {0, 10}, y1 \in {0, -1}, yd \in {1, 4} :
    LET pw == Powers[pi] IN
    case = [kind |-> "glm",
            inp |-> [x |-> << <<0>>, <<1>>, <<2>>, <<1>> >>, p |-> 1, q |-> QRows(0),
                     y |-> <<y1, 2, 3, 1>>, yd |-> yd, ue |-> 0,
                     pn |-> pw.n, pd |-> pw.d, link |-> Links[li], an |-> an, ad |-> 10, icpt |-> TRUE,
                     maxit |-> 2000, te |-> 6]]

\* target-unit family (log link, explicit or default, with intercept; powers 1, 3/2, 2, 3): the integer targets of the main
\* family measured in the unit 2^ue, ue in {-10, -20, -30, 10} selected by UnitCodes (exact in binary floating point). A change of unit shifts the intercept by
\* ue ln 2 and multiplies the data part of the gradient by 2^k, k = ue (2 - p). The solver tolerance 10^-te is chosen so
\* that the tolerance relative to the data part stays about 10^-6 (k <= 0: te = 6; k = 5: te = 5). Only k <= 5 is generated:
\* for a data gradient of magnitude 2^7 and more (Poisson counts in the hundreds, power 3 with tiny units) the L-BFGS line
\* search of the unchanged tree does not return (an observation about termination, outside the statement).
TeOf(k) == IF k <= 0 THEN 6 ELSE IF k <= 5 THEN 5 ELSE IF k <= 10 THEN 3 ELSE IF k <= 20 THEN 0 ELSE -3
UnitInit ==
  \E n \in NGlm : \E xs \in Sorted(n, XMax), ys \in [1..n -> YSet] :
    /\ Hash(xs, ys) % ThinD = 0
    /\ \E pi \in 2..5, li \in {2, 4}, ai \in 0..2, form \in {0, 1}, uc \in UnitCodes :
        LET pw == Powers[pi]
            ue == <<-10, -20, -30, 10>>[uc]          \* the cfg file cannot hold negative numbers
            an == <<0, 1, 10>>[ai + 1]
            k == (ue * (2 * pw.d - pw.n)) \div pw.d
            h == 31 * Hash(xs, ys) + 17 * ((pi - 2) + 4 * (li \div 4) + 8 * ai + 24 * form + 48 * (uc - 1))
        IN /\ h % ThinU = 0
           /\ k <= 5          \* larger k (Poisson targets x 2^10, power 3 in tiny units): the fit does not return, see report
           /\ case = [kind |-> "glm",
                      inp |-> [x |-> [q \in 1..n |-> Row(form, xs[q], q)], p |-> form + 1, q |-> QRows(form),
                               y |-> ys, yd |-> 1, ue |-> ue,
                               pn |-> pw.n, pd |-> pw.d, link |-> Links[li], an |-> an, ad |-> 10, icpt |-> TRUE,
                               maxit |-> 2000, te |-> TeOf(k)]]

Init == MainInit \/ SupportInit \/ UnitInit
Next == UNCHANGED case
Emit == PrintT("CASE " \o ToJson(case))
=============================================================================
