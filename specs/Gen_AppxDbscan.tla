-------------------------- MODULE Gen_AppxDbscan --------------------------
(* Case generator for X05: every sequence of lattice points of a bounded domain (absolute coordinates: *)
(* the grid of the algorithm is anchored at the origin, so inputs are NOT translation-normalised;      *)
(* negative coordinates, duplicates, collinear points and -- in one dimension, where the cell side is  *)
(* the dyadic tolerance itself -- points exactly on cell borders all arise by exhaustion), every       *)
(* min_points 1..n+1, tolerances on and between attainable distances, slacks 1/2, 1/4 and 2^-10, plus  *)
(* the invalid parameter values (min_points 0/1, tolerance 0/-1, slack 0/-1) on a few inputs.          *)
(* Larger structured inputs of the same schema come from props/x05.py.                                 *)
EXTENDS Integers, Sequences, FiniteSets, TLC, Json

CONSTANTS Dim, XNeg, XHi, YNeg, YHi, MinN, MaxN,
          EpsSet,       \* tolerances en/ed coded en * 10 + ed
          RhoSet,       \* slacks rn/rd coded rn * 10000 + rd
          Invalid       \* 0 | 1 : also emit the invalid-parameter cases

VARIABLE case

Coord(q) == IF q = 1 THEN (-XNeg)..XHi ELSE (-YNeg)..YHi
Lo == IF XNeg > YNeg THEN -XNeg ELSE -YNeg
Hi == IF XHi > YHi THEN XHi ELSE YHi
PointSet == {p \in [1..Dim -> Lo..Hi] : \A q \in 1..Dim : p[q] \in Coord(q)}

RECURSIVE SumS(_)
SumS(s) == IF s = <<>> THEN 0 ELSE Head(s) + SumS(Tail(s))
Hash(pts, mp, en) == SumS([p \in 1..Len(pts) |-> (p + 1) * (7 + SumS(pts[p]))]) + 3 * mp + 5 * en + Len(pts)
IndexNames == <<"kdtree", "linear", "balltree">>

Mk(kind, pts, mp, en, ed, rn, rd) ==
  LET h == Hash(pts, mp, en) IN
  [kind |-> kind,
   inp |-> [dim |-> Dim, pts |-> pts, minpts |-> mp, eps |-> [n |-> en, d |-> ed], rho |-> [n |-> rn, d |-> rd],
            ft |-> IF h % 3 = 2 /\ Dim = 1 THEN "f32" ELSE "f64", nn |-> IndexNames[((h \div 3) % 3) + 1]]]

Init ==
  \/ \E nn \in MinN..MaxN : \E pts \in [1..nn -> PointSet] :
     \E mp \in 2..(nn + 1), ee \in EpsSet, rr \in RhoSet :
        case = Mk("appx", pts, mp, ee \div 10, ee % 10, rr \div 10000, rr % 10000)
  \/ /\ Invalid = 1
     /\ \E nn \in {0, 2} : \E pts \in [1..nn -> {p \in PointSet : p[1] \in 0..1 /\ \A q \in 2..Dim : p[q] = 0}] :
        \E mp \in {0, 1, 2}, en \in {-1, 0, 1}, rn \in {-1, 0, 1} :
           /\ mp < 2 \/ en < 1 \/ rn < 1
           /\ case = Mk("invalid", pts, mp, en, 1, rn, 2)

Next == UNCHANGED case
Emit == PrintT("CASE " \o ToJson(case))
=============================================================================
