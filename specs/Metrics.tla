------------------------------- MODULE Metrics -------------------------------
(***************************************************************************************************)
(* C05 -- every evaluation metric equals its definition recomputed from first principles.         *)
(*                                                                                                 *)
(* Part 1: the definitions.  Inputs are integer sequences (labels, score numerators over a common  *)
(* denominator, lattice values, collinear positions); every score is an EXACT rational (C05Big: Q) *)
(* or, for the two ln-based scores, a fixed-point value at ES = 10^4 through the self-checked      *)
(* tables of Elem.  A rational whose textbook formula divides by zero is *undefined* (QUndef); the *)
(* property does not constrain the implementation there.                                           *)
(*                                                                                                 *)
(* Part 2: a bounded design model.  A state is one input of a bounded domain; `Start` evaluates    *)
(* all definitions on it, `Swap(i)` applies one transposition to all per-sample vectors together.  *)
(* TLC checks (a) every score is invariant under the reachable permutations and (b) algebraic      *)
(* consequences of the definitions (cells sum to n, accuracy = equal labels / n, |MCC| <= 1,        *)
(* AUC(1-p) = 1-AUC(p), R2 = 1 iff equal, explained variance shift-invariant and >= R2, |r| <= 1,   *)
(* silhouette in [-1,1] and scale/translation invariant ...), which guards against a wrong or      *)
(* vacuous relation.  Trace_Metrics uses the same operators on recorded outputs of the code.       *)
(***************************************************************************************************)
EXTENDS Elem, C05Big, TLC

\* ------------------------------------------------------------------------------ generic helpers
RECURSIVE SortedOfSet(_)
SortedOfSet(ss) == IF ss = {} THEN <<>> ELSE LET mn == MinSet(ss) IN <<mn>> \o SortedOfSet(ss \ {mn})
RECURSIVE InsertSorted(_, _)
InsertSorted(v, sq) == IF Len(sq) = 0 THEN <<v>>
                       ELSE IF v <= sq[1] THEN <<v>> \o sq ELSE <<sq[1]>> \o InsertSorted(v, Tail(sq))
RECURSIVE SortInts(_)
SortInts(sq) == IF Len(sq) = 0 THEN <<>> ELSE InsertSorted(sq[1], SortInts(Tail(sq)))
AbsDiff(u, w) == [q \in 1..Len(u) |-> Abs(u[q] - w[q])]
Diff(u, w) == [q \in 1..Len(u) |-> u[q] - w[q]]
SumSq(u) == SumSeq([q \in 1..Len(u) |-> u[q] * u[q]])
RECURSIVE PairsFrom(_, _, _)
PairsFrom(i, j, kk) == IF i >= kk THEN <<>>
                       ELSE IF j > kk THEN PairsFrom(i + 1, i + 2, kk)
                       ELSE <<<<i, j>>>> \o PairsFrom(i, j + 1, kk)
UpperPairs(kk) == PairsFrom(1, 2, kk)          \* (1,2),(1,3),..,(2,3),.. : row-major upper triangle

\* ------------------------------------------------------------------------------ confusion matrix
\* members: the union of both label sets, ascending, reversed when there are exactly two
CmMembers(pred, truth) ==
  LET ss == SortedOfSet(Range(pred) \cup Range(truth)) IN IF Len(ss) = 2 THEN <<ss[2], ss[1]>> ELSE ss
\* cell (i, j) counts the samples with predicted label members[i] and true label members[j]
CmCount(pred, truth, pa, tb) == Cardinality({q \in 1..Len(pred) : pred[q] = pa /\ truth[q] = tb})
CmCellsFor(pred, truth, mm) ==
  [i \in 1..Len(mm) |-> [j \in 1..Len(mm) |-> CmCount(pred, truth, mm[i], mm[j])]]
CmCells(pred, truth) == CmCellsFor(pred, truth, CmMembers(pred, truth))

MTot(M) == SumSeq([i \in 1..Len(M) |-> SumSeq(M[i])])
MDiag(M) == SumSeq([i \in 1..Len(M) |-> M[i][i]])
MRow(M, i) == SumSeq(M[i])
MCol(M, j) == SumSeq([i \in 1..Len(M) |-> M[i][j]])
MTranspose(M) == [i \in 1..Len(M) |-> [j \in 1..Len(M) |-> M[j][i]]]

\* one-vs-all: for member i   [[tp, fp], [fn, tn]]   (first index = predicted, second = true)
OvA(M) == [i \in 1..Len(M) |->
             LET tp == M[i][i]  fp == MRow(M, i) - tp  fn == MCol(M, i) - tp
             IN <<<<tp, fp>>, <<fn, MTot(M) - tp - fp - fn>>>>]
\* one-vs-one: one 2x2 matrix per unordered pair of members, n(n-1)/2 of them
OvO(M) == LET pp == UpperPairs(Len(M)) IN
          [p \in 1..Len(pp) |-> LET i == pp[p][1]  j == pp[p][2] IN <<<<M[i][i], M[i][j]>>, <<M[j][i], M[j][j]>>>>]
Flip2(B) == <<<<B[2][2], B[2][1]>>, <<B[1][2], B[1][1]>>>>      \* the same pair seen from the other member

AccQ(M) == Q(MDiag(M), MTot(M))
\* documented cell formulas (doc comments of precision()/recall(), pinned by test_cm_metrices):
\* binary: first label;  otherwise macro average over the one-vs-all matrices
BinPrecQ(B) == Q(B[1][1], B[1][1] + B[2][1])
BinRecQ(B) == Q(B[1][1], B[1][1] + B[1][2])
PrecQ(M) == IF Len(M) = 2 THEN BinPrecQ(M)
            ELSE QDiv(QSum([i \in 1..Len(M) |-> BinPrecQ(OvA(M)[i])]), QI(Len(M)))
RecQ(M) == IF Len(M) = 2 THEN BinRecQ(M)
           ELSE QDiv(QSum([i \in 1..Len(M) |-> BinRecQ(OvA(M)[i])]), QI(Len(M)))
\* F-beta = (1 + b^2) p r / (b^2 p + r), b^2 = bn / bd
FBetaQ(M, bn, bd) ==
  LET pq == PrecQ(M)  rq == RecQ(M)  b2 == Q(bn, bd)
  IN QDiv(QMul(QAdd(QI(1), b2), QMul(pq, rq)), QAdd(QMul(b2, pq), rq))
\* Matthews (multi-class, Gorodkin):  (c s - sum_k p_k t_k) / sqrt((s^2 - sum p_k^2)(s^2 - sum t_k^2))
MccN(M) == MDiag(M) * MTot(M) - SumSeq([kx \in 1..Len(M) |-> MRow(M, kx) * MCol(M, kx)])
MccA(M) == MTot(M) * MTot(M) - SumSeq([kx \in 1..Len(M) |-> MRow(M, kx) * MRow(M, kx)])
MccB(M) == MTot(M) * MTot(M) - SumSeq([kx \in 1..Len(M) |-> MCol(M, kx) * MCol(M, kx)])
MccDef(M) == MccA(M) > 0 /\ MccB(M) > 0

\* ------------------------------------------------------------------------------ ROC AUC, log-loss
\* scores are num[q] / den ; truth[q] in {0, 1}
Positives(tr) == {q \in 1..Len(tr) : tr[q] = 1}
Negatives(tr) == {q \in 1..Len(tr) : tr[q] = 0}
\* Mann-Whitney: #(pos > neg) + 1/2 #(pos = neg), over all (pos, neg) pairs   (times two)
AucNum2(sc, tr) ==
  SumSeq([i \in 1..Len(sc) |->
     IF tr[i] # 1 THEN 0
     ELSE SumSeq([j \in 1..Len(sc) |->
            IF tr[j] # 0 THEN 0 ELSE IF sc[i] > sc[j] THEN 2 ELSE IF sc[i] = sc[j] THEN 1 ELSE 0])])
AucQ(sc, tr) == Q(AucNum2(sc, tr), 2 * Cardinality(Positives(tr)) * Cardinality(Negatives(tr)))

\* -ln(2^-23) * ES : the clipping constant of log_loss is f32::EPSILON = 2^-23 ; 23 ln 2 = 15.942385
LnEps23 == 159424
\* -ln of the (clipped) probability given to the true class, at ES; |error| <= 2 units
\* (LnInt entries are rounded to nearest; -ln(1 - 2^-23) = 1.2e-7 is 0 at this scale)
LLTerm(kk, dd, tv) ==
  LET hit == IF tv = 1 THEN kk ELSE dd - kk IN
  IF hit = 0 THEN LnEps23 ELSE IF hit = dd THEN 0 ELSE LnInt(dd) - LnInt(hit)
LogLossSum(sc, dd, tr) == SumSeq([q \in 1..Len(sc) |-> LLTerm(sc[q], dd, tr[q])])

\* ------------------------------------------------------------------------------ regression scores
\* u = receiver (prediction), w = compare_to (ground truth); integer lattice values
MaxErrQ(u, w) == QI(MaxSeq(AbsDiff(u, w)))
MaeQ(u, w) == Q(SumSeq(AbsDiff(u, w)), Len(u))
MseQ(u, w) == Q(SumSq(Diff(u, w)), Len(u))
MedAeQ(u, w) == LET sd == SortInts(AbsDiff(u, w))  nn == Len(u)  mid == nn \div 2
                IN IF nn % 2 = 0 THEN Q(sd[mid] + sd[mid + 1], 2) ELSE QI(sd[mid + 1])
\* percentage error relative to the receiver; undefined if the receiver has a zero entry
MapeQ(u, w) == IF \E q \in 1..Len(u) : u[q] = 0 THEN QUndef
               ELSE QDiv(QSum([q \in 1..Len(u) |-> Q(Abs(u[q] - w[q]), Abs(u[q]))]), QI(Len(u)))
\* n * (sum of squared deviations of the truth from its mean) = n sum w^2 - (sum w)^2
NSsy(w) == Len(w) * SumSq(w) - SumSeq(w) * SumSeq(w)
R2Q(u, w) == IF NSsy(w) = 0 THEN QUndef
             ELSE QSub(QI(1), Q(Len(u) * SumSq(Diff(u, w)), NSsy(w)))
\* explained variance 1 - Var(u - w) / Var(w)
EVarQ(u, w) == IF NSsy(w) = 0 THEN QUndef
               ELSE QSub(QI(1), Q(Len(u) * SumSq(Diff(u, w)) - SumSeq(Diff(u, w)) * SumSeq(Diff(u, w)), NSsy(w)))
\* named deviation "explained_variance_subtracts_mean_error": what metrics_regression.rs computes,
\*   1 - (sum d^2 - mean(d)) / sum (w - mean w)^2
EVarDevQ(u, w) == IF NSsy(w) = 0 THEN QUndef
                  ELSE QSub(QI(1), Q(Len(u) * SumSq(Diff(u, w)) - SumSeq(Diff(u, w)), NSsy(w)))
\* the same when the values are u/uu, w/uu (uu a power-of-two unit): the subtracted mean error scales with 1/uu,
\* the squares with 1/uu^2
EVarDevUQ(u, w, uu) == IF NSsy(w) = 0 THEN QUndef
                       ELSE QSub(QI(1), Q(Len(u) * SumSq(Diff(u, w)) - uu * SumSeq(Diff(u, w)), NSsy(w)))
\* mean squared log error, values >= 0 : fixed point at ES through LnInt(1 + v)
MsleDef(u, w) == \A q \in 1..Len(u) : u[q] >= 0 /\ w[q] >= 0 /\ u[q] < 1024 /\ w[q] < 1024
MsleLd(u, w) == [q \in 1..Len(u) |-> Abs(LnInt(1 + u[q]) - LnInt(1 + w[q]))]
\* sum of squared log differences / ES  (each term floor-divided: error < 1 unit per term)
MsleSum(u, w) == SumSeq([q \in 1..Len(u) |-> (MsleLd(u, w)[q] * MsleLd(u, w)[q]) \div ES])
\* table error <= 1 unit per entry -> <= 2 per difference d -> |(d+e)^2 - d^2| / ES <= (4 d + 4) / ES, plus 1 (floor)
MsleTermErr(u, w) == (4 * MaxSeq(MsleLd(u, w)) + 4) \div ES + 2

\* ------------------------------------------------------------------------------ silhouette
\* collinear points: xs[q] integer positions, distance |xs[i] - xs[j]| ; lb[q] cluster labels
SilClusters(lb) == Range(lb)
SilCnt(lb, kk) == Cardinality({q \in 1..Len(lb) : lb[q] = kk})
SilSumD(xs, lb, i, kk) == SumSeq([j \in 1..Len(xs) |-> IF lb[j] = kk THEN Abs(xs[i] - xs[j]) ELSE 0])
\* the statement's domain: at least two clusters, each with at least two distinct points
SilDef(xs, lb) ==
  /\ Cardinality(SilClusters(lb)) >= 2
  /\ \A kk \in SilClusters(lb) : Cardinality({xs[q] : q \in {r \in 1..Len(lb) : lb[r] = kk}}) >= 2
SilA(xs, lb, i) == Q(SilSumD(xs, lb, i, lb[i]), SilCnt(lb, lb[i]) - 1)
SilBOf(xs, lb, i, kk) == Q(SilSumD(xs, lb, i, kk), SilCnt(lb, kk))
RECURSIVE QMinSeq(_)
QMinSeq(sq) == IF Len(sq) = 1 THEN sq[1] ELSE QMin(sq[1], QMinSeq(Tail(sq)))
SilB(xs, lb, i) == LET others == SortedOfSet(SilClusters(lb) \ {lb[i]})
                   IN QMinSeq([p \in 1..Len(others) |-> SilBOf(xs, lb, i, others[p])])
SilOne(xs, lb, i) == LET aq == SilA(xs, lb, i)  bq == SilB(xs, lb, i)
                     IN QDiv(QSub(bq, aq), QMax(aq, bq))
SilQ(xs, lb) == IF ~SilDef(xs, lb) THEN QUndef
                ELSE QDiv(QSum([i \in 1..Len(xs) |-> SilOne(xs, lb, i)]), QI(Len(xs)))

\* ------------------------------------------------------------------------------ Pearson
\* cols[i] = feature column i (integer sequence of length n).  n(n-1) cov_ij = n sum xy - sum x sum y
PearC(cols, i, j) == Len(cols[i]) * Dot(cols[i], cols[j]) - SumSeq(cols[i]) * SumSeq(cols[j])
PearDef(cols, i, j) == PearC(cols, i, i) > 0 /\ PearC(cols, j, j) > 0      \* non-constant columns
\* r_ij = PearC(i,j) / sqrt(PearC(i,i) PearC(j,j)) ; coefficient p of the result is pair UpperPairs(m)[p]

(***************************************************************************************************)
(* Part 2: bounded design model                                                                    *)
(***************************************************************************************************)
CONSTANTS CmLen, CmAlpha,          \* label vectors of length 1..CmLen over 0..CmAlpha-1
          RocLen, RocDen,          \* score numerators 0..RocDen, length 2..RocLen
          RegLen, RegNeg, RegHi,    \* lattice values -RegNeg..RegHi, length 1..RegLen
          SilLen, SilPos,          \* positions 0..SilPos, length 4..SilLen, labels 0..1
          PearRows, PearHi         \* two columns of PearRows rows over 0..PearHi

VARIABLES mkind, mcols, mphase, mbase
mvars == <<mkind, mcols, mphase, mbase>>

Vecs(nn, lo, hi) == [1..nn -> lo..hi]

MInit ==
  /\ mphase = "new" /\ mbase = <<>>
  /\ \/ /\ mkind = "cm"
        /\ \E nn \in 1..CmLen : \E pv \in Vecs(nn, 0, CmAlpha - 1), tv \in Vecs(nn, 0, CmAlpha - 1) : mcols = <<pv, tv>>
     \/ /\ mkind = "roc"
        /\ \E nn \in 2..RocLen : \E sv \in Vecs(nn, 0, RocDen), tv \in Vecs(nn, 0, 1) : mcols = <<sv, tv>>
     \/ /\ mkind = "reg"
        /\ \E nn \in 1..RegLen : \E uv \in Vecs(nn, -RegNeg, RegHi), wv \in Vecs(nn, -RegNeg, RegHi) : mcols = <<uv, wv>>
     \/ /\ mkind = "sil"
        /\ \E nn \in 4..SilLen : \E xv \in Vecs(nn, 0, SilPos), lv \in Vecs(nn, 0, 1) : mcols = <<xv, lv>>
     \/ /\ mkind = "pear"
        /\ \E c1 \in Vecs(PearRows, 0, PearHi), c2 \in Vecs(PearRows, 0, PearHi) : mcols = <<c1, c2>>

\* everything the definitions say about one input: <<exact structures, sequence of rationals>>
Scores(kind, cols) ==
  CASE kind = "cm" ->
         LET M == CmCells(cols[1], cols[2]) IN
         <<<<CmMembers(cols[1], cols[2]), M, OvA(M), OvO(M), MccN(M), MccA(M), MccB(M)>>,
           <<AccQ(M), PrecQ(M), RecQ(M), FBetaQ(M, 1, 1), FBetaQ(M, 1, 4), FBetaQ(M, 4, 1)>>>>
    [] kind = "roc" ->
         <<<<LogLossSum(cols[1], RocDen, cols[2])>>, <<AucQ(cols[1], cols[2])>>>>
    [] kind = "reg" ->
         <<<<IF MsleDef(cols[1], cols[2]) THEN MsleSum(cols[1], cols[2]) ELSE -1>>,
           <<MaxErrQ(cols[1], cols[2]), MaeQ(cols[1], cols[2]), MseQ(cols[1], cols[2]), MedAeQ(cols[1], cols[2]),
             MapeQ(cols[1], cols[2]), R2Q(cols[1], cols[2]), EVarQ(cols[1], cols[2])>>>>
    [] kind = "sil" -> <<<<>>, <<SilQ(cols[1], cols[2])>>>>
    [] kind = "pear" -> <<<<PearC(cols, 1, 2), PearC(cols, 1, 1), PearC(cols, 2, 2)>>, <<>>>>

Start ==
  /\ mphase = "new"
  /\ mphase' = "run"
  /\ mbase' = Scores(mkind, mcols)
  /\ UNCHANGED <<mkind, mcols>>

SwapAt(sq, i) == [q \in 1..Len(sq) |-> IF q = i THEN sq[i + 1] ELSE IF q = i + 1 THEN sq[i] ELSE sq[q]]
\* one transposition applied to all per-sample vectors together
Swap ==
  /\ mphase = "run"
  /\ \E i \in 1..(Len(mcols[1]) - 1) : mcols' = [cx \in 1..Len(mcols) |-> SwapAt(mcols[cx], i)]
  /\ UNCHANGED <<mkind, mphase, mbase>>

MNext == Start \/ Swap

Run == mphase = "run"
Cur == Scores(mkind, mcols)
QSeqEq(s1, s2) == Len(s1) = Len(s2) /\ \A q \in 1..Len(s1) : QEq(s1[q], s2[q])

\* (a) every score is unchanged by one permutation applied to predictions and truths together
InvPermutation == Run => (Cur[1] = mbase[1] /\ QSeqEq(Cur[2], mbase[2]))

QIn01(qq) == QDef(qq) => (QSgn(qq) >= 0 /\ QLe(qq, QI(1)))
QInPm1(qq) == QDef(qq) => (QLe(QI(-1), qq) /\ QLe(qq, QI(1)))

\* (b) consequences of the definitions
InvCm == (Run /\ mkind = "cm") =>
  LET pv == mcols[1]  tv == mcols[2]  nn == Len(pv)
      M == CmCells(pv, tv)  kk == Len(M)  T == CmCells(tv, pv)
  IN /\ MTot(M) = nn                                               \* cells sum to the number of samples
     /\ Range(CmMembers(pv, tv)) = Range(pv) \cup Range(tv) /\ kk = Cardinality(Range(pv) \cup Range(tv))
     /\ MDiag(M) = Cardinality({q \in 1..nn : pv[q] = tv[q]})      \* accuracy = fraction of equal labels
     /\ QIn01(AccQ(M)) /\ QIn01(PrecQ(M)) /\ QIn01(RecQ(M)) /\ QIn01(FBetaQ(M, 1, 1))
     /\ T = MTranspose(M)                                          \* swapping the arguments transposes
     /\ QEq(PrecQ(T), RecQ(M))                                     \* ... and exchanges precision / recall
     /\ Len(OvA(M)) = kk /\ \A i \in 1..kk : MTot(OvA(M)[i]) = nn
     /\ 2 * Len(OvO(M)) = kk * (kk - 1)
     /\ kk = 2 => (OvA(M)[1] = M /\ OvA(M)[2] = Flip2(M) /\ OvO(M) = <<M>>)
     \* binary F1 in closed form 2tp / (2tp + fp + fn)
     /\ (kk = 2 /\ QDef(FBetaQ(M, 1, 1))) => QEq(FBetaQ(M, 1, 1), Q(2 * M[1][1], 2 * M[1][1] + M[1][2] + M[2][1]))
     \* F-beta lies between precision and recall
     /\ QDef(FBetaQ(M, 4, 1)) => (QLe(QMin(PrecQ(M), RecQ(M)), FBetaQ(M, 4, 1)) /\ QLe(FBetaQ(M, 4, 1), QMax(PrecQ(M), RecQ(M))))
     \* |MCC| <= 1, = 1 exactly for a perfect non-constant prediction, symmetric in its arguments
     /\ MccN(M) * MccN(M) <= MccA(M) * MccB(M)
     /\ (pv = tv /\ MccDef(M)) => (MccN(M) > 0 /\ MccN(M) * MccN(M) = MccA(M) * MccB(M))
     /\ MccN(T) = MccN(M) /\ MccA(T) = MccB(M)

Complement(sv) == [q \in 1..Len(sv) |-> RocDen - sv[q]]
Negate(tv) == [q \in 1..Len(tv) |-> 1 - tv[q]]
InvRoc == (Run /\ mkind = "roc") =>
  LET sv == mcols[1]  tv == mcols[2]  aq == AucQ(sv, tv) IN
  /\ QDef(aq) = (Positives(tv) # {} /\ Negatives(tv) # {})
  /\ QIn01(aq)
  /\ QDef(aq) => /\ QEq(AucQ(Complement(sv), tv), QSub(QI(1), aq))      \* AUC(1 - p) = 1 - AUC(p)
                 /\ QEq(AucQ(sv, Negate(tv)), QSub(QI(1), aq))           \* exchanging the classes
                 \* a rank statistic: unchanged by increasing maps of the scores, complemented by decreasing ones
                 /\ QEq(AucQ([q \in 1..Len(sv) |-> 3 * sv[q] * sv[q] + 1], tv), aq)
                 /\ QEq(AucQ([q \in 1..Len(sv) |-> -sv[q]], tv), QSub(QI(1), aq))
                 /\ (\A i \in Positives(tv), j \in Negatives(tv) : sv[i] > sv[j]) = QEq(aq, QI(1))
                 /\ (\A i, j \in 1..Len(sv) : sv[i] = sv[j]) => QEq(aq, Q(1, 2))
  /\ LogLossSum(sv, RocDen, tv) >= 0
  /\ LogLossSum(Complement(sv), RocDen, Negate(tv)) = LogLossSum(sv, RocDen, tv)
  /\ Abs(23 * LnInt(1024) - 10 * LnEps23) <= 23          \* the clipping constant against the checked table

Shift(uv, dd) == [q \in 1..Len(uv) |-> uv[q] + dd]
Scale(xv, ff, dd) == [q \in 1..Len(xv) |-> ff * xv[q] + dd]
InvReg == (Run /\ mkind = "reg") =>
  LET uv == mcols[1]  wv == mcols[2] IN
  /\ QDef(R2Q(uv, wv)) = (\E q \in 1..Len(wv) : wv[q] # wv[1])          \* defined iff the truth is not constant
  /\ QDef(R2Q(uv, wv)) =>
       /\ QLe(R2Q(uv, wv), QI(1)) /\ (QEq(R2Q(uv, wv), QI(1)) = (uv = wv))
       /\ QLe(R2Q(uv, wv), EVarQ(uv, wv)) /\ QLe(EVarQ(uv, wv), QI(1))
       /\ QEq(EVarQ(Shift(uv, 3), wv), EVarQ(uv, wv))                     \* offsets do not matter
       /\ QEq(EVarQ(Shift(uv, 1), Shift(wv, 1)), EVarQ(uv, wv)) /\ QEq(R2Q(Shift(uv, 1), Shift(wv, 1)), R2Q(uv, wv))
       /\ (SumSeq(Diff(uv, wv)) = 0) => QEq(EVarQ(uv, wv), R2Q(uv, wv))
  \* shift invariance / scale equivariance (the offset families of the trace spec evaluate the definitions on
  \* the un-shifted integers of a case and divide by its power-of-two unit)
  /\ QEq(MaxErrQ(Shift(uv, 7), Shift(wv, 7)), MaxErrQ(uv, wv)) /\ QEq(MaeQ(Shift(uv, 7), Shift(wv, 7)), MaeQ(uv, wv))
  /\ QEq(MseQ(Shift(uv, 7), Shift(wv, 7)), MseQ(uv, wv)) /\ QEq(MedAeQ(Shift(uv, 7), Shift(wv, 7)), MedAeQ(uv, wv))
  /\ QEq(MaxErrQ(Scale(uv, 8, 0), Scale(wv, 8, 0)), QMul(QI(8), MaxErrQ(uv, wv)))
  /\ QEq(MaeQ(Scale(uv, 8, 0), Scale(wv, 8, 0)), QMul(QI(8), MaeQ(uv, wv)))
  /\ QEq(MedAeQ(Scale(uv, 8, 0), Scale(wv, 8, 0)), QMul(QI(8), MedAeQ(uv, wv)))
  /\ QEq(MseQ(Scale(uv, 8, 0), Scale(wv, 8, 0)), QMul(QI(64), MseQ(uv, wv)))
  /\ QEq(R2Q(Scale(uv, 8, 5), Scale(wv, 8, 5)), R2Q(uv, wv)) /\ QEq(EVarQ(Scale(uv, 8, 5), Scale(wv, 8, 5)), EVarQ(uv, wv))
  /\ QLe(MedAeQ(uv, wv), MaxErrQ(uv, wv)) /\ QLe(MaeQ(uv, wv), MaxErrQ(uv, wv))
  /\ QLe(QMul(MaeQ(uv, wv), MaeQ(uv, wv)), MseQ(uv, wv))                  \* Jensen
  /\ QLe(MseQ(uv, wv), QMul(MaxErrQ(uv, wv), MaxErrQ(uv, wv)))
  /\ QEq(MaeQ(uv, wv), MaeQ(wv, uv)) /\ QEq(MseQ(uv, wv), MseQ(wv, uv)) /\ QEq(MedAeQ(uv, wv), MedAeQ(wv, uv))
  /\ (uv = wv) => (QSgn(MaxErrQ(uv, wv)) = 0 /\ QSgn(MseQ(uv, wv)) = 0 /\ (QDef(MapeQ(uv, wv)) => QSgn(MapeQ(uv, wv)) = 0))
  /\ MsleDef(uv, wv) => (MsleSum(uv, wv) >= 0 /\ MsleSum(uv, wv) = MsleSum(wv, uv) /\ ((uv = wv) => MsleSum(uv, wv) = 0))

InvSil == (Run /\ mkind = "sil") =>
  LET xv == mcols[1]  lv == mcols[2]  sq == SilQ(xv, lv) IN
  /\ QInPm1(sq)
  /\ QDef(sq) => /\ QEq(SilQ(Scale(xv, 5, 0), lv), sq)                    \* scale invariance (the 3-4-5 embedding)
                 /\ QEq(SilQ(Scale(xv, 1, 7), lv), sq)                    \* translation invariance
                 /\ QEq(SilQ(xv, [q \in 1..Len(lv) |-> 1 - lv[q]]), sq)   \* label names do not matter

InvPear == (Run /\ mkind = "pear") =>
  LET c12 == PearC(mcols, 1, 2)  c11 == PearC(mcols, 1, 1)  c22 == PearC(mcols, 2, 2) IN
  /\ c11 >= 0 /\ c22 >= 0 /\ c12 * c12 <= c11 * c22                        \* |r| <= 1 (Cauchy-Schwarz)
  /\ PearC(mcols, 2, 1) = c12
  /\ PearC(<<mcols[1], mcols[1]>>, 1, 2) = c11                             \* r(x, x) = 1
  /\ PearC(<<mcols[1], Scale(mcols[2], -2, 3)>>, 1, 2) = -2 * c12          \* affine maps: r(x, -2y+3) = -r(x, y)
  /\ PearC(<<mcols[1], Scale(mcols[2], -2, 3)>>, 2, 2) = 4 * c22
=============================================================================
