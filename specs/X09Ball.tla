------------------------------- MODULE X09Ball -------------------------------
(***************************************************************************)
(* X09 -- step-level extension of the C07 ball-tree model (NNBall.tla).    *)
(*                                                                         *)
(* NNBall models partition()/build and the best-first search nn_helper()   *)
(* on L1 / Linf lattices with exact rational sphere bounds.  The code      *)
(* evaluates the bound  lb = rdist(max(0, d(q, centre) - radius))  in      *)
(* floating point: it is exact when the centre is a dyadic point (branch   *)
(* centres, leaves of 1, 2, 4 .. points) and rounded otherwise (mean of 3  *)
(* points, Euclidean square roots).  To replay recorded searches against   *)
(* the model, this module generalises its actions:                         *)
(*                                                                         *)
(*  * every node has an INTERVAL bound IvQ(node) = [lo, hi] in units of    *)
(*    1/6400 that contains both the exact and the computed bound (lo = hi  *)
(*    where the floating-point evaluation is exact);                       *)
(*  * the three comparisons that involve a bound                           *)
(*        lb >= max_radius, lb >= worst kept   (stop)                      *)
(*        lb <= max_radius                      (push a child)             *)
(*    are three-valued: decided where the interval decides them, either    *)
(*    way otherwise; the popped entry must be a possible minimum;          *)
(*  * Euclidean distance (reduced form = squared) is covered.              *)
(*  The comparisons on point distances (d < max_radius, worst > d) are     *)
(*  exact on lattice inputs and are those of NNBall.                       *)
(*                                                                         *)
(* TLC checks on the bounded domains of C07:                               *)
(*   StepsOfNNBall   [][GNext]_vars on NNBall's own behaviours: every step *)
(*                   of NNBall is a step of the generalisation             *)
(*   StepsAreNNBall  [][Next]_vars on the generalised behaviours where all *)
(*                   bounds are exact (L1/Linf, leaves of <= 2 points):    *)
(*                   the generalisation adds nothing there                 *)
(*   InvPrunedM, InvAnswer, NoPanic, InvFrontier on the generalised        *)
(*                   behaviours incl. L2 and rounded bounds: whichever way *)
(*                   an undecided comparison goes, no point that belongs   *)
(*                   in the answer is pruned ("a pruned ball cannot        *)
(*                   contain a better point") and the answer is right      *)
(*   InvBuildRule    every tree of NNBall's Trees satisfies the structural *)
(*                   build predicate IsBuild used on recorded trees        *)
(***************************************************************************)
EXTENDS NNBall

Q == 6400                                   \* fixed-point scale of bounds (2^8 * 25)

\* d < max_radius for a point distance, metric aware (NNRel!Side); identical to NNBall!InRad for L1 / Linf
InRadM(dist) == mode = "knn" \/ Side(met, dist, r8) < 0
\* max_radius (reduced form) in units of 1/Q
RadQ == IF met = "l2" THEN r8 * r8 * (Q \div 64) ELSE r8 * (Q \div 8)

-----------------------------------------------------------------------------
(* interval bounds *)

\* the centre cn / cd is a dyadic point: sum and division of the leaf mean are exact in binary floating point
Dyadic(nd) == \A d \in 1..Len(nd.cn) : \E t \in {1, 2, 4, 8, 16} : (nd.cn[d] * t) % nd.cd = 0
IsSquare(x) == Isqrt(x) * Isqrt(x) = x
CeilDiv(a, b) == (a + b - 1) \div b

\* floor / ceiling of (num / den) * Q without overflow (num >= 0)
FloorQ(num, den) == MulDiv(num, Q, den)
CeilQ(num, den) == LET f == MulDiv(num, Q, den) IN IF (num % den) * Q % den = 0 THEN f ELSE f + 1

\* L1 / Linf: lb = max(0, d(q, c) - radius) = LbNum / cd
IvLin(nd) ==
  LET num == LbNum(nd) IN
  IF Dyadic(nd) THEN [lo |-> FloorQ(num, nd.cd), hi |-> FloorQ(num, nd.cd)]
  ELSE [lo |-> Max2(0, FloorQ(num, nd.cd) - 1), hi |-> CeilQ(num, nd.cd) + 1]

\* L2: lb = (max(0, sqrt(A) - sqrt(R)))^2 / cd^2 with A = cd^2 |q - c|^2, R = cd^2 radius^2
PickT(A, R, c2) ==       \* precision of the square-root bracket, chosen so that nothing overflows
  IF A * R < 500 /\ (A + R) < 30000 /\ c2 <= 300 THEN 1000
  ELSE IF A * R < 50000 /\ (A + R) < 300000 /\ c2 <= 3000 THEN 100
  ELSE IF A * R < 5000000 THEN 10 ELSE 1
IvL2(nd) ==
  LET A  == L2sq(Scaled(qry, nd.cd), nd.cn)
      R  == nd.rn
      c2 == nd.cd * nd.cd
  IN IF A <= R THEN [lo |-> 0, hi |-> 0]
     ELSE IF Dyadic(nd) /\ IsSquare(A) /\ IsSquare(R)
       THEN LET df == Isqrt(A) - Isqrt(R) IN [lo |-> FloorQ(df * df, c2), hi |-> FloorQ(df * df, c2)]
     ELSE IF A > 20000 \/ R > 20000
       THEN \* large values (the product A R would overflow): bracket the two roots separately
            LET a == Isqrt(A)  b == Isqrt(R)
                dl == Max2(0, a - b - 1)  dh == a - b + 1
            IN [lo |-> Max2(0, FloorQ(dl * dl, c2) - 1), hi |-> CeilQ(dh * dh, c2) + 1]
     ELSE LET t == PickT(A, R, c2)
              s == Isqrt(4 * A * R * t * t)               \* floor(2 t sqrt(A R))
              X == (A + R) * t
          IN [lo |-> Max2(0, FloorQ(Max2(0, X - s - 1), c2 * t) - 1), hi |-> CeilQ(X - s, c2 * t) + 1]

IvQ(nd) == IF nd.points = <<>> /\ nd.isleaf THEN [lo |-> 0, hi |-> 0]      \* empty tree
           ELSE IF met = "l2" THEN IvL2(nd) ELSE IvLin(nd)
ExactNode(nd) == IvQ(nd).lo = IvQ(nd).hi

\* possible truth values of  lb >= b  and  lb <= b  (b in units of 1/Q)
GeSet(iv, b) == IF iv.lo >= b THEN {TRUE} ELSE IF iv.hi < b THEN {FALSE} ELSE BOOLEAN
LeSet(iv, b) == IF iv.hi <= b THEN {TRUE} ELSE IF iv.lo > b THEN {FALSE} ELSE BOOLEAN

GeRadSet(nd)   == IF mode = "knn" THEN {FALSE} ELSE GeSet(IvQ(nd), RadQ)
GeWorstSet(nd) == IF out = {} THEN {FALSE} ELSE GeSet(IvQ(nd), Worst * Q)
LeRadSet(nd)   == IF mode = "knn" THEN {TRUE} ELSE LeSet(IvQ(nd), RadQ)
MayBeMin(en)   == \A f \in queue : IvQ(en.node).lo <= IvQ(f.node).hi

-----------------------------------------------------------------------------
(* generalised actions *)

\* Pop with the outcomes of the bound comparisons given
GPopWith(en, geRad, geWorst, leL, leR) ==
  /\ pc = "loop" /\ en \in queue
  /\ MayBeMin(en)
  /\ IF geRad THEN pc' = "done" /\ UNCHANGED <<queue, cur>>
     ELSE IF Cardinality(out) = kk /\ out = {} THEN pc' = "panic" /\ UNCHANGED <<queue, cur>>
     ELSE IF Cardinality(out) = kk /\ geWorst THEN pc' = "done" /\ UNCHANGED <<queue, cur>>
     ELSE IF en.node.isleaf
       THEN /\ queue' = queue \ {en} /\ cur' = en.node.points /\ pc' = "leaf"
       ELSE /\ queue' = (queue \ {en}) \cup (IF leL THEN {Entry(en.node.l)} ELSE {}) \cup (IF leR THEN {Entry(en.node.r)} ELSE {})
            /\ UNCHANGED cur /\ pc' = "loop"
  /\ UNCHANGED <<pts, qry, met, leaf, mode, kk, r8, tree, out>>

KidSet(en, left) == IF en.node.isleaf THEN {TRUE} ELSE LeRadSet(IF left THEN en.node.l ELSE en.node.r)
GPop ==
  \E en \in queue : \E geRad \in GeRadSet(en.node), geWorst \in GeWorstSet(en.node) :
  \E leL \in KidSet(en, TRUE), leR \in KidSet(en, FALSE) : GPopWith(en, geRad, geWorst, leL, leR)

\* ScanPoint with the metric-aware radius test
GScan ==
  /\ pc = "leaf"
  /\ IF cur = <<>> THEN pc' = "loop" /\ UNCHANGED <<out, cur>>
     ELSE LET p == Head(cur)  dist == D(p) IN
          /\ cur' = Tail(cur) /\ pc' = "leaf"
          /\ IF InRadM(dist) /\ (Cardinality(out) < kk \/ (out # {} /\ Worst > dist))
               THEN LET o1 == out \cup {<<dist, p>>} IN
                    IF Cardinality(o1) > kk
                      THEN \E o \in o1 : o[1] = MaxSet({x[1] : x \in o1}) /\ out' = o1 \ {o}
                      ELSE out' = o1
               ELSE UNCHANGED out
  /\ UNCHANGED <<pts, qry, met, leaf, mode, kk, r8, tree, queue>>

GNext == Start \/ GPop \/ Exhausted \/ GScan

\* the comparison outcomes of the exact model
ExactOutcomes(en) ==
  /\ ExactNode(en.node)
  /\ en.node.isleaf \/ (ExactNode(en.node.l) /\ ExactNode(en.node.r))

-----------------------------------------------------------------------------
(* refinement in both directions (temporal properties, checked by TLC) *)
StepsOfNNBall  == [][GNext]_vars         \* on Init /\ [][Next]_vars
StepsAreNNBall == [][Next]_vars          \* on Init /\ [][GNext]_vars, exact domain

NNBallSpec == Init /\ [][Next]_vars
GSpec      == Init /\ [][GNext]_vars

-----------------------------------------------------------------------------
(* invariants of the generalised search *)

\* NNBall!InvPruned with the metric-aware radius test: a point that is neither pending nor kept is outside the
\* radius or no better than the worst of k kept candidates
InvPrunedM ==
  pc \in {"loop", "leaf"} =>
    /\ Cardinality(out) <= kk
    /\ \A o \in out : o[1] = D(o[2]) /\ InRadM(o[1])
    /\ \A i \in (1..N) \ (Pending \cup Kept) :
         ~InRadM(D(i)) \/ (Cardinality(out) = kk /\ out # {} /\ D(i) >= Worst)
\* the same at the moment the search stops with entries left on the queue
InvStopSound ==
  pc = "done" =>
    \A i \in (1..N) \ Kept : ~InRadM(D(i)) \/ (Cardinality(out) = kk /\ (out = {} \/ D(i) >= Worst))
\* pending subtrees, the rest of the current leaf and the kept points never overlap; queue entries are subtrees of the tree
InvFrontier ==
  pc \in {"loop", "leaf"} =>
    /\ \A e1, e2 \in queue : e1 # e2 => Sub(e1.node) \cap Sub(e2.node) = {}
    /\ \A en \in queue : en.node \in Nodes(tree) /\ Sub(en.node) \cap Kept = {}
    /\ \A en \in queue : Sub(en.node) \cap {cur[j] : j \in 1..Len(cur)} = {}

-----------------------------------------------------------------------------
(* structural build predicate on a tree whose leaves list their points in any order *)
SetSeq(S) == SeqOfSet(S)
RECURSIVE IsBuild(_, _)
IsBuild(nd, S) ==
  IF Cardinality(S) <= leaf
    THEN /\ nd.isleaf /\ Len(nd.points) = Cardinality(S) /\ {nd.points[j] : j \in 1..Len(nd.points)} = S
         /\ nd = LeafNode(nd.points)
    ELSE LET ix  == SetSeq(S)
             d   == SpreadDim(ix)
             mv  == MedianVal(ix, d)
             lft == {y \in S : pts[y][d] < mv}
         IN /\ ~nd.isleaf /\ nd.cd = 1 /\ nd.points = <<>>
            /\ \E c \in S : pts[c][d] = mv /\ nd.cn = pts[c]
            /\ nd.rn = RadNum(ix, nd.cn, 1)
            /\ IF lft # {} THEN IsBuild(nd.l, lft) /\ IsBuild(nd.r, S \ lft)
               ELSE \E x \in S : IsBuild(nd.l, {x}) /\ IsBuild(nd.r, S \ {x})
InvBuildRule == pc = "start" => IsBuild(tree, 1..N)
=============================================================================
