----------------------------- MODULE Gen_KFold -----------------------------
(* Case generator for C01: every configuration of the bounded model, for every calling form,  *)
(* with a fixed evaluation table and every single injected fit / evaluation failure (cv).      *)
EXTENDS Naturals, Sequences, TLC, Json

CONSTANTS MinN, MaxN, MaxF, MaxT, MaxM

VARIABLE case

Cols(t) == IF t = 0 THEN 1 ELSE t
Tab(nm, k, cols) == [m \in 1..nm |-> [i \in 1..k |-> [cc \in 1..cols |-> (7 * m + 3 * i + 5 * cc + m * i * cc) % 10]]]

NoFail == [at |-> "none", m |-> 0, i |-> 0]
\* failures are injected on the narrowest records only (feature width does not matter to that path)
Fails(kind, nm, k, f) ==
  {NoFail} \cup
  IF kind \in {"cv", "cv_single"} /\ f = 1
    THEN {[at |-> a, m |-> m, i |-> i] : a \in {"fit", "eval"}, m \in {0, nm - 1}, i \in {0, k \div 2, k - 1}}
    ELSE {}

Kinds(t) == {"iter_fold", "fold", "cv"} \cup (IF t = 0 THEN {"cv_single"} ELSE {})
Stores(kind) == IF kind = "iter_fold" THEN {"owned", "viewmut"}
                ELSE IF kind = "fold" THEN {"owned", "view"} ELSE {"owned"}

Init ==
  \E n \in MinN..MaxN, f \in 1..MaxF, t \in 0..MaxT :
  \E k \in 2..n, kind \in Kinds(t) :
  \E store \in Stores(kind), nm \in (IF kind \in {"cv", "cv_single"} THEN 1..MaxM ELSE {1}) :
  \E fl \in Fails(kind, nm, k, f) :
    case = [kind |-> kind,
            inp |-> [n |-> n, k |-> k, f |-> f, t |-> t, store |-> store, nm |-> nm,
                     tab |-> Tab(nm, k, Cols(t)), fail |-> fl]]

Next == UNCHANGED case
Emit == PrintT("CASE " \o ToJson(case))
=============================================================================
