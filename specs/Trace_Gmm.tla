----------------------------- MODULE Trace_Gmm -----------------------------
(***************************************************************************)
(* C10 trace validation.  What the real GaussianMixtureModel returned for  *)
(* a generated case is checked with the predicates of Gmm.tla:             *)
(*   fit     : Ok, or an error of the documented kinds (never a model)     *)
(*   model   : finite parameters ; positive weights summing to one ; means *)
(*             inside the bounding box of the case's data ; covariances    *)
(*             symmetric, positive definite, diagonal >= reg_covar ;       *)
(*             precision . covariance = identity ; one component => the    *)
(*             sample mean / sample covariance + reg                       *)
(*   predict : every query row (batch call, single-row call, dataset call) *)
(*             finite, non-negative, sums to one, predicted component has  *)
(*             maximal probability (exact order keys, ties arbitrary)      *)
(*   refit   : Ok means converged: if every run 1..r was selected by the   *)
(*             fit with that many runs, a larger iteration budget returns  *)
(*             the same mixture                                            *)
(***************************************************************************)
EXTENDS Gmm, TraceIO

CONSTANT Devs      \* named deviations (known findings) -- none for C10

VARIABLES c, e, st          \* case cursor, event cursor, "start" | "fitted" | "modelled" | "done" | "refitted" | "failed"

tvars == <<c, e, st>>

Case == Rec[c]
In   == Case.inp
Ev   == Case.ev[e]
TK == In.k
TP == In.p
Ft == In.ft

TraceInit ==
  /\ c \in 1..Len(Rec) /\ e = 1 /\ st = "start"
  \* the design-model variables are not used during trace validation
  /\ pc = "trace" /\ scen = "trace" /\ X = <<>> /\ Rsp = <<>> /\ kk = 0 /\ reg = <<0, 1>> /\ rnd = 0
  /\ mdl = NoModel /\ wlp = <<>> /\ row = NoRow

HasEv(name) == e <= Len(Case.ev) /\ Ev.ev = name
Adv(s) == e' = e + 1 /\ st' = s /\ UNCHANGED <<c, vars>>

\* bounding box of the case's data (exact integers, data units 1/ds)
DLo == [j \in 1..TP |-> MinSet({In.data[q][j] : q \in 1..Len(In.data)})]
DHi == [j \in 1..TP |-> MaxSet({In.data[q][j] : q \in 1..Len(In.data)})]

\* failure is reported as an error of one of the documented kinds (failure to converge, emptied
\* component, ill-defined covariance, failed k-means initialisation, no finite lower bound)
FitErrors == {"NotConverged", "EmptyCluster", "LinalgError", "KMeansError", "LowerBoundError", "MinMaxError"}

\* a verdict is computed once per event: either the event is explained (cursor advances) or the
\* false clauses are printed (one short FAIL line each) and the case stops unaccepted
Reject(msgs) ==
  /\ \A m \in msgs : Fail(Case.id, m)
  /\ e' = Len(Case.ev) + 2 /\ UNCHANGED <<c, st, vars>>
Verdict(bad, nextst) == IF bad = {} THEN Adv(nextst) ELSE Reject(bad)
Msgs(prefix, names) == {prefix \o n : n \in names}

\* "Failure to converge is reported as an error" on the recorded lower-bound trajectory (hook
\* `gmm.iter`, cases with inp.hook): a fit that returned Ok was handed out by a run with the best
\* final lower bound (ties: any of them), and that run's last change of the lower bound is below
\* the tolerance in absolute value (Gmm.ConvOk: exact up to the encoding of the change).
RunsBad ==
  IF ~In.hook THEN {}
  ELSE IF ~Ev.hooked \/ Len(Ev.runs) = 0 \/ Len(Ev.runs) > In.runs THEN {"fit: lower-bound events missing"}
  ELSE IF \E q \in 1..Len(Ev.runs) : Ev.runs[q].n < 1 \/ Ev.runs[q].n > In.maxit THEN {"fit: iterations beyond the budget"}
  ELSE LET fin == {q \in 1..Len(Ev.runs) : Ev.runs[q].lbfin}        \* a run with a NaN / infinite bound is never selected
           best == {q \in fin : \A u \in fin : KeyLe(Ev.runs[u].lbk, Ev.runs[q].lbk)}
       IN IF \E q \in best : ConvOk(Ev.runs[q].dnum, Ev.runs[q].d, In.toln, In.told) THEN {}
          ELSE {"fit: Ok but the best run had not converged"}
TFit ==
  /\ HasEv("fit") /\ st = "start"
  /\ IF Ev.ok THEN Verdict(RunsBad, "fitted")
     ELSE Verdict((IF Ev.err \in FitErrors THEN {} ELSE {"fit: undocumented error kind " \o Ev.err})
                  \cup (IF e = Len(Case.ev) THEN {} ELSE {"fit: events after an error"}), "failed")

\* the logged model as the record Gmm.ModelOk expects (positivity of the weights from the order keys)
Obs == [k |-> Ev.k, p |-> Ev.p, finite |-> Ev.finite, num |-> Ev.num,
        w |-> Ev.w, wpos |-> [q \in 1..Len(Ev.wkey) |-> KeyLt(KeyZero, Ev.wkey[q])],
        means |-> Ev.means, cs |-> Ev.cs, cov |-> Ev.cov, ps |-> Ev.ps, prec |-> Ev.prec]
\* reg_covar = 0 allows nearly singular covariances whose precision is finite but beyond the logged
\* range (>= 2^27): then only finiteness is observable for that model
Unencodable == Ev.finite /\ ~Ev.num /\ In.regn = 0
MaxAbsData == MaxSet({0} \cup {Abs(In.data[q][j]) : q \in 1..Len(In.data), j \in 1..TP})
K1Applies == TK = 1 /\ In.ds = 1 /\ Len(In.data) <= 40 /\ MaxAbsData <= 30
ShapesLogged == Ev.mrows = TK /\ Ev.cshape = <<TK, TP, TP>> /\ Ev.pshape = <<TK, TP, TP>> /\ Ev.ws = WS /\ Ev.ms = MS
ModelBad ==
  IF ~ShapesLogged THEN {"shapes_logged"}
  ELSE IF Unencodable THEN {}
  ELSE LET obs == Obs
           b1 == FalseClauses(ModelClauses(obs, TK, TP, DLo, DHi, In.ds, In.regn, In.regd, Ft))
       IN IF b1 # {} \/ ~K1Applies THEN b1
          ELSE FalseClauses(K1Clauses(obs, In.data, TP, In.regn, In.regd, Ft))
TModel ==
  /\ HasEv("model") /\ st = "fitted"
  /\ Verdict(Msgs("model: ", ModelBad), "modelled")

\* one query row, in the three calling forms
RowBad(r) ==
  Msgs("batch ", FalseClauses(RowClauses(r.num, r.proba, r.pkey, r.label, TK, WS, TolP(Ft), KeyLe, KeyZero)))
  \cup Msgs("dataset ", FalseClauses(RowClauses(r.num, r.proba, r.pkey, r.label_ds, TK, WS, TolP(Ft), KeyLe, KeyZero)))
  \cup (IF r.n1 = 1 THEN Msgs("single ", FalseClauses(RowClauses(r.num1, r.proba1, r.pkey1, r.label1, TK, WS, TolP(Ft), KeyLe, KeyZero)))
        ELSE {"single_row_count"})
PredictBad ==
  IF ~(Len(Ev.rows) = Len(In.queries) /\ Ev.nrows = Len(In.queries) /\ Ev.ncols = TK
       /\ Ev.nlab = Len(In.queries) /\ Ev.nlabds = Len(In.queries))
    THEN {"predict: shapes"}
  ELSE LET bad == [q \in 1..Len(Ev.rows) |-> RowBad(Ev.rows[q])]
           ix == {q \in 1..Len(Ev.rows) : bad[q] # {}}
       IN IF ix = {} THEN {}
          ELSE LET q == MinSet(ix) IN
               Msgs("predict: query " \o ToString(q) \o " ", bad[q])
               \cup {"predict: " \o ToString(Cardinality(ix)) \o " bad rows, first " \o ToString(q)}
TPredict ==
  /\ HasEv("predict") /\ st = "modelled"
  /\ Verdict(PredictBad, "done")

\* "Failure to converge is reported as an error": Ok means that the selected run converged within
\* its budget.  What that implies for the same seed, data and parameters (runs are sequential and
\* deterministic; the j-th run does not depend on n_runs; the result only changes when a later run is
\* selected -- no assumption on how a run starts, i.e. continuing or re-initialised):
\*   let F(j) be the fit with n_runs = j.  If F(1) .. F(r) are all Ok and every F(j) differs from
\*   F(j-1) (bit patterns), then run j was selected by F(j), hence converged, for every j <= r; a
\*   larger iteration budget then changes no run, and the fit with n_runs = r returns the same mixture.
\* A model handed out from a run that used up its budget keeps moving when the budget grows.
\* (Gmm.tla, InvBudget, model-checks this implication on abstract gain sequences.)
DgSeq == [q \in 1..In.runs |-> IF q = In.runs THEN Case.ev[2].dg ELSE Ev.prefix[q].dg]
AllRunsSelected ==
  /\ \A q \in 1..(In.runs - 1) : Ev.prefix[q].ok
  /\ \A q \in 2..In.runs : DgSeq[q] # DgSeq[q - 1]
RefitBad ==
  LET m == Case.ev[2] IN      \* the model event of this case
  IF Len(Ev.prefix) # In.runs - 1 THEN {"refit: one fit per smaller n_runs expected"}
  ELSE IF ~m.num THEN {}      \* (reg_covar = 0, precision beyond the logged range: see Unencodable)
  ELSE IF ~AllRunsSelected THEN {}     \* some run may have used up its budget: nothing is implied
  ELSE IF ~Ev.ok THEN {"refit: error " \o Ev.err \o " with a larger budget"}
  ELSE IF ~Ev.num \/ Len(Ev.w) # TK \/ Len(Ev.means) # TK THEN {"refit: shapes"}
  ELSE (IF \A q \in 1..TK : Abs(Ev.w[q] - m.w[q]) <= 200 + m.w[q] \div GG(Ft) THEN {} ELSE {"refit: weights moved"})
       \cup (IF \A q \in 1..TK : \A j \in 1..TP : Abs(Ev.means[q][j] - m.means[q][j]) <= 20 + Abs(m.means[q][j]) \div GG(Ft)
               THEN {} ELSE {"refit: means moved"})
TRefit ==
  /\ HasEv("refit") /\ st = "done"
  /\ Verdict(RefitBad, "refitted")

Final == {"refitted", "failed"}
Accept ==
  /\ e = Len(Case.ev) + 1 /\ st \in Final
  /\ Ok(Case.id)
  /\ e' = e + 1 /\ UNCHANGED <<c, st, vars>>

\* any other event (a panic, an event out of order) or a trace that ends early is unexplained
Expected == IF st = "start" THEN "fit" ELSE IF st = "fitted" THEN "model" ELSE IF st = "modelled" THEN "predict"
            ELSE IF st = "done" THEN "refit" ELSE "end"
Stuck ==
  /\ e <= Len(Case.ev) + 1
  /\ IF e <= Len(Case.ev) THEN Ev.ev # Expected ELSE st \notin Final
  /\ Reject({IF e > Len(Case.ev) THEN "trace ends in state " \o st
             ELSE IF Ev.ev = "panic" THEN "panic in " \o Ev.at
             ELSE "unexpected event " \o Ev.ev \o " in state " \o st})

TraceNext == TFit \/ TModel \/ TPredict \/ TRefit \/ Accept \/ Stuck
=============================================================================
