------------------------------- MODULE XC_Smo -------------------------------
(***************************************************************************)
(* X06 cross-check, original side: TLC explores specs/Smo.tla and prints   *)
(* every reachable state; props/x06.py compares the set with the states of *)
(* SmoInd.tla that lie outside its unrolled loops (XC_SmoInd.tla).         *)
(***************************************************************************)
EXTENDS Smo, Json

Proj == [pos2s |-> pos2s, y |-> yP, b |-> bP, p |-> pP, ki |-> kiP, a |-> aP, nact |-> nact, pc |-> pc, out |-> outv]
Emit == PrintT("ST " \o ToJson(Proj))
=============================================================================
