---------------------------- MODULE Trace_DTree ----------------------------
(***************************************************************************)
(* C14 trace validation.  A case = the four observations the harness made  *)
(* of one real DecisionTree: fit (+ fit-time row masks from the tree.node  *)
(* hook when it is compiled in), tree (all nodes through root_node /       *)
(* children, and the summarising accessors), pred (predict on the training *)
(* records and on a probe grid), imp (feature importances).                *)
(* The observed tree is judged with the predicates of the design model     *)
(* DTree (WellFormed, DepthOk, TreeClauses = min split / min leaf /        *)
(* reported = actual decrease / >= min decrease / leaf = weighted modal    *)
(* label / partition) plus the history clauses: prediction of a training   *)
(* sample = label of its leaf, fit-time mask = predict-time reach.         *)
(* Not decided by the specification (existential): tie-breaks of the modal *)
(* label, which split was chosen, and the side of a point that lies        *)
(* exactly on a threshold (one convention per tree: cv = "lt" or "le").    *)
(***************************************************************************)
EXTENDS DTree, TraceIO

CONSTANT Devs      \* named deviations (known findings) -- none needed for C14

VARIABLES c, e
tvars == <<c, e>>

Case == Rec[c]
In   == Case.inp
N    == Len(In.x)
Sc   == In.scale

\* the dataset in the units of DTree: doubled real values, quarter weights
D == [n |-> N, d |-> In.d,
      x2 |-> [i \in 1..N |-> [f \in 1..In.d |-> 2 * (Sc.off + Sc.mul * In.x[i][f])]],
      y |-> In.y,
      w4 |-> IF In.w4 = <<>> THEN [i \in 1..N |-> 4] ELSE In.w4]
H == [crit |-> In.crit, md |-> In.md, mws4 |-> In.mws4, mwl4 |-> In.mwl4, mid6 |-> In.mid6]

EvFit  == Case.ev[1]
EvTree == Case.ev[2]
EvPred == Case.ev[3]
EvImp  == Case.ev[4]

Raw == EvTree.nodes
\* NOTE (TLC evaluation cost): zero-argument definitions that depend on the state are re-evaluated at
\* every use, LET definitions only once -- so the tree / dataset are bound once in Verdict and passed on.
NS0 == {[path |-> Raw[q].path, depth |-> Raw[q].depth, leaf |-> Raw[q].leaf, feat |-> Raw[q].feat,
         thr2 |-> Raw[q].thr2.i, pred |-> Raw[q].pred, dec6 |-> Raw[q].dec6] : q \in DOMAIN Raw}

-----------------------------------------------------------------------------
(* clauses that do not depend on the routing convention *)
Shape == /\ Len(Case.ev) = 4
         /\ EvFit.ev = "fit" /\ EvTree.ev = "tree" /\ EvPred.ev = "pred" /\ EvImp.ev = "imp"

\* the harness really handed the records / probes over in the layout named by the case (a construction
\* that silently collapses to standard layout would leave the layout dimension untested)
ExpStrides(lay, nn, dd) ==
  CASE lay = "std" -> <<dd, 1>>
    [] lay = "forder" -> <<1, nn>>
    [] lay = "tview" -> <<1, nn>>
    [] lay = "revrows" -> <<-dd, 1>>
    [] lay = "revcols" -> <<dd, -1>>
    [] lay = "everyrow2" -> <<2 * dd, 1>>
    [] lay = "everycol2" -> <<2 * dd, 2>>
LayoutOk ==
  /\ EvFit.lay = In.lay
  /\ EvFit.strides = ExpStrides(In.lay, N, In.d)
  /\ EvPred.pstrides = ExpStrides(In.lay, Len(EvPred.probe), In.d)

\* every split node has two children, a leaf none (as reported by children()); numbers are usable
RawOk(ns) ==
  /\ Len(Raw) > 0 /\ Cardinality(ns) = Len(Raw)
  /\ \A q \in DOMAIN Raw :
       IF Raw[q].leaf THEN ~Raw[q].hasl /\ ~Raw[q].hasr
       ELSE Raw[q].hasl /\ Raw[q].hasr /\ Raw[q].thr2.exact /\ Raw[q].decok

\* reported decrease >= min_impurity_decrease, compared exactly as floats (order keys)
DecMinKeyOk == \A q \in DOMAIN Raw : ~Raw[q].leaf => KeyLe(EvFit.midk, Raw[q].deck)

MaxDepthOf(S) == IF S = {} THEN 0 ELSE MaxSet({nd.depth : nd \in S})
IterProj(r) == [depth |-> r.depth, leaf |-> r.leaf, feat |-> r.feat, thr2 |-> r.thr2, pred |-> r.pred]
AccessorsOk(ns) ==
  /\ EvTree.maxdepth = MaxDepthOf(ns)
  /\ EvTree.nleaves = Cardinality(Leaves(ns))
  /\ Range(EvTree.features) = {nd.feat : nd \in Splits(ns)}
  /\ Len(EvTree.features) = Cardinality(Range(EvTree.features))
  \* iter_nodes: level order over exactly the nodes of the tree
  /\ Len(EvTree.iter) = Len(Raw)
  /\ \A q \in 1..(Len(EvTree.iter) - 1) : EvTree.iter[q].depth <= EvTree.iter[q + 1].depth
  /\ IsPermutation([q \in DOMAIN Raw |-> IterProj(Raw[q])], [q \in DOMAIN EvTree.iter |-> IterProj(EvTree.iter[q])])

\* importances: non-negative and summing to one whenever the tree has a split; and (documented
\* accessor definitions) mean_impurity_decrease = mean of the node decreases per feature,
\* feature_importance = its normalisation
RECURSIVE SumDec(_)
SumDec(S) == IF S = {} THEN 0 ELSE LET nd == CHOOSE nd \in S : TRUE IN nd.dec6 + SumDec(S \ {nd})
ImpOk(ns) ==
  Splits(ns) # {} =>
    /\ Len(EvImp.imp6) = In.d /\ Len(EvImp.mean6) = In.d
    /\ \A f \in 1..In.d : EvImp.impok[f] /\ EvImp.meanok[f] /\ KeyLe(KeyZero, EvImp.impk[f])
    /\ Abs(SumSeq(EvImp.imp6) - 1000000) <= In.d + 1
ImpDefOk(ns) ==
  Splits(ns) # {} =>
    LET M == SumSeq(EvImp.mean6) IN
    \A f \in 1..In.d :
      LET on == {nd \in Splits(ns) : nd.feat = f - 1}
          cnt == Cardinality(on) IN
      /\ Abs(EvImp.mean6[f] * cnt - SumDec(on)) <= cnt + 1
      /\ cnt = 0 => EvImp.imp6[f] = 0
      /\ M <= 2000000 => Abs(MulS6(EvImp.imp6[f], M) - EvImp.mean6[f]) <= 6

-----------------------------------------------------------------------------
(* clauses under a routing convention cv *)
RECURSIVE Pow(_, _)
Pow(b, x) == IF x = 0 THEN 1 ELSE b * Pow(b, x - 1)
NP == Sc.phi - Sc.plo + 1
\* probe r (0-based, lexicographic, first coordinate slowest), doubled coordinates
Probe2(r) == [j \in 1..In.d |-> 2 * Sc.off + Sc.pm * (Sc.plo + ((r \div Pow(NP, In.d - j)) % NP))]

PredTrainOk(ns, lf) ==
  /\ Len(EvPred.train) = N
  /\ \A i \in 1..N : EvPred.train[i] = Node(ns, lf[i]).pred
PredProbeOk(ns, cv, labels) ==
  /\ Len(EvPred.probe) = Pow(NP, In.d)
  /\ \A r \in 0..(Len(EvPred.probe) - 1) :
       /\ EvPred.probe[r + 1] = Node(ns, RouteLeaf(ns, cv, Probe2(r), <<>>)).pred
       /\ EvPred.probe[r + 1] \in labels               \* only labels seen in training
\* fit-time mask of every surviving node = the training samples prediction routes through it
FitReachOk(ns, lf) ==
  EvFit.hook =>
    \A nd \in ns : \E q \in DOMAIN EvFit.fitnodes :
       LET fn == EvFit.fitnodes[q] IN
       /\ fn.path = nd.path /\ fn.depth = Len(nd.path)
       /\ {fn.rows[k] + 1 : k \in DOMAIN fn.rows} = Reach(lf, nd.path)

\* name of the first false clause ("" if all hold); evaluation order matters: later clauses
\* rely on the earlier ones (CHOOSE on paths needs a well-formed tree)
Common(ns, dd, hh) ==
  IF ~Shape THEN (IF Len(Case.ev) > 0 /\ Case.ev[Len(Case.ev)].ev = "panic"
                    THEN "panic@" \o Case.ev[Len(Case.ev)].at ELSE "shape")
  ELSE IF ~EvFit.ok THEN "fit.ok"
  ELSE IF ~LayoutOk THEN "layout"
  ELSE IF ~RawOk(ns) THEN "children"
  ELSE IF ~WellFormed(ns, In.d) THEN "wellformed"
  ELSE IF ~DepthOk(ns, hh) THEN "max_depth"
  ELSE IF ~LeafLabelOk(ns, dd) THEN "leaf.label"
  ELSE IF ~AccessorsOk(ns) THEN "accessors"
  ELSE IF ~DecMinKeyOk THEN "min_impurity_decrease"
  ELSE IF ~ImpOk(ns) THEN "importance"
  ELSE IF ~ImpDefOk(ns) THEN "importance.def"
  ELSE ""
Routed(ns, dd, hh, cv) ==
  LET lf == LeafOf(ns, cv, dd) IN
  IF ~PartitionOk(ns, dd, lf) THEN "partition"
  ELSE IF ~MinSplitOk(ns, dd, hh, lf) THEN "min_weight_split"
  ELSE IF ~MinLeafOk(ns, dd, hh, lf) THEN "min_weight_leaf"
  ELSE IF ~DecActualOk(ns, dd, hh, lf, DecSlack(hh.crit)) THEN "decrease.actual"
  ELSE IF ~DecMinOk(ns, hh, 1) THEN "decrease.min"
  ELSE IF ~LeafModalOk(ns, dd, lf) THEN "leaf.modal"
  ELSE IF ~PredTrainOk(ns, lf) THEN "predict.train"
  ELSE IF ~PredProbeOk(ns, cv, LabelsOf(dd)) THEN "predict.probe"
  ELSE IF ~FitReachOk(ns, lf) THEN "fit.reach"
  ELSE ""

\* "" if the case is explained, else the name(s) of the first false clause
Verdict ==
  LET ns == IF Shape THEN NS0 ELSE {}
      dd == D
      hh == H
      cm == Common(ns, dd, hh) IN
  IF cm # "" THEN cm
  ELSE LET lt == Routed(ns, dd, hh, "lt") IN
       IF lt = "" THEN ""
       ELSE LET le == Routed(ns, dd, hh, "le") IN
            IF le = "" THEN "" ELSE IF lt = le THEN lt ELSE "lt:" \o lt \o " le:" \o le

-----------------------------------------------------------------------------
TraceInit ==
  /\ c \in 1..Len(Rec) /\ e = 1
  \* the design-model variables are not used during trace validation
  /\ ds = <<>> /\ hp = <<>> /\ nodes = {} /\ fm = <<>> /\ todo = {} /\ pc = "trace"

\* the whole case is explained by one evaluation of the relation (the case is a single fitted tree)
Check ==
  /\ e = 1
  /\ LET v == Verdict IN IF v = "" THEN Ok(Case.id) ELSE Fail(Case.id, v)
  /\ e' = 2 /\ UNCHANGED <<c, vars>>

TraceNext == Check
=============================================================================
