--------------------------- MODULE XC_DensityRef ---------------------------
(***************************************************************************)
(* X08 cross-check, original side: TLC explores the DBSCAN part of the     *)
(* design model specs/Density.tla with the history variables of            *)
(* specs/X09Density.tla on lattice inputs with exactly MaxPts points and   *)
(* checks that it IS the machine of specs/DensityInd.tla:                  *)
(*   RefinesInd   every behaviour is a behaviour of DensityInd under       *)
(*                N <- MaxPts, nb <- nb, core <- {i : MCore(i)}            *)
(*                (initial states satisfy Ind!Init, every step is an       *)
(*                Ind!Next step or leaves Ind!vars unchanged)              *)
(*   IndInvHolds  the inductive invariant and the statements of DensityInd *)
(*                hold in every reachable state of the original            *)
(*   DoneAgrees   at termination the recursion-free relation Ind!DoneOk    *)
(*                and Density.DbscanOk (RECURSIVE closure GrowC) agree,    *)
(*                and so do Ind!Conn and membership in Density.Comp        *)
(* and prints the reachable states projected on the variables of           *)
(* DensityInd ("ST" lines; props/x08.py compares them with the states of   *)
(* XC_DensityInd.tla, relation by relation).                               *)
(* With Variant # "ok" (the two design bugs both modules know:             *)
(* noncore_extends, seed_needs_free_neighbour) RefinesInd must still hold  *)
(* (same broken machine) while IndInvHolds must fail.  With Variant #      *)
(* IndVariant RefinesInd must fail (the property is not vacuous).          *)
(***************************************************************************)
EXTENDS X09Density, Json

\* Variant of the instantiated DensityInd (= Variant, except in the test that the refinement property has teeth)
CONSTANT IndVariant
ASSUME MinPts = MaxPts

CoreOfModel == {i \in 1..MN : MCore(i)}
Ind == INSTANCE DensityInd WITH N <- MaxPts, core <- CoreOfModel, Variant <- IndVariant

DbInit == XInit /\ alg = "dbscan"
DbNext == XDSkip \/ XDSeed \/ XDPop \/ XDClose \/ XDone
DbSpec == DbInit /\ [][DbNext]_xvars

RefinesInd == Ind!Spec
IndInvHolds == Ind!IndInv /\ Ind!Safety
DoneAgrees ==
  pc = "done" =>
     /\ Ind!DoneOk <=> DbscanOk(lab, nb, mp)
     /\ \A a \in CoreOfModel : \A b \in CoreOfModel : Ind!Conn(a, b) <=> b \in Comp(a, nb, CoreOfModel)

\* the projection on the variables of DensityInd; sets as 0/1 membership vectors
Vec(s) == [i \in 1..MaxPts |-> IF i \in s THEN 1 ELSE 0]
Proj == [nb |-> [i \in 1..MaxPts |-> Vec(nb[i])], core |-> Vec(CoreOfModel), pc |-> pc, oi |-> oi, lab |-> lab, cur |-> cur,
         queue |-> Vec(queue), nlab |-> nlab, npush |-> npush, ext |-> Vec(ext)]
ProjView == <<nb, CoreOfModel, mp, pc, oi, lab, cur, queue, nlab, npush, ext>>
Emit == PrintT("ST " \o ToJson(Proj))
=============================================================================
