------------------------------ MODULE Logistic ------------------------------
(***************************************************************************)
(* C12 (logistic part) -- binary and multinomial logistic regression.      *)
(*                                                                         *)
(* (1) Relations of the statement, as operators over the abstract input    *)
(*     (integer records X, class index per row, alpha = an/ad, intercept   *)
(*     flag) and the observed output (coefficients at scale 10^6, reported *)
(*     classes):  the gradient of the documented objective                 *)
(*        sum_i -log P(y_i | x_i) + alpha/2 |W|^2     (no penalty on b)    *)
(*     i.e.  sum_i (sigma_i - t_i) x_ij + alpha w_j ,  sum_i (sigma_i-t_i) *)
(*     (binary; soft-max probabilities per class column in the multinomial *)
(*     model) is enclosed by interval arithmetic (C12Num) and must reach 0 *)
(*     up to the allowance; probabilities equal sigmoid / soft-max of the  *)
(*     linear predictor; decisions follow from probabilities.              *)
(* (2) A design model at the grain of the code for the part that is a      *)
(*     mechanism: label_classes (scan with two counters, +-1 coding, flip  *)
(*     so that the more frequent class is positive) and label_classes_multi*)
(*     (sorted dedup + one-hot), with the statement's label clauses as     *)
(*     invariants for every label sequence up to MaxN over MaxL labels.    *)
(* (3) A bounded numeric model (NumInit) whose invariants are algebraic    *)
(*     consequences of the definition (exact gradient at the origin,       *)
(*     label-flip antisymmetry, soft-max rows sum to one, K = 2 soft-max = *)
(*     sigmoid) -- guards against a vacuous or over-strict relation.       *)
(***************************************************************************)
EXTENDS C12Num, TLC

CONSTANTS MaxN, MaxL

VARIABLES ys,        \* label sequence (labels are naturals; their order is the Ord of the label type)
          pc,        \* "scan" | "done" | "multi" | "num"
          i,         \* scan position
          c1, c2,    \* <<>> or <<class, count>>: first / second distinct class seen
          res,       \* result record
          num        \* numeric model: a small data set (see NumInit)

vars == <<ys, pc, i, c1, c2, res, num>>

-----------------------------------------------------------------------------
(* (1) Relations *)

\* --- binary -------------------------------------------------------------------------------
\* x: sequence of integer rows, t: sequence of 0/1 (1 = reported positive class)
BinResid(x, t, w6, b6) == [q \in 1..Len(x) |-> IvSub(IvSig(ZIv(x[q], w6, b6)), IvPt(t[q] * S))]
\* r = BinResid(..) is passed in so that it is evaluated once
BinGradWr(r, x, w6, an, ad, j) == IvAdd(IvSum([q \in 1..Len(x) |-> IvScale(r[q], x[q][j])]), AlphaW(an, ad, w6[j]))
BinGradW(x, t, w6, b6, an, ad, j) == LET r == BinResid(x, t, w6, b6) IN BinGradWr(r, x, w6, an, ad, j)
BinGradB(x, t, w6, b6) == IvSum(BinResid(x, t, w6, b6))
BinStationary(x, t, w6, b6, an, ad, icpt, allow) ==
  LET r == BinResid(x, t, w6, b6) IN
  /\ \A j \in 1..Len(w6) : Stationary(BinGradWr(r, x, w6, an, ad, j), allow)
  /\ icpt => Stationary(IvSum(r), allow)
  /\ ~icpt => b6 = 0

\* probability of the positive class for a query row, as observed at scale 10^4 (half a unit of rounding)
BinProbOk(row, w6, b6, p4) == IvIn(p4, IvWiden(IvSig(ZIv(row, w6, b6)), 1))
ProbKeyInRange(pk) == KeyLe(KeyZero, pk) /\ KeyLe(pk, KeyOne)
\* predicted class: positive iff probability >= threshold (exact order of the implementation's own floats)
BinDecisionOk(pk, tk, cls, pos, neg) == cls = (IF KeyLe(tk, pk) THEN pos ELSE neg)

\* --- multinomial ----------------------------------------------------------------------------
\* w6: p rows of K coefficients, b6: K intercepts, t[q][k] in {0,1}
Col(w6, k) == [j \in 1..Len(w6) |-> w6[j][k]]
ScoreIvs(row, w6, b6) == [k \in 1..Len(b6) |-> ZIv(row, Col(w6, k), b6[k])]
MultiProbIv(row, w6, b6) == SoftmaxIv(ScoreIvs(row, w6, b6))
MultiResid(x, t, w6, b6) ==
  [q \in 1..Len(x) |-> LET pr == MultiProbIv(x[q], w6, b6) IN [k \in 1..Len(b6) |-> IvSub(pr[k], IvPt(t[q][k] * S))]]
MultiStationary(x, t, w6, b6, an, ad, icpt, allow) ==
  LET r == MultiResid(x, t, w6, b6) IN
  /\ \A j \in 1..Len(w6), k \in 1..Len(b6) :
        Stationary(IvAdd(IvSum([q \in 1..Len(x) |-> IvScale(r[q][k], x[q][j])]), AlphaW(an, ad, w6[j][k])), allow)
  /\ icpt => \A k \in 1..Len(b6) : Stationary(IvSum([q \in 1..Len(x) |-> r[q][k]]), allow)
  /\ ~icpt => \A k \in 1..Len(b6) : b6[k] = 0
MultiProbOk(row, w6, b6, p4row) ==
  LET pr == MultiProbIv(row, w6, b6) IN \A k \in 1..Len(b6) : IvIn(p4row[k], IvWiden(pr[k], 1))
\* a class of maximal probability (ties -- equal floats -- are not decided by the specification)
MultiDecisionOk(pkrow, cls, classes) ==
  \E k \in 1..Len(classes) : classes[k] = cls /\ \A k2 \in 1..Len(classes) : KeyLe(pkrow[k2], pkrow[k])

\* --- reported classes -------------------------------------------------------------------------
SeqSet(s) == {s[q] : q \in 1..Len(s)}
NoDupSeq(s) == Cardinality(SeqSet(s)) = Len(s)

-----------------------------------------------------------------------------
(* (2) Design model of the label coding *)

Labels == 0..(MaxL - 1)
Count(s, v) == Cardinality({q \in 1..Len(s) : s[q] = v})

Init ==
  /\ ys \in UNION {[1..nn -> Labels] : nn \in 0..MaxN}
  /\ pc \in {"scan", "multi"}
  /\ i = 1 /\ c1 = <<>> /\ c2 = <<>> /\ res = <<>> /\ num = <<>>

\* one element of the scan in label_classes
Scan ==
  /\ pc = "scan" /\ i <= Len(ys)
  /\ LET y == ys[i] IN
       IF c1 = <<>> THEN c1' = <<y, 1>> /\ UNCHANGED <<c2, res, pc>>
       ELSE IF c1[1] = y THEN c1' = <<y, c1[2] + 1>> /\ UNCHANGED <<c2, res, pc>>
       ELSE IF c2 # <<>> /\ c2[1] = y THEN c2' = <<y, c2[2] + 1>> /\ UNCHANGED <<c1, res, pc>>
       ELSE IF c2 = <<>> THEN c2' = <<y, 1>> /\ UNCHANGED <<c1, res, pc>>
       ELSE res' = [err |-> "TooManyClasses"] /\ pc' = "done" /\ UNCHANGED <<c1, c2>>
  /\ i' = i + 1
  /\ UNCHANGED <<ys, num>>

\* end of the scan: +-1 coding relative to the first class seen, flipped if that class is the rarer one
Code ==
  /\ pc = "scan" /\ i > Len(ys)
  /\ IF c2 = <<>> THEN res' = [err |-> "TooFewClasses"]
     ELSE LET flip == c1[2] < c2[2]
              t0 == [q \in 1..Len(ys) |-> IF ys[q] = c1[1] THEN 1 ELSE -1]
          IN res' = [err |-> "", pos |-> IF flip THEN c2[1] ELSE c1[1], neg |-> IF flip THEN c1[1] ELSE c2[1],
                     tgt |-> IF flip THEN [q \in 1..Len(ys) |-> -t0[q]] ELSE t0]
  /\ pc' = "done"
  /\ UNCHANGED <<ys, i, c1, c2, num>>

\* label_classes_multi: sort, dedup, one-hot by binary search
SortedSeqOf(set) ==
  CHOOSE s \in [1..Cardinality(set) -> set] : SeqSet(s) = set /\ \A q \in 1..(Len(s) - 1) : s[q] < s[q + 1]
MultiCode ==
  /\ pc = "multi"
  /\ LET cl == SortedSeqOf(SeqSet(ys)) IN
       res' = [err |-> "", classes |-> cl,
               onehot |-> [q \in 1..Len(ys) |-> [k \in 1..Len(cl) |-> IF cl[k] = ys[q] THEN 1 ELSE 0]]]
  /\ pc' = "mdone"
  /\ UNCHANGED <<ys, i, c1, c2, num>>

Next == Scan \/ Code \/ MultiCode

\* the statement's clauses about labels, for the binary model
InvBinCoding ==
  (pc = "done" /\ res.err = "") =>
     /\ res.pos # res.neg
     /\ {res.pos, res.neg} = SeqSet(ys)                                 \* reports the class set it was trained on
     /\ \A q \in 1..Len(ys) : res.tgt[q] = (IF ys[q] = res.pos THEN 1 ELSE -1)   \* coding agrees with the reported classes
     /\ Count(ys, res.pos) >= Count(ys, res.neg)                        \* the more frequent class is the positive one
InvBinErrors ==
  pc = "done" =>
     /\ (res.err = "TooFewClasses") <=> Cardinality(SeqSet(ys)) < 2
     /\ (res.err = "TooManyClasses") <=> Cardinality(SeqSet(ys)) > 2
\* renaming the labels by an order-reversing map does not change the coding pattern (label naming is irrelevant)
InvMultiCoding ==
  pc = "mdone" =>
     /\ SeqSet(res.classes) = SeqSet(ys) /\ NoDupSeq(res.classes)
     /\ \A q \in 1..Len(ys) :
          /\ SumSeq(res.onehot[q]) = 1
          /\ \A k \in 1..Len(res.classes) : (res.onehot[q][k] = 1) <=> (res.classes[k] = ys[q])

-----------------------------------------------------------------------------
(* (3) Bounded numeric model: num = [x |-> rows (p = 1), t |-> 0/1 labels] *)

NumInit ==
  /\ \E nn \in 2..MaxN :
       \E xs \in [1..nn -> 0..2], ts \in [1..nn -> {0, 1}] :
          num = [x |-> [q \in 1..nn |-> <<xs[q]>>], t |-> ts]
  /\ ys = <<>> /\ pc = "num" /\ i = 0 /\ c1 = <<>> /\ c2 = <<>> /\ res = <<>>
NumNext == UNCHANGED vars

Zero1 == <<0>>
\* at the origin sigma = 1/2 exactly, so the gradient is the integer-valued sum (S/2 - t S) x: it must lie in the
\* enclosure, the relation must accept the origin when that sum is 0 and reject it when it is clearly not
NumExactW == SumSeq([q \in 1..Len(num.x) |-> (S \div 2 - num.t[q] * S) * num.x[q][1]])
NumExactB == SumSeq([q \in 1..Len(num.x) |-> (S \div 2 - num.t[q] * S)])
InvNumOrigin ==
  pc = "num" =>
    /\ IvIn(NumExactW, BinGradW(num.x, num.t, Zero1, 0, 0, 1, 1))
    /\ IvIn(NumExactB, BinGradB(num.x, num.t, Zero1, 0))
    /\ (NumExactW = 0 /\ NumExactB = 0) => BinStationary(num.x, num.t, Zero1, 0, 0, 1, TRUE, 0)
    /\ (Abs(NumExactW) > 50 \/ Abs(NumExactB) > 50) => ~BinStationary(num.x, num.t, Zero1, 0, 0, 1, TRUE, 6)
    \* a ridge term moves the origin's gradient by nothing, a unit weight by alpha (penalty on w only)
    /\ IvIn(S, IvSub(BinGradW(num.x, num.t, <<1000000>>, 0, 1, 1, 1), BinGradW(num.x, num.t, <<1000000>>, 0, 0, 1, 1)))
\* sigma(-z) = 1 - sigma(z): flipping all labels and the sign of the parameters negates the gradient
InvNumFlip ==
  pc = "num" =>
    \A w \in {-1500000, 0, 700000}, b \in {-300000, 0, 1200000} :
      LET tf == [q \in 1..Len(num.t) |-> 1 - num.t[q]] IN
      /\ IvMeet(BinGradW(num.x, num.t, <<w>>, b, 0, 1, 1), IvNeg(BinGradW(num.x, tf, <<-w>>, -b, 0, 1, 1)))
      /\ IvMeet(BinGradB(num.x, num.t, <<w>>, b), IvNeg(BinGradB(num.x, tf, <<-w>>, -b)))
\* soft-max: every row of enclosures admits probabilities summing to one; with two classes it is the sigmoid of the
\* score difference (binary and multinomial relations agree)
InvNumSoftmax ==
  pc = "num" =>
    \A w \in {-1500000, 0, 700000}, b \in {-300000, 1200000} :
      \A q \in 1..Len(num.x) :
        LET pr2 == MultiProbIv(num.x[q], << <<w, 0>> >>, <<b, 0>>)
            pr3 == MultiProbIv(num.x[q], << <<w, 0, -w>> >>, <<b, 0, 250000>>)
        IN /\ pr2[1][1] + pr2[2][1] <= S /\ S <= pr2[1][2] + pr2[2][2]
           /\ pr3[1][1] + pr3[2][1] + pr3[3][1] <= S /\ S <= pr3[1][2] + pr3[2][2] + pr3[3][2]
           /\ IvMeet(pr2[1], IvSig(ZIv(num.x[q], <<w>>, b)))
           /\ pr2[1][2] - pr2[1][1] <= 12 /\ pr3[1][2] - pr3[1][1] <= 16      \* enclosures stay tight
=============================================================================
