----------------------------- MODULE XC_LloydIdx -----------------------------
(***************************************************************************)
(* X08 cross-check of the pointwise model: TLC explores specs/LloydInd.tla *)
(* (inertias 0..2, as XC_LloydInd.tla) and checks that for EVERY probe run *)
(* sv <= R the module specs/LloydIdx.tla is its projection on the history  *)
(* cell sv (IdxRefines, IdxInv) and that the pointwise statements for all  *)
(* probes give LloydInd's quantified InvBest (without the hkept clause)    *)
(* and InvPublish (IdxSaysInd).                                            *)
(***************************************************************************)
EXTENDS XC_LloydInd

\* Variant of the instantiated LloydIdx (= Variant, except in the test that the refinement property has teeth)
CONSTANT IdxVariant
Idx(sv) == INSTANCE LloydIdx WITH Variant <- IdxVariant, s <- sv, p_in <- hin[sv], p_iters <- hiters[sv], p_kept <- hkept[sv],
                                  lastin <- IF hlen = 0 THEN 0 ELSE hin[hlen]

IdxInv == \A sv \in Runs : Idx(sv)!IndInv /\ Idx(sv)!Safety
IdxInit == \A sv \in Runs : Idx(sv)!Init
IdxNext == \A sv \in Runs : Idx(sv)!Next
IdxRefines == IdxInit /\ [][IdxNext]_vars
IdxSaysInd ==
  ((\A sv \in Runs : Idx(sv)!PBest /\ Idx(sv)!PPublish) /\ (hlen = 0 => brun = 0)) =>
     /\ hlen > 0 => (brun >= 1 /\ brun <= hlen /\ IsFirstMin(brun) /\ bin = hin[brun])
     /\ InvPublish
=============================================================================
