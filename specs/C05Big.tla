------------------------------- MODULE C05Big -------------------------------
(* Exact wide integers and rationals for the C05 metric definitions.                         *)
(* TLC integers are 32-bit; the textbook formulas of C05 (macro averages, F-beta, Matthews,   *)
(* Pearson, silhouette) are sums/products of fractions whose cross-multiplied comparison with *)
(* a fixed-point observation needs 40..150 bits.  This module provides                        *)
(*   - magnitudes: little-endian sequences of limbs in base BigBase, no trailing zero limb    *)
(*   - signed integers  <<sgn, mag>>, sgn in {-1, 0, 1}                                       *)
(*   - rationals        <<num, den>> of signed integers, den > 0 ; den = 0 means *undefined*  *)
(*     (0/0, x/0): undefinedness propagates through every operation                           *)
(* Everything is exact; MC_C05Big checks it against native arithmetic with BigBase = 10 (so   *)
(* that carries/borrows occur constantly).  Requirement: (BigBase-1)^2 + BigBase < 2^31.      *)
EXTENDS Integers, Sequences

CONSTANT BigBase

\* ---------------------------------------------------------------- magnitudes
RECURSIVE MagNorm(_)
MagNorm(a) == IF Len(a) = 0 THEN a
              ELSE IF a[Len(a)] = 0 THEN MagNorm(SubSeq(a, 1, Len(a) - 1)) ELSE a

RECURSIVE MagOfNat(_)
MagOfNat(n) == IF n = 0 THEN <<>> ELSE <<n % BigBase>> \o MagOfNat(n \div BigBase)

RECURSIVE MagAddC(_, _, _)
MagAddC(a, b, cy) ==
  IF Len(a) = 0 /\ Len(b) = 0 THEN (IF cy = 0 THEN <<>> ELSE <<cy>>)
  ELSE LET x == (IF Len(a) = 0 THEN 0 ELSE a[1]) + (IF Len(b) = 0 THEN 0 ELSE b[1]) + cy
       IN <<x % BigBase>> \o MagAddC(IF Len(a) = 0 THEN a ELSE Tail(a),
                                      IF Len(b) = 0 THEN b ELSE Tail(b), x \div BigBase)
MagAdd(a, b) == IF Len(a) = 0 THEN b ELSE IF Len(b) = 0 THEN a ELSE MagAddC(a, b, 0)

\* a - b for a >= b
RECURSIVE MagSubB(_, _, _)
MagSubB(a, b, bw) ==
  IF Len(a) = 0 THEN <<>>
  ELSE LET x == a[1] - (IF Len(b) = 0 THEN 0 ELSE b[1]) - bw
           tb == IF Len(b) = 0 THEN b ELSE Tail(b)
       IN IF x < 0 THEN <<x + BigBase>> \o MagSubB(Tail(a), tb, 1)
                   ELSE <<x>> \o MagSubB(Tail(a), tb, 0)
MagSub(a, b) == MagNorm(MagSubB(a, b, 0))

RECURSIVE MagCmpFrom(_, _, _)
MagCmpFrom(a, b, i) == IF i = 0 THEN 0
                       ELSE IF a[i] < b[i] THEN -1 ELSE IF a[i] > b[i] THEN 1
                       ELSE MagCmpFrom(a, b, i - 1)
MagCmp(a, b) == IF Len(a) < Len(b) THEN -1 ELSE IF Len(a) > Len(b) THEN 1
                ELSE MagCmpFrom(a, b, Len(a))

RECURSIVE MagMulSmallC(_, _, _)      \* 0 < k < BigBase
MagMulSmallC(a, k, cy) ==
  IF Len(a) = 0 THEN (IF cy = 0 THEN <<>> ELSE <<cy>>)
  ELSE LET x == a[1] * k + cy IN <<x % BigBase>> \o MagMulSmallC(Tail(a), k, x \div BigBase)
MagMulSmall(a, k) == IF k = 0 THEN <<>> ELSE MagMulSmallC(a, k, 0)

RECURSIVE MagMul(_, _)
MagMul(a, b) ==
  IF Len(a) = 0 \/ Len(b) = 0 THEN <<>>
  ELSE LET rest == MagMul(Tail(a), b)
       IN MagAdd(MagMulSmall(b, a[1]), IF Len(rest) = 0 THEN <<>> ELSE <<0>> \o rest)

\* ---------------------------------------------------------------- signed integers
BZero == <<0, <<>>>>
BInt(n) == IF n = 0 THEN BZero ELSE IF n > 0 THEN <<1, MagOfNat(n)>> ELSE <<-1, MagOfNat(-n)>>
BOne == BInt(1)
BSgn(a) == a[1]
BNeg(a) == <<-a[1], a[2]>>
BAbs(a) == <<IF a[1] = 0 THEN 0 ELSE 1, a[2]>>
BMul(a, b) == IF a[1] = 0 \/ b[1] = 0 THEN BZero ELSE <<a[1] * b[1], MagMul(a[2], b[2])>>
BAdd(a, b) ==
  IF a[1] = 0 THEN b ELSE IF b[1] = 0 THEN a
  ELSE IF a[1] = b[1] THEN <<a[1], MagAdd(a[2], b[2])>>
  ELSE LET cc == MagCmp(a[2], b[2]) IN
       IF cc = 0 THEN BZero
       ELSE IF cc > 0 THEN <<a[1], MagSub(a[2], b[2])>> ELSE <<b[1], MagSub(b[2], a[2])>>
BSub(a, b) == BAdd(a, BNeg(b))
BCmp(a, b) == IF a[1] # b[1] THEN (IF a[1] < b[1] THEN -1 ELSE 1)
              ELSE IF a[1] = 0 THEN 0 ELSE a[1] * MagCmp(a[2], b[2])
BLe(a, b) == BCmp(a, b) <= 0
BLt(a, b) == BCmp(a, b) < 0
BEq(a, b) == a = b                      \* representations are canonical
BSq(a) == BMul(a, a)

\* value of a wide integer as a native one (only for the self-check; the value must fit)
RECURSIVE MagToNat(_)
MagToNat(a) == IF Len(a) = 0 THEN 0 ELSE a[1] + BigBase * MagToNat(Tail(a))
BToInt(a) == a[1] * MagToNat(a[2])
BWellFormed(a) == /\ a[1] \in {-1, 0, 1}
                  /\ (a[1] = 0) = (Len(a[2]) = 0)
                  /\ \A q \in 1..Len(a[2]) : a[2][q] \in 0..(BigBase - 1)
                  /\ Len(a[2]) > 0 => a[2][Len(a[2])] # 0

\* ---------------------------------------------------------------- rationals (den > 0, or 0 = undefined)
QUndef == <<BZero, BZero>>
QDef(q) == q[2][1] # 0
QOfB(num, den) == IF den[1] = 0 THEN QUndef ELSE IF den[1] > 0 THEN <<num, den>> ELSE <<BNeg(num), BNeg(den)>>
Q(n, d) == QOfB(BInt(n), BInt(d))        \* native numerator / denominator
QI(n) == <<BInt(n), BOne>>
QNeg(a) == IF QDef(a) THEN <<BNeg(a[1]), a[2]>> ELSE QUndef
QAdd(a, b) == IF ~QDef(a) \/ ~QDef(b) THEN QUndef
              ELSE IF a[2] = b[2] THEN <<BAdd(a[1], b[1]), a[2]>>
              ELSE <<BAdd(BMul(a[1], b[2]), BMul(b[1], a[2])), BMul(a[2], b[2])>>
QSub(a, b) == QAdd(a, QNeg(b))
QMul(a, b) == IF ~QDef(a) \/ ~QDef(b) THEN QUndef ELSE <<BMul(a[1], b[1]), BMul(a[2], b[2])>>
QDiv(a, b) == IF ~QDef(a) \/ ~QDef(b) THEN QUndef
              ELSE QOfB(BMul(a[1], b[2]), BMul(a[2], b[1]))      \* b = 0 -> undefined
QCmp(a, b) == BCmp(BMul(a[1], b[2]), BMul(b[1], a[2]))          \* both defined
QEq(a, b) == (QDef(a) = QDef(b)) /\ (QDef(a) => QCmp(a, b) = 0)
QLe(a, b) == QCmp(a, b) <= 0
QMax(a, b) == IF QCmp(a, b) >= 0 THEN a ELSE b
QMin(a, b) == IF QCmp(a, b) <= 0 THEN a ELSE b
QSgn(a) == a[1][1]
RECURSIVE QSum(_)
QSum(s) == IF Len(s) = 0 THEN QI(0) ELSE QAdd(s[1], QSum(Tail(s)))

\* ---------------------------------------------------------------- comparison with observations
\* obs = round(v * S) is within `slack` units of the exact rational q :  |obs*den - num*S| <= slack*den
QClose(obs, S, slack, q) ==
  BLe(BAbs(BSub(BMul(BInt(obs), q[2]), BMul(q[1], BInt(S)))), BMul(BInt(slack), q[2]))

\* the same with an additional absolute tolerance tol (a non-negative rational):
\*   |obs/S - q| <= slack/S + tol
QAbs(a) == IF QDef(a) THEN <<BAbs(a[1]), a[2]>> ELSE QUndef
QCloseTol(obs, S, slack, q, tol) ==
  BLe(BMul(BAbs(BSub(BMul(BInt(obs), q[2]), BMul(q[1], BInt(S)))), tol[2]),
      BAdd(BMul(BMul(BInt(slack), q[2]), tol[2]), BMul(BMul(BInt(S), q[2]), tol[1])))
\* 2^-e as a rational
RECURSIVE Pow2(_)
Pow2(e) == IF e = 0 THEN 1 ELSE 2 * Pow2(e - 1)
RECURSIVE QPow2Inv(_)
QPow2Inv(e) == IF e <= 15 THEN Q(1, Pow2(e)) ELSE QMul(Q(1, 32768), QPow2Inv(e - 15))

\* S * N / sqrt(D) <= u   (N, D wide integers, D > 0, u native) -- square root removed by squaring
SqrtLe(N, D, S, u) ==
  IF N[1] >= 0 THEN u >= 0 /\ BLe(BMul(BSq(BInt(S)), BSq(N)), BMul(BSq(BInt(u)), D))
  ELSE u >= 0 \/ BLe(BMul(BSq(BInt(u)), D), BMul(BSq(BInt(S)), BSq(N)))
\* |obs - S*N/sqrt(D)| <= slack
SqrtClose(obs, S, slack, N, D) ==
  /\ SqrtLe(N, D, S, obs + slack)
  /\ SqrtLe(BNeg(N), D, S, slack - obs)
=============================================================================
