---------------------------- MODULE Determinism ----------------------------
(***************************************************************************)
(* C20 -- same data, parameters and seed give bit-identical results on     *)
(* every run.  Design model of the two mechanisms the property anchors:    *)
(*                                                                         *)
(* (1) SCHEDULE MODEL of the parallel loops of k-means                     *)
(*     (algorithms/linfa-clustering/src/k_means/algorithm.rs:              *)
(*      update_cluster_memberships, update_min_dists,                      *)
(*      update_memberships_and_dists, followed by compute_centroids /      *)
(*      dists.sum()).  A caller opens a loop over n rows (Begin); rows are *)
(*      claimed in any order by any worker (work stealing) and             *)
(*      Write(w, r) sets out[r] := F(r), where F reads immutable inputs    *)
(*      only; Barrier (the caller, when every row is written); then the    *)
(*      caller reduces `out` LEFT TO RIGHT (RedBegin / RedRow / RedEnd for *)
(*      the row-wise consumers, Sum for whole-array reductions).           *)
(*      Floating-point addition is a NON-ASSOCIATIVE constructor (Plus     *)
(*      terms; commutative, as IEEE addition is), so a reduction performed *)
(*      in schedule order yields a different term: the model               *)
(*      distinguishes exactly the change the property fears.               *)
(*      The whole model is ONE pure step function SchedStep; the design    *)
(*      actions below and the trace specification (hook events             *)
(*      kmeans.par / kmeans.red) both use it, so the binding is exact.     *)
(*      Mode = "par_reduce" is the feared variant (per-worker partial      *)
(*      sums combined at the barrier): TLC must REFUTE InvReduce for it    *)
(*      (props/c20.py expects the counterexample -- vacuity guard).        *)
(*                                                                         *)
(* (2) HASH-ORDER MODEL of folds over a HashMap<label, weight>             *)
(*     (linfa-trees find_modal_class / gini_impurity, linfa-bayes arg-max, *)
(*      linfa-hierarchical label numbering): the map is visited in an      *)
(*      arbitrary permutation (fresh random state per map).  Policy =      *)
(*      "ordered" visits labels in ascending order (what the statement     *)
(*      requires: the result is a function of the map alone); Policy =     *)
(*      "hash" visits in permutation order and must be refuted.            *)
(***************************************************************************)
EXTENDS Integers, Sequences, FiniteSets, TLC

CONSTANTS Workers,      \* set of worker ids (model checking); trace validation passes tids directly
          MaxRows,      \* model checking: loops have 1..MaxRows rows
          Mode,         \* "seq_reduce" (the code) | "par_reduce" (the feared change)
          Labels,       \* hash-order model: set of labels (integers)
          MaxW,         \* hash-order model: weights 0..MaxW
          Policy        \* "ordered" | "hash"

VARIABLES sched,        \* state of the schedule model (a record, see SchedInit0)
          hs            \* state of the hash-order model (a record)

dvars == <<sched, hs>>

-----------------------------------------------------------------------------
(* Terms: floating-point values as uninterpreted terms, + as a commutative, *)
(* non-associative constructor.                                             *)
(* All terms are records of one shape so that TLC can compare any two.       *)
Atom(k, i) == [k |-> k, i |-> i, args |-> {}]
Zero       == Atom("zero", 0)
F(r)       == Atom("f", r)                          \* value computed for row r from immutable inputs
Undef      == Atom("undef", 0)
Plus(a, b) == [k |-> "plus", i |-> 0, args |-> {a, b}]   \* unordered pair: a+b = b+a, (a+b)+c # a+(b+c)

RECURSIVE LeftFoldRows(_)
LeftFoldRows(n) == IF n = 0 THEN Zero ELSE Plus(LeftFoldRows(n - 1), F(n - 1))    \* ((0+f0)+f1)+...

-----------------------------------------------------------------------------
(* (1) schedule model as a pure step function *)

Bad == [phase |-> "bad"]

SchedInit0 ==
  [phase  |-> "idle",      \* idle | par | joined | red
   caller |-> -1,          \* thread that opened the current loop
   n      |-> 0,           \* rows of the current loop
   out    |-> <<>>,        \* out[r+1] = value written for row r, or Undef
   writer |-> <<>>,        \* writer[r+1] = worker that wrote row r (bookkeeping only)
   part   |-> <<>>,        \* par_reduce only: sequence of <<worker, partial sum>> in first-touch order
   rpos   |-> 0,           \* next row of the running sequential reduction
   racc   |-> Zero,        \* its accumulator
   nred   |-> 0,           \* reductions completed on the current output (bookkeeping)
   nval   |-> 0,           \* reduction results compared with the sequential fold (0 / 1)
   coarse |-> FALSE,       \* trace validation only: a loop too large to be logged row by row --
   rcoarse |-> FALSE]      \*   its rows are not observed (begin / barrier / reductions still are)

\* event codes (harness/src/bin/c20.rs: compact_hook)
CBegin == 1   CRow == 2   CEnd == 3   CRedBegin == 4   CRedRow == 5   CRedEnd == 6   CSum == 7
CBeginC == 8  CRedBeginC == 9       \* coarse loops (rows not logged)
CVal == 10                          \* arg = 1 iff the value the code used equals the sequential fold

PartOf(st, w) == IF \E q \in DOMAIN st.part : st.part[q][1] = w
                   THEN (CHOOSE q \in DOMAIN st.part : st.part[q][1] = w) ELSE 0
AddPart(st, w, v) ==
  LET q == PartOf(st, w) IN
  IF q = 0 THEN Append(st.part, <<w, Plus(Zero, v)>>)
  ELSE [st.part EXCEPT ![q] = <<w, Plus(st.part[q][2], v)>>]
RECURSIVE CombineParts(_, _)
CombineParts(parts, q) == IF q = 0 THEN Zero ELSE Plus(CombineParts(parts, q - 1), parts[q][2])

\* mode: "seq_reduce" (the code), "par_reduce" (the feared change), "trace" (= seq_reduce without
\* building the reduction terms: trace validation only needs the guards)
SchedStep(st, code, w, arg, mode) ==
  IF st.phase = "bad" THEN Bad
  ELSE IF code = CBegin THEN
    \* a loop is opened only when no loop / reduction is in progress
    IF st.phase \in {"idle", "joined"} /\ arg >= 0
      THEN [st EXCEPT !.phase = "par", !.caller = w, !.n = arg,
                      !.out = [q \in 1..arg |-> Undef], !.writer = [q \in 1..arg |-> -1],
                      !.part = <<>>, !.rpos = 0, !.racc = Zero, !.nred = 0, !.nval = 0,
                      !.coarse = FALSE, !.rcoarse = FALSE]
      ELSE Bad
  ELSE IF code = CBeginC THEN
    IF st.phase \in {"idle", "joined"} /\ arg >= 0
      THEN [st EXCEPT !.phase = "par", !.caller = w, !.n = arg, !.out = <<>>, !.writer = <<>>,
                      !.part = <<>>, !.rpos = 0, !.racc = Zero, !.nred = 0, !.nval = 0,
                      !.coarse = TRUE, !.rcoarse = FALSE]
      ELSE Bad
  ELSE IF code = CRow THEN
    \* any worker, any order -- but each row exactly once and only before the barrier
    IF st.phase = "par" /\ ~st.coarse /\ arg \in 0..(st.n - 1) /\ st.out[arg + 1] = Undef
      THEN [st EXCEPT !.out[arg + 1] = F(arg), !.writer = IF mode = "trace" THEN st.writer ELSE [st.writer EXCEPT ![arg + 1] = w],
                      !.part = IF mode = "par_reduce" THEN AddPart(st, w, F(arg)) ELSE st.part]
      ELSE Bad
  ELSE IF code = CEnd THEN
    \* barrier: taken by the caller, only when every row has been written
    IF st.phase = "par" /\ w = st.caller /\ (st.coarse \/ \A q \in 1..st.n : st.out[q] # Undef)
      THEN [st EXCEPT !.phase = "joined",
                      !.racc = IF mode = "par_reduce" THEN CombineParts(st.part, Len(st.part)) ELSE st.racc]
      ELSE Bad
  ELSE IF code = CRedBegin THEN
    IF st.phase = "joined" /\ w = st.caller /\ arg = st.n
      THEN [st EXCEPT !.phase = "red", !.rpos = 0, !.racc = Zero, !.rcoarse = FALSE]
      ELSE Bad
  ELSE IF code = CRedBeginC THEN
    IF st.phase = "joined" /\ w = st.caller /\ arg = st.n
      THEN [st EXCEPT !.phase = "red", !.rpos = 0, !.racc = Zero, !.rcoarse = TRUE]
      ELSE Bad
  ELSE IF code = CRedRow THEN
    \* the sequential consumer reads row rpos, on the caller's thread
    IF st.phase = "red" /\ ~st.rcoarse /\ ~st.coarse /\ w = st.caller /\ arg = st.rpos /\ arg < st.n
      THEN [st EXCEPT !.rpos = arg + 1, !.racc = IF mode = "trace" THEN st.racc ELSE Plus(st.racc, st.out[arg + 1])]
      ELSE Bad
  ELSE IF code = CRedEnd THEN
    IF st.phase = "red" /\ w = st.caller /\ (st.rcoarse \/ st.rpos = st.n)
      THEN [st EXCEPT !.phase = "joined", !.nred = st.nred + 1, !.rcoarse = FALSE]
      ELSE Bad
  ELSE IF code = CSum THEN
    \* whole-array reduction (dists.sum(), counting memberships): after the barrier, by the caller
    IF st.phase = "joined" /\ w = st.caller /\ arg = st.n
      THEN [st EXCEPT !.racc = IF mode = "seq_reduce" THEN LeftFoldRows(st.n) ELSE st.racc, !.nred = st.nred + 1]
      ELSE Bad
  ELSE IF code = CVal THEN
    \* the result of a reduction, as the code uses it, is compared with the sequential fold of the
    \* joined output: after the barrier and after the reduction was reported, by the caller, and equal
    IF st.phase = "joined" /\ w = st.caller /\ st.nred > 0 /\ arg = 1
      THEN [st EXCEPT !.nval = 1]
      ELSE Bad
  ELSE Bad

\* design actions (model checking): every interleaving of workers and rows
SBegin == (\E w \in Workers, n \in 1..MaxRows : sched' = SchedStep(sched, CBegin, w, n, Mode) /\ sched' # Bad) /\ UNCHANGED hs
SWrite == (\E w \in Workers, r \in 0..(MaxRows - 1) : sched' = SchedStep(sched, CRow, w, r, Mode) /\ sched' # Bad) /\ UNCHANGED hs
SBarrier == (\E w \in Workers : sched' = SchedStep(sched, CEnd, w, 0, Mode) /\ sched' # Bad) /\ UNCHANGED hs
SRedBegin == (\E w \in Workers : sched.nred = 0 /\ sched' = SchedStep(sched, CRedBegin, w, sched.n, Mode) /\ sched' # Bad) /\ UNCHANGED hs
SRedRow == (\E w \in Workers : sched' = SchedStep(sched, CRedRow, w, sched.rpos, Mode) /\ sched' # Bad) /\ UNCHANGED hs
SRedEnd == (\E w \in Workers : sched' = SchedStep(sched, CRedEnd, w, 0, Mode) /\ sched' # Bad) /\ UNCHANGED hs
SSum == (\E w \in Workers : sched.nred = 0 /\ sched' = SchedStep(sched, CSum, w, sched.n, Mode) /\ sched' # Bad) /\ UNCHANGED hs

\* (the hook recomputes the sequential fold: equal iff the accumulator is the left fold)
SVal == (\E w \in Workers : sched.nval = 0 /\
           sched' = SchedStep(sched, CVal, w, IF sched.racc = LeftFoldRows(sched.n) THEN 1 ELSE 0, Mode) /\ sched' # Bad) /\ UNCHANGED hs

SchedInit == sched = SchedInit0 /\ hs = [pc |-> "off"]
SchedNext == SBegin \/ SWrite \/ SBarrier \/ SRedBegin \/ SRedRow \/ SRedEnd \/ SSum \/ SVal

\* the state at the barrier does not depend on the schedule: every cell holds F(row)
InvBarrier ==
  sched.phase \in {"joined", "red"} => sched.out = [q \in 1..sched.n |-> F(q - 1)]
\* a write never happens twice / after the barrier (guards of SchedStep): written cells are final
InvCells ==
  sched.phase # "idle" => \A q \in 1..sched.n : sched.out[q] \in {Undef, F(q - 1)}
\* the reduction result is the one of the sequential in-order schedule, whatever the schedule was
\* (with Mode = "par_reduce" TLC must find a counterexample: rows taken in another order or by
\* another worker give another term)
RefResult(n) == IF Mode = "par_reduce" THEN Plus(Zero, LeftFoldRows(n)) ELSE LeftFoldRows(n)
InvReduce ==
  (sched.phase = "joined" /\ (sched.nred > 0 \/ Mode = "par_reduce")) => sched.racc = RefResult(sched.n)
\* a reduction result that passed the comparison is the left fold; the design never uses coarse loops
InvVal == sched.nval > 0 => (sched.racc = LeftFoldRows(sched.n) /\ sched.nred > 0)
InvFine == ~sched.coarse /\ ~sched.rcoarse
\* only the caller closes the loop and reduces
InvCaller == sched.phase # "idle" => sched.caller \in Workers

-----------------------------------------------------------------------------
(* (2) hash-order model *)

Perms(S) == {p \in [1..Cardinality(S) -> S] : \A a, b \in 1..Cardinality(S) : a # b => p[a] # p[b]}
RECURSIVE SortedSeq(_)
SortedSeq(S) == IF S = {} THEN <<>>
                ELSE LET m == CHOOSE x \in S : \A y \in S : x <= y IN <<m>> \o SortedSeq(S \ {m})

W(v) == Atom("w", v)     \* a weight as a float term

HashInit ==
  /\ sched = SchedInit0
  /\ \E freq \in [Labels -> 0..MaxW], perm \in Perms(Labels) :
       hs = [pc |-> "visit", freq |-> freq, perm |-> perm, pos |-> 1,
             best |-> -1, bestw |-> -1,      \* running modal class and its weight
             acc |-> Zero]                   \* running float sum of the weights

VisitOrder == IF Policy = "ordered" THEN SortedSeq(Labels) ELSE hs.perm

\* one step of the fold over the map (find_modal_class + the sum of gini_impurity, fused):
\*   policy "hash":    code as written -- keep the running best only if it is strictly heavier
\*   policy "ordered": ascending labels, first maximum wins (ties -> smallest label)
HVisit ==
  /\ hs.pc = "visit" /\ hs.pos <= Cardinality(Labels)
  /\ LET l == VisitOrder[hs.pos]
         w == hs.freq[l]
         replace == IF Policy = "ordered" THEN w > hs.bestw ELSE ~(hs.bestw > w)
     IN hs' = [hs EXCEPT !.pos = hs.pos + 1,
                         !.best = IF replace THEN l ELSE hs.best,
                         !.bestw = IF replace THEN w ELSE hs.bestw,
                         !.acc = Plus(hs.acc, W(w))]
  /\ UNCHANGED sched
HDone ==
  /\ hs.pc = "visit" /\ hs.pos = Cardinality(Labels) + 1
  /\ hs' = [hs EXCEPT !.pc = "done"]
  /\ UNCHANGED sched
HashNext == HVisit \/ HDone

\* the specification of the results: functions of the map alone
ModalSpec(freq) == CHOOSE l \in Labels : /\ \A m \in Labels : freq[m] <= freq[l]
                                         /\ \A m \in Labels : freq[m] = freq[l] => l <= m
RECURSIVE SumOver(_, _, _)
SumOver(freq, order, q) == IF q = 0 THEN Zero ELSE Plus(SumOver(freq, order, q - 1), W(freq[order[q]]))
SumSpec(freq) == SumOver(freq, SortedSeq(Labels), Cardinality(Labels))

\* with Policy = "hash" TLC must find counterexamples to both
InvModal == hs.pc = "done" => hs.best = ModalSpec(hs.freq)
InvSum   == hs.pc = "done" => hs.acc = SumSpec(hs.freq)
=============================================================================
