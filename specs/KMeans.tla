------------------------------- MODULE KMeans -------------------------------
(***************************************************************************)
(* C09 -- k-means (linfa-clustering/src/k_means/algorithm.rs).             *)
(*                                                                         *)
(* Design model at the grain of the code: one restart of the m_k-means     *)
(* Lloyd loop on integer-lattice data with EXACT rational centroids        *)
(*   Assign : every observation takes A centroid at minimal reduced        *)
(*            distance (nondeterministic on exact ties -- the spec never   *)
(*            decides a tie)                                               *)
(*   Update : c' = (c + sum of the assigned points) / (1 + count)          *)
(*            (m_k-means: the old centroid counts as one more point, an    *)
(*            empty cluster keeps its centroid)                            *)
(*   stop   : budget exhausted, or the centroids did not move (shift 0 is  *)
(*            below every positive tolerance)                              *)
(*                                                                         *)
(* A centroid is a record [num |-> <<..>>, den |-> d] (d > 0, reduced).    *)
(* Reduced distances are rationals <<N, D>>: l2 -> squared distance        *)
(* (D = den^2), l1 / linf -> the distance itself (D = den).  Rationals     *)
(* with different denominators are compared exactly by the Euclidean       *)
(* (continued fraction) comparison RatLe, which never forms a product, so  *)
(* everything stays inside TLC's 32-bit integers.                          *)
(*                                                                         *)
(* The same operators (Tab / AdmRow, AsgsT, Upd, CostT, InBox, ShiftSqFx    *)
(* ...) are used, unchanged, by Trace_KMeans on results recorded from the  *)
(* real code.                                                              *)
(***************************************************************************)
EXTENDS Integers, Sequences, FiniteSets, TLC

CONSTANTS MaxN1, Grid1,    \* 1 feature : up to MaxN1 points on 0..Grid1
          MaxN2, Grid2,    \* 2 features: up to MaxN2 points on (0..Grid2)^2
          MaxK, MaxB       \* clusters, iteration budget

VARIABLES metric, X, C0, C, prevC, A, t, pc

mvars == <<metric, X, C0, C, prevC, A, t, pc>>

-----------------------------------------------------------------------------
(* integer helpers *)
KAbs(x) == IF x < 0 THEN -x ELSE x
RECURSIVE KGcd(_, _)
KGcd(a, b) == IF b = 0 THEN a ELSE KGcd(b, a % b)
RECURSIVE KSumTo(_, _)
KSumTo(s, i) == IF i = 0 THEN 0 ELSE s[i] + KSumTo(s, i - 1)
KSum(s) == KSumTo(s, Len(s))
RECURSIVE KMaxTo(_, _)
KMaxTo(s, i) == IF i = 1 THEN s[1] ELSE LET r == KMaxTo(s, i - 1) IN IF s[i] > r THEN s[i] ELSE r
KMax(s) == KMaxTo(s, Len(s))
RECURSIVE KMinTo(_, _)
KMinTo(s, i) == IF i = 1 THEN s[1] ELSE LET r == KMinTo(s, i - 1) IN IF s[i] < r THEN s[i] ELSE r
KMin(s) == KMinTo(s, Len(s))
RECURSIVE Pow10(_)
Pow10(d) == IF d = 0 THEN 1 ELSE 10 * Pow10(d - 1)

\* a/A <= b/B for a, b >= 0 and A, B > 0, without multiplying (Euclid)
RECURSIVE RatLe(_, _, _, _)
RatLe(a, AA, b, BB) ==
  LET qa == a \div AA
      qb == b \div BB
  IN IF qa # qb THEN qa < qb
     ELSE LET ra == a % AA
              rb == b % BB
          IN IF ra = 0 THEN TRUE
             ELSE IF rb = 0 THEN FALSE
             ELSE RatLe(BB, rb, AA, ra)
RatEq(a, AA, b, BB) == RatLe(a, AA, b, BB) /\ RatLe(b, BB, a, AA)

\* floor(a * 10^dg / D) by long division (a >= 0, D > 0, 10 * D < 2^31)
RECURSIVE FracDigits(_, _, _)
FracDigits(r, D, dg) ==
  IF dg = 0 THEN 0
  ELSE LET r10 == r * 10 IN (r10 \div D) * Pow10(dg - 1) + FracDigits(r10 % D, D, dg - 1)
FxDiv(a, D, dg) == (a \div D) * Pow10(dg) + FracDigits(a % D, D, dg)

-----------------------------------------------------------------------------
(* exact centroids *)
RECURSIVE GcdTo(_, _, _)
GcdTo(s, i, g) == IF i = 0 THEN g ELSE GcdTo(s, i - 1, KGcd(g, KAbs(s[i])))
Reduce(num, den) ==
  LET g == GcdTo(num, Len(num), den)
  IN [num |-> [d \in 1..Len(num) |-> num[d] \div g], den |-> den \div g]
Lattice(p) == [num |-> p, den |-> 1]                       \* an integer point as a centroid
LatticeAll(ps) == [j \in 1..Len(ps) |-> Lattice(ps[j])]

\* reduced distance of the integer point x to centroid c as numerator / denominator
Diff(x, c) == [d \in 1..Len(x) |-> KAbs(x[d] * c.den - c.num[d])]
RNum(mt, x, c) ==
  LET df == Diff(x, c) IN
  CASE mt \in {"l2", "lp2"} -> KSum([d \in 1..Len(x) |-> df[d] * df[d]])
    [] mt \in {"l1", "lp1"} -> KSum(df)
    [] mt = "linf" -> KMax(df)
    [] mt = "lp3"  -> KSum([d \in 1..Len(x) |-> df[d] * df[d] * df[d]])
\* (the Minkowski metrics LpDist(p), "lp1" / "lp2" / "lp3", are ordered by sum |d|^p, the p-th power of the
\* distance linfa compares; l2 is linfa's L2Dist whose reduced distance is the squared distance itself)
RDen(mt, c) == CASE mt \in {"l2", "lp2"} -> c.den * c.den
                 [] mt = "lp3" -> c.den * c.den * c.den
                 [] OTHER -> c.den

\* the same distance in fixed point, 5 decimals, rounded down
DFx(mt, x, c) == FxDiv(RNum(mt, x, c), RDen(mt, c), 5)

\* distances of one observation to all centroids: exact rows <<num, den>> and fixed-point rows
DRow(mt, x, CC) == [j \in 1..Len(CC) |-> <<RNum(mt, x, CC[j]), RDen(mt, CC[j])>>]
FxRow(dr) == [j \in DOMAIN dr |-> FxDiv(dr[j][1], dr[j][2], 5)]
\* centroid j is at most as far as centroid l.  eps = 0: exact order of the rationals (the rounded-down
\* values decide it unless they are equal).  eps > 0 (single-precision implementations): up to eps
\* units of 10^-5.
LeRow(dr, fr, j, l, eps) ==
  IF eps = 0 THEN \/ fr[j] < fr[l]
                  \/ fr[j] = fr[l] /\ RatLe(dr[j][1], dr[j][2], dr[l][1], dr[l][2])
  ELSE fr[j] <= fr[l] + eps
\* the centroids an observation may be assigned to: all at minimal distance
AdmRow(dr, fr, eps) == {j \in DOMAIN dr : \A l \in DOMAIN dr : LeRow(dr, fr, j, l, eps)}

\* per observation: fixed-point distances, their minimum, and the admissible (arg-min) centroids
Tab(mt, PP, CC, eps) ==
  [i \in 1..Len(PP) |->
     LET dr == DRow(mt, PP[i], CC)
         fr == FxRow(dr)
     IN [pt |-> PP[i], fx |-> fr, mn |-> KMin(fr), adm |-> AdmRow(dr, fr, eps)]]

MinDFx(mt, x, CC) == KMin(FxRow(DRow(mt, x, CC)))
Adm(mt, x, CC, eps) == LET dr == DRow(mt, x, CC) IN AdmRow(dr, FxRow(dr), eps)

\* all assignments of the observations (one admissible centroid each), from a table:
\* the product of the arg-min sets, built observation by observation.  Equal observations that are
\* adjacent in the data are interchangeable (update, counts and cost depend on the multiset only), so
\* of the assignments that differ by exchanging them only the one with non-decreasing labels is built.
RECURSIVE AsgsTo(_, _)
AsgsTo(tab, i) ==
  IF i = 0 THEN {<<>>}
  ELSE UNION {{Append(s, j) : j \in {jj \in tab[i].adm : i = 1 \/ tab[i].pt # tab[i - 1].pt \/ jj >= s[i - 1]}} :
                s \in AsgsTo(tab, i - 1)}
AsgsT(tab) == AsgsTo(tab, Len(tab))
Asgs(mt, XX, CC, eps) == AsgsT(Tab(mt, XX, CC, eps))

\* within-cluster cost  sum_i min_j rdist(x_i, c_j)  in fixed point (each term rounded down:
\* CostT in (cost * 10^5 - n, cost * 10^5])
CostT(tab) == KSum([i \in 1..Len(tab) |-> tab[i].mn])

Members(AA, j) == {i \in DOMAIN AA : AA[i] = j}
Counts(AA, kk) == [j \in 1..kk |-> Cardinality(Members(AA, j))]

\* m_k-means update of one centroid: (c + sum of its points) / (1 + count)
SumOf(XX, AA, j, d) == KSum([i \in 1..Len(XX) |-> IF AA[i] = j THEN XX[i][d] ELSE 0])
UpdOne(XX, c, AA, j) ==
  LET cnt == Cardinality(Members(AA, j))
  IN Reduce([d \in 1..Len(c.num) |-> c.num[d] + c.den * SumOf(XX, AA, j, d)], c.den * (1 + cnt))
Upd(XX, CC, AA) == [j \in 1..Len(CC) |-> UpdOne(XX, CC[j], AA, j)]

\* how far the update moves centroid j in coordinate d:  c' - c = ShiftNum / (c.den * (1 + cnt))
ShiftNum(XX, c, AA, j, d) == SumOf(XX, AA, j, d) * c.den - Cardinality(Members(AA, j)) * c.num[d]
ZeroShift(XX, CC, AA) == \A j \in 1..Len(CC) : \A d \in 1..Len(CC[j].num) : ShiftNum(XX, CC[j], AA, j, d) = 0
\* squared euclidean length of the whole move (all centroids), 5 decimals, every term rounded down
ShiftSqFx(XX, CC, AA) ==
  KSum([j \in 1..Len(CC) |->
    LET dn == CC[j].den * (1 + Cardinality(Members(AA, j))) IN
    KSum([d \in 1..Len(CC[j].num) |->
      LET sn == ShiftNum(XX, CC[j], AA, j, d) IN FxDiv(sn * sn, dn * dn, 5)])])

CostFx(mt, XX, CC) == CostT(Tab(mt, XX, CC, 0))

\* bounding box of the data
BoxLo(XX, d) == KMin([i \in 1..Len(XX) |-> XX[i][d]])
BoxHi(XX, d) == KMax([i \in 1..Len(XX) |-> XX[i][d]])
InBoxOne(XX, c) == \A d \in 1..Len(c.num) : BoxLo(XX, d) * c.den <= c.num[d] /\ c.num[d] <= BoxHi(XX, d) * c.den
InBox(XX, CC) == \A j \in 1..Len(CC) : InBoxOne(XX, CC[j])

\* cost of cluster j (the points assigned to j by AA) around centroid c, as numerator / RDen(c)
ClusterNum(mt, XX, AA, j, c) == KSum([i \in 1..Len(XX) |-> IF AA[i] = j THEN RNum(mt, XX[i], c) ELSE 0])

-----------------------------------------------------------------------------
(* the bounded design model *)
Pts1 == {<<a>> : a \in 0..Grid1}
Pts2 == {<<a, b>> : a \in 0..Grid2, b \in 0..Grid2}
\* lexicographic order on points, to enumerate datasets as sorted multisets
PLe(p, q) == \/ p[1] < q[1]
             \/ p[1] = q[1] /\ (Len(p) = 1 \/ p[2] <= q[2])
SortedSeqs(P, nn) == {s \in [1..nn -> P] : \A i \in 1..(nn - 1) : PLe(s[i], s[i + 1])}

Init ==
  /\ metric \in {"l2", "l1", "linf", "lp3"}
  /\ \E P \in {Pts1, Pts2} :
     \E nn \in 1..(IF P = Pts1 THEN MaxN1 ELSE MaxN2) :
     \E kk \in 1..(IF nn < MaxK THEN nn ELSE MaxK) :
       /\ X \in SortedSeqs(P, nn)
       /\ C0 \in [1..kk -> P]
  /\ C = LatticeAll(C0)
  /\ prevC = C
  /\ A = <<>>
  /\ t = 0
  /\ pc = "assign"

Assign ==
  /\ pc = "assign"
  /\ A' \in Asgs(metric, X, C, 0)
  /\ pc' = "update"
  /\ UNCHANGED <<metric, X, C0, C, prevC, t>>

Update ==
  /\ pc = "update"
  /\ C' = Upd(X, C, A)
  /\ prevC' = C
  /\ t' = t + 1
  /\ pc' = IF C' = C \/ t' = MaxB THEN "done" ELSE "assign"
  /\ UNCHANGED <<metric, X, C0, A>>

Next == Assign \/ Update \/ (pc = "done" /\ UNCHANGED mvars)

-----------------------------------------------------------------------------
(* invariants of the design: consequences of the definitions that the property states *)
N == Len(X)
K == Len(C0)
F == Len(X[1])

\* exactly k centroids of the data's dimension, positive denominators
InvShape ==
  /\ Len(C) = K
  /\ \A j \in 1..K : Len(C[j].num) = F /\ C[j].den > 0

\* initialised inside the bounding box of the data => every iterate is inside it
InvBox == InBox(X, LatticeAll(C0)) => InBox(X, C)

\* after Assign every observation sits with a centroid at minimal distance; counts sum to n
InvNearest ==
  pc = "update" =>
    /\ \A i \in 1..N : \A l \in 1..K :
         RatLe(RNum(metric, X[i], C[A[i]]), RDen(metric, C[A[i]]), RNum(metric, X[i], C[l]), RDen(metric, C[l]))
    /\ KSum(Counts(A, K)) = N

\* after Update (A is the assignment the update used, prevC the centroids before it):
\* an empty cluster keeps its centroid; a non-empty one moves onto the segment between its old
\* position and the mean of its points, (1 + cnt) * c' = c + sum
InvUpdate ==
  (t > 0 /\ pc # "update") =>
    \A j \in 1..K :
      LET cnt == Cardinality(Members(A, j)) IN
      /\ cnt = 0 => C[j] = prevC[j]
      /\ \A d \in 1..F :
           (1 + cnt) * C[j].num[d] * prevC[j].den
             = C[j].den * (prevC[j].num[d] + prevC[j].den * KSum([i \in 1..N |-> IF A[i] = j THEN X[i][d] ELSE 0]))

\* l2: the update does not increase the cost of any cluster (exact) ...
InvClusterCost ==
  (t > 0 /\ pc # "update" /\ metric = "l2") =>
    \A j \in 1..K :
      RatLe(ClusterNum("l2", X, A, j, C[j]), RDen("l2", C[j]),
            ClusterNum("l2", X, A, j, prevC[j]), RDen("l2", prevC[j]))
\* ... hence (re-assignment only lowers each term) the within-cluster cost never increases
InvCostMonotone ==
  (t > 0 /\ pc # "update" /\ metric = "l2") => CostFx("l2", X, C) <= CostFx("l2", X, prevC) + N

\* a fixed point of the iteration: every non-empty cluster's centroid is the mean of its points
InvFixedPoint ==
  (pc = "done" /\ C = prevC /\ t > 0) =>
    \A j \in 1..K : \A d \in 1..F :
      LET cnt == Cardinality(Members(A, j)) IN
      cnt > 0 => cnt * C[j].num[d] = C[j].den * KSum([i \in 1..N |-> IF A[i] = j THEN X[i][d] ELSE 0])

\* the fixed-point distance is the rounded-down rational and agrees with the exact order
InvFx ==
  \A i \in 1..N : \A j \in 1..K :
    LET a == RNum(metric, X[i], C[j])
        d == RDen(metric, C[j])
        v == DFx(metric, X[i], C[j])
    IN /\ RatLe(v, 100000, a, d)
       /\ ~RatLe(v + 1, 100000, a, d)
       /\ \A l \in 1..K : RatLe(a, d, RNum(metric, X[i], C[l]), RDen(metric, C[l])) => v <= DFx(metric, X[i], C[l])

InvDone == pc = "done" => (t = MaxB \/ C = prevC)
\* the move computed from the sums is the move of the update: zero exactly when nothing changes
InvShift ==
  (t > 0 /\ pc # "update") =>
    /\ ZeroShift(X, prevC, A) <=> (C = prevC)
    /\ ZeroShift(X, prevC, A) => ShiftSqFx(X, prevC, A) = 0
=============================================================================
