------------------------------- MODULE NNRel -------------------------------
(***************************************************************************)
(* C07 -- the defining relations of nearest-neighbour queries (linfa-nn).  *)
(* Variable-free helper module shared by NN (design model), NNBall (ball   *)
(* tree algorithm model) and Trace_NN (trace validation).                  *)
(*                                                                         *)
(* Points and queries are integer tuples.  Distances are used in their     *)
(* order-equivalent integer ("reduced") form: L1 and Linf as they are, L2  *)
(* squared, Lp(3) as the sum of cubes.  A radius is given in eighths       *)
(* (r = r8 / 8, exactly representable in f32/f64) and compared with a      *)
(* reduced distance after scaling both sides to integers.                  *)
(*                                                                         *)
(* A case may carry a scale sc (a power of two): the real coordinates are  *)
(* then pts / sc and q / sc and the real radius r8 / (8 sc).  Every        *)
(* comparison below is homogeneous in the scale, so the relations are      *)
(* stated on the integer numerators; the harness multiplies what it        *)
(* observes (coordinates, ball-tree centres and radii) by sc again.        *)
(*                                                                         *)
(* A query result is a record                                              *)
(*   [pos |-> <<0-based row positions>>, pts |-> <<coordinate tuples>>,    *)
(*    exact |-> every returned coordinate was an integer]                  *)
(***************************************************************************)
EXTENDS Geo

Metrics == {"l1", "l2", "linf", "lp1", "lp2", "lp3"}

\* reduced distance: lp1 / lp2 are LpDist(1.0) / LpDist(2.0), mathematically L1 / L2
RD(metric, p, q) ==
  CASE metric \in {"l1", "lp1"} -> L1(p, q)
    [] metric \in {"l2", "lp2"} -> L2sq(p, q)
    [] metric = "linf"          -> Linf(p, q)
    [] metric = "lp3"           -> Lp3(p, q)

DistVec(metric, P, q) == [i \in 1..Len(P) |-> RD(metric, P[i], q)]

\* metrics whose floating-point evaluation is exact on integer points and dyadic radii (sums,
\* squares, maxima of small integers).  LpDist takes a p-th root: a point on the radius -- or within
\* a relative 2*10^-5 of it in reduced units, far above the f32 evaluation error of the root and of
\* the ball tree's sphere bounds, and empty on small lattices -- is not decided by the specification
\* for those metrics (soundness rules 2 and 3).
ExactMetric(metric) == metric \in {"l1", "l2", "linf", "lp1"}

\* side of the sphere of radius r8/8 on which a point at reduced distance D lies: -1 in, 0 on, 1 out
Side(metric, D, r8) ==
  LET lhs == CASE metric \in {"l1", "lp1", "linf"} -> 8 * D
               [] metric \in {"l2", "lp2"}         -> 64 * D
               [] metric = "lp3"                   -> 512 * D
      rhs == CASE metric \in {"l1", "lp1", "linf"} -> r8
               [] metric \in {"l2", "lp2"}         -> r8 * r8
               [] metric = "lp3"                   -> r8 * r8 * r8
      tol == IF ExactMetric(metric) THEN 0 ELSE lhs \div 50000
  IN IF lhs < rhs - tol THEN -1 ELSE IF lhs > rhs + tol THEN 1 ELSE 0

-----------------------------------------------------------------------------
\* own sorting helpers (Geo!SortSeq clashes by name with TLC!SortSeq when both are extended)
RECURSIVE AscSort(_)
AscSort(s) ==
  IF s = <<>> THEN <<>>
  ELSE LET m == MinSeq(s)
           ix == CHOOSE j \in DOMAIN s : s[j] = m
           rest == [j \in 1..(Len(s) - 1) |-> IF j < ix THEN s[j] ELSE s[j + 1]]
       IN <<m>> \o AscSort(rest)
RECURSIVE SeqOfSet(_)
SeqOfSet(S) == IF S = {} THEN <<>> ELSE LET m == MinSet(S) IN <<m>> \o SeqOfSet(S \ {m})

PosSet(res) == {res.pos[j] : j \in DOMAIN res.pos}

\* every entry is a stored point: its coordinates are those of the row it claims to be,
\* and no row is returned twice
WellFormed(P, res) ==
  /\ res.exact
  /\ Len(res.pts) = Len(res.pos)
  /\ \A j \in DOMAIN res.pos :
       /\ res.pos[j] \in 0..(Len(P) - 1)
       /\ res.pts[j] = P[res.pos[j] + 1]
  /\ Cardinality(PosSet(res)) = Len(res.pos)

Got(dv, res) == [j \in 1..Len(res.pos) |-> dv[res.pos[j] + 1]]

\* k-nearest, by the definition: min(k,n) stored points, ascending, and the distances are those of
\* the min(k,n) smallest of all distances (ties: any of the tied points)
KnnOkDef(P, dv, k, res) ==
  LET m == Min2(k, Len(P)) IN
  /\ WellFormed(P, res)
  /\ Len(res.pos) = m
  /\ Got(dv, res) = SubSeq(AscSort(dv), 1, m)

\* the same relation without sorting (used on large inputs; NN.tla checks the equivalence)
KnnOk(P, dv, k, res) ==
  LET m == Min2(k, Len(P))
      ret == PosSet(res)
      g == Got(dv, res)
  IN
  /\ WellFormed(P, res)
  /\ Len(res.pos) = m
  /\ IsSortedAsc(g)
  /\ \/ m = 0
     \/ m = Len(P)
     \/ LET worst == g[m] IN \A i \in 1..Len(P) : (i - 1) \notin ret => worst <= dv[i]

\* range query: every point strictly inside is returned, no point strictly outside is
StrictSet(metric, dv, r8) == {i - 1 : i \in {j \in DOMAIN dv : Side(metric, dv[j], r8) < 0}}
ClosedSet(metric, dv, r8) == {i - 1 : i \in {j \in DOMAIN dv : Side(metric, dv[j], r8) <= 0}}
OnSet(metric, dv, r8)     == {i - 1 : i \in {j \in DOMAIN dv : Side(metric, dv[j], r8) = 0}}

RangeOk(P, dv, metric, r8, res) ==
  /\ WellFormed(P, res)
  /\ StrictSet(metric, dv, r8) \subseteq PosSet(res)
  /\ PosSet(res) \subseteq ClosedSet(metric, dv, r8)

\* what two indices must agree on for one query: the returned set (for the root-taking metrics,
\* without the points exactly on the radius)
AgreeKey(metric, dv, r8, res) ==
  IF ExactMetric(metric) THEN PosSet(res) ELSE PosSet(res) \ OnSet(metric, dv, r8)

\* malformed builds / queries
BuildValid(dim, leaf) == dim >= 1 /\ (leaf >= 1 \/ leaf = -1)     \* leaf = -1: default leaf size

-----------------------------------------------------------------------------
(* Structure of a built ball tree (anchor: "every point of a subtree must lie within radius of     *)
(* center or pruning becomes unsound").  nd = the nodes in pre-order, each                         *)
(*   [lf |-> is a leaf, fin |-> centre and radius finite, c |-> centre, r |-> radius (both in      *)
(*    hundredths, rounded), p |-> positions held by a leaf, l, rt |-> child indices]               *)
RECURSIVE TreePts(_, _)
TreePts(nd, i) == IF nd[i].lf THEN nd[i].p ELSE TreePts(nd, nd[i].l) \o TreePts(nd, nd[i].rt)

\* integer point p lies in the ball (centre c, radius r, hundredths); slack = rounding of c and r
WithinBall(metric, p, c, r) ==
  LET sp == [d \in 1..Len(p) |-> 100 * p[d]]
      slack == Len(p) + 1
  IN /\ Len(c) = Len(p)
     /\ CASE metric \in {"l1", "lp1"} -> L1(sp, c) <= r + slack
          [] metric = "linf"          -> Linf(sp, c) <= r + slack
          [] metric \in {"l2", "lp2"} -> L2sq(sp, c) <= (r + slack) * (r + slack)

TreeOk(P, metric, leaf, nd) ==
  /\ Len(nd) >= 1
  \* pre-order: children come later (so the recursion below is well-founded)
  /\ \A i \in 1..Len(nd) : nd[i].fin /\ (nd[i].lf \/ (nd[i].l \in (i + 1)..Len(nd) /\ nd[i].rt \in (i + 1)..Len(nd)))
  \* every row of the batch sits in exactly one leaf
  /\ LET all == TreePts(nd, 1) IN Len(all) = Len(P) /\ Range(all) = 0..(Len(P) - 1)
  /\ \A i \in 1..Len(nd) :
       LET sub == TreePts(nd, i) IN
       /\ \A j \in 1..Len(sub) : WithinBall(metric, P[sub[j] + 1], nd[i].c, nd[i].r)
       /\ nd[i].lf => Len(nd[i].p) <= leaf /\ (Len(P) > 0 => nd[i].p # <<>>)
       /\ ~nd[i].lf => TreePts(nd, nd[i].l) # <<>> /\ TreePts(nd, nd[i].rt) # <<>>
=============================================================================
