------------------------------- MODULE NNRel -------------------------------
(***************************************************************************)
(* C07 -- the defining relations of nearest-neighbour queries (linfa-nn).  *)
(* Variable-free helper module shared by NN (design model), NNBall (ball   *)
(* tree algorithm model) and Trace_NN (trace validation).                  *)
(*                                                                         *)
(* Points and queries are integer tuples.  Distances are used in their     *)
(* order-equivalent integer ("reduced") form: L1 and Linf as they are, L2  *)
(* squared, Lp(3) as the sum of cubes.  A radius is given in eighths       *)
(* (r = r8 / 8, exactly representable in f32/f64) and compared with a      *)
(* reduced distance after scaling both sides to integers.                  *)
(*                                                                         *)
(* A query result is a record                                              *)
(*   [pos |-> <<0-based row positions>>, pts |-> <<coordinate tuples>>,    *)
(*    exact |-> every returned coordinate was an integer]                  *)
(***************************************************************************)
EXTENDS Geo

Metrics == {"l1", "l2", "linf", "lp1", "lp2", "lp3"}

\* reduced distance: lp1 / lp2 are LpDist(1.0) / LpDist(2.0), mathematically L1 / L2
RD(metric, p, q) ==
  CASE metric \in {"l1", "lp1"} -> L1(p, q)
    [] metric \in {"l2", "lp2"} -> L2sq(p, q)
    [] metric = "linf"          -> Linf(p, q)
    [] metric = "lp3"           -> Lp3(p, q)

DistVec(metric, P, q) == [i \in 1..Len(P) |-> RD(metric, P[i], q)]

\* side of the sphere of radius r8/8 on which a point at reduced distance D lies: -1 in, 0 on, 1 out
Side(metric, D, r8) ==
  LET lhs == CASE metric \in {"l1", "lp1", "linf"} -> 8 * D
               [] metric \in {"l2", "lp2"}         -> 64 * D
               [] metric = "lp3"                   -> 512 * D
      rhs == CASE metric \in {"l1", "lp1", "linf"} -> r8
               [] metric \in {"l2", "lp2"}         -> r8 * r8
               [] metric = "lp3"                   -> r8 * r8 * r8
  IN IF lhs < rhs THEN -1 ELSE IF lhs = rhs THEN 0 ELSE 1

\* metrics whose floating-point evaluation is exact on integer points and dyadic radii (sums,
\* squares, maxima of small integers).  LpDist takes a p-th root: a point exactly on the radius
\* is not decided by the specification for those (soundness rule 3).
ExactMetric(metric) == metric \in {"l1", "l2", "linf", "lp1"}

-----------------------------------------------------------------------------
PosSet(res) == {res.pos[j] : j \in DOMAIN res.pos}

\* every entry is a stored point: its coordinates are those of the row it claims to be,
\* and no row is returned twice
WellFormed(P, res) ==
  /\ res.exact
  /\ Len(res.pts) = Len(res.pos)
  /\ \A j \in DOMAIN res.pos :
       /\ res.pos[j] \in 0..(Len(P) - 1)
       /\ res.pts[j] = P[res.pos[j] + 1]
  /\ Cardinality(PosSet(res)) = Len(res.pos)

Got(dv, res) == [j \in DOMAIN res.pos |-> dv[res.pos[j] + 1]]

\* k-nearest, by the definition: min(k,n) stored points, ascending, and the distances are those of
\* the min(k,n) smallest of all distances (ties: any of the tied points)
KnnOkDef(P, dv, k, res) ==
  LET m == Min2(k, Len(P)) IN
  /\ WellFormed(P, res)
  /\ Len(res.pos) = m
  /\ Got(dv, res) = SubSeq(SortSeq(dv), 1, m)

\* the same relation without sorting (used on large inputs; NN.tla checks the equivalence)
KnnOk(P, dv, k, res) ==
  LET m == Min2(k, Len(P))
      ret == PosSet(res)
      g == Got(dv, res)
  IN
  /\ WellFormed(P, res)
  /\ Len(res.pos) = m
  /\ IsSortedAsc(g)
  /\ \/ m = 0
     \/ m = Len(P)
     \/ LET worst == g[m] IN \A i \in 1..Len(P) : (i - 1) \notin ret => worst <= dv[i]

\* range query: every point strictly inside is returned, no point strictly outside is
StrictSet(metric, dv, r8) == {i - 1 : i \in {j \in DOMAIN dv : Side(metric, dv[j], r8) < 0}}
ClosedSet(metric, dv, r8) == {i - 1 : i \in {j \in DOMAIN dv : Side(metric, dv[j], r8) <= 0}}
OnSet(metric, dv, r8)     == {i - 1 : i \in {j \in DOMAIN dv : Side(metric, dv[j], r8) = 0}}

RangeOk(P, dv, metric, r8, res) ==
  /\ WellFormed(P, res)
  /\ StrictSet(metric, dv, r8) \subseteq PosSet(res)
  /\ PosSet(res) \subseteq ClosedSet(metric, dv, r8)

\* what two indices must agree on for one query: the returned set (for the root-taking metrics,
\* without the points exactly on the radius)
AgreeKey(metric, dv, r8, res) ==
  IF ExactMetric(metric) THEN PosSet(res) ELSE PosSet(res) \ OnSet(metric, dv, r8)

\* malformed builds / queries
BuildValid(dim, leaf) == dim >= 1 /\ (leaf >= 1 \/ leaf = -1)     \* leaf = -1: default leaf size
=============================================================================
