----------------------------- MODULE Vectorizer -----------------------------
(***************************************************************************)
(* C17 -- count / tf-idf vectorisers of linfa-preprocessing.               *)
(*                                                                         *)
(* Part 1: the defining relation of the statement, on documents given as   *)
(*   sequences of Unicode code points: canonicalisation (NFKD, then lower- *)
(*   casing), tokenisation (maximal runs of a character class with a       *)
(*   minimum length), n-grams, document frequencies, the admitted          *)
(*   vocabulary (df window, stop entries, feature cap, fixed vocabulary),  *)
(*   the count of an entry in a document, the three idf formulas.          *)
(* Part 2: a design model at the grain of the code (countgrams/mod.rs,     *)
(*   helpers.rs): ReadDoc (per-document n-gram set -> df map) ; Filter ;   *)
(*   Reindex (hash order, two views word->column and column->word) ;       *)
(*   Analyze (NGramList windowing, dense row).  TLC checks that the        *)
(*   mechanism yields the relation of part 1 on a bounded domain.          *)
(* Trace_Vectorizer uses part 1, unchanged, on values recorded from the    *)
(* real implementation.                                                    *)
(***************************************************************************)
EXTENDS Elem, TLC      \* Elem -> Fx -> Integers, Sequences, FiniteSets

CONSTANTS MaxDocs, MaxToks      \* bounds of the design model (part 2)

VARIABLES st, corpus, test,     \* settings, training corpus, unseen documents (chosen in Init)
          pc, i,
          dfmap,                \* fit: entry -> number of documents read so far that contain it
          kept,                 \* fit: entries that survive filter_vocabulary
          voc, colmap,          \* the two views after hashmap_to_vocabulary: column -> entry, entry -> column
          rows                  \* transform: dense rows produced so far

vars == <<st, corpus, test, pc, i, dfmap, kept, voc, colmap, rows>>

-----------------------------------------------------------------------------
(* Part 1a. Characters.  The tables state Unicode facts for the code points of `Alphabet` only:  *)
(* compatibility decomposition (NFKD; canonical reordering never applies because the alphabet     *)
(* holds a single combining mark), simple lower-casing (String::to_lowercase; no context rules    *)
(* apply to these characters), \w of the regex crate (UTS#18: Alphabetic, Mark, Nd, Pc), and      *)
(* White_Space.                                                                                   *)

Alphabet == (48..57) \cup (65..90) \cup (97..122)
            \cup {9, 10, 32, 33, 39, 44, 45, 46, 58, 59, 95}
            \cup {178, 201, 233, 769, 933, 965, 978, 64257}

Nfkd(ch) == CASE ch = 233   -> <<101, 769>>     \* e-acute            -> e, combining acute
              [] ch = 201   -> <<69, 769>>      \* E-acute            -> E, combining acute
              [] ch = 64257 -> <<102, 105>>     \* ligature fi        -> f, i       (compatibility)
              [] ch = 178   -> <<50>>           \* superscript two    -> 2          (compatibility)
              [] ch = 978   -> <<933>>          \* upsilon with hook  -> Upsilon    (compatibility)
              [] OTHER      -> <<ch>>
Low(ch) == IF ch \in 65..90 THEN ch + 32
           ELSE IF ch = 201 THEN 233
           ELSE IF ch = 933 THEN 965            \* Upsilon -> upsilon ; 978 has no lower-case mapping
           ELSE ch
IsWordCh(ch) == ch \in (48..57) \cup (65..90) \cup (97..122) \cup {95, 201, 233, 769, 933, 965, 978, 64257}
IsSpace(ch)  == ch \in {9, 10, 32}

RECURSIVE NormStr(_)
NormStr(s) == IF s = <<>> THEN <<>> ELSE Nfkd(Head(s)) \o NormStr(Tail(s))
LowStr(s)  == [p \in 1..Len(s) |-> Low(s[p])]

\* documented pipeline: normalise (if set), then lower-case (if set)
Canon(stt, s) == LET a == IF stt.norm THEN NormStr(s) ELSE s IN IF stt.lower THEN LowStr(a) ELSE a

-----------------------------------------------------------------------------
(* Part 1b. Tokenisers of the model (the harness maps the name to the API value):               *)
(*   "default"  no tokenizer call: regex \b\w\w+\b  = maximal runs of \w, at least 2 code points *)
(*   "re_w1"    Tokenizer::Regex(\w+)               = maximal runs of \w                         *)
(*   "re_s2"    Tokenizer::Regex(\S\S+)             = maximal runs of non-space, at least 2      *)
(*   "fn_ws"    Tokenizer::Function(split_whitespace) = maximal runs of non-space                *)
(*   "re_b2"    Tokenizer::Regex(\b[^ ][^ ]+\b)      see below                                     *)
TokKinds == {"default", "re_w1", "re_s2", "fn_ws", "re_b2"}
InClass(tok, ch) == IF tok \in {"default", "re_w1"} THEN IsWordCh(ch) ELSE IF tok = "re_b2" THEN ch # 32 ELSE ~IsSpace(ch)
MinLen(tok)      == IF tok \in {"default", "re_s2", "re_b2"} THEN 2 ELSE 1

RECURSIVE Scan(_, _, _, _)
Scan(tok, s, p, cur) ==
  LET flush == IF Len(cur) >= MinLen(tok) THEN <<cur>> ELSE <<>> IN
  IF p > Len(s) THEN flush
  ELSE IF InClass(tok, s[p]) THEN Scan(tok, s, p + 1, Append(cur, s[p]))
  ELSE flush \o Scan(tok, s, p + 1, <<>>)

\*   "re_b2"    Tokenizer::Regex(\b[^ ][^ ]+\b), the custom regex of linfa's own tests.  Regexes of the shape
\*   \b C C+ \b are modelled with the search semantics of the regex crate: leftmost match; C+ is greedy and
\*   gives characters back until the match ends at a word boundary; the search resumes at the end of a match.
\*   (For C = \w this is "maximal runs of length >= 2" -- invariant InvRegex of the design model.)
Bnd(s, p) == (p > 1 /\ IsWordCh(s[p - 1])) # (p <= Len(s) /\ IsWordCh(s[p]))       \* \b between s[p-1] and s[p]
InC(cls, ch) == IF cls = "word" THEN IsWordCh(ch) ELSE ch # 32
RECURSIVE RunEnd(_, _, _)
RunEnd(cls, s, p) == IF p > Len(s) THEN p ELSE IF ~InC(cls, s[p]) THEN p ELSE RunEnd(cls, s, p + 1)
MatchEnd(cls, s, p) ==          \* 0 = no match starts at p ; otherwise the position after the match
  IF ~Bnd(s, p) \/ ~InC(cls, s[p]) THEN 0
  ELSE LET Q == {q \in (p + 2)..RunEnd(cls, s, p) : Bnd(s, q)} IN IF Q = {} THEN 0 ELSE MaxSet(Q)
RECURSIVE ScanB(_, _, _)
ScanB(cls, s, p) ==
  IF p > Len(s) THEN <<>>
  ELSE LET q == MatchEnd(cls, s, p) IN
       IF q = 0 THEN ScanB(cls, s, p + 1) ELSE <<SubSeq(s, p, q - 1)>> \o ScanB(cls, s, q)

Tokens(tok, s) == IF tok = "re_b2" THEN ScanB("nonsp", s, 1) ELSE Scan(tok, s, 1, <<>>)

DocToks(stt, doc) == Tokens(stt.tok, Canon(stt, doc))

-----------------------------------------------------------------------------
(* Part 1c. n-grams and counts.  An occurrence is a pair <<start, length>>; its entry is the    *)
(* tokens joined by one space.                                                                  *)
RECURSIVE JoinTok(_, _, _)
JoinTok(toks, a, b) == IF a > b THEN <<>> ELSE IF a = b THEN toks[a] ELSE toks[a] \o <<32>> \o JoinTok(toks, a + 1, b)

Occ(toks, mn, mx) == {o \in (1..Len(toks)) \X (mn..mx) : o[1] + o[2] - 1 <= Len(toks)}
Gram(toks, o)     == JoinTok(toks, o[1], o[1] + o[2] - 1)
GramSet(toks, mn, mx)  == {Gram(toks, o) : o \in Occ(toks, mn, mx)}
Count(toks, mn, mx, g) == Cardinality({o \in Occ(toks, mn, mx) : Gram(toks, o) = g})

\* the same thing arranged for evaluation: all occurrences of a document listed once (by length, then start);
\* CountIn(GramList(toks, mn, mx), g) = Count(toks, mn, mx, g) is an invariant of the design model
RECURSIVE OccSeq(_, _, _)
OccSeq(len, n, mx) == IF n > mx THEN <<>> ELSE [q \in 1..Max2(0, len - n + 1) |-> <<q, n>>] \o OccSeq(len, n + 1, mx)
GramList(toks, mn, mx) == LET os == OccSeq(Len(toks), mn, mx) IN [q \in 1..Len(os) |-> Gram(toks, os[q])]
CountIn(grams, g) == Cardinality({q \in 1..Len(grams) : grams[q] = g})

NoDup(s) == Cardinality(Range(s)) = Len(s)

\* relative document-frequency window, exact: dfmin <= df/n <= dfmax with dfmin, dfmax = <<num, den>>
DfOk(stt, n, df) == /\ df * stt.dfmin[2] >= stt.dfmin[1] * n
                    /\ df * stt.dfmax[2] <= stt.dfmax[1] * n
IsStop(stt, g) == stt.hasstop /\ g \in Range(stt.stop)

\* V is a set of the k most frequent elements of A w.r.t. the function f (ties arbitrary)
TopK(V, A, k, f) == /\ V \subseteq A
                    /\ Cardinality(V) = Min2(k, Cardinality(A))
                    /\ \A v \in V, w \in A \ V : f[v] >= f[w]

\* tl = token lists of the training corpus.  Everything the vocabulary clause needs, computed once.
FitFacts(stt, tl) ==
  LET n    == Len(tl)
      gl   == [d \in 1..n |-> GramList(tl[d], stt.nmin, stt.nmax)]
      gs   == [d \in 1..n |-> Range(gl[d])]
      cand == UNION {gs[d] : d \in 1..n}
      df   == [g \in cand |-> Cardinality({d \in 1..n : g \in gs[d]})]
      adm  == {g \in cand : DfOk(stt, n, df[g]) /\ ~IsStop(stt, g)}
  IN [n |-> n, gl |-> gl, cand |-> cand, df |-> df, adm |-> adm]
\* corpus term frequency of the admitted entries (only needed for the second reading of a feature cap)
TermFreq(ff) == [g \in ff.adm |-> SumSeq([d \in 1..ff.n |-> CountIn(ff.gl[d], g)])]

\* The vocabulary clause of the statement.  "Most frequent" under a cap is accepted for either
\* reading of frequency (document frequency, as the vocabulary map stores it, or corpus term
\* frequency, as the doc comment of max_features says); ties are arbitrary.
CapOkDf(stt, ff, V) == TopK(V, ff.adm, stt.cap, ff.df)
CapOkTf(stt, ff, V) == TopK(V, ff.adm, stt.cap, TermFreq(ff))
VocabSetOk(stt, ff, V) ==
  IF stt.fixed THEN V = Range(stt.vocab)
  ELSE IF stt.cap < 0 THEN V = ff.adm
  ELSE CapOkDf(stt, ff, V) \/ CapOkTf(stt, ff, V)
VocabOk(stt, tl, v) == NoDup(v) /\ VocabSetOk(stt, FitFacts(stt, tl), Range(v))

\* count matrix: column j refers to v[j]; out-of-vocabulary n-grams contribute nothing
RowOk(stt, v, toks, row) ==
  LET grams == GramList(toks, stt.nmin, stt.nmax) IN
  /\ Len(row) = Len(v)
  /\ \A j \in 1..Len(v) : row[j] = CountIn(grams, v[j])
CountOk(stt, v, docs, m) ==
  /\ Len(m) = Len(docs)
  /\ \A d \in 1..Len(docs) : RowOk(stt, v, DocToks(stt, docs[d]), m[d])

-----------------------------------------------------------------------------
(* Part 1d. idf, fixed point ES = 10^4 (Elem.LnInt: ln of integers 1..1024).  n >= 1; df >= 1    *)
(* for "nonsmooth" (documented: zero document frequency divides by zero).                        *)
Methods == {"smooth", "nonsmooth", "textbook"}
IdfS(method, n, df) ==
  CASE method = "smooth"    -> LnRat(1 + n, 1 + df) + ES
    [] method = "nonsmooth" -> LnRat(n, df) + ES
    [] method = "textbook"  -> LnRat(n, 1 + df)

\* tf-idf over the *transformed* corpus `docs`: entry = count * idf(n = #docs, df = #docs with count > 0);
\* a zero count gives zero.  Slack: ElemErr units per unit of count (table error of Ln) + 1 (rounding of the log).
TfIdfOk(stt, method, v, docs, m) ==
  LET n   == Len(docs)
      cnt == [d \in 1..n |-> LET grams == GramList(DocToks(stt, docs[d]), stt.nmin, stt.nmax) IN
                             [j \in 1..Len(v) |-> CountIn(grams, v[j])]]
      df  == [j \in 1..Len(v) |-> Cardinality({d \in 1..n : cnt[d][j] > 0})]
  IN /\ Len(m) = n
     /\ \A d \in 1..n :
          /\ Len(m[d]) = Len(v)
          /\ \A j \in 1..Len(v) :
               IF cnt[d][j] = 0 THEN m[d][j] = 0
               ELSE Abs(m[d][j] - cnt[d][j] * IdfS(method, n, df[j])) <= cnt[d][j] * ElemErr + 1

\* sanity of the idf formulas (checked once by TLC when the module is loaded)
ASSUME IdfSanity ==
  \A n \in 1..24 : \A df \in 1..n :
     /\ IdfS("smooth", n, df) >= ES /\ IdfS("nonsmooth", n, df) >= ES
     /\ IdfS("smooth", n, n) = ES /\ IdfS("nonsmooth", n, n) = ES
     /\ IdfS("textbook", n, df) <= IdfS("nonsmooth", n, df) - ES
     /\ df < n => /\ IdfS("smooth", n, df) >= IdfS("smooth", n, df + 1)
                  /\ IdfS("nonsmooth", n, df) > IdfS("nonsmooth", n, df + 1)
                  /\ IdfS("smooth", n, df) <= IdfS("nonsmooth", n, df)
     /\ IdfS("textbook", n, n) < 0

-----------------------------------------------------------------------------
(* Part 2. Design model at the grain of the code.                                               *)

\* helpers.rs NGramList::ngram_items(index), index 0-based as in the code; some = FALSE models None
NgramItems(list, index, mn, mx) ==
  IF mx = 1 THEN [some |-> TRUE, items |-> <<list[index + 1]>>]
  ELSE LET len == Len(list)  minEnd == index + mn IN
       IF minEnd > len THEN [some |-> FALSE, items |-> <<>>]
       ELSE LET maxEnd == Min2(index + mx, len) IN
            [some |-> TRUE, items |-> [q \in 1..(maxEnd - minEnd + 1) |-> JoinTok(list, index + 1, minEnd + q - 1)]]
\* NGramListIntoIterator::next, flattened: all items in the order the code emits them
RECURSIVE IterItems(_, _, _, _)
IterItems(list, index, mn, mx) ==
  IF index >= Len(list) THEN <<>>
  ELSE LET r == NgramItems(list, index, mn, mx) IN
       IF r.some THEN r.items \o IterItems(list, index + 1, mn, mx) ELSE <<>>
Items(stt, doc) == IterItems(DocToks(stt, doc), 0, stt.nmin, stt.nmax)

\* bounded domain of the model: four scenario families <<settings, corpus>>
RECURSIVE JoinWords(_, _, _)
JoinWords(words, ix, sep) == IF ix = <<>> THEN <<>> ELSE IF Len(ix) = 1 THEN words[ix[1]]
                             ELSE words[ix[1]] \o sep \o JoinWords(words, Tail(ix), sep)
DocsOver(words, k) == {JoinWords(words, ix, <<32>>) : ix \in UNION {[1..m -> 1..Len(words)] : m \in 0..k}}
RECURSIVE SomeOrder(_)
SomeOrder(S) == IF S = {} THEN <<>> ELSE LET x == CHOOSE y \in S : TRUE IN <<x>> \o SomeOrder(S \ {x})
\* corpora of at most k documents from the set D, as multisets (one representative order each)
CorporaUpTo(D, k) == LET ds == SomeOrder(D) IN
  UNION {{[p \in 1..m |-> ds[ix[p]]] : ix \in {jx \in [1..m -> 1..Len(ds)] : \A p \in 1..(m - 1) : jx[p] <= jx[p + 1]}} : m \in 0..k}

WPlain == << <<97, 97>>, <<98, 98>> >>                                   \* "aa", "bb"
WForms == << <<97, 97>>, <<66, 233>>, <<99>>, <<98, 101, 769>> >>        \* "aa", "B<e-acute>", "c", "be<combining acute>"
MCTests == { << <<>>, <<99, 99, 32, 97, 97, 32, 98, 233, 32, 97, 97, 32, 98, 98>> >> }   \* an empty document and "cc aa b<e-acute> aa bb"

St0 == [lower |-> TRUE, norm |-> TRUE, tok |-> "default", nmin |-> 1, nmax |-> 1,
        dfmin |-> <<0, 1>>, dfmax |-> <<1, 1>>, hasstop |-> FALSE, stop |-> <<>>,
        cap |-> -1, fixed |-> FALSE, vocab |-> <<>>]
NRanges == {<<1, 1>>, <<1, 2>>, <<2, 2>>, <<1, 3>>, <<2, 3>>, <<3, 3>>}
\* (1) windowing: one document of 0..MaxToks tokens, every n-gram range
ScenWindow == {<< [St0 EXCEPT !.nmin = r[1], !.nmax = r[2]], <<d>> >> : r \in NRanges, d \in DocsOver(WPlain, MaxToks)}
\* (2) canonicalisation / tokenisers: one document of <= 2 written forms, all switches
ScenCanon  == {<< [St0 EXCEPT !.lower = lo, !.norm = no, !.tok = tk, !.nmax = 2], <<d>> >> :
                 lo \in BOOLEAN, no \in BOOLEAN, tk \in TokKinds,
                 d \in DocsOver(WForms, 2) \cup {<<97, 97, 59, 32, 66, 233, 44, 99, 99>>} }
\* (3) filtering: corpora of <= MaxDocs short documents; df windows, stop entries, caps
FilterSettings ==
  {[St0 EXCEPT !.dfmin = w[1], !.dfmax = w[2]] :
       w \in {<<<<1, 2>>, <<1, 1>>>>, <<<<0, 1>>, <<1, 2>>>>, <<<<3, 4>>, <<1, 1>>>>, <<<<1, 4>>, <<3, 4>>>>}}
  \cup {[St0 EXCEPT !.hasstop = TRUE, !.stop = sw, !.nmax = 2] :
       sw \in {<<>>, << <<97, 97>> >>, << <<97, 97, 32, 98, 98>>, <<65, 65>> >>}}
  \cup {[St0 EXCEPT !.cap = k, !.nmax = 2] : k \in 0..3}
  \cup {[St0 EXCEPT !.cap = 1, !.dfmin = <<1, 2>>]}
ScenFilter == {<<s, cp>> : s \in FilterSettings, cp \in CorporaUpTo(DocsOver(WPlain, 2), MaxDocs)}
\* (4) fixed vocabulary (duplicates, an n-gram entry, an entry that never occurs)
ScenFixed  == {<< [St0 EXCEPT !.fixed = TRUE, !.vocab = vv, !.nmax = 2], <<d>> >> :
                 vv \in {<<>>, << <<97, 97>>, <<97, 97>>, <<97, 97, 32, 98, 98>> >>, << <<98, 98>>, <<122>> >>},
                 d \in DocsOver(WPlain, 2)}
MCScen == ScenWindow \cup ScenCanon \cup ScenFilter \cup ScenFixed

Init ==
  /\ \E sc \in MCScen : st = sc[1] /\ corpus = sc[2]
  /\ test \in MCTests
  /\ pc = IF st.fixed THEN "reindex" ELSE IF Len(corpus) = 0 THEN "filter" ELSE "read"
  /\ i = 1
  /\ dfmap = <<>>
  /\ kept = IF st.fixed THEN Range(st.vocab) ELSE {}       \* fit_vocabulary: entry(item).or_insert(..)
  /\ voc = <<>> /\ colmap = <<>> /\ rows = <<>>

\* read_document_into_vocabulary: the *set* of n-grams of document i raises each df by one
ReadDoc ==
  /\ pc = "read"
  /\ LET s == Range(Items(st, corpus[i])) IN
     dfmap' = [g \in (DOMAIN dfmap) \cup s |->
                 (IF g \in DOMAIN dfmap THEN dfmap[g] ELSE 0) + (IF g \in s THEN 1 ELSE 0)]
  /\ i' = i + 1
  /\ pc' = IF i = Len(corpus) THEN "filter" ELSE "read"
  /\ UNCHANGED <<st, corpus, test, kept, voc, colmap, rows>>

\* filter_vocabulary as specified: relative df window, stop entries, then the cap by (stored) frequency
Filter ==
  /\ pc = "filter"
  /\ LET pass == {g \in DOMAIN dfmap : DfOk(st, Len(corpus), dfmap[g]) /\ ~IsStop(st, g)} IN
     kept' \in IF st.cap < 0 THEN {pass} ELSE {V \in SUBSET pass : TopK(V, pass, st.cap, dfmap)}
  /\ pc' = "reindex"
  /\ UNCHANGED <<st, corpus, test, i, dfmap, voc, colmap, rows>>

\* hashmap_to_vocabulary: the hash order is arbitrary; both views are written from the same walk
Rev(s) == [p \in 1..Len(s) |-> s[Len(s) + 1 - p]]
Orders(S) == {SomeOrder(S), Rev(SomeOrder(S))}      \* two opposite walks stand for "any order"
Reindex ==
  /\ pc = "reindex"
  /\ voc' \in Orders(kept)
  /\ colmap' = [g \in kept |-> (CHOOSE p \in 1..Len(voc') : voc'[p] = g) - 1]
  /\ i' = 1
  /\ pc' = IF Len(corpus \o test) = 0 THEN "done" ELSE "analyze"
  /\ UNCHANGED <<st, corpus, test, dfmap, kept, rows>>

\* analyze_document: every emitted item that is a key of the map raises its column of the dense row
Analyze ==
  /\ pc = "analyze"
  /\ LET docs  == corpus \o test
         items == Items(st, docs[i])
         row   == [j \in 1..Len(voc) |->
                     Cardinality({q \in 1..Len(items) : items[q] \in DOMAIN colmap /\ colmap[items[q]] = j - 1})]
     IN /\ rows' = Append(rows, row)
        /\ pc' = IF i = Len(docs) THEN "done" ELSE "analyze"
  /\ i' = i + 1
  /\ UNCHANGED <<st, corpus, test, dfmap, kept, voc, colmap>>

Next == ReadDoc \/ Filter \/ Reindex \/ Analyze
Spec == Init /\ [][Next]_vars

-----------------------------------------------------------------------------
(* Invariants of the design *)
TokLists(stt, docs) == [d \in 1..Len(docs) |-> DocToks(stt, docs[d])]
Prefix == IF pc = "read" THEN SubSeq(corpus, 1, i - 1) ELSE corpus

\* the df map built incrementally from per-document sets is the definitional document frequency
InvDf ==
  ~st.fixed /\ pc \in {"read", "filter"} => LET ff == FitFacts(st, TokLists(st, Prefix)) IN
               /\ DOMAIN dfmap = ff.cand
               /\ \A g \in ff.cand : dfmap[g] = ff.df[g]

\* the fitted vocabulary satisfies the statement's clause, and the two views agree
InvVocab ==
  pc \in {"analyze", "done"} =>
    /\ VocabOk(st, TokLists(st, corpus), voc)
    /\ DOMAIN colmap = Range(voc)
    /\ \A p \in 1..Len(voc) : colmap[voc[p]] = p - 1

\* every produced row is the naive count, for training and unseen documents
InvRows == \A d \in 1..Len(rows) : RowOk(st, voc, DocToks(st, (corpus \o test)[d]), rows[d])

\* NGramList emits exactly the occurrences <<start, length>> of the definition (as a multiset of entries)
InvWindow ==
  pc = "reindex" =>
  \A d \in 1..Len(corpus) :
     LET toks == DocToks(st, corpus[d])  items == Items(st, corpus[d]) IN
     /\ Len(items) = Cardinality(Occ(toks, st.nmin, st.nmax))
     /\ \A g \in Range(items) \cup GramSet(toks, st.nmin, st.nmax) :
          /\ Cardinality({q \in 1..Len(items) : items[q] = g}) = Count(toks, st.nmin, st.nmax, g)
          /\ CountIn(GramList(toks, st.nmin, st.nmax), g) = Count(toks, st.nmin, st.nmax, g)

\* algebraic consequences of the definitions (guards against a vacuous / wrong relation)
InvAlgebra ==
  pc = "reindex" /\ ~st.fixed =>
    LET tl == TokLists(st, corpus)
        ff == FitFacts(st, tl)
        wide == FitFacts([st EXCEPT !.dfmin = <<0, 1>>, !.dfmax = <<1, 1>>], tl)
    IN /\ ff.adm \subseteq wide.adm                               \* admitted set is monotone in the df window
       /\ wide.adm = {g \in ff.cand : ~IsStop(st, g)}            \* the full window admits every non-stop candidate
       /\ \A g \in ff.cand : ff.df[g] \in 1..ff.n
       /\ \A g \in ff.adm : TermFreq(ff)[g] >= ff.df[g]
       /\ \A d \in 1..ff.n :                                      \* counts of a document sum to its occurrences
            SumSeq([q \in 1..Cardinality(ff.cand) |-> Count(tl[d], st.nmin, st.nmax, SomeOrder(ff.cand)[q])])
              = Cardinality(Occ(tl[d], st.nmin, st.nmax))
       /\ st.cap >= 0 => Cardinality(kept) = Min2(st.cap, Cardinality(ff.adm))

\* tokens obey their class and minimum length; canonicalisation and tokenisation are idempotent
InvTokens ==
  pc = "reindex" =>
  \A d \in 1..Len(corpus) :
     LET cs == Canon(st, corpus[d])  toks == Tokens(st.tok, cs) IN
     /\ Canon(st, cs) = cs
     /\ \A q \in 1..Len(toks) : Len(toks[q]) >= MinLen(st.tok) /\ \A p \in 1..Len(toks[q]) : InClass(st.tok, toks[q][p])
     /\ Tokens(st.tok, JoinTok(toks, 1, Len(toks))) = toks
     /\ ScanB("word", cs, 1) = Scan("default", cs, 1, <<>>)       \* InvRegex: \b\w\w+\b = maximal \w runs of length >= 2
     /\ \A p \in 1..Len(corpus[d]) : corpus[d][p] \in Alphabet

=============================================================================
