------------------------- MODULE Trace_Incremental -------------------------
(***************************************************************************)
(* C15 trace validation.  A case is a whole history of fit_with calls on   *)
(* the real linfa API (harness/src/bin/c15.rs); every event is one call.   *)
(*   gnb / mnb : "state" after every batch, "whole" for the single fit.    *)
(*               After i batches the model must hold the textbook          *)
(*               estimates of the rows consumed so far (Incremental.tla    *)
(*               I.1): classes, counts, priors, means, smoothed variances  *)
(*               / feature counts and smoothed log-frequencies; every      *)
(*               prediction maximises the posterior (ties and near-ties:   *)
(*               any maximiser).  The same relation with m = n judges the  *)
(*               single fit, so both are equal to the textbook values and  *)
(*               hence to each other.                                      *)
(*   kmeans    : "km" after every batch: the spec state (Sum_c, N_c) is    *)
(*               advanced by the documented recurrence; TLC infers the     *)
(*               assignment of tied points and (random initialisers) which *)
(*               rows of the first batch were the initial centroids.       *)
(*   ftrl      : "ft0" initial snapshot, "ft" after every update, checked  *)
(*               against the per-coordinate recurrence applied to the      *)
(*               previous *observed* state; "rerun" = same history again.  *)
(* Named deviations (CONSTANT Devs, empty in the strict pass):             *)
(*   gnb_eps_last_batch      GaussianNb::fit_with subtracts / adds the     *)
(*                           smoothing term of the *current batch*         *)
(*   mnb_alpha0_predict_nan  MultinomialNb::predict panics (NaN = 0 * ln 0)*)
(*   kmeans_para_init_unreproducible  KMeansInit::KMeansPara: same seed,   *)
(*                           different initial centroids on another run    *)
(***************************************************************************)
EXTENDS Incremental, TraceIO

CONSTANT Devs

VARIABLES c, e,      \* case and event cursor
          pos,       \* batches consumed
          prev,      \* previous observed snapshot (FTRL: record ; Gaussian NB: class list)
          kst,       \* k-means specification state [init, sum, cnt]
          used2      \* set of deviations needed so far

Case == Rec[c]
In   == Case.inp
Ev   == Case.ev[e]
D    == In.d

NoKm == [init |-> <<>>, sum |-> <<>>, cnt |-> <<>>]

TraceInit ==
  /\ c \in 1..Len(Rec) /\ e = 1 /\ pos = 0 /\ prev = <<>> /\ used2 = {}
  /\ kst = IF Rec[c].kind = "kmeans" /\ Rec[c].inp.init = "pre" THEN
              [init |-> Rec[c].inp.cent,
               sum |-> [cl \in 1..Rec[c].inp.k |-> [j \in 1..Rec[c].inp.d |-> 0]],
               cnt |-> [cl \in 1..Rec[c].inp.k |-> 0]]
           ELSE NoKm
  \* the design-model variables are not used during trace validation
  /\ drows = <<>> /\ dlabs = <<>> /\ dcut = <<>> /\ b = 0 /\ used = 0 /\ g = <<>> /\ mn = <<>> /\ km = <<>> /\ ksum = <<>>


-----------------------------------------------------------------------------
(* naive Bayes *)
Rows == In.rows
Labs == In.labels
NRows == Len(Labs)
RECURSIVE PrefLen(_)
PrefLen(i) == IF i = 0 THEN 0 ELSE In.cuts[i] + PrefLen(i - 1)

\* the class list is exactly the set of classes seen so far, ascending, with their counts
NbClassesOk(cls, m) ==
  /\ Len(cls) = Cardinality(ClassesOf(Labs, m))
  /\ \A q \in 1..Len(cls) : cls[q].label \in ClassesOf(Labs, m)
  /\ \A q \in 1..(Len(cls) - 1) : cls[q].label < cls[q + 1].label
  /\ \A q \in 1..Len(cls) : cls[q].count = Cnt(Labs, m, cls[q].label)
NbPriorOk(cls, m) == \A q \in 1..Len(cls) : Abs(cls[q].prior - FxDiv(cls[q].count, m)) <= 2

\* sufficient statistics of the m rows consumed, per logged class (built once per event, after NbClassesOk):
\* the operators of Incremental.tla I.1 evaluated for every class and feature
NbTab(cls, m) ==
  Eag([q \in 1..Len(cls) |->
     [cnt |-> cls[q].count,
      sx  |-> Eag([j \in 1..D |-> Sx(Rows, Labs, m, cls[q].label, j)]),
      sxx |-> Eag([j \in 1..D |-> Sxx(Rows, Labs, m, cls[q].label, j)])]])
TTheta6(T, q, j) == FxDiv(T[q].sx[j], T[q].cnt)                                 \* = Theta6
TVarNum(T, q, j) == VarNum(T[q].cnt, T[q].sx[j], T[q].sxx[j])
TVar6(T, q, j)   == FxDiv(TVarNum(T, q, j), T[q].cnt * T[q].cnt)                \* = Var6

\* Large-offset features: the harness adds the exactly representable offset 2^offk to every feature (and query) and
\* logs the means with the offset subtracted again.  Mean is shift-equivariant and variance shift-invariant, so the
\* relations are evaluated on the un-shifted integers; Delta6 = one ulp of the offset (2^(offk-52)) in units of
\* 10^-6 is what a backward-stable mean loses, and a stable (Welford + pairwise) variance loses a few Delta6 times
\* the spread (measured on the fixed tree at 2^40: mean <= 0.4 ulp, variance <= 0.9 ulp of the offset).  A raw
\* second-moment formula loses eps * offset^2 instead: 2^8 at 2^30, 2^28 at 2^40.
Offk == IF "offk" \in DOMAIN In THEN In.offk ELSE 0
Pow2(kk) == LET f[i \in 0..kk] == IF i = 0 THEN 1 ELSE 2 * f[i - 1] IN f[kk]
Delta6 == IF Offk <= 20 THEN 0 ELSE IF Offk <= 32 THEN 1 ELSE Pow2(Offk - 32)
GnbThetaOk(cls, T) ==
  \A q \in 1..Len(cls) : /\ Len(cls[q].theta) = D
                         /\ \A j \in 1..D : Abs(cls[q].theta[j] - TTheta6(T, q, j)) <= 2 + 2 * Delta6
\* textbook smoothed variance: population variance + eps, eps = var_smoothing * largest feature variance of all rows
GnbSigmaOk(cls, T, eps) ==
  \A q \in 1..Len(cls) : /\ Len(cls[q].sigma) = D
                         /\ \A j \in 1..D : Abs(cls[q].sigma[j] - (TVar6(T, q, j) + eps)) <= 4 + 4 * Delta6

\* the named deviation: what gaussian_nb.rs computes for batch lo..hi from the previous stored variances
PrevOf(lab) == CHOOSE q \in 1..Len(prev) : prev[q].label = lab
GnbDevSigma6(lab, j, lo, hi) ==
  LET epsB == Eps6(Rows, lo, hi, D, In.vs)
      nb   == CntR(Labs, lo, hi, lab)
      no   == Cnt(Labs, lo - 1, lab)
      varB == FxDiv(VarNum(nb, SxR(Rows, Labs, lo, hi, lab, j), SxxR(Rows, Labs, lo, hi, lab, j)), nb * nb)
  IN IF nb = 0 THEN prev[PrevOf(lab)].sigma[j]
     ELSE IF no = 0 THEN varB + epsB
     ELSE LET s    == prev[PrevOf(lab)].sigma[j] - epsB
              nt   == no + nb
              dmn  == Sx(Rows, Labs, lo - 1, lab, j) * nb - SxR(Rows, Labs, lo, hi, lab, j) * no
              dm6  == FxDiv(dmn * dmn, nt * no * nb)
          IN (no * s + nb * varB + dm6) \div nt + epsB
GnbDevSigmaOk(cls, i) ==
  LET lo == PrefLen(i - 1) + 1  hi == PrefLen(i) IN
  /\ i >= 2 /\ Len(prev) > 0
  /\ \A q \in 1..Len(cls) : /\ Len(cls[q].sigma) = D
                            /\ \A j \in 1..D : /\ IsNum(cls[q].sigma[j])
                                               /\ Abs(cls[q].sigma[j] - GnbDevSigma6(cls[q].label, j, lo, hi)) <= 6

\* ---- predictions, regime 1 (smoothing 0 or >= 10^-3): arg-max of the posterior built from (theta, sigma)
\* tables indexed like cls; judged only when every sigma >= 1/16
GnbPredOk(cls, T, m, sg) ==
  IF \E q \in 1..Len(cls), j \in 1..D : sg[q][j] < MinSig6 THEN TRUE     \* (nearly) degenerate variance: not judged
  ELSE IF Offk > 32 THEN TRUE          \* (q - theta) is only known to 2^(offk-52): posterior not judged beyond 2^32
  ELSE /\ Ev.predok /\ Len(Ev.pred) = Len(In.queries)
       /\ LET classes == 1..Len(cls)
              th == Eag([q \in classes |-> Eag([j \in 1..D |-> TTheta6(T, q, j)])])
          IN \A qi \in 1..Len(In.queries) :
               LET sc == Eag([q \in classes |-> LET gs == GScore(T[q].cnt, m, th[q], sg[q], In.queries[qi], D) IN
                                                <<gs[1], gs[2], gs[3] + (IF Offk > 20 THEN 4 * D ELSE 0)>>]) IN
               \E q \in classes : cls[q].label = Ev.pred[qi] /\ Admissible(q, sc, classes)
SgTextbook(cls, T, eps) == Eag([q \in 1..Len(cls) |-> Eag([j \in 1..D |-> TVar6(T, q, j) + eps])])
SgObserved(cls)         == [q \in 1..Len(cls) |-> cls[q].sigma]

\* ---- predictions, regime 2: the crate's default smoothing 10^-9.  A feature that is constant within a class has
\* sigma = eps exactly, far below the fixed-point resolution but decisive for the posterior.  With eps = 10^-9 W:
\*   score = -A / (2 eps) + C ,  A = sum over constant features of (q - theta)^2  (exact rational),
\*   C = ln prior - 1/2 sum_regular ln var - 1/2 sum_constant ln eps - 1/2 sum_regular (q - theta)^2 / var
\* A decides whenever it differs by >= 10^-3 (then the gap is >= 10^4 while |C| < 5000 on the generated lattices);
\* equal A: C decides (with the table error); 0 < |dA| < 10^-3: not judged.
\* W is the largest feature variance of all rows seen (textbook); constant features are those with exactly zero variance.
VsTiny == In.vs.num = 1 /\ In.vs.den = 1000000000
LnVs4 == -207233                                              \* ln(10^-9) * 10^4
IsEpsF(T, q, j) == TVarNum(T, q, j) = 0
IsRegF(T, q, j) == TVar6(T, q, j) >= MinSig6
HasEpsF(T, q) == \E j \in 1..D : IsEpsF(T, q, j)
TinyScore(T, q, m, w6, qv) ==
  LET cc == T[q].cnt
      anum == SumSeq([j \in 1..D |-> IF IsEpsF(T, q, j) THEN (qv[j] * cc - T[q].sx[j]) * (qv[j] * cc - T[q].sx[j]) ELSE 0])
      lns  == SumSeq([j \in 1..D |-> IF IsEpsF(T, q, j) THEN LnVs4 + LnS6(w6) ELSE LnS6(TVar6(T, q, j))])
      mah  == SumSeq([j \in 1..D |-> IF IsEpsF(T, q, j) THEN 0 ELSE GTerm4(qv[j], TTheta6(T, q, j), TVar6(T, q, j))])
  IN [a |-> <<anum, cc * cc>>, a6 |-> FxDiv(anum, cc * cc), w6 |-> w6,
      c |-> LnRat(cc, m) - (lns + mah) \div 2, err |-> 8 * D + 6 + mah \div 4000]
\* relation between two rational A's: -1 clearly smaller, 1 clearly larger, 0 equal, 2 too close to call
ACmp(x, y) ==
  LET l == x[1] * y[2]  r == y[1] * x[2]  big == (x[2] * y[2]) \div 1000 + 1 IN
  IF l = r THEN 0 ELSE IF l + big <= r THEN -1 ELSE IF r + big <= l THEN 1 ELSE 2
TinyAdmissible(p, sc, classes) ==
  \A q \in classes : LET rel == ACmp(sc[p].a, sc[q].a) IN
     \/ rel = -1 \/ rel = 2
     \/ rel = 0 /\ sc[p].c + sc[p].err + sc[q].err >= sc[q].c
\* the same with class-specific eps_c = 10^-9 W_c (the deviation): the leading terms are A_c / W_c, compared through
\* logarithms; decided only when the gap is >= 4 % and both quotients are large enough to dominate C
RDominant(x) == x.a6 >= x.w6 \div 500 + 1                     \* A/W >= 2*10^-3  =>  A/(2 eps) >= 10^6
RCmp(x, y) ==
  IF x.a6 = 0 /\ y.a6 = 0 THEN 0
  ELSE IF x.a6 = 0 THEN (IF RDominant(y) THEN -1 ELSE 2)
  ELSE IF y.a6 = 0 THEN (IF RDominant(x) THEN 1 ELSE 2)
  ELSE IF ~(RDominant(x) /\ RDominant(y)) THEN 2
  ELSE LET lx == LnS6(x.a6) - LnS6(x.w6)  ly == LnS6(y.a6) - LnS6(y.w6) IN
       IF lx + 400 <= ly THEN -1 ELSE IF ly + 400 <= lx THEN 1 ELSE 2
TinyDevAdmissible(p, sc, classes) ==
  \A q \in classes : LET rel == RCmp(sc[p], sc[q]) IN
     \/ rel = -1 \/ rel = 2
     \/ rel = 0 /\ sc[p].c + sc[p].err + sc[q].err >= sc[q].c
\* every feature of every class is either constant or has variance >= 1/16
GnbTinyShapeOk(cls, T) == \A q \in 1..Len(cls), j \in 1..D : IsEpsF(T, q, j) \/ IsRegF(T, q, j)
\* w : class index -> W at scale 10^6 (only read for classes that have a constant feature)
GnbTinyPredOk(cls, T, m, w, dev) ==
  /\ Ev.predok /\ Len(Ev.pred) = Len(In.queries)
  /\ LET classes == 1..Len(cls) IN
     \A qi \in 1..Len(In.queries) :
        LET sc == Eag([q \in classes |-> TinyScore(T, q, m, (IF HasEpsF(T, q) THEN w[q] ELSE 1), In.queries[qi])]) IN
        \E q \in classes : /\ cls[q].label = Ev.pred[qi]
                            /\ IF dev THEN TinyDevAdmissible(q, sc, classes) ELSE TinyAdmissible(q, sc, classes)
\* the named deviation at the default smoothing: the code's eps of a class is the row-weighted mean of the
\* *batch* variances of the batches that contained the class (0 if those batches were constant: sigma = 0, NaN)
WDev6(lab, i) ==
  SumSeq([bb \in 1..i |-> LET lo == PrefLen(bb - 1) + 1  hi == PrefLen(bb) IN
            FxDiv(CntR(Labs, lo, hi, lab) * MaxVarNum(Rows, lo, hi, D), (hi - lo + 1) * (hi - lo + 1))])
    \div Cnt(Labs, PrefLen(i), lab)
GnbTinyDevOk(cls, T, m, i) ==
  LET w == Eag([q \in 1..Len(cls) |-> WDev6(cls[q].label, i)]) IN
  /\ i >= 2 /\ GnbTinyShapeOk(cls, T)
  /\ IF \E q \in 1..Len(cls) : HasEpsF(T, q) /\ w[q] = 0
       THEN ~Ev.predok                          \* a variance of exactly 0: NaN scores, predict panics
       ELSE GnbTinyPredOk(cls, T, m, w, TRUE)
\* Gaussian predictions under the textbook model
GnbPredTextbookOk(cls, T, m, eps) ==
  IF VsTiny THEN
    LET wt == FxDiv(MaxVarNum(Rows, 1, m, D), m * m) IN
    (GnbTinyShapeOk(cls, T) /\ ((\E q \in 1..Len(cls) : HasEpsF(T, q)) => wt >= 1))
       => GnbTinyPredOk(cls, T, m, Eag([q \in 1..Len(cls) |-> wt]), FALSE)
  ELSE GnbPredOk(cls, T, m, SgTextbook(cls, T, eps))

\* multinomial: feature counts, smoothed log-frequencies ln((N_cj + a) / (N_c + a d)), posterior sum_j q_j flp_j
TFlp4(T, q, j) ==
  LET a == In.alpha.den * T[q].sx[j] + In.alpha.num
      bb == In.alpha.den * SumSeq(T[q].sx) + In.alpha.num * D
  IN IF a = 0 \/ bb = 0 THEN NONFIN ELSE LnRat(a, bb)                            \* = Flp4
MnbStatsOk(cls, T) ==
  \A q \in 1..Len(cls) :
    /\ Len(cls[q].fcount) = D /\ Len(cls[q].flp) = D
    /\ \A j \in 1..D :
         /\ cls[q].fcount[j].exact /\ cls[q].fcount[j].i = T[q].sx[j]
         /\ LET ex == TFlp4(T, q, j) IN
            IF ex = NONFIN THEN cls[q].flp[j] = NONFIN
            ELSE IsNum(cls[q].flp[j]) /\ Abs(cls[q].flp[j] - ex) <= 2
MnbFlp(cls, T) == Eag([q \in 1..Len(cls) |-> Eag([j \in 1..D |-> TFlp4(T, q, j)])])
MnbUndefined(cls, T) == \E q \in 1..Len(cls) : In.alpha.den * SumSeq(T[q].sx) + In.alpha.num * D = 0
MnbNanHit(cls, T) ==     \* 0 * ln 0 somewhere in the score matrix
  LET fl == MnbFlp(cls, T) IN
  \E q \in 1..Len(cls), j \in 1..D, qi \in 1..Len(In.queries) : fl[q][j] = NONFIN /\ In.queries[qi][j] = 0
MnbPredOk(cls, T, m) ==
  IF MnbUndefined(cls, T) THEN TRUE
  ELSE /\ Ev.predok /\ Len(Ev.pred) = Len(In.queries)
       /\ LET classes == 1..Len(cls)  fl == MnbFlp(cls, T) IN
          \A qi \in 1..Len(In.queries) :
            LET sc == Eag([q \in classes |-> MScore(T[q].cnt, m, fl[q], In.queries[qi], D)]) IN
            \E q \in classes : cls[q].label = Ev.pred[qi] /\ Admissible(q, sc, classes)

\* one naive-Bayes observation (after i batches, or the single fit: i = 0 stands for "whole"):
\* the set of deviation sets under which it is explained ({{}} = strictly; {} = not at all)
NbCommon(cls, m) == NbClassesOk(cls, m) /\ NbPriorOk(cls, m)
NbExplained(cls, m, i) ==
  LET T == NbTab(cls, m)  eps == Eps6(Rows, 1, m, D, In.vs) IN
  IF ~NbCommon(cls, m) THEN {}
  ELSE IF Case.kind = "gnb" THEN
    IF ~GnbThetaOk(cls, T) THEN {}
    ELSE IF GnbSigmaOk(cls, T, eps) THEN
      (IF GnbPredTextbookOk(cls, T, m, eps) THEN {{}}
       ELSE IF "gnb_eps_last_batch" \in Devs /\ VsTiny /\ GnbTinyDevOk(cls, T, m, i) THEN {{"gnb_eps_last_batch"}} ELSE {})
    ELSE IF "gnb_eps_last_batch" \in Devs /\ GnbDevSigmaOk(cls, i) /\ GnbPredOk(cls, T, m, SgObserved(cls))
         THEN {{"gnb_eps_last_batch"}} ELSE {}
  ELSE
    IF ~MnbStatsOk(cls, T) THEN {}
    ELSE IF MnbPredOk(cls, T, m) THEN {{}}
    ELSE IF "mnb_alpha0_predict_nan" \in Devs /\ ~Ev.predok /\ ~MnbUndefined(cls, T) /\ MnbNanHit(cls, T)
         THEN {{"mnb_alpha0_predict_nan"}} ELSE {}

IsNb == Case.kind \in {"gnb", "mnb"}

NbWhy(cls, m, i) ==
  LET T == NbTab(cls, m)  eps == IF Case.kind = "gnb" THEN Eps6(Rows, 1, m, D, In.vs) ELSE 0 IN
  IF ~NbClassesOk(cls, m) THEN <<"classes/counts">>
  ELSE IF ~NbPriorOk(cls, m) THEN <<"prior">>
  ELSE IF Case.kind = "gnb" THEN
    <<IF GnbThetaOk(cls, T) THEN "" ELSE "theta",
      IF GnbSigmaOk(cls, T, eps) THEN "" ELSE "sigma",
      IF GnbThetaOk(cls, T) /\ GnbSigmaOk(cls, T, eps) /\ ~GnbPredTextbookOk(cls, T, m, eps) THEN
         (IF Ev.predok THEN "prediction" ELSE "predict-panics") ELSE "">>
  ELSE
    <<IF MnbStatsOk(cls, T) THEN "" ELSE "feature_count/log_prob",
      IF MnbStatsOk(cls, T) /\ ~MnbPredOk(cls, T, m) THEN (IF Ev.predok THEN "prediction" ELSE "predict-panics") ELSE "">>

-----------------------------------------------------------------------------
(* mini-batch k-means *)
Metric == IF "metric" \in DOMAIN In THEN In.metric ELSE "l2"      \* l2 | l1 | linf (KMeans::params_with)
KmInits ==      \* initial centroids: given, or (random initialisers) any k rows of the first batch
  IF In.init = "pre" THEN {kst}
  ELSE LET b1 == In.batches[1] IN
       {[init |-> [cl \in 1..In.k |-> b1[t[cl]]],
         sum  |-> [cl \in 1..In.k |-> [j \in 1..D |-> 0]],
         cnt  |-> [cl \in 1..In.k |-> 0]] : t \in [1..In.k -> 1..Len(b1)]}

KmCountsOk(st2) == /\ Len(Ev.count) = In.k
                   /\ \A cl \in 1..In.k : Ev.count[cl].exact /\ Ev.count[cl].i = st2.cnt[cl]
KmCentOk(st2) ==
  /\ Len(Ev.cent) = In.k
  /\ \A cl \in 1..In.k : /\ Len(Ev.cent[cl]) = D
                         /\ \A j \in 1..D : LET cen == KmCent(st2, cl) IN Abs(Ev.cent[cl][j] - FxDiv(cen[1][j], cen[2])) <= 3
KmFlagOk(st, st2) ==
  LET cmp == KmShiftCmp(st, st2, In.k, D, In.tol, Metric) IN (cmp = -1 => Ev.ok) /\ (cmp = 1 => ~Ev.ok)
KmRepeatOk == Ev.dig = Ev.dig2 /\ Ev.ok = Ev.ok2

\* the successor states of the k-means specification that explain the event
KmGood ==
  UNION {{st2 \in {KmFold(st, In.batches[pos + 1], asg, In.k, D) : asg \in KmAssigns(st, In.batches[pos + 1], 1, In.k, D, Metric)} :
                 KmCountsOk(st2) /\ KmCentOk(st2) /\ KmFlagOk(st, st2)} :
              st \in (IF pos = 0 THEN KmInits ELSE {kst})}

KmWhy ==
  LET sts == IF pos = 0 THEN KmInits ELSE {kst}
      cands == UNION {{<<st, KmFold(st, In.batches[pos + 1], asg, In.k, D)>> :
                         asg \in KmAssigns(st, In.batches[pos + 1], 1, In.k, D, Metric)} : st \in sts}
  IN <<IF KmRepeatOk THEN "" ELSE "rerun-differs",
       IF \E pr \in cands : KmCountsOk(pr[2]) THEN "" ELSE "cluster_count",
       IF \E pr \in cands : KmCountsOk(pr[2]) /\ KmCentOk(pr[2]) THEN "" ELSE "centroids",
       IF (\E pr \in cands : KmCountsOk(pr[2]) /\ KmCentOk(pr[2])) /\
          ~(\E pr \in cands : KmCountsOk(pr[2]) /\ KmCentOk(pr[2]) /\ KmFlagOk(pr[1], pr[2])) THEN "converged-flag" ELSE "">>

-----------------------------------------------------------------------------
(* FTRL *)
Rat6(r) == DivPow(r.num, r.den, 6)
H6 == [alpha |-> Rat6(In.hyper.alpha), beta |-> Rat6(In.hyper.beta), l1 |-> Rat6(In.hyper.l1), l2 |-> Rat6(In.hyper.l2)]
Unit == IF "unit" \in DOMAIN In THEN In.unit ELSE 1
F32 == "ft" \in DOMAIN In /\ In.ft = "f32"
U32(v6) == IF F32 THEN Abs(v6) \div 4000000 + 1 ELSE 0

FtShapeOk(s) == Len(s.z) = D /\ Len(s.n) = D /\ Len(s.w) = D /\ Len(s.zk) = D /\ Len(s.nk) = D /\ Len(s.wk) = D
                /\ \A j \in 1..D : IsNum(s.z[j]) /\ IsNum(s.n[j]) /\ IsNum(s.w[j]) /\ s.n[j] >= 0
FtNZero(s, j) == s.nk[j] = KeyZero
FtWZero(s, j) == s.wk[j] = KeyZero
\* the order keys are bound to the logged values
FtKeysOk(s) ==
  \A j \in 1..D : /\ (Abs(s.z[j]) < H6.l1 - 2) => KeyLe(s.zk[j], s.l1k)
                  /\ (Abs(s.z[j]) > H6.l1 + 2) => ~KeyLe(s.zk[j], s.l1k)
                  /\ FtNZero(s, j) => s.n[j] = 0
                  /\ FtWZero(s, j) => s.w[j] = 0
                  /\ s.w[j] # 0 => ~FtWZero(s, j)
\* weights: exactly zero wherever |z| <= l1 (order keys), else the proximal closed form
FtWeightsOk(s) ==
  \A j \in 1..D :
    IF KeyLe(s.zk[j], s.l1k) THEN FtWZero(s, j)
    ELSE FtWInRange(s.n[j], H6) =>
           Abs(s.w[j] - FtW6(s.z[j], s.n[j], H6)) <= FtSlackW(s.z[j], s.n[j], H6, FtEs0(s.n[j], FtNZero(s, j))) + 4 * U32(s.w[j])
FtSnapOk(s) == FtShapeOk(s) /\ FtKeysOk(s) /\ FtWeightsOk(s)

FtBatch == In.batches[pos + 1]
\* Unit u (a power of two, 1 if absent): feature values are integers, the harness logs z/u and n/u^2 and multiplies
\* z0, n0, beta by u, u^2, u; with l1 = l2 = 0 the recurrence is homogeneous, so the relations below run on x/u.
\* F32: the model is Ftrl<f32>; U32(v) >= two f32 ulps of v (in units of 10^-6) is added per rounded operation.
FtGU(p6, ys, xs, j) == SumSeq([i \in 1..Len(xs) |-> DivPow((p6[i] - (IF ys[i] THEN S6 ELSE 0)) * xs[i][j], Unit, 0)])
FtEgU(xs, j) == 1 + SumSeq([i \in 1..Len(xs) |-> Abs(xs[i][j]) \div Unit + 1]) + (IF F32 THEN 2 * Len(xs) ELSE 0)
\* probabilities used for the gradient: sigmoid of x . w (previous weights), table accuracy
FtProbOk ==
  /\ Len(Ev.p) = Len(FtBatch.x)
  /\ \A i \in 1..Len(FtBatch.x) :
       LET arg4 == SumSeq([j \in 1..D |-> (prev.w[j] \div 100) * FtBatch.x[i][j] + ((prev.w[j] % 100) * FtBatch.x[i][j]) \div 100])
       IN IsNum(Ev.p[i]) /\ Ev.p[i] >= 0 /\ Ev.p[i] <= S6
          /\ Abs(Ev.p[i] \div 100 - Sigmoid(arg4)) <= (IF Unit > 1 THEN 14 ELSE 6)
FtNOk ==
  \A j \in 1..D : LET g6 == FtGU(Ev.p, FtBatch.y, FtBatch.x, j) IN
     Abs(Ev.n[j] - FtNNext6(prev.n[j], g6)) <= FtSlackN(g6, FtEgU(FtBatch.x, j)) + 3 * U32(Ev.n[j])
FtZOk ==
  \A j \in 1..D : LET g6 == FtGU(Ev.p, FtBatch.y, FtBatch.x, j)
                      wz == FtWZero(prev, j)
                      nz == FtNZero(prev, j) IN
     FtZInRange(prev.n[j], g6, H6, prev.w[j], nz) =>
       Abs(Ev.z[j] - FtZNext6(prev.z[j], prev.n[j], g6, H6, prev.w[j], nz))
         <= FtSlackZ(prev.n[j], g6, H6, prev.w[j], wz, nz, FtEgU(FtBatch.x, j))
            + (IF F32 THEN U32(prev.z[j]) + 2 * U32(Ev.z[j]) + 2 * U32(g6)
                           + 2 * U32(MulS6(FtSigma6(prev.n[j], g6, H6, nz), prev.w[j]))
                           + 2 * U32(SqrtS6(prev.n[j] + MulS6(g6, g6))) * (Abs(prev.w[j]) \div H6.alpha + 1)
               ELSE 0)

\* the public `update` fed with the model's own predictions is the same step (bit-identical z, n)
FtUpdateFormOk == Ev.updig = Ev.dig
FtStepOk == FtShapeOk(Ev) /\ FtProbOk /\ FtNOk /\ FtZOk /\ FtKeysOk(Ev) /\ FtWeightsOk(Ev) /\ FtUpdateFormOk
\* "ft_big": the harness could not log the new state (outside the fixed-point range) and cut the history;
\* explained iff the recurrence applied to the previous state leaves the range too (or cannot be evaluated)
FtBigOk ==
  /\ FtProbOk
  /\ \E j \in 1..D : LET g6 == FtGU(Ev.p, FtBatch.y, FtBatch.x, j)  nz == FtNZero(prev, j) IN
        \/ ~FtZInRange(prev.n[j], g6, H6, prev.w[j], nz)
        \/ Abs(FtZNext6(prev.z[j], prev.n[j], g6, H6, prev.w[j], nz))
              + FtSlackZ(prev.n[j], g6, H6, prev.w[j], FtWZero(prev, j), nz, FtEgU(FtBatch.x, j)) >= 1000000000
        \/ FtNNext6(prev.n[j], g6) >= 1000000000
FtCut == "cut" \in DOMAIN prev
\* the same history again (fresh parameters, same seed; seeded start through fit_with(None, ..)): bit-identical
FtRerunOk == Len(Ev.dig) = pos /\ Ev.dig = Ev.dig2

FtWhy ==
  IF Ev.ev = "ft0" THEN <<IF FtSnapOk(Ev) THEN "" ELSE "initial-weights">>
  ELSE IF Ev.ev = "rerun" THEN <<"rerun-differs">>
  ELSE IF Ev.ev = "ft_big" THEN <<"left-the-range-unexpectedly">>
  ELSE IF e = 1 \/ ~FtShapeOk(Ev) THEN <<"shape/non-finite">>
  ELSE <<IF FtProbOk THEN "" ELSE "probabilities",
         IF FtProbOk /\ ~FtNOk THEN "n-update" ELSE "",
         IF FtProbOk /\ ~FtZOk THEN "z-update" ELSE "",
         IF FtKeysOk(Ev) THEN "" ELSE "keys",
         IF FtWeightsOk(Ev) THEN "" ELSE "weights/zero-set",
         IF FtUpdateFormOk THEN "" ELSE "update()-differs-from-fit_with">>

-----------------------------------------------------------------------------
Complete ==
  /\ e = Len(Case.ev) + 1
  /\ CASE IsNb -> pos = Len(In.cuts) + 1
       [] Case.kind = "kmeans" -> pos = Len(In.batches)
       [] Case.kind = "ftrl" -> pos = Len(In.batches) + 1
       [] OTHER -> FALSE

Accept ==
  /\ Complete
  /\ IF used2 = {} THEN Ok(Case.id) ELSE OkDev(Case.id, used2)
  /\ e' = e + 1 /\ UNCHANGED <<c, dvars, pos, prev, kst, used2>>

\* which event is expected next
Expect ==
  CASE IsNb /\ pos < Len(In.cuts) -> "state"
    [] IsNb /\ pos = Len(In.cuts) -> "whole"
    [] Case.kind = "kmeans" /\ pos < Len(In.batches) -> "km"
    [] Case.kind = "ftrl" /\ e = 1 -> "ft0"
    [] Case.kind = "ftrl" /\ e > 1 /\ ~FtCut /\ pos < Len(In.batches) -> (IF Ev.ev = "ft_big" THEN "ft_big" ELSE "ft")
    [] Case.kind = "ftrl" /\ e > 1 /\ (FtCut \/ pos = Len(In.batches)) -> "rerun"
    [] OTHER -> "none"

Why ==
  IF Ev.ev # Expect THEN <<"unexpected event">>
  ELSE IF Ev.ev = "state" THEN NbWhy(Ev.classes, PrefLen(pos + 1), pos + 1)
  ELSE IF Ev.ev = "whole" THEN NbWhy(Ev.classes, NRows, 0)
  ELSE IF Ev.ev = "km" THEN KmWhy
  ELSE FtWhy

Reject ==
  /\ Fail(Case.id, <<e, Ev.ev, SelectSeq(Why, LAMBDA s : s # "")>>)
  /\ e' = Len(Case.ev) + 2 /\ UNCHANGED <<c, dvars, pos, prev, kst, used2>>

\* one event = one action; every clause is evaluated once
Step ==
  /\ e <= Len(Case.ev)
  /\ IF Ev.ev # Expect THEN Reject
     ELSE IF Ev.ev \in {"state", "whole"} THEN
       LET whole == Ev.ev = "whole"
           ex == IF whole THEN NbExplained(Ev.classes, NRows, 0)
                 ELSE IF Ev.after = pos + 1 THEN NbExplained(Ev.classes, PrefLen(pos + 1), pos + 1) ELSE {} IN
       IF ex = {} THEN Reject
       ELSE /\ \E dv \in ex : used2' = used2 \cup dv
            /\ pos' = pos + 1 /\ prev' = (IF whole THEN prev ELSE Ev.classes)
            /\ e' = e + 1 /\ UNCHANGED <<c, dvars, kst>>
     ELSE IF Ev.ev = "km" THEN
       LET good == IF Ev.after = pos + 1 THEN KmGood ELSE {}
           \* named deviation: the k-means|| initialiser draws from per-thread generators, so the same seed
           \* can select other initial centroids on a re-run (each run still follows the recurrence)
           paradev == ~KmRepeatOk /\ In.init = "para" /\ "kmeans_para_init_unreproducible" \in Devs IN
       IF good = {} \/ ~(KmRepeatOk \/ paradev) THEN Reject
       ELSE /\ kst' \in good /\ pos' = pos + 1
            /\ used2' = (IF paradev THEN used2 \cup {"kmeans_para_init_unreproducible"} ELSE used2)
            /\ e' = e + 1 /\ UNCHANGED <<c, dvars, prev>>
     ELSE IF Ev.ev = "ft0" THEN
       IF ~FtSnapOk(Ev) THEN Reject
       ELSE prev' = Ev /\ e' = e + 1 /\ UNCHANGED <<c, dvars, pos, kst, used2>>
     ELSE IF Ev.ev = "ft" THEN
       IF ~(Ev.after = pos + 1 /\ FtStepOk) THEN Reject
       ELSE prev' = Ev /\ pos' = pos + 1 /\ e' = e + 1 /\ UNCHANGED <<c, dvars, kst, used2>>
     ELSE IF Ev.ev = "ft_big" THEN
       IF ~(Ev.after = pos + 1 /\ FtBigOk) THEN Reject
       ELSE prev' = [cut |-> TRUE] /\ e' = e + 1 /\ UNCHANGED <<c, dvars, pos, kst, used2>>
     ELSE \* rerun
       IF ~FtRerunOk THEN Reject
       ELSE pos' = Len(In.batches) + 1 /\ e' = e + 1 /\ UNCHANGED <<c, dvars, prev, kst, used2>>

TraceNext == Step \/ Accept
=============================================================================
