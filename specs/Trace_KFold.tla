---------------------------- MODULE Trace_KFold ----------------------------
(***************************************************************************)
(* C01 trace validation.  Events recorded from the real fold / iter_fold / *)
(* cross_validate(_single) are checked with the *same* predicates that are *)
(* invariants of the design model KFold (TrainOk, ValidOk, Restored), plus *)
(* the history conditions of the statement:                                *)
(*   - each yielded (model, validation) pair: the validation view is the   *)
(*     block that was missing from that model's training view              *)
(*   - every block is validated exactly once                               *)
(*   - scores are the mean over folds of the evaluation closure's results  *)
(*   - an injected failure that was triggered is the result                *)
(* The order of closure calls is not prescribed (any order is accepted).   *)
(***************************************************************************)
EXTENDS KFold, TraceIO

CONSTANT Devs      \* named deviations (known findings) -- none for C01

VARIABLES c, e,        \* case and event cursor
          fitBlk,      \* iter_fold: call index -> block that was missing from that training view
          seenV,       \* sequence of validation blocks seen so far (yield / pair events)
          evals,       \* cv: set of <<m, i>> evaluated
          trig         \* cv: set of error strings of triggered injected failures

tvars == <<c, e, fitBlk, seenV, evals, trig>>

Case == Rec[c]
In   == Case.inp
Ev   == Case.ev[e]
N == In.n
K == In.k
F == In.f
T == In.t
WW == Tw(T)
S == 10000

TraceInit ==
  /\ c \in 1..Len(Rec) /\ e = 1
  /\ fitBlk = <<>> /\ seenV = <<>> /\ evals = {} /\ trig = {}
  \* the design-model variables are not used during trace validation
  /\ n = 0 /\ k = 0 /\ f = 0 /\ t = 0 /\ mode = "trace" /\ nm = 0 /\ rbuf = <<>> /\ tbuf = <<>>
  /\ chunks = <<>> /\ i = 0 /\ mi = 0 /\ pc = "trace" /\ trains = <<>> /\ valids = <<>> /\ acc = <<>>

HasEv(name) == e <= Len(Case.ev) /\ Ev.ev = name
Adv == e' = e + 1 /\ UNCHANGED <<c, vars>>

Blocks == 0..(K - 1)
TrainBlocks(v) == {b \in Blocks : TrainOk(v, N, K, F, WW, b)}
ValidBlocks(v) == {b \in Blocks : ValidOk(v, N, K, F, WW, b)}

FailStr(at, m, b) == "invalid parameter inj-" \o at \o "-" \o ToString(m) \o "-" \o ToString(b)
ShouldFail(at, m, b) == In.fail.at = at /\ In.fail.m = m /\ In.fail.i = b

\* a fit-closure call: it must see a proper training split for some block
TFit ==
  /\ HasEv("fit")
  /\ LET v == <<Ev.rec, Ev.tgt>> IN
     \E b \in TrainBlocks(v) :
        /\ fitBlk' = IF Ev.call >= 0 THEN Append(fitBlk, b) ELSE fitBlk
        /\ Ev.call >= 0 => Ev.call = Len(fitBlk)
        /\ Ev.fails = (Case.kind \in {"cv", "cv_single"} /\ ShouldFail("fit", Ev.m, b))
        /\ trig' = IF Ev.fails THEN trig \cup {FailStr("fit", Ev.m, b)} ELSE trig
  /\ Adv /\ UNCHANGED <<seenV, evals>>

\* iter_fold yields (object of closure call `obj`, validation view): the view must be the block
\* that call's training view was missing
TYield ==
  /\ HasEv("yield")
  /\ Ev.obj + 1 \in 1..Len(fitBlk)
  /\ LET b == fitBlk[Ev.obj + 1] IN
       /\ ValidOk(<<Ev.rec, Ev.tgt>>, N, K, F, WW, b)
       /\ seenV' = Append(seenV, b)
  /\ Adv /\ UNCHANGED <<fitBlk, evals, trig>>

\* copying fold(): a (training, validation) pair for one block
TPair ==
  /\ HasEv("pair")
  /\ \E b \in ValidBlocks(<<Ev.vrec, Ev.vtgt>>) :
        /\ TrainOk(<<Ev.trec, Ev.ttgt>>, N, K, F, WW, b)
        /\ seenV' = Append(seenV, b)
  /\ Adv /\ UNCHANGED <<fitBlk, evals, trig>>

\* cv: the evaluation closure is applied to model m's predictions for block b and that block's targets
PredOk(pred, m, b) ==
  /\ Len(pred) = N \div K
  /\ \A p \in 1..Len(pred) : pred[p] = [cc \in 1..WW |-> 100000 * (m + 1) + TTag(b * (N \div K) + p - 1, cc - 1)]
TruthOk(truth, b) ==
  truth = [p \in 1..(N \div K) |-> OrigTgt(b * (N \div K) + p - 1, WW)]

TEval ==
  /\ HasEv("eval")
  /\ Ev.decoded
  /\ \E m \in 0..(In.nm - 1), b \in Blocks :
        /\ PredOk(Ev.pred, m, b)
        /\ TruthOk(Ev.truth, b)
        /\ Ev.ret = In.tab[m + 1][b + 1]
        /\ Ev.fails = ShouldFail("eval", m, b)
        /\ evals' = evals \cup {<<m, b>>}
        /\ trig' = IF Ev.fails THEN trig \cup {FailStr("eval", m, b)} ELSE trig
  /\ Adv /\ UNCHANGED <<fitBlk, seenV>>

Abs(x) == IF x < 0 THEN -x ELSE x
RECURSIVE SumTab(_, _, _)
SumTab(m, cc, b) == IF b = 0 THEN 0 ELSE In.tab[m][b][cc] + SumTab(m, cc, b - 1)

TResult ==
  /\ HasEv("result")
  /\ IF trig # {}
       THEN /\ ~Ev.ok                        \* a failing fit / evaluation surfaces as that error
            /\ Ev.err \in trig
       ELSE /\ Ev.ok
            /\ evals = {<<m, b>> : m \in 0..(In.nm - 1), b \in Blocks}
            /\ Len(Ev.scores) = In.nm
            /\ \A m \in 1..In.nm :
                 /\ Len(Ev.scores[m]) = WW
                 /\ \A cc \in 1..WW :      \* score * k = sum over folds (fixed point S, half-unit rounding)
                      Abs(Ev.scores[m][cc] * K - SumTab(m, cc, K) * S) <= K
  /\ Adv /\ UNCHANGED <<fitBlk, seenV, evals, trig>>

IsSeqPermOf(s, set) == Len(s) = Cardinality(set) /\ Range(s) = set

\* after the call returns the dataset holds its original rows in their original order;
\* and (fold / iter_fold) every block was validated exactly once
TAfter ==
  /\ HasEv("after")
  /\ Ev.rec = Rows(RBuf0(N, F), F, 0, N)
  /\ Ev.tgt = Rows(TBuf0(N, WW), WW, 0, N)
  /\ Case.kind \in {"iter_fold", "fold"} => IsSeqPermOf(seenV, Blocks)
  /\ Case.kind = "iter_fold" => IsSeqPermOf(fitBlk, Blocks)
  /\ Adv /\ UNCHANGED <<fitBlk, seenV, evals, trig>>

Accept ==
  /\ e = Len(Case.ev) + 1
  /\ Len(Case.ev) > 0 /\ Case.ev[Len(Case.ev)].ev = "after"
  /\ Ok(Case.id)
  /\ e' = e + 1 /\ UNCHANGED <<c, vars, fitBlk, seenV, evals, trig>>

Stuck ==
  /\ e <= Len(Case.ev)
  /\ ~(ENABLED TFit \/ ENABLED TYield \/ ENABLED TPair \/ ENABLED TEval \/ ENABLED TResult \/ ENABLED TAfter)
  /\ Fail(Case.id, <<e, Ev.ev>>)
  /\ e' = Len(Case.ev) + 2 /\ UNCHANGED <<c, vars, fitBlk, seenV, evals, trig>>

TraceNext == TFit \/ TYield \/ TPair \/ TEval \/ TResult \/ TAfter \/ Accept \/ Stuck
=============================================================================
