----------------------------- MODULE DTreeIntro -----------------------------
(***************************************************************************)
(* X11 -- decision-tree INTROSPECTION and export (linfa-trees):            *)
(*   DecisionTree::iter_nodes / features / mean_impurity_decrease /        *)
(*   relative_impurity_decrease / feature_importance / max_depth /         *)
(*   num_leaves / root_node, the TreeNode accessors and export_to_tikz.    *)
(* Extension of DTree (C14): the fitted structure, its limits and the      *)
(* predictions are C14's; this module adds the DERIVED quantities as       *)
(* definitions over the same node records [path, depth, leaf, feat, thr2,  *)
(* pred, dec6] and the same dataset / hyper-parameter records.             *)
(*                                                                         *)
(* Part 1 (definitions, what the rustdoc promises)                         *)
(*   iter_nodes   "level-order (BFT)": LevelOrder(NS) = the nodes sorted   *)
(*                by depth, within a depth from left to right (children()  *)
(*                is documented "first left then right")                  *)
(*   features     "features_idx of this tree (BFT)": the split features in *)
(*                the order of their first use in level order              *)
(*   mean_impurity_decrease  per feature, the mean of the impurity         *)
(*                decreases of the nodes that split on it (0 if none)      *)
(*   relative_impurity_decrease = feature_importance = mean / sum of means *)
(*                (for a tree without split the docs promise nothing: 0/0) *)
(*   max_depth, num_leaves, root_node                                      *)
(*   The impurity decrease of a node is NOT taken from the node: it is     *)
(*   recomputed from the integer class weights of the training samples     *)
(*   routed through it (DTree.Dec6: Gini exact rational by long division,  *)
(*   entropy with the self-checked table DTreeLn).                         *)
(*                                                                         *)
(* Part 2 (design model): DTree's Grow / Prune builds every tree of the    *)
(*   bounded domain; NodeIter is modelled at the grain of iter.rs          *)
(*   (IterStart: queue = <<root>>; IterNext: pop the front, push its       *)
(*   children left, right).  TLC checks that the yielded sequence is       *)
(*   LevelOrder (every node exactly once, parents before children, depth   *)
(*   never decreases, queue discipline) and the algebra of the derived     *)
(*   quantities (leaves = splits + 1, importances >= 0 and summing to 1    *)
(*   whenever a split exists, the sum of means is positive then, the       *)
(*   checking relations accept the hand definition and reject the usual    *)
(*   wrong ones).                                                          *)
(***************************************************************************)
EXTENDS DTree

VARIABLE it          \* NodeIter: [st : "idle" | "run" | "end", q : queue of paths, out : yielded paths]
xvars == <<ds, hp, nodes, fm, todo, pc, it>>

-----------------------------------------------------------------------------
(* Part 1: definitions on a well-formed node set NS *)

PathsOf(NS) == {nd.path : nd \in NS}

\* p before q from left to right, for two different paths of the same length
LexLess(p, q) == \E k \in 1..Len(p) : SubSeq(p, 1, k - 1) = SubSeq(q, 1, k - 1) /\ p[k] < q[k]
LevelLess(p, q) == Len(p) < Len(q) \/ (Len(p) = Len(q) /\ LexLess(p, q))

\* the nodes' paths in level order, left to right
LevelOrder(NS) ==
  LET P == PathsOf(NS) IN
  [k \in 1..Cardinality(P) |-> CHOOSE p \in P : Cardinality({q \in P : LevelLess(q, p)}) = k - 1] \o <<>>   \* (\o <<>> forces the lazy function)

\* properties every level-order traversal has (used as invariants of the iterator model and as
\* the first diagnosis of a rejected trace)
OnceEach(seq, NS) == Len(seq) = Cardinality(NS) /\ Range(seq) = PathsOf(NS)
ParentsFirst(seq) ==
  \A i \in DOMAIN seq : Len(seq[i]) > 0 => \E j \in 1..(i - 1) : seq[j] = Parent(seq[i])
DepthMonotone(seq) == \A i \in 1..(Len(seq) - 1) : Len(seq[i]) <= Len(seq[i + 1])
\* queue discipline: the children of an earlier node come before the children of a later node
QueueOrder(seq) ==
  \A i, j \in DOMAIN seq :
    (Len(seq[i]) > 0 /\ Len(seq[j]) > 0 /\ i < j) =>
      \A a, b \in DOMAIN seq : (seq[a] = Parent(seq[i]) /\ seq[b] = Parent(seq[j])) => a <= b
LeftFirst(seq) ==
  \A i, j \in DOMAIN seq :
    (Len(seq[i]) > 0 /\ Len(seq[j]) > 0 /\ Parent(seq[i]) = Parent(seq[j]) /\ seq[i][Len(seq[i])] < seq[j][Len(seq[j])]) => i < j

\* keep the first occurrence of every element
RECURSIVE Dedup(_, _)
Dedup(s, seen) ==
  IF s = <<>> THEN <<>>
  ELSE IF Head(s) \in seen THEN Dedup(Tail(s), seen)
  ELSE <<Head(s)>> \o Dedup(Tail(s), seen \cup {Head(s)})
\* features(): split features in the order of first use in level order
SplitFeatSeq(NS) ==
  LET lo == LevelOrder(NS)
      sp == SelectSeq(lo, LAMBDA p : ~Node(NS, p).leaf) IN
  [k \in DOMAIN sp |-> Node(NS, sp[k]).feat] \o <<>>
FeaturesDef(NS) == Dedup(SplitFeatSeq(NS), {})

MaxDepthDef(NS) == MaxSet({Len(nd.path) : nd \in NS})
NumLeavesDef(NS) == Cardinality(Leaves(NS))

\* impurity decrease of a split node recomputed from the class weights of the samples routed through it
NodeDec6(nd, D, H, lf) == Dec6(H.crit, D, Reach(lf, nd.path), Reach(lf, L0(nd)), Reach(lf, R0(nd)))
FeatNodes(NS, f) == {nd \in Splits(NS) : nd.feat = f}
RECURSIVE SumOver(_, _, _, _)
SumOver(S, D, H, lf) ==
  IF S = {} THEN 0 ELSE LET nd == CHOOSE nd \in S : TRUE IN NodeDec6(nd, D, H, lf) + SumOver(S \ {nd}, D, H, lf)
\* per feature f = 0..d-1 (position f + 1): <<sum of the decreases, number of nodes>>
FeatStats(NS, D, H, lf) ==
  [g \in 1..D.d |-> <<SumOver(FeatNodes(NS, g - 1), D, H, lf), Cardinality(FeatNodes(NS, g - 1))>>] \o <<>>
\* hand definition, 10^-6 units: mean (rounded), relative (floor)
MeanDef6(st) == [g \in DOMAIN st |-> IF st[g][2] = 0 THEN 0 ELSE RoundDiv(st[g][1], st[g][2])] \o <<>>
RelDef6(mean) == LET M == SumSeq(mean) IN [g \in DOMAIN mean |-> LongDiv6(mean[g], M)] \o <<>>

\* checking relations between observed 10^-6 fixed-point vectors and the statistics st = FeatStats(..).
\* slack = allowance per node decrease (DTree.DecSlack), + 1 per node for the rounding of the observation
MeanRel(mean6, st, slack) ==
  /\ Len(mean6) = Len(st)
  /\ \A g \in DOMAIN st :
       IF st[g][2] = 0 THEN mean6[g] = 0
       ELSE Abs(mean6[g] * st[g][2] - st[g][1]) <= st[g][2] * (slack + 1)
\* rel[g] * M = mean[g], compared in product form (well conditioned even when M is tiny):
\*   |rel6 * M / 10^6 - m| <= err(m) + rel * err(M) + rounding of rel6 * M/10^6 + MulS6
RelRel(rel6, st, slack) ==
  LET m == MeanDef6(st)
      M == SumSeq(m)
      d == Len(st) IN
  /\ Len(rel6) = d
  /\ \A g \in DOMAIN st : rel6[g] >= 0 /\ rel6[g] <= 1000001
  /\ \A g \in DOMAIN st :
       /\ st[g][2] = 0 => rel6[g] = 0
       /\ Abs(MulS6(rel6[g], M) - m[g]) <= (d + 1) * (slack + 2) + 3 + M \div 1000000
SumsToOne(rel6) == Abs(SumSeq(rel6) - 1000000) <= Len(rel6) + 1

-----------------------------------------------------------------------------
(* Part 2: design model = DTree.Grow / DTree.Prune, then NodeIter *)

XInit == Init /\ it = [st |-> "idle", q |-> <<>>, out |-> <<>>]

Build == (Grow \/ Prune) /\ UNCHANGED it

IterStart ==
  /\ pc = "done" /\ it.st = "idle"
  /\ it' = [st |-> "run", q |-> << <<>> >>, out |-> <<>>]
  /\ UNCHANGED vars

\* NodeIter::next : pop_front, push_back the children that exist (left, then right)
IterNext ==
  /\ it.st = "run"
  /\ IF it.q = <<>> THEN it' = [it EXCEPT !.st = "end"]
     ELSE LET p == Head(it.q)
              kids == SelectSeq(<<Append(p, 0), Append(p, 1)>>, LAMBDA cp : HasPath(nodes, cp)) IN
          it' = [st |-> "run", q |-> Tail(it.q) \o kids, out |-> Append(it.out, p)]
  /\ UNCHANGED vars

XNext == Build \/ IterStart \/ IterNext

Done == pc = "done" /\ it.st = "idle"      \* the finished tree, judged once (before the iterator runs)

\* --- the iterator
InvIterPrefix == it.st \in {"run", "end"} =>
                   LET lo == LevelOrder(nodes) IN
                   /\ Len(it.out) + Len(it.q) <= Len(lo)
                   /\ it.out \o it.q = SubSeq(lo, 1, Len(it.out) + Len(it.q))
InvIterCanon == it.st = "end" => it.out = LevelOrder(nodes)
InvIterProps == it.st = "end" =>
                  /\ OnceEach(it.out, nodes) /\ ParentsFirst(it.out) /\ DepthMonotone(it.out)
                  /\ QueueOrder(it.out) /\ LeftFirst(it.out)
\* the abstract properties characterise the canonical order: any permutation of the paths that has them IS LevelOrder
\* (checked on the trees of the model by enumerating all permutations of up to 5 nodes)
Perms(S) == {s \in [1..Cardinality(S) -> S] : \A a, b \in DOMAIN s : a # b => s[a] # s[b]}
InvCharacterised == (Done /\ Cardinality(nodes) <= 5) =>
                      \A s \in Perms(PathsOf(nodes)) :
                        (ParentsFirst(s) /\ DepthMonotone(s) /\ QueueOrder(s) /\ LeftFirst(s)) => s = LevelOrder(nodes)

\* --- counts
InvCounts == Done =>
               /\ NumLeavesDef(nodes) = Cardinality(Splits(nodes)) + 1
               /\ Cardinality(nodes) = 2 * NumLeavesDef(nodes) - 1
               /\ (MaxDepthDef(nodes) = 0) = (Splits(nodes) = {})
               /\ hp.md >= 0 => MaxDepthDef(nodes) <= hp.md
               /\ NumLeavesDef(nodes) <= ds.n

\* --- features()
FirstUse(NS, f) == MinSet({k \in DOMAIN LevelOrder(NS) : LET nd == Node(NS, LevelOrder(NS)[k]) IN ~nd.leaf /\ nd.feat = f})
InvFeatures == Done =>
                 LET fs == FeaturesDef(nodes) IN
                 /\ Range(fs) = {nd.feat : nd \in Splits(nodes)}
                 /\ Len(fs) = Cardinality(Range(fs))
                 /\ \A a, b \in DOMAIN fs : a < b => FirstUse(nodes, fs[a]) < FirstUse(nodes, fs[b])
                 /\ (Splits(nodes) # {}) => fs[1] = Node(nodes, <<>>).feat

\* --- importances (the design model records the fit-time decrease in nd.dec6; DTree.InvFitReach makes
\*     it the decrease recomputed from the routed samples)
MStats == FeatStats(nodes, ds, hp, PLf)
RECURSIVE SumField(_)
SumField(S) == IF S = {} THEN 0 ELSE LET nd == CHOOSE nd \in S : TRUE IN nd.dec6 + SumField(S \ {nd})
InvStatsAreFitTime == Done => \A g \in 1..ds.d : MStats[g][1] = SumField(FeatNodes(nodes, g - 1))
InvImportance == Done =>
   LET st == MStats
       m == MeanDef6(st)
       M == SumSeq(m)
       r == RelDef6(m) IN
   /\ \A g \in DOMAIN m : m[g] >= 0
   \* a split exists  <=>  the normaliser is positive (0/0 only for the root-only tree)
   /\ (Splits(nodes) # {}) = (M > 0)
   /\ (Splits(nodes) # {}) =>
        /\ \A g \in DOMAIN r : r[g] >= 0 /\ r[g] <= 1000000
        /\ SumsToOne(r)
        /\ \A g \in DOMAIN r : (st[g][2] = 0) = (r[g] = 0)
   \* the checking relations accept the hand definition with slack 0 ...
   /\ MeanRel(m, st, 0)
   /\ (Splits(nodes) # {}) => RelRel(r, st, 0)

\* ... and reject the usual wrong answers with the slack used on traces.  Each clause is an exact
\* characterisation / a triangle-inequality lemma; the WITNESS lines prove that the rejecting side
\* is reached in the model (props/x11.py requires at least one of each kind named in the run's cfg)
WrongSum(st) == [g \in DOMAIN st |-> st[g][1]] \o <<>>                       \* sum instead of mean
WrongShare(st) == LET T == SumSeq(WrongSum(st)) IN [g \in DOMAIN st |-> LongDiv6(st[g][1], T)] \o <<>>   \* share of the SUM of decreases
RelBound(st, sl) == (Len(st) + 1) * (sl + 2) + 3 + SumSeq(MeanDef6(st)) \div 1000000
InvRejects == (Done /\ Splits(nodes) # {}) =>
   LET st == MStats
       m == MeanDef6(st)
       M == SumSeq(m)
       r == RelDef6(m)
       sl == DecSlack(hp.crit) IN
   \* sum instead of mean: rejected exactly when some feature has two nodes and a visible total
   /\ MeanRel(WrongSum(st), st, sl) = (\A g \in DOMAIN st : st[g][1] * (st[g][2] - 1) <= st[g][2] * (sl + 1))
   /\ ~MeanRel(WrongSum(st), st, sl) => PrintT("WITNESS sum")
   \* the un-normalised means do not sum to one unless they happen to
   /\ SumsToOne(m) = (Abs(M - 1000000) <= Len(st) + 1)
   /\ ~SumsToOne(m) => PrintT("WITNESS raw")
   \* any vector accepted as the relative decrease is close to the hand definition (in product form)
   /\ \A w \in {WrongShare(st), m, WrongSum(st)} :
        (\A g \in DOMAIN w : w[g] >= 0 /\ w[g] <= 1000001) =>
          /\ RelRel(w, st, sl) => \A g \in DOMAIN w : MulS6(Abs(w[g] - r[g]), M) <= 2 * RelBound(st, sl) + 4
          /\ ~RelRel(w, st, sl) => PrintT("WITNESS rel")

=============================================================================
