----------------------------- MODULE DatasetOps -----------------------------
(***************************************************************************)
(* C02 -- dataset operations keep record, target(s), weight and names of a *)
(* sample / column together.                                               *)
(*                                                                         *)
(* A dataset is modelled by its five parallel containers, each one a       *)
(* sequence of *original* identities:                                      *)
(*   rr  sample id of every record row        fc  column id of every       *)
(*   tr  sample id of every target row            record column            *)
(*   wr  sample id of every weight (<<>> =    fnc column id of every       *)
(*       the dataset carries no weights)          feature name (<<>> none) *)
(*   tc  / tnc  the same for target columns / target names                 *)
(*   g   the label transformation applied so far to an original label row  *)
(*       (map_targets, one target column picked, one-vs-all of a label)    *)
(*   ty  the concrete Rust type: records owned/view, target container      *)
(*       (A array, AV array view, CA counted array, CAV counted view),     *)
(*       label type (U usize, B bool), target dimension (1, 2)             *)
(* One operator per public operation of src/dataset/{impl_dataset,         *)
(* impl_targets,iter}.rs gives the documented result; whether weights and  *)
(* names are carried is a *policy* argument: the design model below uses   *)
(* the policy of the code, trace validation (Trace_DatasetOps) takes it    *)
(* from what the implementation returned (the statement allows a result    *)
(* not to carry them, never to carry them misaligned).                     *)
(*                                                                         *)
(* Tags: record cell (r,c) = 16r+c, weight of sample r = r + 1/2 (logged   *)
(* doubled: 2r+1), names "f<c>" / "t<c>", labels lab[r][c] are case input. *)
(***************************************************************************)
EXTENDS Integers, Sequences, FiniteSets, TLC

CONSTANTS MaxN, MaxF, MaxDepth

VARIABLES lab,     \* label matrix of the original samples: lab[r+1][c+1]
          st,      \* the current dataset
          depth,   \* number of operations applied
          last     \* name of the last operation (coverage / diagnostics)

dvars == <<lab, st, depth, last>>

-----------------------------------------------------------------------------
(* generic helpers *)
Rng(s)      == {s[p] : p \in DOMAIN s}
\* s[idx[1]], ..., s[idx[k]] as an explicit tuple (TLC keeps [p \in .. |-> ..] lazy and would re-evaluate it on every access)
RECURSIVE SelTo(_, _, _)
SelTo(s, idx, k) == IF k = 0 THEN <<>> ELSE Append(SelTo(s, idx, k - 1), s[idx[k]])
Sel(s, idx) == SelTo(s, idx, Len(idx))
Id(n)       == [p \in 1..n |-> p]
Count(s, x) == Cardinality({p \in DOMAIN s : s[p] = x})
SameBag(a, b) == Len(a) = Len(b) /\ \A x \in Rng(a) \cup Rng(b) : Count(a, x) = Count(b, x)
FirstPos(s, x) == CHOOSE p \in DOMAIN s : s[p] = x /\ \A q \in DOMAIN s : s[q] = x => p <= q
Filter(n, Keep(_)) == SelectSeq(Id(n), Keep)
RECURSIVE Pow2(_)
Pow2(k) == IF k = 0 THEN 1 ELSE 2 * Pow2(k - 1)
RECURSIVE BitLen(_)
BitLen(x) == IF x = 0 THEN 0 ELSE 1 + BitLen(x \div 2)

-----------------------------------------------------------------------------
(* ceil(n * ratio) "the product taken in single precision".                 *)
(* ratio = a / 2^b exactly (a < 2^24: every f32 in [0,1] has this form);    *)
(* n < 2^24 is exact as f32; the f32 product is n*a/2^b rounded to a 24-bit *)
(* significand, ties to even.  n * a < 2^31 is required (n <= 127).         *)
Round24(P) ==
  LET bl == BitLen(P) IN
  IF bl <= 24 THEN P
  ELSE LET d  == Pow2(bl - 24)
           q  == P \div d
           r  == P % d
           h  == d \div 2
           q2 == IF r > h \/ (r = h /\ q % 2 = 1) THEN q + 1 ELSE q
       IN q2 * d
Ceil32(n, a, b) ==
  LET V == Round24(n * a)
      d == Pow2(b)
  IN (V \div d) + (IF V % d > 0 THEN 1 ELSE 0)
CeilExact(n, a, b) == LET d == Pow2(b) IN ((n * a) \div d) + (IF (n * a) % d > 0 THEN 1 ELSE 0)

-----------------------------------------------------------------------------
(* types *)
Ty(r, k, l, d) == [r |-> r, k |-> k, l |-> l, d |-> d]
ViewOf(k)  == IF k \in {"A", "AV"} THEN "AV" ELSE "CAV"
OwnedOf(k) == IF k \in {"A", "AV"} THEN "A" ELSE "CA"
TyName(ty) == ty.r \o ty.k \o ty.l \o ToString(ty.d)
Types == {Ty(r, k, l, d) : r \in {"O", "V"}, k \in {"A", "AV", "CA", "CAV"}, l \in {"U", "B"}, d \in {1, 2}}
\* types that the operations can produce from owned arrays / plain views (others do not occur)
Reachable(ty) == /\ ty.r = "O" => ty.k \in {"A", "CA"}
                 /\ ty.l = "B" => ty.d = 1

OpNames == {"view", "split", "shuffle", "boot", "boots", "bootf", "wl", "ova", "chunk", "siter",
            "titer", "fiter", "map", "toowned", "single", "iterp"}

\* does the Rust type offer the operation (nt = current number of target columns)
Applicable(op, ty, nt) ==
  CASE op = "split"  -> ty.r = "V" \/ ty.k = "A"                 \* view impl / Dataset<F,E,I> impl
    [] op = "ova"    -> ty.d = 1                                 \* AsSingleTargets
    [] op = "single" -> ty.r = "O" /\ ty.k = "A" /\ ty.d = 2 /\ ty.l = "U"      \* Dataset<X, Y> (any number of columns)
    [] OTHER         -> op \in OpNames

ResTy(op, ty) ==
  CASE op = "view"    -> Ty("V", ViewOf(ty.k), ty.l, ty.d)
    [] op = "split"   -> IF ty.r = "V" THEN Ty("V", ViewOf(ty.k), ty.l, ty.d) ELSE ty
    [] op \in {"shuffle", "boot", "boots", "bootf", "toowned"} -> Ty("O", OwnedOf(ty.k), ty.l, ty.d)
    [] op = "wl"      -> Ty("O", "CA", ty.l, ty.d)
    [] op = "ova"     -> Ty("V", "CA", "B", 1)
    [] op = "chunk"   -> Ty("V", ViewOf(ty.k), ty.l, ty.d)
    [] op \in {"titer", "fiter"} -> Ty("V", "AV", ty.l, ty.d)
    [] op = "map"     -> Ty(ty.r, "A", "U", ty.d)
    [] op = "single"  -> Ty("O", "A", ty.l, 1)
    [] OTHER          -> ty

-----------------------------------------------------------------------------
(* labels *)
\* the target maps used: "inc" (injective), "half" (merges labels), "rot" (0,1,2 -> 1,0,2: not monotone)
MapFn(s, x) == CASE s = "inc" -> x + 1 [] s = "half" -> x \div 2 [] s = "rot" -> (2 * x + 1) % 3
Step(k, s, i) == [k |-> k, s |-> s, i |-> i]
ApplyStep(sp, row) ==
  CASE sp.k = "map" -> [j \in 1..Len(row) |-> MapFn(sp.s, row[j])]
    [] sp.k = "col" -> <<row[sp.i]>>
    [] sp.k = "ova" -> <<IF row[1] = sp.i THEN 1 ELSE 0>>
RECURSIVE Fold(_, _)
Fold(g, row) == IF g = <<>> THEN row ELSE Fold(Tail(g), ApplyStep(Head(g), row))

N(s)  == Len(s.rr)
NF(s) == Len(s.fc)
NT(s) == Len(s.tc)
Val(s, L, p) == Fold(s.g, L[s.tr[p] + 1])                       \* current label row at position p
Labels1(s, L) == {Val(s, L, p)[1] : p \in 1..Len(s.tr)}         \* distinct labels of target column 1

\* label counts of target column j as a sequence of <<label, count>>, labels ascending
LabelCounts(tgt, j) ==
  LET vals == {tgt[p][j] : p \in DOMAIN tgt}
      mx   == IF vals = {} THEN -1 ELSE CHOOSE m \in vals : \A v \in vals : v <= m
      all  == [q \in 1..(mx + 1) |-> <<q - 1, Cardinality({p \in DOMAIN tgt : tgt[p][j] = q - 1})>>]
  IN SelectSeq(all, LAMBDA pr : pr[2] > 0)

-----------------------------------------------------------------------------
(* what the public accessors of a dataset show *)
RTag(r, c) == 16 * r + c
Proj(s, L) ==
  LET tgt == [p \in 1..Len(s.tr) |-> Val(s, L, p)] IN
  [ ty  |-> TyName(s.ty), ns |-> N(s), nf |-> NF(s), nt |-> NT(s),
    rec |-> [p \in 1..N(s) |-> [j \in 1..NF(s) |-> RTag(s.rr[p], s.fc[j])]],
    tgt |-> tgt,
    w   |-> [p \in 1..Len(s.wr) |-> 2 * s.wr[p] + 1],
    fn  |-> [j \in 1..Len(s.fnc) |-> "f" \o ToString(s.fnc[j])],
    tn  |-> [j \in 1..Len(s.tnc) |-> "t" \o ToString(s.tnc[j])],
    lc  |-> [j \in 1..NT(s) |-> LabelCounts(tgt, j)] ]

\* THE PROPERTY on one dataset: position p of records, targets, weights is the same original sample,
\* position j of columns and names is the same original column
Aligned(s) ==
  /\ s.tr = s.rr
  /\ s.wr = <<>> \/ s.wr = s.rr
  /\ s.fnc = <<>> \/ s.fnc = s.fc
  /\ s.tnc = <<>> \/ s.tnc = s.tc

-----------------------------------------------------------------------------
(* the operations.  pol = [w, fn, tn] : is the container carried into the result *)
Pol(w, f, t) == [w |-> w, fn |-> f, tn |-> t]
NoStep == Step("none", "", 0)

Apply(s, ri, ci, ti, sp, ty, pol) ==
  [ rr  |-> Sel(s.rr, ri),
    tr  |-> Sel(s.tr, ri),
    wr  |-> IF pol.w /\ s.wr # <<>> THEN Sel(s.wr, ri) ELSE <<>>,
    fc  |-> Sel(s.fc, ci),
    fnc |-> IF pol.fn /\ s.fnc # <<>> THEN Sel(s.fnc, ci) ELSE <<>>,
    tc  |-> Sel(s.tc, ti),
    tnc |-> IF pol.tn /\ s.tnc # <<>> THEN Sel(s.tnc, ti) ELSE <<>>,
    g   |-> IF sp.k = "none" THEN s.g ELSE Append(s.g, sp),
    ty  |-> ty ]

AllR(s) == Id(N(s))
AllF(s) == Id(NF(s))
AllT(s) == Id(NT(s))

OpView(s, pol) == Apply(s, AllR(s), AllF(s), AllT(s), NoStep, ResTy("view", s.ty), pol)

\* ratio = a / 2^b; part 0 = the first ceil(ratio * n) samples, part 1 = the rest, both in order
SplitAt(s, a, b) == Ceil32(N(s), a, b)
OpSplit(s, a, b, part, pol) ==
  LET k  == SplitAt(s, a, b)
      ri == IF part = 0 THEN [p \in 1..k |-> p] ELSE [p \in 1..(N(s) - k) |-> k + p]
  IN Apply(s, ri, AllF(s), AllT(s), NoStep, ResTy("split", s.ty), pol)

\* shuffle / bootstrap_samples: rows selected by the position vector ri
OpRows(op, s, ri, pol) == Apply(s, ri, AllF(s), AllT(s), NoStep, ResTy(op, s.ty), pol)
\* bootstrap: rows by ri and feature columns by ci; bootstrap_features: columns only
OpBoot(s, ri, ci, pol) == Apply(s, ri, ci, AllT(s), NoStep, ResTy("boot", s.ty), pol)
OpBootF(s, ci, pol)    == Apply(s, AllR(s), ci, AllT(s), NoStep, ResTy("bootf", s.ty), pol)

\* with_labels: exactly the samples one of whose targets carries a listed label, order kept
KeptBy(s, L, ls) == Filter(N(s), LAMBDA p : \E j \in 1..NT(s) : \E q \in DOMAIN ls : Val(s, L, p)[j] = ls[q])
OpWithLabels(s, L, ls, pol) == Apply(s, KeptBy(s, L, ls), AllF(s), AllT(s), NoStep, ResTy("wl", s.ty), pol)

\* one_vs_all: for label l the same rows with boolean targets "label = l"
OpOva(s, l, pol) == Apply(s, AllR(s), AllF(s), AllT(s), Step("ova", "", l), ResTy("ova", s.ty), pol)

\* sample_chunks(c): chunk j (0-based) = rows [j c, (j+1) c)
NChunks(s, c) == N(s) \div c
\* (a trailing shorter chunk is expressible; the code yields only the N div c full ones -- undocumented either way)
OpChunk(s, c, j, pol) ==
  LET len == IF (j + 1) * c <= N(s) THEN c ELSE N(s) - j * c
  IN Apply(s, [p \in 1..len |-> j * c + p], AllF(s), AllT(s), NoStep, ResTy("chunk", s.ty), pol)

OpTargetIter(s, j, pol)  == Apply(s, AllR(s), AllF(s), <<j>>, Step("col", "", j), ResTy("titer", s.ty), pol)
OpFeatureIter(s, j, pol) == Apply(s, AllR(s), <<j>>, AllT(s), NoStep, ResTy("fiter", s.ty), pol)
OpMap(s, name, pol)      == Apply(s, AllR(s), AllF(s), AllT(s), Step("map", name, 0), ResTy("map", s.ty), pol)
OpToOwned(s, pol)        == Apply(s, AllR(s), AllF(s), AllT(s), NoStep, ResTy("toowned", s.ty), pol)
\* into_single_target: "Only works for targets with shape of form [X, 1], panics otherwise".  (With no sample at all
\* there is no target to lose: the reshape succeeds; the one-dimensional result is then described by column 1.)
OpSingle(s, pol) ==
  IF NT(s) = 1 THEN Apply(s, AllR(s), AllF(s), AllT(s), NoStep, ResTy("single", s.ty), pol)
  ELSE Apply(s, AllR(s), AllF(s), <<1>>, Step("col", "", 1), ResTy("single", s.ty), pol)

\* Refusals.  MustRefuse: the operation has no admissible result on this dataset, so it has to be refused (panic):
\*   - into_single_target of targets with more or less than one column (documented panic); returning would leave every
\*     sample with a part of its targets only -- not a documented selection;
\*   - bootstrap / bootstrap_samples of a >= 1 samples from an empty dataset: there is no existing sample to draw.
\* MayRefuse: a refusal is admissible (the above, the same conversion of an empty dataset, chunks of size 0).
MustRefuse(op, s, a) ==
  \/ op = "single" /\ NT(s) # 1 /\ N(s) > 0
  \/ op \in {"boot", "boots"} /\ N(s) = 0 /\ a >= 1
MayRefuse(op, s, a) ==
  \/ MustRefuse(op, s, a)
  \/ op = "single" /\ NT(s) # 1
  \/ op = "chunk" /\ a = 0

\* sample_iter: the pairs (record row, target row) in order
SamplePairs(s, L) == [p \in 1..N(s) |-> << [j \in 1..NF(s) |-> RTag(s.rr[p], s.fc[j])], Val(s, L, p) >>]

-----------------------------------------------------------------------------
(* Iterator protocol ("iterp").  The public iterators (sample_iter, feature_iter, target_iter, sample_chunks) are    *)
(* std iterators: whatever mixture of next / nth / by_ref().take / skip / step_by / last / count the caller uses,   *)
(* the items are those of the plain sequence -- each item exactly once, in order.  An item is <<records, targets>>  *)
(* (a row pair for sample_iter, the matrices of the yielded view otherwise).  A step is code * 100 + j:             *)
(*   1 next, 2 nth(j), 3 by_ref().take(j), 4 size_hint, and the consuming 5 collect, 6 skip(j), 7 step_by(j),       *)
(*   8 last, 9 count (the harness bounds every consuming step by tot + 3 pulls).                                    *)
NoPol == Pol(FALSE, FALSE, FALSE)
DsItem(s2, L) == << [p \in 1..N(s2) |-> [j \in 1..NF(s2) |-> RTag(s2.rr[p], s2.fc[j])]], [p \in 1..N(s2) |-> Val(s2, L, p)] >>
IterItems(s, L, which, c, tot) ==
  CASE which = 0 -> SamplePairs(s, L)
    [] which = 1 -> [j \in 1..NF(s) |-> DsItem(OpFeatureIter(s, j, NoPol), L)]
    [] which = 2 -> [j \in 1..NT(s) |-> DsItem(OpTargetIter(s, j, NoPol), L)]
    [] OTHER     -> [j \in 1..tot |-> DsItem(OpChunk(s, c, j - 1, NoPol), L)]
IterTotOk(s, which, c, tot) ==
  CASE which = 0 -> tot = N(s)
    [] which = 1 -> tot = NF(s)
    [] which = 2 -> tot = NT(s)
    [] OTHER     -> c >= 1 /\ tot \in {N(s) \div c, (N(s) + c - 1) \div c}
MinI(a, b) == IF a < b THEN a ELSE b
Slice(items, a, b) == [q \in 1..(IF b >= a THEN b - a + 1 ELSE 0) |-> items[a + q - 1]]
RECURSIVE ProtoOk(_, _, _, _, _)
ProtoOk(items, tot, steps, out, pos) ==
  IF steps = <<>> THEN out = <<>>
  ELSE IF out = <<>> THEN FALSE
  ELSE LET k == Head(steps) \div 100
           j == Head(steps) % 100
           o == Head(out)
           rem == tot - pos
       IN /\ o.k = k /\ o.j = j
          /\ CASE k = 1 -> /\ o.items = Slice(items, pos + 1, MinI(pos + 1, tot))
                            /\ ProtoOk(items, tot, Tail(steps), Tail(out), MinI(pos + 1, tot))
               [] k = 2 -> /\ o.items = (IF pos + j + 1 <= tot THEN <<items[pos + j + 1]>> ELSE <<>>)
                            /\ ProtoOk(items, tot, Tail(steps), Tail(out), MinI(pos + j + 1, tot))
               [] k = 3 -> /\ o.items = Slice(items, pos + 1, MinI(pos + j, tot))
                            /\ ProtoOk(items, tot, Tail(steps), Tail(out), MinI(pos + j, tot))
               [] k = 4 -> /\ o.lo <= rem /\ (o.hi = -1 \/ o.hi >= rem)
                            /\ ProtoOk(items, tot, Tail(steps), Tail(out), pos)
               [] k = 5 -> o.items = Slice(items, pos + 1, tot) /\ Tail(out) = <<>>
               [] k = 6 -> o.items = Slice(items, pos + j + 1, tot) /\ Tail(out) = <<>>
               [] k = 7 -> /\ j >= 1 /\ Tail(out) = <<>>
                            /\ o.items = [q \in 1..(IF rem <= 0 THEN 0 ELSE (rem + j - 1) \div j) |-> items[pos + 1 + (q - 1) * j]]
               [] k = 8 -> o.items = (IF rem > 0 THEN <<items[tot]>> ELSE <<>>) /\ Tail(out) = <<>>
               [] k = 9 -> o.n = rem /\ Tail(out) = <<>>
               [] OTHER -> FALSE

-----------------------------------------------------------------------------
(* initial datasets *)
LabPat(pat, n, nt) ==
  [r \in 1..n |-> [c \in 1..nt |->
     CASE pat = "mod3"  -> ((r - 1) + (c - 1)) % 3
       [] pat = "mod2"  -> (((r - 1) % 2) + 2 * (c - 1)) % 3
       [] pat = "desc"  -> ((2 - ((r - 1) % 3)) + (c - 1)) % 3      \* labels descending along the samples: 2, 1, 0, 2, ..
       [] pat = "const" -> c % 3 ]]

\* t = 0: one-dimensional targets; t >= 1: two-dimensional with t columns
InitDs(n, f, t, w, names, store) ==
  LET nt  == IF t = 0 THEN 1 ELSE t
      ids == [p \in 1..n |-> p - 1]
  IN [ rr |-> ids, tr |-> ids, wr |-> IF w THEN ids ELSE <<>>,
       fc |-> [j \in 1..f |-> j - 1], fnc |-> IF names THEN [j \in 1..f |-> j - 1] ELSE <<>>,
       tc |-> [j \in 1..nt |-> j - 1], tnc |-> IF names THEN [j \in 1..nt |-> j - 1] ELSE <<>>,
       g |-> <<>>,
       ty |-> IF store = "view" THEN Ty("V", "AV", "U", IF t = 0 THEN 1 ELSE 2)
                                ELSE Ty("O", "A", "U", IF t = 0 THEN 1 ELSE 2) ]

-----------------------------------------------------------------------------
(* The design model: every operation with every outcome, weights / names carried as the code does *)
CodePol(op, s) ==
  CASE op \in {"view", "split", "wl", "ova", "titer", "map"} -> Pol(TRUE, TRUE, TRUE)
    [] op = "shuffle" -> Pol(FALSE, TRUE, TRUE)
    [] op = "fiter"   -> Pol(TRUE, Len(s.fnc) = 1, TRUE)     \* iter.rs compares the name count with the collapsed width
    [] OTHER          -> Pol(FALSE, FALSE, FALSE)             \* bootstrap*, sample_chunks, to_owned, into_single_target

Ratios == {<<0, 0>>, <<1, 2>>, <<1, 1>>, <<3, 2>>, <<1, 0>>, <<11184811, 25>>}   \* 0, 1/4, 1/2, 3/4, 1, f32(1/3)
Perms(n) == {p \in [1..n -> 1..n] : \A a, b \in 1..n : p[a] = p[b] => a = b}
LabelLists == {<<>>, <<0>>, <<1>>, <<0, 2>>, <<2, 0>>, <<1, 1>>, <<3, 1, 2>>, <<9, 1>>}     \* any order, repeats, absent labels

Init ==
  /\ \E n \in 1..MaxN, f \in 1..MaxF, t \in 0..2, w \in BOOLEAN, names \in BOOLEAN, store \in {"owned", "view"},
        pat \in {"mod2", "desc"} :
       /\ lab = LabPat(pat, n, IF t = 0 THEN 1 ELSE t)
       /\ st = InitDs(n, f, t, w, names, store)
  /\ depth = 0 /\ last = "init"

Do(op, s2) == st' = s2 /\ last' = op /\ depth' = depth + 1 /\ UNCHANGED lab
Can(op) == depth < MaxDepth /\ Applicable(op, st.ty, NT(st))

View    == Can("view") /\ Do("view", OpView(st, CodePol("view", st)))
Split   == Can("split") /\ \E ab \in Ratios, part \in {0, 1} : Do("split", OpSplit(st, ab[1], ab[2], part, CodePol("split", st)))
Shuffle == Can("shuffle") /\ \E pm \in Perms(N(st)) : Do("shuffle", OpRows("shuffle", st, pm, CodePol("shuffle", st)))
BootS   == Can("boots") /\ N(st) > 0 /\ \E sz \in 1..2 : \E ri \in [1..sz -> 1..N(st)] :
              Do("boots", OpRows("boots", st, ri, CodePol("boots", st)))
BootF   == Can("bootf") /\ \E k \in 1..2 : \E ci \in [1..k -> 1..NF(st)] : Do("bootf", OpBootF(st, ci, CodePol("bootf", st)))
Boot    == Can("boot") /\ N(st) > 0 /\ \E ri \in [1..2 -> 1..N(st)], ci \in [1..1 -> 1..NF(st)] :
              Do("boot", OpBoot(st, ri, ci, CodePol("boot", st)))
WithLabels == Can("wl") /\ \E ls \in LabelLists : Do("wl", OpWithLabels(st, lab, ls, CodePol("wl", st)))
Ova     == Can("ova") /\ \E l \in Labels1(st, lab) : Do("ova", OpOva(st, l, CodePol("ova", st)))
Chunk   == Can("chunk") /\ \E c \in 1..2 : \E j \in 0..(NChunks(st, c) - 1) : Do("chunk", OpChunk(st, c, j, CodePol("chunk", st)))
TargetIter  == Can("titer") /\ \E j \in 1..NT(st) : Do("titer", OpTargetIter(st, j, CodePol("titer", st)))
FeatureIter == Can("fiter") /\ \E j \in 1..NF(st) : Do("fiter", OpFeatureIter(st, j, CodePol("fiter", st)))
MapT    == Can("map") /\ \E nm \in {"inc", "half", "rot"} : Do("map", OpMap(st, nm, CodePol("map", st)))
ToOwned == Can("toowned") /\ Do("toowned", OpToOwned(st, CodePol("toowned", st)))
Single  == Can("single") /\ NT(st) = 1 /\ Do("single", OpSingle(st, CodePol("single", st)))

Next == View \/ Split \/ Shuffle \/ BootS \/ BootF \/ Boot \/ WithLabels \/ Ova \/ Chunk
        \/ TargetIter \/ FeatureIter \/ MapT \/ ToOwned \/ Single

Spec == Init /\ [][Next]_dvars

-----------------------------------------------------------------------------
(* Invariants of the design *)
InvAligned == Aligned(st)

\* only existing samples and columns, every container of the right length
InvExisting ==
  /\ Rng(st.rr) \subseteq 0..(Len(lab) - 1)
  /\ Rng(st.fc) \subseteq 0..(MaxF - 1)
  /\ Len(st.tr) = Len(st.rr)
  /\ \A p \in 1..N(st) : Len(Val(st, lab, p)) = NT(st)

InvTyped ==
  /\ Reachable(st.ty)
  /\ st.ty.d = 1 => NT(st) = 1
  /\ st.ty.l = "B" => \A p \in 1..N(st) : Val(st, lab, p)[1] \in {0, 1}

\* what an observer sees: every record row is one original row, and it sits next to the (transformed) label row,
\* weight and names of that same original row / column
RECURSIVE SumCounts(_)
SumCounts(lc) == IF lc = <<>> THEN 0 ELSE Head(lc)[2] + SumCounts(Tail(lc))
InvProjection ==
  LET P == Proj(st, lab) IN
  /\ \A p \in 1..P.ns :
       LET r == st.rr[p] IN
       /\ \A j \in 1..P.nf : P.rec[p][j] \div 16 = r
       /\ P.tgt[p] = Fold(st.g, lab[r + 1])
       /\ P.w # <<>> => P.w[p] = 2 * r + 1
  /\ P.fn # <<>> => \A j \in 1..P.nf : P.ns > 0 => P.fn[j] = "f" \o ToString(P.rec[1][j] % 16)
  /\ \A j \in 1..P.nt :
       /\ \A q \in 1..Len(P.lc[j]) : P.lc[j][q][2] > 0
       /\ SumCounts(P.lc[j]) = P.ns

\* algebra of the documented selections, evaluated on every reachable dataset
InvSplitPartition ==
  \A ab \in Ratios :
    LET p0 == OpSplit(st, ab[1], ab[2], 0, Pol(TRUE, TRUE, TRUE))
        p1 == OpSplit(st, ab[1], ab[2], 1, Pol(TRUE, TRUE, TRUE))
    IN /\ p0.rr \o p1.rr = st.rr /\ p0.tr \o p1.tr = st.tr /\ p0.wr \o p1.wr = st.wr
       /\ Aligned(p0) /\ Aligned(p1)
       /\ N(p0) \in 0..N(st)
       \* exact (dyadic) ratios: single precision is exact at these sizes
       /\ ab[2] <= 2 => N(p0) = CeilExact(N(st), ab[1], ab[2])

InvOvaPartition ==
  st.ty.d = 1 =>
    /\ \A p \in 1..N(st) : Cardinality({l \in Labels1(st, lab) : Val(OpOva(st, l, Pol(TRUE, TRUE, TRUE)), lab, p) = <<1>>}) = 1
    /\ \A l \in Labels1(st, lab) : Aligned(OpOva(st, l, Pol(TRUE, TRUE, TRUE)))

InvChunks ==
  \A c \in 1..2 :
    LET k == NChunks(st, c)
        cat[j \in 0..k] == IF j = 0 THEN <<>> ELSE cat[j - 1] \o OpChunk(st, c, j - 1, Pol(TRUE, TRUE, TRUE)).rr
    IN cat[k] = SubSeq(st.rr, 1, k * c)

InvWithLabels ==
  \A ls \in LabelLists :
    LET r == OpWithLabels(st, lab, ls, Pol(TRUE, TRUE, TRUE)) IN
    /\ Aligned(r)
    /\ \A p \in 1..N(r) : \E j \in 1..NT(r) : Val(r, lab, p)[j] \in Rng(ls)
    /\ \A x \in Rng(st.rr) :
         Count(r.rr, x) = IF \E j \in 1..NT(st) : Fold(st.g, lab[x + 1])[j] \in Rng(ls) THEN Count(st.rr, x) ELSE 0

\* the single-precision product: worked examples (10 * 0.1f32 = 1.0f32, 3 * f32(1/3) = 1.0f32) and exactness
ASSUME Ceil32(10, 13421773, 27) = 1 /\ CeilExact(10, 13421773, 27) = 2
ASSUME Ceil32(3, 11184811, 25) = 1 /\ CeilExact(3, 11184811, 25) = 2
ASSUME \A n \in 0..60 : \A ab \in {<<0, 0>>, <<1, 3>>, <<1, 2>>, <<3, 3>>, <<1, 1>>, <<5, 3>>, <<3, 2>>, <<7, 3>>, <<1, 0>>} :
          Ceil32(n, ab[1], ab[2]) = CeilExact(n, ab[1], ab[2])
ASSUME \A n \in 0..60 : Ceil32(n, 13421773, 27) \in {CeilExact(n, 1, 0) \div 10, CeilExact(n, 1, 0) \div 10 + 1}
=============================================================================
