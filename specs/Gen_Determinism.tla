-------------------------- MODULE Gen_Determinism --------------------------
(***************************************************************************)
(* Case generator for C20.  A case is one CONFIGURATION (estimator,        *)
(* variant, data, seed, hyper-parameters) together with the PLAN of        *)
(* environments it must be run in: plan = <<threads, repetitions>> pairs   *)
(* (threads = 0: rayon's global pool), each executed in nproc fresh        *)
(* processes.  Eight families:                                              *)
(*   tie  : every small labelled lattice data set (sorted multisets of     *)
(*          (x, z, label) rows, labels an initial segment) x the           *)
(*          estimators whose result can hinge on a tie / on map order      *)
(*   frac : five fixed points x every 3-class labelling x decision trees,   *)
(*          incremental Gaussian naive Bayes                               *)
(*          (class fractions that are not dyadic: order-dependent sums)    *)
(*   ulp  : identical-feature samples of 3-4 classes whose f32 weights lie  *)
(*          0..3 ulps above 1.0 / 0.1 / 0.3 (near-ties between class        *)
(*          weights) x trees, label frequencies, weighted isotonic          *)
(*   blob : every estimator variant of the catalogue x generated data sets *)
(*   builder : 21 estimators whose parameter builders have setters x        *)
(*          generated data, each run with four builder histories (fresh,    *)
(*          re-set after use, clone of a used builder, final-use-final)     *)
(*   hook : k-means family on small data with the kmeans.par hook recorded *)
(*          under the full thread plan (binds the schedule model)          *)
(*   hookbig : the same estimators on >= 9 000 rows, hook on (coarse loop     *)
(*          events + the value of every inertia reduction)                 *)
(*   big  : k-means family on data large enough for the loops to be split  *)
(*          into many pieces, full thread plan                             *)
(***************************************************************************)
EXTENDS Integers, Sequences, FiniteSets, TLC, Json

CONSTANTS MaxLatN,     \* tie family: 2..MaxLatN rows
          MaxX,        \* x in 0..MaxX ; z in 0..1
          MaxL,        \* labels 0..MaxL
          Seeds,       \* seeds for the seeded estimators: ordinary values AND the special ones 0, 1, -1
                       \* (-1 = u64::MAX / usize::MAX in the harness): a legal seed is a legal seed
          SeedsBig,    \* the (smaller) grid for the expensive hook / hookbig / big families
          Tier         \* "quick" | "thorough": selects the generated data sets below

VARIABLE case

\* generated data sets <<n, d, c, dataseed>> (n rows, d features, c blobs)
BlobSets == IF Tier = "quick" THEN {<<40, 2, 2, 1>>, <<150, 3, 3, 2>>, <<150, 3, 5, 3>>, <<120, 2, 7, 4>>}
            ELSE {<<40, 2, 2, 1>>, <<150, 3, 3, 2>>, <<150, 3, 5, 3>>, <<120, 2, 7, 4>>, <<60, 1, 2, 5>>, <<300, 4, 7, 6>>,
                  <<90, 2, 3, 7>>, <<200, 3, 6, 8>>}
HookSets == IF Tier = "quick" THEN {<<9, 2, 3, 1>>, <<24, 2, 3, 2>>}
            ELSE {<<9, 2, 3, 1>>, <<24, 2, 3, 2>>, <<40, 3, 4, 3>>, <<17, 1, 2, 4>>}
\* (the big family must reach sizes at which an implementation would switch to parallel reductions:
\*  a size-gated parallel sum -- threshold 8192 rows -- was missed while this family stopped at 6000)
BigSets  == IF Tier = "quick" THEN {<<1500, 3, 4, 1>>, <<20000, 2, 3, 2>>}
            ELSE {<<1500, 3, 4, 1>>, <<6000, 2, 5, 2>>, <<3000, 5, 3, 3>>, <<20000, 2, 3, 2>>, <<12000, 3, 4, 4>>}
\* (40 000 rows: hookbig family only -- k-means fits are cheap, 40 mixture fits per case are not)

\* hooked k-means on data large enough for size-gated code paths: the hook logs these loops coarsely
\* (no row events) but reports every reduction and the value it produced
HookBigSets == IF Tier = "quick" THEN {<<20000, 2, 3, 2>>} ELSE {<<20000, 2, 3, 2>>, <<40000, 2, 5, 5>>, <<9000, 3, 4, 6>>}

NoData == [g |-> "none", x |-> <<>>, y |-> <<>>, w |-> <<>>, n |-> 0, d |-> 0, c |-> 0, seed |-> 0]
Blob(b) == [NoData EXCEPT !.g = "blobs", !.n = b[1], !.d = b[2], !.c = b[3], !.seed = b[4]]

\* ---- lattice data: kinds of rows indexed 1..K, a data set is a non-decreasing index sequence
NL == MaxL + 1
K  == (MaxX + 1) * 2 * NL
KX(q) == ((q - 1) \div NL) \div 2
KZ(q) == ((q - 1) \div NL) % 2
KLab(q) == (q - 1) % NL
LatSets(n) == {s \in [1..n -> 1..K] :
                 /\ \A p \in 1..(n - 1) : s[p] <= s[p + 1]
                 /\ LET used == {KLab(s[p]) : p \in 1..n} IN used = 0..(Cardinality(used) - 1)}
Lat(s) == [NoData EXCEPT !.g = "lat", !.x = [p \in 1..Len(s) |-> <<KX(s[p]), KZ(s[p])>>],
                         !.y = [p \in 1..Len(s) |-> KLab(s[p])], !.n = Len(s), !.d = 2]

\* ---- "frac" family: five distinct points, every labelling with three classes: class fractions
\* that are not dyadic (3/5, 1/5, 1/5 ...), so that float sums over the classes depend on their order
FracX == << <<0, 0>>, <<1, 0>>, <<2, 1>>, <<3, 3>>, <<4, 0>> >>
FracSets == {y \in [1..5 -> 0..2] : {y[p] : p \in 1..5} = 0..2}
Frac(y) == [NoData EXCEPT !.g = "lat", !.x = FracX, !.y = y, !.n = 5, !.d = 2]
FracEsts == {<<"tree", "gini", FALSE, FALSE>>, <<"tree", "entropy", FALSE, FALSE>>, <<"tree_str", "gini", FALSE, FALSE>>,
             <<"nb_incr", "gaussian", FALSE, FALSE>>}

\* ---- "ulp" family: near-ties between class weights.  m samples with IDENTICAL features and m
\* different labels (a node no split can separate) whose f32 sample weights lie 0..3 ulps above a base
\* value (w = <<base code, ulps>>: 1 -> 1.0, 2 -> 0.1f32, 3 -> 0.3f32), plus a clean class of two
\* samples elsewhere.  Weights 1, 1+ulp, 1+2ulp form an "equal up to rounding" chain that is not
\* transitive: any tolerance-based tie test makes the heaviest class depend on the visiting order.
UlpData(m, base, off) ==
  [NoData EXCEPT !.g = "lat",
                 !.x = [p \in 1..(m + 2) |-> IF p <= m THEN <<0, 0>> ELSE <<1, 0>>],
                 !.y = [p \in 1..(m + 2) |-> IF p <= m THEN p - 1 ELSE m],
                 !.w = [p \in 1..(m + 2) |-> IF p <= m THEN <<base, off[p]>> ELSE <<base, 0>>],
                 !.n = m + 2, !.d = 2]
UlpBases == IF Tier = "quick" THEN {1, 2} ELSE {1, 2, 3}
UlpOffs(m) == IF m = 3 \/ Tier # "quick" THEN [1..m -> 0..3] ELSE [1..m -> 0..2]
UlpEstsAll == {<<"tree", "gini", FALSE, FALSE>>, <<"tree_str", "gini", FALSE, FALSE>>}
UlpEsts3   == UlpEstsAll \cup {<<"tree", "entropy", FALSE, FALSE>>, <<"label_freq", "", FALSE, FALSE>>, <<"isotonic", "", FALSE, FALSE>>}

\* ---- plans
PlanSeq  == << <<1, 2>>, <<4, 1>> >>                                            \* sequential estimators
PlanUlp  == << <<1, 4>>, <<4, 2>> >>      \* 12 runs: the visiting order of a 3-4 entry hash map has to vary
PlanFull == << <<1, 1>>, <<2, 2>>, <<3, 1>>, <<8, 1>>, <<16, 1>>, <<0, 1>> >>   \* rayon users
PlanAll  == [q \in 1..17 |-> IF q = 17 THEN <<0, 1>> ELSE <<q, 1>>]              \* every pool size 1..16 + global pool
\* big family: every pool size is also repeated (the same pool schedules the same loop differently)
PlanBigQ == << <<1, 1>>, <<2, 2>>, <<3, 2>>, <<8, 2>>, <<16, 2>>, <<0, 2>> >>
PlanBigT == [q \in 1..17 |-> IF q = 17 THEN <<0, 2>> ELSE IF q \in {2, 8, 16} THEN <<q, 2>> ELSE <<q, 1>>]
PlanBig  == IF Tier = "quick" THEN PlanBigQ ELSE PlanBigT

\* ---- catalogue: <<estimator, variant, uses rayon, uses seed>>
Catalogue == {
  <<"kmeans", "pp", TRUE, TRUE>>, <<"kmeans", "random", TRUE, TRUE>>, <<"kmeans", "pre", TRUE, FALSE>>,
  <<"kmeans", "default", TRUE, FALSE>>, <<"kmeans", "default_random", TRUE, FALSE>>,
  <<"kmeans", "pp_f32", TRUE, TRUE>>, <<"kmeans", "random_f32", TRUE, TRUE>>,
  <<"kmeans_incr", "", TRUE, TRUE>>,
  <<"gmm", "kmeans", TRUE, TRUE>>, <<"gmm", "random", FALSE, TRUE>>, <<"gmm", "default", TRUE, FALSE>>,
  <<"dbscan", "", FALSE, FALSE>>, <<"optics", "", FALSE, FALSE>>,
  <<"hier", "average", FALSE, FALSE>>, <<"hier", "single", FALSE, FALSE>>, <<"hier", "complete", FALSE, FALSE>>,
  <<"hier", "ward", FALSE, FALSE>>,
  <<"ols", "icpt", FALSE, FALSE>>, <<"ols", "noicpt", FALSE, FALSE>>,
  <<"glm", "normal", FALSE, FALSE>>, <<"glm", "poisson", FALSE, FALSE>>, <<"glm", "gamma", FALSE, FALSE>>,
  <<"isotonic", "", FALSE, FALSE>>,
  <<"elasticnet", "enet", FALSE, FALSE>>, <<"elasticnet", "ridge", FALSE, FALSE>>, <<"elasticnet", "lasso", FALSE, FALSE>>,
  <<"mt_elasticnet", "", FALSE, FALSE>>,
  <<"pls", "regression", FALSE, FALSE>>, <<"pls", "canonical", FALSE, FALSE>>, <<"pls", "cca", FALSE, FALSE>>,
  <<"svr", "linear", FALSE, FALSE>>, <<"svr", "gauss", FALSE, FALSE>>,
  <<"logistic", "", FALSE, FALSE>>, <<"mlogistic", "", FALSE, FALSE>>,
  <<"svc", "linear", FALSE, FALSE>>, <<"svc", "gauss", FALSE, FALSE>>, <<"svm_multi", "", FALSE, FALSE>>,
  <<"tree", "gini", FALSE, FALSE>>, <<"tree", "entropy", FALSE, FALSE>>,
  <<"tree", "gini_w", FALSE, FALSE>>, <<"tree", "entropy_w", FALSE, FALSE>>,
  <<"gnb", "", FALSE, FALSE>>, <<"mnb", "", FALSE, FALSE>>,
  <<"tree_str", "gini", FALSE, FALSE>>, <<"tree_str", "entropy", FALSE, FALSE>>, <<"gnb_str", "", FALSE, FALSE>>,
  <<"nb_incr", "gaussian", FALSE, FALSE>>, <<"nb_incr", "multinomial", FALSE, FALSE>>,
  <<"ftrl", "seeded", FALSE, TRUE>>, <<"ftrl", "default", FALSE, FALSE>>,
  <<"pca", "plain", FALSE, FALSE>>, <<"pca", "whiten", FALSE, FALSE>>,
  <<"diffmap", "", FALSE, FALSE>>, <<"ica", "", FALSE, TRUE>>,
  <<"randproj", "gauss", FALSE, TRUE>>, <<"randproj", "sparse", FALSE, TRUE>>,
  <<"randproj", "gauss_default", FALSE, FALSE>>, <<"randproj", "sparse_default", FALSE, FALSE>>,
  <<"scaler", "standard", FALSE, FALSE>>, <<"scaler", "minmax", FALSE, FALSE>>, <<"scaler", "maxabs", FALSE, FALSE>>,
  <<"norm", "l2", FALSE, FALSE>>, <<"norm", "l1", FALSE, FALSE>>, <<"norm", "max", FALSE, FALSE>>,
  <<"whiten", "pca", FALSE, FALSE>>, <<"whiten", "zca", FALSE, FALSE>>, <<"whiten", "cholesky", FALSE, FALSE>>,
  <<"countvec", "plain", FALSE, FALSE>>, <<"countvec", "maxfeat", FALSE, FALSE>>,
  <<"countvec", "bigram", FALSE, FALSE>>, <<"countvec", "df", FALSE, FALSE>>,
  <<"tfidf", "plain", FALSE, FALSE>>, <<"tfidf", "maxfeat", FALSE, FALSE>>,
  <<"pearson", "", FALSE, FALSE>>, <<"label_freq", "", FALSE, FALSE>> }

\* estimators whose answer can hinge on a tie or on the iteration order of a map
TieSensitive == {
  <<"tree", "gini", FALSE, FALSE>>, <<"tree", "entropy", FALSE, FALSE>>, <<"gnb", "", FALSE, FALSE>>,
  <<"mnb", "", FALSE, FALSE>>, <<"svm_multi", "", FALSE, FALSE>>, <<"mlogistic", "", FALSE, FALSE>>,
  <<"hier", "average", FALSE, FALSE>>, <<"kmeans", "pp", TRUE, TRUE>>, <<"dbscan", "", FALSE, FALSE>>,
  <<"optics", "", FALSE, FALSE>>, <<"countvec", "maxfeat", FALSE, FALSE>>,
  <<"tree_str", "gini", FALSE, FALSE>>, <<"gnb_str", "", FALSE, FALSE>>, <<"nb_incr", "gaussian", FALSE, FALSE>> }

\* (the mixture model runs the same k-means code ~50 times per fit: it is covered by the big family)
HookEsts == {e \in Catalogue : e[1] \in {"kmeans", "kmeans_incr"}}
BigEsts  == {e \in Catalogue : e[3]}

SeedsOf(e) == IF e[4] THEN Seeds ELSE {7}
SeedsBigOf(e) == IF e[4] THEN SeedsBig ELSE {7}

\* ---- builder histories: the same final hyper-parameters reached through different histories of the
\* parameter object (harness: mod est_builder).  The history is part of the environment of a run.
Fresh  == <<"fresh">>
AllHists == <<"fresh", "reset", "clone", "refinal">>
BuilderEsts == {
  <<"b_countvec", "", FALSE, FALSE>>, <<"b_tfidf", "", FALSE, FALSE>>, <<"b_kmeans", "", TRUE, TRUE>>, <<"b_gmm", "", TRUE, TRUE>>,
  <<"b_svc", "", FALSE, FALSE>>, <<"b_svr", "", FALSE, FALSE>>, <<"b_tree", "", FALSE, FALSE>>, <<"b_elasticnet", "", FALSE, FALSE>>,
  <<"b_logistic", "", FALSE, FALSE>>, <<"b_mlogistic", "", FALSE, FALSE>>, <<"b_glm", "", FALSE, FALSE>>, <<"b_pls", "", FALSE, FALSE>>,
  <<"b_ftrl", "", FALSE, TRUE>>, <<"b_gnb", "", FALSE, FALSE>>, <<"b_dbscan", "", FALSE, FALSE>>, <<"b_ica", "", FALSE, TRUE>>,
  <<"b_randproj", "", FALSE, TRUE>>, <<"b_pca", "", FALSE, FALSE>>, <<"b_hier", "", FALSE, FALSE>>, <<"b_scaler", "", FALSE, FALSE>>,
  <<"b_whiten", "", FALSE, FALSE>> }
BuilderSets == IF Tier = "quick" THEN {<<40, 2, 2, 1>>, <<150, 3, 3, 2>>}
               ELSE {<<40, 2, 2, 1>>, <<150, 3, 3, 2>>, <<150, 3, 5, 3>>, <<60, 1, 2, 5>>, <<300, 4, 7, 6>>}
PlanBuilder == << <<1, 2>>, <<3, 1>> >>

MkH(fam, e, data, seed, k, plan, np, hook, hists) ==
  [kind |-> fam,
   \* (TLC configuration files have no negative literals: 2147483647 in a seed grid stands for -1)
   inp |-> [est |-> e[1], var |-> e[2], data |-> data, seed |-> IF seed = 2147483647 THEN -1 ELSE seed, k |-> k,
            minpts |-> 2, tol4 |-> 15000, depth |-> 5,
            iters |-> IF hook THEN 3 ELSE 6, runs |-> IF hook THEN 1 ELSE 2,   \* k-means budgets (hooked runs are logged row by row)
            plan |-> plan, nproc |-> np, hook |-> hook, hists |-> hists]]
Mk(fam, e, data, seed, k, plan, np, hook) == MkH(fam, e, data, seed, k, plan, np, hook, Fresh)

Init ==
  \/ \E n \in 2..MaxLatN : \E s \in LatSets(n), e \in TieSensitive, k \in {2, 3} :
        /\ k <= n
        /\ k = 2 \/ e[1] \in {"hier", "kmeans"}          \* k matters for the clusterers only
        /\ case = Mk("tie", e, Lat(s), 7, k, PlanSeq, 2, FALSE)
  \/ \E y \in FracSets, e \in FracEsts : case = Mk("frac", e, Frac(y), 7, 2, PlanSeq, 2, FALSE)
  \/ \E m \in {3, 4}, base \in UlpBases : \E off \in UlpOffs(m), e \in (IF m = 3 THEN UlpEsts3 ELSE UlpEstsAll) :
        case = Mk("ulp", e, UlpData(m, base, off), 7, 2, PlanUlp, 2, FALSE)
  \/ \E e \in Catalogue, b \in BlobSets : \E sd \in SeedsOf(e) :
        case = Mk("blob", e, Blob(b), sd, 3, IF e[3] THEN PlanFull ELSE PlanSeq, 2, FALSE)
  \/ \E e \in BuilderEsts, b \in BuilderSets : \E sd \in SeedsOf(e) :
        case = MkH("builder", e, Blob(b), sd, 3, PlanBuilder, 2, FALSE, AllHists)
  \/ \E e \in HookEsts, b \in HookSets : \E sd \in SeedsBigOf(e) :
        case = Mk("hook", e, Blob(b), sd, 3, PlanFull, 2, TRUE)
  \/ \E e \in HookEsts, b \in HookBigSets : \E sd \in SeedsBigOf(e) :
        case = Mk("hookbig", e, Blob(b), sd, 3, PlanBig, 2, TRUE)
  \/ \E e \in BigEsts, b \in BigSets : \E sd \in SeedsBigOf(e) :
        case = Mk("big", e, Blob(b), sd, 4, PlanBig, 2, FALSE)

Next == UNCHANGED case
Emit == PrintT("CASE " \o ToJson(case))
=============================================================================
