------------------------------ MODULE CdStepOps ------------------------------
(***************************************************************************)
(* X13 -- operators shared by the design model CdStep, the case generator  *)
(* Gen_CdStep and the trace specification Trace_CdStep: the problem        *)
(* record, the EXACT rational layer (X) and the FIXED-POINT layer (F) of   *)
(* one coordinate step / intercept step / duality gap of linfa-elasticnet, *)
(* and the bounded instance domains.  See CdStep.tla for the description.  *)
(***************************************************************************)
EXTENDS Fx, TLC

S == 1000000

\* ------------------------------------------------------------------ problem
NN(P) == Len(P.x)
NP(P) == Len(P.x[1])
Col(P, j) == [i \in 1..NN(P) |-> P.x[i][j]]
Nrm(P, j) == Dot(Col(P, j), Col(P, j))
SumY(P) == SumSeq(P.y)
\* centred targets as integers over the common denominator YDen
YDen(P) == IF P.icpt THEN NN(P) ELSE 1
YNum(P) == [i \in 1..NN(P) |-> IF P.icpt THEN NN(P) * P.y[i] - SumY(P) ELSE P.y[i]]
YY(P) == Dot(YNum(P), YNum(P))                      \* |yc|^2 = YY / YDen^2
MkProb(x, y, ln, ld, rn, rd, tn, td, icpt, maxit) ==
  [x |-> x, y |-> y, A1 |-> Len(x) * ln * rn, A2 |-> Len(x) * ln * (rd - rn), B |-> ld * rd,
   tn |-> tn, td |-> td, icpt |-> icpt, maxit |-> maxit]

\* ------------------------------------------------------------------ (X) exact rationals
RECURSIVE Gcd(_, _)
Gcd(a, b) == IF b = 0 THEN a ELSE Gcd(b, a % b)
QN(n, d) == IF n = 0 THEN <<0, 1>> ELSE LET g == Gcd(Abs(n), d) IN <<n \div g, d \div g>>
QI(v) == <<v, 1>>
QNeg(a) == <<-a[1], a[2]>>
QAbs(a) == <<Abs(a[1]), a[2]>>
QAdd(a, b) == LET g == Gcd(a[2], b[2]) IN QN(a[1] * (b[2] \div g) + b[1] * (a[2] \div g), (a[2] \div g) * b[2])
QSub(a, b) == QAdd(a, QNeg(b))
QMul(a, b) ==
  IF a[1] = 0 \/ b[1] = 0 THEN <<0, 1>>
  ELSE LET g1 == Gcd(Abs(a[1]), b[2])  g2 == Gcd(Abs(b[1]), a[2])
       IN <<(a[1] \div g1) * (b[1] \div g2), (a[2] \div g2) * (b[2] \div g1)>>
QInv(a) == IF a[1] > 0 THEN <<a[2], a[1]>> ELSE <<-a[2], -a[1]>>          \* a /= 0
QDiv(a, b) == QMul(a, QInv(b))
QHalf(a) == QMul(a, <<1, 2>>)
\* comparisons through the sign of the reduced difference (cross-multiplication overflows much earlier)
QLe(a, b) == QSub(b, a)[1] >= 0
QLt(a, b) == QSub(b, a)[1] > 0
QMax(a, b) == IF QLe(a, b) THEN b ELSE a
RECURSIVE QSum(_)
QSum(s) == IF s = <<>> THEN <<0, 1>> ELSE QAdd(Head(s), QSum(Tail(s)))
QDotI(iv, qs) == QSum([i \in 1..Len(iv) |-> QMul(QI(iv[i]), qs[i])])   \* integer vector . rational vector
QDot(a, b) == QSum([i \in 1..Len(a) |-> QMul(a[i], b[i])])
RECURSIVE QMaxAbs(_)
QMaxAbs(s) == IF s = <<>> THEN <<0, 1>> ELSE QMax(QAbs(Head(s)), QMaxAbs(Tail(s)))
\* floor(q * 10^6) for denominators below 2 * 10^6
QFx(q) == LET ip == q[1] \div q[2]  rm == q[1] % q[2]
              t1 == rm * 1000  d1 == t1 \div q[2]  r1 == t1 % q[2]  d0 == (r1 * 1000) \div q[2]
          IN ip * S + d1 * 1000 + d0

XL1(P) == QN(P.A1, P.B)
XL2(P) == QN(P.A2, P.B)
XTol(P) == QN(P.tn, P.td)
XGapTol(P) == QN(P.tn * YY(P), P.td * YDen(P) * YDen(P))
XYc(P) == [i \in 1..NN(P) |-> QN(YNum(P)[i], YDen(P))]
XInit(P) == [w |-> [j \in 1..NP(P) |-> <<0, 1>>], r |-> XYc(P), b |-> <<0, 1>>]
XSoft(t, l1) == IF QLt(l1, t) THEN QSub(t, l1) ELSE IF QLt(t, QNeg(l1)) THEN QAdd(t, l1) ELSE <<0, 1>>
XCorr(P, st, j) == QAdd(QDotI(Col(P, j), st.r), QMul(QI(Nrm(P, j)), st.w[j]))
XNew(P, st, j) == QDiv(XSoft(XCorr(P, st, j), XL1(P)), QAdd(QI(Nrm(P, j)), XL2(P)))
XCoord(P, st, j) ==
  IF Nrm(P, j) = 0 THEN st
  ELSE LET nw == XNew(P, st, j)  d == QSub(st.w[j], nw) IN
       [w |-> [st.w EXCEPT ![j] = nw],
        r |-> [i \in 1..NN(P) |-> QAdd(st.r[i], QMul(QI(P.x[i][j]), d))],
        b |-> st.b]
XIcpt(P, st) ==
  IF ~P.icpt THEN st
  ELSE LET m == QDiv(QSum(st.r), QI(NN(P))) IN
       [w |-> st.w, r |-> [i \in 1..NN(P) |-> QSub(st.r[i], m)], b |-> QAdd(st.b, m)]
XObj(P, w, r) ==
  QAdd(QHalf(QDot(r, r)),
       QAdd(QMul(XL1(P), QSum([j \in 1..Len(w) |-> QAbs(w[j])])), QHalf(QMul(XL2(P), QDot(w, w)))))
\* residual of an arbitrary coefficient vector (with the optimal intercept when one is fitted)
XResid(P, w) ==
  LET e == [i \in 1..NN(P) |-> QSub(XYc(P)[i], QDotI(P.x[i], w))]
      m == IF P.icpt THEN QDiv(QSum(e), QI(NN(P))) ELSE <<0, 1>>
  IN [i \in 1..NN(P) |-> QSub(e[i], m)]
\* the duality gap exactly as duality_gap() computes it
XGap(P, w, r) ==
  LET l1 == XL1(P)  l2 == XL2(P)
      xta == [j \in 1..NP(P) |-> QSub(QDotI(Col(P, j), r), QMul(l2, w[j]))]
      dual == QMaxAbs(xta)
      r2 == QDot(r, r)  w2 == QDot(w, w)  ry == QDot(r, XYc(P))
      l1w == QMul(l1, QSum([j \in 1..NP(P) |-> QAbs(w[j])]))
  IN IF QLt(l1, dual)
     THEN LET cc == QDiv(l1, dual)  c2 == QMul(cc, cc) IN
          QAdd(QHalf(QAdd(r2, QMul(r2, c2))),
               QAdd(QSub(l1w, QMul(cc, ry)), QHalf(QMul(l2, QMul(QAdd(<<1, 1>>, c2), w2)))))
     ELSE QAdd(r2, QAdd(QSub(l1w, ry), QMul(l2, w2)))

\* ------------------------------------------------------------------ (F) fixed point, scale S = 10^6
\* a*b/10^6 for |a|, |b| <= 4*10^7 (base-1000 limbs), error < 2 units
Mul6(a, b) ==
  LET aa == Abs(a)  bb == Abs(b)
      a1 == aa \div 1000  a0 == aa % 1000  b1 == bb \div 1000  b0 == bb % 1000
  IN Sgn(a) * Sgn(b) * (a1 * b1 + (a1 * b0 + a0 * b1) \div 1000 + (a0 * b0) \div 1000000)
\* a * num / den for a >= 0, 0 <= num <= den < 2.6*10^8 (base-8 expansion of the fraction), error < k units
RECURSIVE MulQ(_, _, _, _)
MulQ(a, num, den, k) ==
  IF k = 0 \/ num = 0 \/ a = 0 THEN 0
  ELSE IF num = den THEN a
  ELSE LET t == num * 8  d == t \div den  rm == t % den IN (a * d) \div 8 + MulQ(a \div 8, rm, den, k - 1)
\* sign-symmetric a*b/c (truncation towards zero), b, c > 0
SMulDiv(a, b, c) == Sgn(a) * MulDiv(Abs(a), b, c)

FYc(P) == [i \in 1..NN(P) |-> RoundDiv(YNum(P)[i] * S, YDen(P))]
FL1(P) == P.A1 * (S \div P.B)                       \* exact: B divides 10^6 (dyadic penalties)
FGapTol(P) == MulDiv(S, P.tn * YY(P), P.td * YDen(P) * YDen(P))
FInit(P) == [w |-> [j \in 1..NP(P) |-> 0], r |-> FYc(P), b |-> 0]
FSoft(t, l1) == IF t > l1 THEN t - l1 ELSE IF t < -l1 THEN t + l1 ELSE 0
FCorr(P, st, j) == Dot(Col(P, j), st.r) + Nrm(P, j) * st.w[j]
FNew(P, st, j) == SMulDiv(FSoft(FCorr(P, st, j), FL1(P)), P.B, Nrm(P, j) * P.B + P.A2)
FCoord(P, st, j) ==
  IF Nrm(P, j) = 0 THEN st
  ELSE LET nw == FNew(P, st, j) IN
       [w |-> [st.w EXCEPT ![j] = nw],
        r |-> [i \in 1..NN(P) |-> st.r[i] + P.x[i][j] * (st.w[j] - nw)],
        b |-> st.b]
FMean(P, st) == RoundDiv(SumSeq(st.r), NN(P))
FIcpt(P, st) ==
  IF ~P.icpt THEN st
  ELSE LET m == FMean(P, st) IN [w |-> st.w, r |-> [i \in 1..NN(P) |-> st.r[i] - m], b |-> st.b + m]
\* The coded gap has two branches (dual norm of X'r - l2n w above the l1 weight or not).  They agree at the switch when
\* l1n > 0, but not when l1n = 0 (no l1 part: the first branch gives the primal objective, the second one
\* r.r - r.y + l2n w.w, which is 0 at the exact ridge minimiser).  A dual norm within DualSlack of the switch is a
\* tie: both branch values are admissible.
DualSlack == 2000
FGapBr(P, w, r, dual, first) ==
  LET r2 == SumSeq([i \in 1..NN(P) |-> Mul6(r[i], r[i])])
      w2 == SumSeq([q \in 1..NP(P) |-> Mul6(w[q], w[q])])
      ry == SumSeq([i \in 1..NN(P) |-> Mul6(r[i], FYc(P)[i])])
      l1w == MulDiv(SumSeq([q \in 1..NP(P) |-> Abs(w[q])]), P.A1, P.B)
      l1 == Min2(FL1(P), dual)
  IN IF first
     THEN LET r2cc == MulQ(MulQ(r2, l1, dual, 10), l1, dual, 10)
              w2cc == MulQ(MulQ(w2, l1, dual, 10), l1, dual, 10)
              ryc == Sgn(ry) * MulQ(Abs(ry), l1, dual, 10)
          IN (r2 + r2cc) \div 2 + l1w - ryc + MulDiv(w2 + w2cc, P.A2, 2 * P.B)
     ELSE r2 + l1w - ry + MulDiv(w2, P.A2, P.B)
FDual(P, w, r) == MaxSeq([q \in 1..NP(P) |-> Abs(Dot(Col(P, q), r) - SMulDiv(w[q], P.A2, P.B))])
FGaps(P, w, r) ==
  LET dual == FDual(P, w, r)  first == dual > FL1(P) IN
  {FGapBr(P, w, r, dual, first)} \cup
    (IF Abs(dual - FL1(P)) <= DualSlack THEN {FGapBr(P, w, r, dual, ~first)} ELSE {})
\* the exact integer identity of the fixed-point residual
FResidOk(P, st) == \A i \in 1..NN(P) : st.r[i] = FYc(P)[i] - Dot(P.x[i], st.w) - st.b

\* ------------------------------------------------------------------ instance domains (tiny instances)
Cols(n) == IF n = 2 THEN {<<0, 0>>, <<1, 1>>, <<1, -1>>, <<1, 2>>}
           ELSE {<<0, 0, 0>>, <<1, 1, 1>>, <<1, 0, -1>>, <<1, 1, 2>>, <<2, -1, 0>>}
Ys(n) == IF n = 2 THEN {<<1, 2>>, <<0, 0>>, <<2, -1>>} ELSE {<<1, 2, -1>>, <<0, 0, 0>>, <<2, 0, 1>>, <<1, 1, 1>>}
Pens == {<<0, 1>>, <<1, 2>>, <<2, 1>>}
Rhos == {<<0, 1>>, <<1, 2>>, <<1, 1>>}
Tols == {<<1, 10>>, <<1, 1000>>}
PenRho == {pr \in Pens \X Rhos : pr[1][1] > 0 \/ pr[2] = <<1, 2>>}      \* penalty 0: the ratio is irrelevant
HashX(xx) == SumSeq([i \in 1..Len(xx) |-> SumSeq([q \in 1..Len(xx[i]) |-> (31 * i + 17 * q + 7) * (xx[i][q] + 9)])])
HashY(yy) == SumSeq([i \in 1..Len(yy) |-> (13 * i + 5) * (yy[i] + 7)])
InstHash(xx, yy, pr, tl, ic, mi) ==
  HashX(xx) + HashY(yy) + 101 * pr[1][1] + 37 * pr[1][2] + 59 * pr[2][1] + 23 * pr[2][2] + 7 * tl[2]
    + (IF ic THEN 3 ELSE 0) + 11 * mi
=============================================================================
