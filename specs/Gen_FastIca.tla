---------------------------- MODULE Gen_FastIca ----------------------------
(***************************************************************************************************)
(* Case generator for X04 (FastICA).  Every initial state is one case [kind, inp]; all cases have  *)
(* the same fields:                                                                                *)
(*   X (n x p integers), p, k (ncomponents, 0 = not set), g / am (G function, logcosh alpha in     *)
(*   1/1000), seeds (one fit per seed), mi (max_iter, -1 = default), te (tol = 10^-te, 0 = default)*)
(*   Z (unseen rows), and for mixtures s1, s2 (value lists of the two sources), A, off, ord.       *)
(* Kinds                                                                                           *)
(*   gen   : full-rank integer matrices without structure -- every non-constant column over        *)
(*           {0,1,3} (n = 2..4), matrices with rows in {-1,0,2}^2 (n = 3..N2Max, hash samples),    *)
(*           their offset / badly scaled images, and three-column matrices; every k in 0..p; the   *)
(*           G function, seed, max_iter in {default, 0, 1, 3} and tol in {default, 1e-2, 1e-9}     *)
(*           are derived from a hash of the case so that all combinations occur                    *)
(*   mix   : X = (s1 x s2 product lattice) A^T + off for every unordered pair of nine symmetric    *)
(*           sub-Gaussian lattice sources x five G settings x {default, tight} stopping rule; the  *)
(*           mixing matrix (six well-conditioned ones), offset, sample order and the five seeds    *)
(*           are derived from the hash                                                             *)
(*   xmix  : mixtures with skewed / spiky sources and a source with zero excess kurtosis (outside   *)
(*           the separation domain: structural clauses only, NotConverged allowed)                 *)
(*   bad   : ncomponents > p and / or logcosh alpha outside [1, 2] on full-rank, zero, rank-one,   *)
(*           single-row and one-column data with max_iter in {default, 0, 1, 200}                  *)
(*   empty : 0 x p data                                                                            *)
(***************************************************************************************************)
EXTENDS Integers, Sequences, FiniteSets, TLC, Json

CONSTANTS N2Max,      \* largest n of the two-column matrices
          Thin1,      \* keep 1 / Thin1 of the one-column matrices
          Thin2,      \* keep 1 / Thin2 (n = 3), 1 / (9 Thin2) (n = 4), 1 / (81 Thin2) (n = 5) of the two-column ones
          ThinMix,    \* keep 1 / ThinMix of the (pair, g, stopping rule, variant) mixture cases
          MixVar      \* mixing-matrix variants per (pair, g, stopping rule)

VARIABLE case

LOCAL F == INSTANCE FastIca WITH NCat <- 0, NMix <- 0, pc <- "", i1 <- 0, i2 <- 0, A <- <<>>, off <- <<>>,
                                 perm <- <<>>, sg <- <<>>, par <- <<>>, mean <- <<>>, W <- <<>>, Y <- <<>>, r <- 0

RECURSIVE SumQ(_)
SumQ(s) == IF s = <<>> THEN 0 ELSE Head(s) + SumQ(Tail(s))
\* content hash of a matrix
Hash(X) == SumQ([i \in 1..Len(X) |-> SumQ([j \in 1..Len(X[i]) |-> (7 * i + 3 * j + 1) * ((X[i][j] % 1000) + 5)])])

\* decorrelated pseudo-random choice in 0..(m - 1) from a hash h and a salt
Pick(h, salt, m) == ((((h % 10000) * 7919 + salt * 104729) % 10007) \div 7) % m

GSet == << <<"logcosh", 1000>>, <<"logcosh", 1500>>, <<"logcosh", 2000>>, <<"exp", 0>>, <<"cube", 0>> >>
MiSet == <<-1, 0, 1, -1, 3, -1>>
TeSet == <<0, 9, 0, 2>>
\* two unseen rows next to the data (the first row moved by (1,-1,2), the last one by (-2,1,1))
ZFor(X, p) == IF X = <<>> THEN <<>>
              ELSE << [j \in 1..p |-> X[1][j] + <<1, -1, 2>>[j]], [j \in 1..p |-> X[Len(X)][j] + <<-2, 1, 1>>[j]] >>

NoMix == [s1 |-> <<>>, s2 |-> <<>>, A |-> <<>>, off |-> <<>>, ord |-> ""]
Mk(kind, X, p, k, g, seeds, mi, te, Z, mx) ==
  [kind |-> kind,
   inp |-> [X |-> X, p |-> p, k |-> k, g |-> g[1], am |-> g[2], seeds |-> seeds, mi |-> mi, te |-> te, Z |-> Z,
            s1 |-> mx.s1, s2 |-> mx.s2, A |-> mx.A, off |-> mx.off, ord |-> mx.ord]]

\* an unstructured case: everything but X and k is derived from the hash h
GenCase(X, p, k, h) ==
  Mk("gen", X, p, k, GSet[Pick(h, 1, 5) + 1], <<Pick(h, 2, 50)>>, MiSet[Pick(h, 3, 6) + 1], TeSet[Pick(h, 4, 4) + 1], ZFor(X, p), NoMix)

Vals1 == {0, 1, 3}
Rows2 == {<<a, b>> : a \in {-1, 0, 2}, b \in {-1, 0, 2}}
Keep2(n, h) == h % (IF n = 3 THEN Thin2 ELSE IF n = 4 THEN 9 * Thin2 ELSE 81 * Thin2) = 0
\* offset / badly scaled image of a two-column matrix
Skew(X) == [i \in 1..Len(X) |-> <<X[i][1] + 1000, 20 * X[i][2] - 500>>]
Mats3 == { << <<0, 0, 0>>, <<1, 0, 0>>, <<0, 1, 0>>, <<0, 0, 1>> >>,
           << <<0, 0, 0>>, <<1, 0, 2>>, <<0, 1, 0>>, <<0, 0, 1>>, <<1, 1, 1>> >>,
           << <<-1, 2, 0>>, <<1, 0, 3>>, <<0, 1, -2>>, <<2, 2, 1>>, <<1, -1, 1>>, <<0, 0, 5>> >>,
           << <<1, 1, 0>>, <<1, -1, 0>>, <<-1, 1, 1>>, <<-1, -1, 1>>, <<1, 1, 2>>, <<1, -1, 2>>, <<-1, 1, 3>>, <<-1, -1, 4>> >>,
           << <<100, 3, -7>>, <<101, 3, -5>>, <<100, 4, -7>>, <<103, 5, -4>>, <<102, 3, -7>>, <<100, 6, -6>>, <<104, 4, -5>> >> }

\* --- mixtures of two independent lattice sources -------------------------------------------------
SCat == << <<-1, 1>>, <<0, 2>>, <<-1, 0, 1>>, <<-3, -1, 1, 3>>, <<-2, -1, 0, 1, 2>>, <<0, 1, 2, 3, 4, 5>>,
           <<-3, -2, -1, 0, 1, 2, 3>>, <<-2, -1, -1, 0, 0, 0, 1, 1, 2>>, <<-7, -1, 1, 7>> >>
MixAs == << <<<<1, 1>>, <<1, 2>>>>, <<<<1, -1>>, <<1, 1>>>>, <<<<3, 1>>, <<1, 2>>>>, <<<<2, 1>>, <<-1, 1>>>>,
            <<<<2, -1>>, <<1, 3>>>>, <<<<1, 0>>, <<0, 1>>>> >>
MixOffs == << <<0, 0>>, <<5, -3>>, <<1000, -200>> >>
Ords == <<"lex", "rev", "col">>
Stops == << <<-1, 0>>, <<2000, 9>> >>        \* (max_iter, te): the defaults, and a tight stopping rule

MixInit ==
  \E a \in 1..Len(SCat) : \E b \in a..Len(SCat) : \E gi \in 1..5 : \E st \in 1..2 : \E v \in 0..(MixVar - 1) :
    LET h   == 7 * a + 13 * b + 3 * gi + 5 * st + 11 * v
        AA  == MixAs[((Pick(h, 5, 6) + 3 * v) % 6) + 1]
        oo  == MixOffs[Pick(h, 6, 3) + 1]
        ord == Ords[Pick(h, 7, 3) + 1]
        S   == F!SrcRows(SCat[a], SCat[b], ord)
        X   == F!MixRows(S, AA, oo)
    IN /\ Pick(h, 9, ThinMix) = 0
       /\ case = Mk("mix", X, 2, IF Pick(h, 8, 2) = 0 THEN 2 ELSE 0, GSet[gi], [q \in 1..5 |-> 3 * h + q], Stops[st][1], Stops[st][2],
                    ZFor(X, 2), [s1 |-> SCat[a], s2 |-> SCat[b], A |-> AA, off |-> oo, ord |-> ord])

\* mixtures outside the separation domain (skewed, spiky, and a source with zero excess kurtosis, which the cube
\* contrast cannot see): only the structural clauses apply; the fit may also end with the NotConverged error
ECat == << <<-4, 1, 1, 1, 1>>, <<-2, 0, 0, 0, 0, 0, 0, 2>>, <<-3, 0, 0, 0, 0, 3>>, <<-1, -1, 2>> >>
XMixInit ==
  \E a \in 1..(Len(ECat) + 3) : \E b \in 1..Len(ECat) : \E gi \in 1..5 :
    LET sa  == IF a <= Len(ECat) THEN ECat[a] ELSE SCat[2 * (a - Len(ECat)) - 1]      \* + the sources 1, 3, 5 of SCat
        h   == 17 * a + 29 * b + 3 * gi
        AA  == MixAs[Pick(h, 5, 6) + 1]
        oo  == MixOffs[Pick(h, 6, 3) + 1]
        ord == Ords[Pick(h, 7, 3) + 1]
        X   == F!MixRows(F!SrcRows(sa, ECat[b], ord), AA, oo)
    IN /\ (a > Len(ECat) \/ a <= b)
       /\ case = Mk("xmix", X, 2, 2, GSet[gi], <<h, h + 1>>, -1, 0, ZFor(X, 2),
                    [s1 |-> sa, s2 |-> ECat[b], A |-> AA, off |-> oo, ord |-> ord])

\* --- invalid parameters ---------------------------------------------------------------------------
BadXs == << << <<0, 0>>, <<1, 0>>, <<0, 1>>, <<2, 3>> >>,      \* full rank
            << <<0, 0>>, <<0, 0>>, <<0, 0>> >>,                \* zero
            << <<0, 0>>, <<1, 2>>, <<2, 4>> >>,                \* rank one
            << <<1, 2>> >>,                                    \* a single row
            << <<0>>, <<1>>, <<3>> >> >>                        \* one column
BadAlphas == {999, 2001, 0, -1000, 500, 3000}
BadInit ==
  \E xi \in 1..Len(BadXs) : \E mi \in {-1, 0, 1, 200} :
    LET X == BadXs[xi]
        p == Len(X[1])
    IN \/ \E dk \in {1, 3} : \E gi \in 1..5 :
            case = Mk("bad", X, p, p + dk, GSet[gi], <<xi + gi>>, mi, 0, ZFor(X, p), NoMix)
       \/ \E am \in BadAlphas : \E k \in {0, p} :
            case = Mk("bad", X, p, k, <<"logcosh", am>>, <<xi + k>>, mi, 0, ZFor(X, p), NoMix)
       \/ case = Mk("bad", X, p, p + 1, <<"logcosh", 2500>>, <<xi>>, mi, 0, ZFor(X, p), NoMix)

Init ==
  \/ \E n \in 2..4 : \E col \in [1..n -> Vals1] : \E k \in 0..1 :
       LET X == [i \in 1..n |-> <<col[i]>>]
           h == Hash(X) + 11 * k
       IN /\ F!FullRank(X, 1) /\ h % Thin1 = 0
          /\ case = GenCase(X, 1, k, h)
  \/ \E gi \in 1..5 :                        \* one column with zero excess kurtosis (invisible to the cube contrast)
       LET X == << <<-3>>, <<0>>, <<0>>, <<0>>, <<0>>, <<3>> >> IN
       case = Mk("gen", X, 1, 0, GSet[gi], <<gi, gi + 1>>, -1, 0, ZFor(X, 1), NoMix)
  \/ \E n \in 3..N2Max : \E X \in [1..n -> Rows2] : \E k \in 0..2 : \E sk \in {0, 1} :
       LET h == Hash(X) + 11 * k + 5 * sk IN
       /\ Keep2(n, h) /\ F!FullRank(X, 2)
       /\ case = GenCase(IF sk = 1 THEN Skew(X) ELSE X, 2, k, h)
  \/ \E X \in Mats3 : \E k \in 0..3 : \E v \in 0..2 :
       /\ F!FullRank(X, 3)
       /\ case = GenCase(X, 3, k, Hash(X) + 7 * k + v)
  \/ MixInit
  \/ XMixInit
  \/ BadInit
  \/ \E p \in 1..3 : \E gi \in 1..5 :
       case = Mk("empty", <<>>, p, 0, GSet[gi], <<gi>>, -1, 0, <<>>, NoMix)

Next == UNCHANGED case
Emit == PrintT("CASE " \o ToJson(case))
=============================================================================
