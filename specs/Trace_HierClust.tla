-------------------------- MODULE Trace_HierClust --------------------------
(***************************************************************************)
(* C06 trace validation, clustering half.  A case = one kernel (Gaussian   *)
(* kernel of lattice points built through the real API, or a dense         *)
(* similarity matrix exp(-dk/qd) assembled directly), one linkage method   *)
(* and a list of stop criteria.  Event "base" ties the kernel to the       *)
(* rational dissimilarities G of the specification; every "clust" event    *)
(* carries the labels returned for one criterion / calling form / float    *)
(* type.  The labels are explained iff the Merge / Stop operators of the   *)
(* design model HierClust can drive the partition from singletons to       *)
(* exactly the returned partition (TLC searches over every resolution of   *)
(* ties).  Where the linkage arithmetic cannot be replayed exactly         *)
(* (average / weighted with floored entries) the weaker relation WeakDist   *)
(* -- an invariant of the design model -- is required; for Ward, centroid  *)
(* and median linkage only the partition and count clauses.                *)
(***************************************************************************)
EXTENDS HierClust, Elem, C06BuilderOps, TraceIO

CONSTANT Devs      \* named deviations (known findings)

VARIABLES c, e

Case == Rec[c]
In   == Case.inp
Ev   == Case.ev[e]

-----------------------------------------------------------------------------
(* the dissimilarity data of the case.  Records are lattice points In.pts divided by In.pd.                  *)
(*  "pts" + Gaussian kernel : dissimilarity |x-y|^2/eps = L2sq ed / (en pd^2)            -- a rational, kind "lin" *)
(*  "expmat"                : dissimilarity dk/qd                                        -- a rational, kind "lin" *)
(*  "pts" + linear / polynomial kernel : similarity a/q with a = <x,y> or (<x,y> + c pd^2)^d, q = pd^2 or pd^2d    *)
(*                            -- only the order of -ln(similarity) is exact: kind "sim", key -a; a <= 0 is floored *)
L2sqT(p, q) == SumSeq([d \in 1..Len(p) |-> (p[d] - q[d]) * (p[d] - q[d])])
RECURSIVE IPowT(_, _)
IPowT(b, d) == IF d = 0 THEN 1 ELSE b * IPowT(b, d - 1)
IsSim == In.src = "pts" /\ In.meth.name \in {"linear", "poly"}
NN == IF In.src = "pts" THEN Len(In.pts) ELSE Len(In.dk)
SimNum(x, y) == IF In.meth.name = "linear" THEN Dot(x, y) ELSE IPowT(Dot(x, y) + In.meth.c * In.pd * In.pd, In.meth.d)
SimDen == IF In.meth.name = "linear" THEN In.pd * In.pd ELSE IPowT(In.pd, 2 * In.meth.d)
Den == IF IsSim THEN 1 ELSE IF In.src = "pts" THEN In.meth.en * In.pd * In.pd ELSE In.qd
Num == IF IsSim THEN [i \in 1..NN |-> [j \in 1..NN |-> -SimNum(In.pts[i], In.pts[j])]]
       ELSE IF In.src = "pts"
         THEN [i \in 1..NN |-> [j \in 1..NN |-> L2sqT(In.pts[i], In.pts[j]) * In.meth.ed]]
         ELSE In.dk
CaseG == LET nm == Num  dn == Den  n == NN IN
         IF IsSim
           THEN [n |-> n, num |-> nm, den |-> 1, kind |-> "sim", q |-> SimDen, flv |-> 0,
                 fl |-> [i \in 1..n |-> [j \in 1..n |-> nm[i][j] >= 0]]]          \* similarity <= 0 (< 1e-6): floored
           ELSE [n |-> n, num |-> nm, den |-> dn, kind |-> "lin", q |-> 1,
                 flv |-> (138155 * dn + 9999) \div 10000,
                 fl |-> [i \in 1..n |-> [j \in 1..n |-> nm[i][j] * 10 > 138 * dn]]]
\* the case keeps every quantity away from the floor 13.8155 (else rounding could decide): checked, not assumed
SafeCrit(g, cr) ==
  CASE cr.t = "dist"  -> IF g.kind = "lin" THEN ~(cr.tn * 10 > 135 * cr.td /\ cr.tn * 10 < 141 * cr.td) /\ cr.tn >= 0 /\ cr.td > 0
                         ELSE cr.td > 0 /\ (cr.tn = 0 \/ cr.tn * 10 >= 141 * cr.td)
    [] cr.t = "lnrat" -> g.kind = "sim" /\ cr.tn > 0 /\ cr.tn <= cr.td /\ cr.tn * 128 >= cr.td
    [] OTHER -> TRUE
SafeCase(g) ==
  /\ g.kind = "lin" => \A i, j \in 1..g.n : ~(g.num[i][j] * 10 > 135 * g.den /\ g.num[i][j] * 10 < 141 * g.den)
  /\ g.kind = "sim" => g.q <= 4096
  /\ In.off = 0 \/ (In.src = "pts" /\ In.meth.name = "gauss")     \* shifted records only for the shift-invariant kernel
  /\ \A q \in 1..Len(In.crits) : SafeCrit(g, In.crits[q])
HasFloor(g) == \E i, j \in 1..g.n : i # j /\ g.fl[i][j]
ModeOf(g) == IF In.link \in {"single", "complete"} THEN "exact"
             ELSE IF In.link \in {"average", "weighted"}
                    THEN (IF g.kind = "lin" /\ ~HasFloor(g) /\ (In.link = "weighted" => g.n <= 7) THEN "exact" ELSE "weak")
             ELSE "count"

TraceInit ==
  /\ c \in 1..Len(Rec) /\ e = 1
  \* the design-model variables are not used during trace validation
  /\ G = 0 /\ link = "" /\ crit = 0 /\ pc = "trace" /\ hts = <<>> /\ cl = {} /\ wt = <<>>

-----------------------------------------------------------------------------
UTIdx(n) == [p \in 1..((n * (n - 1)) \div 2) |->
               CHOOSE ij \in (1..n) \X (1..n) :
                  ij[1] < ij[2] /\ p = SumSeq([r \in 1..(ij[1] - 1) |-> n - r]) + (ij[2] - ij[1])]

\* "base": the upper triangle handed to the linkage routine holds the similarities of the case at scale 10^4:
\* kind "lin": exp(-num/den), exp from the self-checked table module Elem (error 2) + argument and observation
\* rounding (2); kind "sim": exactly -num/q
BaseBad(o) ==
  LET g == CaseG IN
  IF ~SafeCase(g) THEN {"unsafe-case"}
  ELSE IF o.size # g.n \/ Len(o.ut) # (g.n * (g.n - 1)) \div 2 THEN {"size"}
  ELSE IF o.bad # 0 THEN {"non-finite-value"}
  ELSE LET ix == UTIdx(g.n) IN
       IF \A p \in 1..Len(o.ut) :
             LET v == g.num[ix[p][1]][ix[p][2]] IN
             /\ IF g.kind = "lin"
                  THEN /\ CloseI(o.ut[p], ExpNeg(RoundDiv(v * ES, g.den)), ElemErr + 2)
                       /\ (v = 0) => o.ut[p] = 10000
                  ELSE Abs(o.ut[p] * g.q + v * 10000) <= g.q
       THEN {} ELSE {"similarity"}

-----------------------------------------------------------------------------
(* "clust": the returned labels are explained iff Merge steps of the design model (restricted to merges inside *)
(* one returned cluster) lead from the singletons to exactly the returned partition, where Stop is allowed.   *)
RECURSIVE CanReach(_, _, _, _, _, _)
CanReach(g, lk, cr, P, part, w) ==
  IF part = P THEN CanStop(g, lk, cr, w, part)
  ELSE \E ch \in MergeChoices(g, lk, cr, w, part) :
          /\ \E A \in P : (ch[1][1] \cup ch[1][2]) \subseteq A
          /\ CanReach(g, lk, cr, P, JoinCl(part, ch[1][1], ch[1][2]), JoinWt(lk, w, ch[1][1], ch[1][2]))

PartOf(labels, n) == {{i \in 1..n : labels[i] = l} : l \in {labels[i] : i \in 1..n}}
SamePart(a, b, n) == \A i, j \in 1..n : (a[i] = a[j]) <=> (b[i] = b[j])

\* Builder histories: an event with hi > 0 was produced by HierarchicalCluster::default() followed by the setter
\* calls In.hists[hi].ops; by the builder model (C06Builder) they end in (In.link, In.crits[ci]) -- checked here --
\* so the labels must satisfy the same relation as the directly configured call.
HDefault == [link |-> "average", crit |-> [t |-> "num", c |-> 2, tn |-> 0, td |-> 1]]
HOps(h) == [q \in 1..Len(h) |-> [f |-> h[q].f, v |-> IF h[q].f = "link" THEN h[q].link ELSE h[q].crit]]
HistOK(o) ==
  o.hi = 0 \/ (/\ o.hi \in 1..Len(In.hists)
               /\ In.hists[o.hi].ci = o.ci
               /\ o.ci \in 1..Len(In.crits)
               /\ FoldOps(HDefault, HOps(In.hists[o.hi].ops)) = [link |-> In.link, crit |-> In.crits[o.ci]])

ClustBad(o) ==
  LET g == CaseG IN
  IF ~HistOK(o) THEN {"unsafe-history"}
  ELSE IF ~(o.ok /\ o.size = g.n /\ Len(o.labels) = g.n /\ o.ci \in 1..Len(In.crits)) THEN {"not-a-labelling"}
  \* same criterion and same partition as the previous, already explained, event
  ELSE IF e > 1 /\ Case.ev[e - 1].ev = "clust" /\ Case.ev[e - 1].ci = o.ci /\ SamePart(o.labels, Case.ev[e - 1].labels, g.n) THEN {}
  ELSE LET cr == In.crits[o.ci]
           P == PartOf(o.labels, g.n)
           mode == ModeOf(g)
       IN IF ~CountOK(g, cr, P) THEN {"cluster-count"}
          ELSE IF mode = "exact"
                 THEN (IF CanReach(g, In.link, cr, P, Singletons(g), InitWt(g, In.link)) THEN {} ELSE {"no-merge-sequence"})
          ELSE IF mode = "weak" /\ cr.t \in {"dist", "lnrat", "floor"}
                 THEN (IF WeakDist(g, cr, P) THEN {} ELSE {"threshold-clusters"})
          ELSE {}

EvBad == IF Ev.ev = "base" THEN BaseBad(Ev)
         ELSE IF Ev.ev = "clust" THEN ClustBad(Ev)
         ELSE IF Ev.ev = "end" /\ e = Len(Case.ev) THEN {}
         ELSE {"unexplained"}

\* one step per event: explained -> next event (the last one prints OK), otherwise FAIL and the case ends rejected
TStep ==
  /\ e <= Len(Case.ev)
  /\ LET bad == EvBad IN
       IF bad = {}
         THEN /\ (e = Len(Case.ev) => (Ev.ev = "end" /\ Ok(Case.id)))
              /\ e' = e + 1
         ELSE /\ Fail(Case.id, IF Ev.ev = "clust" THEN <<e, In.link, Ev.ci, Ev.ft, CHOOSE b \in bad : TRUE>> ELSE <<e, Ev.ev, CHOOSE b \in bad : TRUE>>)
              /\ e' = Len(Case.ev) + 2
  /\ UNCHANGED <<c, hvars>>

TraceNext == TStep
=============================================================================
