------------------------------- MODULE CdStep -------------------------------
(***************************************************************************)
(* X13 -- the cyclic coordinate descent of linfa-elasticnet                *)
(* (algorithms/linfa-elasticnet/src/algorithm.rs,                          *)
(*  coordinate_descent_with_intercept + duality_gap) as a state machine.   *)
(*                                                                         *)
(* Problem P (a record): integer design x (n rows, p columns), integer     *)
(* targets y, penalties l1n = n*penalty*l1_ratio = A1/B and                *)
(* l2n = n*penalty*(1-l1_ratio) = A2/B (dyadic), tolerance tn/td, intercept *)
(* flag, sweep budget maxit.  The solver minimises                          *)
(*     F(w,b) = 1/2 |yc - X w - b|^2 + l1n |w|_1 + l2n/2 |w|^2             *)
(* (yc = y, centred when an intercept is fitted; b = intercept shift).     *)
(*                                                                         *)
(* One sweep = for j = 1..p (columns of zero norm are skipped)             *)
(*        corr = x_j . (r + x_j w_j)                                       *)
(*        w_j' = S(corr, l1n) / (|x_j|^2 + l2n)     (soft threshold S)     *)
(*        r'   = r + x_j (w_j - w_j')               (incremental residual) *)
(*   then, with an intercept, the mean of r moves into b; then the stop    *)
(*   logic: k := k + 1; pre-check  k = LastCheck \/ w_max = 0 \/           *)
(*   d_w_max / w_max < tol ; if it fires the duality gap is computed and   *)
(*   the run stops when gap < tol * |yc|^2 ; the run also stops when       *)
(*   k = maxit.  LastCheck = maxit - 1 in the code as it is ("coded"),     *)
(*   maxit in the corrected rule (the gap that is published is the gap of  *)
(*   the published coefficients: InvFresh).                                *)
(*                                                                         *)
(* Two arithmetic layers advance in lockstep in the design model:          *)
(*  (X) EXACT rationals <<num, den>> (reduced; TLC's 32-bit integers bound *)
(*      the instances to tiny ones: an overflow is a TLC error, never a    *)
(*      verdict) -- the invariants of the method are stated on this layer; *)
(*  (F) FIXED POINT integers at scale 10^6 -- the layer Trace_CdStep uses  *)
(*      to replay recorded runs of any length; InvTrack shows on every     *)
(*      reachable state of the tiny instances that (F) follows (X) within  *)
(*      the slack the trace specification allows.                          *)
(***************************************************************************)
EXTENDS CdStepOps

\* ------------------------------------------------------------------ tiny instances of the design model
CONSTANTS MaxN,          \* rows of the instances (2..MaxN)
          MaxP,          \* columns (1..MaxP)
          MaxIt,         \* sweep budgets 1..MaxIt
          GapCap,        \* see SweepEnd
          Thin,          \* instances are thinned by a fixed hash (1 = all)
          Variant,       \* "ok", or a seeded design bug that an invariant must reject (see Coord / SweepEnd)
          Rule           \* "coded": pre-check at sweep maxit-1 ; "fresh": at sweep maxit (corrected)

LastCheck(P) == IF Rule = "coded" THEN P.maxit - 1 ELSE P.maxit

VARIABLES prob, xs, fs, k, j, xdw, xwm, fdw, fwm, xgap, fgap, pobj, cobj, sub, fresh, phase
vars == <<prob, xs, fs, k, j, xdw, xwm, fdw, fwm, xgap, fgap, pobj, cobj, sub, fresh, phase>>

None == <<-1, 1>>

Init ==
  /\ \E n \in 2..MaxN, p \in 1..MaxP :
     \E cs \in [1..p -> Cols(n)], y \in Ys(n), pr \in PenRho, tl \in Tols, ic \in BOOLEAN, mi \in 1..MaxIt :
       /\ InstHash([i \in 1..n |-> [q \in 1..p |-> cs[q][i]]], y, pr, tl, ic, mi) % Thin = 0
       /\ prob = MkProb([i \in 1..n |-> [q \in 1..p |-> cs[q][i]]], y, pr[1][1], pr[1][2], pr[2][1], pr[2][2],
                       tl[1], tl[2], ic, mi)
  /\ xs = XInit(prob) /\ fs = FInit(prob)
  /\ k = 0 /\ j = 1
  /\ xdw = <<0, 1>> /\ xwm = <<0, 1>> /\ fdw = 0 /\ fwm = 0
  /\ xgap = None /\ fgap = {} /\ sub = None /\ fresh = FALSE
  /\ pobj = XObj(prob, XInit(prob).w, XInit(prob).r) /\ cobj = pobj
  /\ phase = "run"

\* (the objective has the squares of the state's denominators: evaluated up to ObjCap, see GapCap)
DenMax(st) == MaxSeq([q \in 1..Len(st.w) |-> st.w[q][2]] \o [i \in 1..Len(st.r) |-> st.r[i][2]])
ObjCap == 1500
CObj(P, st) == IF DenMax(st) <= ObjCap THEN XObj(P, st.w, st.r) ELSE None
Coord ==
  /\ phase = "run" /\ j <= NP(prob)
  /\ LET \* seeded design bugs: threshold 2*l1n ("thr2"), denominator |x_j|^2 - l2n ("ascent"), last residual entry
         \* not updated ("stale")
         pv == IF Variant = "thr2" THEN [prob EXCEPT !.A1 = 2 * @]
               ELSE IF Variant = "ascent" THEN [prob EXCEPT !.A2 = -@] ELSE prob
         n0 == XCoord(pv, xs, j)
         nx == IF Variant = "stale" THEN [n0 EXCEPT !.r[NN(prob)] = xs.r[NN(prob)]] ELSE n0
         nf == FCoord(prob, fs, j) IN
     /\ xs' = nx /\ fs' = nf
     /\ pobj' = cobj /\ cobj' = CObj(prob, nx)
     /\ IF Nrm(prob, j) = 0 THEN UNCHANGED <<xdw, xwm, fdw, fwm>>
        ELSE /\ xdw' = QMax(xdw, QAbs(QSub(nx.w[j], xs.w[j]))) /\ xwm' = QMax(xwm, QAbs(nx.w[j]))
             /\ fdw' = Max2(fdw, Abs(nf.w[j] - fs.w[j])) /\ fwm' = Max2(fwm, Abs(nf.w[j]))
  /\ j' = j + 1
  /\ UNCHANGED <<prob, k, xgap, fgap, sub, fresh, phase>>

Icpt ==
  /\ phase = "run" /\ j = NP(prob) + 1
  /\ LET nx == XIcpt(prob, xs) IN
     /\ xs' = nx /\ fs' = FIcpt(prob, fs)
     /\ pobj' = cobj /\ cobj' = CObj(prob, nx)
  /\ j' = j + 1
  /\ UNCHANGED <<prob, k, xdw, xwm, fdw, fwm, xgap, fgap, sub, fresh, phase>>

\* best objective among the reference points: the ridge minimiser in closed form where there is no l1 part and
\* p <= 2, and a grid of coefficient vectors everywhere
Grid(p) == [1..p -> {<<-2, 1>>, <<-1, 1>>, <<-1, 2>>, <<0, 1>>, <<1, 2>>, <<1, 1>>, <<3, 2>>, <<2, 1>>}]
RidgeRef(P) ==
  \* normal equations of the (centred, when an intercept is fitted) ridge problem, Cramer's rule
  LET n == NN(P)  p == NP(P)
      xc == [jj \in 1..p |-> [i \in 1..n |-> IF P.icpt THEN QN(n * P.x[i][jj] - SumSeq(Col(P, jj)), n) ELSE QI(P.x[i][jj])]]
      a == [u \in 1..p |-> [v \in 1..p |-> QAdd(QDot(xc[u], xc[v]), IF u = v THEN XL2(P) ELSE <<0, 1>>)]]
      bb == [u \in 1..p |-> QDot(xc[u], XYc(P))]
  IN IF p = 1 THEN (IF a[1][1][1] = 0 THEN {} ELSE {<<QDiv(bb[1], a[1][1])>>})
     ELSE LET det == QSub(QMul(a[1][1], a[2][2]), QMul(a[1][2], a[2][1])) IN
          IF det[1] = 0 THEN {}
          ELSE {<<QDiv(QSub(QMul(bb[1], a[2][2]), QMul(a[1][2], bb[2])), det),
                  QDiv(QSub(QMul(a[1][1], bb[2]), QMul(a[2][1], bb[1])), det)>>}
Refs(P) == Grid(NP(P)) \cup (IF P.A1 = 0 /\ NP(P) <= 2 THEN RidgeRef(P) ELSE {})
RECURSIVE QMaxSet(_)
QMaxSet(ss) == IF ss = {} THEN <<0, 1>> ELSE LET a == CHOOSE v \in ss : TRUE IN QMax(a, QMaxSet(ss \ {a}))
SubOpt(P, obj) == QMaxSet({QSub(obj, XObj(P, g, XResid(P, g))) : g \in Refs(P)})

\* TLC's integers are 32 bit: the exact gap (third powers of the state's denominators) is evaluated only in states whose
\* coefficients and residuals have denominators up to GapCap.  There it is evaluated at the end of EVERY sweep (the
\* invariants InvGap / InvTrack are about the gap function on reachable iterates); the solver uses it when its pre-check
\* fires.  A run whose pre-check fires in a state beyond the cap is abandoned (phase "capped": no verdict is derived).
\* seeded design bug "gapnol1": the gap without its l1 term
XGapV(P, w, r) == IF Variant = "gapnol1" THEN QSub(XGap(P, w, r), QMul(XL1(P), QSum([q \in 1..NP(P) |-> QAbs(w[q])])))
                  ELSE XGap(P, w, r)
SweepEnd ==
  /\ phase = "run" /\ j = NP(prob) + 2
  /\ k' = k + 1
  /\ LET pre == \/ k + 1 = LastCheck(prob)
                \/ xwm[1] = 0
                \/ QLt(xdw, QMul(XTol(prob), xwm))
         gok == DenMax(xs) <= GapCap
     IN /\ IF gok /\ cobj # None THEN /\ xgap' = XGapV(prob, xs.w, xs.r) /\ fgap' = FGaps(prob, fs.w, fs.r)
                       /\ sub' = SubOpt(prob, cobj)
               ELSE xgap' = None /\ fgap' = {} /\ sub' = None
        /\ fresh' = pre
        /\ phase' = IF pre /\ ~gok THEN "capped"
                    ELSE IF (pre /\ QLt(xgap', XGapTol(prob))) \/ k + 1 = prob.maxit THEN "done" ELSE "run"
  /\ j' = 1 /\ xdw' = <<0, 1>> /\ xwm' = <<0, 1>> /\ fdw' = 0 /\ fwm' = 0
  /\ UNCHANGED <<prob, xs, fs, pobj, cobj>>

Next == Coord \/ Icpt \/ SweepEnd

\* ------------------------------------------------------------------ invariants
\* the incrementally updated residual is the residual of the current coefficients
InvResid ==
  /\ \A i \in 1..NN(prob) : xs.r[i] = QSub(QSub(XYc(prob)[i], QDotI(prob.x[i], xs.w)), xs.b)
  /\ FResidOk(prob, fs)
\* no coordinate (or intercept) step increases the objective
InvDescent == (cobj # None /\ pobj # None) => QLe(cobj, pobj)
\* a coordinate update is the exact minimiser along its coordinate: moving the coefficient just updated by +-1/4 does
\* not lower the objective (checked right after the update)
InvCoordMin ==
  (phase = "run" /\ j \in 2..(NP(prob) + 1) /\ Nrm(prob, j - 1) > 0 /\ cobj # None) =>
    \A d \in {<<1, 4>>, <<-1, 4>>} :
      LET w2 == [xs.w EXCEPT ![j - 1] = QAdd(@, d)]
          r2 == [i \in 1..NN(prob) |-> QSub(xs.r[i], QMul(QI(prob.x[i][j - 1]), d))]
      IN QLe(cobj, XObj(prob, w2, r2))
\* the duality gap is non-negative and bounds the suboptimality (against the ridge minimiser / the grid)
InvGap == xgap # None => (xgap[1] >= 0 /\ QLe(sub, xgap))
\* the fixed-point layer follows the exact layer
TrackW == 40
TrackG == 400
InvTrack ==
  /\ \A q \in 1..NP(prob) : Abs(fs.w[q] - QFx(xs.w[q])) <= TrackW
  /\ \A i \in 1..NN(prob) : Abs(fs.r[i] - QFx(xs.r[i])) <= 4 * TrackW
  /\ Abs(fs.b - QFx(xs.b)) <= 4 * TrackW
  /\ (xgap # None => \E v \in fgap : Abs(v - QFx(xgap)) <= TrackG)
\* documented: the published duality gap is "the duality gap at the end of the optimisation", i.e. the gap of the
\* published coefficients (holds for Rule = "fresh"; the coded rule violates it when the budget is used up)
InvFresh == phase = "done" => fresh
=============================================================================
