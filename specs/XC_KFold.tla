------------------------------ MODULE XC_KFold ------------------------------
(***************************************************************************)
(* X06 cross-check, original side.  TLC explores specs/KFold.tla           *)
(* restricted to the in-place modes ("inplace", "cv") and                  *)
(*  (1) prints every reachable state projected on the variables of         *)
(*      KFoldInd.tla (history variables trains/valids/acc/chunks dropped,  *)
(*      cells re-tagged from 16r+c / 1000+4r+c to their original flat      *)
(*      position) -- props/x06.py compares this set with the one printed   *)
(*      by XC_KFoldInd.tla: the Apalache proofs are about the same model;  *)
(*  (2) checks that the pointwise model KFoldIdx.tla is an abstraction of  *)
(*      KFold.tla for EVERY probe cell: the invariant XcIdxInv (IndInv     *)
(*      and Safety of KFoldIdx hold when lr/lt are the actual positions    *)
(*      of the probed cells in rbuf/tbuf) and the action property          *)
(*      XcIdxStep (every step of KFold.tla is a step of KFoldIdx for       *)
(*      every probe).                                                      *)
(***************************************************************************)
EXTENDS KFold, Integers, Json

XInit == Init /\ mode # "copy"
XSpec == XInit /\ [][Next]_vars

\* KFold tags -> original flat positions (the tags of KFoldInd.tla); a bijection on the cells
RetagR(buf, ff) == [p \in 1..Len(buf) |-> (buf[p] \div 16) * ff + (buf[p] % 16) + 1]
RetagT(buf, ww) == [p \in 1..Len(buf) |-> ((buf[p] - 1000) \div 4) * ww + ((buf[p] - 1000) % 4) + 1]

Proj == [n |-> n, k |-> k, f |-> f, t |-> t, mode |-> mode, nm |-> nm,
         rbuf |-> RetagR(rbuf, f), tbuf |-> RetagT(tbuf, W), i |-> i, mi |-> mi, pc |-> pc]
Emit == PrintT("ST " \o ToJson(Proj))

\* several histories project to the same state: explore each projected state once
ProjView == <<n, k, f, t, mode, nm, rbuf, tbuf, i, mi, pc>>

-----------------------------------------------------------------------------
Idx(r, c, d, plr, plt) == INSTANCE KFoldIdx WITH Variant <- "ok", r0 <- r, c0 <- c, d0 <- d, lr <- plr, lt <- plt

PosOf(buf, tag) == CHOOSE p \in 1..Len(buf) : buf[p] = tag

XcIdxInv ==
  \A r \in 0..(n - 1), c \in 0..(f - 1), d \in 0..(W - 1) :
     /\ \E p \in 1..Len(rbuf) : rbuf[p] = RTag(r, c)
     /\ \E p \in 1..Len(tbuf) : tbuf[p] = TTag(r, d)
     /\ Idx(r, c, d, PosOf(rbuf, RTag(r, c)), PosOf(tbuf, TTag(r, d)))!IndInv
     /\ Idx(r, c, d, PosOf(rbuf, RTag(r, c)), PosOf(tbuf, TTag(r, d)))!Safety

XcIdxInit ==
  \A r \in 0..(n - 1), c \in 0..(f - 1), d \in 0..(W - 1) :
     Idx(r, c, d, PosOf(rbuf, RTag(r, c)), PosOf(tbuf, TTag(r, d)))!Init

XcIdxNext ==
  \A r \in 0..(n - 1), c \in 0..(f - 1), d \in 0..(W - 1) :
     Idx(r, c, d, PosOf(rbuf, RTag(r, c)), PosOf(tbuf, TTag(r, d)))!Next

\* KFold.tla (in-place modes) implements KFoldIdx.tla for every probe
XcIdxRefines == XcIdxInit /\ [][XcIdxNext]_vars

-----------------------------------------------------------------------------
(* (3) KFold.tla (in-place modes) implements KFoldInd.tla under the projection / re-tagging,     *)
(* transitions included (the state-set comparison of props/x06.py gives the other direction).    *)
Ind == INSTANCE KFoldInd WITH Variant <- "ok", rbuf <- RetagR(rbuf, f), tbuf <- RetagT(tbuf, W)
XcIndRefines == Ind!Init /\ [][Ind!Next]_(Ind!vars)
XcIndInv     == Ind!IndInv /\ Ind!Safety

(* (4) the three copies of the swap definitions agree wherever KFold.tla uses them: SwapBlocks   *)
(* of KFold.tla, of KFoldInd.tla (Apalache) and of KFoldProofs.tla (TLAPS), and Sigma of          *)
(* KFoldInd / KFoldIdx / KFoldProofs.                                                             *)
P    == INSTANCE KFoldProofs
IndU == INSTANCE KFoldInd WITH Variant <- "ok"
XcDefs ==
  pc \in {"swapin", "swapout"} =>
    /\ SwapBlocks(rbuf, i, Fs, f) = P!SwapBlocks(rbuf, i, Fs, f)
    /\ SwapBlocks(rbuf, i, Fs, f) = IndU!SwapBlocks(rbuf, i, Fs, f)
    /\ SwapBlocks(tbuf, i, Fs, W) = P!SwapBlocks(tbuf, i, Fs, W)
    /\ SwapBlocks(tbuf, i, Fs, W) = IndU!SwapBlocks(tbuf, i, Fs, W)
    /\ \A p \in 1..Len(rbuf) :
         /\ P!Sigma(p, i, Fs * f) = IndU!Sigma(p, i, Fs * f)
         /\ P!Sigma(p, i, Fs * f) = Idx(0, 0, 0, 0, 0)!Sigma(p, i, Fs * f)
         /\ SwapBlocks(rbuf, i, Fs, f)[p] = rbuf[P!Sigma(p, i, Fs * f)]
    \* the TLAPS theorems, evaluated (a typo in a theorem statement would show here)
    /\ (i + 1) * Fs * f <= Len(rbuf) /\ (i + 1) * Fs * W <= Len(tbuf)
    /\ SwapBlocks(SwapBlocks(rbuf, i, Fs, f), i, Fs, f) = rbuf
    /\ P!RangeOf(SwapBlocks(rbuf, i, Fs, f)) = P!RangeOf(rbuf)
=============================================================================
