--------------------------------- MODULE Glm ---------------------------------
(***************************************************************************)
(* C12 (GLM part) -- Tweedie regression with identity / log / logit link.  *)
(*                                                                         *)
(* Documented objective: 1/2 * (deviance(y, mu) + alpha * |w|^2), with     *)
(* mu_i = h(eta_i), eta_i = x_i . w + b, unit deviance d_p(y, mu) of the   *)
(* Tweedie family (d/dmu d_p = -2 (y - mu) / mu^p).  Its gradient is       *)
(*    dw_j = - sum_i h'(eta_i) (y_i - mu_i) / mu_i^p * x_ij + alpha w_j    *)
(*    db   = - sum_i h'(eta_i) (y_i - mu_i) / mu_i^p                       *)
(* The relation encloses every factor by interval arithmetic (C12Num) and  *)
(* requires each component to reach 0 up to the allowance.                 *)
(* Support of the family: p <= 0 any real y; 1 <= p < 2: y >= 0; p >= 2:   *)
(* y > 0.  Link ranges: identity R, log (0, inf), logit (0, 1).            *)
(*                                                                         *)
(* The bounded numeric model (Init) checks algebraic consequences of the   *)
(* definition for every power/link: exact value of the per-sample term at  *)
(* eta = 0 (mu = 1, 1/2) and at mu = 1, 2 for the identity link, exact     *)
(* gradient at the origin for the log link, tightness of the enclosures.   *)
(***************************************************************************)
EXTENDS C12Num, TLC

CONSTANT MaxY

VARIABLE g       \* numeric model: [pn, pd, link, y4 (target in quarter units), x]

-----------------------------------------------------------------------------
Powers == {<<0, 1>>, <<1, 1>>, <<3, 2>>, <<2, 1>>, <<3, 1>>}
Links == {"identity", "log", "logit"}

\* default link (documented): identity for power <= 0, log otherwise
LinkOf(link, pn) == IF link = "auto" THEN (IF pn <= 0 THEN "identity" ELSE "log") ELSE link

\* y (scale S) in the support of the Tweedie distribution with power pn/pd
InSupport(pn, pd, yS) ==
  IF pn <= 0 THEN TRUE
  ELSE IF pn < 2 * pd THEN yS >= 0
  ELSE yS > 0

MuIv(link, eta) ==
  CASE link = "identity" -> eta
    [] link = "log" -> IvExp(eta)
    [] link = "logit" -> IvSig(eta)
\* h'(eta)
HpIv(link, mu) ==
  CASE link = "identity" -> IvPt(S)
    [] link = "log" -> mu
    [] link = "logit" -> IvMul(mu, IvSub(IvPt(S), mu))
\* mu^(-p) for a strictly positive enclosure
PowNegIv(mu, pn, pd) ==
  LET r == IvRecip(mu) IN
  CASE pn = 0 -> IvPt(S)
    [] pn = 1 /\ pd = 1 -> r
    [] pn = 2 /\ pd = 1 -> IvMul(r, r)
    [] pn = 3 /\ pd = 1 -> IvMul(IvMul(r, r), r)
    [] pn = 3 /\ pd = 2 -> IvMul(r, IvRecip(IvSqrt(mu)))

\* the enclosures can be evaluated: table domain of exp, positivity of the mean where a power of it is taken,
\* magnitudes inside the 31-bit budget
EtaInDomain(link, pn, eta) ==
  /\ link = "log" => (eta[1] >= -3 * S /\ eta[2] <= 3 * S)
  /\ (link = "identity" /\ pn > 0) => (eta[1] >= 500 /\ eta[2] <= 200000)
  /\ (link = "identity" /\ pn = 0) => (eta[1] >= -200000 /\ eta[2] <= 200000)
  /\ (link = "logit" /\ pn > 0) => (eta[1] >= -29000)           \* mu >= 0.05

\* h'(eta) (y - mu) / mu^p   for y at scale S
TermIv(link, pn, pd, eta, yS) ==
  LET mu == MuIv(link, eta) IN
  IvMul(PowNegIv(mu, pn, pd), IvMul(HpIv(link, mu), IvSub(IvPt(yS), mu)))

\* x: integer rows, yS: targets at scale S, coefficients at scale 10^6
GlmTerms(link, pn, pd, x, yS, w6, b6) == [q \in 1..Len(x) |-> TermIv(link, pn, pd, ZIv(x[q], w6, b6), yS[q])]
GlmDomainOk(link, pn, x, w6, b6) == \A q \in 1..Len(x) : EtaInDomain(link, pn, ZIv(x[q], w6, b6))
GlmStationary(link, pn, pd, x, yS, w6, b6, an, ad, icpt, allow) ==
  LET tm == GlmTerms(link, pn, pd, x, yS, w6, b6) IN
  /\ \A j \in 1..Len(w6) :
       Stationary(IvAdd(IvNeg(IvSum([q \in 1..Len(x) |-> IvScale(tm[q], x[q][j])])), AlphaW(an, ad, w6[j])), allow)
  /\ icpt => Stationary(IvNeg(IvSum(tm)), allow)
  /\ ~icpt => b6 = 0

\* ---- targets measured in another unit (log link, with intercept) ------------------------------------------
\* The case's targets are y = u * y1 with u = 2^ue (exact in binary floating point). For the log link mu = u * mu1 with
\* eta1 = eta - ue ln 2, i.e. the unit only shifts the intercept; the per-sample term of the gradient is
\* u^(2-p) * term1 (the deviance of power p scales with u^(2-p); Gamma, p = 2, is unit free). The relation is
\* evaluated on the unit-1 quantities (y1, eta1) and the factor 2^k, k = ue (2 - p), is applied to the enclosures:
\*     gradient_j = - 2^k sum_i term1_i x_ij + alpha w_j .
\* For k >= 0 the component is judged on the scale of its data term (both sides divided by 2^k), for k < 0 as it is.
Ln2S6 == 693147                                   \* ln 2 at scale 10^6 (error < 0.2 units per unit of ue)
Pow2(k) == 2 ^ k                                  \* 0 <= k <= 30
RECURSIVE IvShiftDown(_, _)
IvShiftDown(a, m) == IF m <= 0 THEN a ELSE IF m >= 10 THEN IvShiftDown(IvDivInt(a, 1024), m - 10)
                     ELSE IvDivInt(a, Pow2(m))
\* unit-1 linear predictor of a row (the extra unit of widening covers the rounding of ue * ln 2)
ZIvU(row, w6, b6, ue) == IF ue = 0 THEN ZIv(row, w6, b6) ELSE IvWiden(ZIv(row, w6, b6 - ue * Ln2S6), 1)
\* k = ue (2 - p) for p = pn/pd (ue is a multiple of 10, pd in {1, 2})
UnitExp(ue, pn, pd) == (ue * (2 * pd - pn)) \div pd
GlmDomainOkU(link, pn, x, w6, b6, ue) == \A q \in 1..Len(x) : EtaInDomain(link, pn, ZIvU(x[q], w6, b6, ue))
\* allowNum: numerical allowance, tolU: solver tolerance, both in units of 10^-4 of the gradient in the case's unit
GlmStationaryU(link, pn, pd, x, y1S, w6, b6, an, ad, icpt, allowNum, tolU, ue) ==
  LET k == UnitExp(ue, pn, pd)
      tm == [q \in 1..Len(x) |-> TermIv(link, pn, pd, ZIvU(x[q], w6, b6, ue), y1S[q])]
      Comb(d, aw) == IF k >= 0 THEN IvAdd(d, IvShiftDown(aw, k)) ELSE IvAdd(IvShiftDown(d, -k), aw)
      allow == IF k >= 0 THEN allowNum + CeilDiv(tolU, Pow2(k)) ELSE allowNum + tolU
  IN /\ \A j \in 1..Len(w6) :
          Stationary(Comb(IvNeg(IvSum([q \in 1..Len(x) |-> IvScale(tm[q], x[q][j])])), AlphaW(an, ad, w6[j])), allow)
     /\ icpt => Stationary(Comb(IvNeg(IvSum(tm)), IvPt(0)), allow)
     /\ ~icpt => b6 = 0
\* prediction in the case's unit: mu = 2^ue * mu1
MuIvU(link, eta1, ue) ==
  LET m1 == MuIv(link, eta1) IN
  IF ue >= 0 THEN IvScale(m1, Pow2(ue)) ELSE IvShiftDown(m1, -ue)
GlmPredOkU(link, row, w6, b6, ue, m4) == IvIn(m4, IvWiden(MuIvU(link, ZIvU(row, w6, b6, ue), ue), 1))

\* prediction for a query row: mu = h(eta), observed at scale 10^4
GlmPredOk(link, row, w6, b6, m4) == IvIn(m4, IvWiden(MuIv(link, ZIv(row, w6, b6)), 1))
\* predictions lie in the link's range (order keys of the implementation's floats; finite is checked separately)
InLinkRange(link, mk) ==
  CASE link = "identity" -> TRUE
    [] link = "log" -> KeyLt(KeyZero, mk)
    [] link = "logit" -> KeyLt(KeyZero, mk) /\ KeyLt(mk, KeyOne)

-----------------------------------------------------------------------------
(* Bounded numeric model *)
Init ==
  \E pw \in Powers, lk \in Links, y4 \in 1..(4 * MaxY), xx \in 0..2 :
     g = [pn |-> pw[1], pd |-> pw[2], link |-> lk, y4 |-> y4, x |-> xx]
Next == UNCHANGED g

YS == g.y4 * (S \div 4)
\* 2^(p) numerators for the logit link at eta = 0 (mu = 1/2): mu^-p = 2^p ; for p = 3/2 enclosed by 2.8284 .. 2.8285
TwoPowIv(pn, pd) == CASE pn = 0 -> IvPt(S) [] pn = 1 /\ pd = 1 -> IvPt(2 * S) [] pn = 2 -> IvPt(4 * S)
                      [] pn = 3 /\ pd = 1 -> IvPt(8 * S) [] pn = 3 /\ pd = 2 -> <<28284, 28285>>
\* exact per-sample term at eta = 0
ExactAtZero ==
  CASE g.link = "identity" -> <<0, 0>>       \* not used (mu = 0 outside the domain)
    [] g.link = "log" -> IvPt(YS - S)                                   \* mu = 1, h' = 1
    [] g.link = "logit" -> IvDivInt(IvMul(TwoPowIv(g.pn, g.pd), IvPt(YS - S \div 2)), 4)   \* h' = 1/4
InvTermAtZero ==
  g.link # "identity" =>
     LET tv == TermIv(g.link, g.pn, g.pd, IvPt(0), YS) IN
     /\ IvMeet(tv, IvWiden(ExactAtZero, 1))
     /\ tv[2] - tv[1] <= 40 + (4 + 8 * g.pn) * g.y4      \* enclosures stay tight (relative width ~ (1 + p) * 4e-4)
\* identity link at mu = 1 and mu = 2: (y - 1) and (y - 2) / 2^p
InvTermIdentity ==
  g.link = "identity" =>
     /\ IvIn(YS - S, IvWiden(TermIv("identity", g.pn, g.pd, IvPt(S), YS), 1))
     /\ LET tv == TermIv("identity", g.pn, g.pd, IvPt(2 * S), YS)
            den == TwoPowIv(g.pn, g.pd)
        IN /\ IvMeet(IvMul(tv, den), IvWiden(IvPt(YS - 2 * S), 12))
           /\ tv[2] - tv[1] <= 12
\* the sign of the term is the sign of (y - mu): above the mean the gradient pulls up, below it pulls down
InvTermSign ==
  \A e \in {-5000, 0, 5000, 12000} :
     (g.link # "identity" \/ e > 0) =>
       LET mu == MuIv(g.link, IvPt(e))
           tv == TermIv(g.link, g.pn, g.pd, IvPt(e), YS)
       IN /\ YS > mu[2] + 50 => tv[1] > 0
          /\ YS < mu[1] - 50 => tv[2] < 0
\* one-sample data set (x, y) with the log link: gradient at the origin is -(y - 1) x exactly; stationary iff it is 0
InvOriginLog ==
  g.link = "log" =>
     LET x == << <<g.x>> >>  ys == <<YS>> IN
     /\ (YS = S \/ g.x = 0) => GlmStationary("log", g.pn, g.pd, x, ys, <<0>>, 0, 0, 1, FALSE, 0)
     /\ (Abs(YS - S) * g.x > 100) => ~GlmStationary("log", g.pn, g.pd, x, ys, <<0>>, 0, 0, 1, FALSE, 6)
     \* the penalty acts on w with weight alpha (objective 1/2 (dev + alpha |w|^2)): at w = 1, y = mu = e^x it is the whole gradient
     /\ g.x = 0 => /\ ~GlmStationary("log", g.pn, g.pd, x, <<S>>, <<1000000>>, 0, 1, 1, FALSE, 6)
                   /\ GlmStationary("log", g.pn, g.pd, x, <<S>>, <<1000000>>, 0, 0, 1, FALSE, 0)
\* units: with ue = 0 the unit-aware relation is the plain one; a change of unit (intercept shifted by ue ln 2) keeps a
\* stationary point stationary and a clearly non-stationary one non-stationary for the Gamma family (unit free), and
\* for k < 0 the data term is damped by 2^k (everything with a tiny data gradient and no penalty passes)
InvUnits ==
  g.link = "log" =>
     LET x == << <<g.x>> >>  ys == <<YS>> IN
     /\ GlmStationaryU("log", g.pn, g.pd, x, ys, <<0>>, 0, 0, 1, TRUE, 6, 0, 0)
          <=> GlmStationary("log", g.pn, g.pd, x, ys, <<0>>, 0, 0, 1, TRUE, 6)
     /\ \A ue \in {-30, -10, 10} :
          /\ YS = S => GlmStationaryU("log", g.pn, g.pd, x, ys, <<0>>, ue * Ln2S6, 0, 1, TRUE, 6, 1, ue)
          /\ (g.pn = 2 /\ Abs(YS - S) > 100) => ~GlmStationaryU("log", 2, 1, x, ys, <<0>>, ue * Ln2S6, 0, 1, TRUE, 6, 1, ue)
     /\ (g.pn = 1 /\ g.pd = 1) => GlmStationaryU("log", 1, 1, x, ys, <<0>>, -30 * Ln2S6, 0, 1, TRUE, 6, 1, -30)
     /\ UnitExp(-30, 3, 1) = 30 /\ UnitExp(-20, 3, 2) = -10 /\ UnitExp(10, 2, 1) = 0 /\ UnitExp(-10, 1, 1) = -10

ASSUME SupportTable ==
  /\ InSupport(0, 1, -S) /\ InSupport(0, 1, 0)
  /\ ~InSupport(1, 1, -1) /\ InSupport(1, 1, 0) /\ InSupport(3, 2, 0) /\ ~InSupport(3, 2, -2500)
  /\ ~InSupport(2, 1, 0) /\ InSupport(2, 1, 1) /\ ~InSupport(3, 1, 0) /\ ~InSupport(3, 1, -S)
  /\ LinkOf("auto", 0) = "identity" /\ LinkOf("auto", 1) = "log" /\ LinkOf("auto", 3) = "log" /\ LinkOf("logit", 0) = "logit"
=============================================================================
