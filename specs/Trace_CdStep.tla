---------------------------- MODULE Trace_CdStep ----------------------------
(***************************************************************************)
(* X13 trace validation: every event recorded by the hook of               *)
(* docs/reports/X13-hook.diff during one ElasticNet fit is replayed as an  *)
(* action of the fixed-point layer (F) of CdStep:                          *)
(*   cd.start -> Start      cd.coord -> Coord (FCoord)                     *)
(*   cd.icpt  -> Icpt (FIcpt)          cd.sweep -> Sweep (stop logic)      *)
(*   cd.end   -> End        fit      -> Fit (published model)              *)
(* The abstract state (coefficients, residual, intercept shift, sweep and  *)
(* coordinate counters, d_w_max, w_max) is advanced by the model only; the *)
(* logged fields must equal the model's values within the slack constants  *)
(* (units of 10^-6; CdStep!InvTrack shows the fixed-point layer stays      *)
(* within TrackW / TrackG of the exact one on the tiny instances).         *)
(* Decisions (pre-check, gap < tolerance) must be the ones the coded rule  *)
(* takes on the LOGGED operands (at 10^-9 where they fit), and must be     *)
(* enabled in the model: a decision the model's values decide beyond the   *)
(* slack is demanded, a near-tie is free.                                  *)
(* Cases of kind "bcd1" are fits of MultiTaskElasticNet on ONE target      *)
(* column: the block solver (block_coordinate_descent_with_intercept,      *)
(* duality_gap_mtl) must run through the same state machine (the harness   *)
(* records its bcd events under the cd names); only d_w_max differs        *)
(* (change of the row norm).                                               *)
(* A tree without the hook (inp.hook = 0): no step events; the model runs  *)
(* on its own (near-ties are explored both ways) and only the published    *)
(* coefficients / intercept / gap / sweep count are compared.              *)
(*                                                                         *)
(* Named deviation (only when listed in Devs):                             *)
(*   gap_check_one_sweep_early : the documentation promises "the duality   *)
(*     gap at the end of the optimization algorithm"; the code forces the  *)
(*     gap computation in sweep maxit-1 (n_steps is compared after its     *)
(*     increment) instead of the last sweep maxit, so when the budget is   *)
(*     used up the published gap is the gap of the iterate one sweep       *)
(*     earlier (or the initial 1 + tol when maxit = 1).                    *)
(***************************************************************************)
EXTENDS CdStepOps, TraceIO

CONSTANTS Devs,
          SlW,     \* coefficients (and d_w_max / w_max)
          SlR,     \* residuals, correlation terms / norm-weighted, intercept
          SlG      \* duality gap

VARIABLES c, e, pr, ph, kk, jj, st, dw, wm, allz, mg, lg, used, tag
tvars == <<c, e, pr, ph, kk, jj, st, dw, wm, allz, mg, lg, used, tag>>

Case == Rec[c]
In   == Case.inp
NEv  == Len(Case.ev)
Ev   == Case.ev[e]
Hook == In.hook = 1
Block == Case.kind = "bcd1"      \* MultiTaskElasticNet on one target column (its bcd events are logged under the cd names)
\* the named step event of the solver the case runs (block = 1: logged by the block solver as bcd.<name>)
HasStep(name) == e <= NEv /\ Ev.ev = name /\ Ev.block = (IF Block THEN 1 ELSE 0)
HasEv(name) == e <= NEv /\ Ev.ev = name
Coded == "gap_check_one_sweep_early" \in Devs
LastK == IF Coded THEN pr.maxit - 1 ELSE pr.maxit

V6(t) == t[3] % 2 = 0
V9(t) == t[3] < 2
CloseT(t, m, sl) == V6(t) /\ Abs(t[1] - m) <= sl
Enc9(t) == V9(t) => Abs(t[2] - 1000 * t[1]) <= 501          \* the two scales of one logged number agree

ProbOf(inp) == MkProb(inp.x, inp.y, inp.pen[1], inp.pen[2], inp.l1r[1], inp.l1r[2], inp.tol[1], inp.tol[2],
                      inp.icpt, inp.maxit)
Gap0 == S + (S * pr.tn) \div pr.td

TraceInit ==
  /\ c \in 1..Len(Rec) /\ e = 1
  /\ pr = ProbOf(Rec[c].inp)
  /\ ph = IF Rec[c].inp.hook = 1 THEN "start" ELSE "coord"
  /\ kk = 1 /\ jj = 1 /\ st = FInit(pr) /\ dw = 0 /\ wm = 0 /\ allz = TRUE
  /\ mg = {} /\ lg = <<>> /\ used = {} /\ tag = ""

Start ==
  /\ tag = "" /\ ph = "start" /\ HasStep("cd.start")
  /\ Ev.n = NN(pr) /\ Ev.p = NP(pr) /\ Ev.t = 1 /\ Ev.maxit = pr.maxit /\ Ev.icpt = (IF pr.icpt THEN 1 ELSE 0)
  /\ Len(Ev.norms) = NP(pr)
  /\ \A q \in 1..NP(pr) : CloseT(Ev.norms[q], Nrm(pr, q) * S, 0)
  /\ CloseT(Ev.pen, (In.pen[1] * S) \div In.pen[2], 0) /\ CloseT(Ev.l1r, (In.l1r[1] * S) \div In.l1r[2], 0)
  /\ V9(Ev.tol) /\ Abs(Ev.tol[2] - (1000000000 \div pr.td) * pr.tn) <= 1
  /\ CloseT(Ev.gtol, FGapTol(pr), 1) /\ Enc9(Ev.gtol)
  /\ CloseT(Ev.gap0, Gap0, 1)
  /\ lg' = Ev.gap0
  /\ ph' = "coord" /\ e' = e + 1
  /\ UNCHANGED <<c, pr, kk, jj, st, dw, wm, allz, mg, used, tag>>

AfterCoords == IF pr.icpt THEN "icpt" ELSE "sweep"

Coord ==
  /\ tag = "" /\ ph = "coord"
  /\ LET skip == Nrm(pr, jj) = 0
         corr == FCorr(pr, st, jj)
         ns == FCoord(pr, st, jj)
     IN /\ IF Hook
           THEN /\ HasStep("cd.coord") /\ Ev.sweep = kk /\ Ev.j = jj - 1 /\ Ev.skip = (IF skip THEN 1 ELSE 0)
                /\ Len(Ev.old) = 1 /\ Len(Ev.new) = 1 /\ Len(Ev.r) = NN(pr)
                /\ CloseT(Ev.old[1], st.w[jj], SlW) /\ CloseT(Ev.new[1], ns.w[jj], SlW)
                /\ IF skip THEN Ev.corr = <<>> ELSE Len(Ev.corr) = 1 /\ CloseT(Ev.corr[1], corr, SlR * Max2(1, Nrm(pr, jj)))
                /\ \A i \in 1..NN(pr) : CloseT(Ev.r[i], ns.r[i], SlR)
           ELSE TRUE
        /\ st' = ns
        \* the block solver measures the change of the row NORM: | |w_j'| - |w_j| |
        /\ dw' = IF skip THEN dw
                 ELSE Max2(dw, IF Block THEN Abs(Abs(ns.w[jj]) - Abs(st.w[jj])) ELSE Abs(ns.w[jj] - st.w[jj]))
        /\ wm' = IF skip THEN wm ELSE Max2(wm, Abs(ns.w[jj]))
        \* the new coefficient is exactly 0.0 in the code too: skipped, or thresholded with a margin
        /\ allz' = (allz /\ (skip \/ Abs(corr) + SlR * Nrm(pr, jj) < FL1(pr)))
  /\ jj' = IF jj = NP(pr) THEN 1 ELSE jj + 1
  /\ ph' = IF jj = NP(pr) THEN AfterCoords ELSE "coord"
  /\ e' = IF Hook THEN e + 1 ELSE e
  /\ UNCHANGED <<c, pr, kk, mg, lg, used, tag>>

Icpt ==
  /\ tag = "" /\ ph = "icpt"
  /\ LET ns == FIcpt(pr, st) IN
     /\ IF Hook
        THEN /\ HasStep("cd.icpt") /\ Ev.sweep = kk
             /\ Len(Ev.rmean) = 1 /\ Len(Ev.shift) = 1 /\ Len(Ev.r) = NN(pr)
             /\ CloseT(Ev.rmean[1], FMean(pr, st), SlR) /\ CloseT(Ev.shift[1], ns.b, SlR)
             /\ \A i \in 1..NN(pr) : CloseT(Ev.r[i], ns.r[i], SlR)
        ELSE TRUE
     /\ st' = ns
  /\ ph' = "sweep" /\ e' = IF Hook THEN e + 1 ELSE e
  /\ UNCHANGED <<c, pr, kk, jj, dw, wm, allz, mg, lg, used, tag>>

\* ---- the stop logic at the end of sweep kk
SlD == 2 * SlW
Thr(w) == MulDiv(w, pr.tn, pr.td)                    \* tol * w
\* the model's values decide the pre-check beyond the slack ...
\* (all-zero centred targets: every quantity of the run is exactly zero in the code as well, so w_max = 0 fires)
ZeroTarget == \A i \in 1..NN(pr) : YNum(pr)[i] = 0
PreSure  == kk = LastK \/ allz \/ ZeroTarget \/ (wm > SlD /\ dw + SlD < Thr(wm - SlD))
PreNever == kk # LastK /\ ~allz /\ ~ZeroTarget /\ wm > SlD /\ dw - SlD > Thr(wm + SlD) + 1
\* ... and the logged operands decide it as the code does (d_w_max / w_max < tol), at 10^-9 where d_w_max fits
LogPreSure(ev) ==
  \/ kk = LastK
  \/ /\ V6(ev.wmax) /\ ev.wmax[1] > 1
     /\ IF V9(ev.dwmax) THEN ev.dwmax[2] + (1000 * pr.tn) \div pr.td + 2 < MulDiv(ev.wmax[1], 1000 * pr.tn, pr.td)
                        ELSE V6(ev.dwmax) /\ ev.dwmax[1] + 2 < Thr(ev.wmax[1])
LogPreNever(ev) ==
  /\ kk # LastK
  /\ V6(ev.wmax) /\ ev.wmax[1] > 1
  /\ IF V9(ev.dwmax) THEN ev.dwmax[2] - (1000 * pr.tn) \div pr.td - 2 > MulDiv(ev.wmax[1], 1000 * pr.tn, pr.td)
                     ELSE V6(ev.dwmax) /\ ev.dwmax[1] - 2 > Thr(ev.wmax[1])
\* gap < gtol on the logged operands
LogConvSure(ev)  == IF V9(ev.gap) /\ V9(ev.gtol) THEN ev.gap[2] < ev.gtol[2] ELSE V6(ev.gap) /\ ev.gap[1] < ev.gtol[1]
LogConvNever(ev) == IF V9(ev.gap) /\ V9(ev.gtol) THEN ev.gap[2] > ev.gtol[2] ELSE V6(ev.gap) /\ ev.gap[1] > ev.gtol[1]

Advance(conv) ==
  IF conv \/ kk = pr.maxit
  THEN ph' = (IF Hook THEN "end" ELSE "fit") /\ UNCHANGED <<kk, jj>>
  ELSE ph' = "coord" /\ kk' = kk + 1 /\ jj' = 1
Dev(fired) == IF Coded /\ kk >= pr.maxit - 1 THEN used \cup {"gap_check_one_sweep_early"} ELSE used

SweepHook ==
  /\ tag = "" /\ ph = "sweep" /\ Hook /\ HasStep("cd.sweep")
  /\ Ev.sweep = kk /\ Ev.pre \in {0, 1} /\ Ev.dec \in {0, 1, 2}
  /\ CloseT(Ev.dwmax, dw, SlD) /\ CloseT(Ev.wmax, wm, SlW) /\ Enc9(Ev.dwmax) /\ Enc9(Ev.wmax)
  /\ (PreSure => Ev.pre = 1) = TRUE /\ (PreNever => Ev.pre = 0) = TRUE
  /\ (LogPreSure(Ev) => Ev.pre = 1) = TRUE /\ (LogPreNever(Ev) => Ev.pre = 0) = TRUE
  /\ Ev.gtol = Case.ev[1].gtol
  /\ Enc9(Ev.gap)
  /\ IF Ev.pre = 1
     THEN LET gs == FGaps(pr, st.w, st.r) IN
          /\ (\E g \in gs : CloseT(Ev.gap, g, SlG)) = TRUE
          /\ mg' = gs /\ lg' = Ev.gap
          /\ (LogConvSure(Ev) => Ev.dec = 1) = TRUE /\ (LogConvNever(Ev) => Ev.dec # 1) = TRUE
     ELSE Ev.gap = lg /\ Ev.dec # 1 /\ UNCHANGED <<mg, lg>>
  /\ (Ev.dec = 2) = (Ev.dec # 1 /\ kk = pr.maxit)
  /\ Advance(Ev.dec = 1)
  /\ used' = Dev(TRUE)
  /\ dw' = 0 /\ wm' = 0 /\ allz' = TRUE /\ e' = e + 1
  /\ UNCHANGED <<c, pr, st, tag>>

\* without step events: the model decides; near-ties both ways
SweepFree ==
  /\ tag = "" /\ ph = "sweep" /\ ~Hook
  /\ \E fired \in BOOLEAN :
     /\ (PreSure => fired) = TRUE /\ (PreNever => ~fired) = TRUE
     /\ IF fired
        THEN \E g \in FGaps(pr, st.w, st.r) : \E conv \in BOOLEAN :
               /\ (g + SlG < FGapTol(pr) => conv) = TRUE /\ (g - SlG > FGapTol(pr) => ~conv) = TRUE
               /\ mg' = {g} /\ Advance(conv)
        ELSE UNCHANGED mg /\ Advance(FALSE)
  /\ used' = Dev(TRUE)
  /\ dw' = 0 /\ wm' = 0 /\ allz' = TRUE
  /\ UNCHANGED <<c, e, pr, st, lg, tag>>

End ==
  /\ tag = "" /\ ph = "end" /\ HasStep("cd.end")
  /\ Ev.steps = kk /\ Ev.logged = kk /\ Ev.gap = lg
  /\ ph' = "fit" /\ e' = e + 1
  /\ UNCHANGED <<c, pr, kk, jj, st, dw, wm, allz, mg, lg, used, tag>>

Accept == IF used = {} THEN (IF Hook THEN Ok(Case.id) ELSE OkDev(Case.id, <<"nohook">>))
          ELSE OkDev(Case.id, <<"gap_check_one_sweep_early">>)

Fit ==
  /\ tag = "" /\ ph = "fit" /\ HasEv("fit") /\ e = NEv
  /\ Ev.res = 0 /\ Ev.steps = kk /\ Len(Ev.w) = NP(pr)
  /\ \A q \in 1..NP(pr) : CloseT(Ev.w[q], st.w[q], SlW)
  /\ CloseT(Ev.b, IF pr.icpt THEN RoundDiv(SumY(pr) * S, NN(pr)) + st.b ELSE 0, SlR + 1)
  /\ IF Hook THEN Ev.gap = lg
     ELSE IF mg = {} THEN CloseT(Ev.gap, Gap0, 1) ELSE (\E g \in mg : CloseT(Ev.gap, g, SlG)) = TRUE
  /\ Accept
  /\ tag' = "done" /\ e' = e + 1
  /\ UNCHANGED <<c, pr, ph, kk, jj, st, dw, wm, allz, mg, lg, used>>

TraceNextFast == Start \/ Coord \/ Icpt \/ SweepHook \/ SweepFree \/ End \/ Fit

Stuck ==
  /\ tag = "" /\ ~ENABLED TraceNextFast
  /\ Fail(Case.id, <<e, ph, kk, jj>>)
  /\ tag' = "stuck" /\ UNCHANGED <<c, e, pr, ph, kk, jj, st, dw, wm, allz, mg, lg, used>>
TraceNext == TraceNextFast \/ Stuck
=============================================================================
