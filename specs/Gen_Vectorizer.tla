--------------------------- MODULE Gen_Vectorizer ---------------------------
(* Case generator for C17.  Documents, stop entries and fixed vocabularies are sequences of     *)
(* Unicode code points (the harness only turns them into Strings).  Families:                   *)
(*   ngram  all corpora of <= 2 short documents over two words x every n-gram range             *)
(*   dfwin  "staircase" corpora realising every document-frequency vector x every df window     *)
(*          in quarters (inclusive bounds hit exactly for n = 4, fall between counts otherwise) *)
(*   cap    staircase corpora with repeated words (term frequency order differs from document   *)
(*          frequency order, ties) x feature caps 0..4, also combined with a df window          *)
(*   stop   stop entries (unigram, bigram, other case, absent) x n-gram ranges                  *)
(*   canon  written forms (case, precomposed / decomposed accent, compatibility characters,     *)
(*          one-letter words, glued / punctuated) x lower-casing x NFKD x four tokenisers       *)
(*   fixed  fixed vocabularies (duplicates, n-gram entries, unseen entries)                     *)
(*   mixed  three corpora x cross product of tokeniser, range, window, stop set, cap            *)
(*   idf    TfIdfMethod::compute_idf(n, df) alone                                               *)
(*   hist   a builder that was already checked / fitted with settings s1 is re-configured       *)
(*          through one setter (same value or clone) to s2 and fitted again (kind "hist")       *)
EXTENDS Integers, Sequences, FiniteSets, TLC, Json

CONSTANTS Big,        \* 0 = quick tier, 1 = thorough tier
          Fams        \* families to emit

VARIABLE case

aa == <<97, 97>>
bb == <<98, 98>>
cc == <<99, 99>>
zz == <<122, 122>>
SP == <<32>>

RECURSIVE Cat(_)
Cat(ss) == IF ss = <<>> THEN <<>> ELSE Head(ss) \o Cat(Tail(ss))
RECURSIVE JoinS(_, _)
JoinS(ws, sep) == IF ws = <<>> THEN <<>> ELSE IF Len(ws) = 1 THEN ws[1] ELSE ws[1] \o sep \o JoinS(Tail(ws), sep)
Rep(w, k) == [p \in 1..k |-> w]
SeqsUpTo(S, k) == UNION {[1..m -> S] : m \in 0..k}
DocsOver(words, lo, hi) == {JoinS([p \in 1..Len(ix) |-> words[ix[p]]], SP) : ix \in UNION {[1..m -> 1..Len(words)] : m \in lo..hi}}

St0 == [lower |-> TRUE, norm |-> TRUE, tok |-> "default", nmin |-> 1, nmax |-> 1,
        dfmin |-> <<0, 1>>, dfmax |-> <<1, 1>>, hasstop |-> FALSE, stop |-> <<>>,
        cap |-> -1, fixed |-> FALSE, vocab |-> <<>>]
NRanges == {<<1, 1>>, <<1, 2>>, <<2, 2>>, <<1, 3>>, <<2, 3>>, <<3, 3>>}
TokKinds == {"default", "re_w1", "re_s2", "fn_ws", "re_b2"}
AllM == <<"smooth", "nonsmooth", "textbook">>
OneM(k) == <<AllM[(k % 3) + 1]>>

Mk(fam, stt, train, test, methods) ==
  [kind |-> "vec",
   inp |-> [fam |-> fam, st |-> stt, train |-> train, test |-> test, methods |-> methods,
            \* calling form: owned Array1<String> / view over &str / ParamGuard::check() then the checked parameter set
            form |-> <<"string", "str", "checked">>[((Len(train) + stt.nmax + Len(methods) + Len(methods[1])) % 3) + 1]]]

-----------------------------------------------------------------------------
W2 == <<aa, bb>>
TestPlain == << JoinS(<<bb, aa, zz, aa, bb, aa>>, SP), <<>> >>

CasesNgram ==
  LET small == SeqsUpTo(DocsOver(W2, 0, 3), 2)
      long  == {<<d>> : d \in DocsOver(W2, 4, 4 + Big)}
      three == IF Big = 1 THEN [1..3 -> DocsOver(W2, 0, 2)] ELSE {}
  IN {Mk("ngram", [St0 EXCEPT !.nmin = r[1], !.nmax = r[2]], cp, TestPlain, OneM(r[1] + r[2] + Len(cp))) :
        r \in NRanges, cp \in small \cup long \cup three}

\* staircase corpus: document d (1..n) holds word w (each rep[w] times) iff d <= dfv[w]
W3 == <<aa, bb, cc>>
Stair(n, dfv, rep) == [d \in 1..n |-> JoinS(Cat([w \in 1..3 |-> IF d <= dfv[w] THEN Rep(W3[w], rep[w]) ELSE <<>>]), SP)]
DfVecs(n) == {v \in [1..3 -> 0..n] : v[1] >= v[2] /\ v[2] >= v[3]}
Quarters == {<<<<a, 4>>, <<b, 4>>>> : a \in 0..4, b \in 0..4}
Windows == {w \in Quarters : w[1][1] <= w[2][1]}
TestStair == << JoinS(<<aa, bb, cc, zz, cc>>, SP) >>

CasesDfwin ==
  UNION {
  {Mk("dfwin", [St0 EXCEPT !.dfmin = w[1], !.dfmax = w[2], !.nmax = mx], Stair(n, v, <<1, 1, 1>>), TestStair,
      OneM(n + v[1] + w[1][1])) :
     v \in DfVecs(n), w \in Windows, mx \in 1..(1 + Big)} : n \in 1..(5 + Big)}

Reps == {<<1, 1, 1>>, <<1, 1, 3>>, <<2, 1, 1>>}
CasesCap ==
  UNION {
  {Mk("cap", [St0 EXCEPT !.cap = k, !.nmax = mx], Stair(n, v, rp), TestStair, OneM(n + k + v[2])) :
     v \in DfVecs(n), rp \in Reps, k \in 0..4, mx \in 1..(1 + Big)}
  \cup
  {Mk("cap", [St0 EXCEPT !.cap = k, !.dfmax = <<1, 2>>], Stair(n, v, <<1, 2, 1>>), TestStair, OneM(n + k)) :
     v \in DfVecs(n), k \in 1..2} : n \in 2..4}

StopSets == { <<>>, <<aa>>, <<JoinS(<<aa, bb>>, SP)>>, <<bb, JoinS(<<bb, aa>>, SP), zz>>, << <<65, 97>> >> }
CasesStop ==
  {Mk("stop", [St0 EXCEPT !.hasstop = TRUE, !.stop = sw, !.nmin = r[1], !.nmax = r[2]], cp, TestPlain, OneM(Len(sw) + r[2])) :
     sw \in StopSets, r \in {<<1, 1>>, <<1, 2>>, <<2, 2>>} \cup (IF Big = 1 THEN {<<1, 3>>, <<2, 3>>} ELSE {}),
     cp \in SeqsUpTo(DocsOver(W2, 0, 2 + Big), 2)}

\* written forms
Forms == << aa, <<65, 97>>, <<98, 233>>, <<98, 101, 769>>, <<66, 201>>, <<233>>, <<99>>, <<64257>>,
            <<97, 178>>, <<978, 978>>, <<120, 95, 49>>, <<69, 769>> >>
TestForms == << JoinS(Forms, SP), JoinS(<<aa, <<98, 101, 769>>, <<102, 105>>, <<97, 50>>, <<101, 769>>, <<965, 965>>, <<933, 933>>>>, SP) >>
CasesCanon ==
  LET pairs == {p \in (1..Len(Forms)) \X (1..Len(Forms)) : p[1] < p[2]}
      trainOf(p) == << Forms[p[1]] \o SP \o Forms[p[2]],
                       Forms[p[2]] \o <<59>> \o Forms[p[1]] \o <<44, 32>> \o Forms[p[2]],
                       Forms[p[1]] \o Forms[p[2]] >>
      singles == {<<Forms[q]>> : q \in 1..Len(Forms)}
      sets == {[St0 EXCEPT !.lower = lo, !.norm = no, !.tok = tk, !.nmax = 2] : lo \in BOOLEAN, no \in BOOLEAN, tk \in TokKinds}
  IN {Mk("canon", s, trainOf(p), TestForms, <<"smooth">>) : s \in sets, p \in pairs}
     \cup {Mk("canon", s, t, TestForms, <<"nonsmooth">>) : s \in sets, t \in singles}

Vocabs == { <<>>, <<aa, aa, JoinS(<<bb, aa>>, SP)>>, << <<65, 97>>, zz, bb >>, <<JoinS(<<aa, bb, aa>>, SP), bb>> }
CasesFixed ==
  {Mk("fixed", [St0 EXCEPT !.fixed = TRUE, !.vocab = vv, !.nmax = mx, !.lower = lo,
                           !.dfmin = <<1, 2>>, !.cap = 1, !.hasstop = TRUE, !.stop = <<bb>>],    \* ignored by fit_vocabulary
      <<d, JoinS(<<aa, <<65, 97>>>>, SP)>>, TestPlain, OneM(mx + Len(vv))) :
     vv \in Vocabs, mx \in 1..3, lo \in BOOLEAN, d \in DocsOver(W2, 0, 3)}

MixCorpora == { << JoinS(<<aa, bb, aa, cc>>, SP), JoinS(<<bb, <<99>>, aa>>, SP), aa, <<>> >>,
                << JoinS(<<aa, aa, aa>>, <<59, 32>>), JoinS(<<cc, bb>>, SP), JoinS(<<bb, cc, bb>>, SP) >>,
                << JoinS(<<bb, aa>>, <<45>>), JoinS(<<aa, bb>>, <<44>>) >> }
CasesMixed ==
  {Mk("mixed", [St0 EXCEPT !.tok = tk, !.nmin = r[1], !.nmax = r[2], !.dfmin = w[1], !.dfmax = w[2],
                           !.hasstop = (Len(sw) > 0), !.stop = sw, !.cap = k, !.lower = lo],
      cp, TestStair, IF Big = 1 THEN AllM ELSE OneM(k + r[2] + w[2][1])) :
     tk \in TokKinds, r \in {<<1, 1>>, <<1, 2>>, <<2, 3>>},
     w \in {<<<<0, 1>>, <<1, 1>>>>, <<<<1, 2>>, <<1, 1>>>>, <<<<1, 4>>, <<3, 4>>>>},
     sw \in {<<>>, <<aa, JoinS(<<bb, aa>>, SP)>>}, k \in {-1, 1, 3}, lo \in (IF Big = 1 THEN BOOLEAN ELSE {TRUE}),
     cp \in MixCorpora}

CasesIdf == {[kind |-> "idf", inp |-> [fam |-> "idf", n |-> n, df |-> df]] : n \in 1..(12 + 28 * Big), df \in 0..(12 + 28 * Big)}

\* history: a builder used once with settings s1 (check_ref, or a fit on train1) is re-configured through its
\* setters -- on the same value or on a clone -- to s2 (one setting changed) and fitted on train; the relation is
\* the one of a fresh builder with s2 (and, for the clone, the original must still behave as s1).
HWin(a, b) == [St0 EXCEPT !.dfmin = a, !.dfmax = b, !.tok = "re_w1"]
HStop(sw)  == [St0 EXCEPT !.hasstop = TRUE, !.stop = sw, !.nmax = 2]
HCap(k)    == [St0 EXCEPT !.cap = k, !.tok = "re_w1"]
HRange(r)  == [St0 EXCEPT !.nmin = r[1], !.nmax = r[2]]
Transitions ==
  {<<[St0 EXCEPT !.tok = a], [St0 EXCEPT !.tok = b]>> : a \in TokKinds, b \in TokKinds} 
  \cup {<<[St0 EXCEPT !.lower = x], [St0 EXCEPT !.lower = ~x]>> : x \in BOOLEAN}
  \cup {<<[St0 EXCEPT !.norm = x], [St0 EXCEPT !.norm = ~x]>> : x \in BOOLEAN}
  \cup {<<HRange(<<1, 1>>), HRange(<<1, 2>>)>>, <<HRange(<<1, 2>>), HRange(<<2, 2>>)>>, <<HRange(<<2, 3>>), HRange(<<1, 1>>)>>}
  \cup {<<HWin(<<0, 1>>, <<1, 1>>), HWin(<<1, 2>>, <<1, 1>>)>>, <<HWin(<<1, 2>>, <<1, 1>>), HWin(<<0, 1>>, <<1, 2>>)>>}
  \cup {<<[St0 EXCEPT !.nmax = 2], HStop(<<aa>>)>>, <<HStop(<<aa>>), HStop(<<bb, JoinS(<<aa, bb>>, SP)>>)>>, <<HStop(<<aa>>), HStop(<<>>)>>}
  \cup {<<HCap(-1), HCap(1)>>, <<HCap(1), HCap(-1)>>, <<HCap(1), HCap(2)>>}
HCorpA == << <<97, 32, 98, 98, 59, 32, 65, 97, 32, 99, 99, 32, 233>>,         \* "a bb; Aa cc <e-acute>"
             <<98, 98, 32, 99, 99, 45, 98, 98, 32, 97>>,                     \* "bb cc-bb a"
             <<66, 233, 32, 97, 97, 32, 64257, 32, 98, 98>> >>               \* "B<e-acute> aa <fi> bb"
HCorpB == << <<120, 95, 49, 32, 97, 97, 46, 98, 98>>, <<97, 97, 32, 97, 32, 97, 97>> >>      \* "x_1 aa.bb", "aa a aa"
HTest  == << <<97, 97, 32, 65, 97, 32, 97, 32, 98, 98, 59, 99, 99, 32, 233, 32, 122>> >>     \* "aa Aa a bb;cc <e-acute> z"
CasesHist ==
  {[kind |-> "hist",
    inp |-> [fam |-> "hist", api |-> u[1], first |-> u[2], via |-> via, st1 |-> t[1], st |-> t[2],
             train1 |-> cp[1], train |-> cp[2], test |-> HTest, methods |-> <<"smooth">>]] :
     t \in {x \in Transitions : x[1] # x[2]},
     u \in {<<"count", "check_ref">>, <<"count", "fit">>, <<"tfidf", "fit">>},
     via \in {"same", "clone"},
     cp \in {<<HCorpB, HCorpA>>, <<HCorpA, HCorpA>>}}

CasesOf(fam) ==
  CASE fam = "hist"  -> CasesHist
    [] fam = "ngram" -> CasesNgram
    [] fam = "dfwin" -> CasesDfwin
    [] fam = "cap"   -> CasesCap
    [] fam = "stop"  -> CasesStop
    [] fam = "canon" -> CasesCanon
    [] fam = "fixed" -> CasesFixed
    [] fam = "mixed" -> CasesMixed
    [] fam = "idf"   -> {x \in CasesIdf : x.inp.df <= x.inp.n}

Init == \E fam \in Fams : case \in CasesOf(fam)
Next == UNCHANGED case
Emit == PrintT("CASE " \o ToJson(case))
=============================================================================
