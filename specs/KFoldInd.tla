------------------------------ MODULE KFoldInd ------------------------------
(***************************************************************************)
(* X06 (a), array level -- Apalache-typed restatement of the in-place fold *)
(* mechanism of specs/KFold.tla (iter_fold / cross_validate of             *)
(* src/dataset/impl_dataset.rs: SwapIn, Fit.., SwapOut per fold, Yield,    *)
(* Eval..) with an inductive invariant.                                    *)
(*                                                                         *)
(* Differences to KFold.tla (all checked by the TLC cross-check of         *)
(* specs/XC_KFoldInd.tla: identical reachable state sets under the         *)
(* projection that forgets the history variables and re-tags the cells):   *)
(*  - the buffers are functions  {1..n*w} -> Int  (Apalache type           *)
(*    Int -> Int); for TLC such a function IS the sequence of KFold.tla;   *)
(*    the domain 1..m with a symbolic m is written {p \in 1..C : p <= m}   *)
(*    with the constant C = MaxN*MaxF, the form Apalache accepts;          *)
(*  - a cell is tagged with its ORIGINAL FLAT POSITION (record cell (r,c)  *)
(*    = r*f+c+1, target cell (r,c) = r*W+c+1) instead of 16r+c / 1000+4r+c *)
(*    of KFold.tla: the KFold tags need (p-1) \div f and (p-1) % f with a  *)
(*    symbolic divisor, on which z3 stalls (> 20 min for MaxN = 4, measured)*)
(*    while position tags are division-free; the tag map is a bijection   *)
(*    (XC_KFoldInd.Retag) and, unlike 16r+c, stays injective for f > 16;   *)
(*  - the history variables trains/valids/acc and the copying fold()       *)
(*    (mode "copy", which never touches the buffers) are not modelled;     *)
(*    what the fit closure sees is stated as a state predicate instead     *)
(*    (InvTrainNow);                                                       *)
(*  - every quantifier ranges over a constant set with a guard.            *)
(*                                                                         *)
(* n, k, f, t, nm stay SYMBOLIC inside the constant bounds, so one         *)
(* Apalache run covers every configuration with n <= MaxN at once.  The    *)
(* proof for ALL n, k, f, t is threefold: KFoldIndProofs.tla (TLAPS, this  *)
(* very module with arbitrary constants), KFoldIdx.tla (Apalache,          *)
(* pointwise, unbounded integers), KFoldProofs.tla (TLAPS, SwapBlocks on   *)
(* arbitrary sequences).                                                   *)
(*                                                                         *)
(* IndInv says that the buffers are a closed-form function of the control  *)
(* state: the original layout at fold boundaries, the original layout      *)
(* re-indexed by the block exchange Sigma between SwapIn and SwapOut.      *)
(* The ACTIONS use the if-cascade of the macro assist_swap_array2          *)
(* (SwapBlocks, possibly broken by Variant), the INVARIANT uses Sigma, so  *)
(* the inductive step also shows cascade = re-indexing, and involution.    *)
(***************************************************************************)
EXTENDS Integers, FiniteSets

CONSTANTS
  \* @type: Int;
  MaxN,
  \* @type: Int;
  MaxF,
  \* @type: Int;
  MaxT,
  \* @type: Int;
  MaxM,
  \* "ok" or the name of a seeded design bug (sensitivity of the proof obligations)
  \* @type: Str;
  Variant

VARIABLES
  \* @type: Int;
  n,
  \* @type: Int;
  k,
  \* @type: Int;
  f,
  \* @type: Int;
  t,
  \* @type: Str;
  mode,
  \* @type: Int;
  nm,
  \* @type: Int -> Int;
  rbuf,
  \* @type: Int -> Int;
  tbuf,
  \* @type: Int;
  i,
  \* @type: Int;
  mi,
  \* @type: Str;
  pc

vars == <<n, k, f, t, mode, nm, rbuf, tbuf, i, mi, pc>>

-----------------------------------------------------------------------------
Tw(tt)     == IF tt = 0 THEN 1 ELSE tt
MaxW       == Tw(MaxT)
\* tag of cell (r, c), 0-based, of a buffer of row width w: its original flat position
Tag(r, c, w) == r * w + c + 1

\* 1..m for a symbolic m <= cap
Pos(m, cap) == {p \in 1..cap : p <= m}

RBuf0(nn, ff) == [p \in Pos(nn * ff, MaxN * MaxF) |-> p]
TBuf0(nn, ww) == [p \in Pos(nn * ww, MaxN * MaxW) |-> p]

\* the block exchange as a map on positions: block idx (length len) <-> block 0
Sigma(p, idx, len) ==
  IF idx = 0 THEN p
  ELSE IF p <= len THEN len * idx + p
  ELSE IF p > len * idx /\ p <= len * idx + len THEN p - len * idx
  ELSE p

\* macro assist_swap_array2, as in KFold.tla (DOMAIN buf = 1..Len(buf))
\* @type: (Int -> Int, Int, Int, Int) => (Int -> Int);
SwapBlocks(buf, idx, bs, w) ==
  IF idx = 0 THEN buf
  ELSE LET len == bs * w
           start == len * idx
       IN [p \in DOMAIN buf |->
             IF p <= len THEN buf[start + p]
             ELSE IF p > start /\ p <= start + len
                    THEN (IF Variant = "copyblock" THEN buf[p] ELSE buf[p - start])
             ELSE buf[p]]

-----------------------------------------------------------------------------
Fs == n \div k
W  == Tw(t)

Init ==
  /\ n \in 2..MaxN /\ k \in 2..MaxN /\ k <= n /\ f \in 1..MaxF /\ t \in 0..MaxT
  /\ mode \in {"inplace", "cv"}
  /\ nm \in 1..MaxM /\ (mode = "inplace" => nm = 1)
  /\ rbuf = RBuf0(n, f) /\ tbuf = TBuf0(n, Tw(t))
  /\ i = 0 /\ mi = 0
  /\ pc = "swapin"

SwapIn ==
  /\ pc = "swapin"
  /\ rbuf' = SwapBlocks(rbuf, i, Fs, f)
  /\ tbuf' = SwapBlocks(tbuf, i, Fs, IF Variant = "flattargets" THEN 1 ELSE W)
  /\ pc' = "fit"
  /\ UNCHANGED <<n, k, f, t, mode, nm, i, mi>>

Fit ==
  /\ pc = "fit"
  /\ IF mi + 1 < nm THEN mi' = mi + 1 /\ pc' = "fit" ELSE mi' = 0 /\ pc' = "swapout"
  /\ UNCHANGED <<n, k, f, t, mode, nm, rbuf, tbuf, i>>

SwapOut ==
  /\ pc = "swapout"
  /\ rbuf' = SwapBlocks(rbuf, IF Variant = "wrongfold" /\ i + 1 < k THEN i + 1 ELSE i, Fs, f)
  /\ tbuf' = SwapBlocks(tbuf, i, Fs, IF Variant = "flattargets" THEN 1 ELSE W)
  /\ i' = i + 1
  /\ pc' = IF i + 1 = k THEN "yield" ELSE "swapin"
  /\ UNCHANGED <<n, k, f, t, mode, nm, mi>>

Yield ==
  /\ pc = "yield"
  /\ pc' = IF mode = "cv" THEN "eval" ELSE "done"
  /\ i' = 0 /\ mi' = 0
  /\ UNCHANGED <<n, k, f, t, mode, nm, rbuf, tbuf>>

Eval ==
  /\ pc = "eval"
  /\ IF mi + 1 < nm THEN mi' = mi + 1 /\ i' = i /\ pc' = "eval"
     ELSE /\ mi' = 0 /\ i' = i + 1 /\ pc' = IF i + 1 = k THEN "done" ELSE "eval"
  /\ UNCHANGED <<n, k, f, t, mode, nm, rbuf, tbuf>>

Next == SwapIn \/ Fit \/ SwapOut \/ Yield \/ Eval

-----------------------------------------------------------------------------
(* The inductive invariant: constrains every variable. *)

Boundary == pc \in {"swapin", "yield", "eval", "done"}

\* the buffers as a function of the control state
RBufAt == IF Boundary THEN RBuf0(n, f)
          ELSE [p \in Pos(n * f, MaxN * MaxF) |-> Sigma(p, i, Fs * f)]
TBufAt == IF Boundary THEN TBuf0(n, W)
          ELSE [p \in Pos(n * W, MaxN * MaxW) |-> Sigma(p, i, Fs * W)]

IndInv ==
  /\ n \in 2..MaxN /\ k \in 2..MaxN /\ k <= n /\ f \in 1..MaxF /\ t \in 0..MaxT
  /\ mode \in {"inplace", "cv"}
  /\ nm \in 1..MaxM /\ (mode = "inplace" => nm = 1)
  /\ pc \in {"swapin", "fit", "swapout", "yield", "eval", "done"}
  /\ i \in 0..MaxN /\ mi \in 0..(MaxM - 1) /\ mi < nm
  /\ (pc \in {"swapin", "fit", "swapout"} => i < k)
  /\ (pc = "yield" => i = k)
  /\ (pc = "eval" => mode = "cv" /\ i < k)
  /\ (pc = "done" => i = IF mode = "cv" THEN k ELSE 0)
  /\ (pc \notin {"fit", "eval"} => mi = 0)
  /\ rbuf = RBufAt
  /\ tbuf = TBufAt

-----------------------------------------------------------------------------
(* The invariants of KFold.tla, re-stated over functions with guarded constant quantifiers. *)

\* @type: (Int -> Int) => Set(Int);
RangeOf(b) == {b[p] : p \in DOMAIN b}
\* @type: (Int -> Int, Int -> Int) => Bool;
IsPerm(buf, buf0) == DOMAIN buf = DOMAIN buf0 /\ RangeOf(buf) = RangeOf(buf0)
InvPerm == IsPerm(rbuf, RBuf0(n, f)) /\ IsPerm(tbuf, TBuf0(n, W))

\* row q (0-based) of the record buffer is an intact original row rho and row q of the target buffer is
\* rho's target row (ViewWellFormed of KFold.tla)
RowHolds(q, rho) ==
  /\ \A c \in 1..MaxF : c <= f => rbuf[q * f + c] = Tag(rho, c - 1, f)
  /\ \A c \in 1..MaxW : c <= W => tbuf[q * W + c] = Tag(rho, c - 1, W)
InvRowsIntact ==
  \A q \in 0..(MaxN - 1) : q < n => \E rho \in 0..(MaxN - 1) : rho < n /\ RowHolds(q, rho)

Restored    == rbuf = RBuf0(n, f) /\ tbuf = TBuf0(n, W)
InvBoundary == Boundary => Restored
InvDone     == pc = "done" => Restored

\* what the fit closure is handed at pc = "fit" (TrainOk / ValidOk of KFold.tla as state predicates): rows
\* 0..Fs-1 hold validation block i in order, every sample outside block i sits in some row >= Fs
\* ("exactly once" is InvPerm: the tags are distinct)
InBlock(r, b) == r >= b * Fs /\ r < b * Fs + Fs
InvTrainNow ==
  pc = "fit" =>
    \A r \in 0..(MaxN - 1) : r < n =>
       IF InBlock(r, i) THEN RowHolds(r - i * Fs, r)
       ELSE \E q \in 0..(MaxN - 1) : q >= Fs /\ q < n /\ RowHolds(q, r)

Safety == InvPerm /\ InvRowsIntact /\ InvBoundary /\ InvDone /\ InvTrainNow

-----------------------------------------------------------------------------
(* Bounded form of the arithmetic lemma: SwapBlocks is an involution on ANY buffer (contents     *)
(* arbitrary integers), checked by Apalache from the pseudo-initial state LemmaInit (length 0).   *)
(* The unbounded statement is theorem SwapBlocksInvolution of KFoldProofs.tla (TLAPS).            *)
LemmaInit ==
  /\ n \in 0..MaxN /\ k \in 0..MaxN /\ f \in 0..MaxF /\ t \in 0..MaxN   \* n = rows, k = block index, f = width, t = block size
  /\ (k + 1) * t * f <= n * f
  /\ rbuf \in [Pos(n * f, MaxN * MaxF) -> Int]
  /\ tbuf = rbuf /\ i = 0 /\ mi = 0 /\ nm = 1 /\ mode = "inplace" /\ pc = "lemma"
LemmaInvolution == SwapBlocks(SwapBlocks(rbuf, k, t, f), k, t, f) = rbuf
LemmaPermutes   == /\ DOMAIN SwapBlocks(rbuf, k, t, f) = DOMAIN rbuf
                   /\ RangeOf(SwapBlocks(rbuf, k, t, f)) = RangeOf(rbuf)
                   /\ \A p \in DOMAIN rbuf : /\ Sigma(p, k, t * f) \in DOMAIN rbuf
                                             /\ SwapBlocks(rbuf, k, t, f)[p] = rbuf[Sigma(p, k, t * f)]
=============================================================================
