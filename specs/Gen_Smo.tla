------------------------------- MODULE Gen_Smo -------------------------------
(***************************************************************************)
(* Case generator for C13.  Every case is one SVM training problem on      *)
(* lattice data:                                                           *)
(*   small families : every sorted multiset (size MinSmall..MaxSmall) over *)
(*        a small alphabet of labelled 1-D points -- includes duplicated   *)
(*        points, duplicates with conflicting labels, separable,           *)
(*        overlapping and imbalanced sets -- times kernel x box            *)
(*        parameters (unequal class weights) x shrinking on/off            *)
(*   medium families : 2-D sets of MedSizes points from a deterministic    *)
(*        pseudo-random lattice walk with label / target noise, so that    *)
(*        the solver needs many more than n iterations and the shrinking   *)
(*        heuristic (every min(n,1000) iterations) runs repeatedly         *)
(* for C-/nu-classification, one-class, epsilon-/nu-regression, f64 and    *)
(* f32.  Rationals are <<num, den>>.  Magnitudes are bounded so that every *)
(* product of Trace_Smo stays below 2^31 (see SmoKkt).                     *)
(***************************************************************************)
EXTENDS Integers, Sequences, FiniteSets, TLC, Json

CONSTANTS Fams,        \* subset of {"csvc","nusvc","oneclass","esvr","nusvr","f32","offset","poly1","f32nl","ocfrac"}
          MinSmall, MaxSmall,
          Seeds, MedSizes,
          Lite         \* TRUE: reduced parameter grids for the small families (quick tier)

VARIABLE case

Kern(name) ==
  CASE name = "lin"   -> [k |-> "lin",  c |-> 0, d |-> 1, w |-> <<1, 1>>]
    [] name = "poly2" -> [k |-> "poly", c |-> 1, d |-> 2, w |-> <<1, 1>>]
    [] name = "poly3" -> [k |-> "poly", c |-> 0, d |-> 3, w |-> <<1, 1>>]
    \* degree one: linear in the samples, but (for c # 0) not the linear kernel: K = <x,x'> + c
    [] name = "p1c0"  -> [k |-> "poly", c |-> 0, d |-> 1, w |-> <<1, 1>>]
    [] name = "p1c2"  -> [k |-> "poly", c |-> 2, d |-> 1, w |-> <<1, 1>>]
    [] name = "rbf2"  -> [k |-> "rbf",  c |-> 0, d |-> 1, w |-> <<2, 1>>]
    [] name = "rbf5"  -> [k |-> "rbf",  c |-> 0, d |-> 1, w |-> <<5, 1>>]

Queries(dim) == IF dim = 1 THEN << <<-2>>, <<0>>, <<1>>, <<3>> >>
                ELSE << <<0, 0>>, <<2, -1>>, <<-3, 3>>, <<1, 1>> >>

\* extreme query points for the calibrated-probability model: lattice directions scaled by 10, 100, 1000 on
\* both sides, so that |decision value| reaches 10^2..10^4 and beyond (validity clauses only)
ExtremeQ(dim) ==
  IF dim = 1 THEN << <<-1000>>, <<-100>>, <<-10>>, <<10>>, <<100>>, <<1000>> >>
  ELSE << <<10, 10>>, <<100, 100>>, <<1000, 1000>>, <<-10, -10>>, <<-100, -100>>, <<-1000, -1000>>,
          <<10, -10>>, <<100, -100>>, <<1000, -1000>>, <<-10, 10>>, <<-100, 100>>, <<-1000, 1000>> >>

Mk(kind, x, y, dim, kern, cp, cn, nu, cc, le, shr, ft, pr) ==
  [kind |-> kind,
   inp |-> [x |-> x, y |-> y, dim |-> dim, kern |-> Kern(kern), cp |-> cp, cn |-> cn, nu |-> nu,
            c |-> cc, le |-> le, shr |-> shr, ft |-> ft, tolx |-> IF ft = "f32" THEN 3 ELSE 7,
            q |-> Queries(dim), eq |-> IF pr THEN ExtremeQ(dim) ELSE <<>>, pr |-> pr,
            off |-> 0, ue |-> 0]]

One == <<1, 1>>
Sorted(m, len) == {s \in [1..len -> 1..m] : \A i \in 1..(len - 1) : s[i] <= s[i + 1]}
Count(s, v) == Cardinality({i \in DOMAIN s : s[i] = v})

(* -------------------------------------------- small labelled 1-D sets     *)
Xs3 == <<-1, 0, 1>>
LX(l) == <<Xs3[((l - 1) % 3) + 1]>>
LY(l) == (l - 1) \div 3                       \* label 0 / 1
SmallLabelled == UNION {Sorted(6, len) : len \in MinSmall..MaxSmall}
BothLabels(s) == \E i, j \in DOMAIN s : LY(s[i]) # LY(s[j])
Npos(y) == Count(y, 1)
Nneg(y) == Count(y, 0)

W1 == << <<1, 10>>, <<1, 10>> >>
W2 == << <<1, 1>>, <<1, 1>> >>
W3 == << <<10, 1>>, <<1, 1>> >>
W4 == << <<1, 1>>, <<10, 1>> >>
\* <<kernel, <<C+, C->> >>
CsvcConfigs ==
  IF Lite THEN {<<"lin", W2>>, <<"lin", W3>>, <<"poly2", W1>>, <<"poly2", W4>>, <<"rbf2", W2>>, <<"rbf2", W3>>}
  ELSE {<<k, w>> : k \in {"lin", "poly2", "rbf2"}, w \in {W1, W2, W3, W4}}
CsvcSmall ==
  {Mk("csvc", [i \in DOMAIN s |-> LX(s[i])], [i \in DOMAIN s |-> LY(s[i])], 1, kc[1], kc[2][1], kc[2][2], One, One, One, shr, "f64", ~shr) :
     s \in {t \in SmallLabelled : BothLabels(t)},
     kc \in CsvcConfigs,
     shr \in BOOLEAN}

\* nu must be strictly feasible: nu n / 2 < min(#pos, #neg)
NuFeasible(y, nu) == LET n == Len(y) IN
  /\ nu[1] * n < 2 * nu[2] * Npos(y)
  /\ nu[1] * n < 2 * nu[2] * Nneg(y)
\* the two classes do not interleave (then the nu-SVC margin parameter r is positive)
Separable(X, y) == \/ \A i, j \in DOMAIN y : (y[i] = 0 /\ y[j] = 1) => X[i][1] < X[j][1]
                   \/ \A i, j \in DOMAIN y : (y[i] = 0 /\ y[j] = 1) => X[i][1] > X[j][1]
NusvcSmall ==
  {Mk("nusvc", [i \in DOMAIN s |-> LX(s[i])], [i \in DOMAIN s |-> LY(s[i])], 1, kern, One, One, nu, One, One, shr, "f64", ~shr) :
     s \in {t \in UNION {Sorted(6, len) : len \in (MinSmall + 1)..(MaxSmall + 1)} : BothLabels(t)},
     kern \in {"lin", "rbf2"}, nu \in {<<1, 4>>, <<1, 2>>}, shr \in BOOLEAN}

(* -------------------------------------------- small unlabelled 1-D sets   *)
Xo == <<-1, 0, 2>>
OneclassSmall ==
  {Mk("oneclass", [i \in DOMAIN s |-> <<Xo[s[i]]>>], [i \in DOMAIN s |-> 1], 1, kern, One, One, nu, One, One, shr, "f64", FALSE) :
     s \in UNION {Sorted(3, len) : len \in MinSmall..(MaxSmall + 1)},
     kern \in (IF Lite THEN {"lin", "rbf2", "p1c0", "p1c2"} ELSE {"lin", "poly2", "rbf2", "p1c0", "p1c2"}),
     nu \in {<<1, 4>>, <<1, 2>>, <<1, 1>>}, shr \in BOOLEAN}

(* -------------------------------------------- small regression sets       *)
RX(l) == <<Xs3[((l - 1) % 3) + 1]>>
RY(l) == IF (l - 1) \div 3 = 0 THEN -1 ELSE 1
E1 == << <<1, 1>>, <<1, 10>> >>          \* <<C, epsilon>>
E2 == << <<10, 1>>, <<1, 2>> >>
E3 == << <<1, 10>>, <<1, 10>> >>
EsvrSmall ==
  {Mk("esvr", [i \in DOMAIN s |-> RX(s[i])], [i \in DOMAIN s |-> RY(s[i])], 1, kc[1], One, One, One, kc[2][1], kc[2][2], shr, "f64", FALSE) :
     s \in UNION {Sorted(6, len) : len \in MinSmall..MaxSmall},
     kc \in (IF Lite THEN {<<"lin", E1>>, <<"lin", E2>>, <<"rbf2", E2>>, <<"rbf2", E3>>}
             ELSE {<<k, ce>> : k \in {"lin", "rbf2"}, ce \in {E1, E2, E3}}),
     shr \in BOOLEAN}
NusvrSmall ==
  {Mk("nusvr", [i \in DOMAIN s |-> RX(s[i])], [i \in DOMAIN s |-> RY(s[i])], 1, kern, One, One, nu, cc, One, shr, "f64", FALSE) :
     s \in UNION {Sorted(6, len) : len \in MinSmall..MaxSmall},
     kern \in {"lin"}, nu \in {<<1, 4>>, <<1, 2>>}, cc \in (IF Lite THEN {<<1, 1>>} ELSE {<<1, 1>>, <<10, 1>>}), shr \in BOOLEAN}

(* -------------------------------------------- medium 2-D sets             *)
MedX(s, n) == [i \in 1..n |-> << ((s * 5 + i * 3 + ((i * i) % 11)) % 7) - 3, ((s * 3 + i * 5 + ((i * i * i) % 13)) % 7) - 3 >>]
Noise(s, i) == (IF (i * 7 + s) % 5 = 0 THEN 3 ELSE 0) - (IF (i * 3 + s) % 7 = 0 THEN 3 ELSE 0)
MedY(s, n, thr) == LET X == MedX(s, n) IN [i \in 1..n |-> IF X[i][1] + X[i][2] + Noise(s, i) > thr THEN 1 ELSE 0]
MedR(s, n) == LET X == MedX(s, n) IN [i \in 1..n |-> X[i][1] - X[i][2] + ((i * 5 + s) % 3) - 1]

CsvcMed ==
  {Mk("csvc", MedX(s, n), MedY(s, n, thr), 2, kern, cw[1], cw[2], One, One, One, shr, "f64", ~shr) :
     s \in Seeds, n \in MedSizes, thr \in {0, 2}, kern \in {"lin", "poly2", "rbf5"},
     cw \in {<< <<1, 1>>, <<1, 1>> >>, << <<5, 1>>, <<1, 1>> >>}, shr \in BOOLEAN}
NusvcMed ==
  {Mk("nusvc", MedX(s, n), MedY(s, n, 0), 2, kern, One, One, nu, One, One, shr, "f64", ~shr) :
     s \in Seeds, n \in MedSizes, kern \in {"lin", "rbf5"}, nu \in {<<1, 4>>, <<1, 2>>}, shr \in BOOLEAN}
OneclassMed ==
  {Mk("oneclass", MedX(s, n), [i \in 1..n |-> 1], 2, kern, One, One, nu, One, One, shr, "f64", FALSE) :
     s \in Seeds, n \in MedSizes, kern \in {"lin", "rbf5", "p1c2"}, nu \in {<<1, 4>>, <<1, 2>>}, shr \in BOOLEAN}
EsvrMed ==
  {Mk("esvr", MedX(s, n), MedR(s, n), 2, kern, One, One, One, ce[1], ce[2], shr, "f64", FALSE) :
     s \in Seeds, n \in MedSizes, kern \in {"lin", "poly2", "rbf5"},
     ce \in {<< <<1, 1>>, <<1, 10>> >>, << <<10, 1>>, <<1, 2>> >>}, shr \in BOOLEAN}
NusvrMed ==
  {Mk("nusvr", MedX(s, n), MedR(s, n), 2, kern, One, One, nu, <<1, 1>>, One, shr, "f64", FALSE) :
     s \in Seeds, n \in MedSizes, kern \in {"lin", "rbf5"}, nu \in {<<1, 4>>, <<1, 2>>}, shr \in BOOLEAN}

(* -------------------------------------------- f32                         *)
F32Cases ==
  {Mk("csvc", [i \in DOMAIN s |-> LX(s[i])], [i \in DOMAIN s |-> LY(s[i])], 1, kern, <<1, 1>>, <<1, 2>>, One, One, One, shr, "f32", ~shr) :
     s \in {t \in SmallLabelled : BothLabels(t)}, kern \in (IF Lite THEN {"lin"} ELSE {"lin", "rbf2"}), shr \in BOOLEAN}
  \cup
  {Mk("esvr", [i \in DOMAIN s |-> RX(s[i])], [i \in DOMAIN s |-> RY(s[i])], 1, "lin", One, One, One, <<1, 1>>, <<1, 10>>, shr, "f32", FALSE) :
     s \in UNION {Sorted(6, len) : len \in MinSmall..MaxSmall}, shr \in BOOLEAN}
  \cup
  {Mk("csvc", MedX(s, n), MedY(s, n, 0), 2, "lin", <<2, 1>>, <<1, 1>>, One, One, One, shr, "f32", FALSE) :
     s \in Seeds, n \in MedSizes, shr \in BOOLEAN}

(* -------------------------------------------- shifted records (Gaussian kernel)                        *)
(* The Gaussian kernel is shift-invariant: the harness adds the integer `off` to every coordinate of the    *)
(* records and of the query points, optionally in lattice units of 2^-ue with the kernel width scaled by     *)
(* 4^-ue (all exactly representable: 24 significant bits for f32, 53 for f64), the                          *)
(* specification keeps evaluating the relation on the un-shifted lattice points.  A backward-stable        *)
(* implementation returns the same model for shifted and centred data (the coordinate differences are      *)
(* exact); computing |x|^2 + |x'|^2 - 2<x,x'> instead cancels catastrophically and is rejected by the      *)
(* KKT clauses.                                                                                             *)
\* `ue`: the lattice unit is 2^-ue (records off + v * 2^-ue, kernel width w * 4^-ue: the same kernel matrix, exactly)
Shift(k, o) == [k EXCEPT !.inp.off = o[1], !.inp.ue = o[2], !.inp.ft = o[3], !.inp.tolx = IF o[3] = "f32" THEN 3 ELSE 7]
OffsetsMed   == {<<1000000, 10, "f64">>, <<10000000, 10, "f64">>, <<1073741824, 0, "f64">>,
                 <<128, 10, "f32">>, <<1024, 8, "f32">>, <<4096, 0, "f32">>}
OffsetsSmall == {<<10000000, 8, "f64">>, <<1000000, 12, "f64">>, <<128, 10, "f32">>, <<4096, 0, "f32">>}
OffMedBase ==
  {Mk("csvc", MedX(s, 12), MedY(s, 12, 0), 2, "rbf5", cw[1], cw[2], One, One, One, shr, "f64", ~shr) :
     s \in Seeds, cw \in {W2, << <<5, 1>>, <<1, 1>> >>}, shr \in BOOLEAN}
  \cup {k \in {Mk("nusvc", MedX(s, 12), MedY(s, 12, 0), 2, "rbf5", One, One, nu, One, One, shr, "f64", ~shr) :
                 s \in Seeds, nu \in {<<1, 4>>, <<1, 2>>}, shr \in BOOLEAN} : NuFeasible(k.inp.y, k.inp.nu)}
  \cup {Mk("oneclass", MedX(s, 12), [i \in 1..12 |-> 1], 2, "rbf5", One, One, nu, One, One, shr, "f64", FALSE) :
          s \in Seeds, nu \in {<<1, 4>>, <<1, 2>>}, shr \in BOOLEAN}
  \cup {Mk("esvr", MedX(s, 12), MedR(s, 12), 2, "rbf5", One, One, One, ce[1], ce[2], shr, "f64", FALSE) :
          s \in Seeds, ce \in {E1, E2}, shr \in BOOLEAN}
OffSmallBase ==
  {Mk("csvc", [i \in DOMAIN s |-> LX(s[i])], [i \in DOMAIN s |-> LY(s[i])], 1, "rbf2", W2[1], W2[2], One, One, One, shr, "f64", ~shr) :
     s \in {t \in Sorted(6, MinSmall) : BothLabels(t)}, shr \in BOOLEAN}
  \cup {Mk("esvr", [i \in DOMAIN s |-> RX(s[i])], [i \in DOMAIN s |-> RY(s[i])], 1, "rbf2", One, One, One, E2[1], E2[2], shr, "f64", FALSE) :
          s \in Sorted(6, MinSmall), shr \in BOOLEAN}
OffsetCases ==
  {Shift(k, o) : k \in {b \in OffMedBase : b.kind # "csvc" \/ (Npos(b.inp.y) > 0 /\ Nneg(b.inp.y) > 0)}, o \in OffsetsMed}
  \cup {Shift(k, o) : k \in OffSmallBase, o \in OffsetsSmall}

(* -------------------------------------------- polynomial kernels of degree one, every formulation       *)
(* K = <x,x'> + c is linear in the samples; with c # 0 it is not the linear kernel (a pre-combined          *)
(* hyperplane loses c * sum(alpha), which only vanishes under an equality constraint sum = 0).              *)
Poly1Cases ==
  {Mk("csvc", [i \in DOMAIN s |-> LX(s[i])], [i \in DOMAIN s |-> LY(s[i])], 1, kc[1], kc[2][1], kc[2][2], One, One, One, shr, "f64", ~shr) :
     s \in {t \in Sorted(6, MinSmall) : BothLabels(t)}, kc \in {<<"p1c0", W2>>, <<"p1c2", W3>>}, shr \in BOOLEAN}
  \cup {k \in {Mk("nusvc", [i \in DOMAIN s |-> LX(s[i])], [i \in DOMAIN s |-> LY(s[i])], 1, kern, One, One, <<1, 2>>, One, One, shr, "f64", ~shr) :
                 s \in {t \in Sorted(6, MinSmall + 1) : BothLabels(t)}, kern \in {"p1c0", "p1c2"}, shr \in BOOLEAN} :
          NuFeasible(k.inp.y, k.inp.nu) /\ Separable(k.inp.x, k.inp.y)}
  \cup {Mk("esvr", [i \in DOMAIN s |-> RX(s[i])], [i \in DOMAIN s |-> RY(s[i])], 1, kc[1], One, One, One, kc[2][1], kc[2][2], shr, "f64", FALSE) :
          s \in Sorted(6, MinSmall), kc \in {<<"p1c0", E1>>, <<"p1c2", E2>>}, shr \in BOOLEAN}
  \cup {Mk("nusvr", [i \in DOMAIN s |-> RX(s[i])], [i \in DOMAIN s |-> RY(s[i])], 1, "p1c2", One, One, <<1, 2>>, One, One, shr, "f64", FALSE) :
          s \in Sorted(6, MinSmall), shr \in BOOLEAN}
  \cup {k \in {Mk("csvc", MedX(s, 12), MedY(s, 12, 0), 2, "p1c2", <<5, 1>>, One, One, One, One, shr, "f64", ~shr) :
                 s \in Seeds, shr \in BOOLEAN} : Npos(k.inp.y) > 0 /\ Nneg(k.inp.y) > 0}
  \cup {k \in {Mk("nusvc", MedX(s, 12), MedY(s, 12, 0), 2, "p1c2", One, One, <<1, 4>>, One, One, shr, "f64", ~shr) :
                 s \in Seeds, shr \in BOOLEAN} : NuFeasible(k.inp.y, k.inp.nu)}
  \cup {Mk("esvr", MedX(s, 12), MedR(s, 12), 2, "p1c2", One, One, One, E2[1], E2[2], shr, "f64", FALSE) : s \in Seeds, shr \in BOOLEAN}
  \cup {Mk("nusvr", MedX(s, 12), MedR(s, 12), 2, "p1c2", One, One, <<1, 4>>, One, One, shr, "f64", FALSE) : s \in Seeds, shr \in BOOLEAN}
  \cup {Mk("oneclass", [i \in DOMAIN s |-> <<Xo[s[i]]>>], [i \in DOMAIN s |-> 1], 1, "p1c2", One, One, <<1, 2>>, One, One, shr, "f32", FALSE) :
          s \in Sorted(3, MinSmall + 1), shr \in BOOLEAN}

(* -------------------------------------------- f32 x non-linear kernel x unequal class weights           *)
(* 2-D sets on the 5 x 5 grid -2..2 (16..32 points, so many duplicated points, some with conflicting      *)
(* labels), small unequal class weights: the paired clipping of the f32 SMO update leaves coefficient     *)
(* residues of a few 1e-9, which the support-vector selection and nsupport must treat alike.              *)
DupX(s, n) == [i \in 1..n |-> << ((s * 5 + i * 3 + ((i * i) % 11)) % 5) - 2, ((s * 3 + i * 5 + ((i * i * i) % 13)) % 5) - 2 >>]
DupY(s, n) == LET X == DupX(s, n) IN [i \in 1..n |-> IF X[i][1] + X[i][2] + Noise(s, i) > 0 THEN 1 ELSE 0]
F32NonLinear ==
  {k \in {Mk("csvc", DupX(s, n), DupY(s, n), 2, kern, cw[1], cw[2], One, One, One, shr, "f32", ~shr) :
            s \in 1..(IF Lite THEN 8 ELSE 16), n \in {16, 24, 32}, kern \in {"rbf5", "poly2"},
            cw \in {<< <<1, 20>>, <<1, 5>> >>, << <<1, 5>>, <<1, 20>> >>}, shr \in BOOLEAN} :
     Npos(k.inp.y) > 0 /\ Nneg(k.inp.y) > 0}
  \cup {Mk("esvr", DupX(s, 16), MedR(s, 16), 2, kern, One, One, One, <<1, 5>>, <<1, 2>>, shr, "f32", FALSE) :
          s \in 1..4, kern \in {"rbf5", "poly2"}, shr \in BOOLEAN}

(* -------------------------------------------- one-class with a fractional budget nu * n, frac >= 1/2    *)
OneclassFrac ==
  {Mk("oneclass", DupX(s, n), [i \in 1..n |-> 1], 2, kern, One, One, nu, One, One, shr, "f64", FALSE) :
     s \in 1..2, n \in {5, 12, 25}, nu \in {<<3, 10>>, <<7, 10>>}, kern \in {"lin", "rbf5", "p1c2"}, shr \in BOOLEAN}

All ==
  (IF "f32nl" \in Fams THEN F32NonLinear ELSE {}) \cup
  (IF "ocfrac" \in Fams THEN OneclassFrac ELSE {}) \cup
  (IF "poly1" \in Fams THEN Poly1Cases ELSE {}) \cup
  (IF "offset" \in Fams THEN OffsetCases ELSE {}) \cup
  (IF "csvc" \in Fams THEN CsvcSmall \cup {k \in CsvcMed : Npos(k.inp.y) > 0 /\ Nneg(k.inp.y) > 0} ELSE {}) \cup
  (IF "nusvc" \in Fams
     THEN {k \in NusvcSmall : NuFeasible(k.inp.y, k.inp.nu) /\ Separable(k.inp.x, k.inp.y)}
          \cup {k \in NusvcMed : NuFeasible(k.inp.y, k.inp.nu)}
     ELSE {}) \cup
  (IF "oneclass" \in Fams THEN OneclassSmall \cup OneclassMed ELSE {}) \cup
  (IF "esvr" \in Fams THEN EsvrSmall \cup EsvrMed ELSE {}) \cup
  (IF "nusvr" \in Fams THEN NusvrSmall \cup NusvrMed ELSE {}) \cup
  (IF "f32" \in Fams THEN {k \in F32Cases : k.kind # "csvc" \/ (Npos(k.inp.y) > 0 /\ Nneg(k.inp.y) > 0)} ELSE {})

Init == case \in All
Next == UNCHANGED case
Emit == PrintT("CASE " \o ToJson(case))
=============================================================================
