-------------------------- MODULE Gen_Incremental --------------------------
(* Case generator for C15.  A case is a *history*: a dataset (or a sequence of batches) on an integer   *)
(* lattice together with an ordered cut into non-empty batches, and the hyper-parameters.              *)
(*   gnb    : Gaussian naive Bayes, 1-D lattice {0,1,3}, two classes, every dataset of <= GnbN rows,   *)
(*            every composition (2^(n-1) cuts, class-incomplete batches included), three smoothings    *)
(*   mnb    : multinomial naive Bayes, 2 count features {0,1,2}, two classes, <= MnbN rows, every cut, *)
(*            alpha in {0, 1/2, 1}                                                                     *)
(*   kmeans : mini-batch k-means, 1-D points {0,1,2,4}, two precomputed centroids, <= KmN points,      *)
(*            every cut, tolerances {1/2, 3/4, 3/2, 5/2}, metrics L2 / L1 / Linf                       *)
(*   ftrl   : one update from a chosen (z, n), every batch of <= 2 rows over x in {-1,0,1,2}, d = 1    *)
(* The orchestrator (props/c15.py) keeps the complete low-size sub-domains and a seeded sample of the   *)
(* largest size, and adds seeded random multi-feature / multi-batch histories of the same schema.      *)
EXTENDS Integers, Sequences, FiniteSets, TLC, Json

CONSTANTS GnbN, MnbN, KmN, FtRows

VARIABLE case

RECURSIVE Compositions(_)
Compositions(nn) == IF nn = 0 THEN {<<>>} ELSE UNION {{<<first>> \o rest : rest \in Compositions(nn - first)} : first \in 1..nn}

R(a, b) == [num |-> a, den |-> b]
Seq1(f, nn) == [i \in 1..nn |-> <<f[i]>>]

GnbCase ==
  \E nn \in 1..GnbN :
  \E rows \in [1..nn -> {0, 1, 3}], labs \in {l \in [1..nn -> 0..1] : l[1] = 0}, cut \in Compositions(nn),
     vs \in {R(0, 1), R(1, 1000000000), R(1, 1)} :
    case = [kind |-> "gnb",
            inp |-> [d |-> 1, rows |-> Seq1(rows, nn), labels |-> labs, cuts |-> cut, vs |-> vs,
                     queries |-> <<<<0>>, <<1>>, <<2>>, <<4>>>>]]

MnbRowTypes == {<<a, bb>> : a \in 0..2, bb \in 0..2}
MnbCase ==
  \E nn \in 1..MnbN :
  \E rows \in [1..nn -> MnbRowTypes], labs \in {l \in [1..nn -> 0..1] : l[1] = 0}, cut \in Compositions(nn),
     alpha \in {R(0, 1), R(1, 2), R(1, 1)} :
    case = [kind |-> "mnb",
            inp |-> [d |-> 2, rows |-> rows, labels |-> labs, cuts |-> cut, alpha |-> alpha,
                     queries |-> <<<<0, 0>>, <<1, 0>>, <<0, 2>>, <<1, 1>>, <<3, 1>>>>]]

\* split a sequence according to a composition
RECURSIVE Split(_, _)
Split(s, cut) == IF cut = <<>> THEN <<>> ELSE <<SubSeq(s, 1, cut[1])>> \o Split(SubSeq(s, cut[1] + 1, Len(s)), Tail(cut))

\* tolerances strictly between attainable shifts and their squares, above and below 1: a movement d with
\* tol <= d < tol^2 (tol > 1) or tol^2 <= d < tol (tol < 1) separates "distance < tol" from "squared < tol^2"
\* for the metrics whose reduced distance is the distance itself (L1, Linf)
KmCase ==
  \E nn \in 1..KmN :
  \E pts \in [1..nn -> {0, 1, 2, 4}], cut \in Compositions(nn), tol \in {R(1, 2), R(3, 4), R(3, 2), R(5, 2)},
     cent \in {<<<<0>>, <<4>>>>, <<<<1>>, <<1>>>>, <<<<3>>, <<0>>>>}, metric \in {"l2", "l1", "linf"} :
    case = [kind |-> "kmeans",
            inp |-> [d |-> 1, k |-> 2, init |-> "pre", cent |-> cent, nruns |-> 1, seed |-> 1, tol |-> tol, metric |-> metric,
                     batches |-> Split(Seq1(pts, nn), cut)]]

FtHypers == {[alpha |-> R(1, 2), beta |-> R(1, 1), l1 |-> R(1, 2), l2 |-> R(1, 2)],
             [alpha |-> R(1, 10), beta |-> R(1, 2), l1 |-> R(1, 4), l2 |-> R(1, 1)],
             [alpha |-> R(1, 1), beta |-> R(1, 2), l1 |-> R(0, 1), l2 |-> R(0, 1)]}
FtRowTypes == {<<x, y>> : x \in {-1, 0, 1, 2}, y \in BOOLEAN}
FtCase ==
  \E nr \in 1..FtRows :
  \E rs \in [1..nr -> FtRowTypes], h \in FtHypers,
     z0 \in {R(-1, 1), R(-1, 2), R(0, 1), R(1, 4), R(1, 2), R(1, 1), R(2, 1)}, n0 \in {R(0, 1), R(1, 4), R(1, 1)} :
    case = [kind |-> "ftrl",
            inp |-> [d |-> 1, hyper |-> h, seed |-> 1, init |-> "given", z0 |-> <<z0>>, n0 |-> <<n0>>,
                     batches |-> <<[x |-> [i \in 1..nr |-> <<rs[i][1]>>], y |-> [i \in 1..nr |-> rs[i][2]]]>>]]

Init == GnbCase \/ MnbCase \/ KmCase \/ FtCase
Next == UNCHANGED case
Emit == PrintT("CASE " \o ToJson(case))
=============================================================================
