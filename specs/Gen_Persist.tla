---------------------------- MODULE Gen_Persist ----------------------------
(* Case generator for C19: every catalogue type x float type x configuration x data seed x     *)
(* chain of formats.  A chain <<f1, .., fk>> sends the original through f1, the restored value *)
(* through f2, and so on; every link is observed.                                               *)
EXTENDS Naturals, Sequences, TLC, Json, PersistTypes

CONSTANTS MaxData,     \* data seeds 1..MaxData
          MaxChain,    \* longest chain of formats
          MaxWideChain \* longest chain of formats for the wide cases

VARIABLE case

Formats == {"bincode", "json"}
RECURSIVE Chains(_)
Chains(n) == IF n = 0 THEN {<<>>} ELSE {Append(s, f) : s \in Chains(n - 1), f \in Formats}
\* all chains up to length 2; longer ones alternate (the interesting case: a document of one format made from a value restored from the other)
Alternating(s) == \A i \in 1..(Len(s) - 1) : s[i] # s[i + 1]
FmtSeqs == UNION {{s \in Chains(n) : n <= 2 \/ Alternating(s)} : n \in 1..MaxChain}

Init ==
  \E i \in 1..Len(Catalogue) :
  LET t == Catalogue[i] IN
  \E v \in 0..(t.nvar - 1), ft \in (IF t.gen THEN {"f32", "f64"} ELSE {"f64"}), fm \in FmtSeqs, d \in 1..MaxData,
     w \in (IF t.wide THEN {0, 1, 2} ELSE {0}) :
    \* data seeds only matter where something is fitted or drawn
    /\ (t.role \in {"plain", "sweep"} => d = 1)
    \* wide cases (8..12 features, all calling forms): chains up to MaxWideChain
    /\ (w >= 1 => Len(fm) <= MaxWideChain)
    /\ case = [kind |-> t.role,
               inp |-> [type |-> t.name, ft |-> ft, var |-> v, data |-> d, wide |-> w, fmts |-> fm]]

Next == UNCHANGED case
Emit == PrintT("CASE " \o ToJson(case))

\* thorough tier (INIT InitOffer): one "offer" case per catalogue type -- does the type implement the serde
\* traits when only its own crate's `serde` feature is enabled?  (answered by the compile-time probes of
\* props/c19.py, judged by Trace_Persist.TOffer)
InitOffer ==
  \E i \in 1..Len(Catalogue) :
     case = [kind |-> "offer", inp |-> [type |-> Catalogue[i].name, role |-> Catalogue[i].role]]
=============================================================================
