---------------------------- MODULE Gen_Logistic ----------------------------
(***************************************************************************)
(* Case generator for C12 (logistic part).  TLC enumerates small lattice   *)
(* classification data sets: sorted 1-D designs x over 0..XMax with every  *)
(* surjective label vector, lifted to several feature forms                *)
(*   p1    : one feature x                 x10/x30: one feature 10 x / 30 x*)
(*   w30   : one feature with values 0, 1, 30, 45 (x >= 2 -> 15 x): rows of *)
(*           very different magnitude in one data set                      *)
(*   p2alt : (x, row parity)               p2sq  : (x, (x-1)^2)            *)
(*   p2c   : (x, 1)  -- a constant column, collinear with the intercept    *)
(*   p2mix : (10 x, row parity) -- features of different scale             *)
(* in two sample orders (as enumerated / reversed), alpha in {0,1/10,1},   *)
(* with / without intercept.  alpha = 0 is generated only for data that is *)
(* not (quasi-)separable: NonSep below is the exact criterion for the      *)
(* existence of a finite maximum-likelihood estimate (Albert & Anderson    *)
(* 1984) on full-rank designs with p <= 2; rank-deficient designs are      *)
(* skipped for alpha = 0.  For the multinomial model every pair of classes *)
(* must be non-separable (then no direction of recession exists).          *)
(* Initial parameters: none, or one of five small integer tables (zero     *)
(* mean across the classes, a common offset of -2 / +2, all -2, irregular);*)
(* InitProbe multiplies the tables over non-separable designs with alpha=0.*)
(* Label type (bool / usize / String), label naming (which name the class  *)
(* index gets, i.e. order of the names) and optional initial parameters    *)
(* are spread over the data sets by a hash of the data set (Mix = FALSE) or*)
(* label type x naming fully multiplied (Mix = TRUE, thorough tier).       *)
(***************************************************************************)
EXTENDS Integers, Sequences, FiniteSets, TLC, Json

CONSTANTS NBin,      \* set of sample counts, binary model
          NMul,      \* set of sample counts, multinomial model
          XMaxB, XMaxM,
          KMul,      \* set of class counts for the multinomial model
          FormsB, FormsM,
          ThinBD, ThinB, ThinMD, ThinM,   \* hash moduli: data sets / configurations kept (1 = keep all)
          BigSet, ThinS,  \* feature-scale probes: large feature values, hash modulus
          ThinP,          \* initial-parameter probes: hash modulus
          Mix        \* TRUE: label type x naming x init fully multiplied

VARIABLE case

Sorted(n, hi) == {s \in [1..n -> 0..hi] : \A q \in 1..(n - 1) : s[q] <= s[q + 1]}
Surj(n, K) == IF n < K THEN {} ELSE {t \in [1..n -> 0..(K - 1)] : \A k \in 0..(K - 1) : \E q \in 1..n : t[q] = k}

RECURSIVE SumTo(_, _)
SumTo(f, n) == IF n = 0 THEN 0 ELSE f[n] + SumTo(f, n - 1)
Hash(xs, ts) == SumTo([q \in 1..Len(xs) |-> (q + 1) * (xs[q] + 1) * (ts[q] + 2) + q * q * ts[q]], Len(xs))

Row(form, x, q) ==
  CASE form = "p1" -> <<x>>
    [] form = "x10" -> <<10 * x>>
    [] form = "x30" -> <<30 * x>>
    [] form = "w30" -> <<IF x >= 2 THEN 15 * x ELSE x>>
    [] form = "p2alt" -> <<x, q % 2>>
    [] form = "p2sq" -> <<x, (x - 1) * (x - 1)>>
    [] form = "p2c" -> <<x, 1>>
    [] form = "p2mix" -> <<10 * x, q % 2>>
RowsOf(form, xs) == [q \in 1..Len(xs) |-> Row(form, xs[q], q)]
Rev(s) == [q \in 1..Len(s) |-> s[Len(s) + 1 - q]]

\* ---------------------------------------------------------------------------------------------
\* exact non-separability (no weak separator) for p <= 2; FALSE on rank-deficient p = 2 designs
MinS(A) == CHOOSE v \in A : \A u \in A : v <= u
MaxS(A) == CHOOSE v \in A : \A u \in A : v >= u
WeakSep(v, sg) == (\A q \in 1..Len(v) : sg[q] * v[q] >= 0) /\ (\E q \in 1..Len(v) : v[q] # 0)
F2(a, b, x) == (b[1] - a[1]) * (x[2] - a[2]) - (b[2] - a[2]) * (x[1] - a[1])
NonSep(rows, t, icpt) ==
  LET n == Len(rows)
      sg == [q \in 1..n |-> 2 * t[q] - 1]
  IN
  IF Len(rows[1]) = 1 THEN
     IF icpt THEN
        LET A == {rows[q][1] : q \in {q \in 1..n : t[q] = 0}}
            B == {rows[q][1] : q \in {q \in 1..n : t[q] = 1}}
        IN A # {} /\ B # {} /\ MaxS(A) > MinS(B) /\ MaxS(B) > MinS(A)
     ELSE (\E q \in 1..n : sg[q] * rows[q][1] > 0) /\ (\E q \in 1..n : sg[q] * rows[q][1] < 0)
  ELSE IF icpt THEN
     /\ \E a, b, cc \in 1..n : F2(rows[a], rows[b], rows[cc]) # 0
     /\ \A a, b \in 1..n : rows[a] # rows[b] =>
           LET v == [q \in 1..n |-> F2(rows[a], rows[b], rows[q])] IN
           ~WeakSep(v, sg) /\ ~WeakSep([q \in 1..n |-> -v[q]], sg)
  ELSE
     /\ \E a, b \in 1..n : rows[a][1] * rows[b][2] - rows[a][2] * rows[b][1] # 0
     /\ \A a \in 1..n : rows[a] # <<0, 0>> =>
           LET v == [q \in 1..n |-> rows[a][1] * rows[q][2] - rows[a][2] * rows[q][1]] IN
           ~WeakSep(v, sg) /\ ~WeakSep([q \in 1..n |-> -v[q]], sg)

\* multinomial: every pair of classes, restricted to its own rows, is non-separable
SelectIdx(t, S2) == {q \in 1..Len(t) : t[q] \in S2}
RECURSIVE SeqOfSet(_)
SeqOfSet(I) == IF I = {} THEN <<>> ELSE LET m == MinS(I) IN <<m>> \o SeqOfSet(I \ {m})
PairNonSep(rows, t, ka, kb, icpt) ==
  LET idx == SeqOfSet(SelectIdx(t, {ka, kb}))
      r2 == [q \in 1..Len(idx) |-> rows[idx[q]]]
      t2 == [q \in 1..Len(idx) |-> IF t[idx[q]] = kb THEN 1 ELSE 0]
  IN NonSep(r2, t2, icpt)
MultiNonSep(rows, t, K, icpt) == \A ka, kb \in 0..(K - 1) : ka < kb => PairNonSep(rows, t, ka, kb, icpt)

\* ---------------------------------------------------------------------------------------------
NamesFor(lt, K, v) ==
  CASE lt = "bool" -> IF v = 0 THEN <<"false", "true">> ELSE <<"true", "false">>
    [] lt = "usize" -> IF v = 0 THEN SubSeq(<<"0", "1", "2", "3">>, 1, K) ELSE SubSeq(<<"7", "3", "12", "5">>, 1, K)
    [] lt = "string" -> IF v = 0 THEN SubSeq(<<"ant", "bee", "cat", "dog">>, 1, K) ELSE SubSeq(<<"dog", "Cat", "ant", "bee">>, 1, K)
LTypes(K) == IF K = 2 THEN <<"usize", "string", "bool">> ELSE <<"usize", "string", "usize">>

Thrs(n, p) == << [k |-> "default"], [k |-> "frac", a |-> 1, b |-> 4], [k |-> "row", r |-> 1],
                 [k |-> "row", r |-> n + 2], [k |-> "frac", a |-> 0, b |-> 1], [k |-> "frac", a |-> 1, b |-> 1],
                 [k |-> "row", r |-> n + 1] >>
QRows(p) == IF p = 1 THEN << <<0>>, <<1000>>, <<-1000>> >>
            ELSE << <<0, 0>>, <<1000, 1000>>, <<-1000, -1000>>, <<1000, -1000>> >>
\* validity-only query rows: both signs, magnitudes 10^2 and 10^4 (10^3 is in QRows, where the value is checked too)
QVRows(p) == IF p = 1 THEN << <<100>>, <<-100>>, <<10000>>, <<-10000>> >>
             ELSE << <<100, 100>>, <<-100, -100>>, <<10000, 10000>>, <<-10000, -10000>>, <<10000, -10000>> >>
InitVec == <<10, -10, 5>>
\* index of the initial-parameter table of a variant: 0 = none (half of the cases), 1..5 see InitB / InitM
IvOf(h) == IF h % 10 < 5 THEN 0 ELSE (h % 10) - 4

Variants(h, K) ==
  IF Mix THEN {[lt |-> LTypes(K)[l], nv |-> v, init |-> IvOf(h + 3 * l + 7 * v)] : l \in 1..3, v \in {0, 1}}
  ELSE {[lt |-> LTypes(K)[(h % 3) + 1], nv |-> (h \div 3) % 2, init |-> IvOf(h \div 6)]}

FormIdx(form) == CASE form = "p1" -> 0 [] form = "x10" -> 1 [] form = "p2alt" -> 2 [] form = "p2sq" -> 3
                     [] form = "p2c" -> 4 [] form = "p2mix" -> 5 [] form = "x30" -> 6 [] form = "w30" -> 7
PofForm(form) == Len(Row(form, 0, 1))
Ord(seq, rv) == IF rv = 1 THEN Rev(seq) ELSE seq
\* user-supplied initial parameters (value v/10), small integer tables enumerated by TLC.
\* binary (vector of p (+1) entries): 1 mixed signs, 2 all -2, 3 all +2, 4 alternating -2 / +2, 5 as 1
InitB(iv, p, ic) ==
  LET m == p + (IF ic THEN 1 ELSE 0) IN
  CASE iv = 0 -> <<>>
    [] iv = 2 -> [j \in 1..m |-> -20]
    [] iv = 3 -> [j \in 1..m |-> 20]
    [] iv = 4 -> [j \in 1..m |-> IF j % 2 = 1 THEN -20 ELSE 20]
    [] OTHER -> SubSeq(InitVec, 1, m)
\* multinomial (p (+1) rows of K entries): 1 zero mean across the classes; 2 / 3 the same plus a common offset of
\* -2 / +2 in every row (the soft-max is invariant under a common offset; for alpha = 0 the optimiser preserves it, so
\* the fitted scores of a row with large |x| are all hugely negative or positive); 4 every entry -2; 5 an irregular table
ZeroMeanD(K) == CASE K = 2 -> <<6, -6>> [] K = 3 -> <<9, -3, -6>> [] K = 4 -> <<9, -3, -6, 0>>
ZeroMean(j, k, K) == (IF j % 2 = 1 THEN 1 ELSE -1) * ZeroMeanD(K)[k]
InitM(iv, p, ic, K) ==
  LET m == p + (IF ic THEN 1 ELSE 0) IN
  CASE iv = 0 -> <<>>
    [] iv = 1 -> [j \in 1..m |-> [k \in 1..K |-> ZeroMean(j, k, K)]]
    [] iv = 2 -> [j \in 1..m |-> [k \in 1..K |-> ZeroMean(j, k, K) - 20]]
    [] iv = 3 -> [j \in 1..m |-> [k \in 1..K |-> ZeroMean(j, k, K) + 20]]
    [] iv = 4 -> [j \in 1..m |-> [k \in 1..K |-> -20]]
    [] OTHER -> [j \in 1..m |-> [k \in 1..K |-> (((j * 7 + k * 11) % 9) - 4) * 3]]

Code(form, an, ic, rv) == FormIdx(form) + 8 * (IF an = 0 THEN 0 ELSE IF an = 1 THEN 1 ELSE 2) + 24 * (IF ic THEN 1 ELSE 0) + 48 * rv
\* thinning: a data set is kept iff Hash % ThinD = 0; a configuration of a kept data set iff (Hash + code) % ThinC = 0
BinInit ==
  \E n \in NBin : \E xs \in Sorted(n, XMaxB), ts \in Surj(n, 2) :
    /\ Hash(xs, ts) % ThinBD = 0
    /\ \E form \in FormsB, an \in {0, 1, 10}, ic \in BOOLEAN, rv \in {0, 1} :
        LET h == 31 * Hash(xs, ts) + 17 * Code(form, an, ic, rv)
            rows == Ord(RowsOf(form, xs), rv)
            yy == Ord(ts, rv)
            p == PofForm(form)
        IN /\ h % ThinB = 0
           /\ an = 0 => NonSep(rows, yy, ic)
           /\ \E var \in Variants(h \div ThinB, 2) :
                case = [kind |-> "bin",
                        inp |-> [x |-> rows, y |-> yy, p |-> p, q |-> QRows(p), qv |-> QVRows(p),
                                 lt |-> var.lt, names |-> NamesFor(var.lt, 2, var.nv),
                                 an |-> an, ad |-> 10, icpt |-> ic, init |-> InitB(var.init, p, ic),
                                 thrs |-> Thrs(n, p), maxit |-> 2000, te |-> IF (h \div 7) % 4 = 0 THEN 4 ELSE 6]]

\* the multinomial model needs n >= 2 K rows for alpha = 0 (every pair of classes non-separable); for n >= 6 the
\* design is restricted to x in {0, 1} to keep the enumeration small
XMaxOf(n) == IF n >= 6 THEN 1 ELSE XMaxM
MulInit ==
  \E n \in NMul, K \in KMul : \E xs \in Sorted(n, XMaxOf(n)), ts \in Surj(n, K) :
    /\ Hash(xs, ts) % ThinMD = 0
    /\ \E form \in FormsM, an \in {0, 1, 10}, ic \in BOOLEAN, rv \in {0, 1} :
        LET h == 31 * Hash(xs, ts) + 17 * Code(form, an, ic, rv)
            rows == Ord(RowsOf(form, xs), rv)
            yy == Ord(ts, rv)
            p == PofForm(form)
        IN /\ h % ThinM = 0
           /\ an = 0 => MultiNonSep(rows, yy, K, ic)
           /\ \E var \in Variants(h \div ThinM, K) :
                case = [kind |-> "multi",
                        inp |-> [x |-> rows, y |-> yy, p |-> p, q |-> QRows(p), qv |-> QVRows(p),
                                 lt |-> var.lt, names |-> NamesFor(var.lt, K, var.nv),
                                 an |-> an, ad |-> 10, icpt |-> ic, init |-> InitM(var.init, p, ic, K),
                                 maxit |-> 2000, te |-> IF (h \div 7) % 4 = 0 THEN 4 ELSE 6]]

\* feature-scale probes for the multinomial model: three rows near the origin and one or two rows at B (rows whose
\* scores differ by far more than 34 = -ln(1e-15) from the largest score of the data set), all 3-class labelings
ScalePatterns(B) == {<<0, 0, 1, B>>, <<0, 1, 1, B>>, <<1, B, 0, 0>>, <<0, 1, B, B>>}
ScaleInit ==
  \E B \in BigSet : \E xs \in ScalePatterns(B), ts \in Surj(4, 3), ic \in BOOLEAN, ii \in {0, 1} :
    LET h == 31 * Hash([q \in 1..4 |-> xs[q] % 7], ts) + 17 * (ii + (IF ic THEN 2 ELSE 0)) + B IN
    /\ h % ThinS = 0
    /\ \E var \in Variants(h \div ThinS, 3) :
         case = [kind |-> "multi",
                 inp |-> [x |-> [q \in 1..4 |-> <<xs[q]>>], y |-> ts, p |-> 1, q |-> QRows(1), qv |-> QVRows(1),
                          lt |-> var.lt, names |-> NamesFor(var.lt, 3, var.nv),
                          an |-> 1, ad |-> 10, icpt |-> ic, init |-> InitM(5 * ii, 1, ic, 3),
                          maxit |-> 2000, te |-> 6]]

\* initial-parameter probes for the multinomial model: every class occurs at x = 0 and at x = 1 (two affinely
\* independent rows, so the data is non-separable and alpha = 0 is admissible) plus at most one further row; every
\* initial table 1..4; alpha = 0 (a common offset of the initial table survives the fit) and alpha = 1/1000
ProbeRows(K, ex) ==
  LET base == [q \in 1..(2 * K) |-> IF q <= K THEN 0 ELSE 1]
      lab == [q \in 1..(2 * K) |-> (q - 1) % K]
  IN IF ex = <<>> THEN <<base, lab>> ELSE <<Append(base, ex[1]), Append(lab, ex[2])>>
InitProbe ==
  \E K \in KMul \cap {2, 3, 4}, iv \in 1..4, ic \in BOOLEAN, ai \in {0, 1}, form \in {"p1", "x10"}, rv \in {0, 1} :
  \E ex \in {<<>>} \cup {<<xx, cc>> : xx \in 0..2, cc \in 0..(K - 1)} :
    LET pr == ProbeRows(K, ex)
        h == 31 * Hash(pr[1], pr[2]) + 17 * (iv + 5 * ai + (IF ic THEN 10 ELSE 0) + 20 * rv + 40 * FormIdx(form)) + K
    IN /\ h % ThinP = 0
       /\ \E var \in Variants(h \div ThinP, K) :
            case = [kind |-> "multi",
                    inp |-> [x |-> Ord(RowsOf(form, pr[1]), rv), y |-> Ord(pr[2], rv), p |-> 1, q |-> QRows(1), qv |-> QVRows(1),
                             lt |-> var.lt, names |-> NamesFor(var.lt, K, var.nv),
                             an |-> ai, ad |-> IF ai = 0 THEN 10 ELSE 1000, icpt |-> ic, init |-> InitM(iv, 1, ic, K),
                             maxit |-> 2000, te |-> IF (h \div 7) % 4 = 0 THEN 4 ELSE 6]]

Init == BinInit \/ MulInit \/ ScaleInit \/ InitProbe
Next == UNCHANGED case
Emit == PrintT("CASE " \o ToJson(case))
=============================================================================
