----------------------------- MODULE ScalingBig -----------------------------
(* Exact signed big integers for C16 (TLC integers are 32 bit).                                 *)
(* A big integer is a little-endian sequence of limbs in base BB = 10^4; its value is            *)
(*     SUM_i a[i] * BB^(i-1)                                                                     *)
(* where limbs may be any (also negative) machine integers.  BNorm brings a number to canonical  *)
(* form (all digits in 0..BB-1, or all in -(BB-1)..0 for a negative number; no leading zeros).   *)
(* TLC's \div / % are floor division / non-negative remainder, which is what the carry           *)
(* propagation needs.  All operators are prefixed with B to avoid clashes with Fx.               *)
EXTENDS Integers, Sequences

BB == 10000

BDig(a, i) == IF i <= Len(a) THEN a[i] ELSE 0
BLenMax(a, b) == IF Len(a) >= Len(b) THEN Len(a) ELSE Len(b)

RECURSIVE BCarry(_, _, _)
\* floor-carry propagation: limbs -> digits in 0..BB-1, plus a most significant limb -1 iff the value is negative
BCarry(s, i, carry) ==
  IF i > Len(s)
    THEN IF carry = 0 THEN <<>>
         ELSE IF carry = -1 THEN <<-1>>
         ELSE <<carry % BB>> \o BCarry(s, i, carry \div BB)
    ELSE LET v == s[i] + carry IN <<v % BB>> \o BCarry(s, i + 1, v \div BB)

BNeg(a) == [i \in 1..Len(a) |-> -a[i]]
RECURSIVE BStrip(_)
BStrip(x) ==                                   \* drop most significant zero limbs
  IF x = <<>> THEN x ELSE IF x[Len(x)] = 0 THEN BStrip(SubSeq(x, 1, Len(x) - 1)) ELSE x

\* canonical form: digits all in 0..BB-1 (value >= 0) or all in -(BB-1)..0 (value < 0), most significant digit
\* non-zero, zero = <<>>.  Canonical forms are unique, so = on canonical forms is numeric equality.
BNorm(a) ==
  LET x == BCarry(a, 1, 0) IN
  IF x # <<>> /\ x[Len(x)] = -1 THEN BNeg(BStrip(BCarry(BNeg(x), 1, 0))) ELSE BStrip(x)
BInt(x)  == BNorm(<<x>>)                       \* any machine integer

\* limb-wise operations (results not canonical; limbs stay far below 2^31 for the few terms used)
BAdd(a, b) == [i \in 1..BLenMax(a, b) |-> BDig(a, i) + BDig(b, i)]
BSub(a, b) == [i \in 1..BLenMax(a, b) |-> BDig(a, i) - BDig(b, i)]

RECURSIVE BConv(_, _, _, _)
\* SUM_{i >= lo} x[i] * y[k + 1 - i]
BConv(x, y, k, i) ==
  IF i > Len(x) \/ i > k THEN 0
  ELSE (IF k + 1 - i <= Len(y) THEN x[i] * y[k + 1 - i] ELSE 0) + BConv(x, y, k, i + 1)

\* canonical operands have |digit| < BB and at most ~8 digits here: every convolution sum is < 2^31
BMulC(x, y) ==                                 \* both operands already canonical
  IF x = <<>> \/ y = <<>> THEN <<>>
  ELSE BNorm([k \in 1..(Len(x) + Len(y) - 1) |-> BConv(x, y, k, IF k > Len(y) THEN k + 1 - Len(y) ELSE 1)])
BMul(a, b) == BMulC(BNorm(a), BNorm(b))

BSq(a) == BMul(a, a)
BMulI(a, k) == BMul(a, BInt(k))                \* times a machine integer

\* sign: -1, 0, 1
BSign(a) ==
  LET x == BNorm(a) IN
  IF x = <<>> THEN 0 ELSE IF x[Len(x)] > 0 THEN 1 ELSE -1

BLe(a, b) == BSign(BSub(a, b)) <= 0
BLt(a, b) == BSign(BSub(a, b)) < 0
BEq(a, b) == BSign(BSub(a, b)) = 0
BAbs(a)   == IF BSign(a) < 0 THEN BNeg(a) ELSE a

RECURSIVE BSumSeq(_)
BSumSeq(s) == IF s = <<>> THEN <<>> ELSE BAdd(Head(s), BSumSeq(Tail(s)))    \* sequence of bigs

\* SUM_i u[i] * v[i] for sequences of machine integers (exact).  Short sequences of moderate numbers are split
\* into a balanced low digit (-BB/2..BB/2-1) and a high part; the three limb sums then fit machine integers.
RECURSIVE BSumI(_, _)
BSumI(f, i) == IF i > Len(f) THEN 0 ELSE f[i] + BSumI(f, i + 1)
BLow(u)  == ((u + BB \div 2) % BB) - BB \div 2
BHigh(u) == (u - BLow(u)) \div BB
BSmallSeq(u) == \A i \in 1..Len(u) : u[i] < 20000000 /\ u[i] > -20000000
BDotI(u, v) ==
  IF Len(u) <= 40 /\ BSmallSeq(u) /\ BSmallSeq(v)
    THEN BNorm(<<BSumI([i \in 1..Len(u) |-> BLow(u[i]) * BLow(v[i])], 1),
                 BSumI([i \in 1..Len(u) |-> BLow(u[i]) * BHigh(v[i]) + BHigh(u[i]) * BLow(v[i])], 1),
                 BSumI([i \in 1..Len(u) |-> BHigh(u[i]) * BHigh(v[i])], 1)>>)
    ELSE BNorm(BSumSeq([i \in 1..Len(u) |-> BMul(BInt(u[i]), BInt(v[i]))]))

\* value back to a machine integer (only for numbers known to fit; used by the design model)
RECURSIVE BToIntN(_, _)
BToIntN(x, i) == IF i > Len(x) THEN 0 ELSE x[i] + BB * BToIntN(x, i + 1)
BToInt(a) == BToIntN(BNorm(a), 1)

-----------------------------------------------------------------------------
(* Comparisons against irrational targets, through squares.                 *)
(* The real number e = sgn * sqrt(E2 / D)  (E2 >= 0, D > 0 big integers,     *)
(* sgn \in {-1,0,1} the sign of e; sgn = 0 iff E2 = 0).                      *)
BSqrtLe(sgn, E2, D, U) ==        \* e <= U   (U a big integer)
  IF sgn >= 0 THEN BSign(U) >= 0 /\ BLe(E2, BMul(BSq(U), D))
  ELSE BSign(U) >= 0 \/ BLe(BMul(BSq(U), D), E2)
BSqrtGe(sgn, E2, D, L) ==        \* e >= L
  IF sgn >= 0 THEN BSign(L) <= 0 \/ BLe(BMul(BSq(L), D), E2)
  ELSE BSign(L) <= 0 /\ BLe(E2, BMul(BSq(L), D))

\* | obs - num / sqrt(D) | <= slack      (obs, num, D, slack big integers; D > 0, slack >= 0)
BSqrtClose(obs, num, D, slack) ==
  LET sg == BSign(num)
      E2 == BSq(num)
  IN /\ BSqrtLe(sg, E2, D, BAdd(obs, slack))
     /\ BSqrtGe(sg, E2, D, BSub(obs, slack))

\* The same for a machine-integer observation o, through non-negative numbers only:
\*   | o - sgn * sqrt(E2 / D) | <= slack   with E2, D canonical, E2 >= 0, D > 0, sgn the sign of the target.
BSqrtCloseI(o, sgn, E2, D, slack) ==
  LET oo == IF sgn < 0 THEN -o ELSE o            \* reflect: target t = sqrt(E2/D) >= 0, need oo - slack <= t <= oo + slack
      U  == oo + slack
      L  == oo - slack
  IN /\ U >= 0 /\ BLe(E2, BMulC(BSq(BInt(U)), D))
     /\ L <= 0 \/ BLe(BMulC(BSq(BInt(L)), D), E2)

\* | obs * den - num | <= slack * den    (den > 0)
BRatClose(obs, num, den, slack) == BLe(BAbs(BSub(BMul(obs, den), num)), BMul(slack, den))
=============================================================================
