--------------------------------- MODULE Fx ---------------------------------
(* Exact and fixed-point integer arithmetic inside TLC's 32-bit integers.                  *)
(* TLC raises an error on integer overflow (tool error, exit 2) -- never a wrong verdict.  *)
EXTENDS Integers, Sequences, FiniteSets

Abs(x) == IF x < 0 THEN -x ELSE x
Sgn(x) == IF x > 0 THEN 1 ELSE IF x < 0 THEN -1 ELSE 0
Min2(a, b) == IF a <= b THEN a ELSE b
Max2(a, b) == IF a >= b THEN a ELSE b

RECURSIVE SumSeq(_)
SumSeq(s) == IF s = <<>> THEN 0 ELSE Head(s) + SumSeq(Tail(s))
SumFn(f(_), lo, hi) == SumSeq([q \in 1..(hi - lo + 1) |-> f(lo + q - 1)])   \* f a unary operator
Dot(a, b) == SumSeq([q \in 1..Len(a) |-> a[q] * b[q]])
MinSeq(s) == CHOOSE x \in {s[q] : q \in DOMAIN s} : \A y \in {s[q] : q \in DOMAIN s} : x <= y
MaxSeq(s) == CHOOSE x \in {s[q] : q \in DOMAIN s} : \A y \in {s[q] : q \in DOMAIN s} : x >= y
MinSet(S) == CHOOSE x \in S : \A y \in S : x <= y
MaxSet(S) == CHOOSE x \in S : \A y \in S : x >= y
Range(s) == {s[q] : q \in DOMAIN s}

\* floor division / rounding for signed numerators (TLA+ \div floors for positive divisors)
RoundDiv(a, b) == (2 * a + b) \div (2 * b)              \* b > 0 ; round half up

\* floor(a*b/c) for c > 0 without forming a*b; exact when |(a % c) * b| < 2^31
MulDiv(a, b, c) == (a \div c) * b + ((a % c) * b) \div c

\* a*b/10^6 for |a|,|b| <= 2*10^6 split in base 1000 (error < 2 units)
MulS6(a, b) ==
  LET sa == Sgn(a) * Sgn(b)  aa == Abs(a)  bb == Abs(b)
      a1 == aa \div 1000  a0 == aa % 1000  b1 == bb \div 1000  b0 == bb % 1000
  IN sa * (a1 * b1 + (a1 * b0 + a0 * b1) \div 1000 + (a0 * b0) \div 1000000)

\* integer square root (floor) by bisection, n >= 0, n < 2^31
RECURSIVE IsqrtB(_, _, _)
IsqrtB(nn, lo, hi) ==     \* invariant lo^2 <= nn < hi^2
  IF hi - lo <= 1 THEN lo
  ELSE LET mid == (lo + hi) \div 2 IN
       IF mid * mid <= nn THEN IsqrtB(nn, mid, hi) ELSE IsqrtB(nn, lo, mid)
Isqrt(nn) == IsqrtB(nn, 0, 46341)

\* rationals <<num, den>> with den > 0, compared by cross-multiplication
RLe(a, b) == a[1] * b[2] <= b[1] * a[2]
RLt(a, b) == a[1] * b[2] <  b[1] * a[2]
REq(a, b) == a[1] * b[2] =  b[1] * a[2]

\* observed fixed-point value obs (= round(v*S)) is within slack units of the exact rational num/den
Close(obs, num, den, S, slack) == Abs(obs * den - num * S) <= slack * den
CloseI(obs, exact, slack) == Abs(obs - exact) <= slack

\* f64 total-order keys: three limbs compared lexicographically ; f32 keys are plain integers
KeyLt(a, b) == \/ a[1] < b[1]
               \/ a[1] = b[1] /\ a[2] < b[2]
               \/ a[1] = b[1] /\ a[2] = b[2] /\ a[3] < b[3]
KeyEq(a, b) == a = b
KeyLe(a, b) == KeyLt(a, b) \/ KeyEq(a, b)
\* key of +0.0 (f64): sign bit set on the biased key, all other bits zero
KeyZero == <<2097152, 0, 0>>

\* sequences as multisets
IsPermutation(s, u) ==
  /\ Len(s) = Len(u)
  /\ \A x \in Range(s) \cup Range(u) :
       Cardinality({q \in DOMAIN s : s[q] = x}) = Cardinality({q \in DOMAIN u : u[q] = x})
IsSortedAsc(s) == \A q \in 1..(Len(s) - 1) : s[q] <= s[q + 1]
=============================================================================
