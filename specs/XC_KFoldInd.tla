----------------------------- MODULE XC_KFoldInd -----------------------------
(***************************************************************************)
(* X06 cross-check, typed side.  TLC explores specs/KFoldInd.tla on the    *)
(* same small constants as XC_KFold.tla and prints every reachable state   *)
(* in the same JSON form; props/x06.py requires the two sets to be equal.  *)
(* TLC also checks IndInv and Safety of KFoldInd here (the obligations     *)
(* Apalache discharges symbolically), and -- IndInvExact -- that IndInv is *)
(* the STRONGEST invariant: props/x06.py enumerates the states satisfying  *)
(* IndInv (AllInit) and requires their number to equal the number of       *)
(* reachable states.                                                       *)
(***************************************************************************)
EXTENDS KFoldInd, Sequences, Json, TLC

AsSeq(b) == [p \in 1..Cardinality(DOMAIN b) |-> b[p]]
Proj == [n |-> n, k |-> k, f |-> f, t |-> t, mode |-> mode, nm |-> nm,
         rbuf |-> AsSeq(rbuf), tbuf |-> AsSeq(tbuf), i |-> i, mi |-> mi, pc |-> pc]
Emit == PrintT("ST " \o ToJson(Proj))

\* every state satisfying IndInv, as initial states (the buffers are determined by the control state)
AllInit ==
  /\ n \in 2..MaxN /\ k \in 2..MaxN /\ f \in 1..MaxF /\ t \in 0..MaxT
  /\ mode \in {"inplace", "cv"} /\ nm \in 1..MaxM
  /\ pc \in {"swapin", "fit", "swapout", "yield", "eval", "done"}
  /\ i \in 0..MaxN /\ mi \in 0..(MaxM - 1)
  /\ rbuf = RBufAt /\ tbuf = TBufAt
  /\ IndInv
Stutter == UNCHANGED vars
=============================================================================
