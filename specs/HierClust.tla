----------------------------- MODULE HierClust -----------------------------
(***************************************************************************)
(* C06, second half -- agglomerative clustering on a kernel                *)
(* (linfa-hierarchical: -ln transform of the similarities, linkage, replay *)
(* of the merges until the stop criterion).                                *)
(*                                                                         *)
(* Design model at the grain of the algorithm: the state is the current    *)
(* partition `cl`; one action `Merge` joins two clusters whose linkage     *)
(* dissimilarity is minimal (ties are never decided here: every minimal    *)
(* pair is a possible step), one action `Stop` applies the criterion.      *)
(* The dissimilarities are exact rationals G.num[i][j] / G.den (on the     *)
(* cases used, -ln of the similarity IS such a rational); an entry whose   *)
(* similarity is not above 1e-6 is "floored" (G.fl) to -ln(1e-6).          *)
(*                                                                         *)
(* Invariants (TLC, every matrix over Vals, every linkage and criterion):  *)
(* the state is a partition, a merge removes exactly one cluster, the      *)
(* merge heights never decrease (so "stop at the first merge that is not   *)
(* below the threshold" = "perform every merge below the threshold"), a    *)
(* requested count c ends with min(c, n) clusters, a threshold with single *)
(* linkage ends in the connected components of the below-threshold graph,  *)
(* with complete linkage in clusters of below-threshold diameter, and the  *)
(* weaker relation used for average/weighted linkage when the arithmetic   *)
(* cannot be replayed exactly holds on every terminal state.               *)
(* Trace_HierClust drives the same Merge/Stop operators with the labels    *)
(* returned by the implementation.                                         *)
(***************************************************************************)
EXTENDS Fx, TLC

CONSTANTS MaxN,    \* design model: 2..MaxN samples
          Vals     \* design model: dissimilarity numerators

VARIABLES G,       \* [n, num, den, fl, flv, kind, q] dissimilarity data
          link,    \* "single" | "complete" | "average" | "weighted"
          crit,    \* [t |-> "num", c] | [t |-> "dist", tn, td] (threshold tn/td) | [t |-> "lnrat", tn, td] (threshold -ln(tn/td))
                   \* | [t |-> "floor"] (threshold -ln 1e-6)
          cl,      \* current partition: a set of sets of samples
          wt,      \* weighted linkage: wt[i] = weight of sample i inside its cluster (halved by every merge above it)
          pc,      \* "run" | "done"
          hts      \* heights (linkage values) of the merges performed

hvars == <<G, link, crit, cl, wt, pc, hts>>

-----------------------------------------------------------------------------
(* Linkage values are rationals <<p, q>> meaning (p/q)/G.den.  A floored entry has the value  *)
(* G.flv/G.den, which stands for -ln(1e-6) = 13.8155...: G.flv = ceiling(13.8155 G.den), larger *)
(* than every numerator that is not floored (cases keep all other quantities away from 13.8).   *)

V(g, i, j) == IF g.fl[i][j] THEN g.flv ELSE g.num[i][j]

RECURSIVE Pow2(_)
Pow2(k) == IF k = 0 THEN 1 ELSE 2 * Pow2(k - 1)
W0(g) == Pow2(g.n - 1)
InitWt(g, lk) == [i \in 1..g.n |-> IF lk = "weighted" THEN W0(g) ELSE 1]
Singletons(g) == {{i} : i \in 1..g.n}

SumPairs(g, A, B) ==
  SumSeq([i \in 1..g.n |-> IF i \in A THEN SumSeq([j \in 1..g.n |-> IF j \in B THEN V(g, i, j) ELSE 0]) ELSE 0])
WSumPairs(g, w, A, B) ==
  SumSeq([i \in 1..g.n |-> IF i \in A THEN SumSeq([j \in 1..g.n |-> IF j \in B THEN w[i] * w[j] * V(g, i, j) ELSE 0]) ELSE 0])

LinkVal(g, lk, w, A, B) ==
  CASE lk = "single"   -> <<MinSet({V(g, i, j) : i \in A, j \in B}), 1>>
    [] lk = "complete" -> <<MaxSet({V(g, i, j) : i \in A, j \in B}), 1>>
    [] lk = "average"  -> <<SumPairs(g, A, B), Cardinality(A) * Cardinality(B)>>
    [] lk = "weighted" -> <<WSumPairs(g, w, A, B), W0(g) * W0(g)>>

LLe(a, b) == IF a[2] = b[2] THEN a[1] <= b[1] ELSE a[1] * b[2] <= b[1] * a[2]
LLt(a, b) == ~LLe(b, a)

Pairs(part) == {pr \in part \X part : MinSet(pr[1]) < MinSet(pr[2])}

-----------------------------------------------------------------------------
(* Stop criterion.  `Below`: strictly below the threshold.  `TieAt`: equal to a threshold that  *)
(* the implementation computes with rounding -- either decision is accepted.  A dissimilarity    *)
(* of exactly 0 against threshold 0, and the floored value against the floor threshold, are     *)
(* computed exactly by the implementation: there "below" is strict.                             *)

\* kind "lin": dissimilarity = num/den (a rational; thresholds tn/td are rationals too).
\* kind "sim": the similarity is the rational -num/q (num = minus its numerator), so only the ORDER of the
\*   dissimilarities -ln(similarity) is exact: thresholds are -ln(tn/td) ("lnrat"), 0, or above the floor.
Below(g, cr, L) ==
  CASE cr.t = "dist"  -> IF g.kind = "lin" THEN L[1] * cr.td < cr.tn * L[2] * g.den
                         ELSE IF cr.tn = 0 THEN L[1] < -(g.q * L[2])     \* -ln s < 0  <=>  s > 1
                         ELSE TRUE                                        \* (a threshold above the floor)
    [] cr.t = "lnrat" -> (-L[1]) * cr.td > cr.tn * g.q * L[2]            \* -ln s < -ln(tn/td)  <=>  s > tn/td
    [] cr.t = "floor" -> L[1] < g.flv * L[2]
    [] OTHER -> FALSE
TieAt(g, cr, L) ==
  \/ cr.t = "dist" /\ g.kind = "lin" /\ cr.tn > 0 /\ L[1] * cr.td = cr.tn * L[2] * g.den
  \/ cr.t = "lnrat" /\ (-L[1]) * cr.td = cr.tn * g.q * L[2]

MayMerge(g, cr, part, L) == IF cr.t = "num" THEN Cardinality(part) > cr.c ELSE Below(g, cr, L) \/ TieAt(g, cr, L)
MayStop(g, cr, part, L)  == IF cr.t = "num" THEN Cardinality(part) <= cr.c ELSE ~Below(g, cr, L)

\* linkage value of every pair of current clusters, and the minimal ones
LinkTable(g, lk, w, part) == [pr \in Pairs(part) |-> LinkVal(g, lk, w, pr[1], pr[2])]
MinPairsOf(T) == {pr \in DOMAIN T : \A qr \in DOMAIN T : LLe(T[pr], T[qr])}

JoinWt(lk, w, A, B) == IF lk = "weighted" THEN [i \in DOMAIN w |-> IF i \in A \cup B THEN w[i] \div 2 ELSE w[i]] ELSE w
JoinCl(part, A, B) == (part \ {A, B}) \cup {A \cup B}

\* every legal next step <<pair, height>> from a partition
MergeChoices(g, lk, cr, w, part) ==
  IF Cardinality(part) <= 1 THEN {}
  ELSE LET T == LinkTable(g, lk, w, part) IN
       {<<pr, T[pr]>> : pr \in {qr \in MinPairsOf(T) : MayMerge(g, cr, part, T[qr])}}
CanStop(g, lk, cr, w, part) ==
  \/ Cardinality(part) <= 1
  \/ LET T == LinkTable(g, lk, w, part) IN \E pr \in MinPairsOf(T) : MayStop(g, cr, part, T[pr])

-----------------------------------------------------------------------------
(* Declarative consequences of the statement. *)

IsPartition(part, n) ==
  /\ UNION part = 1..n
  /\ {} \notin part
  /\ \A A, B \in part : A # B => A \cap B = {}

RECURSIVE Grow(_, _)
Grow(S, E) == LET T == S \cup {e[2] : e \in {x \in E : x[1] \in S}} IN IF T = S THEN S ELSE Grow(T, E)
Comps(n, E) == {Grow({i}, E) : i \in 1..n}
Refines(P, Q) == \A A \in P : \E B \in Q : A \subseteq B
Edges(g, cr, tie) == {ij \in (1..g.n) \X (1..g.n) : ij[1] # ij[2] /\
                         LET L == <<V(g, ij[1], ij[2]), 1>> IN Below(g, cr, L) \/ (tie /\ TieAt(g, cr, L))}
\* threshold + single linkage: the connected components of the below-threshold graph
SingleCC(g, cr, part) ==
  /\ Refines(Comps(g.n, Edges(g, cr, FALSE)), part)
  /\ Refines(part, Comps(g.n, Edges(g, cr, TRUE)))
\* count + single linkage: a Kruskal partition (components between "< w" and "<= w" for some level w)
LevelEdges(g, w, strict) == {ij \in (1..g.n) \X (1..g.n) : ij[1] # ij[2] /\
                               (IF strict THEN V(g, ij[1], ij[2]) < w ELSE V(g, ij[1], ij[2]) <= w)}
ConnectedIn(A, E) == A = {} \/ Grow({MinSet(A)}, {x \in E : x[1] \in A /\ x[2] \in A}) = A
SingleKruskal(g, part) ==
  \E w \in {V(g, ij[1], ij[2]) : ij \in {x \in (1..g.n) \X (1..g.n) : x[1] # x[2]}} :
     /\ Refines(Comps(g.n, LevelEdges(g, w, TRUE)), part)
     /\ \A A \in part : ConnectedIn(A, LevelEdges(g, w, FALSE))
\* threshold + complete linkage: below-threshold diameters, and no two clusters wholly below the threshold
CompleteDiam(g, cr, part) ==
  /\ \A A \in part : \A i, j \in A : i # j => LET L == <<V(g, i, j), 1>> IN Below(g, cr, L) \/ TieAt(g, cr, L)
  /\ \A A, B \in part : A # B => \E i \in A, j \in B : ~Below(g, cr, <<V(g, i, j), 1>>)
\* threshold + any linkage whose value lies between the smallest and the largest pairwise dissimilarity
\* (average, weighted): clusters are connected in the below-threshold graph, no two clusters wholly below
WeakDist(g, cr, part) ==
  /\ \A A \in part : ConnectedIn(A, Edges(g, cr, TRUE))
  /\ \A A, B \in part : A # B => \E i \in A, j \in B : ~Below(g, cr, <<V(g, i, j), 1>>)

CountOK(g, cr, part) == cr.t = "num" => Cardinality(part) = Min2(cr.c, g.n)

-----------------------------------------------------------------------------
(* Bounded design model *)

SymMats(n) == {m \in [1..n -> [1..n -> Vals \cup {0}]] :
                 \A i, j \in 1..n : m[i][j] = m[j][i] /\ (i = j => m[i][j] = 0)}
MkG(n, m) == [n |-> n, num |-> m, den |-> 1, flv |-> 14, kind |-> "lin", q |-> 1, fl |-> [i \in 1..n |-> [j \in 1..n |-> m[i][j] >= 14]]]
Crits == {[t |-> "num", c |-> c, tn |-> 0, td |-> 1] : c \in 1..(MaxN + 1)} \cup
         {[t |-> "dist", c |-> 0, tn |-> tn, td |-> 2] : tn \in {0, 1, 2, 3, 5, 7, 31}} \cup
         {[t |-> "floor", c |-> 0, tn |-> 0, td |-> 1]}
Links == {"single", "complete", "average", "weighted"}

Init ==
  /\ \E n \in 2..MaxN : \E m \in SymMats(n) : G = MkG(n, m)
  /\ link \in Links
  /\ crit \in Crits
  /\ cl = Singletons(G) /\ wt = InitWt(G, link)
  /\ pc = "run" /\ hts = <<>>

Merge ==
  /\ pc = "run"
  /\ \E ch \in MergeChoices(G, link, crit, wt, cl) :
        /\ cl' = JoinCl(cl, ch[1][1], ch[1][2])
        /\ wt' = JoinWt(link, wt, ch[1][1], ch[1][2])
        /\ hts' = Append(hts, ch[2])
  /\ UNCHANGED <<G, link, crit, pc>>

Stop ==
  /\ pc = "run"
  /\ CanStop(G, link, crit, wt, cl)
  /\ pc' = "done"
  /\ UNCHANGED <<G, link, crit, cl, wt, hts>>

Next == Merge \/ Stop

IsDist == crit.t \in {"dist", "lnrat", "floor"}
InvPartition == IsPartition(cl, G.n)
InvCount     == Cardinality(cl) = G.n - Len(hts)
InvMonotone  == \A q \in 1..(Len(hts) - 1) : LLe(hts[q], hts[q + 1])
InvNumDone   == pc = "done" => CountOK(G, crit, cl)
\* every merge performed was below (or at) the threshold, and what remains is not below it
InvDistDone  == (pc = "done" /\ IsDist) =>
                  /\ \A q \in 1..Len(hts) : Below(G, crit, hts[q]) \/ TieAt(G, crit, hts[q])
                  /\ \A pr \in Pairs(cl) : ~Below(G, crit, LinkVal(G, link, wt, pr[1], pr[2]))
InvSingleCC      == (pc = "done" /\ IsDist /\ link = "single") => SingleCC(G, crit, cl)
InvSingleKruskal == (pc = "done" /\ crit.t = "num" /\ link = "single") => SingleKruskal(G, cl)
InvCompleteDiam  == (pc = "done" /\ IsDist /\ link = "complete") => CompleteDiam(G, crit, cl)
InvWeak          == (pc = "done" /\ IsDist) => WeakDist(G, crit, cl)
\* a run never gets stuck before "done"
InvLive          == pc = "run" => (MergeChoices(G, link, crit, wt, cl) # {} \/ CanStop(G, link, crit, wt, cl))
=============================================================================
