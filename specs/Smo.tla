--------------------------------- MODULE Smo ---------------------------------
(***************************************************************************)
(* C13, layer 1: bookkeeping of the SMO solver with shrinking               *)
(* (linfa-svm/src/solver_smo.rs: SolverState, swap, do_shrinking,           *)
(* reconstruct_gradient, write-back in solve()).                            *)
(*                                                                         *)
(* The solver keeps its variables in *positions* 1..L; position q holds    *)
(* the variable of sample pos2s[q] (= active_set, 0-based sample ids).     *)
(* Shrinking moves variables that sit at a bound to the tail by swapping   *)
(* positions; every per-position array (targets y, bounds b, linear term   *)
(* p, kernel row index ki, alpha) must be swapped together, the first      *)
(* nact positions are the active ones, and the final write-back must       *)
(* scatter alpha through pos2s:  out[pos2s[q]] = alpha[q].                 *)
(*                                                                         *)
(* The model is abstract in the numbers (alpha values are 0 = at the lower *)
(* bound, 1 = free, 2 = at the upper bound; which bounded variables are    *)
(* shrunk is nondeterministic) and exact in the index manipulation (the    *)
(* shrink loop is the one of libsvm / the repaired do_shrinking).          *)
(* Variant # "ok" seeds the design bugs of the pinned code, used to show   *)
(* that the invariants are not vacuous:                                     *)
(*   "nobounds"   swap() forgets the bounds array                           *)
(*   "inverse"    write-back gathers  out[s] = alpha[pos2s[s]]              *)
(*   "staticloop" loop bound of the shrink loop fixed before shrinking      *)
(* The predicates IsPerm0 / Follows / ScatterOk / InactiveBounded are the  *)
(* ones Trace_Smo evaluates on the hook events of real runs.               *)
(***************************************************************************)
EXTENDS SmoKkt, TLC

CONSTANTS L, Variant

VARIABLES pos2s, yP, bP, pP, kiP, aP, nact, pc, outv
vars == <<pos2s, yP, bP, pP, kiP, aP, nact, pc, outv>>

(* ------------------------------------------------------ shared predicates *)
\* as is a permutation of the sample ids 0..n-1
IsPerm0(as, n) == Len(as) = n /\ \A s \in 0..(n - 1) : \E q \in 1..n : as[q] = s
\* a per-position array is the original per-sample array composed with the permutation
Follows(arr, orig, as) == Len(arr) = Len(as) /\ \A q \in 1..Len(as) : arr[q] = orig[as[q] + 1]
\* the write-back undoes the permutation
ScatterOk(out, a, as) == Len(out) = Len(as) /\ \A q \in 1..Len(as) : out[as[q] + 1] = a[q]
\* inactive positions hold variables at a bound (precondition of the gradient reconstruction)
InactiveBounded(a, lower, upper, na) == \A q \in (na + 1)..Len(a) : a[q] = lower[q] \/ a[q] = upper[q]

(* ------------------------------------------------------------ design model *)
Y0  == [s \in 1..L |-> s % 2]
B0  == [s \in 1..L |-> 10 + s]
P0  == [s \in 1..L |-> 20 + s]
KI0 == [s \in 1..L |-> s - 1]

Init ==
  /\ pos2s = [q \in 1..L |-> q - 1]
  /\ yP = Y0 /\ bP = B0 /\ pP = P0 /\ kiP = KI0
  /\ aP = [q \in 1..L |-> 0]
  /\ nact = L /\ pc = "run" /\ outv = <<>>

SwapSeq(s, i, j) == [s EXCEPT ![i] = s[j], ![j] = s[i]]
St == [as |-> pos2s, y |-> yP, b |-> bP, p |-> pP, ki |-> kiP, a |-> aP, n |-> nact]
SwapAll(st, i, j) ==
  [st EXCEPT !.as = SwapSeq(@, i, j), !.y = SwapSeq(@, i, j),
             !.b = IF Variant = "nobounds" THEN @ ELSE SwapSeq(@, i, j),
             !.p = SwapSeq(@, i, j), !.ki = SwapSeq(@, i, j), !.a = SwapSeq(@, i, j)]

\* the shrink loop, positions 0-based as in the code (index q0 + 1 in the sequences);
\* S = set of samples whose variable is to be shrunk (be_shrunk is a property of the variable)
RECURSIVE Inner(_, _, _)
Inner(st, S, i0) ==
  IF st.n > i0
    THEN IF st.as[st.n + 1] \notin S THEN SwapAll(st, i0 + 1, st.n + 1)
         ELSE Inner([st EXCEPT !.n = @ - 1], S, i0)
    ELSE st
RECURSIVE Outer(_, _, _, _)
Outer(st, S, i0, bound) ==      \* bound = -1: re-evaluated (correct) ; >= 0: fixed at loop entry (bug)
  IF i0 >= (IF bound < 0 THEN st.n ELSE bound) THEN st
  ELSE IF st.n >= 0 /\ i0 + 1 <= L /\ st.as[i0 + 1] \in S
         THEN Outer(IF st.n - 1 > i0 THEN Inner([st EXCEPT !.n = @ - 1], S, i0) ELSE [st EXCEPT !.n = @ - 1], S, i0 + 1, bound)
         ELSE Outer(st, S, i0 + 1, bound)

Update ==
  /\ pc = "run"
  /\ \E i, j \in 1..nact : \E vi, vj \in 0..2 :
       /\ i # j
       /\ aP' = [aP EXCEPT ![i] = vi, ![j] = vj]
  /\ UNCHANGED <<pos2s, yP, bP, pP, kiP, nact, pc, outv>>

Shrink ==
  /\ pc = "run"
  /\ \E S \in SUBSET {pos2s[q] : q \in {r \in 1..nact : aP[r] \in {0, 2}}} :
       /\ S # {}
       /\ LET st == Outer(St, S, 0, IF Variant = "staticloop" THEN nact ELSE -1) IN
          \* post-condition of the (correct) loop: exactly the chosen variables left the active part
          /\ Variant = "ok" =>
                Assert(/\ \A q \in 1..st.n : st.as[q] \notin S
                       /\ \A q \in (st.n + 1)..nact : st.as[q] \in S
                       /\ st.n = nact - Cardinality(S), "shrink loop post-condition")
          /\ pos2s' = st.as /\ yP' = st.y /\ bP' = st.b /\ pP' = st.p /\ kiP' = st.ki /\ aP' = st.a
          /\ nact' = st.n
  /\ UNCHANGED <<pc, outv>>

Unshrink ==
  /\ pc = "run" /\ nact < L
  /\ nact' = L
  /\ UNCHANGED <<pos2s, yP, bP, pP, kiP, aP, pc, outv>>

WriteBack ==
  /\ pc = "run"
  /\ outv' = IF Variant = "inverse"
               THEN [s \in 1..L |-> aP[pos2s[s] + 1]]
               ELSE [s \in 1..L |-> aP[CHOOSE q \in 1..L : pos2s[q] = s - 1]]
  /\ pc' = "done"
  /\ UNCHANGED <<pos2s, yP, bP, pP, kiP, aP, nact>>

Next == Update \/ Shrink \/ Unshrink \/ WriteBack

InvPerm     == IsPerm0(pos2s, L)
InvFollow   == Follows(yP, Y0, pos2s) /\ Follows(bP, B0, pos2s) /\ Follows(pP, P0, pos2s) /\ Follows(kiP, KI0, pos2s)
InvActive   == nact \in 0..L
InvInactive == InactiveBounded(aP, [q \in 1..L |-> 0], [q \in 1..L |-> 2], IF nact < 0 THEN 0 ELSE nact)
InvWriteBack == pc = "done" => ScatterOk(outv, aP, pos2s)
=============================================================================
