------------------------------ MODULE TraceIO ------------------------------
(* Shared trace input for all Trace_<X> specifications.                     *)
(* The trace file (env TRACEFILE) holds one *case* per line:                *)
(*   {"id": int, "kind": str, "inp": {...}, "ev": [ {...}, ... ]}           *)
(* Every case is its own initial state (c = index of the case, e = next     *)
(* event). A case is accepted iff some behaviour consumes all its events    *)
(* and reaches Accept, which prints <<"OK", id>> (see lib/vlib.py).         *)
EXTENDS Integers, Sequences, TLC, Json, IOUtils

Rec == ndJsonDeserialize(IOEnv.TRACEFILE)

Ok(id)          == PrintT(<<"OK", id>>)
OkDev(id, devs) == PrintT(<<"OK", id, devs>>)
Fail(id, what)  == PrintT(<<"FAIL", id, what>>)
=============================================================================
