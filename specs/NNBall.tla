------------------------------- MODULE NNBall -------------------------------
(***************************************************************************)
(* C07 -- algorithm model of linfa-nn's ball tree                          *)
(* (algorithms/linfa-nn/src/balltree.rs), model-checked against the        *)
(* relations of NNRel.                                                     *)
(*                                                                         *)
(*  build   BallTreeInner::new + partition(): split on the dimension of    *)
(*          largest spread (last one among equals: Iterator::max_by_key),  *)
(*          at the order-statistic median (index len/2), strictly smaller  *)
(*          values to the left; an empty left half receives one point of   *)
(*          the right half; the branch sphere is centred at a median point,*)
(*          a leaf sphere at the mean of its points.  Which of several     *)
(*          median points becomes the centre and which point is moved is   *)
(*          implementation-defined: every choice is a tree of the model.   *)
(*  search  nn_helper(): best-first over a min-queue of (lower bound,      *)
(*          node), lower bound = max(0, d(q, centre) - radius); a max-heap *)
(*          `out` of at most k candidates; the four comparisons            *)
(*             break  when  lb >= max_radius  or  |out| = k and lb >= worst*)
(*             keep p when  d < max_radius  and  (|out| < k or worst > d)  *)
(*             push child when lb <= max_radius                            *)
(*          k_nearest = (k, max_radius = inf), within_range = (n, radius). *)
(* Metrics: L1 and Linf on integer points (distance = reduced distance, so *)
(* sphere bounds are exact rationals with the leaf size as denominator).   *)
(*                                                                         *)
(* GuardK0 = TRUE models the repaired code (k = 0 answered with the empty  *)
(* list before the loop); with GuardK0 = FALSE the model is the pinned     *)
(* code and TLC finds the panic `out.peek().unwrap()` (invariant NoPanic). *)
(***************************************************************************)
EXTENDS NNRel, TLC

CONSTANTS MaxN, MaxN2, Coords1, Coords2, QLo, QHi, MetricSet, MaxLeaf, GuardK0

VARIABLES pts, qry, met, leaf,     \* input and leaf size
          mode, kk, r8,            \* "knn" (k = kk) or "range" (radius r8 / 8)
          tree,                    \* the built tree
          queue, out, cur, pc      \* search state: queue of [num, den, node]; out: set of <<dist, idx>>

vars == <<pts, qry, met, leaf, mode, kk, r8, tree, queue, out, cur, pc>>

Points(d) == IF d = 1 THEN {<<x>> : x \in Coords1} ELSE {<<x, y>> : x \in Coords2, y \in Coords2}
Queries(d) == IF d = 1 THEN {<<x>> : x \in QLo..QHi} ELSE {<<x, y>> : x \in QLo..QHi, y \in QLo..QHi}
Dims == {1} \cup (IF Coords2 = {} THEN {} ELSE {2})

N == Len(pts)
D(i) == RD(met, pts[i], qry)                 \* i is a 1-based point index

-----------------------------------------------------------------------------
(* build *)
Scaled(p, m) == [d \in 1..Len(p) |-> m * p[d]]
SumPts(ix) == [d \in 1..Len(pts[ix[1]]) |-> SumSeq([j \in 1..Len(ix) |-> pts[ix[j]][d]])]
\* radius numerator of a sphere centred at cn / cd around the points ix
RadNum(ix, cn, cd) == MaxSeq([j \in 1..Len(ix) |-> RD(met, Scaled(pts[ix[j]], cd), cn)])

LeafNode(ix) ==
  IF ix = <<>> THEN [isleaf |-> TRUE, cn |-> <<>>, cd |-> 1, rn |-> 0, points |-> <<>>, l |-> <<>>, r |-> <<>>]
  ELSE LET cn == SumPts(ix)  cd == Len(ix) IN
       [isleaf |-> TRUE, cn |-> cn, cd |-> cd, rn |-> RadNum(ix, cn, cd), points |-> ix, l |-> <<>>, r |-> <<>>]

Spread(ix, d) == MaxSeq([j \in 1..Len(ix) |-> pts[ix[j]][d]]) - MinSeq([j \in 1..Len(ix) |-> pts[ix[j]][d]])
SpreadDim(ix) ==
  LET dims == 1..Len(pts[ix[1]])
      best == MaxSet({Spread(ix, d) : d \in dims})
  IN MaxSet({d \in dims : Spread(ix, d) = best})          \* last dimension of maximal spread
MedianVal(ix, d) == AscSort([j \in 1..Len(ix) |-> pts[ix[j]][d]])[(Len(ix) \div 2) + 1]

Without(s, x) == SelectSeq(s, LAMBDA y : y # x)

RECURSIVE Trees(_)
Trees(ix) ==
  IF Len(ix) <= leaf THEN {LeafNode(ix)}
  ELSE
    LET d == SpreadDim(ix)
        mv == MedianVal(ix, d)
        centres == {ix[j] : j \in {jj \in 1..Len(ix) : pts[ix[jj]][d] = mv}}
        lft == SelectSeq(ix, LAMBDA y : pts[y][d] < mv)
        rgt == SelectSeq(ix, LAMBDA y : pts[y][d] >= mv)
        splits == IF lft # <<>> THEN {<<lft, rgt>>}
                  ELSE {<<(<<x>>), Without(rgt, x)>> : x \in {rgt[j] : j \in 1..Len(rgt)}}
    IN UNION { UNION { { [isleaf |-> FALSE, cn |-> pts[c], cd |-> 1, rn |-> RadNum(ix, pts[c], 1),
                          points |-> <<>>, l |-> tl, r |-> tr]
                        : tl \in Trees(sp[1]), tr \in Trees(sp[2]) }
                     : sp \in splits }
             : c \in centres }

RECURSIVE Sub(_)
Sub(node) == IF node.isleaf THEN {node.points[j] : j \in 1..Len(node.points)} ELSE Sub(node.l) \cup Sub(node.r)

\* lower bound of the distance from the query to anything inside the sphere, as num / den
LbNum(node) == Max2(0, RD(met, Scaled(qry, node.cd), node.cn) - node.rn)
Entry(node) == [num |-> LbNum(node), den |-> node.cd, node |-> node]

-----------------------------------------------------------------------------
Init ==
  /\ \E d \in Dims : \E n \in 0..(IF d = 1 THEN MaxN ELSE MaxN2) :
       /\ pts \in [1..n -> Points(d)]
       /\ qry \in Queries(d)
  /\ met \in MetricSet
  /\ leaf \in 1..MaxLeaf
  /\ \/ mode = "knn" /\ kk \in 0..(N + 1) /\ r8 = -1
     \/ mode = "range" /\ kk = N /\ r8 \in {4 * h : h \in 0..(2 * (QHi - QLo) + 3)}
  /\ tree \in Trees([j \in 1..N |-> j])
  /\ queue = {} /\ out = {} /\ cur = <<>>
  /\ pc = "start"

InRad(dist) == mode = "knn" \/ 8 * dist < r8                     \* dist <  max_radius
LbGeRad(en) == mode = "range" /\ 8 * en.num >= r8 * en.den       \* lb   >= max_radius
LbLeRad(en) == mode = "knn" \/ 8 * en.num <= r8 * en.den         \* lb   <= max_radius
Worst == MaxSet({o[1] : o \in out})                              \* out.peek().dist
EnLe(a, b) == a.num * b.den <= b.num * a.den

Start ==
  /\ pc = "start"
  /\ IF N = 0 \/ (GuardK0 /\ kk = 0)
       THEN pc' = "done" /\ UNCHANGED queue
       ELSE pc' = "loop" /\ queue' = {Entry(tree)}
  /\ UNCHANGED <<pts, qry, met, leaf, mode, kk, r8, tree, out, cur>>

Pop ==
  /\ pc = "loop" /\ queue # {}
  /\ \E en \in queue :
       /\ \A f \in queue : EnLe(en, f)
       /\ IF LbGeRad(en) THEN pc' = "done" /\ UNCHANGED <<queue, cur>>
          ELSE IF Cardinality(out) = kk /\ out = {} THEN pc' = "panic" /\ UNCHANGED <<queue, cur>>   \* peek().unwrap()
          ELSE IF Cardinality(out) = kk /\ en.num >= Worst * en.den THEN pc' = "done" /\ UNCHANGED <<queue, cur>>
          ELSE IF en.node.isleaf
            THEN /\ queue' = queue \ {en} /\ cur' = en.node.points /\ pc' = "leaf"
            ELSE LET el == Entry(en.node.l)  er == Entry(en.node.r) IN
                 /\ queue' = (queue \ {en}) \cup (IF LbLeRad(el) THEN {el} ELSE {}) \cup (IF LbLeRad(er) THEN {er} ELSE {})
                 /\ UNCHANGED cur /\ pc' = "loop"
  /\ UNCHANGED <<pts, qry, met, leaf, mode, kk, r8, tree, out>>

Exhausted ==
  /\ pc = "loop" /\ queue = {}
  /\ pc' = "done"
  /\ UNCHANGED <<pts, qry, met, leaf, mode, kk, r8, tree, queue, out, cur>>

ScanPoint ==
  /\ pc = "leaf"
  /\ IF cur = <<>> THEN pc' = "loop" /\ UNCHANGED <<out, cur>>
     ELSE LET p == Head(cur)  dist == D(p) IN
          /\ cur' = Tail(cur) /\ pc' = "leaf"
          /\ IF InRad(dist) /\ (Cardinality(out) < kk \/ (out # {} /\ Worst > dist))
               THEN LET o1 == out \cup {<<dist, p>>} IN
                    IF Cardinality(o1) > kk
                      THEN \E o \in o1 : o[1] = MaxSet({x[1] : x \in o1}) /\ out' = o1 \ {o}     \* pop a largest
                      ELSE out' = o1
               ELSE UNCHANGED out
  /\ UNCHANGED <<pts, qry, met, leaf, mode, kk, r8, tree, queue>>

Next == Start \/ Pop \/ Exhausted \/ ScanPoint

-----------------------------------------------------------------------------
RECURSIVE Nodes(_)
Nodes(node) == {node} \cup (IF node.isleaf THEN {} ELSE Nodes(node.l) \cup Nodes(node.r))

\* structural invariant of the built tree (checked in the start state)
InvTree ==
  pc = "start" =>
    /\ Sub(tree) = 1..N
    /\ \A nd \in Nodes(tree) :
         \* every point of the subtree lies within radius of the centre
         /\ \A i \in Sub(nd) : RD(met, Scaled(pts[i], nd.cd), nd.cn) <= nd.rn
         /\ nd.isleaf => Len(nd.points) <= leaf /\ (N > 0 => nd.points # <<>>)
         /\ ~nd.isleaf => /\ Sub(nd.l) # {} /\ Sub(nd.r) # {} /\ Sub(nd.l) \cap Sub(nd.r) = {}
                          /\ Cardinality(Sub(nd.l)) + Cardinality(Sub(nd.r)) = Cardinality(Sub(nd))

NoPanic == pc # "panic"

\* loop invariant: a point that is neither pending (queued subtree / rest of the current leaf) nor
\* kept is outside the radius or no better than the worst of k kept candidates
Pending == UNION {Sub(en.node) : en \in queue} \cup {cur[j] : j \in 1..Len(cur)}
Kept == {o[2] : o \in out}
InvPruned ==
  pc \in {"loop", "leaf"} =>
    /\ Cardinality(out) <= kk
    /\ \A o \in out : o[1] = D(o[2]) /\ InRad(o[1])
    /\ \A i \in (1..N) \ (Pending \cup Kept) :
         ~InRad(D(i)) \/ (Cardinality(out) = kk /\ out # {} /\ D(i) >= Worst)

\* the answer (out sorted by distance, any order among equals)
RECURSIVE SortedOut(_)
SortedOut(o) == IF o = {} THEN <<>>
                ELSE LET m == CHOOSE x \in o : \A y \in o : x[1] <= y[1] IN <<m[2] - 1>> \o SortedOut(o \ {m})
Answer == LET s == SortedOut(out) IN [pos |-> s, pts |-> [j \in 1..Len(s) |-> pts[s[j] + 1]], exact |-> TRUE]

InvAnswer ==
  pc = "done" =>
    LET dv == DistVec(met, pts, qry) IN
    IF mode = "knn" THEN KnnOk(pts, dv, kk, Answer) /\ KnnOkDef(pts, dv, kk, Answer)
    ELSE /\ RangeOk(pts, dv, met, r8, Answer)
         /\ PosSet(Answer) = StrictSet(met, dv, r8)        \* the ball tree is strict on the radius
=============================================================================
