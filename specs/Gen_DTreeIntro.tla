-------------------------- MODULE Gen_DTreeIntro --------------------------
(* Case generator for X11.  The cases ARE the C14 lattice cases of Gen_DTree (same families: datasets x  *)
(* weight pattern x criterion x max_depth x (min_weight_split, min_weight_leaf, min_impurity_decrease)     *)
(* profile, label / float type, record layout), each extended by the three dimensions that only matter     *)
(* for introspection and export:                                                                           *)
(*   names : feature-name codes handed to `with_feature_names` (<<>> = the dataset carries no names);      *)
(*           the codes are a non-monotone injective function of the feature index, so that a name looked   *)
(*           up with the wrong index is visible                                                            *)
(*   lg    : the Tikz builder is given `with_legend()`                                                     *)
(*   cp    : the Tikz builder is given `complete(cp)`                                                      *)
(* All three are picked by a hash of the case (every combination occurs in every family; props/x11.py      *)
(* refuses to run otherwise).                                                                              *)
EXTENDS Gen_DTree

VARIABLE xcase

NameCodes == <<5, 3, 9>>

RECURSIVE HashRows(_, _, _)
HashRows(rows, q, h) == IF q > Len(rows) THEN h ELSE HashRows(rows, q + 1, HashSeq(rows[q], 1, h))
XHash(inp) ==
  Mix(HashSeq(inp.y, 1, HashRows(inp.x, 1, 11 + Len(inp.x))),
      inp.mws4 + 3 * inp.mwl4 + 7 * (inp.mid6 % 1009) + 13 * (inp.md + 1) + 29 * Len(inp.w4) + (IF inp.crit = "gini" THEN 0 ELSE 57))

XInit ==
  /\ Init
  /\ LET inp == case.inp
         h == XHash(inp) IN
     xcase = [kind |-> "intro",
              inp |-> inp @@ [names |-> IF (h \div 2) % 2 = 0 THEN <<>> ELSE [j \in 1..inp.d |-> NameCodes[j]],
                              lg |-> (h \div 4) % 2 = 1,
                              cp |-> (h \div 8) % 2 = 1]]

XNext == UNCHANGED <<case, xcase>>
XEmit == PrintT("CASE " \o ToJson(xcase))
=============================================================================
