---------------------------- MODULE Gen_LinReg ----------------------------
(***************************************************************************)
(* Case generator for C11.  TLC enumerates a bounded lattice of regression *)
(* problems as initial states and prints each as one JSON case:            *)
(*   designs : n in NS rows; first column = sorted n-tuple over            *)
(*             {v - XOff : v in XV}, transformed by (scale, offset) in      *)
(*             {(1,0), (1,10), (10,0), (10,10)}  -- centred / offset /      *)
(*             badly scaled columns;  optional second column: every binary *)
(*             vector (includes the constant columns 0 and 1), binary x 10, *)
(*             twice the first column (exactly collinear), its square      *)
(*   targets : every n-tuple over YV; multi-task: 2 (3) columns, the       *)
(*             others derived (reversed / the base feature / alternating)  *)
(*   configs : OLS with/without intercept; elastic net and multi-task      *)
(*             elastic net with penalty in {0, 1/10, 1/2, 1, 2}, l1 ratio  *)
(*             in {0, 1/2, 1}, with/without intercept                      *)
(* Rank-deficient designs are kept only where the objective is regularised *)
(* (penalty > 0); OLS and penalty 0 require full column rank of [X 1].     *)
(* The product is thinned by a fixed hash (DThin on designs, CThin on      *)
(* configurations, OThin on the OLS ones) so that a tier gets a spread     *)
(* sample of the whole                                                     *)
(* product; float type, calling form and the loose tolerance rotate with   *)
(* the hash, and so does the unit of the target (y * 2^ue, ue in           *)
(* {0,-10,-14,10}: small and large magnitudes, exact in binary floating    *)
(* point).  OLS cases with an intercept carry large per-column offsets    *)
(* (f32: 2000, 2^11, 2^13, 2^16; f64: 10^5, 10^7, 2^30) and, for p = 2, a   *)
(* nearly collinear variant.  Thin = 1 enumerates the full product.        *)
(* f32 runs: half of the OLS cases, and                                    *)
(* elastic nets on fast-converging designs (see FastConv).                 *)
(***************************************************************************)
EXTENDS LinRegRel, Json

CONSTANTS NS, XV, XOff, YV, PS, TS, XThin1, XThin2, YThin1, YThin2, CThin, OThin, F32Mod

VARIABLE case

RECURSIVE SortedSeqs(_, _)
SortedSeqs(V, n) ==
  IF n = 0 THEN {<<>>}
  ELSE {Append(pr[1], pr[2]) : pr \in {q \in SortedSeqs(V, n - 1) \X V : q[1] = <<>> \/ q[1][Len(q[1])] <= q[2]}}
AllSeqs(V, n) == [1..n -> V]

\* (scale, offset) of the first column, and the direction it has after removing the scale
Tr == {<<1, 0>>, <<1, 10>>, <<10, 0>>, <<10, 10>>}
ApplyTr(cc, tr) == [i \in 1..Len(cc) |-> tr[1] * cc[i] + tr[2]]
DirTr(cc, tr)   == [i \in 1..Len(cc) |-> cc[i] + tr[2] \div tr[1]]

\* second-column patterns for a base column cc : <<column, its direction>>
Bin(n) == AllSeqs({0, 1}, n)
Col2Set(cc, c1, d1) ==
  LET n == Len(cc) IN
  {<<bb, bb>> : bb \in Bin(n)} \cup {<<[i \in 1..n |-> 10 * bb[i]], bb>> : bb \in Bin(n)}
     \cup {<<[i \in 1..n |-> 2 * c1[i]], d1>>, <<[i \in 1..n |-> cc[i] * cc[i]], [i \in 1..n |-> cc[i] * cc[i]]>>}

\* conditioning class of a design (coordinate descent is invariant under column scaling, so it is decided
\* on the column directions): well conditioned = normalised Gram determinant of [X 1] at least 1/20.
\* It only selects the sweep budget and which cases also run in f32; it is not part of any verdict.
Gram(cols) == [a \in 1..Len(cols) |-> [bq \in 1..Len(cols) |-> Dot(cols[a], cols[bq])]]
WellCond(dirs, n) ==
  LET cols == Append(dirs, [i \in 1..n |-> 1])
      g    == Gram(cols)
      prod == IF Len(cols) = 2 THEN g[1][1] * g[2][2] ELSE g[1][1] * g[2][2] * g[3][3]
  IN prod > 0 /\ Det(g) >= (prod + 19) \div 20

\* f32 runs of the coordinate-descent estimators are generated only where the sweep count is tiny: at most two
\* coordinate blocks (features + intercept) with normalised Gram determinant >= 1/2 (contraction <= 1/2 per
\* sweep, budget 50).  The residual is updated incrementally, so its rounding error grows with the number of
\* sweeps; with 50 sweeps it stays far below the f32 allowance of the trace specification.
FastConv(dirs, n, ic) ==
  LET cols == IF ic THEN Append(dirs, [i \in 1..n |-> 1]) ELSE dirs
      g    == Gram(cols)
  IN  \/ Len(cols) = 1 /\ g[1][1] > 0
      \/ Len(cols) = 2 /\ g[1][1] * g[2][2] > 0 /\ 2 * Det(g) >= g[1][1] * g[2][2]

Pens  == {<<0, 1>>, <<1, 10>>, <<1, 2>>, <<1, 1>>, <<2, 1>>}
Rhos  == {<<0, 1>>, <<1, 2>>, <<1, 1>>}
PenRho == {pr \in Pens \X Rhos : pr[1][1] > 0 \/ pr[2] = <<1, 2>>}     \* penalty 0: the ratio is irrelevant

HashX(xx) == SumSeq([i \in 1..Len(xx) |-> SumSeq([jj \in 1..Len(xx[i]) |-> (31 * i + 17 * jj + 7) * (xx[i][jj] + 40)])])
HashY(yy) == SumSeq([i \in 1..Len(yy) |-> (13 * i + 5) * (yy[i] + 7)])
KindCode(kd) == IF kd = "ols" THEN 1 ELSE IF kd = "enet" THEN 2 ELSE 3

Rev(yy) == [i \in 1..Len(yy) |-> yy[Len(yy) + 1 - i]]
Targets(yy, cc, tn, h) ==
  LET n  == Len(yy)
      y2 == IF h % 3 = 0 THEN Rev(yy) ELSE IF h % 3 = 1 THEN cc ELSE [i \in 1..n |-> 0]
      y3 == [i \in 1..n |-> i % 2]
  IN [i \in 1..n |-> IF tn = 1 THEN <<yy[i]>> ELSE IF tn = 2 THEN <<yy[i], y2[i]>> ELSE <<yy[i], y2[i], y3[i]>>]

Forms == <<"owned", "view", "fview">>

\* sweep budget "large enough to converge": coordinate descent contracts at a rate set by the conditioning
MaxIt(kd, wc) == IF wc THEN 3000 ELSE IF kd = "mtl" THEN 40000 ELSE 100000

\* unit exponents of the target (the case is the same problem with targets y * 2^ue; cfg files have no negative
\* literals, hence the tuple here).  Units other than 1 are used where the duality-gap test can stop the solver
\* (l1 part present, i.e. a loose fit is recorded) and the run is f64.
UEs == <<0, -10, -14, 10>>

\* OLS with an intercept: large exactly representable per-column offsets (the estimator sees x + off; f32 needs
\* |x + off| < 2^24).  The spread of the columns stays the small lattice, so [x + off, 1] is ill conditioned
\* (cond ~ off / spread) while the least-squares problem on the un-shifted integers is exact in the specification.
OffF32 == <<0, 2000, 2048, 8192, 65536, 2000>>
OffF64 == <<0, 100000, 10000000, 1073741824, 10000000, 100000>>
OffOf(f32, q) == IF f32 THEN OffF32[(q % 6) + 1] ELSE OffF64[(q % 6) + 1]
\* nearly collinear second column for OLS: 20 * first column + second column (a column operation: rank unchanged)
NearCol(xx) == [i \in 1..Len(xx) |-> <<xx[i][1], 20 * xx[i][1] + xx[i][2]>>]

\* selector decorrelated from the thinning moduli (h is a multiple of them)
Sel(h, salt, m) == ((((h \div 3) % 100000) * 7919 + salt * 104729) % 1009) % m

Mk(kd, xx0, ym, pp, rr, ic, h, wc, fc) ==
  LET sel == h \div (IF kd = "ols" THEN OThin ELSE CThin)
      f32 == IF kd = "ols" THEN Sel(h, 1, 2) = 0 ELSE sel % F32Mod = 0 /\ fc
      \* loose fit: where the l1 part lets the gap test stop the solver, and -- single task only, where a sweep is
      \* cheap -- also for pure ridge / penalty 0 (there the gap equals the objective, so a correct solver runs to the
      \* budget; a gap that is too small or negative stops it early on the slowly converging collinear designs)
      lt  == IF kd = "ols" \/ (kd = "mtl" /\ (pp[1] = 0 \/ rr[1] = 0)) THEN 0 ELSE ((h \div 5) % 4) + 1
      pn  == Len(xx0[1])
      near == kd = "ols" /\ pn = 2 /\ Sel(h, 2, 3) = 0 /\ \A i \in 1..Len(xx0) : Abs(xx0[i][1]) <= 2
      xx  == IF near THEN NearCol(xx0) ELSE xx0
      offs == IF kd = "ols" /\ ic /\ ~(near /\ f32)      \* nearly collinear + offset is beyond f32 (not resolvable)
              THEN [k \in 1..pn |-> OffOf(f32, Sel(h, 3 + k, 6))]
              ELSE [k \in 1..pn |-> 0]
  IN
  [kind |-> kd,
   inp |-> [x |-> xx, y |-> ym, p |-> pn, t |-> Len(ym[1]), off |-> offs,
            ln |-> pp[1], ld |-> pp[2], rn |-> rr[1], rd |-> rr[2], icpt |-> ic,
            ft |-> IF f32 THEN "f32" ELSE "f64",
            form |-> Forms[((h \div 3) % 3) + 1],
            maxit |-> IF f32 THEN 50 ELSE MaxIt(kd, wc), te |-> 12,
            \* a second, loosely converged fit (tolerance 10^-lte, 10^-4 is the default of the library) where the
            \* stopping rule can fire (l1 part present)
            lte |-> lt,
            ue |-> IF lt = 0 \/ f32 THEN 0 ELSE UEs[((h \div 11) % 4) + 1]]]

Init ==
  \E n \in NS, p \in PS :
  \E cc \in SortedSeqs({v - XOff : v \in XV}, n), tr \in Tr :
  LET c1 == ApplyTr(cc, tr)
      d1 == DirTr(cc, tr) IN
  \E c2 \in (IF p = 1 THEN {<<<<>>, <<>>>>} ELSE Col2Set(cc, c1, d1)) :
  LET xx == [i \in 1..n |-> IF p = 1 THEN <<c1[i]>> ELSE <<c1[i], c2[1][i]>>]
      hx == HashX(xx)
      dirs == IF p = 1 THEN <<d1>> ELSE <<d1, c2[2]>>
      wc == WellCond(dirs, n)
  IN
  /\ hx % (IF p = 1 THEN XThin1 ELSE XThin2) = 0
  /\ \E yy \in AllSeqs(YV, n) :
     LET hd == hx \div 3 + HashY(yy) IN
     /\ hd % (IF p = 1 THEN YThin1 ELSE YThin2) = 0
     /\ \E kd \in {"ols", "enet", "mtl"}, ic \in BOOLEAN :
        \E pr \in (IF kd = "ols" THEN {<<<<0, 1>>, <<0, 1>>>>} ELSE PenRho) :
        \E tn \in (IF kd = "mtl" THEN TS ELSE {1}) :
        LET h == hd \div 2 + 101 * pr[1][1] + 37 * pr[1][2] + 59 * pr[2][1] + 23 * pr[2][2] + (IF ic THEN 3 ELSE 0)
                   + 11 * KindCode(kd) + 5 * tn IN
        /\ h % (IF kd = "ols" THEN OThin ELSE CThin) = 0      \* OLS has 2 configurations per data set, the nets 104
        /\ (kd = "ols" \/ pr[1][1] = 0) => FullRank(xx, ic)
        /\ case = Mk(kd, xx, Targets(yy, cc, tn, h), pr[1], pr[2], ic, h, wc, FastConv(dirs, n, ic))

Next == UNCHANGED case
Emit == PrintT("CASE " \o ToJson(case))
=============================================================================
