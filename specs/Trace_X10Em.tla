--------------------------- MODULE Trace_X10Em ---------------------------
(***************************************************************************)
(* X10 trace validation, Gaussian mixture: every step event recorded by    *)
(* the hooks of docs/reports/X10-hook.diff is replayed as an action of     *)
(* X10Em.                                                                  *)
(*   gmm.init    -> EmInit   (a run starts from a fresh initialisation)    *)
(*   gmm.iter    -> EmIter(logged lower bound, 10^-6)                      *)
(*   gmm.run_end -> EmRunEnd                                               *)
(*   gmm.result  -> EmResult                                               *)
(*   fit         -> Ok iff the model's result is "ok", NotConverged else   *)
(* run / it / converged flag / best-so-far are advanced by the model only; *)
(* the logged fields must equal them.  Decisions the fixed-point values do *)
(* not decide (within one unit) are bound to the order keys of the values  *)
(* the code compared; the key rules (converged <=> |change| < tolerance,   *)
(* kept <=> lower bound > best) are demanded for every decision, and the   *)
(* logged change must be the difference of the two logged lower bounds.    *)
(* A fit that fails with a numerical error (LinalgError, EmptyCluster ...) *)
(* stops its event sequence anywhere: the prefix is replayed.              *)
(*                                                                         *)
(* Named deviation (known finding, only when listed in Devs):              *)
(*   gmm_runs_share_one_initialisation : the documentation promises n_runs *)
(*       initialisations ("Set the number of initializations to perform.   *)
(*       The best results are kept."); the code initialises once, before   *)
(*       the loop over the runs, and every later run continues from the    *)
(*       state the previous run ended in (EmContinue, no gmm.init event).  *)
(***************************************************************************)
EXTENDS X10Em, TraceIO

CONSTANT Devs

VARIABLES cs, ei,
          bkey,      \* order key of the best lower bound so far (<<>>: none kept)
          used, tag

tvars == <<evars, cs, ei, bkey, used, tag>>

Case == Rec[cs]
In   == Case.inp
Ev   == Case.ev[ei]
NEv  == Len(Case.ev)
FitEv == Case.ev[NEv]
Hooked == In.hook = 1
HasEv(name) == ei <= NEv /\ Ev.ev = name

KeyLt(a, b) == \/ a[1] < b[1]
               \/ a[1] = b[1] /\ a[2] < b[2]
               \/ a[1] = b[1] /\ a[2] = b[2] /\ a[3] < b[3]

TolFx == (In.toln * 1000000) \div In.told

TraceInit ==
  /\ cs \in 1..Len(Rec) /\ ei = 1
  /\ G = [maxit |-> Rec[cs].inp.maxit, nruns |-> Rec[cs].inp.runs,
          tol |-> (Rec[cs].inp.toln * 1000000) \div Rec[cs].inp.told,
          q |-> 2,     \* each logged lower bound is within 1/2 unit: a decided comparison keeps a margin of a whole unit
          cont |-> "gmm_runs_share_one_initialisation" \in Devs]
  /\ pc = "start" /\ run = 0 /\ it = 0 /\ lb = NegInf /\ conv = -1 /\ dec = "none"
  /\ best = NoBest /\ hist = <<>> /\ res = "none"
  /\ bkey = <<>> /\ used = {} /\ tag = ""

Live == Hooked /\ tag = ""

EvInit ==
  /\ Live /\ HasEv("gmm.init")
  /\ Ev.k = In.k /\ Ev.fin
  /\ EmInit
  /\ ei' = ei + 1 /\ UNCHANGED <<cs, bkey, used, tag>>

\* (deviation) a later run starts without an initialisation of its own
Continue ==
  /\ Live /\ HasEv("gmm.iter") /\ pc = "start" /\ run >= 1
  /\ EmContinue
  /\ used' = used \cup {"gmm_runs_share_one_initialisation"}
  /\ UNCHANGED <<cs, ei, bkey, tag>>

IterPre ==
  /\ Live /\ HasEv("gmm.iter") /\ pc = "iter"
  /\ Ev.run = run /\ Ev.it = it + 1 /\ Ev.maxit = G.maxit
  /\ Ev.tkey = FitEv.tolkey

EvIter ==
  /\ IterPre
  /\ Ev.lbnum
  /\ Ev.prevfin = lb.fin /\ (IF lb.fin THEN Ev.prevnum /\ Ev.prev = lb.v ELSE Ev.prevneginf) = TRUE
  /\ EmIter(Ev.lb)
  /\ Ev.dec = dec'
  \* the logged change is lb - prev (10^-6; +infinity in the first iteration of a run)
  /\ (IF lb.fin THEN Ev.dnum /\ Ev.ch = Ev.d /\ Ev.d - (Ev.lb - Ev.prev) \in {-1, 0, 1}
      ELSE Ev.chposinf) = TRUE
  \* the decision as the code took it: |change| < tolerance on the values it compared
  /\ (Ev.dec = "converged") = KeyLt(Ev.abskey, Ev.tkey)
  /\ ei' = ei + 1 /\ UNCHANGED <<cs, bkey, used, tag>>

EvRunEnd ==
  /\ Live /\ HasEv("gmm.run_end") /\ pc = "end"
  /\ Ev.run = run /\ Ev.conv = conv /\ ~Ev.lbnan
  /\ Ev.lbk = Case.ev[ei - 1].lbk
  /\ EmRunEnd
  /\ Ev.kept = hist'[run].kept
  /\ Ev.kept = (IF bkey = <<>> THEN TRUE ELSE KeyLt(bkey, Ev.lbk))
  /\ bkey' = IF Ev.kept THEN Ev.lbk ELSE bkey
  /\ Ev.bkey = bkey'
  /\ ei' = ei + 1 /\ UNCHANGED <<cs, used, tag>>

EvResult ==
  /\ Live /\ HasEv("gmm.result") /\ pc = "result"
  /\ EmResult
  /\ Ev.runs = G.nruns
  /\ Ev.conv = (res' = "ok") /\ Ev.params = (best.run > 0)
  /\ (IF bkey = <<>> THEN TRUE ELSE Ev.bkey = bkey) = TRUE
  /\ ei' = ei + 1 /\ UNCHANGED <<cs, bkey, used, tag>>

Accept == IF used = {} THEN Ok(Case.id) ELSE OkDev(Case.id, <<"gmm_runs_share_one_initialisation">>)

EvFit ==
  /\ Live /\ HasEv("fit") /\ ei = NEv /\ pc = "done"
  /\ Ev.steps = NEv - 1
  /\ (IF res = "ok" THEN Ev.ok /\ Ev.k = In.k /\ Ev.fin ELSE ~Ev.ok /\ Ev.err = "NotConverged") = TRUE
  /\ Accept
  /\ ei' = ei + 1 /\ UNCHANGED <<evars, cs, bkey, used, tag>>

\* a numerical failure inside an initialisation or an EM step ends the fit at once: before the first run
\* (initialisation), inside a run, or at the start of a later run (its initialisation -- or, for the code that
\* continues, the first EM step of the run, which fails before the run has logged an iteration)
NumErrs == {"LinalgError", "EmptyCluster", "MinMaxError", "KMeansError", "LinfaError"}
EvFitAbort ==
  /\ Live /\ HasEv("fit") /\ ei = NEv /\ pc \in {"start", "iter"}
  /\ Ev.steps = NEv - 1 /\ ~Ev.ok /\ Ev.err \in NumErrs
  /\ Accept
  /\ ei' = ei + 1 /\ UNCHANGED <<evars, cs, bkey, used, tag>>

\* a lower bound outside the loggable range (|lb| >= 1073, nan, inf): the case is not judged any further
Unjudged ==
  /\ IterPre /\ (IF ~Ev.lbnum THEN TRUE ELSE lb.fin /\ ~Ev.dnum) = TRUE
  /\ OkDev(Case.id, <<"unjudged">>)
  /\ tag' = "unjudged" /\ ei' = NEv + 1 /\ UNCHANGED <<evars, cs, bkey, used>>

\* a tree without the hooks: the outcome only
NoHook ==
  /\ ~Hooked /\ tag = "" /\ ei = 1 /\ NEv = 1 /\ HasEv("fit")
  /\ Ev.steps = 0
  /\ (IF Ev.ok THEN Ev.k = In.k /\ Ev.fin ELSE Ev.err \in NumErrs \cup {"NotConverged"}) = TRUE
  /\ OkDev(Case.id, <<"nohook">>)
  /\ tag' = "nohook" /\ ei' = ei + 1 /\ UNCHANGED <<evars, cs, bkey, used>>

TraceNextFast == EvInit \/ Continue \/ EvIter \/ EvRunEnd \/ EvResult \/ EvFit \/ EvFitAbort \/ Unjudged \/ NoHook

Stuck ==
  /\ tag = "" /\ ei <= NEv
  /\ ~ENABLED TraceNextFast
  /\ Fail(Case.id, <<ei, Ev.ev, pc, run, it>>)
  /\ tag' = "stuck" /\ UNCHANGED <<evars, cs, ei, bkey, used>>
TraceNext == TraceNextFast \/ Stuck
=============================================================================
