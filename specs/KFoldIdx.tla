------------------------------ MODULE KFoldIdx ------------------------------
(***************************************************************************)
(* X06 (a), pointwise level -- the in-place fold mechanism of KFold.tla    *)
(* for ALL n, k, f, t: every state variable is an unbounded integer, there *)
(* is no constant bounding the model, and Apalache discharges the          *)
(* obligations symbolically (integer arithmetic, non-linear).              *)
(*                                                                         *)
(* Abstraction.  SwapBlocks(b, idx, bs, w) is the re-indexing              *)
(*     SwapBlocks(b, idx, bs, w)[p] = b[Sigma(p, idx, bs*w)]               *)
(* (theorem SwapBlocksIsSigma of KFoldProofs.tla, TLAPS, every sequence b; *)
(* bounded: LemmaPermutes of KFoldInd.tla), and Sigma is an involution of  *)
(* 1..Len(b) (SigmaLemma below; TLAPS: SigmaInvolution).  Hence the cell   *)
(* that sits at position x before a swap sits at position Sigma(x) after   *)
(* it, independently of all other cells, and the buffer contents are       *)
(* described completely by following ONE arbitrary cell of each buffer:    *)
(* the probe (r0, c0, d0) is chosen arbitrarily in Init and never changes; *)
(* lr / lt are the current flat positions (1-based) of record cell         *)
(* (r0, c0) in the record buffer and of target cell (r0, d0) in the target *)
(* buffer.  A property proved for the probe holds for every cell.          *)
(*                                                                         *)
(* The control skeleton (pc, i, mi, mode, nm) is KFoldInd's / KFold's.     *)
(* XC_KFoldInd.tla checks with TLC that on every reachable state of        *)
(* KFold.tla (in-place modes, small constants) every cell is where this    *)
(* module's closed form LocR / LocT says.                                  *)
(***************************************************************************)
EXTENDS Integers

CONSTANTS
  \* "ok" or the name of a seeded design bug
  \* @type: Str;
  Variant

VARIABLES
  \* @type: Int;
  n,
  \* @type: Int;
  k,
  \* @type: Int;
  f,
  \* @type: Int;
  t,
  \* @type: Str;
  mode,
  \* @type: Int;
  nm,
  \* @type: Int;
  i,
  \* @type: Int;
  mi,
  \* @type: Str;
  pc,
  \* probe: sample row, record column, target column (0-based)
  \* @type: Int;
  r0,
  \* @type: Int;
  c0,
  \* @type: Int;
  d0,
  \* current flat positions of the probed cells (1-based)
  \* @type: Int;
  lr,
  \* @type: Int;
  lt

vars == <<n, k, f, t, mode, nm, i, mi, pc, r0, c0, d0, lr, lt>>

Tw(tt) == IF tt = 0 THEN 1 ELSE tt
Fs == n \div k
W  == Tw(t)

\* block exchange on flat positions (1-based): the if-cascade of SwapBlocks / assist_swap_array2
Sigma(p, idx, len) ==
  IF idx = 0 THEN p
  ELSE IF p <= len THEN len * idx + p
  ELSE IF (IF Variant = "offbyone" THEN p >= len * idx ELSE p > len * idx) /\ p <= len * idx + len
         THEN (IF Variant = "copyblock" THEN p ELSE p - len * idx)
  ELSE p

\* the same exchange on rows (0-based)
Rho(r, idx, bs) ==
  IF idx = 0 THEN r
  ELSE IF r < bs THEN r + idx * bs
  ELSE IF r >= idx * bs /\ r < idx * bs + bs THEN r - idx * bs
  ELSE r

-----------------------------------------------------------------------------
Init ==
  /\ n \in Int /\ k \in Int /\ f \in Int /\ t \in Int /\ nm \in Int
  /\ n >= 2 /\ k >= 2 /\ k <= n /\ f >= 1 /\ t >= 0 /\ nm >= 1
  /\ mode \in {"inplace", "cv"} /\ (mode = "inplace" => nm = 1)
  /\ i = 0 /\ mi = 0 /\ pc = "swapin"
  /\ r0 \in Int /\ c0 \in Int /\ d0 \in Int
  /\ r0 >= 0 /\ r0 < n /\ c0 >= 0 /\ c0 < f /\ d0 >= 0 /\ d0 < Tw(t)
  /\ lr = r0 * f + c0 + 1
  /\ lt = r0 * Tw(t) + d0 + 1

SwapIn ==
  /\ pc = "swapin"
  /\ lr' = Sigma(lr, i, Fs * f)
  /\ lt' = Sigma(lt, i, Fs * (IF Variant = "flattargets" THEN 1 ELSE W))
  /\ pc' = "fit"
  /\ UNCHANGED <<n, k, f, t, mode, nm, i, mi, r0, c0, d0>>

Fit ==
  /\ pc = "fit"
  /\ IF mi + 1 < nm THEN mi' = mi + 1 /\ pc' = "fit" ELSE mi' = 0 /\ pc' = "swapout"
  /\ UNCHANGED <<n, k, f, t, mode, nm, i, r0, c0, d0, lr, lt>>

SwapOut ==
  /\ pc = "swapout"
  /\ lr' = Sigma(lr, IF Variant = "wrongfold" /\ i + 1 < k THEN i + 1 ELSE i, Fs * f)
  /\ lt' = Sigma(lt, i, Fs * (IF Variant = "flattargets" THEN 1 ELSE W))
  /\ i' = i + 1
  /\ pc' = IF i + 1 = k THEN "yield" ELSE "swapin"
  /\ UNCHANGED <<n, k, f, t, mode, nm, mi, r0, c0, d0>>

Yield ==
  /\ pc = "yield"
  /\ pc' = IF mode = "cv" THEN "eval" ELSE "done"
  /\ i' = 0 /\ mi' = 0
  /\ UNCHANGED <<n, k, f, t, mode, nm, r0, c0, d0, lr, lt>>

Eval ==
  /\ pc = "eval"
  /\ IF mi + 1 < nm THEN mi' = mi + 1 /\ i' = i /\ pc' = "eval"
     ELSE /\ mi' = 0 /\ i' = i + 1 /\ pc' = IF i + 1 = k THEN "done" ELSE "eval"
  /\ UNCHANGED <<n, k, f, t, mode, nm, r0, c0, d0, lr, lt>>

Next == SwapIn \/ Fit \/ SwapOut \/ Yield \/ Eval

-----------------------------------------------------------------------------
Boundary == pc \in {"swapin", "yield", "eval", "done"}

\* the row in which sample r0 currently sits: a function of r0 and the control state only
RowNow == IF Boundary THEN r0 ELSE Rho(r0, i, Fs)
\* closed form of the probe positions
LocR == RowNow * f + c0 + 1
LocT == RowNow * W + d0 + 1

IndInv ==
  /\ n \in Int /\ k \in Int /\ f \in Int /\ t \in Int /\ nm \in Int /\ i \in Int /\ mi \in Int
  /\ n >= 2 /\ k >= 2 /\ k <= n /\ f >= 1 /\ t >= 0 /\ nm >= 1
  /\ mode \in {"inplace", "cv"} /\ (mode = "inplace" => nm = 1)
  /\ pc \in {"swapin", "fit", "swapout", "yield", "eval", "done"}
  /\ i >= 0 /\ mi >= 0 /\ mi < nm
  /\ (pc \in {"swapin", "fit", "swapout"} => i < k)
  /\ (pc = "yield" => i = k)
  /\ (pc = "eval" => mode = "cv" /\ i < k)
  /\ (pc = "done" => i = IF mode = "cv" THEN k ELSE 0)
  /\ (pc \notin {"fit", "eval"} => mi = 0)
  /\ r0 \in Int /\ c0 \in Int /\ d0 \in Int
  /\ r0 >= 0 /\ r0 < n /\ c0 >= 0 /\ c0 < f /\ d0 >= 0 /\ d0 < W
  /\ lr = LocR
  /\ lt = LocT

-----------------------------------------------------------------------------
(* The invariants of KFold.tla, pointwise. *)

\* InvPerm: no cell ever leaves its buffer (with SigmaLemma: Sigma is a bijection, so no two cells collide)
InvInside == lr >= 1 /\ lr <= n * f /\ lt >= 1 /\ lt <= n * W

\* InvRowsIntact: the record cell (r0,c0) and the target cell (r0,d0) of sample r0 sit in the SAME row
\* RowNow (which does not depend on c0, d0: the whole row moves together), at their own columns
InvRowsIntact ==
  /\ RowNow >= 0 /\ RowNow < n
  /\ lr = RowNow * f + c0 + 1
  /\ lt = RowNow * W + d0 + 1

\* InvBoundary / InvDone: at fold boundaries and at the end every cell is at its original position
Restored    == lr = r0 * f + c0 + 1 /\ lt = r0 * W + d0 + 1
InvBoundary == Boundary => Restored
InvDone     == pc = "done" => Restored

\* TrainOk / ValidOk as state predicates: at pc = "fit" the samples of validation block i occupy rows
\* 0..Fs-1 in order, every other sample sits in a row >= Fs (the window handed to the fit closure)
InBlock(r, b) == r >= b * Fs /\ r < b * Fs + Fs
InvTrainNow ==
  pc = "fit" => IF InBlock(r0, i) THEN RowNow = r0 - i * Fs ELSE (RowNow >= Fs /\ RowNow < n)

Safety == InvInside /\ InvRowsIntact /\ InvBoundary /\ InvDone /\ InvTrainNow

-----------------------------------------------------------------------------
(* Pure arithmetic lemmas, checked from the pseudo-initial state LemmaInit with --length=0:        *)
(* here n = buffer length, k = block index, f = block size (rows), t = row width, lr = position,   *)
(* r0 = a row, c0 = number of rows.                                                                *)
LemmaInit ==
  /\ n \in Int /\ k \in Int /\ f \in Int /\ t \in Int /\ lr \in Int /\ r0 \in Int /\ c0 \in Int
  /\ n >= 0 /\ k >= 0 /\ f >= 0 /\ t >= 0 /\ c0 >= 0
  /\ (k + 1) * f * t <= n
  /\ (k + 1) * f <= c0
  /\ lr >= 1 /\ lr <= n
  /\ r0 >= 0 /\ r0 < c0
  /\ nm = 1 /\ mode = "inplace" /\ i = 0 /\ mi = 0 /\ pc = "lemma" /\ d0 = 0 /\ lt = 0

\* Sigma maps 1..n into itself and is its own inverse: SwapBlocks is an involution and a permutation
SigmaLemma ==
  /\ Sigma(lr, k, f * t) >= 1 /\ Sigma(lr, k, f * t) <= n
  /\ Sigma(Sigma(lr, k, f * t), k, f * t) = lr
\* the same for rows
RhoLemma ==
  /\ Rho(r0, k, f) >= 0 /\ Rho(r0, k, f) < c0
  /\ Rho(Rho(r0, k, f), k, f) = r0
\* n \div k blocks of size Fs fit:  the swap precondition (i+1)*Fs*w <= n*w of every SwapIn / SwapOut
DivLemmaInit ==
  /\ n \in Int /\ k \in Int /\ f \in Int /\ i \in Int
  /\ n >= 2 /\ k >= 2 /\ k <= n /\ f >= 1 /\ i >= 0 /\ i < k
  /\ t = 0 /\ lr = 0 /\ r0 = 0 /\ c0 = 0
  /\ nm = 1 /\ mode = "inplace" /\ mi = 0 /\ pc = "lemma" /\ d0 = 0 /\ lt = 0
DivLemma == Fs >= 1 /\ (i + 1) * Fs <= n /\ (i + 1) * Fs * f <= n * f
=============================================================================
