-------------------------------- MODULE Pca --------------------------------
(***************************************************************************)
(* C18 -- principal component analysis (linfa-reduction/src/pca.rs).       *)
(*                                                                         *)
(* The record matrix X is an integer n x p matrix.  Everything the         *)
(* statement says is a relation between the answer of the implementation   *)
(* (mean, singular values, components, explained variances, projections,   *)
(* reconstructions -- logged as fixed-point integers) and the EXACT        *)
(* integer scatter matrix                                                  *)
(*        M = n X^T X - s s^T  =  n Xc^T Xc      (s = column sums)         *)
(* so that  covariance = M / (n (n-1)),  sigma_i^2 = eigenvalue of M / n.  *)
(* No eigen-decomposition is computed here: the relation CHECKS the        *)
(* reported decomposition (orthonormality, eigen-equation, trace identity, *)
(* Rayleigh bounds, agreement of the leading singular values with the      *)
(* verified complete decomposition), which is exact integer arithmetic.    *)
(*                                                                         *)
(* Fixed point: S = 10^4 for everything except whitened components, which  *)
(* shrink like 1/sigma and are logged at SW = 10^6.  All products are      *)
(* formed with SMD (sign-symmetric a*b/c that never overflows 32 bits).    *)
(*                                                                         *)
(* The second half of the module is a bounded design model: data sets      *)
(* whose PCA is known in closed form (rational rotations of orthogonal     *)
(* sign patterns, with ties), candidate answers (the correct one, sign     *)
(* flips, and typical wrong ones); TLC checks that the relation accepts    *)
(* exactly the answers that satisfy the statement.                         *)
(***************************************************************************)
EXTENDS Fx, TLC

S  == 10000
SW == 1000000
MaxInt == 2147483647

-----------------------------------------------------------------------------
(* overflow-free arithmetic *)

\* <<q, r>> with a*b = q*c + r, 0 <= r < c ; a, b >= 0, 0 < c < 7*10^8, q < 2^31
RECURSIVE MDX(_, _, _)
MDX(a, b, c) ==
  IF b = 0 THEN <<0, 0>>
  ELSE LET h   == MDX(a, b \div 2, c)
           odd == b % 2
           t   == 2 * h[2] + odd * (a % c)
       IN <<2 * h[1] + odd * (a \div c) + t \div c, t % c>>

\* trunc(a*b/c) towards zero, c > 0 ; exact, no intermediate overflow
SMD(a, b, c) ==
  IF a = 0 \/ b = 0 THEN 0
  ELSE LET aa == Abs(a)  bb == Abs(b)  sg == Sgn(a) * Sgn(b) IN
       IF aa <= MaxInt \div bb THEN sg * ((aa * bb) \div c)
       ELSE IF aa >= bb THEN sg * MDX(aa, bb, c)[1] ELSE sg * MDX(bb, aa, c)[1]

\* x*x/S for 0 <= x <= 4*10^6 (error < 1)
Sq4(x) == LET x1 == x \div S  x0 == x % S IN x1 * x1 * S + 2 * x1 * x0 + (x0 * x0) \div S

\* x*v/S, truncated towards zero, without overflow for |v| <= 2*10^5 when the result fits (cheap: no recursion)
MulS(x, v) ==
  LET ax == Abs(x)  av == Abs(v) IN Sgn(x) * Sgn(v) * ((ax \div S) * av + ((ax % S) * av) \div S)
DivT(a, g) == Sgn(a) * (Abs(a) \div g)                    \* a/g truncated towards zero
\* c*w/10^6 for |c|, |w| <= 2*10^7 (error < 2), cheap: w = w1*100 + w0
FW(c, w) == LET aw == Abs(w) IN Sgn(w) * (MulS(c, aw \div 100) + DivT(c * (aw % 100), SW))

AbsSum(s) == SumSeq([q \in 1..Len(s) |-> Abs(s[q])])
MaxOf(s)  == IF Len(s) = 0 THEN 0 ELSE MaxSeq(s)

-----------------------------------------------------------------------------
(* exact data summary *)

ColSum(X, j)  == SumSeq([r \in 1..Len(X) |-> X[r][j]])
Gram(X, j, l) == SumSeq([r \in 1..Len(X) |-> X[r][j] * X[r][l]])

Summary(X, p) ==
  LET n  == Len(X)
      cs == [j \in 1..p |-> ColSum(X, j)]
      M  == [j \in 1..p |-> [l \in 1..p |-> n * Gram(X, j, l) - cs[j] * cs[l]]]
      tr == SumSeq([j \in 1..p |-> M[j][j]])
      \* scale reduction: entries of M/g (|.| <= tr/g < 150000) can be multiplied with a component directly
      g  == IF tr < 150000 THEN 1 ELSE IF tr < 1500000 THEN 10 ELSE IF tr < 15000000 THEN 100
            ELSE IF tr < 150000000 THEN 1000 ELSE 10000
  IN [n |-> n, p |-> p, cs |-> cs, M |-> M, tr |-> tr, g |-> g,
      Mg |-> [j \in 1..p |-> [l \in 1..p |-> DivT(M[j][l], g)]],                       \* M = Mg * g + Mr
      Mr |-> [j \in 1..p |-> [l \in 1..p |-> M[j][l] - g * DivT(M[j][l], g)]],
      ra |-> [j \in 1..p |-> SumSeq([l \in 1..p |-> Abs(M[j][l]) \div g])],             \* |row j of M| / g
      Mn |-> [j \in 1..p |-> [l \in 1..p |-> IF tr > 0 THEN SMD(M[j][l], S, tr) ELSE 0]]]   \* M / tr at scale S

\* n * (row - mean), exact
Yc(D, row) == [j \in 1..D.p |-> D.n * row[j] - D.cs[j]]

\* the arithmetic below is inside 31 bits for these magnitudes (guaranteed by the generators)
InDomain(D) == /\ D.n >= 2 /\ D.n <= 400 /\ D.p >= 1 /\ D.p <= 30
               /\ D.tr >= 1 /\ D.tr <= 1400000000 /\ D.tr \div D.n <= 140000

\* scale reduction for quantities of the size tr(M) * S
G(D) == D.g
TolRel(D, g) == (D.tr \div g + 1) * (S \div 10000)         \* numerical allowance: 10^-4 of tr(M), in units of S/g

\* sqrt(n-1) at scale S (relative error < 1e-4 for n <= 22, < 2.2e-4 beyond)
Rt(n) == IF n <= 22 THEN Isqrt((n - 1) * S * S) ELSE 10 * Isqrt((n - 1) * 1000000)

-----------------------------------------------------------------------------
(* the fitted model: f has the fields of the logged "fit" event                                  *)
(*   mean, sig, sigk (order keys), comp, evar, evr, fin, evfin, evrfin ; k, wh are the request   *)

SigFloor   == 1000                                        \* sigma >= 0.1 (arithmetic guard)
SigCap(D)  == (Isqrt(D.tr \div D.n) + 2) * S              \* sigma_i^2 <= tr(Xc^T Xc)
S2(f, i)   == Sq4(f.sig[i])                               \* sigma_i^2 at scale S
SigC(f, i) == f.sig[i] \div S + 2                         \* quantisation of sigma_i^2, units of S

ShapeOk(D, k, f) ==
  /\ f.fin
  /\ Len(f.mean) = D.p /\ Len(f.sig) = k /\ Len(f.sigk) = k /\ Len(f.comp) = k
  /\ \A i \in 1..k : Len(f.comp[i]) = D.p
  /\ Len(f.evar) = k /\ Len(f.evr) = k

\* the origin of the projection is the sample mean
MeanOk(D, f) ==
  \A j \in 1..D.p :
     /\ Abs(f.mean[j]) <= (Abs(D.cs[j]) \div D.n + 2) * S
     /\ Abs(f.mean[j] * D.n - D.cs[j] * S) <= D.n + 1

\* singular values: positive, inside the trace bound, non-increasing (exact order on the keys)
SigOk(D, k, f) ==
  /\ \A i \in 1..k : f.sig[i] >= SigFloor /\ f.sig[i] <= SigCap(D)
  /\ \A i \in 1..(k - 1) : KeyLe(f.sigk[i + 1], f.sigk[i]) /\ f.sig[i + 1] <= f.sig[i]

\* magnitude guards (implied by unit length; keep every later product inside 31 bits)
CompBound(D, k, wh, f) ==
  \A i \in 1..k :
     LET b == IF wh THEN SMD(11 * Rt(D.n) * 10, S, f.sig[i]) ELSE 11000 IN
     \A j \in 1..D.p : Abs(f.comp[i][j]) <= b

\* components divided by the whitening scale sqrt(n-1)/sigma_i, at scale S
\* (w * sig / (Rt * 100) with the factor F = sig * 10^6 / Rt = F1 * 10^4 + F0 computed once per row)
NV(D, k, wh, f) ==
  IF wh THEN [i \in 1..k |->
                LET F == SMD(f.sig[i], SW, Rt(D.n))  F1 == F \div S  F0 == F % S IN
                [j \in 1..D.p |-> MulS(f.comp[i][j], F1) + DivT(MulS(f.comp[i][j], F0), S)]]
        ELSE f.comp

\* quantisation of a row of NV, in units of S
EQ(D, k, wh, f) ==
  [i \in 1..k |-> IF wh THEN 7 + f.sig[i] \div (200 * S) + (2 * S) \div f.sig[i] ELSE 1]

\* rows of NV are short enough for the dot products below (implied by unit length: |v|_1 <= sqrt(p))
NvBound(D, k, nv, eq) ==
  \A i \in 1..k : /\ AbsSum(nv[i]) <= 12000 * (Isqrt(D.p) + 1)
                  /\ \A j \in 1..D.p : Abs(nv[i][j]) <= 11000 + eq[i]

\* orthonormal directions
OrthOk(D, k, nv, eq) ==
  \A i \in 1..k : \A l \in i..k :
     Abs(Dot(nv[i], nv[l]) - (IF i = l THEN S * S ELSE 0))
        <= (S * S) \div 1000 + 2 * (D.p + 1) * S * Max2(eq[i], eq[l])

\* (M v) / g at scale S, exact up to one unit: two limbs M = Mg * g + Mr, |Mr| < g
MV(D, g, v)  == [j \in 1..D.p |-> Dot(D.Mg[j], v) + (IF D.g = 1 THEN 0 ELSE DivT(Dot(D.Mr[j], v), D.g))]
RowAbs(D, j) == D.ra[j]                                  \* |row j of M| / g
TruncG(D, v) == IF D.g = 1 THEN 0 ELSE 1                  \* truncation of the second limb

\* eigen-equation of the sample covariance:  M v_i = n sigma_i^2 v_i
MVs(D, k, g, nv) == [i \in 1..k |-> MV(D, g, nv[i])]     \* computed once per fit (LET-cached)
EigOk(D, k, g, f, nv, eq, mvs, tg) ==
  \A i \in 1..k :
     LET mv == mvs[i]  s2 == S2(f, i)
         base == TolRel(D, g) + (2 * D.n * SigC(f, i)) \div g + ((D.n * (s2 \div S + 1)) \div g + 1) * eq[i]
                 + tg[i] + 2 * D.n + D.p + 2
     IN \A j \in 1..D.p :
           Abs(mv[j] - D.n * DivT(MulS(s2, nv[i][j]), g)) <= base + RowAbs(D, j) * eq[i]

\* all p singular values: their squares add up to the total scatter (completeness certificate)
TraceOk(D, g, f) ==
  Abs(SumSeq([i \in 1..D.p |-> D.n * (S2(f, i) \div g)]) - D.tr * (S \div g))
     <= TolRel(D, g) + (D.n * SumSeq([i \in 1..D.p |-> SigC(f, i)])) \div g + D.n * D.p + 2

\* v_i^T M v_l / g at scale S
VMV(D, mvs, nv, i, l) == SumSeq([j \in 1..D.p |-> MulS(mvs[l][j], nv[i][j])])

\* projected centred training data: uncorrelated coordinates with sample variance sigma_i^2/(n-1)
\* (all = FALSE: variances only; the off-diagonal part then follows from the eigen-equation and orthonormality)
CovOk(D, k, g, f, nv, eq, mvs, tg, all) ==
  \A i \in 1..k : \A l \in (IF all THEN i..k ELSE {i}) :
     LET c   == VMV(D, mvs, nv, i, l)
         tol == 2 * TolRel(D, g) + 3 * (D.tr \div g + 1) * Max2(eq[i], eq[l]) + 2 * D.p + 2 + 2 * (tg[i] + tg[l])
     IN IF i = l THEN Abs(c - D.n * (S2(f, i) \div g)) <= tol + (D.n * SigC(f, i)) \div g + D.n
                 ELSE Abs(c) <= tol

\* reported explained variance = sigma_i^2 / (n - 1)   [divisor dv = n-1]
EvOkDiv(dv, k, f) ==
  /\ f.evfin
  /\ \A i \in 1..k : /\ f.evar[i] >= 0 /\ f.evar[i] <= S2(f, i) + SigC(f, i) + 10
                     /\ Abs(f.evar[i] - (S2(f, i) + dv \div 2) \div dv) <= 2 + (SigC(f, i) + 1) \div dv
EvOk(D, k, f) == EvOkDiv(D.n - 1, k, f)

\* ratios: finite, non-negative, fractions, proportional to the explained variances
RatioOk(D, k, f) ==
  /\ f.evrfin
  /\ \A i \in 1..k : f.evr[i] >= 0 /\ f.evr[i] <= S + 1
  /\ SumSeq(f.evr) > 0
  /\ \A i \in 1..k : \A l \in (i + 1)..k :
        Abs(MulS(S2(f, l), f.evr[i]) - MulS(S2(f, i), f.evr[l]))
           <= (S2(f, i) + S2(f, l)) \div S + SigC(f, i) + SigC(f, l) + 4

\* agreement with the complete decomposition of the same data (full = its sigma^2 list):
\* the k reported singular values are the k largest ones  (=> maximal retained variance, Ky Fan)
LeadOk(D, k, f, full) ==
  /\ Len(full) = D.p
  /\ \A i \in 1..k :
        Abs(S2(f, i) - full[i]) <= (D.tr \div D.n + 1) * (S \div 10000) + 2 * SigC(f, i) + 2

\* lattice of test directions: no direction outside the reported components carries more than sigma_k^2
Unit(p, j)          == [q \in 1..p |-> IF q = j THEN 1 ELSE 0]
Pair(p, j, l, s, t) == [q \in 1..p |-> IF q = j THEN s ELSE IF q = l THEN t ELSE 0]
\* directions with entries in {-1, 0, 1}, one of each +/- pair (constants: evaluated once)
Lat1 == {<<1>>}
Lat2 == {<<1, 0>>, <<0, 1>>, <<1, 1>>, <<1, -1>>}
Lat3 == {<<1, 0, 0>>, <<0, 1, 0>>, <<0, 0, 1>>, <<1, 1, 0>>, <<1, -1, 0>>, <<1, 0, 1>>, <<1, 0, -1>>, <<0, 1, 1>>,
         <<0, 1, -1>>, <<1, 1, 1>>, <<1, 1, -1>>, <<1, -1, 1>>, <<1, -1, -1>>}
LatU(p) == IF p = 1 THEN Lat1 ELSE IF p = 2 THEN Lat2 ELSE Lat3
\* for p > 3: the unit directions e_j and e_j +/- e_l for |j - l| <= LatSpan(p)
LatSpan(p) == IF p <= 8 THEN p ELSE 2
QuadM(D, u) == SumSeq([j \in 1..D.p |-> u[j] * SumSeq([l \in 1..D.p |-> D.M[j][l] * u[l]])])

\* everything is normalised by tr(M) so that all products stay small:
\*   u^T (M/tr) u - sum_i (n sigma_i^2/tr) (v_i.u)^2  <=  (n sigma_k^2/tr) u.u   (+ slack), at scale S
LatOk(D, k, f, nv, eq) ==
  LET an  == [i \in 1..k |-> SMD(S2(f, i), D.n, D.tr)]                           \* n sigma_i^2 / tr at scale S
      \* entry (j,l) of the deflated matrix (M - sum_i n sigma_i^2 v_i v_i^T) / tr at scale S
      DfE(j, l) == D.Mn[j][l] - SumSeq([i \in 1..k |-> (an[i] * ((nv[i][j] * nv[i][l]) \div S)) \div S])
      eqm == MaxOf(eq)
      Bound(uu, u1) == an[k] * uu
                 + (S * uu) \div 1000            \* numerical allowance 10^-3 tr |u|^2
                 + (S * u1 * u1 * eqm) \div 5000 \* quantisation of the components
                 + 10 * uu                       \* quantisation of sigma_i^2 (sigma >= 1/2)
                 + (2 * k + 1) * u1 * u1 + k * uu + 2   \* truncations
  IN IF D.p <= 3
       THEN LET Df == [j \in 1..D.p |-> [l \in 1..D.p |-> DfE(j, l)]] IN
            \A u \in LatU(D.p) :
               SumSeq([j \in 1..D.p |-> u[j] * Dot(Df[j], u)]) <= Bound(Dot(u, u), AbsSum(u))
       ELSE LET dg == [j \in 1..D.p |-> DfE(j, j)] IN
            /\ \A j \in 1..D.p : dg[j] <= Bound(1, 1)
            /\ \A j \in 1..D.p : \A l \in (j + 1)..Min2(D.p, j + LatSpan(D.p)) :
                  LET o == DfE(j, l) IN
                  /\ dg[j] + dg[l] + 2 * o <= Bound(2, 2)
                  /\ dg[j] + dg[l] - 2 * o <= Bound(2, 2)

-----------------------------------------------------------------------------
(* named deviations (known findings) -- each models what the defective code computes *)
DevEvar == "evar_divides_by_k_minus_1"      \* explained variance = sigma^2/(k-1) ; k = 1: +inf, ratio NaN
DevRitz == "lobpcg_unconverged_ritz"        \* 1 < k < p: orthonormal Ritz pairs of a non-leading subspace
DevInv  == "inverse_ignores_whitening"      \* inverse_transform(z) = z . W + mean also when whitened

EvDevOk(D, k, f) ==
  IF k = 1 THEN ~f.evfin /\ f.evar = <<"+inf">>
           ELSE EvOkDiv(k - 1, k, f)
RatioDevOk(D, k, f) ==
  IF k = 1 THEN ~f.evrfin /\ f.evr = <<"nan">>
           ELSE RatioOk(D, k, f)

\* first clause of the statement that the fit event f violates ("ok" if none).
\* full: sigma^2 list of the accepted complete un-whitened fit (<<>> for that fit itself)
FitWhy(D, k, wh, f, full, devs) ==
  IF ~InDomain(D) THEN "domain"
  ELSE IF ~(k \in 1..D.p) THEN "embedding-size"
  ELSE IF ~ShapeOk(D, k, f) THEN "shape/finite"
  ELSE IF ~MeanOk(D, f) THEN "mean"
  ELSE IF ~SigOk(D, k, f) THEN "sigma-order/range"
  ELSE IF ~CompBound(D, k, wh, f) THEN "component-magnitude"
  ELSE LET nv == NV(D, k, wh, f)  eq == EQ(D, k, wh, f)  g == G(D)
           mvs == MVs(D, k, g, nv)
           tg  == [i \in 1..k |-> TruncG(D, nv[i])]
           ritz == DevRitz \in devs /\ k > 1 /\ k < D.p
       IN IF ~NvBound(D, k, nv, eq) THEN "component-magnitude"
          ELSE IF ~OrthOk(D, k, nv, eq) THEN "orthonormal"
          ELSE IF ~CovOk(D, k, g, f, nv, eq, mvs, tg, ritz \/ D.p <= 6) THEN "projected-covariance"
          ELSE IF ~ritz /\ ~EigOk(D, k, g, f, nv, eq, mvs, tg) THEN "eigen-equation"
          ELSE IF k = D.p /\ ~TraceOk(D, g, f) THEN "trace"
          ELSE IF ~ritz /\ (k < D.p \/ wh) /\ ~LeadOk(D, k, f, full) THEN "leading-singular-values"
          ELSE IF ~ritz /\ k < D.p /\ ~wh /\ ~LatOk(D, k, f, nv, eq) THEN "rayleigh-bound"
          ELSE IF ~(IF DevEvar \in devs THEN EvDevOk(D, k, f) ELSE EvOk(D, k, f)) THEN "explained-variance"
          ELSE IF ~(IF DevEvar \in devs THEN RatioDevOk(D, k, f) ELSE RatioOk(D, k, f)) THEN "ratio"
          ELSE "ok"

\* what later events need from an accepted fit
Model(D, k, wh, f) ==
  [k |-> k, wh |-> wh, mean |-> f.mean, sig |-> f.sig, comp |-> f.comp, s2 |-> [i \in 1..k |-> S2(f, i)]]

-----------------------------------------------------------------------------
(* projection: transform / predict = (row - mean) . components^T *)

Pred(D, m, row) ==
  LET y == Yc(D, row)  cs == IF m.wh THEN 100 ELSE 1 IN
  [i \in 1..m.k |-> SumSeq([j \in 1..D.p |-> SMD(y[j], m.comp[i][j], D.n * cs)])]
TolZ(D, row) == D.p + 3 + AbsSum(Yc(D, row)) \div D.n

ZRowOk(D, m, row, z) ==
  /\ Len(z) = m.k
  /\ LET pr == Pred(D, m, row)  t == TolZ(D, row) IN \A i \in 1..m.k : Abs(z[i] - pr[i]) <= t
ZRowsOk(D, m, rows, z) == Len(z) = Len(rows) /\ \A r \in 1..Len(rows) : ZRowOk(D, m, rows[r], z[r])

\* sample covariance of the projected training rows, from the logged projection itself:
\* diag(sigma_i^2)/(n-1), or the identity when whitening
ZCovOk(D, m, z) ==
  LET g == IF m.wh THEN 1 ELSE G(D) IN
  \A i \in 1..m.k : \A l \in i..m.k :
     LET c    == SumSeq([r \in 1..D.n |-> SMD(z[r][i], z[r][l], S * g)])           \* scale S/g
         qn   == SumSeq([r \in 1..D.n |-> Abs(z[r][i]) + Abs(z[r][l])]) \div (S * g) + D.n + 2
         big  == IF m.wh THEN (D.n - 1) * S ELSE (D.tr \div (D.n * g) + 1) * S
         tol  == big \div 1000 + qn
         want == IF i # l THEN 0 ELSE IF m.wh THEN (D.n - 1) * S ELSE m.s2[i] \div g
     IN Abs(c - want) <= tol + (IF i = l /\ ~m.wh THEN SigC(m, i) ELSE 0)

\* X: the training rows whose projection was logged (all of them, or a prefix for large n)
ProjWhy(D, m, X, Q, pe) ==
  IF ~pe.fin THEN "finite"
  ELSE IF ~ZRowsOk(D, m, X, pe.z) THEN "predict(training)"
  ELSE IF ~ZRowsOk(D, m, X, pe.zt) THEN "transform(training)"
  ELSE IF ~ZRowsOk(D, m, Q, pe.zq) THEN "predict(probe)"
  ELSE IF ~ZRowsOk(D, m, X, pe.zi) THEN "inplace(garbage-buffer)"     \* the in-place form overwrites its buffer
  ELSE IF ~ZRowsOk(D, m, Q, pe.zqi) THEN "inplace(reused-buffer)"
  ELSE IF Len(X) = D.n /\ ~ZCovOk(D, m, pe.z) THEN "covariance-of-projection"   \* needs all training rows
  ELSE "ok"

-----------------------------------------------------------------------------
(* transform followed by inverse transform = orthogonal projection onto mean + span(components) *)

\* the point mean + sum_i c_i w_i/|w_i|^2 with c = z (rows w_i orthogonal, |w_i|^2 = (n-1)/sigma_i^2
\* when whitened, 1 otherwise) ; unscaled = TRUE models `z . W + mean` regardless of whitening
InvRow(D, m, z, unscaled) ==
  LET coef == [i \in 1..m.k |-> IF m.wh /\ ~unscaled THEN SMD(z[i], m.s2[i], (D.n - 1) * S) ELSE z[i]] IN
  [j \in 1..D.p |-> m.mean[j] + SumSeq([i \in 1..m.k |->
       IF ~m.wh THEN MulS(coef[i], m.comp[i][j])
       ELSE IF Abs(coef[i]) <= 20000000 /\ Abs(m.comp[i][j]) <= 20000000 THEN FW(coef[i], m.comp[i][j])
       ELSE SMD(coef[i], m.comp[i][j], SW)])]
\* quantisation of the reconstruction (units of S): un-whitened (|v| dz + |z| dv)/S ; whitened: the
\* relative error of sigma_i^2 (SigC/s2) is amplified by |z_i| |w_i| sigma_i^2/(n-1) <= 2 |z_i| / sigma_i
TolInv(D, m, z, unscaled) ==
  2 + SumSeq([i \in 1..m.k |->
       IF ~m.wh THEN 2 + Abs(z[i]) \div S
       ELSE IF unscaled THEN 2 + (5 * S) \div m.sig[i]
       ELSE 3 + m.sig[i] \div S + SMD(Abs(z[i]), 2 * SigC(m, i), m.sig[i])])

InvRowsOk(D, m, zs, rs, unscaled) ==
  /\ Len(rs) = Len(zs)
  /\ \A r \in 1..Len(zs) :
        /\ Len(rs[r]) = D.p
        /\ LET want == InvRow(D, m, zs[r], unscaled)  t == TolInv(D, m, zs[r], unscaled) IN
           \A j \in 1..D.p : Abs(rs[r][j] - want[j]) <= t

\* all components kept: the round trip is the identity
IdentOk(D, rows, rs) ==
  /\ Len(rs) = Len(rows)
  /\ \A r \in 1..Len(rows) : \A j \in 1..D.p : Abs(rs[r][j] - rows[r][j] * S) <= 2

InvWhy(D, m, X, Q, pz, ie, unscaled) ==
  IF ~ie.fin THEN "finite"
  ELSE IF ~InvRowsOk(D, m, pz.z, ie.rx, unscaled) THEN "round-trip(training)"
  ELSE IF ~InvRowsOk(D, m, pz.zq, ie.rq, unscaled) THEN "round-trip(probe)"
  ELSE IF ~unscaled /\ m.k = D.p /\ ~(IdentOk(D, X, ie.rx) /\ IdentOk(D, Q, ie.rq)) THEN "identity(k=p)"
  ELSE "ok"

-----------------------------------------------------------------------------
(* Bounded design model.                                                                         *)
(* Data: n = 5 rows  x_r = off + sum_i amp_i a_i[r] q_i  with three orthogonal centred sign       *)
(* patterns a_i and the rows q_i of a rational rotation (3-4-5 for p = 2, (1,2,2)/3 for p = 3).   *)
(* Then Xc^T Xc = sum_i 4 amp_i^2 q_i q_i^T exactly: principal axes q_i/|q_i|, singular values    *)
(* 2 amp_i |q_i|, ties whenever two amplitudes coincide.  TLC enumerates the data sets, embedding *)
(* sizes, whitening and candidate answers (correct, sign-flipped, and wrong ones) and checks that *)
(* the relation above accepts exactly the answers that satisfy the statement (VerdictExact).      *)
CONSTANT MaxA
VARIABLE st

\* p = 4: n = 17 (16 rows of Rademacher sign patterns + the mean row), Hadamard rotation / 2, amplitudes up to
\* 10 * MaxA so that tr(M) needs the scale reduction g = 100 and the sparse lattice of LatOk is used
NNp(p) == IF p = 4 THEN 17 ELSE 5
AN(p)  == IF p = 4 THEN 4 ELSE 2                                 \* |a_i| = sqrt(n - 1)
A3 == << <<1, -1, 1, -1, 0>>, <<1, 1, -1, -1, 0>>, <<1, -1, -1, 1, 0>> >>
Pow2(i) == IF i = 1 THEN 1 ELSE IF i = 2 THEN 2 ELSE IF i = 3 THEN 4 ELSE 8
Pat(p, i, r) == IF p < 4 THEN A3[i][r]
                ELSE IF r = 17 THEN 0 ELSE IF ((r - 1) \div Pow2(i)) % 2 = 0 THEN 1 ELSE -1
QQ(p) == IF p = 2 THEN << <<3, 4>>, <<-4, 3>> >>
         ELSE IF p = 3 THEN << <<1, 2, 2>>, <<2, 1, -2>>, <<2, -2, 1>> >>
         ELSE << <<1, 1, 1, 1>>, <<1, 1, -1, -1>>, <<1, -1, 1, -1>>, <<1, -1, -1, 1>> >>
QN(p) == IF p = 2 THEN 5 ELSE IF p = 3 THEN 3 ELSE 2
Offs(p) == IF p = 2 THEN {<<0, 0>>, <<1, -2>>} ELSE IF p = 3 THEN {<<0, 0, 0>>, <<1, -2, 3>>} ELSE {<<1, -2, 3, 0>>}
ProbeD(p) == IF p = 2 THEN <<1, 2>> ELSE IF p = 3 THEN <<1, 2, -1>> ELSE <<1, 2, -1, 3>>   \* probe row = off + ProbeD

DataX(p, amp, off) ==
  [r \in 1..NNp(p) |-> [j \in 1..p |-> off[j] + SumSeq([i \in 1..p |-> amp[i] * Pat(p, i, r) * QQ(p)[i][j]])]]

SortedOrds(p, amp) ==
  {o \in [1..p -> 1..p] : /\ \A a \in 1..p, b \in 1..p : a # b => o[a] # o[b]
                          /\ \A i \in 1..(p - 1) : amp[o[i]] >= amp[o[i + 1]]}

Tags == {"correct", "flip", "reversed", "trailing", "unnorm", "scale105", "evn", "nomean", "rot", "sig2", "ratioflat"}

\* the components reported under a tag: indices into the true axes, in reported order
OrdOf(p, k, ord, tag) ==
  IF tag = "reversed" THEN [i \in 1..k |-> ord[k + 1 - i]]
  ELSE IF tag = "trailing" THEN [i \in 1..k |-> ord[p - k + i]]
  ELSE [i \in 1..k |-> ord[i]]

AnsFit(p, amp, off, k, wh, ord, tag) ==
  LET o    == OrdOf(p, k, ord, tag)
      qn   == QN(p)
      sg   == [i \in 1..k |-> IF tag = "flip" /\ i = 1 THEN -1 ELSE 1]
      base == [i \in 1..k |-> [j \in 1..p |->
                 sg[i] * (IF wh THEN RoundDiv(QQ(p)[o[i]][j] * SW, qn * qn * amp[o[i]])
                                ELSE RoundDiv(QQ(p)[o[i]][j] * S, qn))]]
      comp == IF tag = "unnorm" THEN [i \in 1..k |-> [j \in 1..p |-> 2 * base[i][j]]]
              ELSE IF tag = "scale105" THEN [i \in 1..k |-> [j \in 1..p |-> (21 * base[i][j]) \div 20]]
              ELSE IF tag = "rot" /\ k >= 2
                THEN [i \in 1..k |-> [j \in 1..p |->
                        IF i = 1 THEN RoundDiv(3 * base[1][j] + 4 * base[2][j], 5)
                        ELSE IF i = 2 THEN RoundDiv(3 * base[2][j] - 4 * base[1][j], 5)
                        ELSE base[i][j]]]
              ELSE base
      sig  == [i \in 1..k |-> (IF tag = "sig2" THEN 2 ELSE 1) * AN(p) * amp[o[i]] * qn * S]
      tot  == SumSeq([i \in 1..k |-> amp[o[i]] * amp[o[i]]])
  IN [mean |-> [j \in 1..p |-> IF tag = "nomean" THEN 0 ELSE off[j] * S],
      sig |-> sig, sigk |-> [i \in 1..k |-> <<sig[i], 0, 0>>], comp |-> comp,
      evar |-> [i \in 1..k |-> IF tag = "evn" THEN RoundDiv(AN(p) * AN(p) * amp[o[i]] * amp[o[i]] * qn * qn * S, NNp(p))
                                               ELSE amp[o[i]] * amp[o[i]] * qn * qn * S],
      evr |-> [i \in 1..k |-> IF tag = "ratioflat" THEN RoundDiv(S, k) ELSE RoundDiv(amp[o[i]] * amp[o[i]] * S, tot)],
      fin |-> TRUE, evfin |-> TRUE, evrfin |-> TRUE]

\* does the statement hold for the tagged answer?  (ties make some "wrong" answers right)
Expected(p, amp, off, k, ord, tag) ==
  CASE tag \in {"correct", "flip"} -> TRUE
    [] tag = "reversed" -> \A i \in 1..(k - 1) : amp[ord[i]] = amp[ord[i + 1]]
    [] tag = "trailing" -> \A i \in 1..k : amp[ord[p - k + i]] = amp[ord[i]]
    [] tag = "nomean"   -> \A j \in 1..p : off[j] = 0
    [] tag = "rot"      -> k < 2 \/ amp[ord[1]] = amp[ord[2]]
    [] tag = "ratioflat" -> \A i \in 1..(k - 1) : amp[ord[i]] = amp[ord[i + 1]]
    [] OTHER -> FALSE

FullS2(p, amp, ord) == [i \in 1..p |-> Sq4(AN(p) * amp[ord[i]] * QN(p) * S)]

\* exact projections / reconstructions of the correct model
AnsProj(p, amp, off, k, wh, ord, ptag) ==
  LET qn == QN(p)
      sh == IF ptag = "nocentre" THEN off ELSE [j \in 1..p |-> 0]       \* forgot to subtract the mean
      zr(d, i) == IF wh THEN RoundDiv(Dot(d, QQ(p)[ord[i]]) * S, qn * qn * amp[ord[i]])
                        ELSE RoundDiv(Dot(d, QQ(p)[ord[i]]) * S, qn)
      X == DataX(p, amp, off)
      z == [r \in 1..NNp(p) |-> [i \in 1..k |-> zr([j \in 1..p |-> X[r][j] - off[j] + sh[j]], i)]]
      zq == << [i \in 1..k |-> zr([j \in 1..p |-> ProbeD(p)[j] + sh[j]], i)] >>
  IN [z |-> z, zt |-> z, zq |-> zq, fin |-> TRUE,
      \* "accumulate": the in-place form adds to what the buffer held (garbage 1000.5 + 3r - c ; its own previous result)
      zi |-> IF ptag = "accumulate" THEN [r \in 1..NNp(p) |-> [i \in 1..k |-> z[r][i] + 10005000 + 30000 * (r - 1) - 10000 * (i - 1)]] ELSE z,
      zqi |-> IF ptag = "accumulate" THEN << [i \in 1..k |-> 2 * zq[1][i]] >> ELSE zq]

AnsInv(p, amp, off, k, wh, ord, itag) ==
  LET qn == QN(p)
      m0 == [j \in 1..p |-> IF itag = "nomean" THEN 0 ELSE off[j] * S]
      \* coefficient of q_c in the reconstruction of mean + d, times qn^2 (exact), or what z . W gives
      rec(d) == [j \in 1..p |-> m0[j] + SumSeq([i \in 1..k |->
                   IF itag = "unscaled" /\ wh
                     THEN RoundDiv(Dot(d, QQ(p)[ord[i]]) * QQ(p)[ord[i]][j] * S, qn * qn * qn * qn * amp[ord[i]] * amp[ord[i]])
                     ELSE RoundDiv(Dot(d, QQ(p)[ord[i]]) * QQ(p)[ord[i]][j] * S, qn * qn)])]
      X == DataX(p, amp, off)
  IN [rx |-> [r \in 1..NNp(p) |-> rec([j \in 1..p |-> X[r][j] - off[j]])],
      rq |-> << rec(ProbeD(p)) >>, fin |-> TRUE]

DInit == st = [ph |-> "init"]

GenData ==
  /\ st.ph = "init"
  /\ \/ \E p \in {2, 3} : \E amp \in [1..p -> 1..MaxA], off \in Offs(p) :
           st' = [ph |-> "data", p |-> p, amp |-> amp, off |-> off]
     \/ \E b \in [1..4 -> 1..MaxA], sc \in {1, IF MaxA <= 2 THEN 10 ELSE 5}, off \in Offs(4) :   \* sum sigma^2 <= 140000
           /\ \A i \in 1..3 : b[i] >= b[i + 1]
           /\ st' = [ph |-> "data", p |-> 4, amp |-> [i \in 1..4 |-> sc * b[i]], off |-> off]

AnswerFit ==
  /\ st.ph = "data"
  /\ \E k \in 1..st.p, wh \in BOOLEAN, tag \in Tags,
        ord \in (IF st.p = 4 THEN {<<1, 2, 3, 4>>} ELSE SortedOrds(st.p, st.amp)) :   \* p = 4: amplitudes are generated sorted
        /\ tag = "trailing" => k < st.p
        /\ tag = "rot" => ~wh /\ k >= 2
        /\ LET D == Summary(DataX(st.p, st.amp, st.off), st.p)
               f == AnsFit(st.p, st.amp, st.off, k, wh, ord, tag)
           IN st' = [ph |-> "fit", p |-> st.p, amp |-> st.amp, off |-> st.off, k |-> k, wh |-> wh, tag |-> tag,
                     ord |-> ord,
                     why |-> FitWhy(D, k, wh, f, FullS2(st.p, st.amp, ord), {}),
                     want |-> Expected(st.p, st.amp, st.off, k, ord, tag)]

AnswerProj ==
  /\ st.ph = "fit" /\ st.tag = "correct"
  /\ \E ptag \in {"correct", "nocentre", "accumulate"} :
        LET X == DataX(st.p, st.amp, st.off)
            D == Summary(X, st.p)
            m == Model(D, st.k, st.wh, AnsFit(st.p, st.amp, st.off, st.k, st.wh, st.ord, "correct"))
            Q == << [j \in 1..st.p |-> st.off[j] + ProbeD(st.p)[j]] >>
        IN st' = [ph |-> "proj", p |-> st.p, amp |-> st.amp, off |-> st.off, k |-> st.k, wh |-> st.wh, tag |-> ptag,
                  ord |-> st.ord,
                  why |-> ProjWhy(D, m, X, Q, AnsProj(st.p, st.amp, st.off, st.k, st.wh, st.ord, ptag)),
                  want |-> (ptag = "correct" \/ (ptag = "nocentre" /\ \A i \in 1..st.k : Dot(st.off, QQ(st.p)[st.ord[i]]) = 0))]

AnswerInv ==
  /\ st.ph = "proj" /\ st.tag = "correct"
  /\ \E itag \in {"correct", "nomean", "unscaled"}, dev \in BOOLEAN :
        LET X == DataX(st.p, st.amp, st.off)
            D == Summary(X, st.p)
            m == Model(D, st.k, st.wh, AnsFit(st.p, st.amp, st.off, st.k, st.wh, st.ord, "correct"))
            Q == << [j \in 1..st.p |-> st.off[j] + ProbeD(st.p)[j]] >>
            pz == AnsProj(st.p, st.amp, st.off, st.k, st.wh, st.ord, "correct")
        IN st' = [ph |-> "inv", p |-> st.p, amp |-> st.amp, off |-> st.off, k |-> st.k, wh |-> st.wh, tag |-> itag,
                  ord |-> st.ord, dev |-> dev,
                  why |-> InvWhy(D, m, X, Q, pz, AnsInv(st.p, st.amp, st.off, st.k, st.wh, st.ord, itag), dev),
                  \* strict: right iff correct (or nothing to get wrong); deviation: exactly the unscaled answer
                  want |-> LET zero == \A j \in 1..st.p : st.off[j] = 0
                               eff  == IF itag = "nomean" /\ zero THEN "correct"
                                       ELSE IF itag = "unscaled" /\ ~st.wh THEN "correct" ELSE itag
                           IN IF st.wh /\ dev THEN eff = "unscaled" ELSE eff = "correct"]

DNext == GenData \/ AnswerFit \/ AnswerProj \/ AnswerInv

\* the relation accepts an answer iff the statement holds for it
VerdictExact == st.ph \in {"fit", "proj", "inv"} => ((st.why = "ok") <=> st.want)

\* single clauses are sensitive on their own (not only as the first failing clause of FitWhy)
ClauseSensitive ==
  (st.ph = "fit" /\ ~st.want /\ st.tag \in {"rot", "trailing", "sig2", "scale105"}) =>
    LET D  == Summary(DataX(st.p, st.amp, st.off), st.p)
        f  == AnsFit(st.p, st.amp, st.off, st.k, st.wh, st.ord, st.tag)
        nv == NV(D, st.k, st.wh, f)
        eq == EQ(D, st.k, st.wh, f)
    IN CASE st.tag = "rot"      -> ~EigOk(D, st.k, G(D), f, nv, eq, MVs(D, st.k, G(D), nv), [i \in 1..st.k |-> TruncG(D, nv[i])])
         [] st.tag = "trailing" -> ~LeadOk(D, st.k, f, FullS2(st.p, st.amp, st.ord)) /\ (st.wh \/ ~LatOk(D, st.k, f, nv, eq))
         [] st.tag = "sig2"     -> (st.k = st.p /\ st.p <= 3 /\ SigOk(D, st.k, f)) => ~TraceOk(D, G(D), f)   \* (in FitWhy TraceOk is guarded by SigOk and CovOk)
         [] st.tag = "scale105" -> ~OrthOk(D, st.k, nv, eq)

\* algebra of the exact summary: M is the scatter of the centred rows, symmetric, translation invariant
ScatterIdentity ==
  st.ph = "data" =>
    LET X == DataX(st.p, st.amp, st.off)  D == Summary(X, st.p)
        D0 == Summary(DataX(st.p, st.amp, [j \in 1..st.p |-> 0]), st.p)
    IN /\ \A j \in 1..st.p, l \in 1..st.p :
            /\ D.M[j][l] = D.M[l][j]
            /\ D.n * D.M[j][l] = SumSeq([r \in 1..D.n |-> Yc(D, X[r])[j] * Yc(D, X[r])[l]])
       /\ D.M = D0.M
       /\ D.tr = NNp(st.p) * SumSeq([i \in 1..st.p |-> AN(st.p) * AN(st.p) * st.amp[i] * st.amp[i] * QN(st.p) * QN(st.p)])
       /\ st.p <= 3 => \A u \in LatU(st.p) : QuadM(D, u) >= 0

\* SMD is exact truncated division of the product (checked where the product fits)
ArithOk ==
  st.ph = "data" =>
    /\ \A a \in {0, 7, -13, 46341, 99999}, b \in {0, 3, -46341, 65536}, c \in {1, 7, 10000} :
          (b = 0 \/ Abs(a) <= MaxInt \div Abs(b)) => SMD(a, b, c) = Sgn(a) * Sgn(b) * ((Abs(a) * Abs(b)) \div c)
    /\ MDX(2000000000, 1000001, 500000000) = <<4000004, 0>>
    /\ SMD(123456789, 987654, 100000) = 1219325914
    /\ SMD(-2000000000, 1999999999, 1999999999) = -2000000000
    /\ Sq4(31416) = 98696 /\ Sq4(4000000) = 1600000000
=============================================================================
