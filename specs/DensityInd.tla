----------------------------- MODULE DensityInd -----------------------------
(***************************************************************************)
(* X08 (1) -- Apalache-typed restatement of the DBSCAN seed-loop / search  *)
(* queue machine of specs/Density.tla (C08) with the history variables of  *)
(* specs/X09Density.tla (X09), over an ABSTRACT neighbourhood relation,    *)
(* with an inductive invariant.                                            *)
(*                                                                         *)
(* What is abstracted (and checked by TLC, XC_DensityInd.tla: every        *)
(* behaviour of the DBSCAN part of X09Density.tla is a behaviour of this   *)
(* module under the mapping  nb <- nb, core <- {i : MCore(i)}  and the     *)
(* reachable state sets agree, relation by relation):                      *)
(*  - no points, metric, tolerance or min_points: the machine only ever    *)
(*    looks at  nb[i]  (the within-tolerance neighbourhood of point i,     *)
(*    i itself included) and at "i is a core point".  Here nb is ANY       *)
(*    reflexive symmetric relation on 1..N and core is ANY subset of 1..N  *)
(*    (so in particular every  {i : Cardinality(nb[i]) >= mp}  for every   *)
(*    mp, but also core sets no mp produces: the result is the stronger).  *)
(*  - nb and core are RIGID variables (chosen in Init, UNCHANGED by every  *)
(*    action) rather than CONSTANTS: Density.tla keeps nb in a variable,   *)
(*    and TLA+ does not allow a state expression to be substituted for a   *)
(*    CONSTANT of an instantiated module, so the refinement property could *)
(*    not be stated otherwise.  For Apalache the two are the same thing: a *)
(*    symbolic value constrained by IndInv, so ONE consecution run covers  *)
(*    every relation and every core set on N points.                       *)
(*  - the final relation DbscanOk of Density.tla uses the RECURSIVE        *)
(*    closure GrowC.  Here "a and b are density-connected" is the          *)
(*    recursion-free  Conn(a, b): every set of points that is closed under *)
(*    core-to-core adjacency and contains a contains b  (quantification    *)
(*    over SUBSET (1..N)).  XC_DensityInd checks  DoneOk <=> DbscanOk  on  *)
(*    every terminal state TLC reaches.                                    *)
(*                                                                         *)
(* N is a CONSTANT: one Apalache run proves IndInv inductive for one N,    *)
(* for every relation, core set, and order in which the queue is served    *)
(* (the queue is a set, any member may be taken next).                     *)
(*                                                                         *)
(* Variant # "ok" seeds design bugs the invariants must reject:            *)
(*   "noncore_extends"  a border point pushes its neighbours (Density.tla) *)
(*   "seed_needs_free_neighbour"  the outer scan skips a core point with   *)
(*        no unlabelled neighbour left (Density.tla, round 2)              *)
(*   "steal_border"  the neighbour filter is `label # current cluster`     *)
(*        instead of `unlabelled`: a later cluster takes over the border   *)
(*        points of an earlier one (a label is overwritten)                *)
(*   "no_increment"  DClose forgets to increment the cluster id            *)
(***************************************************************************)
EXTENDS Integers, FiniteSets

CONSTANTS
  \* @type: Int;
  N,
  \* @type: Str;
  Variant

VARIABLES
  \* neighbourhoods: nb[i] = points within the tolerance of i (rigid)
  \* @type: Int -> Set(Int);
  nb,
  \* the core points (rigid)
  \* @type: Set(Int);
  core,
  \* "outer" | "grow" | "done"
  \* @type: Str;
  pc,
  \* outer index (1-based)
  \* @type: Int;
  oi,
  \* labels: -1 = none (noise at termination)
  \* @type: Int -> Int;
  lab,
  \* current cluster id
  \* @type: Int;
  cur,
  \* search queue as a set (= search_found minus the points already taken)
  \* @type: Set(Int);
  queue,
  \* history (X09Density): number of writes to lab[i]
  \* @type: Int -> Int;
  nlab,
  \* history: number of times i entered the queue
  \* @type: Int -> Int;
  npush,
  \* history: points whose step added something to the queue
  \* @type: Set(Int);
  ext

vars == <<nb, core, pc, oi, lab, cur, queue, nlab, npush, ext>>

P == 1..N

Reflexive == \A i \in P : i \in nb[i]
Symmetric == \A i \in P : \A j \in P : j \in nb[i] => i \in nb[j]

Init ==
  /\ nb \in [P -> SUBSET P]
  /\ Reflexive /\ Symmetric
  /\ core \in SUBSET P
  /\ pc = "outer" /\ oi = 1
  /\ lab = [i \in P |-> -1] /\ cur = 0 /\ queue = {}
  /\ nlab = [i \in P |-> 0] /\ npush = [i \in P |-> 0] /\ ext = {}

\* find_neighbors + filter: the neighbours other than the point itself that may still be taken
\* @type: (Int) => Set(Int);
Fresh(i) ==
  {j \in nb[i] : j # i /\ (IF Variant = "steal_border" THEN lab[j] # cur ELSE lab[j] < 0)}

\* @type: (Int) => Bool;
SeedOk(i) == i \in core /\ (Variant = "seed_needs_free_neighbour" => Fresh(i) # {})

\* history updates of X09Density.Hist for a step of `actor` producing labels labN and queue queueN
\* @type: (Int, Int -> Int, Set(Int)) => Bool;
Hist(actor, labN, queueN) ==
  /\ nlab' = [i \in P |-> nlab[i] + (IF labN[i] # lab[i] THEN 1 ELSE 0)]
  /\ npush' = [i \in P |-> npush[i] + (IF i \in queueN /\ i \notin queue THEN 1 ELSE 0)]
  /\ ext' = IF \E j \in queueN : j \notin queue THEN ext \cup {actor} ELSE ext

DSkip ==      \* already labelled, or not a core point: next index
  /\ pc = "outer" /\ oi <= N
  /\ (lab[oi] >= 0 \/ ~SeedOk(oi))
  /\ oi' = oi + 1
  /\ UNCHANGED <<nb, core, pc, lab, cur, queue, nlab, npush, ext>>

DSeed ==      \* an unlabelled core point starts cluster `cur`
  /\ pc = "outer" /\ oi <= N
  /\ lab[oi] < 0 /\ SeedOk(oi)
  /\ LET labN == [lab EXCEPT ![oi] = cur]
         queueN == Fresh(oi)
     IN /\ lab' = labN /\ queue' = queueN
        /\ Hist(oi, labN, queueN)
  /\ pc' = "grow"
  /\ UNCHANGED <<nb, core, oi, cur>>

DPop ==       \* take a candidate from the queue: it joins the cluster; only a core point extends the queue
  /\ pc = "grow"
  /\ \E cand \in queue :
       LET labN == [lab EXCEPT ![cand] = cur]
           queueN == (queue \ {cand}) \cup
                       (IF cand \in core \/ Variant = "noncore_extends" THEN Fresh(cand) ELSE {})
       IN /\ lab' = labN /\ queue' = queueN
          /\ Hist(cand, labN, queueN)
  /\ UNCHANGED <<nb, core, pc, oi, cur>>

DClose ==     \* queue exhausted: the cluster is complete
  /\ pc = "grow" /\ queue = {}
  /\ cur' = (IF Variant = "no_increment" THEN cur ELSE cur + 1)
  /\ oi' = oi + 1 /\ pc' = "outer"
  /\ UNCHANGED <<nb, core, lab, queue, nlab, npush, ext>>

Done ==
  /\ pc = "outer" /\ oi = N + 1
  /\ pc' = "done"
  /\ UNCHANGED <<nb, core, oi, lab, cur, queue, nlab, npush, ext>>

Next == DSkip \/ DSeed \/ DPop \/ DClose \/ Done

Spec == Init /\ [][Next]_vars

-----------------------------------------------------------------------------
(* Density-connectedness without recursion *)

\* S is closed under core-to-core adjacency
\* @type: (Set(Int)) => Bool;
Closed(S) == \A a \in S \cap core : \A b \in nb[a] \cap core : b \in S
\* b lies in the connected component of a in the core graph
\* @type: (Int, Int) => Bool;
Conn(a, b) == \A S \in SUBSET P : (Closed(S) /\ a \in S) => b \in S

-----------------------------------------------------------------------------
(* The statements to be proved (the step invariants of X09Density / Density and the final relation) *)

InvLabelOnce       == \A i \in P : nlab[i] <= 1                      \* a label is never overwritten
InvQueueUnlabelled == pc = "grow" => \A j \in queue : lab[j] = -1    \* queued points are not labelled yet
InvPushOnce        == \A i \in P : npush[i] <= 1                     \* a point enters the queue at most once
InvOnlyCoresExtend == ext \subseteq core                              \* only core points extend the queue
\* Density.InvGrow / InvLabels
InvGrow ==
  pc = "grow" =>
     /\ \A i \in P : lab[i] <= cur
     /\ \A j \in queue : /\ lab[j] \in {-1, cur}
                         /\ \E o \in nb[j] : lab[o] = cur /\ o \in core
InvLabels == \A i \in P : lab[i] < cur + (IF pc = "grow" THEN 1 ELSE 0)

\* at termination: clusters = connected components of the core graph plus their borders
DoneLabelled == \A i \in P : (lab[i] >= 0) <=> (i \in core \/ nb[i] \cap core # {})
DoneComponents == \A a \in core : \A b \in core : (lab[a] = lab[b]) <=> Conn(a, b)
DoneBorder == \A i \in P \ core : lab[i] >= 0 => \E o \in nb[i] \cap core : lab[o] = lab[i]
DoneNoGaps == /\ \A i \in P : lab[i] >= -1 /\ lab[i] < cur
              /\ \A l \in 0..N : l < cur => \E i \in P : lab[i] = l
DoneOk == DoneLabelled /\ DoneComponents /\ DoneBorder /\ DoneNoGaps
InvDone == pc = "done" => DoneOk

Safety ==
  /\ InvLabelOnce /\ InvQueueUnlabelled /\ InvPushOnce /\ InvOnlyCoresExtend
  /\ InvGrow /\ InvLabels /\ InvDone

-----------------------------------------------------------------------------
(* The inductive invariant *)

\* number of cluster ids in use
K == cur + (IF pc = "grow" THEN 1 ELSE 0)

TypeOk ==
  /\ nb \in [P -> SUBSET P]
  /\ core \in SUBSET P
  /\ pc \in {"outer", "grow", "done"}
  /\ oi \in 1..(N + 1)
  /\ lab \in [P -> -1..N]
  /\ cur \in 0..N
  /\ queue \in SUBSET P
  /\ nlab \in [P -> 0..1]
  /\ npush \in [P -> 0..1]
  /\ ext \in SUBSET P

\* control
IControl ==
  /\ pc = "grow" => (oi <= N /\ oi \in core /\ lab[oi] = cur)
  /\ pc # "grow" => queue = {}
  /\ pc = "done" => oi = N + 1
  /\ cur < oi
\* labels: only ids in use, every id in use is carried by a core point, written once
ILabels ==
  /\ \A i \in P : lab[i] < K
  /\ \A l \in 0..N : l < K => \E i \in core : lab[i] = l
  /\ \A i \in P : nlab[i] = (IF lab[i] >= 0 THEN 1 ELSE 0)
\* queue: members are unlabelled, entered once, and are reached by a core point of the current cluster;
\* a point that entered the queue and left it is labelled; only core points extended the queue
IQueue ==
  /\ \A j \in queue : /\ lab[j] = -1 /\ npush[j] = 1
                      /\ \E o \in nb[j] : o \in core /\ lab[o] = cur
  /\ \A j \in P : (npush[j] = 1 /\ j \notin queue) => lab[j] >= 0
  /\ ext \subseteq core
\* the outer scan leaves no unlabelled core point behind
IOuter == \A i \in P : (i < oi /\ i \in core) => lab[i] >= 0
\* clusters
IClusters ==
  \* a labelled border point carries the label of a core point that reaches it
  /\ \A i \in P : (lab[i] >= 0 /\ i \notin core) => \E o \in nb[i] : o \in core /\ lab[o] = lab[i]
  \* everything within the tolerance of a labelled core point is labelled, or (current cluster) queued
  /\ \A a \in core : lab[a] >= 0 =>
        \A j \in nb[a] : lab[j] >= 0 \/ (pc = "grow" /\ lab[a] = cur /\ j \in queue)
  \* labelled core points within the tolerance of each other carry the same label
  /\ \A a \in core : \A b \in nb[a] : (b \in core /\ lab[a] >= 0 /\ lab[b] >= 0) => lab[a] = lab[b]
  \* core points with the same label are density-connected: every closed set is a union of label classes
  /\ \A S \in SUBSET P : Closed(S) =>
        \A a \in core : \A b \in core : (lab[a] >= 0 /\ lab[a] = lab[b] /\ a \in S) => b \in S

IndInv ==
  /\ TypeOk
  /\ Reflexive /\ Symmetric
  /\ IControl /\ ILabels /\ IQueue /\ IOuter /\ IClusters
=============================================================================
