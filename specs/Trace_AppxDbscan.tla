------------------------- MODULE Trace_AppxDbscan -------------------------
(***************************************************************************)
(* X05 trace validation.  One case = one input (lattice points, eps,       *)
(* rho, min_points, float type, neighbour index).  The harness runs it     *)
(* through three implementations and every calling form:                   *)
(*   impl "alias" : linfa_clustering::AppxDbscan as exported by the crate  *)
(*                  (in this tree a type alias of the exact Dbscan with    *)
(*                  Euclidean distance; it has no slack parameter)         *)
(*   impl "grid"  : the approximate algorithm of                           *)
(*                  algorithms/linfa-clustering/src/appx_dbscan compiled   *)
(*                  into the harness from the tree under test              *)
(*   impl "dbscan": linfa's exact Dbscan::params                           *)
(* events                                                                  *)
(*   {"ev":"check","impl":..,"res":"ok"|"MinPoints"|"Tolerance"|"Slack"}   *)
(*   {"ev":"labels","impl":..,"form":"array"|"strided"|"dataset",          *)
(*    "res":"ok"|"err","labels":[-1|label..],"rec":bool}                   *)
(* Every label vector must satisfy the contract of AppxDbscan.tla:         *)
(*   grid           : ApproxOk with Nb1 = within eps (inclusive: "at most  *)
(*                    tolerance"), Nb2 = within eps(1+rho)                 *)
(*   alias, dbscan  : the exact relation (Nb1 = Nb2); whether a point      *)
(*                    exactly on the radius is a neighbour is not          *)
(*                    documented for Dbscan, TLC infers it once per case   *)
(* Invalid parameters (min_points <= 1, tolerance <= 0, slack <= 0) must   *)
(* be refused by check() with one of the applicable documented errors and  *)
(* by transform() on the unchecked parameters (no labels may come back).   *)
(* At the end of the case: every expected event was seen; alias and exact  *)
(* Dbscan agree; and where the slack cannot matter (no lattice distance in *)
(* (eps, eps(1+rho)]) and no pair lies exactly on the radius, the grid     *)
(* result equals the exact Dbscan result up to border ties and numbering.  *)
(*                                                                         *)
(* Named deviation (enabled only when listed in Devs):                     *)
(*  "grid_neighbour_cells_by_first_point" : what the source in the tree    *)
(*      computes: cells indexed by get_cell_index as written (closed       *)
(*      origin cell), two cells are neighbours iff the FIRST points        *)
(*      inserted into them are closer than 2 eps; points of non-neighbour  *)
(*      cells never see each other (core count, union, border).  The       *)
(*      contract is then evaluated with both neighbourhoods restricted to  *)
(*      pairs of points in neighbouring cells, so any other wrong label    *)
(*      vector is still rejected.                                          *)
(***************************************************************************)
EXTENDS AppxDbscan, TraceIO

CONSTANT Devs      \* named deviations (known findings)

VARIABLES c, e,    \* case and event cursor
          incl,    \* inferred boundary convention of the exact Dbscan for this case
          used     \* deviations that were needed

Case == Rec[c]
In   == Case.inp
Ev   == Case.ev[e]
P    == In.pts
MP   == In.minpts
EN   == In.eps.n
ED   == In.eps.d
RN   == In.rho.n
RD   == In.rho.d

ValidFor(impl) == MP >= 2 /\ EN >= 1 /\ (impl = "grid" => RN >= 1)
Errors(impl) == (IF MP <= 1 THEN {"MinPoints"} ELSE {}) \cup (IF EN <= 0 THEN {"Tolerance"} ELSE {})
                \cup (IF impl = "grid" /\ RN <= 0 THEN {"Slack"} ELSE {})

\* the design-model variables are idle during trace validation, except the caches d2 / nb1 / nb2
DesignIdle ==
  /\ pts = <<>> /\ mp = 0 /\ eps = <<0, 1>> /\ rho = <<0, 1>> /\ pc = "trace" /\ cellOf = <<>> /\ rep = <<>>
  /\ cnb = <<>> /\ labelled = {} /\ core = {} /\ part = {} /\ asked = {} /\ bdone = {} /\ lab = <<>>

AllValid == MP >= 2 /\ EN >= 1 /\ RN >= 1

TraceInit ==
  /\ c \in 1..Len(Rec) /\ e = 1
  /\ d2 = D2M(P)
  /\ nb1 = IF EN >= 1 THEN NbEps(d2, EN, ED, TRUE) ELSE <<>>
  /\ nb2 = IF EN >= 1 /\ RN >= 1 THEN NbAppx(d2, EN, ED, RN, RD) ELSE <<>>
  /\ incl \in (IF EN >= 1 /\ HasOnEps(d2, EN, ED) THEN BOOLEAN ELSE {TRUE})
  /\ used = {}
  /\ DesignIdle

\* ---- the deviation: neighbourhoods as the source in the tree sees them
NbDev == "grid_neighbour_cells_by_first_point"
CellT(i) == CellIdx("ascoded", P[i], EN, ED)
RepT(i)  == CHOOSE j \in 1..Len(P) : CellT(j) = CellT(i) /\ \A k \in 1..(j - 1) : CellT(k) # CellT(i)
AdjT(i, j) == d2[RepT(i)][RepT(j)] * ED * ED < 4 * EN * EN
Restrict(Nb) == [i \in 1..Len(P) |-> {j \in Nb[i] : AdjT(i, j)}]
GridDevOk(labels) == NbDev \in Devs /\ ApproxOk(labels, Restrict(nb1), Restrict(nb2), MP)

NbExact == IF incl THEN nb1 ELSE NbEps(d2, EN, ED, FALSE)

LabelsWhy ==
  IF Ev.form \notin {"array", "strided", "dataset"} THEN "unknown_form"
  ELSE IF ~ValidFor(Ev.impl) THEN (IF Ev.res = "err" THEN "ok" ELSE "invalid_params_not_refused")
  ELSE IF Ev.res # "ok" THEN "valid_params_refused"
  ELSE IF Ev.form = "dataset" /\ ~Ev.rec THEN "records_changed"
  ELSE IF Ev.impl = "grid" THEN ApproxWhy(Ev.labels, nb1, nb2, MP)
  ELSE IF Ev.impl \in {"alias", "dbscan"} THEN ApproxWhy(Ev.labels, NbExact, NbExact, MP)
  ELSE "unknown_impl"

CheckWhy ==
  IF Errors(Ev.impl) = {} THEN (IF Ev.res = "ok" THEN "ok" ELSE "valid_params_rejected")
  ELSE IF Ev.res \in Errors(Ev.impl) THEN "ok" ELSE "wrong_check_result"

EvWhy ==
  IF Ev.ev = "labels" THEN LabelsWhy
  ELSE IF Ev.ev = "check" THEN CheckWhy
  ELSE "unexplained_event"              \* panic events

Conv == IF incl THEN "incl" ELSE "strict"

TEvent ==
  /\ e <= Len(Case.ev)
  /\ LET w == EvWhy IN
     IF w = "ok" THEN e' = e + 1 /\ used' = used
     ELSE IF Ev.ev = "labels" /\ Ev.impl = "grid" /\ ValidFor("grid") /\ Ev.res = "ok" /\ GridDevOk(Ev.labels)
       THEN e' = e + 1 /\ used' = used \cup {NbDev}
     ELSE /\ used' = used
          /\ Fail(Case.id, "ev" \o ToString(e) \o ":" \o Ev.ev \o ":" \o
                           (IF Ev.ev \in {"labels", "check"} THEN Ev.impl ELSE "-") \o ":" \o w \o ":" \o Conv)
          /\ e' = Len(Case.ev) + 2
  /\ UNCHANGED <<c, incl, vars>>

\* completeness and the cross-implementation clauses
Has(name, impl, form) ==
  \E q \in 1..Len(Case.ev) : /\ Case.ev[q].ev = name /\ Case.ev[q].impl = impl
                             /\ (name = "labels" => Case.ev[q].form = form)
Complete ==
  /\ \A im \in {"alias", "grid"} : Has("check", im, "") /\ \A fm \in {"array", "strided", "dataset"} : Has("labels", im, fm)
  /\ Has("labels", "dbscan", "array")
LabelsOf(impl) == {Case.ev[q].labels : q \in {q \in 1..Len(Case.ev) : Case.ev[q].ev = "labels" /\ Case.ev[q].impl = impl
                                                                      /\ Case.ev[q].res = "ok"}}
AliasIsDbscan ==
  ValidFor("alias") => \A l1 \in LabelsOf("alias") : \A l2 \in LabelsOf("dbscan") : Equivalent(l1, l2, CoreSet(NbExact, MP))
Coincide ==
  (AllValid /\ nb1 = nb2 /\ ~HasOnEps(d2, EN, ED)) =>
     \A l1 \in LabelsOf("grid") : \A l2 \in LabelsOf("dbscan") : Equivalent(l1, l2, CoreSet(nb1, MP))

\* (a grid result that needed the deviation is not compared with the exact Dbscan)
EndOk == Complete /\ AliasIsDbscan /\ (used = {} => Coincide)
Accept ==
  /\ e = Len(Case.ev) + 1
  /\ EndOk
  /\ IF used = {} THEN Ok(Case.id) ELSE OkDev(Case.id, <<NbDev>>)
  /\ e' = e + 1 /\ UNCHANGED <<c, incl, used, vars>>

Reject ==
  /\ e = Len(Case.ev) + 1
  /\ ~EndOk
  /\ Fail(Case.id, "end:" \o (IF ~Complete THEN "incomplete" ELSE IF ~AliasIsDbscan THEN "alias_differs_from_dbscan"
                              ELSE "grid_differs_from_exact_dbscan") \o ":" \o Conv)
  /\ e' = Len(Case.ev) + 2 /\ UNCHANGED <<c, incl, used, vars>>

TraceNext == TEvent \/ Accept \/ Reject
=============================================================================
