--------------------------- MODULE Trace_Embedding ---------------------------
(***************************************************************************************************)
(* X03 trace validation: events recorded from the real random projections and diffusion maps of     *)
(* linfa-reduction (harness/src/bin/x03.rs) are explained with the relations of Embedding.tla.       *)
(*                                                                                                   *)
(* rp / jl cases, per rng of the case:                                                               *)
(*   fit     the outcome is the documented one for the dimension (requested, or some member of the   *)
(*           Johnson-Lindenstrauss bracket): shape (n_features, dim), or the documented error        *)
(*   matrix  image of the identity = projection matrix: shape, every cell finite, sparse structure   *)
(*   tf      every calling form / batching returns X . R cell by cell and the same bits              *)
(*   refit   same rng => bit-identical matrix (same params, rebuilt params, with_rng, other data)     *)
(*   at the end: different explicit seeds gave different Gaussian matrices; pooled sparse density    *)
(* dm cases: kernel (input, bound to the lattice points), then one event per number of steps.        *)
(*                                                                                                   *)
(* No named deviation is defined for X03 (Devs is unused): the one defect found has a fix diff.       *)
(***************************************************************************************************)
EXTENDS Embedding, TraceIO

CONSTANT Devs

VARIABLES c, e
tvars == <<c, e>>

Case == Rec[c]
In   == Case.inp
Ev   == Case.ev[e]
NEv  == Len(Case.ev)

TraceInit ==
  /\ c \in 1..Len(Rec) /\ e = 1
  /\ phase = "trace" /\ nf = 0 /\ td = 0 /\ R = <<>> /\ graph = {}

HasEv(name) == e <= NEv /\ Ev.ev = name
Adv == e' = e + 1 /\ UNCHANGED <<c, vars>>

IsRp == Case.kind \in {"rp", "jl"}
Sparse == In.meth = "sparse"

-----------------------------------------------------------------------------
(* random projections *)
\* index of the fit / matrix event of a seed (each seed occurs once per case)
FitIdx(seed) == CHOOSE m \in 1..NEv : Case.ev[m].ev = "fit" /\ Case.ev[m].seed = seed
MatIdx(seed) == CHOOSE m \in 1..NEv : Case.ev[m].ev = "matrix" /\ Case.ev[m].seed = seed
HasMat(seed) == \E m \in 1..NEv : Case.ev[m].ev = "matrix" /\ Case.ev[m].seed = seed

\* the outcome of fit, as documented
FitOk(ev) ==
  IF Case.kind = "rp"
    THEN IF In.td = 0 THEN ~ev.ok /\ ev.err = "NonPositiveEmbeddingSize"
         ELSE IF In.td > In.nf THEN ~ev.ok /\ ev.err = "DimensionIncrease" /\ ev.args = <<In.td, In.nf>>
         ELSE ev.ok
    ELSE IF ~EpsValid(In.ep, In.eq) THEN ~ev.ok /\ ev.err = "InvalidPrecision"
         ELSE \E d \in JLDims(In.ns, In.ep, In.eq) :
                IF d > In.nf THEN ~ev.ok /\ ev.err = "DimensionIncrease" /\ ev.args = <<d, In.nf>> ELSE ev.ok

\* the dimension(s) the matrix of this case may have
DimsOf == IF Case.kind = "rp" THEN {In.td} ELSE {d \in JLDims(In.ns, In.ep, In.eq) : d <= In.nf}

TFit ==
  /\ IsRp /\ HasEv("fit")
  /\ FitOk(Ev)
  \* a successful fit is followed by its matrix event, a failed one by nothing for this seed
  /\ IF Ev.ok THEN (IF e < NEv THEN Case.ev[e + 1].ev = "matrix" /\ Case.ev[e + 1].seed = Ev.seed ELSE FALSE)
              ELSE IF e = NEv THEN TRUE ELSE Case.ev[e + 1].ev = "fit"
  /\ Adv

MatrixWhy(ev) ==
  IF ev.shape[1] # In.nf \/ ev.shape[2] \notin DimsOf THEN "shape"
  ELSE IF ev.bad # 0 THEN "finite"
  ELSE IF ev.full /\ ~IsMatrix(ev.R, ev.shape[1], ev.shape[2]) THEN "cells"
  ELSE IF Sparse /\ ev.full /\ ~SparseOk(ev.R, ev.mags, In.nf) THEN "sparse"
  ELSE IF Sparse /\ ~ev.full /\ ~(Len(ev.mags) <= 1 /\ \A q \in 1..Len(ev.mags) : IsSqrtOf(ev.mags[q], In.nf)) THEN "sparse"
  ELSE "ok"

TMatrix ==
  /\ IsRp /\ HasEv("matrix")
  /\ MatrixWhy(Ev) = "ok"
  /\ Adv

Forms == {"ref", "owned", "view", "dsref", "ds", "rows", "halves", "colmajor"}
TfWhy(ev) ==
  LET m == Case.ev[MatIdx(ev.seed)] IN
  IF ev.form \notin Forms THEN "form"
  ELSE IF ev.shape # <<Len(In.X), m.shape[2]>> THEN "shape"
  ELSE IF ev.bad # 0 THEN "finite"
  ELSE IF m.full /\ ~TfOk(In.X, m.R, ev.Y, m.shape[2], In.ft) THEN "X.R"
  \* datasets keep their targets
  ELSE IF ev.form \in {"ds", "dsref"} /\ ev.tg # [q \in 1..Len(In.X) |-> 499 + q] THEN "targets"
  \* every calling form and every batching returns the same bits as the first form
  ELSE IF \E q \in 1..NEv : Case.ev[q].ev = "tf" /\ Case.ev[q].seed = ev.seed /\ Case.ev[q].dg # ev.dg THEN "bits"
  ELSE "ok"

TTf ==
  /\ IsRp /\ HasEv("tf")
  /\ HasMat(Ev.seed)
  /\ TfWhy(Ev) = "ok"
  /\ Adv

RefitHows == <<"again", "with_rng", "other_data">>
TRefit ==
  /\ IsRp /\ HasEv("refit")
  /\ HasMat(Ev.seed)
  /\ Len(Ev.runs) = 3
  /\ \A q \in 1..3 :
       /\ Ev.runs[q].how = RefitHows[q]
       /\ Ev.runs[q].ok
       /\ Ev.runs[q].dg = Case.ev[MatIdx(Ev.seed)].dg
  \* all calling forms were recorded for this seed
  /\ \A fm \in Forms : \E q \in 1..NEv : Case.ev[q].ev = "tf" /\ Case.ev[q].seed = Ev.seed /\ Case.ev[q].form = fm
  /\ Adv

\* whole-case conditions of a projection case
MatEvents == {m \in 1..NEv : Case.ev[m].ev = "matrix"}
RECURSIVE SumOver(_, _)
SumOver(S, f) == IF S = {} THEN 0 ELSE LET x == CHOOSE y \in S : TRUE IN f[x] + SumOver(S \ {x}, f)
IsSquare(n) == Isqrt(n) * Isqrt(n) = n
RpEndWhy ==
  \* every rng of the case was fitted exactly once
  IF Cardinality({m \in 1..NEv : Case.ev[m].ev = "fit"}) # Len(In.seeds)
     \/ \E q \in 1..Len(In.seeds) : Cardinality({m \in 1..NEv : Case.ev[m].ev = "fit" /\ Case.ev[m].seed = In.seeds[q]}) # 1
    THEN "seeds"
  \* different explicit seeds give different Gaussian matrices (at least two cells)
  ELSE IF ~Sparse /\ \E a \in MatEvents : \E b \in MatEvents :
             a # b /\ Case.ev[a].seed >= 0 /\ Case.ev[b].seed >= 0
             /\ Case.ev[a].shape[1] * Case.ev[a].shape[2] >= 2 /\ Case.ev[a].dg = Case.ev[b].dg
    THEN "rng-ignored"
  \* pooled density of the sparse matrices (n_features a perfect square, matrices logged in full)
  ELSE IF Sparse /\ IsSquare(In.nf) /\ (\A m \in MatEvents : Case.ev[m].full)
          /\ ~DensityOk(SumOver(MatEvents, [m \in MatEvents |-> Case.ev[m].shape[1] * Case.ev[m].shape[2]]),
                        SumOver(MatEvents, [m \in MatEvents |-> NonZeros(Case.ev[m].R)]),
                        SumOver(MatEvents, [m \in MatEvents |-> Positives(Case.ev[m].R)]),
                        Isqrt(In.nf))
    THEN "density"
  ELSE "ok"

-----------------------------------------------------------------------------
(* diffusion maps *)
KEv == Case.ev[1]
N == KEv.n
KernelWhy(ev) ==
  IF ev.bad # 0 THEN "finite"
  ELSE IF ~IsMatrix(ev.K, ev.n, ev.n) THEN "shape"
  ELSE IF ~KSym(ev.K) THEN "symmetric"
  ELSE IF \E i \in 1..ev.n : \E k \in 1..ev.n : ev.K[i][k] > S6 \/ ev.K[i][k] < 0 THEN "range"
  ELSE IF In.direct
    THEN IF ev.n = Len(In.kn) /\ \A i \in 1..ev.n : \A k \in 1..ev.n : ev.K[i][k] * In.kd = In.kn[i][k] * S6 THEN "ok" ELSE "entries"
    ELSE IF ev.n = Len(In.pts) /\ KernelOk(ev.K, In.pts, In.en, In.ed) THEN "ok" ELSE "entries"

TKernel ==
  /\ Case.kind = "dm" /\ HasEv("kernel") /\ e = 1
  /\ KernelWhy(Ev) = "ok"
  /\ Adv

\* the first successful run with one step (reference for the scaling by steps)
OneIdx == CHOOSE m \in 2..NEv : Case.ev[m].steps = 1
HasOne == \E m \in 2..NEv : Case.ev[m].steps = 1 /\ Case.ev[m].res = "ok"

\* the relation for a successful run; dev = TRUE evaluates the eigen-pair clauses for the operator the
\* defective full-decomposition branch uses (see the header)
DmWhy(ev, K) ==
  LET es == In.es IN
  IF ev.bad # 0 THEN "finite"
  ELSE IF ev.shape # <<N, es>> \/ ev.nlam # es \/ ~DmShapeOk(ev.E, ev.lam, N, es) THEN "shape"
  ELSE IF ~DmSortedOk(ev.lam) THEN "sorted"
  ELSE IF ~DmEigOk(K, ev.E, ev.lam, es) THEN "eigen-equation"
  ELSE IF ~DmNonZeroOk(K, ev.E, ev.lam, es, ev.steps) THEN "zero-vector"
  ELSE IF ~DmNonTrivialOk(K, ev.lam) THEN "trivial-pair"
  ELSE IF ~DmTraceOk(K, ev.lam, es) THEN "leading"
  ELSE IF ev.steps # 1 /\ HasOne /\ ~DmStepsOk(Case.ev[OneIdx].E, Case.ev[OneIdx].lam, ev.E, ev.lam, es, ev.steps) THEN "steps"
  ELSE "ok"

DmOutcomeWhy(ev) ==
  IF ev.steps = 0 \/ In.es = 0
    THEN IF ev.res = "err" /\ ((ev.steps = 0 /\ ev.err = "StepsZero") \/ (In.es = 0 /\ ev.err = "EmbeddingTooSmall"))
           THEN "ok" ELSE "param-error"
  ELSE IF In.es > N THEN (IF ev.res \in {"err", "panic"} THEN "ok" ELSE "size-error")
  ELSE IF In.es = N THEN "ok"                   \* n - 1 non-trivial pairs exist: n of them is left unspecified
  ELSE IF ev.res # "ok" THEN "failed"
  ELSE DmWhy(ev, KEv.K)

TDm ==
  /\ Case.kind = "dm" /\ HasEv("dm") /\ e > 1
  /\ DmOutcomeWhy(Ev) = "ok"
  /\ Adv

-----------------------------------------------------------------------------
EndWhy ==
  IF IsRp THEN RpEndWhy
  ELSE IF NEv # Len(In.steps) + 1 \/ \E q \in 1..Len(In.steps) : Case.ev[q + 1].steps # In.steps[q] THEN "runs"
  ELSE "ok"

AcceptGuard == e = NEv + 1 /\ NEv > 0 /\ EndWhy = "ok"
Accept ==
  /\ AcceptGuard
  /\ Ok(Case.id)
  /\ e' = e + 1 /\ UNCHANGED <<c, vars>>

\* diagnostics: the first event no action explains, with the name of the first false clause
Why ==
  IF e > NEv THEN EndWhy
  ELSE IF IsRp /\ Ev.ev = "fit" THEN "fit-outcome"
  ELSE IF IsRp /\ Ev.ev = "matrix" THEN MatrixWhy(Ev)
  ELSE IF IsRp /\ Ev.ev = "tf" THEN (IF HasMat(Ev.seed) THEN TfWhy(Ev) ELSE "no-matrix")
  ELSE IF IsRp /\ Ev.ev = "refit" THEN "refit"
  ELSE IF Case.kind = "dm" /\ Ev.ev = "kernel" THEN KernelWhy(Ev)
  ELSE IF Case.kind = "dm" /\ Ev.ev = "dm" THEN DmOutcomeWhy(Ev)
  ELSE "unexplained"

Stuck ==
  /\ e <= NEv + 1
  /\ ~(ENABLED TFit \/ ENABLED TMatrix \/ ENABLED TTf \/ ENABLED TRefit \/ ENABLED TKernel \/ ENABLED TDm \/ AcceptGuard)
  /\ Fail(Case.id, <<e, IF e <= NEv THEN Ev.ev ELSE "end", Why>>)
  /\ e' = NEv + 2 /\ UNCHANGED <<c, vars>>

TraceNext == TFit \/ TMatrix \/ TTf \/ TRefit \/ TKernel \/ TDm \/ Accept \/ Stuck
=============================================================================
