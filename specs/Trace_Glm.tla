----------------------------- MODULE Trace_Glm -----------------------------
(***************************************************************************)
(* C12 trace validation, GLM part.  One case = one fit of the real         *)
(* TweedieRegressor followed by predict on the training rows and two more. *)
(*   fit : targets outside the support of the Tweedie family  <=>  the     *)
(*         documented error InvalidTargetRange;                            *)
(*         otherwise the returned (coef, intercept) is a stationary point  *)
(*         of 1/2 (deviance + alpha |w|^2): every gradient component       *)
(*         (enclosed by interval arithmetic, Glm.tla) reaches 0.           *)
(*         Targets may be measured in a unit 2^ue (log link): the relation *)
(*         is evaluated on the unit-1 quantities and rescaled by           *)
(*         2^(ue (2 - p)) (GlmStationaryU).                                *)
(*   mu  : predictions equal h(x . w + b), are finite and inside the       *)
(*         link's range.                                                   *)
(* Solver failures: for the convex, everywhere defined configurations      *)
(* (identity link with power 0; log link with power 1, 3/2, 2) a fit that  *)
(* returns an error or does not return is not explained.  For the other    *)
(* configurations the objective is non-convex or only defined for mu > 0,  *)
(* the statement speaks about the point that is returned, and an argmin    *)
(* line-search error / time-out is accepted as "no result" (counted in the *)
(* evidence, never silently: see props/c12.py).  The same holds when a     *)
(* non-convex configuration returns a point outside the range in which the *)
(* enclosures can be evaluated (e.g. power 3 with the log link is flat as   *)
(* mu -> infinity: a run-away iterate has a vanishing gradient): no verdict,*)
(* a NOTE line is printed and counted.                                     *)
(***************************************************************************)
EXTENDS Glm, TraceIO

CONSTANT Devs      \* named deviations (known findings) -- none for the GLM part

VARIABLES c, e

Case == Rec[c]
In   == Case.inp
Ev   == Case.ev[e]
FitEv == Case.ev[1]

TraceInit ==
  /\ c \in 1..Len(Rec) /\ e = 1
  /\ g = <<>>

HasEv(name) == e <= Len(Case.ev) /\ Ev.ev = name
Adv == e' = e + 1 /\ UNCHANGED <<c, g>>

WMax == 50000000

P == In.p
N == Len(In.x)
Rows == In.x \o In.q
Lk == LinkOf(In.link, In.pn)
TYS == [q \in 1..N |-> In.y[q] * (S \div In.yd)]          \* yd divides S
Supported == \A q \in 1..N : InSupport(In.pn, In.pd, TYS[q])
Convex == \/ (Lk = "identity" /\ In.pn = 0)
          \/ (Lk = "log" /\ In.pn > 0 /\ In.pn <= 2 * In.pd)

ShapeOk == /\ FitEv.sane /\ Len(FitEv.w6) = P
           /\ \A j \in 1..P : Abs(FitEv.w6[j]) <= WMax
\* unit of the targets: y = 2^ue * (In.y / In.yd); ue # 0 only with the log link and an intercept (see Glm.tla)
UE == In.ue
RECURSIVE Pow10(_)
Pow10(kk) == IF kk <= 0 THEN 1 ELSE 10 * Pow10(kk - 1)
TolU == Pow10(4 - In.te)                       \* solver tolerance 10^-te in units of 10^-4 (at least one unit)
UnitOk == UE # 0 => (Lk = "log" /\ In.icpt)
DomainOk == GlmDomainOkU(Lk, In.pn, In.x, FitEv.w6, FitEv.b6, UE)
Stat == GlmStationaryU(Lk, In.pn, In.pd, In.x, TYS, FitEv.w6, FitEv.b6, In.an, In.ad, In.icpt, 5, TolU, UE)

Why ==
  IF Ev.ev = "fit" THEN
     (IF ~Supported THEN "unsupported targets accepted"
      ELSE IF ~Ev.ok THEN "fit failed " \o Ev.err
      ELSE IF ~ShapeOk THEN "shape/range"
      ELSE IF ~DomainOk THEN "mean outside domain"
      ELSE "stationarity")
  ELSE IF Ev.ev = "mu" THEN "prediction"
  ELSE "unexplained event"

\* every action evaluates its clause once: explained -> next event, otherwise a FAIL diagnostic and the case is dead
Dead == e' = Len(Case.ev) + 2 /\ UNCHANGED <<c, g>>

FitClause ==
  IF ~Supported THEN ~Ev.ok /\ Ev.err = "InvalidTargetRange"   \* rejected with the documented error, before any fitting
  ELSE IF Ev.ok THEN                                          \* a stationary point
         /\ ShapeOk /\ UnitOk
         /\ IF DomainOk THEN Stat
            ELSE ~Convex /\ PrintT(<<"NOTE", Case.id, "outside the modelled range">>)   \* no verdict (see header)
  ELSE ~Convex /\ Ev.err \in {"Argmin", "TIMEOUT"}            \* no result (see header)
TFit ==
  /\ HasEv("fit") /\ e = 1
  /\ IF FitClause THEN Adv ELSE Fail(Case.id, ToString(e) \o " " \o Ev.ev \o ": " \o Why) /\ Dead

MuClause ==
  /\ FitEv.ok
  /\ Ev.fin /\ Len(Ev.m4) = Len(Rows) /\ Len(Ev.mk) = Len(Rows)
  /\ \A r \in 1..Len(Rows) :
       /\ InLinkRange(Lk, Ev.mk[r])
       /\ EtaInDomain(Lk, 0, ZIvU(Rows[r], FitEv.w6, FitEv.b6, UE)) => GlmPredOkU(Lk, Rows[r], FitEv.w6, FitEv.b6, UE, Ev.m4[r])
TMu ==
  /\ HasEv("mu") /\ e = 2
  /\ IF MuClause THEN Adv ELSE Fail(Case.id, ToString(e) \o " " \o Ev.ev \o ": " \o Why) /\ Dead

Accept ==
  /\ e = Len(Case.ev) + 1
  /\ Len(Case.ev) = (IF FitEv.ok THEN 2 ELSE 1)
  /\ Ok(Case.id)
  /\ e' = e + 1 /\ UNCHANGED <<c, g>>

Stuck ==
  /\ e <= Len(Case.ev)
  /\ ~(\/ (Ev.ev = "fit" /\ e = 1) \/ (Ev.ev = "mu" /\ e = 2))
  /\ Fail(Case.id, ToString(e) \o " " \o Ev.ev \o ": unexplained event")
  /\ Dead

TraceNext == TFit \/ TMu \/ Accept \/ Stuck
=============================================================================
