------------------------------ MODULE Predict ------------------------------
(***************************************************************************)
(* C03 -- prediction is a per-sample function, identical through every     *)
(* calling form.                                                           *)
(*                                                                         *)
(* Part 1: the property-level relations (used unchanged by Trace_Predict   *)
(*   on what the real linfa API returned):                                 *)
(*     OnePerRow, PerSampleOk (one function of the *row value* explains    *)
(*     every call, first recorded value is the reference, no chaining),    *)
(*     RecordsBack, MTOk (column j = member j), MCOk (label of a member    *)
(*     with maximal probability; ties existential), PlattOk / PlattMono    *)
(*     (probability in [0,1], = 1/(1+exp(A f + B)) through Elem, order-    *)
(*     monotone in the inner decision value).                              *)
(* Part 2: a design model at the grain of the code                         *)
(*     src/dataset/impl_dataset.rs (blanket Predict impls):                *)
(*         Begin ; DefaultTarget ; <predict_inplace of the kind> ; Return  *)
(*     row-wise model            : FillRow (one step per row)              *)
(*     MultiTargetModel          : MTMember* (flat_map) ; MTReshape        *)
(*                                 (into_shape((m,n)) . reversed_axes)     *)
(*     MultiClassModel           : MCMember* (running arg-max) ; MCStrip   *)
(*     Platt                     : PlattMap                                *)
(*   Members are abstract per-sample functions chosen in Init; TLC checks  *)
(*   that the relations of part 1 are invariants of these mechanisms for   *)
(*   every batch (empty, duplicates, every order), form and member table.  *)
(***************************************************************************)
EXTENDS Elem, TLC

-----------------------------------------------------------------------------
(* Part 1 -- relations *)

SENT == 2000000000      \* codes >= SENT are non-finite / out-of-range sentinels: only equal to themselves

Match(a, b, tol) == IF a >= SENT \/ b >= SENT THEN a = b ELSE Abs(a - b) <= tol
MatchVec(u, v, tol) == Len(u) = Len(v) /\ \A q \in 1..Len(u) : Match(u[q], v[q], tol)

CallRows(pool, idseq) == [p \in 1..Len(idseq) |-> pool[idseq[p]]]

\* exactly one output per input row
OnePerRow(idseq, outs, n) == n = Len(idseq) /\ Len(outs) = Len(idseq)
AllWidth(outs, w) == \A p \in 1..Len(outs) : Len(outs[p]) = w

\* fn is a function whose domain is a finite set of rows (row = sequence of cell values)
FirstPos(rows, r) == CHOOSE p \in 1..Len(rows) : rows[p] = r /\ \A q \in 1..(p - 1) : rows[q] # r
Extend(fn, rows, outs) ==
  [r \in (DOMAIN fn) \cup Range(rows) |-> IF r \in DOMAIN fn THEN fn[r] ELSE outs[FirstPos(rows, r)]]
\* T(row) = tolerance (in code units) for the outputs of that row
PerSample(fn, rows, outs, T(_)) ==
  \A p \in 1..Len(rows) : rows[p] \in DOMAIN fn /\ MatchVec(outs[p], fn[rows[p]], T(rows[p]))
\* every output of this call agrees with the first value ever recorded for that row (earlier call, or
\* first occurrence inside this call)
PerSampleOk(fn, rows, outs, T(_)) ==
  Len(outs) = Len(rows) /\ PerSample(Extend(fn, rows, outs), rows, outs, T)

\* A row is extreme when a cell exceeds 64 quarter units (|value| > 16). Unbounded float outputs of extreme
\* rows are logged at 10^3 instead of 10^6 (harness rule `scale`); labels and probabilities as always.
Extreme(row) == \E q \in 1..Len(row) : Abs(row[q]) > 64

\* dataset forms hand the input records back unchanged
RecordsBack(rows, back) == back = rows

\* multi-target wrapper: column j is member j's prediction (mfn[j] = member j's recorded function)
MTOk(mfn, m, rows, outs, T(_)) ==
  \A p \in 1..Len(rows) :
     /\ Len(outs[p]) = m
     /\ \A jj \in 1..m : /\ rows[p] \in DOMAIN mfn[jj]
                          /\ Match(outs[p][jj], mfn[jj][rows[p]][1], T(rows[p]))

\* multi-class wrapper: the label of *a* member whose probability is maximal (within slack: a near-tie is a tie)
MCOk(mfn, m, labs, rows, outs, slack) ==
  \A p \in 1..Len(rows) :
     /\ Len(outs[p]) = 1
     /\ \A jj \in 1..m : rows[p] \in DOMAIN mfn[jj]
     /\ \E jj \in 1..m :
          /\ labs[jj] = outs[p][1]
          /\ \A kk \in 1..m : mfn[jj][rows[p]][1] >= mfn[kk][rows[p]][1] - slack

\* Platt: p = 1 / (1 + exp(A f + B)).  a4, b4 = A, B at 10^4 ; f6 = inner value at 10^6 ; result at 10^4
PlattZ(a4, b4, f6) == MulDiv(a4, RoundDiv(f6, 100), 10000) + b4
PlattValue(a4, b4, f6) == Sigmoid(-PlattZ(a4, b4, f6))
\* quantisation of A, f, B propagated through z (slope of the sigmoid <= 1/4) + table error + rounding
PlattSlack(a4, f6) == 4 + (Abs(a4) + Abs(f6) \div 100) \div 80000
PlattEvaluable(a4, f6) == Abs(a4) <= 2000000 /\ Abs(f6) <= 20000000      \* keeps MulDiv inside 31 bits
\* one row: f = inner code (10^6, or 10^3 when ext), p6 = returned probability at 10^6.
\* A non-finite / unrepresentable inner value makes no demand. Extreme rows: inside |f| <= 20 the same
\* closeness with the coarser quantisation of f propagated (|A| * 0.5e-3 in z, slope 1/4); beyond it, when
\* |A| >= 1 and |B| <= 5, |z| >= 15 and the probability must be saturated on the side given by sign(A f).
PlattRowOk(a4, b4, f, ext, p6) ==
  IF f >= SENT THEN TRUE
  ELSE /\ p6 >= 0 /\ p6 <= 1000000                                      \* a probability
       /\ IF ~ext
            THEN PlattEvaluable(a4, f) => Abs(p6 - 100 * PlattValue(a4, b4, f)) <= 100 * PlattSlack(a4, f)
            ELSE IF Abs(f) <= 20000
                   THEN Abs(a4) <= 2000000 =>
                          Abs(p6 - 100 * PlattValue(a4, b4, f * 1000)) <=
                            100 * (PlattSlack(a4, f * 1000) + Abs(a4) \div 8000 + 1)
                   ELSE (Abs(a4) >= 10000 /\ Abs(b4) <= 50000) =>
                          IF (a4 > 0) = (f > 0) THEN p6 <= 1 ELSE p6 >= 999999
PlattOk(a4, b4, ifn, rows, outs) ==
  \A p \in 1..Len(rows) :
     /\ Len(outs[p]) = 1
     /\ rows[p] \in DOMAIN ifn
     /\ PlattRowOk(a4, b4, ifn[rows[p]][1], Extreme(rows[p]), outs[p][1])
\* "certainly f1 < f2" for codes c1, c2 whose scales (10^3 when extreme, else 10^6) may differ
FLess(c1, e1, c2, e2) ==
  IF e1 = e2 THEN c1 < c2
  ELSE IF e2 THEN (c1 \div 1000) + 1 < c2
  ELSE c1 + 1 <= c2 \div 1000
\* order-monotone in the inner value: A < 0 increasing, A > 0 decreasing (1 unit at 10^6 for f32 rounding)
PlattMono(a4, wfn, ifn) ==
  \A r1 \in DOMAIN wfn, r2 \in DOMAIN wfn :
     (/\ r1 \in DOMAIN ifn /\ r2 \in DOMAIN ifn /\ ifn[r1][1] < SENT /\ ifn[r2][1] < SENT
      /\ wfn[r1][1] < SENT /\ wfn[r2][1] < SENT
      /\ FLess(ifn[r1][1], Extreme(r1), ifn[r2][1], Extreme(r2))) =>
        /\ a4 < 0 => wfn[r1][1] <= wfn[r2][1] + 1
        /\ a4 > 0 => wfn[r2][1] <= wfn[r1][1] + 1

-----------------------------------------------------------------------------
(* Part 2 -- design model *)

CONSTANTS P,        \* pool size (row i of the pool is <<i>>)
          MaxLen,   \* longest batch
          NM,       \* most members of a wrapper
          MaxV      \* member outputs range over 0..MaxV

VARIABLES kind, nm, mfn, labels, pa, pb,      \* configuration (Init)
          seen,                               \* row -> first recorded output of the model under test
          form, ids, recs, buf, flat, res, j, pc

vars == <<kind, nm, mfn, labels, pa, pb, seen, form, ids, recs, buf, flat, res, j, pc>>

Forms == {"ref_arr", "own_arr", "ref_ds", "own_ds", "inplace", "dirty", "caller"}   \* caller: caller-allocated target
HandsBack(fm) == fm \in {"own_arr", "own_ds"}
Pool == [i \in 1..P |-> <<i>>]
RECURSIVE SeqsUpTo(_, _)
SeqsUpTo(S, n) == IF n = 0 THEN {<<>>} ELSE LET T == SeqsUpTo(S, n - 1) IN T \cup {Append(t, x) : t \in {u \in T : Len(u) = n - 1}, x \in S}
Batches == SeqsUpTo(1..P, MaxLen)

\* member jj as a function of the row
MF(jj) == [r \in Range(Pool) |-> <<mfn[jj][r[1]]>>]
MFs == [jj \in 1..nm |-> MF(jj)]
Dec(v) == (v - 1) * 1000000          \* abstract inner decision values -1, 0, 1, ...
DecF == [r \in Range(Pool) |-> <<Dec(mfn[1][r[1]])>>]

Init ==
  /\ kind \in {"plain", "mt", "mc", "platt"}
  /\ nm \in IF kind \in {"plain", "platt"} THEN {1} ELSE 1..NM
  /\ mfn \in [1..nm -> [1..P -> 0..MaxV]]
  /\ labels = [jj \in 1..nm |-> 10 + jj]
  /\ pa \in IF kind = "platt" THEN {-20000, 0, 15000} ELSE {0}
  /\ pb \in IF kind = "platt" THEN {0, 5000} ELSE {0}
  /\ seen = <<>>
  /\ form = "none" /\ ids = <<>> /\ recs = <<>> /\ buf = <<>> /\ flat = <<>> /\ res = <<>> /\ j = 1
  /\ pc = "idle"

Cfg == <<kind, nm, mfn, labels, pa, pb>>

\* Predict::predict(x): the caller's records (owned or borrowed) are the rows of the batch
Begin ==
  /\ pc = "idle"
  /\ \E fm \in Forms, b \in Batches :
       /\ form' = fm /\ ids' = b /\ recs' = CallRows(Pool, b)
  /\ buf' = <<>> /\ flat' = <<>> /\ res' = <<>> /\ j' = 1 /\ pc' = "target"
  /\ UNCHANGED <<Cfg, seen>>

\* let mut targets = self.default_target(&records)   ("dirty": the caller's buffer holds old values)
DefaultTarget ==
  /\ pc = "target"
  /\ LET d == IF form = "dirty" THEN 99 ELSE 0 IN
       buf' = [p \in 1..Len(recs) |-> IF kind = "mt" THEN [q \in 1..nm |-> d] ELSE <<d>>]
  /\ pc' = CASE kind = "plain" -> "fill" [] kind = "mt" -> "mt" [] kind = "mc" -> "mc" [] OTHER -> "platt"
  /\ UNCHANGED <<Cfg, seen, form, ids, recs, flat, res, j>>

\* row-wise predict_inplace of a plain model
FillRow ==
  /\ pc = "fill"
  /\ IF j > Len(recs)
       THEN pc' = "ret" /\ UNCHANGED <<buf, j>>
       ELSE buf' = [buf EXCEPT ![j] = MF(1)[recs[j]]] /\ j' = j + 1 /\ UNCHANGED pc
  /\ UNCHANGED <<Cfg, seen, form, ids, recs, flat, res>>

\* MultiTargetModel: flat_map over the members ...
MTMember ==
  /\ pc = "mt" /\ j <= nm
  /\ flat' = flat \o [p \in 1..Len(recs) |-> MF(j)[recs[p]][1]]
  /\ j' = j + 1
  /\ UNCHANGED <<Cfg, seen, form, ids, recs, buf, res, pc>>
\* ... .into_shape((models, n)).reversed_axes()
MTReshape ==
  /\ pc = "mt" /\ j > nm
  /\ LET n == Len(recs) IN buf' = [p \in 1..n |-> [q \in 1..nm |-> flat[(q - 1) * n + p]]]
  /\ pc' = "ret"
  /\ UNCHANGED <<Cfg, seen, form, ids, recs, flat, res, j>>

\* MultiClassModel: running arg-max over (label, probability) pairs, strict `>`
MCMember ==
  /\ pc = "mc" /\ j <= nm
  /\ LET pairs == [p \in 1..Len(recs) |-> <<labels[j], MF(j)[recs[p]][1]>>] IN
       res' = IF res = <<>> THEN pairs
              ELSE [p \in 1..Len(recs) |-> IF pairs[p][2] > res[p][2] THEN pairs[p] ELSE res[p]]
  /\ j' = j + 1
  /\ UNCHANGED <<Cfg, seen, form, ids, recs, buf, flat, pc>>
MCStrip ==
  /\ pc = "mc" /\ j > nm
  /\ buf' = [p \in 1..Len(recs) |-> <<res[p][1]>>]
  /\ pc' = "ret"
  /\ UNCHANGED <<Cfg, seen, form, ids, recs, flat, res, j>>

\* Platt: sigmoid of the inner model's value, row by row
PlattMap ==
  /\ pc = "platt"
  /\ buf' = [p \in 1..Len(recs) |-> <<100 * PlattValue(pa, pb, DecF[recs[p]][1])>>]
  /\ pc' = "ret"
  /\ UNCHANGED <<Cfg, seen, form, ids, recs, flat, res, j>>

\* the targets are returned (alone, or in a dataset together with the records that were passed in);
\* the first value recorded for a row is remembered, the call frame is dropped
Return ==
  /\ pc = "ret"
  /\ seen' = Extend(seen, recs, buf)
  /\ form' = "none" /\ ids' = <<>> /\ recs' = <<>> /\ buf' = <<>> /\ flat' = <<>> /\ res' = <<>> /\ j' = 1
  /\ pc' = "idle"
  /\ UNCHANGED Cfg

Next == Begin \/ DefaultTarget \/ FillRow \/ MTMember \/ MTReshape \/ MCMember \/ MCStrip \/ PlattMap \/ Return
Spec == Init /\ [][Next]_vars

-----------------------------------------------------------------------------
(* Invariants of the design: the relations of part 1 hold for every call the mechanisms can make *)

AtRet == pc = "ret"
W == IF kind = "mt" THEN nm ELSE 1
InvOnePerRow == AtRet => OnePerRow(ids, buf, Len(buf)) /\ AllWidth(buf, W)
Zero(r) == 0
InvPerSample == AtRet => PerSampleOk(seen, recs, buf, Zero)
InvBack      == (AtRet /\ HandsBack(form)) => RecordsBack(CallRows(Pool, ids), recs)
InvMT        == (AtRet /\ kind = "mt") => MTOk(MFs, nm, recs, buf, Zero)
InvMC        == (AtRet /\ kind = "mc") => MCOk(MFs, nm, labels, recs, buf, 0)
InvPlatt     == (AtRet /\ kind = "platt") =>
                  /\ PlattOk(pa, pb, DecF, recs, buf)
                  /\ PlattMono(pa, Extend(seen, recs, buf), DecF)
\* algebra: the answer for a batch is the row-wise image of the single-row answers (composition, order, duplicates)
InvRowwise   == (AtRet /\ kind = "plain") => buf = [p \in 1..Len(ids) |-> MF(1)[Pool[ids[p]]]]
\* arg-max does not depend on the member order up to ties: the set of admissible labels is order-free
ArgMaxLabels(r) == {labels[jj] : jj \in {q \in 1..nm : \A kk \in 1..nm : mfn[q][r[1]] >= mfn[kk][r[1]]}}
InvMCSet     == (AtRet /\ kind = "mc") => \A p \in 1..Len(recs) : buf[p][1] \in ArgMaxLabels(recs[p])
=============================================================================
