--------------------------- MODULE LloydIdxProofs ---------------------------
(***************************************************************************)
(* X08 -- TLAPS proof that IndInv of specs/LloydIdx.tla (pointwise restart *)
(* bookkeeping of k-means, every variable an unbounded integer) is         *)
(* inductive and implies Safety: a second, independent tool for the        *)
(* unbounded result that Apalache discharges (props/x08.py).               *)
(***************************************************************************)
EXTENDS LloydIdx, TLAPS

ASSUME VariantOk == Variant = "ok"

THEOREM IndInit == Init => IndInv
  BY VariantOk DEF Init, IndInv, TypeOk, InvBudget, PBest, PPublish

THEOREM IndSafe == IndInv => Safety
  BY DEF IndInv, Safety

THEOREM IndStep == IndInv /\ [Next]_vars => IndInv'
<1> SUFFICES ASSUME IndInv, [Next]_vars PROVE IndInv'
  OBVIOUS
<1>1. CASE StartRun
  BY <1>1, VariantOk DEF StartRun, IndInv, TypeOk, InvBudget, PBest, PPublish
<1>2. CASE Iterate
  <2>1. PICK conv \in BOOLEAN : IterateC(conv)
    BY <1>2 DEF Iterate
  <2> QED
    BY <2>1, VariantOk DEF IterateC, Decision, Budget, IndInv, TypeOk, InvBudget, PBest, PPublish
<1>3. CASE EndRun
  <2>1. EndRunV(lastin') /\ lastin' \in Int
    BY <1>3 DEF EndRun
  <2>2. CASE Keeps(lastin') /\ hlen + 1 = s
    BY <2>1, <2>2, VariantOk DEF EndRunV, Keeps, IndInv, TypeOk, InvBudget, PBest, PPublish
  <2>3. CASE Keeps(lastin') /\ hlen + 1 # s
    BY <2>1, <2>3, VariantOk DEF EndRunV, Keeps, IndInv, TypeOk, InvBudget, PBest, PPublish
  <2>4. CASE ~Keeps(lastin') /\ hlen + 1 = s
    BY <2>1, <2>4, VariantOk DEF EndRunV, Keeps, IndInv, TypeOk, InvBudget, PBest, PPublish
  <2>5. CASE ~Keeps(lastin') /\ hlen + 1 # s
    BY <2>1, <2>5, VariantOk DEF EndRunV, Keeps, IndInv, TypeOk, InvBudget, PBest, PPublish
  <2> QED
    BY <2>2, <2>3, <2>4, <2>5
<1>4. CASE Publish
  BY <1>4, VariantOk DEF Publish, IndInv, TypeOk, InvBudget, PBest, PPublish
<1>5. CASE UNCHANGED vars
  BY <1>5 DEF vars, IndInv, TypeOk, InvBudget, PBest, PPublish
<1> QED
  BY <1>1, <1>2, <1>3, <1>4, <1>5 DEF Next
=============================================================================
