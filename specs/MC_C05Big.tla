----------------------------- MODULE MC_C05Big -----------------------------
(* Self-check of C05Big against TLC's native arithmetic.  Run with BigBase = 10 so that every  *)
(* operation on the explored range carries/borrows over several limbs.                          *)
EXTENDS C05Big, TLC

CONSTANT R            \* a ranges over -R..R, b over a fixed set of carry/borrow-prone values

\* TLC evaluates initial states (and their invariants) on one thread; the checks are therefore
\* attached to the successor states (chk = TRUE), which the workers evaluate in parallel.
VARIABLES a, b, chk
BVals == {0, 1, 2, 5, 9, 10, 11, 19, 20, 45, 50, 99, 100, 101, 109, 110, 111, 199, 500, 909, 990, 999}
Init == a \in (-R)..R /\ b \in BVals \cup {-x : x \in BVals} /\ chk = FALSE
Next == ~chk /\ chk' = TRUE /\ UNCHANGED <<a, b>>

Abs_(x) == IF x < 0 THEN -x ELSE x
Sgn_(x) == IF x > 0 THEN 1 ELSE IF x < 0 THEN -1 ELSE 0
A == BInt(a)
B == BInt(b)

WellFormed == chk => BWellFormed(A) /\ BWellFormed(BAdd(A, B)) /\ BWellFormed(BSub(A, B)) /\ BWellFormed(BMul(A, B))
RoundTrip == chk => BToInt(A) = a
AddOk == chk => BToInt(BAdd(A, B)) = a + b
SubOk == chk => BToInt(BSub(A, B)) = a - b
MulOk == chk => BToInt(BMul(A, B)) = a * b
MulBigOk == chk => BToInt(BMul(BMul(A, B), A)) = a * b * a          \* three-limb by multi-limb
CmpOk == chk => BCmp(A, B) = Sgn_(a - b)
CanonOk == chk => (A = B) = (a = b)

\* rationals: a/d1 and b/d2 for a few denominators (zero denominators = undefined)
Dens == {-3, 0, 1, 2, 7, 12}
QOk == chk =>
  \A d1 \in Dens, d2 \in Dens :
    LET x == Q(a, d1)  y == Q(b, d2) IN
    /\ QDef(x) = (d1 # 0)
    /\ (d1 # 0 /\ d2 # 0) =>
         /\ QCmp(x, y) = Sgn_(a * d2 * Sgn_(d1) * Sgn_(d2) - b * d1 * Sgn_(d1) * Sgn_(d2))
         /\ QEq(QAdd(x, y), Q(a * d2 + b * d1, d1 * d2))
         /\ QEq(QSub(x, y), Q(a * d2 - b * d1, d1 * d2))
         /\ QEq(QMul(x, y), Q(a * b, d1 * d2))
         /\ QEq(QDiv(x, y), Q(a * d2, d1 * b))
         /\ QDef(QDiv(x, y)) = (b # 0)
         /\ QEq(QMax(x, y), IF QCmp(x, y) >= 0 THEN x ELSE y)
    /\ (d1 = 0 \/ d2 = 0) => (~QDef(QAdd(x, y)) /\ ~QDef(QMul(x, y)) /\ ~QDef(QDiv(x, y)))
QSumOk == chk => QEq(QSum(<<Q(a, 7), Q(b, 3), Q(a, 7), Q(1, 2)>>), Q(2 * a * 6 + b * 14 + 21, 42))

\* observation comparison: |obs/S - a/d| <= slack/S, against the native cross-multiplied form
CloseOk == chk =>
  \A d \in {1, 3, 7}, S \in {10, 100}, slack \in {0, 2} :
    LET obs == b IN
    QClose(obs, S, slack, Q(a, d)) = (Abs_(obs * d - a * S) <= slack * d)

\* with an absolute tolerance t/8:  |obs/S - a/d| <= slack/S + t/8
CloseTolOk == chk =>
  \A d \in {1, 3, 7}, S \in {10, 100}, slack \in {0, 2}, t \in {0, 1, 5} :
    QCloseTol(b, S, slack, Q(a, d), Q(t, 8)) = (8 * Abs_(b * d - a * S) <= 8 * slack * d + S * t * d)
Pow2Ok == chk => (QEq(QPow2Inv(0), QI(1)) /\ QEq(QPow2Inv(7), Q(1, 128)) /\ QEq(QMul(QPow2Inv(33), Q(32768, 1)), Q(1, 262144)))

\* square-root form on perfect squares D = r^2:  |obs - S*a/r| <= slack  <=>  |obs*r - S*a| <= slack*r
SqrtOk == chk =>
  \A r \in {1, 2, 3, 5}, S \in {10, 100}, slack \in {0, 3} :
    SqrtClose(b, S, slack, A, BInt(r * r)) = (Abs_(b * r - S * a) <= slack * r)
\* and on general D by monotonicity: S*a/sqrt(D) lies between the values for the bracketing squares
SqrtBracket == chk =>
  \A D \in {2, 3, 5, 6, 7, 8} :
    LET lo == IF D < 4 THEN 1 ELSE 2       \* lo^2 <= D < (lo+1)^2
        S == 10
    IN (a > 0) =>
         /\ SqrtClose(b, S, 1, A, BInt(D)) => ((b + 1) * (lo + 1) >= S * a /\ (b - 1) * lo <= S * a)
=============================================================================
