----------------------------- MODULE Gen_DTree -----------------------------
(* Case generator for C14.  One case = one labelled lattice dataset + sample weights + the   *)
(* hyper-parameters + the label / float type used by the harness.                             *)
(*   Dim = 1 : n points on 0..MaxV, as multisets (nondecreasing)                              *)
(*   Dim = 2 : n points of the grid (0..MaxV)^2, as multisets (nondecreasing cell numbers)    *)
(*   labels  : all label vectors with at most MaxK classes up to renaming (restricted growth) *)
(*   weights : none / two fixed patterns of quarter units (a majority by weight that is not   *)
(*             the majority by count arises from pattern "b")                                 *)
(*   hyper-parameters: criteria x max_depth (Depths, 9 = None) x Profiles of                  *)
(*             (min_weight_split, min_weight_leaf, min_impurity_decrease)                     *)
(*   layout  : with 2 features the records are handed over in one of 7 memory layouts (hash)  *)
(*   Big = TRUE : the f32 family  value = 2^24 + 2 v  (neighbouring representable numbers,    *)
(*             the midpoint of two of them is not representable)                            *)
(* Thinning (deterministic): a dataset is used iff Hash(dataset) % Mod = Sel; PerData = 0     *)
(* emits the full product weights x hyper-parameters for it, PerData = p > 0 emits p          *)
(* combinations picked by a hash of (dataset, j), j = 1..p.                                   *)
EXTENDS Integers, Sequences, FiniteSets, TLC, Json

CONSTANTS Dim, MinN, MaxN, MaxV, MaxK, Mod, Sel, Big, Profiles, Depths, PerData

VARIABLE case

NonDec(s) == \A q \in 1..(Len(s) - 1) : s[q] <= s[q + 1]
RECURSIVE MaxUpTo(_, _)
MaxUpTo(s, q) == IF q = 0 THEN -1 ELSE IF s[q] > MaxUpTo(s, q - 1) THEN s[q] ELSE MaxUpTo(s, q - 1)
\* restricted growth: label q is at most one more than the largest label before it
RGS(s) == \A q \in 1..Len(s) : s[q] <= MaxUpTo(s, q - 1) + 1

Cells == IF Dim = 1 THEN 0..MaxV ELSE 0..((MaxV + 1) * (MaxV + 1) - 1)
Point(cell) == IF Dim = 1 THEN <<cell>> ELSE <<cell \div (MaxV + 1), cell % (MaxV + 1)>>

WPatA == <<4, 8, 2, 4, 8, 2, 4, 8>>
WPatB == <<2, 2, 8, 4, 6, 4, 2, 8>>
Weights(n, pat) == IF pat = 0 THEN <<>> ELSE IF pat = 1 THEN [i \in 1..n |-> WPatA[i]] ELSE [i \in 1..n |-> WPatB[i]]

\* (min_weight_split, min_weight_leaf) in quarter units, min_impurity_decrease in 1e-6 units
Prof(q) == CASE q = 1 -> <<8, 4, 10>>          \* the defaults 2.0 / 1.0 / 1e-5
             [] q = 2 -> <<12, 4, 10>>
             [] q = 3 -> <<8, 8, 10>>
             [] q = 4 -> <<8, 4, 200000>>
             [] q = 5 -> <<4, 2, 10>>
             [] q = 6 -> <<16, 6, 100000>>
             [] q = 7 -> <<8, 10, 10>>
             \* fractional (dyadic, exactly representable) thresholds: a node / side holding exactly
             \* floor(threshold) samples / weight must NOT be split (round 2: a truncated comparison was missed)
             [] q = 8 -> <<10, 4, 10>>         \* min_weight_split 2.5
             [] q = 9 -> <<13, 5, 125000>>     \* 3.25 / 1.25 / 0.125
             [] q = 10 -> <<6, 6, 10>>         \* 1.5 / 1.5
             [] q = 11 -> <<14, 3, 250000>>    \* 3.5 / 0.75 / 0.25
             [] q = 12 -> <<9, 9, 10>>         \* 2.25 / 2.25 ("just above" 2)
             [] q = 13 -> <<17, 4, 375000>>    \* 4.25 / 1.0 / 0.375 (= the Gini decrease of 1+3 -> 1 | 3)
             [] q = 0 -> <<8, 0, 10>>          \* no minimum leaf weight

\* polynomial hash (stays below 2^31: h < 1000003, h * 131 + v < 2^28)
RECURSIVE HashSeq(_, _, _)
HashSeq(s, q, h) == IF q > Len(s) THEN h ELSE HashSeq(s, q + 1, (h * 131 + s[q] + 1) % 1000003)
HashData(cells, ys) == HashSeq(ys, 1, HashSeq(cells, 1, 7 + Len(cells)))
Mix(h, j) == (h * 131 + j * 7919 + 13) % 1000003

\* the (k mod |S|)-th smallest element of a finite set of integers
RECURSIVE Nth(_, _)
Nth(S, k) == LET m == CHOOSE x \in S : \A y \in S : x <= y IN IF k = 0 THEN m ELSE Nth(S \ {m}, k - 1)
Pick(S, k) == Nth(S, k % Cardinality(S))

LabelType(h, k) == IF k <= 2 THEN <<"usize", "bool", "string">>[(h % 3) + 1] ELSE <<"usize", "string">>[(h % 2) + 1]

\* record layout handed to fit / predict (same logical matrix); only varied with >= 2 features
Layouts == <<"std", "forder", "tview", "revrows", "revcols", "everyrow2", "everycol2">>
Layout(h) == IF Dim >= 2 THEN Layouts[(h % 7) + 1] ELSE "std"

Scale == IF Big THEN [off |-> 16777216, mul |-> 2, pm |-> 4, plo |-> 0, phi |-> MaxV]
         ELSE [off |-> 0, mul |-> 1, pm |-> 1, plo |-> -1, phi |-> 2 * MaxV + 1]

Chosen(hd, pat, pr, mdc, cr) ==
  \/ PerData = 0
  \/ \E j \in 1..PerData :
       LET g == Mix(hd, j) IN
       /\ pat = g % 3 /\ pr = Pick(Profiles, g \div 3) /\ mdc = Pick(Depths, g \div 29) /\ cr = (g \div 113) % 2

Init ==
  \E n \in MinN..MaxN :
  \E cells \in {s \in [1..n -> Cells] : NonDec(s)}, ys \in {s \in [1..n -> 0..(MaxK - 1)] : RGS(s)} :
    LET hd == HashData(cells, ys) IN
    /\ hd % Mod = Sel
    /\ \E pat \in 0..2, pr \in Profiles, mdc \in Depths, cr \in 0..1 :
         LET md == IF mdc = 9 THEN -1 ELSE mdc      \* 9 encodes max_depth = None (cfg files have no negative numbers)
             h == Mix(hd, 17 * pat + 5 * pr + 3 * mdc + cr) IN
         /\ Chosen(hd, pat, pr, mdc, cr)
         /\ case = [kind |-> "tree",
                    inp |-> [x |-> [i \in 1..n |-> Point(cells[i])], y |-> ys, w4 |-> Weights(n, pat), d |-> Dim,
                             crit |-> IF cr = 0 THEN "gini" ELSE "entropy", md |-> md,
                             mws4 |-> Prof(pr)[1], mwl4 |-> Prof(pr)[2], mid6 |-> Prof(pr)[3],
                             lt |-> LabelType(h \div 2, MaxUpTo(ys, n) + 1),
                             ft |-> IF Big THEN "f32" ELSE IF (h \div 7) % 2 = 0 THEN "f64" ELSE "f32",
                             lay |-> Layout(h \div 11),
                             scale |-> Scale]]

Next == UNCHANGED case
Emit == PrintT("CASE " \o ToJson(case))
=============================================================================
