--------------------------------- MODULE NN ---------------------------------
(***************************************************************************)
(* C07 -- design model for "nearest-neighbour indices return the true      *)
(* neighbours and are interchangeable".                                    *)
(*                                                                         *)
(* The relations themselves (KnnOk, RangeOk, AgreeKey, ...) live in NNRel. *)
(* This module is the bounded model that guards them against being wrong   *)
(* or vacuous: a reference scan (repeatedly extract *any* closest          *)
(* remaining point -- every tie-break is a behaviour) over every point     *)
(* sequence / query / metric of a small lattice, with invariants that are  *)
(* algebraic consequences of the definitions:                              *)
(*   InvScan    every prefix of every tie-broken scan order is accepted    *)
(*              as the k-nearest answer, by both forms of the relation     *)
(*   InvEquiv   the sort-free form KnnOk (used on recorded traces) and the *)
(*              definitional form KnnOkDef accept exactly the same answers *)
(*              among ALL injective position sequences, for every k        *)
(*   InvUnique  all accepted answers for one k carry the same distances    *)
(*   InvReject  a truncated answer, an answer with a foreign coordinate, a *)
(*              repeated row and a farther-point-first answer are rejected *)
(*   InvRange   the strict range set is the set of a scan prefix of its    *)
(*              size (range and k-nearest relations agree); range sets are *)
(*              nested in the radius                                       *)
(*   InvRangeAdmit  both boundary conventions are admitted, a missing      *)
(*              interior point / an exterior point are not; two answers    *)
(*              that differ on a boundary point do not "agree"             *)
(*   InvSide    exact roots lie on the sphere (radius arithmetic)          *)
(* The ball-tree search itself is modelled in NNBall.tla.                  *)
(***************************************************************************)
EXTENDS NNRel, TLC

CONSTANTS MaxN,      \* 1-D point sequences of length 0..MaxN
          MaxN2,     \* 2-D point sequences of length 0..MaxN2
          Coords1,   \* 1-D point coordinates
          Coords2,   \* 2-D point coordinates (both axes) ; {} = no 2-D inputs
          QLo, QHi,  \* query coordinates QLo..QHi (both dimensions)
          MetricSet

VARIABLES pts, qry, met,   \* the input, chosen in Init
          dv,              \* its vector of reduced distances (computed once, in Init)
          out,             \* scan: 0-based positions extracted so far
          pc

vars == <<pts, qry, met, dv, out, pc>>

Points(d) == IF d = 1 THEN {<<x>> : x \in Coords1} ELSE {<<x, y>> : x \in Coords2, y \in Coords2}
Queries(d) == IF d = 1 THEN {<<x>> : x \in QLo..QHi} ELSE {<<x, y>> : x \in QLo..QHi, y \in QLo..QHi}
Dims == {1} \cup (IF Coords2 = {} THEN {} ELSE {2})

Init ==
  /\ \E d \in Dims : \E n \in 0..(IF d = 1 THEN MaxN ELSE MaxN2) :
       /\ pts \in [1..n -> Points(d)]
       /\ qry \in Queries(d)
  /\ met \in MetricSet
  /\ dv = DistVec(met, pts, qry)
  /\ out = <<>>
  /\ pc = "new"

N  == Len(pts)
DV == dv
ResOf(s) == [pos |-> s, pts |-> [j \in 1..Len(s) |-> pts[s[j] + 1]], exact |-> TRUE]
Remaining == (0..(N - 1)) \ {out[j] : j \in 1..Len(out)}

\* extract any closest remaining point
Pick ==
  /\ pc = "scan"
  /\ \E i \in Remaining :
       /\ \A j \in Remaining : DV[i + 1] <= DV[j + 1]
       /\ out' = Append(out, i)
  /\ UNCHANGED <<pts, qry, met, dv, pc>>

Done ==
  /\ pc = "scan" /\ Remaining = {}
  /\ pc' = "done" /\ UNCHANGED <<pts, qry, met, dv, out>>

\* (the per-input invariants are evaluated in the state after Start, i.e. by TLC's parallel workers,
\* not during the sequential computation of the initial states)
Start == pc = "new" /\ pc' = "scan" /\ UNCHANGED <<pts, qry, met, dv, out>>

Next == Start \/ Pick \/ Done

-----------------------------------------------------------------------------
\* all injective sequences over 0..n-1 (every candidate answer)
RECURSIVE InjSeqsOver(_)
InjSeqsOver(S) == {<<>>} \cup UNION {{<<x>> \o t : t \in InjSeqsOver(S \ {x})} : x \in S}
AllAnswers == InjSeqsOver(0..(N - 1))

InvScan ==
  /\ KnnOkDef(pts, DV, Len(out), ResOf(out))
  /\ KnnOk(pts, DV, Len(out), ResOf(out))
  \* k beyond n: the complete scan is the answer
  /\ pc = "done" => KnnOk(pts, DV, N + 1, ResOf(out)) /\ KnnOkDef(pts, DV, N + 1, ResOf(out))

\* evaluated once per input (in its initial state)
Fresh == pc = "scan" /\ out = <<>>
InvEquiv ==
  Fresh =>
    \A s \in AllAnswers : \A k \in 0..(N + 1) :
      KnnOkDef(pts, DV, k, ResOf(s)) <=> KnnOk(pts, DV, k, ResOf(s))

InvUnique ==
  Fresh =>
    \A k \in 0..(N + 1) :
      LET acc == {s \in AllAnswers : KnnOk(pts, DV, k, ResOf(s))} IN
      /\ acc # {}
      /\ \A s \in acc, t \in acc : Got(DV, ResOf(s)) = Got(DV, ResOf(t))

InvReject ==
  Len(out) >= 1 =>
    LET k == Len(out)
        r == ResOf(out)
        foreign == [r EXCEPT !.pts[k] = [d \in 1..Len(qry) |-> 99]]
        twice == [r EXCEPT !.pos[k] = r.pos[1]]
    IN
    /\ ~KnnOk(pts, DV, k, ResOf(SubSeq(out, 1, k - 1)))            \* too few
    /\ k < N => ~KnnOk(pts, DV, k, ResOf(Append(out, CHOOSE x \in Remaining : TRUE)))   \* too many
    /\ ~KnnOk(pts, DV, k, foreign)                                   \* coordinates not those of the row
    /\ ~KnnOk(pts, DV, k, [r EXCEPT !.exact = FALSE])
    /\ k >= 2 => ~KnnOk(pts, DV, k, twice)                           \* a row returned twice
    \* descending order is rejected whenever two distances differ
    /\ (k >= 2 /\ DV[out[1] + 1] # DV[out[k] + 1]) =>
          ~KnnOk(pts, DV, k, ResOf([j \in 1..k |-> out[k + 1 - j]]))
    \* a farther point instead of a nearer one is rejected
    /\ \A x \in Remaining : DV[x + 1] > DV[out[k] + 1] =>
          ~KnnOk(pts, DV, k, ResOf([out EXCEPT ![k] = x]))

Radii == 0..(8 * (QHi - QLo) + 9)
OutSet == {out[j] : j \in 1..Len(out)}
\* the range relation and the k-nearest relation agree: the strict (closed) range set is the set of
\* the scan prefix of its size ; range sets are nested in the radius
InvRange ==
  pc # "new" =>
  \A r8 \in Radii :
    LET st == StrictSet(met, DV, r8)
        cl == ClosedSet(met, DV, r8)
    IN
    /\ st \subseteq cl
    /\ Len(out) = Cardinality(st) => OutSet = st
    /\ Len(out) = Cardinality(cl) => OutSet = cl
    /\ (Fresh /\ r8 + 1 \in Radii) => cl \subseteq StrictSet(met, DV, r8 + 1)

\* both boundary conventions are admitted, a missing interior point and an exterior point are not
\* (does not depend on the scan: evaluated once per input)
InvRangeAdmit ==
  Fresh =>
    \A r8 \in Radii :
      LET st == StrictSet(met, DV, r8)
          cl == ClosedSet(met, DV, r8)
      IN
      /\ RangeOk(pts, DV, met, r8, ResOf(SeqOfSet(st)))
      /\ RangeOk(pts, DV, met, r8, ResOf(SeqOfSet(cl)))
      /\ \A x \in st : ~RangeOk(pts, DV, met, r8, ResOf(SeqOfSet(cl \ {x})))
      /\ \A x \in (0..(N - 1)) \ cl : ~RangeOk(pts, DV, met, r8, ResOf(SeqOfSet(st \cup {x})))
      /\ AgreeKey(met, DV, r8, ResOf(SeqOfSet(st))) = AgreeKey(met, DV, r8, ResOf(SeqOfSet(cl)))
            <=> (st = cl \/ ~ExactMetric(met))

\* integer radii: a point at true distance s lies exactly on the sphere of radius s
InvSide ==
  (pc = "new" /\ pts = <<>>) =>
    \A s \in 0..6 :
      /\ Side("l1", s, 8 * s) = 0 /\ Side("linf", s, 8 * s) = 0 /\ Side("lp1", s, 8 * s) = 0
      /\ Side("l2", s * s, 8 * s) = 0 /\ Side("lp2", s * s, 8 * s) = 0
      /\ Side("lp3", s * s * s, 8 * s) = 0
      /\ \A m \in Metrics : LET D == IF m \in {"l2", "lp2"} THEN s * s ELSE IF m = "lp3" THEN s * s * s ELSE s IN
            /\ Side(m, D, 8 * s + 1) = -1
            /\ (s > 0 => Side(m, D, 8 * s - 1) = 1)
            /\ Side(m, D + 1, 8 * s) = 1
=============================================================================
