--------------------------- MODULE Trace_FastIca ---------------------------
(***************************************************************************************************)
(* X04 trace validation.  A case = one data matrix X and one parameter setting; the harness        *)
(* (harness/src/bin/x04.rs) fits it once per seed of `seeds` and logs, per seed,                   *)
(*     fit      ok / error variant, W (k x p, scale 1e6), mean (scale 1e4)                         *)
(*     predict  predictions of the rows of X followed by the unseen rows Z (scale 1e6)             *)
(* and finally                                                                                     *)
(*     refit    digests of three fits with the first seed (same thread, after a fit with another   *)
(*              seed, on another thread).                                                          *)
(* Every event is explained by the relations of module FastIca evaluated on the inputs of the case: *)
(*   TFit     invalid parameters (ncomponents > p, logcosh alpha outside [1,2]) => an error that is *)
(*            not a training failure, whatever the data and max_iter (also 0: "before any          *)
(*            training"); no samples => error; valid parameters on full-rank data => a finite      *)
(*            model with W of shape k x p and mean = column mean, or the NotConverged error        *)
(*   TPred    shape, finiteness, y = (x - mean) W^T for every row of X and Z, and the recovered    *)
(*            sources of the training rows are centred, uncorrelated and of equal variance, at one *)
(*            of the conventional scales SUM y y^T = d I, d in {n, n-1, 1}, the same for every fit;*)
(*            on SepDomain cases the seed is counted when the sources are separated                *)
(*   TRefit   the three digests are equal (bit-identical results for the same random_state); on    *)
(*            SepDomain cases the majority of the seeds separated the sources (a single random     *)
(*            start may legitimately stop at a spurious fixed point of the iteration)              *)
(* Rank-deficient data with valid parameters are outside the statement: any outcome is accepted.   *)
(***************************************************************************************************)
EXTENDS FastIca, TraceIO

CONSTANT Devs      \* named deviations (known findings) -- none for X04

VARIABLES c, e,
          nsep,     \* seeds whose fit separated the sources so far
          norm      \* the scale d (SUM_i y y^T = d I) of the fits seen so far, 0 = none yet
tv == <<nsep, norm>>
tvars == <<c, e, nsep, norm>>

Case == Rec[c]
In   == Case.inp
Ev   == Case.ev[e]
Kind == Case.kind

XX == In.X
PP == In.p
NN == Len(XX)
KK == KEff(In.k, PP)
All == XX \o In.Z
Bad == Invalid(In.k, PP, In.g, In.am)
Full == NN >= 2 /\ FullRank(XX, PP)

\* the case is a mixture as the statement's separation clause describes it, and the stopping rule lets the
\* iteration run (default or larger max_iter, default or tighter tolerance)
IsMix == In.s1 # <<>>
TSrc == SrcRows(In.s1, In.s2, In.ord)
MixDef == XX = MixRows(TSrc, In.A, In.off)
SepDomain ==
  /\ IsMix /\ PP = 2 /\ KK = 2
  /\ (In.mi = -1 \/ In.mi >= 200) /\ (In.te = 0 \/ In.te >= 4)
  /\ SubGauss(In.s1) /\ SubGauss(In.s2) /\ WellCond(In.A)
  /\ CorrDomain(NN, Col(TSrc, 1)) /\ CorrDomain(NN, Col(TSrc, 2))

TraceInit ==
  /\ c \in 1..Len(Rec) /\ e = 1 /\ nsep = 0 /\ norm = 0
  \* the design-model variables are not used during trace validation
  /\ pc = "trace" /\ i1 = 0 /\ i2 = 0 /\ A = <<>> /\ off = <<>> /\ perm = <<>> /\ sg = <<>> /\ par = <<>>
  /\ mean = <<>> /\ W = <<>> /\ Y = <<>> /\ r = 0

HasEv(name) == e <= Len(Case.ev) /\ Ev.ev = name
Adv == e' = e + 1 /\ UNCHANGED <<c, vars>>
\* an event that the specification does not explain ends the case with a diagnostic (no acceptance)
Reject(why) == Fail(Case.id, <<e, why>>) /\ e' = Len(Case.ev) + 2 /\ UNCHANGED <<c, vars, tv>>

FitModelOk ==
  /\ Ev.finite /\ ~Ev.big
  /\ Ev.k = KK /\ Ev.p = PP /\ Len(Ev.W) = KK /\ \A a \in 1..KK : Len(Ev.W[a]) = PP
  /\ MeanOk(XX, PP, Ev.mean)

FitOk ==
  IF Bad THEN ~Ev.ok /\ Ev.err \notin TrainErrs
  ELSE IF NN = 0 THEN ~Ev.ok
  ELSE IF Full THEN (Ev.ok /\ FitModelOk) \/ (~Ev.ok /\ Ev.err = "NotConverged")
  ELSE TRUE
FitWhy ==
  IF IsMix /\ ~MixDef THEN "mixdef"
  ELSE IF Bad THEN (IF Ev.ok THEN "invalid_params_accepted" ELSE "invalid_params_training_error")
  ELSE IF NN = 0 THEN "empty_accepted"
  ELSE IF ~Ev.ok THEN "error_" \o Ev.err
  ELSE IF ~Ev.finite THEN "nan_model"
  ELSE IF ~MeanOk(XX, PP, Ev.mean) THEN "mean" ELSE "shape"
TFit ==
  /\ HasEv("fit")
  /\ IF (IsMix => MixDef) /\ FitOk THEN Adv /\ UNCHANGED tv ELSE Reject(FitWhy)

\* the fit event this prediction belongs to
Fit == Case.ev[e - 1]
TrainY == [i \in 1..NN |-> Ev.Y[i]]
ShapeOk ==
  /\ e > 1 /\ Fit.ev = "fit" /\ Fit.ok
  /\ Ev.finite /\ ~Ev.big
  /\ Ev.rows = Len(All) /\ Ev.cols = KK /\ Len(Ev.Y) = Len(All)
  /\ \A i \in 1..Len(All) : Len(Ev.Y[i]) = KK
CellsOk ==
  LET sums == Sums(XX, PP) IN
  \A i \in 1..Len(All) :
    LET cen == CenRow(All[i], sums, NN) IN
    \A a \in 1..KK : CellDomain(NN, cen, Fit.W[a], Ev.Y[i][a]) /\ CellOk(NN, cen, Fit.W[a], Ev.Y[i][a])
\* centred, uncorrelated, equal variances, at one of the conventional scales -- and the same scale for every fit of the case
Scales == NormsOf(TrainY, KK)
ScaleOk == Scales # {} /\ (norm = 0 \/ norm \in Scales)
PredWhy ==
  IF ~ShapeOk THEN "nan_or_shape" ELSE IF ~CellsOk THEN "predict_cell"
  ELSE IF Scales = {} THEN "not_white" ELSE "scale_differs_between_fits"
TPred ==
  /\ HasEv("predict")
  /\ IF (Full /\ ~Bad) => (ShapeOk /\ CellsOk /\ ScaleOk)
       THEN /\ nsep' = IF SepDomain /\ Separated(TrainY, TSrc) THEN nsep + 1 ELSE nsep
            /\ norm' = IF (Full /\ ~Bad) /\ norm = 0 THEN CHOOSE d \in Scales : TRUE ELSE norm
            /\ Adv
       ELSE Reject(PredWhy)

\* vacuity marker read by props/x04.py: the separation clause was demanded for this case
SepMark == SepDomain => PrintT(<<"SEP", Case.id, nsep, Len(In.seeds)>>)
Same == Ev.d[1] = Ev.d[2] /\ Ev.d[1] = Ev.d[3]
TRefit ==
  /\ HasEv("refit")
  /\ SepMark
  /\ IF Same /\ (SepDomain => 2 * nsep > Len(In.seeds))
       THEN Adv /\ UNCHANGED tv
       ELSE Reject(IF ~Same THEN "not_reproducible" ELSE "not_separated")

\* anything else (a panic of the code under test) is explained by no action
\* (on rank-deficient data with valid parameters -- outside the statement -- even that is passed over)
TOther ==
  /\ e <= Len(Case.ev) /\ Ev.ev \notin {"fit", "predict", "refit"}
  /\ IF NN > 0 /\ ~Full /\ ~Bad THEN Adv /\ UNCHANGED tv ELSE Reject(Ev.ev)

Accept ==
  /\ e = Len(Case.ev) + 1
  /\ Len(Case.ev) > 0 /\ Case.ev[Len(Case.ev)].ev = "refit"
  /\ Ok(Case.id)
  /\ e' = e + 1 /\ UNCHANGED <<c, vars, tv>>

TraceNext == TFit \/ TPred \/ TRefit \/ TOther \/ Accept
=============================================================================
