------------------------------ MODULE XC_EmRef ------------------------------
(***************************************************************************)
(* X08 cross-check, original side: TLC explores the bounded design model   *)
(* of specs/X10Em.tla and checks that it IS the machine of specs/EmInd.tla *)
(* under the flattening mapping (records -> scalars, hist -> arrays padded *)
(* with the initial cell values, R <- MaxRuns, I <- MaxIt):                *)
(*   RefinesInd  every behaviour is a behaviour of EmInd                   *)
(*   IndHolds    IndInv and Safety of EmInd hold in every reachable state  *)
(*   SameInvs    EmInd's InvBest / InvResult / InvConverged / InvBudget    *)
(*               have the truth value of X10Em's in every reachable state  *)
(* and prints the reachable states in the variables of EmInd ("ST" lines). *)
(* With IndVariant # "ok" RefinesInd must fail (the property has teeth).   *)
(***************************************************************************)
EXTENDS X10Em, Json

CONSTANT IndVariant

HL == Len(hist)
Pad(f(_), dflt) == [r \in 1..MaxRuns |-> IF r <= HL THEN f(r) ELSE dflt]
HLb == LET f(r) == hist[r].lb.v IN Pad(f, 0)
HConv == LET f(r) == hist[r].conv IN Pad(f, -1)
HKept == LET f(r) == hist[r].kept IN Pad(f, FALSE)
HIters == LET f(r) == hist[r].iters IN Pad(f, 0)

Ind == INSTANCE EmInd WITH R <- MaxRuns, I <- MaxIt, Variant <- IndVariant,
          maxit <- G.maxit, nruns <- G.nruns, tol <- G.tol,
          lbfin <- lb.fin, lbv <- lb.v, brun <- best.run, blbfin <- best.lb.fin, blbv <- best.lb.v, bconv <- best.conv,
          hlen <- HL, hlb <- HLb, hconv <- HConv, hkept <- HKept, hiters <- HIters

XSpec == Init /\ [][Next]_evars
RefinesInd == Ind!Spec
IndHolds == Ind!IndInv /\ Ind!Safety
SameInvs ==
  /\ Ind!InvBest <=> InvBest
  /\ Ind!InvResult <=> InvResult
  /\ Ind!InvConverged <=> InvConverged
  /\ Ind!InvBudget <=> InvBudget

Proj == [maxit |-> G.maxit, nruns |-> G.nruns, tol |-> G.tol, pc |-> pc, run |-> run, it |-> it, lbfin |-> lb.fin, lbv |-> lb.v,
         conv |-> conv, dec |-> dec, brun |-> best.run, blbfin |-> best.lb.fin, blbv |-> best.lb.v, bconv |-> best.conv,
         hlen |-> HL, hlb |-> HLb, hconv |-> HConv, hkept |-> HKept, hiters |-> HIters, res |-> res]
\* G.cont does not influence the machine: states that differ only in it are one state
ProjView == Proj
Emit == PrintT("ST " \o ToJson(Proj))
=============================================================================
