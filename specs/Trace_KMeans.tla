---------------------------- MODULE Trace_KMeans ----------------------------
(***************************************************************************)
(* C09 trace validation: results recorded from the real linfa k-means are  *)
(* explained by the operators of the design model KMeans.                  *)
(*                                                                         *)
(* kind "traj"  (KMeansInit::Precomputed, one run, budgets m = 1, 2, ...): *)
(*   the specification keeps the EXACT rational centroids `cur`; the event *)
(*   of budget m is explained by one more Assign/Update step (TLC searches *)
(*   the tie choices) whose centroids the logged ones match; every other   *)
(*   logged quantity is then compared with its definition evaluated on the *)
(*   exact centroids: labels of training points and of new observations in *)
(*   Adm (arg-min set), transform = minimal reduced distance, counts = the *)
(*   counts of SOME nearest assignment, inertia * n = cost, cost not       *)
(*   increased by the step (l2), centroids inside the bounding box.        *)
(* kind "restart" (random / k-means++ / k-means|| from a seed, n_runs =    *)
(*   1..R, run to convergence): centroids are not known exactly, so the    *)
(*   same clauses are evaluated on the logged centroids in fixed point,    *)
(*   with an interval [Lo, Hi] for every distance (a near-tie inside the   *)
(*   interval is a tie); plus: reported inertia never increases with the   *)
(*   number of restarts (exact order keys).                                *)
(*                                                                         *)
(* Named deviations (known findings, only when listed in Devs):            *)
(*   report_before_last_update : inertia and counts are those of the       *)
(*       assignment made BEFORE the last centroid update (what the pinned  *)
(*       code computes: `break dists.sum()` after `centroids = new`)       *)
(*   counts_from_last_restart  : with n_runs > 1 the counts are those of   *)
(*       the last restart, not of the restart whose centroids are returned *)
(***************************************************************************)
EXTENDS KMeans, TraceIO

CONSTANT Devs

VARIABLES cs, ei,      \* case and event cursor
          tt,          \* traj: Lloyd steps taken so far
          cur,         \* traj: exact centroids after tt steps
          curTab,      \* traj: distance table (Tab) of the training points for cur
          prevTab,     \* traj: the table of the centroids before the last executed step
          lastA,       \* traj: the assignment used by the last executed step
          stopped,     \* traj: the tolerance criterion ended the iteration
          ptr,         \* traj: transform-sum logged for the previous budget
          hv,          \* traj: huge budgets seen so far: [n |-> how many, cen |-> the centroids logged for them]
          ikeyPrev,    \* restart: order key of the inertia reported with one restart less (same budget)
          singles,     \* restart: the restarts observed on their own under the current budget, in order:
                       \*          records [ikey, cen, counts]
          prevSingles, \* restart: the same for the previous budget
          prevIn,      \* restart: inertia (10^-5) reported by the r-run fits under the previous budget
          curIn,       \* restart: the same for the current budget, so far
          used         \* deviations needed so far

rvars == <<ikeyPrev, singles, prevSingles, prevIn, curIn>>
tvars == <<cs, ei, tt, cur, curTab, prevTab, lastA, stopped, ptr, hv, rvars, used>>

Case == Rec[cs]
In   == Case.inp
Ev   == Case.ev[ei]
PX   == In.pts
QS   == In.qs
TN   == Len(PX)
TF   == In.f
Mt   == In.metric
TK   == IF Case.kind = "traj" THEN Len(In.c0) ELSE In.k
IsF32 == In.ft = "f32"
S5   == 100000

\* allowances.  f64: quantisation of the log only.  f32: plus single-precision rounding of values <= ~100
\* arg-min comparisons (units 10^-5); 0 = exact.  lp3: cubes of distances with denominators up to 125^3 can
\* differ by less than the rounding of a cube root in f64, so differences below 2 * 10^-5 count as ties
Eps  == IF IsF32 THEN 20 ELSE IF In.metric = "lp3" THEN 2 ELSE 0
SlC  == IF IsF32 THEN 3 ELSE 1             \* centroid coordinates
SlT  == IF IsF32 THEN 5 ELSE 1             \* one reduced distance
InSl == IF IsF32 THEN 6 * TN + 2 ELSE 2 * TN + 2   \* inertia * n against the rounded-down cost

HasEv(name) == ei <= Len(Case.ev) /\ Ev.ev = name

TraceInit ==
  /\ cs \in 1..Len(Rec) /\ ei = 1
  /\ tt = 0
  /\ cur = IF Rec[cs].kind = "traj" THEN LatticeAll(Rec[cs].inp.c0) ELSE <<>>
  /\ curTab = IF Rec[cs].kind = "traj" THEN Tab(Rec[cs].inp.metric, Rec[cs].inp.pts, cur, Eps) ELSE <<>>
  /\ prevTab = curTab /\ lastA = <<>> /\ stopped = FALSE /\ hv = [n |-> 0, cen |-> <<>>]
  /\ ptr = 0 /\ ikeyPrev = <<>> /\ singles = <<>> /\ prevSingles = <<>> /\ prevIn = <<>> /\ curIn = <<>> /\ used = {}
  \* the design-model variables are not used during trace validation
  /\ metric = "trace" /\ X = <<>> /\ C0 = <<>> /\ C = <<>> /\ prevC = <<>> /\ A = <<>> /\ t = 0 /\ pc = "trace"

-----------------------------------------------------------------------------
(* clauses shared by both kinds *)
\* the records were handed to fit / predict / transform in the memory layout the case names (strides of
\* the training records as seen by the code; an axis of length 1 has no meaningful stride).  The
\* specification itself only ever talks about the logical values In.pts / In.qs.
LayoutOk(ev) ==
  LET st == ev.strides
      rows == TN >= 2
      cols == TF >= 2
      lay == In.form
  IN /\ Len(st) = 2
     /\ lay \in {"owned", "view", "revf", "revr", "revb", "forder", "row2", "col2"}
     /\ (lay \in {"owned", "view"}) => ((rows => st[1] = TF) /\ (cols => st[2] = 1))
     /\ (lay = "revf") => ((rows => st[1] = TF) /\ (cols => st[2] = -1))
     /\ (lay = "revr") => ((rows => st[1] = -TF) /\ (cols => st[2] = 1))
     /\ (lay = "revb") => ((rows => st[1] = -TF) /\ (cols => st[2] = -1))
     /\ (lay = "forder" /\ rows /\ cols) => (st[1] = 1 /\ st[2] = TN)
     /\ (lay = "row2") => ((rows => st[1] = 2 * TF) /\ (cols => st[2] = 1))
     /\ (lay = "col2") => ((rows => st[1] = 2 * TF) /\ (cols => st[2] = 2))

\* Minkowski metrics LpDist(p): linfa compares and returns the distance (sum |d|^p)^(1/p).  The harness logs
\* next to every returned distance v (field tr / qtr) its p-th power v^p (trp / qtrp, p = 1 for all other
\* metrics), which is the quantity the specification can evaluate exactly.  PowBind ties the two fields
\* together (coarsely for p > 1: w = v rounded down to 10^-2, (w-1)^p <= v^p <= (w+2)^p).
PowP == CASE In.metric = "lp2" -> 2 [] In.metric = "lp3" -> 3 [] OTHER -> 1
PowBind(tr, trp) ==
  \A i \in 1..Len(tr) :
    LET w  == tr[i] \div 1000
        lo == IF w >= 1 THEN w - 1 ELSE 0
        hi == w + 2
    IN
    CASE PowP = 1 -> trp[i] = tr[i]
      [] PowP = 2 -> /\ tr[i] >= 0 /\ tr[i] < 3000000 /\ trp[i] >= 0
                     /\ lo * lo - 2 <= trp[i] \div 10 /\ trp[i] \div 10 <= hi * hi + 2
      [] PowP = 3 -> /\ tr[i] >= 0 /\ tr[i] < 1200000 /\ trp[i] >= 0 /\ trp[i] < 200000000
                     /\ lo * lo * lo - 20 <= trp[i] * 10 /\ trp[i] * 10 <= hi * hi * hi + 20
\* inertia = mean of the returned distances: for p > 1 the sum of the (bound) logged distances of the training
\* points stands in for the sum of p-th roots
RootMetric == PowP > 1
SumTr(ev) == KSum(ev.tr)

ShapeOk(ev) ==
  /\ ev.ok /\ ev.num /\ ev.fin
  /\ LayoutOk(ev)
  /\ ev.nrows = TK /\ ev.ncols = TF
  /\ Len(ev.cen) = TK /\ \A j \in 1..TK : Len(ev.cen[j]) = TF
  /\ Len(ev.counts) = TK
  /\ Len(ev.lab) = TN /\ Len(ev.tr) = TN /\ Len(ev.trp) = TN
  /\ Len(ev.qlab) = Len(QS) /\ Len(ev.qlab1) = Len(QS) /\ Len(ev.qtr) = Len(QS) /\ Len(ev.qtrp) = Len(QS)
  /\ PowBind(ev.tr, ev.trp) /\ PowBind(ev.qtr, ev.qtrp)
  /\ \A i \in 1..TN : ev.lab[i] \in 0..(TK - 1)
  /\ \A i \in 1..Len(QS) : ev.qlab[i] \in 0..(TK - 1) /\ ev.qlab1[i] \in 0..(TK - 1)
  /\ ev.inertia >= 0 /\ ev.inertia <= 400 * S5

CountsVec(ev) == [j \in 1..TK |-> ev.counts[j].i]
CountsWellFormed(ev) ==
  /\ \A j \in 1..TK : ev.counts[j].exact /\ ev.counts[j].i >= 0
  /\ KSum(CountsVec(ev)) = TN

\* logged centroid coordinates inside [lo, hi] of the given points (fixed point, slack SlC)
CenWithin(ev, PP) ==
  \A j \in 1..TK : \A d \in 1..TF :
    /\ BoxLo(PP, d) * S5 - SlC <= ev.cen[j][d]
    /\ ev.cen[j][d] <= BoxHi(PP, d) * S5 + SlC

-----------------------------------------------------------------------------
(* kind "traj": exact centroids *)
CenClose(ev, CC) ==
  \A j \in 1..TK : \A d \in 1..TF :
    KAbs(ev.cen[j][d] * CC[j].den - CC[j].num[d] * S5) <= SlC * CC[j].den

\* the clauses below are evaluated on distance tables (KMeans!Tab) of the exact centroids:
\* tab[i].adm = arg-min set of observation i, tab[i].mn = its minimal reduced distance (10^-5, rounded down)
LabelsOk(lab, tab) == \A i \in 1..Len(tab) : (lab[i] + 1) \in tab[i].adm
TransOk(tr, tab)   == \A i \in 1..Len(tab) : KAbs(tr[i] - tab[i].mn) <= SlT
InertiaOk(ev, cost) == KAbs(ev.inertia * TN - cost) <= InSl

\* "the reported inertia and per-cluster counts describe the returned centroids"
ReportStrict(ev, tab) ==
  /\ CountsWellFormed(ev)
  /\ \E B \in AsgsT(tab) : Counts(B, TK) = CountsVec(ev)
  /\ InertiaOk(ev, IF RootMetric THEN SumTr(ev) ELSE CostT(tab))
\* what the pinned code reports: assignment AA made for the centroids before the last update (table tabOld)
ReportLag(ev, AA, tabOld) ==
  /\ CountsWellFormed(ev)
  /\ Counts(AA, TK) = CountsVec(ev)
  /\ ~RootMetric /\ InertiaOk(ev, CostT(tabOld))

\* l2: the step does not increase the cost; the transform-sum logged for the returned centroids is
\* that cost, and does not increase from one budget to the next
\* (allowances: every term of CostT is rounded down, < 1 unit each; with Eps > 0 an assignment may be
\* up to Eps per observation away from the nearest one)
CostOk(ev, tabNew, tabOld) ==
  Mt = "l2" =>
    /\ CostT(tabNew) <= CostT(tabOld) + TN * (1 + Eps)
    /\ KAbs(ev.trsum - CostT(tabNew)) <= TN * (SlT + 1) + 1
    /\ tt > 0 => ev.trsum <= ptr + 2 * SlT + TN * Eps

BoxOk(ev) == InBox(PX, LatticeAll(In.c0)) => CenWithin(ev, PX)

Hull == PX \o In.c0
Pre(ev) == ShapeOk(ev) /\ ev.m = tt + 1 /\ CenWithin(ev, Hull)

Explains(ev, tp, tq, tabOld) ==
  /\ BoxOk(ev)
  /\ LabelsOk(ev.lab, tp)
  /\ LabelsOk(ev.qlab, tq) /\ LabelsOk(ev.qlab1, tq)
  /\ TransOk(ev.trp, tp) /\ TransOk(ev.qtrp, tq)
  /\ CostOk(ev, tp, tabOld)

\* strictly, or (known finding) as the pinned code computes it
Report(ev, tp, AA, tabOld) ==
  \/ /\ ReportStrict(ev, tp)
     /\ used' = used
  \/ /\ "report_before_last_update" \in Devs
     /\ ~ReportStrict(ev, tp)
     /\ ReportLag(ev, AA, tabOld)
     /\ used' = used \cup {"report_before_last_update"}

\* the documented stopping rule: iterate until the euclidean distance between the old and the new
\* centroids is below `tolerance` (documented as "below" in one place and "lower or equal" in another:
\* the boundary, and anything within the rounding of the fixed-point evaluation, may go either way).
\* For a tolerance <= 10^-6 only a move of exactly zero is below it (a non-zero move of centroids with
\* the bounded denominators is > 10^-4).
TolTiny == In.tol[2] >= 1000000 * In.tol[1]
TolSq   == FxDiv(In.tol[1] * In.tol[1], In.tol[2] * In.tol[2], 5)
TolM    == IF IsF32 THEN 12 ELSE 1
MayStop(AA) == IF TolTiny THEN ZeroShift(PX, cur, AA) ELSE ShiftSqFx(PX, cur, AA) <= TolSq + TolM
MayCont(AA) == IF TolTiny THEN TRUE ELSE ShiftSqFx(PX, cur, AA) + TK * TF + TolM > TolSq

\* budget m = tt + 1 while the iteration is running: one more Assign / Update step
TFit ==
  /\ HasEv("fit") /\ Case.kind = "traj" /\ ~stopped
  /\ Pre(Ev)
  /\ \E AA \in AsgsT(curTab) :
     \E nx \in {Upd(PX, cur, AA)} :
       /\ CenClose(Ev, nx)
       /\ \E tp \in {Tab(Mt, PX, nx, Eps)} : \E tq \in {Tab(Mt, QS, nx, Eps)} :
            /\ Explains(Ev, tp, tq, curTab)
            /\ Report(Ev, tp, AA, curTab)
            /\ curTab' = tp
       /\ cur' = nx /\ lastA' = AA
       /\ stopped' \in {b \in BOOLEAN : IF b THEN MayStop(AA) ELSE MayCont(AA)}
  /\ prevTab' = curTab
  /\ tt' = tt + 1 /\ ptr' = Ev.trsum /\ ei' = ei + 1
  /\ UNCHANGED <<cs, rvars, hv, mvars>>

\* a larger budget after the tolerance criterion stopped the iteration: the same model again
TFitStay ==
  /\ HasEv("fit") /\ Case.kind = "traj" /\ stopped
  /\ Pre(Ev)
  /\ CenClose(Ev, cur)
  /\ \E tq \in {Tab(Mt, QS, cur, Eps)} :
       /\ Explains(Ev, curTab, tq, prevTab)
       /\ Report(Ev, curTab, lastA, prevTab)
  /\ tt' = tt + 1 /\ ptr' = Ev.trsum /\ ei' = ei + 1
  /\ UNCHANGED <<cs, cur, curTab, prevTab, lastA, stopped, rvars, hv, mvars>>

\* Budgets of 2^32 and more (event "fitx", In.hms: decimal strings, they do not fit TLC's integers) after the
\* small budgets 1..Len(In.ms), with a tolerance the run meets on its own after a few iterations.  Such a
\* budget never binds, so
\*  - when the tolerance criterion had already stopped the run within the small budgets: the same model again
\*    (every clause, on the exact centroids);
\*  - otherwise (the exact trajectory is not continued: denominators): the cost of the returned centroids is not
\*    above that of the largest small budget (l2, "never increases when the iteration budget grows");
\*  - all huge budgets return the same centroids (the run ends by the tolerance rule long before any of them).
HugeSame(ev) == hv.n > 0 => ev.cen = hv.cen
HugeCost(ev) == (~stopped /\ Mt = "l2") => ev.trsum <= ptr + 2 * SlT + TN * Eps
PreX(ev) == ShapeOk(ev) /\ tt = Len(In.ms) /\ hv.n < Len(In.hms) /\ ev.hm = In.hms[hv.n + 1] /\ CenWithin(ev, Hull)
TFitHuge ==
  /\ HasEv("fitx") /\ Case.kind = "traj"
  /\ PreX(Ev)
  /\ HugeSame(Ev)
  /\ HugeCost(Ev)
  /\ IF stopped
       THEN /\ CenClose(Ev, cur)
            /\ \E tq \in {Tab(Mt, QS, cur, Eps)} :
                 /\ Explains(Ev, curTab, tq, prevTab)
                 /\ Report(Ev, curTab, lastA, prevTab)
       ELSE /\ BoxOk(Ev)
            /\ CountsWellFormed(Ev)
            /\ used' = used
  /\ hv' = [n |-> hv.n + 1, cen |-> Ev.cen]
  /\ ei' = ei + 1
  /\ UNCHANGED <<cs, tt, cur, curTab, prevTab, lastA, stopped, ptr, rvars, mvars>>

HugeDiag ==
  IF ~PreX(Ev) THEN <<"shape/order/hull">>
  ELSE <<{nm \in {"huge-same", "huge-cost", "huge-stop"} :
           CASE nm = "huge-same" -> ~HugeSame(Ev)
             [] nm = "huge-cost" -> ~HugeCost(Ev)
             [] nm = "huge-stop" -> stopped /\ ~CenClose(Ev, cur)}>>

\* diagnosis of a fit event nothing explains: names of the false clauses
FitDiag ==
  IF ~Pre(Ev) THEN <<"shape/finite/budget/hull">>
  ELSE LET good == IF stopped THEN (IF CenClose(Ev, cur) THEN {lastA} ELSE {})
                   ELSE {AA \in AsgsT(curTab) : CenClose(Ev, Upd(PX, cur, AA))} IN
       IF good = {} THEN <<IF stopped THEN "centroids (iteration had stopped by tolerance)" ELSE "centroids">>
       ELSE LET AA == CHOOSE a \in good : TRUE
                nx == IF stopped THEN cur ELSE Upd(PX, cur, AA)
                tp == Tab(Mt, PX, nx, Eps)
                tq == Tab(Mt, QS, nx, Eps)
                to == IF stopped THEN prevTab ELSE curTab
            IN <<{nm \in {"box", "labels", "query-labels", "transform", "query-transform", "cost", "report"} :
                   CASE nm = "box" -> ~BoxOk(Ev)
                     [] nm = "labels" -> ~LabelsOk(Ev.lab, tp)
                     [] nm = "query-labels" -> ~(LabelsOk(Ev.qlab, tq) /\ LabelsOk(Ev.qlab1, tq))
                     [] nm = "transform" -> ~TransOk(Ev.trp, tp)
                     [] nm = "query-transform" -> ~TransOk(Ev.qtrp, tq)
                     [] nm = "cost" -> ~CostOk(Ev, tp, to)
                     [] nm = "report" -> ~ReportStrict(Ev, tp)}>>

-----------------------------------------------------------------------------
(* kind "restart": the clauses on the logged centroids, in fixed point with intervals *)
\* the logged centroid coordinates (10^-5) are within 0.5 unit of the returned ones
C4(ev) == ev.cen
A4(x, cj) == [d \in 1..TF |-> KAbs(x[d] * S5 - cj[d])]
Sq1e4(a) == LET h == a \div 1000
                l == a % 1000
            IN 100 * h * h + (h * l) \div 5 + (l * l) \div 10000              \* a^2 / 10^4, at most 2 too small
\* distance and half-width of its interval; units: l2 -> 10^-6, l1 / linf -> 10^-5
\* (l2: (a +- 0.5)^2 / 10^4 = a^2 / 10^4 +- (a / 10^4 + ..), plus the rounding of Sq1e4)
\* a^3 / 10^9 (a in 10^-5, result in 10^-6), at most ~5 too small; a <= 1 200 000
Cube1e9(a) == LET h == a \div 1000
                  l == a % 1000
              IN h * h * h + (3 * h * h * l) \div 1000 + (3 * ((h * l) \div 1000) * l) \div 1000
FD(x, cj) ==
  LET a == A4(x, cj) IN
  CASE Mt \in {"l2", "lp2"} -> KSum([d \in 1..TF |-> Sq1e4(a[d])])
    [] Mt \in {"l1", "lp1"} -> KSum(a)
    [] Mt = "linf" -> KMax(a)
    [] Mt = "lp3"  -> KSum([d \in 1..TF |-> Cube1e9(a[d])])
\* (lp3: (a +- 0.5)^3 / 10^9 = a^3 / 10^9 +- 1.5 a^2 / 10^9 .., a < 1000 (h + 1); plus the rounding of Cube1e9)
FS(x, cj) ==
  LET a == A4(x, cj) IN
  CASE Mt \in {"l2", "lp2"} -> KSum([d \in 1..TF |-> a[d] \div 10000 + 3])
    [] Mt \in {"l1", "lp1"} -> TF
    [] Mt = "linf" -> 1
    [] Mt = "lp3"  -> KSum([d \in 1..TF |-> (3 * (a[d] \div 1000 + 1) * (a[d] \div 1000 + 1)) \div 2000 + 8])
\* distances are in 10^-6 for the metrics summing squares or cubes, in 10^-5 otherwise
Fine == Mt \in {"l2", "lp2", "lp3"}
\* per observation: interval ends of its minimal distance and the centroids that may be nearest
NTab(PP, c4) ==
  [i \in 1..Len(PP) |->
     LET iv == [j \in 1..TK |-> LET dd == FD(PP[i], c4[j])
                                     ss == FS(PP[i], c4[j])
                                 IN <<dd - ss, dd + ss>>]
         mh == KMin([j \in 1..TK |-> iv[j][2]])
     IN [pt |-> PP[i], mlo |-> KMin([j \in 1..TK |-> iv[j][1]]), mhi |-> mh, adm |-> {j \in 1..TK : iv[j][1] <= mh}]]
ObsU(v) == IF Fine THEN 10 * v ELSE v          \* a logged value (10^-5) in the units of FD
MU == IF Fine THEN 10 * SlT ELSE SlT

NearLabels(lab, nt) == \A i \in 1..Len(nt) : (lab[i] + 1) \in nt[i].adm
NearTrans(tr, nt) ==
  \A i \in 1..Len(nt) : nt[i].mlo - MU <= ObsU(tr[i]) /\ ObsU(tr[i]) <= nt[i].mhi + MU
NearCounts(ev, nt) ==
  /\ CountsWellFormed(ev)
  /\ \A j \in 1..TK :
       /\ Cardinality({i \in 1..TN : nt[i].adm = {j}}) <= ev.counts[j].i
       /\ ev.counts[j].i <= Cardinality({i \in 1..TN : j \in nt[i].adm})
\* inertia * n in 10^-5 against the interval of the cost
NearInertia(ev, nt) ==
  IF RootMetric THEN KAbs(ev.inertia * TN - SumTr(ev)) <= InSl
  ELSE
  LET dv == IF Fine THEN 10 ELSE 1                            \* every term is brought to 10^-5 before summing
      lo == KSum([i \in 1..TN |-> nt[i].mlo \div dv])        \* (rounded down / up), so that n terms fit 32 bits
      hi == KSum([i \in 1..TN |-> nt[i].mhi \div dv + 1])
  IN /\ lo - TN * SlT <= ev.inertia * TN
     /\ ev.inertia * TN <= hi + TN * SlT

DescribesNoCounts(ev, np, nq) ==
  /\ NearLabels(ev.lab, np)
  /\ NearLabels(ev.qlab, nq) /\ NearLabels(ev.qlab1, nq)
  /\ NearTrans(ev.trp, np) /\ NearTrans(ev.qtrp, nq)
  /\ NearInertia(ev, np)

\* shape, finiteness; initialised from the data => inside its bounding box
PreR(ev) == ShapeOk(ev) /\ CenWithin(ev, PX)

KeyLe(a, b) == \/ a[1] < b[1]
               \/ a[1] = b[1] /\ a[2] < b[2]
               \/ a[1] = b[1] /\ a[2] = b[2] /\ a[3] <= b[3]

\* order of the events: for every budget b (inp.maxits[b]): single 1, multi 1, single 2, multi 2, ...
RunsN  == In.runs
EvB    == (ei - 1) \div (2 * RunsN) + 1
EvR    == ((ei - 1) % (2 * RunsN)) \div 2 + 1
EvIsSingle == (ei - 1) % 2 = 0
Determ == In.init # "kmpara"      \* k-means|| samples its candidates under rayon's schedule: runs are not repeatable
NextBudget == EvB > 1 /\ In.maxits[EvB] = In.maxits[EvB - 1] + 1

\* one Lloyd step on logged centroids (10^-5, each within half a unit): for SOME assignment to nearest
\* (interval arithmetic, near-ties are ties) centroids, (1 + cnt) * c' = c + sum for every centroid and
\* coordinate -- or the same centroids again when the tolerance criterion had ended the shorter run
\* (the search over tie choices is skipped -- clause not evaluated -- when more than TieCap combinations
\* would have to be tried, e.g. two coinciding centroids in a large duplicate-rich dataset)
TieCap == 4096
RECURSIVE TieProd(_, _, _)
TieProd(tab, i, acc) ==
  IF i = 0 \/ acc > TieCap THEN acc ELSE TieProd(tab, i - 1, acc * Cardinality(tab[i].adm))
StepNear(cenOld, cenNew) ==
  \/ cenNew = cenOld
  \/ \E nt \in {NTab(PX, cenOld)} :
     \/ TieProd(nt, Len(nt), 1) > TieCap
     \/ \E AA \in AsgsT(nt) :
          \A j \in 1..TK :
            LET cnt == Cardinality(Members(AA, j)) IN
            \A d \in 1..TF :
              KAbs(cenNew[j][d] * (1 + cnt) - (cenOld[j][d] + S5 * SumOf(PX, AA, j, d))) <= (1 + cnt) * SlC + SlC

\* the r-th restart on its own (a legitimate 1-run fit): everything, including the counts;
\* with one more iteration allowed it is one Lloyd step further than under the previous budget
TSingle ==
  /\ HasEv("single") /\ Case.kind = "restart"
  /\ EvIsSingle /\ Ev.r = EvR /\ Ev.b = EvB
  /\ PreR(Ev)
  /\ \E c4 \in {C4(Ev)} : \E np \in {NTab(PX, c4)} : \E nq \in {NTab(QS, c4)} :
       /\ DescribesNoCounts(Ev, np, nq)
       /\ NearCounts(Ev, np)
  /\ LET old == IF EvR = 1 THEN singles ELSE prevSingles IN          \* the previous budget's restarts
     (Determ /\ NextBudget) => StepNear(old[EvR].cen, Ev.cen)
  /\ LET rec == [ikey |-> Ev.ikey, cen |-> Ev.cen, counts |-> CountsVec(Ev)] IN
     IF EvR = 1 THEN /\ singles' = <<rec>> /\ prevSingles' = singles
                     /\ prevIn' = curIn /\ curIn' = <<>> /\ ikeyPrev' = <<>>
     ELSE /\ singles' = Append(singles, rec)
          /\ UNCHANGED <<prevSingles, prevIn, curIn, ikeyPrev>>
  /\ ei' = ei + 1
  /\ UNCHANGED <<cs, tt, cur, curTab, prevTab, lastA, stopped, ptr, used, hv, mvars>>

\* the r-run fit returns the best of its restarts: its inertia is the least of the inertias of restarts
\* 1..r (each under the same budget) and its centroids are those of a restart attaining it
BestOf(ev) ==
  Determ =>
    /\ Len(singles) = EvR
    /\ \A q \in 1..EvR : KeyLe(ev.ikey, singles[q].ikey)
    /\ \E q \in 1..EvR : singles[q].ikey = ev.ikey /\ singles[q].cen = ev.cen

\* l2: the reported cost does not increase when the iteration budget grows (same seed, same n_runs)
BudgetMonotone(ev) ==
  (Determ /\ Mt = "l2" /\ EvB > 1 /\ In.maxits[EvB] > In.maxits[EvB - 1]) => ev.inertia <= prevIn[EvR] + SlT

TMulti ==
  /\ HasEv("multi") /\ Case.kind = "restart"
  /\ ~EvIsSingle /\ Ev.r = EvR /\ Ev.b = EvB
  /\ PreR(Ev)
  /\ ikeyPrev # <<>> => KeyLe(Ev.ikey, ikeyPrev)       \* more restarts never report a higher inertia
  /\ BestOf(Ev)
  /\ BudgetMonotone(Ev)
  /\ \E c4 \in {C4(Ev)} : \E np \in {NTab(PX, c4)} : \E nq \in {NTab(QS, c4)} :
       /\ DescribesNoCounts(Ev, np, nq)
       /\ \/ /\ NearCounts(Ev, np)
             /\ used' = used
          \/ /\ "counts_from_last_restart" \in Devs
             /\ ~NearCounts(Ev, np)
             /\ Ev.r > 1 /\ Determ
             /\ CountsWellFormed(Ev)
             /\ CountsVec(Ev) = singles[EvR].counts
             /\ used' = used \cup {"counts_from_last_restart"}
  /\ ikeyPrev' = Ev.ikey
  /\ curIn' = Append(curIn, Ev.inertia)
  /\ ei' = ei + 1
  /\ UNCHANGED <<cs, tt, cur, curTab, prevTab, lastA, stopped, ptr, singles, prevSingles, prevIn, hv, mvars>>

RestartDiag ==
  IF ~ShapeOk(Ev) THEN <<"shape/finite">>
  ELSE IF ~CenWithin(Ev, PX) THEN <<"box">>
  ELSE LET c4 == C4(Ev)
           np == NTab(PX, c4)
           nq == NTab(QS, c4)
       IN
       <<{nm \in {"labels", "query-labels", "transform", "query-transform", "inertia", "counts", "inertia-order",
                   "event-order", "best-of-restarts", "budget-monotone", "lloyd-step"} :
            CASE nm = "labels" -> ~NearLabels(Ev.lab, np)
              [] nm = "query-labels" -> ~(NearLabels(Ev.qlab, nq) /\ NearLabels(Ev.qlab1, nq))
              [] nm = "transform" -> ~NearTrans(Ev.trp, np)
              [] nm = "query-transform" -> ~NearTrans(Ev.qtrp, nq)
              [] nm = "inertia" -> ~NearInertia(Ev, np)
              [] nm = "counts" -> ~NearCounts(Ev, np)
              [] nm = "inertia-order" -> Ev.ev = "multi" /\ ikeyPrev # <<>> /\ ~KeyLe(Ev.ikey, ikeyPrev)
              [] nm = "event-order" -> ~(Ev.r = EvR /\ Ev.b = EvB /\ (EvIsSingle <=> Ev.ev = "single"))
              [] nm = "best-of-restarts" -> Ev.ev = "multi" /\ ~EvIsSingle /\ ~BestOf(Ev)
              [] nm = "budget-monotone" -> Ev.ev = "multi" /\ ~EvIsSingle /\ Len(prevIn) >= EvR /\ ~BudgetMonotone(Ev)
              [] nm = "lloyd-step" -> /\ Ev.ev = "single" /\ EvIsSingle /\ Determ /\ NextBudget
                                      /\ LET old == IF EvR = 1 THEN singles ELSE prevSingles IN
                                         Len(old) >= EvR /\ ~StepNear(old[EvR].cen, Ev.cen)}>>

-----------------------------------------------------------------------------
TEnd ==
  /\ HasEv("end")
  /\ ei = Len(Case.ev)
  /\ Case.kind = "traj" => tt = Len(In.ms) /\ hv.n = Len(In.hms)
  /\ Case.kind = "restart" => Len(Case.ev) = 2 * In.runs * Len(In.maxits) + 1
  /\ IF used = {} THEN Ok(Case.id) ELSE OkDev(Case.id, used)
  /\ ei' = ei + 1
  /\ UNCHANGED <<cs, tt, cur, curTab, prevTab, lastA, stopped, ptr, rvars, used, hv, mvars>>

Stuck ==
  /\ ei <= Len(Case.ev)
  /\ ~(ENABLED TFit \/ ENABLED TFitStay \/ ENABLED TFitHuge \/ ENABLED TSingle \/ ENABLED TMulti \/ ENABLED TEnd)
  /\ Fail(Case.id, <<ei, Ev.ev,
                     IF Ev.ev = "fit" /\ Case.kind = "traj" THEN FitDiag
                     ELSE IF Ev.ev = "fitx" /\ Case.kind = "traj" THEN HugeDiag
                     ELSE IF Ev.ev \in {"single", "multi"} /\ Case.kind = "restart" THEN RestartDiag
                     ELSE <<"unexplained event">>>>)
  /\ ei' = Len(Case.ev) + 2
  /\ UNCHANGED <<cs, tt, cur, curTab, prevTab, lastA, stopped, ptr, rvars, used, hv, mvars>>

\* the acceptance pass runs without Stuck (its ENABLED would evaluate every action twice); rejected
\* cases are re-run with TraceNext to obtain the FAIL diagnostics
TraceNextFast == TFit \/ TFitStay \/ TFitHuge \/ TSingle \/ TMulti \/ TEnd
TraceNext == TraceNextFast \/ Stuck
=============================================================================
