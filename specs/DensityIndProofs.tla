-------------------------- MODULE DensityIndProofs --------------------------
(***************************************************************************)
(* X08 (1, unbounded) -- TLAPS proof that IndInv of specs/DensityInd.tla   *)
(* (DBSCAN seed loop / search queue over an abstract neighbourhood         *)
(* relation) is inductive and implies Safety for an ARBITRARY number of    *)
(* points N \in Nat: every reflexive symmetric relation, every core set,   *)
(* every order in which the queue is served, any number of steps.          *)
(*   IndInit  Init => IndInv                                               *)
(*   IndStep  IndInv /\ [Next]_vars => IndInv'                             *)
(*   IndSafe  IndInv => Safety   (label written once, queued points        *)
(*            unlabelled and pushed once, only core points extend the      *)
(*            queue, InvGrow, InvLabels, and at termination clusters =     *)
(*            connected components of the core graph plus their borders,   *)
(*            labels 0..c-1 without gaps)                                  *)
(*   Correct  Spec => []Safety                                             *)
(* The Apalache runs of props/x08.py discharge the same three obligations  *)
(* per instance size N <= 6; this module removes the bound.  It is proved  *)
(* for the design Variant = "ok" (assumption VariantOk); props/x08.py      *)
(* re-runs the same script with the assumption replaced by a seeded design *)
(* bug, and it must then fail.                                             *)
(***************************************************************************)
EXTENDS DensityInd, TLAPS

ASSUME NNat == N \in Nat
ASSUME VariantOk == Variant = "ok"

THEOREM IndInit == Init => IndInv
  BY NNat, VariantOk DEF Init, IndInv, TypeOk, Reflexive, Symmetric, IControl, ILabels, IQueue, IOuter, IClusters, K, P, Closed

THEOREM IndSafe == IndInv => Safety
<1> SUFFICES ASSUME IndInv PROVE Safety
  OBVIOUS
<1> USE NNat
<1>t. /\ nb \in [P -> SUBSET P] /\ core \subseteq P /\ lab \in [P -> -1..N] /\ cur \in 0..N /\ queue \subseteq P
      /\ nlab \in [P -> 0..1] /\ npush \in [P -> 0..1] /\ oi \in 1..(N + 1)
  BY DEF IndInv, TypeOk
<1>1. InvLabelOnce /\ InvPushOnce /\ InvOnlyCoresExtend
  BY <1>t DEF IndInv, IQueue, InvLabelOnce, InvPushOnce, InvOnlyCoresExtend, P
<1>2. InvQueueUnlabelled
  BY DEF IndInv, IQueue, InvQueueUnlabelled
<1>3. InvLabels
  BY <1>t DEF IndInv, ILabels, K, InvLabels, P
<1>4. InvGrow
  <2> SUFFICES ASSUME pc = "grow" PROVE (\A i \in P : lab[i] <= cur) /\ (\A j \in queue : (lab[j] \in {-1, cur} /\ \E o \in nb[j] : lab[o] = cur /\ o \in core))
    BY DEF InvGrow
  <2>1. \A i \in P : lab[i] <= cur
    BY <1>t DEF IndInv, ILabels, K, P
  <2>2. \A j \in queue : lab[j] \in {-1, cur} /\ \E o \in nb[j] : lab[o] = cur /\ o \in core
    BY DEF IndInv, IQueue
  <2> QED BY <2>1, <2>2
<1>5. InvDone
  <2> SUFFICES ASSUME pc = "done" PROVE DoneOk
    BY DEF InvDone
  <2>0. oi = N + 1 /\ K = cur /\ queue = {}
    BY <1>t DEF IndInv, IControl, K
  <2>c. \A i \in core : i \in P /\ lab[i] >= 0
    BY <2>0, <1>t DEF IndInv, IOuter, P
  <2>1. DoneLabelled
    <3> SUFFICES ASSUME NEW i \in P PROVE (lab[i] >= 0) <=> (i \in core \/ nb[i] \cap core # {})
      BY DEF DoneLabelled
    <3>1. ASSUME lab[i] >= 0 PROVE i \in core \/ nb[i] \cap core # {}
      BY <3>1 DEF IndInv, IClusters
    <3>2. ASSUME i \in core PROVE lab[i] >= 0
      BY <3>2, <2>c
    <3>3. ASSUME nb[i] \cap core # {} PROVE lab[i] >= 0
      <4>1. PICK a \in nb[i] \cap core : TRUE
        BY <3>3
      <4>2. a \in P /\ lab[a] >= 0 /\ i \in nb[a]
        BY <4>1, <2>c DEF IndInv, Symmetric
      <4>3. lab[i] >= 0 \/ (pc = "grow" /\ lab[a] = cur /\ i \in queue)
        BY <4>1, <4>2 DEF IndInv, IClusters
      <4> QED BY <4>3
    <3> QED BY <3>1, <3>2, <3>3
  <2>2. DoneComponents
    <3> SUFFICES ASSUME NEW a \in core, NEW b \in core PROVE (lab[a] = lab[b]) <=> Conn(a, b)
      BY DEF DoneComponents
    <3>1. ASSUME lab[a] = lab[b] PROVE Conn(a, b)
      BY <3>1, <2>c DEF Conn, IndInv, IClusters
    <3>2. ASSUME Conn(a, b) PROVE lab[a] = lab[b]
      <4> DEFINE S0 == {c \in P : c \in core /\ lab[c] = lab[a]}
      <4>1. S0 \in SUBSET P /\ a \in S0
        BY <2>c
      <4>2. Closed(S0)
        <5> SUFFICES ASSUME NEW x \in S0 \cap core, NEW y \in nb[x] \cap core PROVE y \in S0
          BY DEF Closed
        <5>1. lab[x] >= 0 /\ lab[y] >= 0 /\ y \in P /\ lab[x] = lab[a]
          BY <2>c
        <5>2. lab[x] = lab[y]
          BY <5>1 DEF IndInv, IClusters
        <5> QED BY <5>1, <5>2
      <4>3. b \in S0
        BY <3>2, <4>1, <4>2 DEF Conn
      <4> QED BY <4>3
    <3> QED BY <3>1, <3>2
  <2>3. DoneBorder
    BY <1>t DEF DoneBorder, IndInv, IClusters
  <2>4. DoneNoGaps
    <3>1. \A i \in P : lab[i] >= -1 /\ lab[i] < cur
      BY <2>0, <1>t DEF IndInv, ILabels, P
    <3>2. \A l \in 0..N : l < cur => \E i \in P : lab[i] = l
      BY <2>0, <1>t DEF IndInv, ILabels
    <3> QED BY <3>1, <3>2 DEF DoneNoGaps
  <2> QED BY <2>1, <2>2, <2>3, <2>4 DEF DoneOk
<1> QED BY <1>1, <1>2, <1>3, <1>4, <1>5 DEF Safety

THEOREM IndStep == IndInv /\ [Next]_vars => IndInv'
<1> SUFFICES ASSUME IndInv, [Next]_vars PROVE IndInv'
  OBVIOUS
<1> USE NNat, VariantOk
<1>1. CASE DSkip
  <2>0. /\ pc = "outer" /\ oi \in 1..N /\ (lab[oi] >= 0 \/ oi \notin core) /\ oi' = oi + 1 /\ pc' = pc
        /\ nb' = nb /\ core' = core /\ lab' = lab /\ cur' = cur /\ queue' = queue /\ nlab' = nlab /\ npush' = npush /\ ext' = ext
        /\ cur \in 0..N /\ cur < oi /\ K' = K
    BY <1>1 DEF DSkip, SeedOk, IndInv, TypeOk, IControl, K
  <2>1. TypeOk'
    BY <2>0 DEF IndInv, TypeOk
  <2>2. Reflexive' /\ Symmetric'
    BY <2>0 DEF IndInv, Reflexive, Symmetric
  <2>3. IControl'
    BY <2>0 DEF IndInv, TypeOk, IControl
  <2>4. ILabels'
    BY <2>0 DEF IndInv, ILabels
  <2>5. IQueue'
    BY <2>0 DEF IndInv, IQueue
  <2>6. IOuter'
    BY <2>0 DEF IndInv, TypeOk, IOuter, P
  <2>7. IClusters'
    BY <2>0 DEF IndInv, IClusters, Closed
  <2> QED
    BY <2>1, <2>2, <2>3, <2>4, <2>5, <2>6, <2>7 DEF IndInv
<1>4. CASE DClose
  <2>0. /\ pc = "grow" /\ queue = {} /\ cur' = cur + 1 /\ oi' = oi + 1 /\ pc' = "outer"
        /\ nb' = nb /\ core' = core /\ lab' = lab /\ queue' = queue /\ nlab' = nlab /\ npush' = npush /\ ext' = ext
        /\ oi \in 1..N /\ oi \in core /\ lab[oi] = cur /\ cur \in 0..N /\ cur < oi /\ K = cur + 1 /\ K' = cur + 1
    BY <1>4 DEF DClose, IndInv, TypeOk, IControl, K
  <2>1. TypeOk'
    BY <2>0 DEF IndInv, TypeOk
  <2>2. Reflexive' /\ Symmetric'
    BY <2>0 DEF IndInv, Reflexive, Symmetric
  <2>3. IControl'
    BY <2>0 DEF IndInv, TypeOk, IControl
  <2>4. ILabels'
    BY <2>0 DEF IndInv, TypeOk, ILabels
  <2>5. IQueue'
    BY <2>0 DEF IndInv, IQueue
  <2>6. IOuter'
    BY <2>0 DEF IndInv, TypeOk, IOuter, P
  <2>7. IClusters'
    BY <2>0 DEF IndInv, IClusters, Closed
  <2> QED
    BY <2>1, <2>2, <2>3, <2>4, <2>5, <2>6, <2>7 DEF IndInv
<1>5. CASE Done
  BY <1>5 DEF Done, IndInv, TypeOk, Reflexive, Symmetric, IControl, ILabels, IQueue, IOuter, IClusters, K, P, Closed
<1>6. CASE UNCHANGED vars
  BY <1>6 DEF vars, IndInv, TypeOk, Reflexive, Symmetric, IControl, ILabels, IQueue, IOuter, IClusters, K, P, Closed
<1>2. CASE DSeed
  <2> DEFINE qN == {j \in nb[oi] : j # oi /\ lab[j] < 0}
  <2>0. /\ pc = "outer" /\ oi \in P /\ lab[oi] < 0 /\ oi \in core
        /\ lab' = [lab EXCEPT ![oi] = cur] /\ queue' = qN /\ pc' = "grow"
        /\ nb' = nb /\ core' = core /\ oi' = oi /\ cur' = cur
        /\ nlab' = [i \in P |-> nlab[i] + (IF lab'[i] # lab[i] THEN 1 ELSE 0)]
        /\ npush' = [i \in P |-> npush[i] + (IF i \in qN /\ i \notin queue THEN 1 ELSE 0)]
        /\ ext' = IF \E j \in qN : j \notin queue THEN ext \cup {oi} ELSE ext
        /\ queue = {}
    BY <1>2 DEF DSeed, Hist, SeedOk, Fresh, IndInv, TypeOk, IControl, P
  <2>a. \A i \in P : lab'[i] = (IF i = oi THEN cur ELSE lab[i])
    BY <2>0 DEF IndInv, TypeOk, P
  <2>b. \A i \in P : nlab'[i] = nlab[i] + (IF lab'[i] # lab[i] THEN 1 ELSE 0)
    BY <2>0
  <2>c. \A i \in P : npush'[i] = npush[i] + (IF i \in qN THEN 1 ELSE 0)
    BY <2>0
  <2>d. qN \subseteq P /\ \A j \in qN : lab[j] < 0 /\ j # oi /\ j \in nb[oi] /\ npush[j] = 0
    <3>1. nb[oi] \subseteq P
      BY <2>0 DEF IndInv, TypeOk, P
    <3>2. ASSUME NEW j \in qN PROVE npush[j] = 0
      <4>1. j \in P /\ lab[j] < 0 /\ j \notin queue
        BY <3>1, <2>0
      <4>2. npush[j] \in 0..1
        BY <4>1 DEF IndInv, TypeOk
      <4>3. npush[j] # 1
        BY <4>1 DEF IndInv, IQueue, TypeOk
      <4> QED BY <4>2, <4>3
    <3> QED BY <3>1, <3>2
  <2>e. cur \in 0..N /\ cur < oi /\ \A i \in P : lab[i] < cur
    BY <2>0 DEF IndInv, TypeOk, IControl, ILabels, K, P
  <2>1. TypeOk'
    <3>1. nb' \in [P -> SUBSET P] /\ core' \in SUBSET P /\ pc' \in {"outer", "grow", "done"} /\ oi' \in 1..(N + 1) /\ cur' \in 0..N
      BY <2>0 DEF IndInv, TypeOk
    <3>2. lab' \in [P -> -1..N]
      BY <2>0, <2>e DEF IndInv, TypeOk
    <3>3. queue' \in SUBSET P
      BY <2>0, <2>d
    <3>4. nlab' \in [P -> 0..1]
      <4>1. ASSUME NEW i \in P PROVE nlab[i] + (IF lab'[i] # lab[i] THEN 1 ELSE 0) \in 0..1
        <5>1. nlab[i] \in 0..1 /\ nlab[i] = (IF lab[i] >= 0 THEN 1 ELSE 0) /\ lab[i] \in -1..N
          BY DEF IndInv, TypeOk, ILabels
        <5>2. lab'[i] # lab[i] => lab[i] < 0
          BY <2>a, <2>0
        <5> QED BY <5>1, <5>2
      <4> QED BY <4>1, <2>0
    <3>5. npush' \in [P -> 0..1]
      <4>1. ASSUME NEW i \in P PROVE npush[i] + (IF i \in qN /\ i \notin queue THEN 1 ELSE 0) \in 0..1
        <5>1. npush[i] \in 0..1
          BY DEF IndInv, TypeOk
        <5>2. i \in qN => npush[i] = 0
          BY <2>d
        <5> QED BY <5>1, <5>2
      <4> QED BY <4>1, <2>0
    <3>6. ext' \in SUBSET P
      BY <2>0 DEF IndInv, TypeOk
    <3> QED BY <3>1, <3>2, <3>3, <3>4, <3>5, <3>6 DEF TypeOk, P
  <2>2. Reflexive' /\ Symmetric'
    BY <1>2 DEF DSeed, DPop, Hist, SeedOk, Fresh, IndInv, TypeOk, Reflexive, Symmetric, IControl, ILabels, IQueue, IOuter, IClusters, K, P, Closed
  <2>3. IControl'
    BY <1>2 DEF DSeed, DPop, Hist, SeedOk, Fresh, IndInv, TypeOk, Reflexive, Symmetric, IControl, ILabels, IQueue, IOuter, IClusters, K, P, Closed
  <2>4. ILabels'
    <3>1. \A i \in P : lab'[i] < K'
      <4>1. K' = cur + 1
        BY <2>0, <2>e DEF K
      <4>2. \A i \in P : lab[i] \in Int
        BY DEF IndInv, TypeOk
      <4> QED BY <4>1, <4>2, <2>a, <2>e
    <3>2. \A l \in 0..N : l < K' => \E i \in core' : lab'[i] = l
      BY <2>0, <2>a, <2>e DEF K, IndInv, TypeOk, ILabels, P
    <3>3. \A i \in P : nlab'[i] = (IF lab'[i] >= 0 THEN 1 ELSE 0)
      BY <2>0, <2>a, <2>b, <2>e DEF IndInv, TypeOk, ILabels, P
    <3> QED BY <3>1, <3>2, <3>3 DEF ILabels, P
  <2>5. IQueue'
    <3>1. \A j \in queue' : lab'[j] = -1 /\ npush'[j] = 1 /\ \E o \in nb'[j] : o \in core' /\ lab'[o] = cur'
      <4> SUFFICES ASSUME NEW j \in qN PROVE lab'[j] = -1 /\ npush'[j] = 1 /\ \E o \in nb[j] : o \in core /\ lab'[o] = cur
        BY <2>0
      <4>0. j \in P /\ lab[j] < 0 /\ j # oi /\ j \in nb[oi] /\ npush[j] = 0
        BY <2>d
      <4>1. lab'[j] = -1
        BY <4>0, <2>a DEF IndInv, TypeOk
      <4>2. npush'[j] = 1
        BY <4>0, <2>c
      <4>3. oi \in nb[j] /\ oi \in core /\ lab'[oi] = cur
        BY <4>0, <2>0, <2>a DEF IndInv, Symmetric
      <4> QED BY <4>1, <4>2, <4>3
    <3>2. \A j \in P : (npush'[j] = 1 /\ j \notin queue') => lab'[j] >= 0
      BY <2>0, <2>a, <2>c, <2>d, <2>e DEF IndInv, TypeOk, IQueue, P
    <3>3. ext' \subseteq core'
      BY <2>0 DEF IndInv, IQueue
    <3> QED BY <3>1, <3>2, <3>3 DEF IQueue, P
  <2>6. IOuter'
    BY <1>2 DEF DSeed, DPop, Hist, SeedOk, Fresh, IndInv, TypeOk, Reflexive, Symmetric, IControl, ILabels, IQueue, IOuter, IClusters, K, P, Closed
  <2>7. IClusters'
    <3>1. \A i \in P : (lab'[i] >= 0 /\ i \notin core') => \E o \in nb'[i] : o \in core' /\ lab'[o] = lab'[i]
      BY <2>0, <2>a DEF IndInv, TypeOk, IClusters, P
    <3>2. \A a \in core' : lab'[a] >= 0 => \A j \in nb'[a] : lab'[j] >= 0 \/ (pc' = "grow" /\ lab'[a] = cur' /\ j \in queue')
      BY <2>0, <2>a, <2>e DEF IndInv, TypeOk, IClusters, P
    <3>3. \A a \in core' : \A b \in nb'[a] : (b \in core' /\ lab'[a] >= 0 /\ lab'[b] >= 0) => lab'[a] = lab'[b]
      BY <2>0, <2>a, <2>e DEF IndInv, TypeOk, IClusters, Symmetric, P
    <3>4. \A S \in SUBSET P : Closed(S)' => \A a \in core' : \A b \in core' : (lab'[a] >= 0 /\ lab'[a] = lab'[b] /\ a \in S) => b \in S
      BY <2>0, <2>a, <2>e DEF IndInv, TypeOk, IClusters, Closed, P
    <3> QED BY <3>1, <3>2, <3>3, <3>4 DEF IClusters, P
  <2> QED
    BY <2>1, <2>2, <2>3, <2>4, <2>5, <2>6, <2>7 DEF IndInv
<1>3. CASE DPop
  <2>p. PICK cand \in queue :
          LET labN == [lab EXCEPT ![cand] = cur]
              queueN == (queue \ {cand}) \cup (IF cand \in core \/ Variant = "noncore_extends" THEN Fresh(cand) ELSE {})
          IN /\ lab' = labN /\ queue' = queueN /\ Hist(cand, labN, queueN)
    BY <1>3 DEF DPop
  <2> DEFINE fr == {j \in nb[cand] : j # cand /\ lab[j] < 0}
  <2> DEFINE qN == (queue \ {cand}) \cup (IF cand \in core THEN fr ELSE {})
  <2>0. /\ pc = "grow" /\ cand \in P /\ cand \in queue /\ lab[cand] = -1 /\ npush[cand] = 1
        /\ lab' = [lab EXCEPT ![cand] = cur] /\ queue' = qN /\ pc' = "grow"
        /\ nb' = nb /\ core' = core /\ oi' = oi /\ cur' = cur
        /\ nlab' = [i \in P |-> nlab[i] + (IF lab'[i] # lab[i] THEN 1 ELSE 0)]
        /\ npush' = [i \in P |-> npush[i] + (IF i \in qN /\ i \notin queue THEN 1 ELSE 0)]
        /\ ext' = IF \E j \in qN : j \notin queue THEN ext \cup {cand} ELSE ext
    BY <1>3, <2>p DEF DPop, Hist, Fresh, IndInv, TypeOk, IQueue, P
  <2>w. PICK o \in nb[cand] : o \in core /\ lab[o] = cur
    BY <2>0 DEF IndInv, IQueue
  <2>a. \A i \in P : lab'[i] = (IF i = cand THEN cur ELSE lab[i])
    BY <2>0 DEF IndInv, TypeOk, P
  <2>b. \A i \in P : nlab'[i] = nlab[i] + (IF lab'[i] # lab[i] THEN 1 ELSE 0)
    BY <2>0
  <2>c. \A i \in P : npush'[i] = npush[i] + (IF i \in qN /\ i \notin queue THEN 1 ELSE 0)
    BY <2>0
  <2>e. /\ cur \in 0..N /\ \A i \in P : lab[i] \in -1..N /\ lab[i] < cur + 1
        /\ oi \in P /\ oi \in core /\ lab[oi] = cur /\ K = cur + 1 /\ K' = cur + 1
        /\ nb \in [P -> SUBSET P] /\ queue \subseteq P /\ o \in P /\ o # cand /\ cand \in nb[o]
    BY <2>0, <2>w DEF IndInv, TypeOk, IControl, ILabels, Symmetric, K, P
  <2>d. qN \subseteq P /\ \A j \in qN : (lab[j] = -1 /\ j # cand /\ (j \in queue \/ (cand \in core /\ j \in nb[cand] /\ j \notin queue /\ npush[j] = 0)))
    <3>1. fr \subseteq P
      BY <2>0, <2>e
    <3>2. ASSUME NEW j \in qN PROVE (lab[j] = -1 /\ j # cand /\ (j \in queue \/ (cand \in core /\ j \in nb[cand] /\ j \notin queue /\ npush[j] = 0)))
      <4>1. CASE j \in queue
        BY <4>1 DEF IndInv, IQueue
      <4>2. CASE j \notin queue
        <5>1. cand \in core /\ j \in fr /\ j \in P
          BY <4>2, <3>1
        <5>2. lab[j] \in -1..N /\ lab[j] < 0 /\ npush[j] \in 0..1
          BY <5>1, <2>e DEF IndInv, TypeOk
        <5>3. npush[j] # 1
          BY <5>1, <5>2, <4>2 DEF IndInv, IQueue
        <5> QED BY <5>1, <5>2, <5>3, <4>2
      <4> QED BY <4>1, <4>2
    <3> QED BY <3>1, <3>2, <2>e
  <2>1. TypeOk'
    <3>1. nb' \in [P -> SUBSET P] /\ core' \in SUBSET P /\ pc' \in {"outer", "grow", "done"} /\ oi' \in 1..(N + 1) /\ cur' \in 0..N
      BY <2>0 DEF IndInv, TypeOk
    <3>2. lab' \in [P -> -1..N]
      BY <2>0, <2>e DEF IndInv, TypeOk
    <3>3. queue' \in SUBSET P
      BY <2>0, <2>d
    <3>4. nlab' \in [P -> 0..1]
      <4>1. ASSUME NEW i \in P PROVE nlab[i] + (IF lab'[i] # lab[i] THEN 1 ELSE 0) \in 0..1
        <5>1. nlab[i] \in 0..1 /\ nlab[i] = (IF lab[i] >= 0 THEN 1 ELSE 0) /\ lab[i] \in -1..N
          BY DEF IndInv, TypeOk, ILabels
        <5>2. lab'[i] # lab[i] => lab[i] < 0
          BY <2>a, <2>0
        <5> QED BY <5>1, <5>2
      <4> QED BY <4>1, <2>0
    <3>5. npush' \in [P -> 0..1]
      <4>1. ASSUME NEW i \in P PROVE npush[i] + (IF i \in qN /\ i \notin queue THEN 1 ELSE 0) \in 0..1
        <5>1. npush[i] \in 0..1
          BY DEF IndInv, TypeOk
        <5>2. (i \in qN /\ i \notin queue) => npush[i] = 0
          BY <2>d
        <5> QED BY <5>1, <5>2
      <4> QED BY <4>1, <2>0
    <3>6. ext' \in SUBSET P
      BY <2>0 DEF IndInv, TypeOk
    <3> QED BY <3>1, <3>2, <3>3, <3>4, <3>5, <3>6 DEF TypeOk, P
  <2>2. Reflexive' /\ Symmetric'
    BY <2>0 DEF IndInv, Reflexive, Symmetric, P
  <2>3. IControl'
    BY <2>0, <2>a, <2>e DEF IndInv, TypeOk, IControl, P
  <2>4. ILabels'
    <3>1. \A i \in P : lab'[i] < K'
      BY <2>a, <2>e
    <3>2. \A l \in 0..N : l < K' => \E i \in core' : lab'[i] = l
      <4> SUFFICES ASSUME NEW l \in 0..N, l < cur + 1 PROVE \E i \in core : lab'[i] = l
        BY <2>0, <2>e
      <4>1. PICK i \in core : lab[i] = l
        BY <2>e DEF IndInv, ILabels
      <4>2. i \in P /\ i # cand
        BY <4>1, <2>0 DEF IndInv, TypeOk
      <4> QED BY <4>1, <4>2, <2>a
    <3>3. \A i \in P : nlab'[i] = (IF lab'[i] >= 0 THEN 1 ELSE 0)
      BY <2>0, <2>a, <2>b, <2>e DEF IndInv, TypeOk, ILabels, P
    <3> QED BY <3>1, <3>2, <3>3 DEF ILabels, P
  <2>5. IQueue'
    <3>1. \A j \in queue' : lab'[j] = -1 /\ npush'[j] = 1 /\ \E o2 \in nb'[j] : o2 \in core' /\ lab'[o2] = cur'
      <4> SUFFICES ASSUME NEW j \in qN PROVE lab'[j] = -1 /\ npush'[j] = 1 /\ \E o2 \in nb[j] : o2 \in core /\ lab'[o2] = cur
        BY <2>0
      <4>0. j \in P /\ lab[j] = -1 /\ j # cand /\ (j \in queue \/ (cand \in core /\ j \in nb[cand] /\ j \notin queue /\ npush[j] = 0))
        <5>1. j \in P
          BY <2>d
        <5>2. lab[j] = -1 /\ j # cand
          BY <2>d
        <5>3. j \in queue \/ (cand \in core /\ j \in nb[cand] /\ j \notin queue /\ npush[j] = 0)
          BY <2>d
        <5> QED BY <5>1, <5>2, <5>3
      <4>1. lab'[j] = -1
        BY <4>0, <2>a
      <4>2. npush'[j] = 1
        <5>1. CASE j \in queue
          BY <5>1, <4>0, <2>c DEF IndInv, IQueue, TypeOk
        <5>2. CASE j \notin queue
          BY <5>2, <4>0, <2>c
        <5> QED BY <5>1, <5>2
      <4>3. \E o2 \in nb[j] : o2 \in core /\ lab'[o2] = cur
        <5>1. CASE j \in queue
          <6>1. PICK o2 \in nb[j] : o2 \in core /\ lab[o2] = cur
            BY <5>1 DEF IndInv, IQueue
          <6>2. o2 \in P /\ o2 # cand
            BY <6>1, <4>0, <2>0, <2>e
          <6> QED BY <6>1, <6>2, <2>a
        <5>2. CASE j \notin queue
          <6>1. cand \in nb[j] /\ cand \in core
            BY <5>2, <4>0, <2>0 DEF IndInv, Symmetric
          <6> QED BY <6>1, <2>a, <2>0
        <5> QED BY <5>1, <5>2
      <4> QED BY <4>1, <4>2, <4>3
    <3>2. \A j \in P : (npush'[j] = 1 /\ j \notin queue') => lab'[j] >= 0
      <4> SUFFICES ASSUME NEW j \in P, npush'[j] = 1, j \notin qN PROVE lab'[j] >= 0
        BY <2>0
      <4>1. CASE j = cand
        BY <4>1, <2>a, <2>e
      <4>2. CASE j # cand
        <5>1. j \notin queue
          BY <4>2
        <5>2. npush[j] = 1
          BY <2>c, <5>1 DEF IndInv, TypeOk
        <5>3. lab[j] >= 0
          BY <5>1, <5>2 DEF IndInv, IQueue
        <5> QED BY <5>3, <4>2, <2>a
      <4> QED BY <4>1, <4>2
    <3>3. ext' \subseteq core'
      BY <2>0, <2>d DEF IndInv, IQueue
    <3> QED BY <3>1, <3>2, <3>3 DEF IQueue, P
  <2>6. IOuter'
    BY <2>0, <2>a, <2>e DEF IndInv, IOuter, P
  <2>7. IClusters'
    <3>1. \A i \in P : (lab'[i] >= 0 /\ i \notin core') => \E o2 \in nb'[i] : o2 \in core' /\ lab'[o2] = lab'[i]
      <4> SUFFICES ASSUME NEW i \in P, lab'[i] >= 0, i \notin core PROVE \E o2 \in nb[i] : o2 \in core /\ lab'[o2] = lab'[i]
        BY <2>0
      <4>1. CASE i = cand
        BY <4>1, <2>w, <2>a, <2>e
      <4>2. CASE i # cand
        <5>1. lab[i] >= 0 /\ lab'[i] = lab[i]
          BY <4>2, <2>a
        <5>2. PICK o2 \in nb[i] : o2 \in core /\ lab[o2] = lab[i]
          BY <5>1 DEF IndInv, IClusters
        <5>3. o2 \in P /\ o2 # cand
          BY <5>2, <5>1, <2>0, <2>e
        <5> QED BY <5>1, <5>2, <5>3, <2>a
      <4> QED BY <4>1, <4>2
    <3>2. \A a \in core' : lab'[a] >= 0 => \A j \in nb'[a] : lab'[j] >= 0 \/ (pc' = "grow" /\ lab'[a] = cur' /\ j \in queue')
      <4> SUFFICES ASSUME NEW a \in core, lab'[a] >= 0, NEW j \in nb[a] PROVE lab'[j] >= 0 \/ (lab'[a] = cur /\ j \in qN)
        BY <2>0
      <4>0. a \in P /\ j \in P
        BY <2>e DEF IndInv, TypeOk
      <4>1. CASE a = cand
        <5>1. CASE j = cand
          BY <5>1, <2>a, <2>e
        <5>2. CASE j # cand /\ lab[j] >= 0
          BY <5>2, <4>0, <2>a
        <5>3. CASE j # cand /\ ~(lab[j] >= 0)
          <6>1. lab[j] < 0
            BY <5>3, <4>0, <2>e
          <6>2. j \in fr
            BY <6>1, <5>3, <4>1
          <6> QED BY <6>2, <4>1, <2>a, <2>0
        <5> QED BY <5>1, <5>2, <5>3
      <4>2. CASE a # cand
        <5>1. lab[a] >= 0 /\ lab'[a] = lab[a]
          BY <4>2, <4>0, <2>a
        <5>2. lab[j] >= 0 \/ (lab[a] = cur /\ j \in queue)
          BY <5>1, <2>0 DEF IndInv, IClusters
        <5>3. CASE lab[j] >= 0
          BY <5>3, <4>0, <2>a, <2>0
        <5>4. CASE lab[a] = cur /\ j \in queue
          BY <5>4, <5>1, <4>0, <2>a, <2>e
        <5> QED BY <5>2, <5>3, <5>4
      <4> QED BY <4>1, <4>2
    <3>3. \A a \in core' : \A b \in nb'[a] : (b \in core' /\ lab'[a] >= 0 /\ lab'[b] >= 0) => lab'[a] = lab'[b]
      <4> SUFFICES ASSUME NEW a \in core, NEW b \in nb[a], b \in core, lab'[a] >= 0, lab'[b] >= 0 PROVE lab'[a] = lab'[b]
        BY <2>0
      <4>0. a \in P /\ b \in P /\ a \in nb[b]
        BY <2>e DEF IndInv, TypeOk, Symmetric
      <4>1. CASE a # cand /\ b # cand
        BY <4>1, <4>0, <2>a DEF IndInv, IClusters
      <4>2. CASE a = cand /\ b # cand
        <5>1. lab[b] >= 0 /\ lab'[b] = lab[b]
          BY <4>2, <4>0, <2>a
        <5>2. lab[cand] >= 0 \/ (lab[b] = cur /\ cand \in queue)
          BY <5>1, <4>0, <4>2, <2>0 DEF IndInv, IClusters
        <5> QED BY <5>1, <5>2, <4>2, <2>0, <2>a
      <4>3. CASE b = cand /\ a # cand
        <5>1. lab[a] >= 0 /\ lab'[a] = lab[a]
          BY <4>3, <4>0, <2>a
        <5>2. lab[cand] >= 0 \/ (lab[a] = cur /\ cand \in queue)
          BY <5>1, <4>0, <4>3, <2>0 DEF IndInv, IClusters
        <5> QED BY <5>1, <5>2, <4>3, <2>0, <2>a
      <4>4. CASE a = cand /\ b = cand
        BY <4>4
      <4> QED BY <4>1, <4>2, <4>3, <4>4
    <3>4. \A S \in SUBSET P : Closed(S)' => \A a \in core' : \A b \in core' : (lab'[a] >= 0 /\ lab'[a] = lab'[b] /\ a \in S) => b \in S
      <4> SUFFICES ASSUME NEW S \in SUBSET P, Closed(S), NEW a \in core, NEW b \in core, lab'[a] >= 0, lab'[a] = lab'[b], a \in S PROVE b \in S
        BY <2>0 DEF Closed
      <4>0. a \in P /\ b \in P
        BY DEF IndInv, TypeOk
      <4>old. \A x \in core : \A y \in core : (lab[x] >= 0 /\ lab[x] = lab[y] /\ x \in S) => y \in S
        BY DEF IndInv, IClusters
      <4>1. CASE a # cand /\ b # cand
        BY <4>1, <4>0, <4>old, <2>a
      <4>2. CASE a = cand /\ b # cand
        <5>1. o \in S
          BY <4>2, <2>w DEF Closed
        <5>2. lab[b] = cur /\ lab[o] = cur /\ cur >= 0
          BY <4>2, <4>0, <2>a, <2>w, <2>e
        <5> QED BY <5>1, <5>2, <4>old, <2>w
      <4>3. CASE b = cand /\ a # cand
        <5>1. lab[a] = cur /\ lab[o] = cur /\ cur >= 0
          BY <4>3, <4>0, <2>a, <2>w, <2>e
        <5>2. o \in S
          BY <5>1, <4>old, <2>w
        <5> QED BY <5>2, <4>3, <2>e, <2>w DEF Closed
      <4>4. CASE a = cand /\ b = cand
        BY <4>4
      <4> QED BY <4>1, <4>2, <4>3, <4>4
    <3> QED BY <3>1, <3>2, <3>3, <3>4 DEF IClusters, P
  <2> QED
    BY <2>1, <2>2, <2>3, <2>4, <2>5, <2>6, <2>7 DEF IndInv
<1> QED
  BY <1>1, <1>2, <1>3, <1>4, <1>5, <1>6 DEF Next
THEOREM Correct == Spec => []Safety
<1>1. Init => IndInv
  BY IndInit
<1>2. IndInv /\ [Next]_vars => IndInv'
  BY IndStep
<1>3. IndInv => Safety
  BY IndSafe
<1> QED
  BY <1>1, <1>2, <1>3, PTL DEF Spec
=============================================================================
