--------------------------------- MODULE Geo ---------------------------------
(* Lattice geometry: order-equivalent integer forms of the distances of linfa-nn.  *)
EXTENDS Fx

AbsDiff(p, q) == [d \in 1..Len(p) |-> Abs(p[d] - q[d])]
L1(p, q)    == SumSeq(AbsDiff(p, q))
L2sq(p, q)  == SumSeq([d \in 1..Len(p) |-> (p[d] - q[d]) * (p[d] - q[d])])
Linf(p, q)  == IF Len(p) = 0 THEN 0 ELSE MaxSeq(AbsDiff(p, q))
Lp3(p, q)   == SumSeq([d \in 1..Len(p) |-> Abs(p[d] - q[d]) * Abs(p[d] - q[d]) * Abs(p[d] - q[d])])

\* order-equivalent "reduced" distance for a metric name ; L2 -> squared, Lp(3) -> sum of cubes
RDist(metric, p, q) ==
  CASE metric = "l1" -> L1(p, q)
    [] metric = "l2" -> L2sq(p, q)
    [] metric = "linf" -> Linf(p, q)
    [] metric = "lp3" -> Lp3(p, q)

\* a true-distance threshold r (integer) in reduced form
RThresh(metric, r) ==
  CASE metric = "l1" -> r
    [] metric = "l2" -> r * r
    [] metric = "linf" -> r
    [] metric = "lp3" -> r * r * r

\* sorted (ascending) sequence of the values of a finite multiset given as a sequence
RECURSIVE SortSeq(_)
SortSeq(s) ==
  IF s = <<>> THEN <<>>
  ELSE LET m == MinSeq(s)
           ix == CHOOSE q \in DOMAIN s : s[q] = m
           rest == [q \in 1..(Len(s) - 1) |-> IF q < ix THEN s[q] ELSE s[q + 1]]
       IN <<m>> \o SortSeq(rest)
KthSmallest(s, kk) == SortSeq(s)[kk]
=============================================================================
