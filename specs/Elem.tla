-------------------------------- MODULE Elem --------------------------------
(* Elementary functions on fixed-point arguments, S = 10^4, by table + linear interpolation.  *)
(* x, z, v are integers meaning x/S.  Stated accuracy (checked by MC_Elem): every function is  *)
(* within ElemErr units (at S) of the real function on its domain.                              *)
EXTENDS Fx, ElemTables

ES == 10000
ElemErr == 2

\* exp(-x/S) * S for x >= 0 ; 0 beyond 16.0 (exp(-16) S < 0.002)
ExpNeg(x) ==
  IF x >= 160000 THEN 0
  ELSE LET q == x \div 100  r == x % 100
           a == ExpNegT[q + 1]  b == ExpNegT[q + 2]
       IN a - RoundDiv((a - b) * r, 100)

\* exp(x/S) * S for 0 <= x <= 3 S (values <= 200 855)
ExpPos(x) ==
  LET q == x \div 100  r == x % 100
      a == ExpPosT[q + 1]  b == IF q + 2 <= Len(ExpPosT) THEN ExpPosT[q + 2] ELSE a
  IN a + RoundDiv((b - a) * r, 100)

Exp(x) == IF x <= 0 THEN ExpNeg(-x) ELSE ExpPos(x)      \* x <= 3 S

\* logistic function S/(1+exp(-z/S)), stable form
Sigmoid(z) ==
  IF z >= 0 THEN RoundDiv(ES * ES, ES + ExpNeg(z))
  ELSE ES - RoundDiv(ES * ES, ES + ExpNeg(-z))

\* ln of a positive integer 1..1024, times S
LnInt(kk) == LnIntT[kk]
\* ln(a/b) * S for integers a, b in 1..1024
LnRat(a, b) == LnInt(a) - LnInt(b)

\* ln(v/S) * S for a fixed-point v >= 1 : v = m * 2^sh with m in [S, 2S) ; mantissa table + interpolation
Ln2S == 6931
RECURSIVE LnFxUp(_, _)
LnFxUp(v, acc) ==      \* v >= S
  IF v >= 2 * ES THEN LnFxUp(v \div 2, acc + Ln2S) \* dropping one bit: relative error <= 1/(2S)
  ELSE LET d == v - ES           \* 0 .. S-1 ; table step S/1000 = 10
           q == d \div 10  r == d % 10
           a == LnMantT[q + 1]  b == LnMantT[q + 2]
       IN acc + a + RoundDiv((b - a) * r, 10)
RECURSIVE LnFxDown(_, _)
LnFxDown(v, acc) ==    \* 1 <= v < S
  IF v < ES THEN LnFxDown(2 * v, acc - Ln2S) ELSE LnFxUp(v, acc)
LnFx(v) == IF v >= ES THEN LnFxUp(v, 0) ELSE LnFxDown(v, 0)    \* accuracy ~ (2 + #halvings) units for v >= S

\* log2(v/S) * S
Log2Fx(v) == RoundDiv(LnFx(v) * ES, Ln2S)
=============================================================================
