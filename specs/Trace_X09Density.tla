------------------------- MODULE Trace_X09Density -------------------------
(***************************************************************************)
(* X09 trace validation of DBSCAN and OPTICS, step by step.                *)
(*                                                                         *)
(* One case = one run of one algorithm on one neighbour index with the     *)
(* hooks dbscan.step / optics.step switched on.  The recorded events are   *)
(* replayed against the ACTIONS of the design model Density.tla: the       *)
(* abstract state (labels, cluster id, search queue; processed set,        *)
(* reachabilities, seed list, output list) starts in the model's initial   *)
(* state for the case's input, every event must be an enabled action of    *)
(* the model in the current abstract state, its logged fields must have    *)
(* the values the model gives them (X09Density: SkipFields .. OPopFields), *)
(* the step invariants of X09Density must hold after the step (StepInv'),  *)
(* and what the public API finally returned must be the model's final      *)
(* state (labels = lab, ordering = ord).                                   *)
(*                                                                         *)
(* Not prescribed: the order in which the queue is served (the model's     *)
(* queue is a set: any member may be popped), the order of the pushes of   *)
(* one step, which of several minimum-reachability seeds is popped.        *)
(* Boundary convention (is a point exactly on the radius a neighbour):     *)
(* inferred once per case, as in Trace_Density.                            *)
(*                                                                         *)
(* A tree without the hooks (In.hook = 0) yields only the final event; the *)
(* step clauses are skipped then and the result is checked against the     *)
(* relations DbscanOk / OpticsOk (+ OpReachMin), acceptance is tagged      *)
(* "nohook".  With In.hook = 1 a run without step events is rejected.      *)
(***************************************************************************)
EXTENDS X09Density, TraceIO

CONSTANT Devs      \* named deviations (known findings) -- none for X09

VARIABLES c, e     \* case and event cursor

Case == Rec[c]
In   == Case.inp
Ev   == Case.ev[e]
NEv  == Len(Case.ev)

TraceInit ==
  /\ c \in 1..Len(Rec) /\ e = 1
  /\ alg = In.alg /\ pts = In.pts /\ metric = In.metric /\ mp = In.minpts
  /\ eps = <<In.eps.n, In.eps.d>>
  /\ dm = DistM(In.pts, In.metric)
  /\ inc \in (IF HasOnRadius(dm, In.metric, In.eps.n, In.eps.d) THEN BOOLEAN ELSE {FALSE})
  /\ nb = NbF(dm, In.metric, In.eps.n, In.eps.d, inc)
  /\ pc = "outer" /\ oi = 1
  /\ lab = [i \in 1..Len(In.pts) |-> -1] /\ cur = 0 /\ queue = {}
  /\ ord = <<>> /\ processed = {} /\ rch = [i \in 1..Len(In.pts) |-> -1] /\ seeds = {}
  /\ HInit

Has(name) == e <= NEv /\ Ev.ev = name /\ In.hook = 1
\* one step: the model action A with the event's fields F, the history update, and the step invariants afterwards
\* (P = TRUE: TLC evaluates P as a value instead of splitting its disjunctions into branches of the action)
Step(A, F) == A /\ F = TRUE /\ Hist /\ StepInv' = TRUE /\ e' = e + 1 /\ c' = c

(* ---- dbscan.step ---- *)
TDSkip  == Has("skip") /\ alg = "dbscan" /\ Step(DSkip, SkipFields(Ev))
TDSeed  == Has("seed") /\ alg = "dbscan" /\ Step(DSeed, SeedFields(Ev))
TDPop   == Has("pop") /\ alg = "dbscan" /\ Ev.i + 1 \in queue /\ Step(DPopC(Ev.i + 1), PopFields(Ev))
TDClose == Has("close") /\ alg = "dbscan" /\ Step(DClose, CloseFields(Ev))
TEnd    == Has("end") /\ Step(Done, Ev.n = MN)

(* ---- optics.step ---- *)
TOSkip  == Has("skip") /\ alg = "optics" /\ Step(OSkip, Ev.i = oi - 1)
TOStart == Has("start") /\ alg = "optics" /\ Step(OStart, StartFields(Ev))
TOPop   == Has("pop") /\ alg = "optics" /\ Ev.i + 1 \in seeds /\ Step(OPopC(Ev.i + 1), OPopFields(Ev))
TOEnd   == Has("endwalk") /\ alg = "optics" /\ Step(OEnd, Ev.n = 0)

(* ---- what the public API returned ---- *)
Final == e = NEv /\ Ev.ev = (IF alg = "dbscan" THEN "labels" ELSE "order")
ResultIsModelState == IF alg = "dbscan" THEN Ev.labels = lab ELSE Ev.order = ord
ResultWhy ==
  IF alg = "dbscan" THEN DbscanWhy(Ev.labels, nb, mp)
  ELSE LET w == OpticsWhy(Ev.order, dm, nb, mp) IN
       IF w # "ok" THEN w ELSE IF OpReachMinOf(Ev.order, dm, nb, mp) THEN "ok" ELSE "reachability_not_minimal"

Accept ==
  /\ Final /\ In.hook = 1 /\ pc = "done"
  /\ ResultIsModelState = TRUE
  /\ Ok(Case.id)
  /\ e' = e + 1 /\ UNCHANGED <<c, xvars>>

\* tree without hooks: input/output relation only
AcceptNoHook ==
  /\ Final /\ In.hook = 0 /\ e = 1
  /\ ResultWhy = "ok"
  /\ OkDev(Case.id, <<"nohook">>)
  /\ e' = e + 1 /\ UNCHANGED <<c, xvars>>

TSteps == TDSkip \/ TDSeed \/ TDPop \/ TDClose \/ TEnd \/ TOSkip \/ TOStart \/ TOPop \/ TOEnd

-----------------------------------------------------------------------------
(* diagnostics (best effort): the first false clause for the current event *)
Conv == IF inc THEN "incl" ELSE "strict"
\* which model action the event denotes and whether that action is enabled at all
Denotes ==
  IF In.hook = 0 THEN "result:" \o ResultWhy
  ELSE IF Ev.ev \in {"labels", "order"} THEN
     (IF e < NEv THEN "result_not_last" ELSE IF pc # "done" THEN "run_not_finished_in_model"
      ELSE IF ~ResultIsModelState THEN "result_differs_from_model_state" ELSE "?")
  ELSE IF alg = "dbscan" THEN
     CASE Ev.ev = "skip"  -> IF ~ENABLED DSkip THEN "model_would_seed_or_is_growing" ELSE IF ~SkipFields(Ev) THEN "fields" ELSE "step_invariant"
       [] Ev.ev = "seed"  -> IF ~ENABLED DSeed THEN "not_an_unlabelled_core_at_outer_index" ELSE IF ~SeedFields(Ev) THEN "fields" ELSE "step_invariant"
       [] Ev.ev = "pop"   -> IF pc # "grow" \/ Ev.i + 1 \notin queue THEN "popped_point_not_in_queue"
                             ELSE IF ~PopFields(Ev) THEN
                                (IF lab[Ev.i + 1] # -1 THEN "labelled_twice"
                                 ELSE IF SeqSet(Ev.push) # {} /\ ~MCore(Ev.i + 1) THEN "noncore_extends_queue"
                                 ELSE IF ~NoDup(Ev.push) \/ SeqSet(Ev.push) \cap queue # {} THEN "queued_twice" ELSE "fields")
                             ELSE "step_invariant"
       [] Ev.ev = "close" -> IF ~ENABLED DClose THEN "queue_not_empty" ELSE "fields"
       [] Ev.ev = "end"   -> IF ~ENABLED Done THEN "outer_scan_not_finished" ELSE "fields"
       [] OTHER -> "unexplained_event"
  ELSE
     CASE Ev.ev = "skip"    -> IF ~ENABLED OSkip THEN "index_not_processed" ELSE "fields"
       [] Ev.ev = "start"   -> IF ~ENABLED OStart THEN "not_at_an_unprocessed_outer_index" ELSE IF ~StartFields(Ev) THEN "fields" ELSE "step_invariant"
       [] Ev.ev = "pop"     -> IF pc # "seeds" \/ Ev.i + 1 \notin seeds THEN "popped_sample_not_a_seed"
                               ELSE IF \E u \in seeds : rch[u] < rch[Ev.i + 1] THEN "popped_seed_not_of_minimum_reachability"
                               ELSE IF ~OPopFields(Ev) THEN "fields" ELSE "step_invariant"
       [] Ev.ev = "endwalk" -> IF ~ENABLED OEnd THEN "seed_list_not_empty" ELSE "fields"
       [] Ev.ev = "end"     -> IF ~ENABLED Done THEN "outer_scan_not_finished" ELSE "fields"
       [] OTHER -> "unexplained_event"

Stuck ==
  /\ e <= NEv
  /\ ~(ENABLED TSteps \/ ENABLED Accept \/ ENABLED AcceptNoHook)
  /\ Fail(Case.id, "ev" \o ToString(e) \o ":" \o Ev.ev \o ":" \o Denotes \o ":" \o Conv)
  /\ e' = NEv + 2 /\ UNCHANGED <<c, xvars>>

TraceNextFast == TSteps \/ Accept \/ AcceptNoHook
TraceNext == TraceNextFast \/ Stuck
=============================================================================
