---------------------------- MODULE Trace_Periph ----------------------------
(***************************************************************************)
(* X07 trace validation: every event recorded by harness/src/bin/x07.rs    *)
(* (t-SNE) and harness/x07aux (datasets) is checked against the relations  *)
(* of Periph (the orchestrator runs both harnesses twice, as two processes *)
(* with different thread counts, and appends the first observation of the  *)
(* second process to each case as event "rerun": reproducibility run after *)
(* run).  One event per step; a case is accepted when all its events  *)
(* are explained and they are exactly the events the case must produce.    *)
(* Named deviations (known findings), enabled only when in Devs:           *)
(*   bh_unreproducible  : with theta > 0 two runs with the same seed need  *)
(*                        not be bit-identical (bhtsne's VP tree draws     *)
(*                        from thread_rng)                                 *)
(*   constant_data_nan  : data whose columns are all constant yield a      *)
(*                        non-finite embedding (bhtsne divides by the      *)
(*                        largest centred magnitude, 0) or, with theta > 0 *)
(*                        and n >= 2, a panic inside bhtsne's neighbour    *)
(*                        search on the NaN data                           *)
(*   diabetes_first_sample_dropped : diabetes() reads its two header-less  *)
(*                        data files with has_headers = true, so the first *)
(*                        of the 442 samples is missing (441 pinned by the *)
(*                        crate's own test and README)                     *)
(***************************************************************************)
EXTENDS Periph, TraceIO

CONSTANT Devs

VARIABLES c, e, used

Case == Rec[c]
I    == Case.inp
Evs  == Case.ev
E    == Evs[e]

TraceInit ==
  /\ c \in 1..Len(Rec) /\ e = 1 /\ used = {}
  /\ mach = "trace" /\ par = 0 /\ pc = "trace" /\ rng = 0 /\ outs = <<>> /\ iter = 0 /\ res = "none"

\* ---------------------------------------------------------------------------------------- blobs
BK == Len(I.cent)
BCells == BK * I.m * I.f
Gen1 == Evs[1]
DimsOk(ev) == ev.rows = BK * I.m /\ ev.cols = I.f

BlobsExpected == <<"gen", "cont", "again", "other">> \o (IF I.dist.t = "std" THEN <<"special">> ELSE <<>>) \o <<"rerun">>

BlobsClauses(D) ==
  LET d == I.dist
      shp == DimsOk(E) /\ MatShape(E.cells, BK * I.m, I.f)
      \* the sums of the block statistics stay inside 31 bits only for rows near their centroid
      near == shp /\ RowNearOk(E.cells, I.cent, I.m, I.f, d) IN
  CASE E.ev = "gen" ->
         << <<"shape", shp>>,
            <<"finite", E.finite>>,
            <<"lattice_cells", IsLat(d) => (shp /\ E.exact /\ LatCellsOk(E.cells, I.cent, I.m, I.f, d))>>,
            <<"row_near_its_centroid", ~IsLat(d) => near>>,
            <<"block_mean", ~IsLat(d) => (near /\ BlockMeanOk(E.cells, I.cent, BK, I.m, I.f, d))>>,
            <<"block_spread", ~IsLat(d) => (near /\ BlockSpreadOk(E.cells, I.cent, BK, I.m, I.f, d))>>,
            <<"noise_present", (~IsLat(d) /\ BCells >= 4) => (shp /\ SomeNoise(E.cells, I.cent, I.m, I.f))>> >>
    [] E.ev \in {"cont", "other"} ->
         << <<"shape", DimsOk(E)>>,
            <<"determined_output_equal", Determined(d, BCells) => E.dig = Gen1.dig>>,
            <<"stream_differs", MustDiffer(d, BCells) => E.dig # Gen1.dig>> >>
    [] E.ev \in {"again", "special", "rerun"} ->      \* rerun: the `gen` event of a second process
         << <<"shape", DimsOk(E)>>, <<"same_seed_same_bits", E.dig = Gen1.dig>> >>
    [] OTHER -> << <<"unknown_event", FALSE>> >>

\* ---------------------------------------------------------------------------------------- make_dataset
InSupport(mat, lo, hi) == \A r \in 1..Len(mat) : \A q \in 1..Len(mat[r]) : lo <= mat[r][q] /\ mat[r][q] <= hi
MkClauses(D) ==
  IF E.ev # "mk" THEN << <<"unknown_event", FALSE>> >> ELSE
  << <<"counts", E.ns = I.rows /\ E.nf = I.feats /\ E.nt = I.tg>>,
     <<"dims", E.rdim = <<I.rows, I.feats>> /\ E.tdim = <<I.rows, I.tg>> >>,
     <<"shape", MatShape(E.rec, I.rows, I.feats) /\ MatShape(E.tgt, I.rows, I.tg)>>,
     <<"exact", E.exact>>,
     <<"features_from_feature_distribution", InSupport(E.rec, I.flo, I.fhi)>>,
     <<"targets_from_target_distribution", InSupport(E.tgt, I.tlo, I.thi)>> >>

\* ---------------------------------------------------------------------------------------- loaders
SeqClose(obs, doc, slack) == Len(obs) = Len(doc) /\ \A q \in 1..Len(doc) : Abs(obs[q] - doc[q]) <= slack
LoadClausesWith(drop) ==
  LET L == LoaderDoc(I.name)
      frec == IF drop THEN Tail(I.rec) ELSE I.rec
      ftgt == IF drop THEN Tail(I.tgt) ELSE I.tgt
      ns == IF drop THEN L.ns - 1 ELSE L.ns IN
  << <<"file_matches_documentation", Len(I.rec) = L.ns /\ Len(I.tgt) = L.ns>>,
     <<"counts", E.ns = ns /\ E.nf = L.nf /\ E.nt = L.nt>>,
     <<"dims", E.rdim = <<ns, L.nf>> /\ E.tlen = ns * L.nt>>,
     <<"every_file_row_loaded", MatClose(E.rec, frec, 1) /\ MatClose(E.tgt, ftgt, 1)>>,
     <<"finite", E.finite>>,
     <<"feature_name_count", Len(E.fnames) = E.nf>>,
     <<"feature_names", L.checknames => E.fnames = L.fnames>>,
     <<"target_names", IF L.tnames # <<>> THEN E.tnames = L.tnames ELSE Len(E.tnames) \in {0, E.nt}>>,
     <<"target_range", L.tmin <= E.tmin /\ E.tmax <= L.tmax>>,
     <<"labels", L.labels # <<>> => E.labels = L.labels>>,
     <<"feature_means", L.fmean # NoMeans => SeqClose(E.fmean, L.fmean, L.fslack)>>,
     <<"target_means", L.tmean # NoMeans => SeqClose(E.tmean, L.tmean, 1)>>,
     <<"reload_identical", e > 1 => E.dig = Evs[1].dig>> >>
AllTrue(cl) == \A q \in 1..Len(cl) : cl[q][2]
LoadClauses(D) ==
  IF E.ev = "rerun" THEN << <<"reload_identical_in_another_process", E.dig = Evs[1].dig>> >> ELSE
  IF E.ev # "load" THEN << <<"unknown_event", FALSE>> >> ELSE
  \* known finding (used only when the strict relation fails): the diabetes files have no header line but are read
  \* as if they had one, so exactly the first file row is missing
  IF ~AllTrue(LoadClausesWith(FALSE)) /\ "diabetes_first_sample_dropped" \in D /\ I.name = "diabetes" /\ Len(I.rec) >= 1
    THEN LoadClausesWith(TRUE) ELSE LoadClausesWith(FALSE)

\* ---------------------------------------------------------------------------------------- t-SNE
TN == Len(I.X)
TErrs == TsErrs(TN, I.d, I.e, I.p2, I.th2)
TPErrs == TsParamErrs(I.p2, I.th2)
\* declared but undocumented as a check: accepted, not demanded
PreErr == IF I.pre > I.mi THEN {"PreliminaryIterationsTooLarge"} ELSE {}
ColsConstant == \A r \in 1..TN : I.X[r] = I.X[1]
Tf == Evs[2]

TsExpected ==
  <<"check", "tf", "tf2", "fresh", "valid">> \o (IF Evs[1].ev = "check" /\ Evs[1].ok THEN <<"dsv">> ELSE <<>>) \o <<"ds", "other", "flay", "rerun">>

RunOutcome(ev, D) ==
  IF TErrs = {}
    THEN \/ /\ ev.ok /\ ~ev.panicked /\ ev.rows = TN /\ ev.cols = I.e /\ ev.draws >= TN * I.e
            /\ ev.finite \/ ("constant_data_nan" \in D /\ ColsConstant)
         \/ ~ev.ok /\ ~ev.panicked /\ ev.err \in PreErr /\ ev.draws = 0
         \/ "constant_data_nan" \in D /\ ColsConstant /\ ev.panicked /\ I.th2 > 0 /\ TN >= 2
    ELSE ~ev.ok /\ ~ev.panicked /\ ev.err \in (TErrs \cup PreErr) /\ ev.draws = 0

SameAsTf(ev, D) ==
  /\ ev.ok = Tf.ok /\ ev.err = Tf.err
  /\ ev.ok => (ev.dig = Tf.dig \/ ("bh_unreproducible" \in D /\ I.th2 > 0))

TsClauses(D) ==
  CASE E.ev = "check" ->
         << <<"check_verdict", IF TPErrs = {} THEN (E.ok \/ E.err \in PreErr) ELSE (~E.ok /\ E.err \in TPErrs)>>,
            <<"check_draws_nothing", E.draws = 0>> >>
    [] E.ev = "tf" ->
         << <<"outcome", RunOutcome(E, D)>>, <<"params_untouched", E.pdig0 = E.pdig1>> >>
    [] E.ev \in {"tf2", "fresh", "valid", "flay", "rerun"} ->      \* rerun: the `tf` event of a second process
         << <<"outcome", RunOutcome(E, D)>>, <<"agrees_with_first_run", SameAsTf(E, D)>> >>
    [] E.ev \in {"ds", "dsv"} ->
         << <<"outcome", RunOutcome(E, D)>>, <<"agrees_with_first_run", SameAsTf(E, D)>>,
            <<"targets_kept", E.ok => E.tgt = [r \in 1..TN |-> 3 * (r - 1) + 1]>>,
            <<"weights_kept", E.ok => E.wts2 = [r \in 1..TN |-> 2 * (r - 1) + 1]>>,
            \* the names of the original features do not describe the embedding; no target names were given
            <<"names", E.ok => (E.fnames \in {0, I.e} /\ E.tnames = 0)>> >>
    [] E.ev = "other" ->
         << <<"outcome", RunOutcome(E, D)>>,
            <<"same_verdict", E.ok = Tf.ok /\ E.err = Tf.err>>,
            <<"seed_governs_embedding", (E.ok /\ Tf.ok /\ E.finite /\ Tf.finite /\ TN >= 2 /\ I.e >= 1) => E.dig # Tf.dig>> >>
    [] OTHER -> << <<"unknown_event", FALSE>> >>

\* ---------------------------------------------------------------------------------------- stepping
Expected == CASE Case.kind = "blobs" -> BlobsExpected
              [] Case.kind = "mkds" -> <<"mk", "mk">>
              [] Case.kind = "loader" -> <<"load", "load", "rerun">>
              [] Case.kind = "tsne" -> TsExpected
              [] OTHER -> <<>>
Clauses(D) == CASE Case.kind = "blobs" -> BlobsClauses(D)
                [] Case.kind = "mkds" -> MkClauses(D)
                [] Case.kind = "loader" -> LoadClauses(D)
                [] Case.kind = "tsne" -> TsClauses(D)
                [] OTHER -> << <<"unknown_kind", FALSE>> >>
InOrder == e <= Len(Expected) /\ E.ev = Expected[e]
Bad(D) == IF InOrder THEN SelectSeq(Clauses(D), LAMBDA x : ~x[2]) ELSE << <<"unexpected_event", FALSE>> >>
Needed == {x \in Devs : Bad(Devs \ {x}) # <<>>}

Step ==
  /\ e <= Len(Evs)
  /\ Bad(Devs) = <<>>
  /\ used' = IF Bad({}) = <<>> THEN used ELSE used \cup Needed
  /\ e' = e + 1 /\ UNCHANGED <<c, vars>>

DevSeq == (IF "bh_unreproducible" \in used THEN <<"bh_unreproducible">> ELSE <<>>) \o
          (IF "constant_data_nan" \in used THEN <<"constant_data_nan">> ELSE <<>>) \o
          (IF "diabetes_first_sample_dropped" \in used THEN <<"diabetes_first_sample_dropped">> ELSE <<>>)
Accept ==
  /\ e = Len(Evs) + 1 /\ Len(Evs) = Len(Expected) /\ Len(Evs) > 0
  /\ IF used = {} THEN Ok(Case.id) ELSE OkDev(Case.id, DevSeq)
  /\ e' = e + 1 /\ UNCHANGED <<c, used, vars>>

Stuck ==
  /\ \/ e <= Len(Evs) /\ Bad(Devs) # <<>>
     \/ e = Len(Evs) + 1 /\ Len(Evs) # Len(Expected)
  /\ IF e <= Len(Evs) THEN Fail(Case.id, <<e, E.ev, Bad(Devs)[1][1]>>) ELSE Fail(Case.id, <<e, "missing_events">>)
  /\ e' = Len(Evs) + 2 /\ UNCHANGED <<c, used, vars>>

TraceNext == Step \/ Accept \/ Stuck
=============================================================================
