---------------------------- MODULE PersistTypes ----------------------------
(* C19 -- the catalogue of types that derive serialisation under the crates' `serde` features *)
(* (transcribed from the cfg_attr(feature = "serde", derive(..)) sites of the pinned tree).     *)
(*   name  : catalogue name understood by harness/src/bin/c19.rs                              *)
(*   role  : "plain" (selector, metric, enum, error), "params" (parameter set: must expose a  *)
(*           validation verdict and a re-fit), "model" (fitted instance), "skipped" (a value  *)
(*           the code documents as not serialisable: the serialiser must refuse it)           *)
(*   gen   : generic over the float type (both f32 and f64 are exercised)                      *)
(*   nvar  : number of configurations (variants / hyper-parameter sets / invalid sets)        *)
(*   eq    : PartialEq is defined -> original == restored is one more observation             *)
(*   fnv   : configurations that carry a function-pointer tokenizer (not serialisable)        *)
(*   rearm : the tokenizer function can be set again on a restored value                      *)
(* Not in the catalogue, with the reason: the AppxDbscan types (aliases of the DBSCAN types  *)
(* in the pinned tree, the appx_dbscan module is not compiled); ArgminParam and the naive-    *)
(* Bayes class-info structs (not nameable outside their crates, observed inside their         *)
(* owners); Norms and Pls (private, observed inside NormScaler and the Pls models);           *)
(* KernelView (borrowed, cannot be deserialised by construction).                             *)
EXTENDS Naturals, Sequences

T(name, role, gen, nvar, eq, fnv, rearm) ==
  [name |-> name, role |-> role, gen |-> gen, nvar |-> nvar, eq |-> eq, fnv |-> fnv, rearm |-> rearm]

Catalogue == <<
  T("Error", "plain", FALSE, 5, FALSE, {}, FALSE),
  T("Error.NdShape", "skipped", FALSE, 1, FALSE, {}, FALSE),
  T("PlattError", "plain", FALSE, 6, FALSE, {}, FALSE),
  T("L1Dist", "plain", FALSE, 1, TRUE, {}, FALSE),
  T("L2Dist", "plain", FALSE, 1, TRUE, {}, FALSE),
  T("LInfDist", "plain", FALSE, 1, TRUE, {}, FALSE),
  T("LpDist", "plain", TRUE, 2, TRUE, {}, FALSE),
  T("KdTree", "plain", FALSE, 1, TRUE, {}, FALSE),
  T("BallTree", "plain", FALSE, 1, TRUE, {}, FALSE),
  T("LinearSearch", "plain", FALSE, 1, TRUE, {}, FALSE),
  T("CommonNearestNeighbour", "plain", FALSE, 3, TRUE, {}, FALSE),
  T("Dbscan", "plain", FALSE, 1, TRUE, {}, FALSE),
  T("Optics", "plain", FALSE, 1, TRUE, {}, FALSE),
  T("GmmCovarType", "plain", FALSE, 1, TRUE, {}, FALSE),
  T("GmmInitMethod", "plain", FALSE, 2, TRUE, {}, FALSE),
  T("KMeansInit", "plain", TRUE, 4, TRUE, {}, FALSE),
  T("KMeansParams", "params", TRUE, 6, TRUE, {}, FALSE),
  T("KMeansValidParams", "params", TRUE, 3, TRUE, {}, FALSE),
  T("KMeans", "model", TRUE, 3, TRUE, {}, FALSE),
  T("GmmParams", "params", TRUE, 4, TRUE, {}, FALSE),
  T("GmmValidParams", "params", TRUE, 2, TRUE, {}, FALSE),
  T("GaussianMixtureModel", "model", TRUE, 2, TRUE, {}, FALSE),
  T("DbscanValidParams", "params", TRUE, 3, TRUE, {}, FALSE),
  T("OpticsParams", "params", TRUE, 4, TRUE, {}, FALSE),
  T("OpticsValidParams", "params", TRUE, 2, TRUE, {}, FALSE),
  T("OpticsAnalysis", "model", TRUE, 2, TRUE, {}, FALSE),
  T("OpticsSample", "model", TRUE, 2, TRUE, {}, FALSE),
  T("Link", "plain", FALSE, 3, TRUE, {}, FALSE),
  T("LinearRegression", "params", TRUE, 2, TRUE, {}, FALSE),
  T("FittedLinearRegression", "model", TRUE, 2, TRUE, {}, FALSE),
  T("FittedIsotonicRegression", "model", TRUE, 1, TRUE, {}, FALSE),
  T("TweedieRegressorValidParams", "params", TRUE, 3, TRUE, {}, FALSE),
  T("TweedieRegressor", "model", TRUE, 3, TRUE, {}, FALSE),
  T("ElasticNetError", "plain", FALSE, 8, FALSE, {}, FALSE),
  T("ElasticNetValidParams", "params", TRUE, 4, TRUE, {}, FALSE),
  T("ElasticNet", "model", TRUE, 4, FALSE, {}, FALSE),
  T("MultiTaskElasticNetValidParams", "params", TRUE, 2, TRUE, {}, FALSE),
  T("MultiTaskElasticNet", "model", TRUE, 2, FALSE, {}, FALSE),
  T("LogisticRegressionParams", "params", TRUE, 5, TRUE, {}, FALSE),
  T("LogisticRegressionValidParams", "params", TRUE, 3, TRUE, {}, FALSE),
  T("FittedLogisticRegression", "model", TRUE, 3, TRUE, {}, FALSE),
  T("BinaryClassLabels", "model", TRUE, 2, TRUE, {}, FALSE),
  T("ClassLabel", "model", TRUE, 2, TRUE, {}, FALSE),
  T("MultiLogisticRegressionParams", "params", TRUE, 3, TRUE, {}, FALSE),
  T("MultiLogisticRegressionValidParams", "params", TRUE, 2, TRUE, {}, FALSE),
  T("MultiFittedLogisticRegression", "model", TRUE, 2, TRUE, {}, FALSE),
  T("ExitReason", "plain", FALSE, 2, TRUE, {}, FALSE),
  T("SeparatingHyperplane", "plain", TRUE, 2, TRUE, {}, FALSE),
  T("KernelMethod", "plain", TRUE, 3, TRUE, {}, FALSE),
  T("Kernel", "model", TRUE, 4, TRUE, {}, FALSE),
  T("Svm.bool", "model", TRUE, 3, TRUE, {}, FALSE),
  T("Svm.Pr", "model", TRUE, 2, TRUE, {}, FALSE),
  T("Svm.reg", "model", TRUE, 2, TRUE, {}, FALSE),
  T("Svm.oneclass", "model", TRUE, 2, TRUE, {}, FALSE),
  T("SplitQuality", "plain", FALSE, 2, TRUE, {}, FALSE),
  T("DecisionTreeParams", "params", TRUE, 4, TRUE, {}, FALSE),
  T("DecisionTreeValidParams", "params", TRUE, 3, TRUE, {}, FALSE),
  T("DecisionTree", "model", TRUE, 3, TRUE, {}, FALSE),
  T("TreeNode", "model", TRUE, 3, TRUE, {}, FALSE),
  T("GaussianNbValidParams", "params", TRUE, 2, TRUE, {}, FALSE),
  T("GaussianNb", "model", TRUE, 3, TRUE, {}, FALSE),
  T("MultinomialNbValidParams", "params", TRUE, 2, TRUE, {}, FALSE),
  T("MultinomialNb", "model", TRUE, 2, TRUE, {}, FALSE),
  T("FtrlError", "plain", FALSE, 7, FALSE, {}, FALSE),
  T("FtrlParams", "params", TRUE, 4, TRUE, {}, FALSE),
  T("FtrlValidParams", "params", TRUE, 2, TRUE, {}, FALSE),
  T("Ftrl", "model", TRUE, 2, FALSE, {}, FALSE),
  T("PlsRegression", "model", TRUE, 2, TRUE, {}, FALSE),
  T("PlsCanonical", "model", TRUE, 2, TRUE, {}, FALSE),
  T("PlsCca", "model", TRUE, 2, TRUE, {}, FALSE),
  T("PlsSvdParams", "params", TRUE, 2, TRUE, {}, FALSE),
  T("PcaParams", "params", FALSE, 2, TRUE, {}, FALSE),
  T("Pca", "model", FALSE, 2, TRUE, {}, FALSE),
  T("GFunc", "plain", FALSE, 3, TRUE, {}, FALSE),
  T("FastIcaValidParams", "params", TRUE, 3, TRUE, {}, FALSE),
  T("FastIca", "model", TRUE, 3, TRUE, {}, FALSE),
  T("TfIdfMethod", "plain", FALSE, 3, TRUE, {}, FALSE),
  T("WhiteningMethod", "plain", FALSE, 3, TRUE, {}, FALSE),
  T("ScalingMethod", "plain", TRUE, 3, TRUE, {}, FALSE),
  T("NormScaler", "params", TRUE, 3, TRUE, {}, FALSE),
  T("LinearScalerParams", "params", TRUE, 5, TRUE, {}, FALSE),
  T("LinearScaler", "model", TRUE, 4, TRUE, {}, FALSE),
  T("Whitener", "params", TRUE, 3, TRUE, {}, FALSE),
  T("FittedWhitener", "model", TRUE, 3, TRUE, {}, FALSE),
  T("CountVectorizerParams", "params", FALSE, 5, FALSE, {2}, TRUE),
  T("CountVectorizerValidParams", "params", FALSE, 3, FALSE, {2}, FALSE),
  T("CountVectorizer", "model", FALSE, 3, FALSE, {2}, TRUE),
  T("TfIdfVectorizer", "params", FALSE, 4, FALSE, {2}, TRUE),
  T("FittedTfIdfVectorizer", "model", FALSE, 3, FALSE, {2}, TRUE)
>>

Names == {Catalogue[i].name : i \in 1..Len(Catalogue)}
Entry(name) == Catalogue[CHOOSE i \in 1..Len(Catalogue) : Catalogue[i].name = name]
MinKeys(role) == IF role = "plain" THEN 2 ELSE 3
=============================================================================
