---------------------------- MODULE PersistTypes ----------------------------
(* C19 -- the catalogue of types that derive serialisation under the crates' `serde` features *)
(* (transcribed from the cfg_attr(feature = "serde", derive(..)) sites of the pinned tree).     *)
(*   name  : catalogue name understood by harness/src/bin/c19.rs                              *)
(*   role  : "plain" (selector, metric, enum, error), "params" (parameter set: must expose a  *)
(*           validation verdict and a re-fit), "model" (fitted instance), "skipped" (a value  *)
(*           the code documents as not serialisable: the serialiser must refuse it), "sweep"  *)
(*           (an error enum probed structurally: configuration = variant index as the          *)
(*           deserialiser numbers them; an index beyond the last variant is "absent")          *)
(*   gen   : generic over the float type (both f32 and f64 are exercised)                      *)
(*   nvar  : number of configurations (variants / hyper-parameter sets / invalid sets /        *)
(*           boundary values of the legal ranges / post-fit setters and public fields moved    *)
(*           to boundary values before the round trip)                                        *)
(*   eq    : PartialEq is defined -> original == restored is one more observation             *)
(*   fnv   : configurations that carry a function-pointer tokenizer (not serialisable)        *)
(*   rearm : the tokenizer function can be set again on a restored value                      *)
(*   wide  : the value has matrix / vector parameters applied to the records: it is also       *)
(*           exercised on 8..12 features (inp.wide = 1) so that unrolled kernels and layout-   *)
(*           dependent code paths are reached, through every public calling form; and once     *)
(*           more (inp.wide = 2) with every training set handed to fit in column-major order   *)
(* Not in the catalogue, with the reason: the AppxDbscan types (aliases of the DBSCAN types  *)
(* in the pinned tree, the appx_dbscan module is not compiled); ArgminParam and the naive-    *)
(* Bayes class-info structs (not nameable outside their crates, observed inside their         *)
(* owners); Norms and Pls (private, observed inside NormScaler and the Pls models);           *)
(* KernelView (borrowed, cannot be deserialised by construction).                             *)
EXTENDS Naturals, Sequences

T(name, role, gen, nvar, eq, fnv, rearm, wide) ==
  [name |-> name, role |-> role, gen |-> gen, nvar |-> nvar, eq |-> eq, fnv |-> fnv, rearm |-> rearm, wide |-> wide]

Catalogue == <<
  T("Error", "plain", FALSE, 5, FALSE, {}, FALSE, FALSE),
  T("Error.NdShape", "skipped", FALSE, 1, FALSE, {}, FALSE, FALSE),
  T("Error.api", "plain", FALSE, 16, FALSE, {}, FALSE, FALSE),
  T("Error.sweep", "sweep", FALSE, 10, FALSE, {}, FALSE, FALSE),
  T("PlattError.sweep", "sweep", FALSE, 18, FALSE, {}, FALSE, FALSE),
  T("ElasticNetError.sweep", "sweep", FALSE, 18, FALSE, {}, FALSE, FALSE),
  T("FtrlError.sweep", "sweep", FALSE, 18, FALSE, {}, FALSE, FALSE),
  T("PlattError", "plain", FALSE, 9, FALSE, {}, FALSE, FALSE),
  T("L1Dist", "plain", FALSE, 1, TRUE, {}, FALSE, FALSE),
  T("L2Dist", "plain", FALSE, 1, TRUE, {}, FALSE, FALSE),
  T("LInfDist", "plain", FALSE, 1, TRUE, {}, FALSE, FALSE),
  T("LpDist", "plain", TRUE, 5, TRUE, {}, FALSE, FALSE),
  T("KdTree", "plain", FALSE, 1, TRUE, {}, FALSE, FALSE),
  T("BallTree", "plain", FALSE, 1, TRUE, {}, FALSE, FALSE),
  T("LinearSearch", "plain", FALSE, 1, TRUE, {}, FALSE, FALSE),
  T("CommonNearestNeighbour", "plain", FALSE, 3, TRUE, {}, FALSE, FALSE),
  T("Dbscan", "plain", FALSE, 1, TRUE, {}, FALSE, FALSE),
  T("Optics", "plain", FALSE, 1, TRUE, {}, FALSE, FALSE),
  T("GmmCovarType", "plain", FALSE, 1, TRUE, {}, FALSE, FALSE),
  T("GmmInitMethod", "plain", FALSE, 2, TRUE, {}, FALSE, FALSE),
  T("KMeansInit", "plain", TRUE, 5, TRUE, {}, FALSE, FALSE),
  T("KMeansParams", "params", TRUE, 8, TRUE, {}, FALSE, TRUE),
  T("KMeansValidParams", "params", TRUE, 5, TRUE, {}, FALSE, TRUE),
  T("KMeans", "model", TRUE, 6, TRUE, {}, FALSE, TRUE),
  T("GmmParams", "params", TRUE, 5, TRUE, {}, FALSE, TRUE),
  T("GmmValidParams", "params", TRUE, 3, TRUE, {}, FALSE, TRUE),
  T("GaussianMixtureModel", "model", TRUE, 2, TRUE, {}, FALSE, TRUE),
  T("DbscanValidParams", "params", TRUE, 4, TRUE, {}, FALSE, FALSE),
  T("OpticsParams", "params", TRUE, 5, TRUE, {}, FALSE, FALSE),
  T("OpticsValidParams", "params", TRUE, 3, TRUE, {}, FALSE, FALSE),
  T("OpticsAnalysis", "model", TRUE, 2, TRUE, {}, FALSE, FALSE),
  T("OpticsSample", "model", TRUE, 2, TRUE, {}, FALSE, FALSE),
  T("Link", "plain", FALSE, 3, TRUE, {}, FALSE, FALSE),
  T("LinearRegression", "params", TRUE, 2, TRUE, {}, FALSE, TRUE),
  T("FittedLinearRegression", "model", TRUE, 2, TRUE, {}, FALSE, TRUE),
  T("FittedIsotonicRegression", "model", TRUE, 1, TRUE, {}, FALSE, FALSE),
  T("TweedieRegressorValidParams", "params", TRUE, 3, TRUE, {}, FALSE, TRUE),
  T("TweedieRegressor", "model", TRUE, 5, TRUE, {}, FALSE, TRUE),
  T("ElasticNetError", "plain", FALSE, 11, FALSE, {}, FALSE, FALSE),
  T("ElasticNetValidParams", "params", TRUE, 5, TRUE, {}, FALSE, TRUE),
  T("ElasticNet", "model", TRUE, 5, FALSE, {}, FALSE, TRUE),
  T("MultiTaskElasticNetValidParams", "params", TRUE, 2, TRUE, {}, FALSE, TRUE),
  T("MultiTaskElasticNet", "model", TRUE, 2, FALSE, {}, FALSE, TRUE),
  T("LogisticRegressionParams", "params", TRUE, 6, TRUE, {}, FALSE, TRUE),
  T("LogisticRegressionValidParams", "params", TRUE, 4, TRUE, {}, FALSE, TRUE),
  T("FittedLogisticRegression", "model", TRUE, 9, TRUE, {}, FALSE, TRUE),
  T("BinaryClassLabels", "model", TRUE, 6, TRUE, {}, FALSE, FALSE),
  T("ClassLabel", "model", TRUE, 6, TRUE, {}, FALSE, FALSE),
  T("MultiLogisticRegressionParams", "params", TRUE, 4, TRUE, {}, FALSE, TRUE),
  T("MultiLogisticRegressionValidParams", "params", TRUE, 3, TRUE, {}, FALSE, TRUE),
  T("MultiFittedLogisticRegression", "model", TRUE, 3, TRUE, {}, FALSE, TRUE),
  T("ExitReason", "plain", FALSE, 2, TRUE, {}, FALSE, FALSE),
  T("SeparatingHyperplane", "plain", TRUE, 5, TRUE, {}, FALSE, FALSE),
  T("KernelMethod", "plain", TRUE, 7, TRUE, {}, FALSE, FALSE),
  T("Kernel", "model", TRUE, 7, TRUE, {}, FALSE, TRUE),
  T("Svm.bool", "model", TRUE, 5, TRUE, {}, FALSE, TRUE),
  T("Svm.Pr", "model", TRUE, 3, TRUE, {}, FALSE, TRUE),
  T("Svm.reg", "model", TRUE, 3, TRUE, {}, FALSE, TRUE),
  T("Svm.oneclass", "model", TRUE, 3, TRUE, {}, FALSE, TRUE),
  T("SplitQuality", "plain", FALSE, 2, TRUE, {}, FALSE, FALSE),
  T("DecisionTreeParams", "params", TRUE, 5, TRUE, {}, FALSE, FALSE),
  T("DecisionTreeValidParams", "params", TRUE, 4, TRUE, {}, FALSE, FALSE),
  T("DecisionTree", "model", TRUE, 4, TRUE, {}, FALSE, FALSE),
  T("TreeNode", "model", TRUE, 4, TRUE, {}, FALSE, FALSE),
  T("GaussianNbValidParams", "params", TRUE, 2, TRUE, {}, FALSE, TRUE),
  T("GaussianNb", "model", TRUE, 3, TRUE, {}, FALSE, TRUE),
  T("MultinomialNbValidParams", "params", TRUE, 2, TRUE, {}, FALSE, TRUE),
  T("MultinomialNb", "model", TRUE, 2, TRUE, {}, FALSE, TRUE),
  T("FtrlError", "plain", FALSE, 10, FALSE, {}, FALSE, FALSE),
  T("FtrlParams", "params", TRUE, 5, TRUE, {}, FALSE, TRUE),
  T("FtrlValidParams", "params", TRUE, 3, TRUE, {}, FALSE, TRUE),
  T("Ftrl", "model", TRUE, 3, FALSE, {}, FALSE, TRUE),
  T("PlsRegression", "model", TRUE, 2, TRUE, {}, FALSE, TRUE),
  T("PlsCanonical", "model", TRUE, 2, TRUE, {}, FALSE, TRUE),
  T("PlsCca", "model", TRUE, 2, TRUE, {}, FALSE, TRUE),
  T("PlsSvdParams", "params", TRUE, 2, TRUE, {}, FALSE, TRUE),
  T("PcaParams", "params", FALSE, 2, TRUE, {}, FALSE, TRUE),
  T("Pca", "model", FALSE, 2, TRUE, {}, FALSE, TRUE),
  T("GFunc", "plain", FALSE, 6, TRUE, {}, FALSE, FALSE),
  T("FastIcaValidParams", "params", TRUE, 3, TRUE, {}, FALSE, TRUE),
  T("FastIca", "model", TRUE, 3, TRUE, {}, FALSE, TRUE),
  T("TfIdfMethod", "plain", FALSE, 3, TRUE, {}, FALSE, FALSE),
  T("WhiteningMethod", "plain", FALSE, 3, TRUE, {}, FALSE, FALSE),
  T("ScalingMethod", "plain", TRUE, 7, TRUE, {}, FALSE, FALSE),
  T("NormScaler", "params", TRUE, 3, TRUE, {}, FALSE, TRUE),
  T("LinearScalerParams", "params", TRUE, 6, TRUE, {}, FALSE, TRUE),
  T("LinearScaler", "model", TRUE, 5, TRUE, {}, FALSE, TRUE),
  T("Whitener", "params", TRUE, 3, TRUE, {}, FALSE, TRUE),
  T("FittedWhitener", "model", TRUE, 3, TRUE, {}, FALSE, TRUE),
  T("CountVectorizerParams", "params", FALSE, 7, FALSE, {2}, TRUE, FALSE),
  T("CountVectorizerValidParams", "params", FALSE, 5, FALSE, {2}, FALSE, FALSE),
  T("CountVectorizer", "model", FALSE, 5, FALSE, {2}, TRUE, FALSE),
  T("TfIdfVectorizer", "params", FALSE, 6, FALSE, {2}, TRUE, FALSE),
  T("FittedTfIdfVectorizer", "model", FALSE, 5, FALSE, {2}, TRUE, FALSE)
>>

Names == {Catalogue[i].name : i \in 1..Len(Catalogue)}
Entry(name) == Catalogue[CHOOSE i \in 1..Len(Catalogue) : Catalogue[i].name = name]
MinKeys(role) == IF role \in {"plain", "sweep"} THEN 2 ELSE 3
=============================================================================
