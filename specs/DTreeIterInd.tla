---------------------------- MODULE DTreeIterInd ----------------------------
(***************************************************************************)
(* X08 (2) -- Apalache-typed restatement of the level-order node iterator  *)
(* of specs/DTreeIntro.tla (X11; linfa-trees iter.rs: NodeIter, a VecDeque *)
(* seeded with the root; next() pops the front and pushes the children     *)
(* that exist, left then right) with an inductive invariant.               *)
(*                                                                         *)
(* Differences to DTreeIntro.tla (checked by TLC, XC_DTreeIterRef.tla:     *)
(* every behaviour of DTreeIntro is a behaviour of this module under the   *)
(* mapping below, and the states with a running / finished iterator agree  *)
(* tree by tree with XC_DTreeIterInd.tla):                                 *)
(*  - a node is its HEAP NUMBER instead of its path: root = 1, the         *)
(*    children of p are 2p (left) and 2p + 1 (right).  Level order, left   *)
(*    to right (DTreeIntro.LevelLess) IS the numerical order of the heap   *)
(*    numbers (XC_DTreeIterRef.IdOrderIsLevelOrder), so "the yielded       *)
(*    sequence is LevelOrder(nodes)" reads "it is strictly increasing and  *)
(*    contains exactly the nodes".                                         *)
(*  - the tree is ANY set of numbers in 1..M that contains 1 and with      *)
(*    every p > 1 its parent (in DTreeIntro only the full binary trees     *)
(*    DTree.Grow / Prune can build).  While the iterator is idle the tree  *)
(*    may change arbitrarily (action Build = DTree.Grow / Prune); once it  *)
(*    runs the tree is rigid.                                              *)
(*  - DTreeIntro keeps two sequences  it.out (yielded) and it.q (queue).   *)
(*    Here both live in one array:  out = buf[1..hd-1], q = buf[hd..tl-1], *)
(*    cells from tl on are 0  (a queue that never recycles its cells: pop  *)
(*    = hd + 1, push = write at tl), so "out \o q" is buf[1..tl-1] and no  *)
(*    sequence operator is needed.                                         *)
(*                                                                         *)
(* M is a CONSTANT (any positive integer, not only 2^(D+1) - 1): one       *)
(* Apalache run proves IndInv inductive for EVERY tree with heap numbers   *)
(* <= M (M = 15: every binary tree of depth <= 3, M = 31: depth <= 4),     *)
(* full or not.                                                            *)
(*                                                                         *)
(* Variant # "ok" seeds design bugs the invariants must reject:            *)
(*   "right_first"       the children are pushed right, then left          *)
(*   "children_of_back"  the children pushed are those of the BACK of the  *)
(*                       queue (back() for front()), the front is yielded  *)
(*   "push_without_check" both children are pushed whether they exist or   *)
(*                       not (the HasPath filter is forgotten)             *)
(***************************************************************************)
EXTENDS Integers

CONSTANTS
  \* @type: Int;
  M,
  \* @type: Str;
  Variant

VARIABLES
  \* the heap numbers of the nodes
  \* @type: Set(Int);
  tree,
  \* "idle" | "run" | "end"
  \* @type: Str;
  st,
  \* yielded nodes followed by the queue
  \* @type: Int -> Int;
  buf,
  \* front of the queue (index into buf)
  \* @type: Int;
  hd,
  \* one past the back of the queue
  \* @type: Int;
  tl

vars == <<tree, st, buf, hd, tl>>

Idx == 1..M
Zero == [k \in Idx |-> 0]

\* root present, every other node hangs under a node of the tree (division-free)
\* @type: (Set(Int)) => Bool;
IsTree(T) == 1 \in T /\ \A x \in T : x > 1 => \E r \in T : x = 2 * r \/ x = 2 * r + 1

Init ==
  /\ tree \in SUBSET Idx
  /\ st = "idle" /\ buf = Zero /\ hd = 1 /\ tl = 1

\* DTree.Grow / DTree.Prune: anything may happen to the tree while no iterator exists
Build ==
  /\ st = "idle"
  /\ tree' \in SUBSET Idx
  /\ UNCHANGED <<st, buf, hd, tl>>

\* iter_nodes(): queue = [root]
IterStart ==
  /\ st = "idle" /\ IsTree(tree)
  /\ st' = "run" /\ buf' = [buf EXCEPT ![1] = 1] /\ hd' = 1 /\ tl' = 2
  /\ UNCHANGED tree

\* NodeIter::next : pop_front, push_back the children that exist (left, then right)
IterNext ==
  /\ st = "run"
  /\ IF hd = tl
       THEN st' = "end" /\ UNCHANGED <<tree, buf, hd, tl>>
       ELSE LET p == IF Variant = "children_of_back" THEN buf[tl - 1] ELSE buf[hd]
                hasL == (2 * p) \in tree \/ Variant = "push_without_check"
                hasR == (2 * p + 1) \in tree \/ Variant = "push_without_check"
                c1 == IF Variant = "right_first" THEN 2 * p + 1 ELSE 2 * p
                c2 == IF Variant = "right_first" THEN 2 * p ELSE 2 * p + 1
            IN /\ buf' = IF hasL /\ hasR THEN [buf EXCEPT ![tl] = c1, ![tl + 1] = c2]
                         ELSE IF hasL THEN [buf EXCEPT ![tl] = 2 * p]
                         ELSE IF hasR THEN [buf EXCEPT ![tl] = 2 * p + 1]
                         ELSE buf
               /\ tl' = tl + (IF hasL THEN 1 ELSE 0) + (IF hasR THEN 1 ELSE 0)
               /\ hd' = hd + 1
               /\ UNCHANGED <<tree, st>>

Next == Build \/ IterStart \/ IterNext

Spec == Init /\ [][Next]_vars

-----------------------------------------------------------------------------
(* The statements to be proved (DTreeIntro: InvIterPrefix, InvIterCanon, InvIterProps) *)

Active == st \in {"run", "end"}
\* out \o q is a prefix of the level order of the tree: nodes of the tree, strictly increasing heap
\* numbers (in particular every node at most once), and no node of the tree is jumped over
InvPrefix ==
  Active =>
    /\ \A k \in Idx : k < tl => buf[k] \in tree
    /\ \A j \in Idx : \A k \in Idx : (j < k /\ k < tl) => buf[j] < buf[k]
    /\ \A x \in tree : \A k \in Idx : (k < tl /\ x < buf[k]) => \E j \in Idx : j < k /\ buf[j] = x
\* at the end everything was yielded: with InvPrefix, out = LevelOrder(tree)
InvCanon == st = "end" => (hd = tl /\ \A x \in tree : \E k \in Idx : k < hd /\ buf[k] = x)
\* queue discipline: the parent of every node in out \o q has been yielded (popped) already
InvParentsPopped ==
  Active =>
    \A k \in Idx : (k < tl /\ buf[k] > 1) =>
       \E j \in Idx : j < k /\ j < hd /\ (buf[k] = 2 * buf[j] \/ buf[k] = 2 * buf[j] + 1)

Safety == InvPrefix /\ InvCanon /\ InvParentsPopped

-----------------------------------------------------------------------------
(* The inductive invariant *)

TypeOk ==
  /\ tree \in SUBSET Idx
  /\ st \in {"idle", "run", "end"}
  /\ buf \in [Idx -> 0..M]
  /\ hd \in 1..(M + 1) /\ tl \in 1..(M + 1) /\ hd <= tl

\* the frontier: every node of the tree below it has been pushed, nothing at or above it has.
\* Queue not empty: the left child of the front.  Queue empty: just past the children of the last node popped.
Frontier == IF hd < tl THEN 2 * buf[hd] ELSE 2 * buf[tl - 1] + 2

IndInv ==
  /\ TypeOk
  /\ st = "idle" => (hd = 1 /\ tl = 1 /\ buf = Zero)
  /\ st = "end" => hd = tl
  /\ Active =>
       /\ IsTree(tree)
       /\ tl >= 2 /\ buf[1] = 1
       /\ \A k \in Idx : k >= tl => buf[k] = 0
       /\ \A k \in Idx : k < tl => (buf[k] \in tree /\ buf[k] >= k)
       /\ \A j \in Idx : \A k \in Idx : (j < k /\ k < tl) => buf[j] < buf[k]
       /\ \A k \in Idx : k < tl => buf[k] < Frontier
       /\ \A x \in tree : x < Frontier => \E k \in Idx : k < tl /\ buf[k] = x
=============================================================================
