--------------------------- MODULE Trace_Persist ---------------------------
(***************************************************************************)
(* C19 trace validation.  A case is the history of one value of one        *)
(* catalogue type recorded from the real linfa API by harness c19:         *)
(*   create ; obs* ; ( rt ; obs* ; [eq] ; [rearm ; obs*] )*                 *)
(* The observation history is rebuilt event by event and must satisfy, at  *)
(* every step, the predicates of Persist.tla (TwinsAgree, RootsOk) -- the   *)
(* same ones TLC proved for the faithful codecs of the design model.       *)
(* Structure of the history (which type, which chain of formats, whether   *)
(* PartialEq exists, whether the value carries a function tokenizer) comes *)
(* from the case input and the catalogue PersistTypes, never from the      *)
(* trace, so the harness cannot talk itself out of an obligation:          *)
(*   - every format of the chain must have been serialised and read back   *)
(*     ("unimpl" -- the derive is there but the type does not implement    *)
(*     the trait --, a serialisation or a deserialisation error are        *)
(*     unexplained events), except for the documented skipped variant,     *)
(*     which must be refused;                                              *)
(*   - every key asked of the original is asked of every restored value,   *)
(*     at least MinKeys of them; parameter sets answer "validate" and      *)
(*     "refit"; where PartialEq exists original == restored is required;   *)
(*   - a disarmed value (function tokenizer lost) may only refuse.         *)
(***************************************************************************)
EXTENDS Persist, PersistTypes, TraceIO

CONSTANT Devs      \* named deviations (known findings), see DevKernelSum below

VARIABLES c, e,        \* case and event cursor
          hs,          \* per handle (1-based: handle k is hs[k + 1]): [armed, exempt]
          o,           \* observation history (records as in Persist part 1)
          eqs,         \* handles for which original == restored was observed TRUE (or licensed)
          refused,     \* the serialiser refused the value (only legal for the skipped role)
          used         \* named deviations that were needed to explain this case

tvars == <<c, e, hs, o, eqs, refused, used>>

Case == Rec[c]
In   == Case.inp
Ev   == Case.ev[e]
KnownType == In.type \in Names
Ent  == Entry(In.type)
NH   == Len(hs)                     \* live handles 0 .. NH - 1
HasFnTok == In.var \in Ent.fnv       \* this configuration carries a function-pointer tokenizer

TraceInit ==
  /\ c \in 1..Len(Rec) /\ e = 1
  /\ hs = <<>> /\ o = {} /\ eqs = {} /\ refused = FALSE /\ used = {}
  \* the design-model variables are not used during trace validation
  /\ attr = <<>> /\ skipped = {} /\ val = <<>> /\ armed = <<>> /\ exempt = <<>> /\ obs = {} /\ failed = FALSE

HasEv(name) == e <= Len(Case.ev) /\ Ev.ev = name
Adv == e' = e + 1 /\ UNCHANGED <<c, vars>>

TCreate ==
  /\ HasEv("create") /\ e = 1 /\ KnownType /\ Case.kind # "offer"
  /\ Ev.h = 0 /\ Ev.type = In.type /\ Case.kind = Ent.role
  /\ Ev.role = (IF Ent.role = "sweep" THEN "plain" ELSE Ent.role)
  /\ In.var \in 0..(Ent.nvar - 1)
  /\ In.wide \in (IF Ent.wide THEN {0, 1, 2} ELSE {0})
  /\ In.ft \in (IF Ent.gen THEN {"f32", "f64"} ELSE {"f64"}) /\ Ev.ft = In.ft
  /\ Len(In.fmts) >= 1 /\ \A i \in 1..Len(In.fmts) : In.fmts[i] \in {"bincode", "json"}
  /\ hs' = << [armed |-> TRUE, exempt |-> FALSE] >>
  /\ Adv /\ UNCHANGED <<o, eqs, refused, used>>

\* Known finding "kernel-sum-follows-layout" (deviation, only when listed in Devs): Kernel::sum() of a dense
\* kernel is ndarray's sum_axis, whose summation order follows the memory layout of the matrix; a kernel that
\* the user assembled from a column-major matrix is restored row-major, so the row sums may round differently
\* (an existing test pins sum() to sum_axis, so it cannot be repaired without editing a test).  The deviation
\* licenses exactly that: type Kernel, key "sum", float class, on a restored value whose recorded layout of the
\* inner matrix differs from the original's.  Every other key, type or an unchanged layout is still judged.
LayoutChanged(h, key) ==
  \E a \in o, b \in o : a.key = key /\ b.key = key /\ a.h = 0 /\ b.h = h /\ a.cls = "l" /\ b.cls = "l" /\ a.d # b.d
DevKernelSum(x) ==
  /\ "kernel-sum-follows-layout" \in Devs
  /\ In.type = "Kernel" /\ x.key = "sum" /\ x.cls = "f" /\ x.st = "ok" /\ x.h > 0
  /\ LayoutChanged(x.h, "layout.inner")

\* an answer of handle Ev.h: the history extended by it must still satisfy the property
TObs ==
  /\ HasEv("obs") /\ NH >= 1 /\ ~refused
  /\ Ev.h \in 0..(NH - 1)
  /\ Ev.h = NH - 1                                   \* only the newest value is observed
  /\ Ev.cls \in {"f", "d", "b", "l"} /\ Ev.st \in {"ok", "guard"}
  /\ LET x == [h |-> Ev.h, key |-> Ev.key, cls |-> Ev.cls, st |-> Ev.st, d |-> Ev.d, root |-> 0,
               armed |-> hs[Ev.h + 1].armed, exempt |-> hs[Ev.h + 1].exempt]
         o2 == o \cup {x}
     IN /\ RootsOk({x})
        /\ \/ Extends(o, x) /\ used' = used        \* = TwinsAgree(o2) /\ RootsOk(o2), given they held for o
           \/ ~Extends(o, x) /\ DevKernelSum(x) /\ used' = used \cup {"kernel-sum-follows-layout"}
        /\ Ev.h > 0 => Ev.key \in KeysOf(o, 0)      \* restored values are asked what the original was asked
        /\ o' = o2
  /\ Adv /\ UNCHANGED <<hs, eqs, refused>>

\* the newest value is serialised with the next format of the chain and read back
TRoundTrip ==
  /\ HasEv("rt") /\ NH >= 1 /\ ~refused /\ Ent.role # "skipped"
  /\ Ev.h = NH - 1 /\ Ev.to = NH /\ NH <= Len(In.fmts) /\ Ev.fmt = In.fmts[NH]
  /\ Ev.ser = "ok" /\ Ev.de = "ok" /\ Ev.len >= 0
  /\ Ev.fmt = "bincode" => Ev.lossless
  \* the previous value was completely observed before it was sent on
  /\ KeysCovered(o, NH - 1, 0)
  /\ hs' = Append(hs, [armed |-> ~HasFnTok, exempt |-> hs[NH].exempt \/ ~Ev.lossless])
  /\ Adv /\ UNCHANGED <<o, eqs, refused, used>>

\* the documented non-serialisable variant: the serialiser must refuse (never write something else)
TRefuse ==
  /\ HasEv("rt") /\ NH = 1 /\ ~refused /\ Ent.role = "skipped"
  /\ Ev.h = 0 /\ Ev.fmt = In.fmts[1] /\ Ev.ser = "err"
  /\ refused' = TRUE
  /\ Adv /\ UNCHANGED <<hs, o, eqs, used>>

\* PartialEq between the original and the newest restored value
TEq ==
  /\ HasEv("eq") /\ NH >= 2 /\ Ent.eq
  /\ Ev.a = 0 /\ Ev.b = NH - 1
  /\ Ev.res \/ hs[NH].exempt                        \* equal, unless a lossy document lies in between
  /\ eqs' = eqs \cup {Ev.b}
  /\ Adv /\ UNCHANGED <<hs, o, refused, used>>

\* the tokenizer function is set again on the newest restored value
TRearm ==
  /\ HasEv("rearm") /\ NH >= 2 /\ Ent.rearm /\ HasFnTok
  /\ Ev.h = NH - 1 /\ ~hs[NH].armed
  /\ KeysCovered(o, NH - 1, 0)                       \* it was observed while disarmed
  /\ hs' = [hs EXCEPT ![NH].armed = TRUE]
  /\ Adv /\ UNCHANGED <<o, eqs, refused, used>>

\* "offer" cases (thorough tier): the compile-time probe built with only the owning crate's `serde` feature
\* reports, for concrete instantiations of the catalogue type, whether Serialize / DeserializeOwned exist.
\* A type that carries the derive attribute must really offer both (the documented skipped variant included:
\* its enum does).
TOffer ==
  /\ HasEv("offer") /\ Case.kind = "offer" /\ KnownType
  /\ Ev.type = In.type
  /\ Ev.ser /\ Ev.de
  /\ Adv /\ UNCHANGED <<hs, o, eqs, refused, used>>

AcceptOffer ==
  /\ Case.kind = "offer" /\ e = Len(Case.ev) + 1 /\ Len(Case.ev) >= 1
  /\ Ok(Case.id)
  /\ e' = e + 1 /\ UNCHANGED <<c, vars, hs, o, eqs, refused, used>>

\* structural sweep of an error enum: the deserialiser knows no variant with this index -- nothing to persist
TAbsent ==
  /\ HasEv("absent") /\ Ent.role = "sweep" /\ NH = 1 /\ e = 2 /\ e = Len(Case.ev)
  /\ Ev.index = In.var
  /\ refused' = TRUE
  /\ Adv /\ UNCHANGED <<hs, o, eqs, used>>

\* what a complete history owes
Complete ==
  IF Ent.role = "skipped" THEN refused /\ KeysOf(o, 0) # {}
  ELSE IF Ent.role = "sweep" /\ refused THEN KeysOf(o, 0) = {}
  ELSE /\ NH = Len(In.fmts) + 1
       /\ Cardinality(KeysOf(o, 0)) >= MinKeys(Ent.role)
       /\ Ent.role = "params" => {"validate", "refit"} \subseteq KeysOf(o, 0)
       /\ \A h \in 1..(NH - 1) :
            /\ KeysCovered(o, h, 0)
            /\ Ent.eq => h \in eqs
            /\ hs[h + 1].armed => KeysOf(o, 0) \subseteq ArmedKeysOf(o, h)   \* re-observed after re-arming
            /\ (HasFnTok /\ Ent.rearm) => hs[h + 1].armed

AcceptGuard == Case.kind # "offer" /\ e = Len(Case.ev) + 1 /\ NH >= 1 /\ Complete
Accept ==
  /\ AcceptGuard
  /\ IF used = {} THEN Ok(Case.id) ELSE OkDev(Case.id, used)
  /\ e' = e + 1 /\ UNCHANGED <<c, vars, hs, o, eqs, refused, used>>

Why ==
  IF e > Len(Case.ev) THEN <<e, "incomplete history", NH, Cardinality(KeysOf(o, 0))>>
  ELSE IF Ev.ev = "rt" THEN <<e, "rt", Ev.fmt, Ev.ser, Ev.de>>
  ELSE IF Ev.ev = "obs" THEN <<e, "obs", Ev.h, Ev.key, Ev.st>>
  ELSE IF Ev.ev = "eq" THEN <<e, "eq", Ev.b, Ev.res>>
  ELSE IF Ev.ev = "offer" THEN <<e, "offer", Ev.crate, Ev.rust, Ev.ser, Ev.de>>
  ELSE <<e, Ev.ev>>

Stuck ==
  /\ e <= Len(Case.ev) + 1
  /\ ~(ENABLED TCreate \/ ENABLED TObs \/ ENABLED TRoundTrip \/ ENABLED TRefuse \/ ENABLED TEq \/ ENABLED TRearm \/ ENABLED TAbsent \/ AcceptGuard
       \/ ENABLED TOffer \/ (Case.kind = "offer" /\ e = Len(Case.ev) + 1 /\ Len(Case.ev) >= 1))
  /\ Fail(Case.id, Why)
  /\ e' = Len(Case.ev) + 2 /\ UNCHANGED <<c, vars, hs, o, eqs, refused, used>>

TraceNext == TCreate \/ TAbsent \/ TObs \/ TRoundTrip \/ TRefuse \/ TEq \/ TRearm \/ Accept \/ TOffer \/ AcceptOffer \/ Stuck
=============================================================================
