------------------------- MODULE Trace_Determinism -------------------------
(***************************************************************************)
(* C20 trace validation.  A case is the RUN HISTORY of one configuration   *)
(* (estimator, variant, data, seed): one `run` event per environment       *)
(* (process ordinal, rayon pool size, repetition) of the case's plan.      *)
(*                                                                         *)
(*   Run(config, env, result):  res[config] is inferred from the first     *)
(*   run; every other run of the configuration, whatever its environment,  *)
(*   must have produced the same result: the same digest for every named   *)
(*   learned quantity / prediction (digests of exact bit patterns) and the *)
(*   same raw label vectors.  The premise (same data) is checked on the    *)
(*   data digests each run carries.  A panic of the estimator is an        *)
(*   outcome like any other (it has to be the same in every environment).  *)
(*                                                                         *)
(*   Hook layer: the kmeans.par / kmeans.red events recorded during a run  *)
(*   are replayed through SchedStep, the step function of the schedule     *)
(*   model of Determinism.tla (each row written exactly once, nothing      *)
(*   written after the barrier, barrier and reductions by the calling      *)
(*   thread, sequential consumers visit rows 0,1,2,... in order), plus log *)
(*   consistency (per-thread sequence numbers increase, at most `threads`  *)
(*   distinct threads inside a pool of that size).                         *)
(*                                                                         *)
(* Named deviations (known findings), enabled only through Devs:           *)
(*   "hier_label_order": linfa-hierarchical numbers the final clusters in  *)
(*   HashMap iteration order -- the partition is the same in every run but *)
(*   the cluster ids are an arbitrary permutation of 0..k-1.               *)
(***************************************************************************)
EXTENDS Determinism, TraceIO

CONSTANTS Devs,          \* set of enabled deviation names
          RequireHook,   \* TRUE iff the tree under test contains the kmeans.par hook
          RequireVal     \* TRUE iff it also reports the values of the inertia reductions (hook v2)

VARIABLES c, e,          \* case and event cursor
          ref,           \* the inferred result of the configuration (NoRef until the first run)
          envs,          \* environments seen so far
          used           \* deviations that were needed

tvars == <<c, e, ref, envs, used>>

Case == Rec[c]
In   == Case.inp
Ev   == Case.ev[e]

NoRef == [none |-> TRUE]

TraceInit ==
  /\ c \in 1..Len(Rec) /\ e = 1
  /\ ref = NoRef /\ envs = {} /\ used = {}
  /\ sched = SchedInit0 /\ hs = [pc |-> "off"]

HasEv(name) == e <= Len(Case.ev) /\ Ev.ev = name

\* an environment = (process, pool size, repetition, builder history)
Hists == {In.hists[q] : q \in 1..Len(In.hists)}
Planned ==
  UNION {{<<p, In.plan[q][1], r, h>> : p \in 0..(In.nproc - 1), r \in 0..(In.plan[q][2] - 1), h \in Hists} : q \in 1..Len(In.plan)}
EnvOf(ev) == <<ev.proc, ev.thr, ev.rep, ev.hist>>

-----------------------------------------------------------------------------
(* hook layer *)

ParSites == 1..3      \* memberships, min_dists, memberships_dists
RedSites == 4..5      \* centroids, centroids_incr
SumSites == 6..10     \* fit, fit_with, fit_with_init, plusplus, cluster_count
ValSites == 6..7      \* fit, fit_with: the inertia as stored, next to the sequential fold of the distances
MaxTid   == 127

H0 == [st |-> SchedInit0, site |-> 0, nval |-> 0, sums |-> {}, last |-> [t \in 1..(MaxTid + 1) |-> -1], tids |-> {}, bad |-> 0]

HookStep(h, ev, q) ==
  IF h.bad # 0 THEN h
  ELSE
  LET code == ev[1]  site == ev[2]  tid == ev[3]  seq == ev[4]  arg == ev[5]
      \* a value event carries two bit patterns (hex strings): what the code used / the sequential fold
      arg2 == IF code = CVal THEN (IF Len(ev) >= 7 /\ ev[6] = ev[7] THEN 1 ELSE 0) ELSE arg
      st2  == SchedStep(h.st, code, tid, arg2, "trace")
      siteOk == IF code \in {CBegin, CBeginC} THEN site \in ParSites
                ELSE IF code \in {CRedBegin, CRedBeginC} THEN site \in RedSites
                ELSE IF code = CSum THEN site \in SumSites
                ELSE IF code = CVal THEN site \in ValSites
                ELSE site = h.site
      logOk == tid \in 0..MaxTid /\ seq > h.last[tid + 1]
  IN IF ~logOk \/ ~siteOk \/ st2 = Bad
       THEN [h EXCEPT !.bad = q]
       ELSE [st |-> st2,
             site |-> IF code \in {CBegin, CRedBegin, CBeginC, CRedBeginC} THEN site ELSE h.site,
             nval |-> h.nval + (IF code = CVal THEN 1 ELSE 0),
             sums |-> IF code = CSum THEN h.sums \cup {site} ELSE h.sums,
             last |-> [h.last EXCEPT ![tid + 1] = seq],
             tids |-> h.tids \cup {tid},
             bad |-> 0]

RECURSIVE HookFold(_, _, _)
HookFold(evs, q, h) == IF q > Len(evs) THEN h ELSE HookFold(evs, q + 1, HookStep(h, evs[q], q))

HookResult(ev) == HookFold(ev.par, 1, H0)
HookOk(ev) ==
  ev.panic # "" \/              \* a run that panicked mid-loop leaves its loop open: only its outcome is compared
  LET h == HookResult(ev) IN
  /\ h.bad = 0
  /\ h.st.phase \in {"idle", "joined"}                       \* no loop left open
  /\ ev.thr > 0 => Cardinality(h.tids) <= ev.thr              \* work stays inside the installed pool
  /\ (In.hook /\ RequireHook) => Len(ev.par) > 0              \* the instrumented loops really ran
  \* every hooked fit reports its reductions: batch k-means the inertia sum and the member count,
  \* mini-batch k-means the inertia sum of the batch
  /\ (In.hook /\ RequireHook /\ In.est = "kmeans") => {6, 10} \subseteq h.sums
  /\ (In.hook /\ RequireHook /\ In.est = "kmeans_incr") => 7 \in h.sums
  /\ (In.hook /\ RequireVal /\ In.est \in {"kmeans", "kmeans_incr"}) => h.nval > 0   \* every fit reports its inertia
  /\ ~In.hook => Len(ev.par) = 0

-----------------------------------------------------------------------------
(* run history *)

NData == 3      \* the first three observations are the digests of the input data (the premise)
Premise(obs) == [q \in 1..NData |-> obs[q]]

Names(obs) == {obs[q][1] : q \in 1..Len(obs)}
RawOf(raw, name) == LET q == CHOOSE q \in 1..Len(raw) : raw[q][1] = name IN raw[q][2]
HasRaw(raw, name) == \E q \in 1..Len(raw) : raw[q][1] = name

\* b is a renaming of a: same partition, same set of ids
Renaming(a, b) ==
  /\ Len(a) = Len(b)
  /\ {a[q] : q \in 1..Len(a)} = {b[q] : q \in 1..Len(b)}
  /\ \A p, q \in 1..Len(a) : (a[p] = a[q]) <=> (b[p] = b[q])

SameStrict(ev) == ev.obs = ref.obs /\ ev.raw = ref.raw

\* deviation: hierarchical clustering label numbering
SameHier(ev) ==
  /\ "hier_label_order" \in Devs /\ In.est = "hier"
  /\ Len(ev.obs) = Len(ref.obs)
  /\ \A q \in 1..Len(ev.obs) : ev.obs[q] = ref.obs[q] \/ ev.obs[q][1] = "labels"
  /\ HasRaw(ev.raw, "labels") /\ HasRaw(ref.raw, "labels")
  /\ Renaming(RawOf(ref.raw, "labels"), RawOf(ev.raw, "labels"))

\* the clauses a run event has to satisfy (evaluated once per event, see TRun)
EnvOk  == LET k == EnvOf(Ev) IN k \in Planned /\ k \notin envs
DevHier == ref # NoRef /\ ~SameStrict(Ev) /\ SameHier(Ev)
RunOk ==
  /\ EnvOk
  /\ Len(Ev.obs) >= NData
  /\ HookOk(Ev)
  /\ ref # NoRef => /\ Premise(Ev.obs) = Premise(ref.obs)
                    /\ SameStrict(Ev) \/ SameHier(Ev)

AcceptGuard ==
  /\ e = Len(Case.ev) + 1
  /\ envs = Planned /\ Cardinality(envs) >= 2            \* every planned environment was run

Accept ==
  /\ AcceptGuard
  /\ IF used = {} THEN Ok(Case.id) ELSE OkDev(Case.id, used)
  /\ e' = e + 1 /\ UNCHANGED <<c, ref, envs, used, dvars>>

-----------------------------------------------------------------------------
(* diagnostics: name the first false clause *)

FirstDiff(a, b) ==
  IF Len(a) # Len(b) THEN "number-of-observations"
  ELSE IF a = b THEN "raw-values"
  ELSE a[CHOOSE q \in 1..Len(a) : a[q] # b[q] /\ \A p \in 1..(q - 1) : a[p] = b[p]][1]

\* (one string: TLC wraps long tuples over several lines, which the orchestrator would not parse)
EnvStr(ev) == "proc " \o ToString(ev.proc) \o " threads " \o ToString(ev.thr) \o " rep " \o ToString(ev.rep) \o " builder " \o ev.hist
Why ==
  IF e > Len(Case.ev) THEN
     "end: environments run (" \o ToString(Cardinality(envs)) \o ") differ from the plan (" \o ToString(Cardinality(Planned)) \o ")"
  ELSE IF Ev.ev # "run" THEN "event " \o ToString(e) \o " " \o Ev.ev \o ": " \o Ev.msg
  ELSE IF EnvOf(Ev) \notin Planned \/ EnvOf(Ev) \in envs
     THEN "event " \o ToString(e) \o " unplanned or repeated environment " \o EnvStr(Ev)
  ELSE IF Len(Ev.obs) < NData THEN "event " \o ToString(e) \o " no observations"
  ELSE IF ~HookOk(Ev) THEN
     LET h == HookResult(Ev) IN
     "event " \o ToString(e) \o " (" \o EnvStr(Ev) \o ") schedule model rejects hook event #" \o ToString(h.bad)
       \o (IF h.bad # 0 THEN " code " \o ToString(Ev.par[h.bad][1]) \o " site " \o ToString(Ev.par[h.bad][2]) \o " tid "
              \o ToString(Ev.par[h.bad][3]) \o " arg " \o ToString(Ev.par[h.bad][5])
              \o (IF Ev.par[h.bad][1] = CVal /\ Len(Ev.par[h.bad]) >= 7
                    THEN " value used " \o Ev.par[h.bad][6] \o " # sequential fold " \o Ev.par[h.bad][7] ELSE "")
           ELSE " (a required reduction / value event is missing, a loop is left open, or too many threads)")
       \o "; phase " \o h.st.phase \o ", " \o ToString(Cardinality(h.tids)) \o " threads, " \o ToString(Len(Ev.par)) \o " events"
  ELSE IF ref # NoRef /\ Premise(Ev.obs) # Premise(ref.obs) THEN "event " \o ToString(e) \o " premise: input data differ between runs (harness)"
  ELSE IF ref # NoRef THEN
     "event " \o ToString(e) \o " (" \o EnvStr(Ev) \o "): " \o FirstDiff(ref.obs, Ev.obs) \o " differs from the first run"
  ELSE "event " \o ToString(e) \o " ?"

\* short form (fits TLC's 80-column tuple printing, parsed by lib/vlib.py)
WhyShort ==
  IF e > Len(Case.ev) THEN "plan-not-covered"
  ELSE IF Ev.ev # "run" THEN Ev.ev
  ELSE IF EnvOf(Ev) \notin Planned \/ EnvOf(Ev) \in envs THEN "environment"
  ELSE IF Len(Ev.obs) < NData THEN "no-observations"
  ELSE IF ~HookOk(Ev) THEN "schedule-hook"
  ELSE IF ref # NoRef /\ Premise(Ev.obs) # Premise(ref.obs) THEN "premise"
  ELSE IF ref # NoRef THEN "differs:" \o FirstDiff(ref.obs, Ev.obs)
  ELSE "?"

\* a run event is either explained (TRun advances) or it is the first unexplained event: the
\* diagnostics are printed and the case is abandoned.  RunOk is evaluated once (LET is lazy + cached).
TRun ==
  /\ HasEv("run")
  /\ LET ok == RunOk IN
     IF ok
       THEN /\ envs' = envs \cup {EnvOf(Ev)}
            /\ ref' = IF ref = NoRef THEN [obs |-> Ev.obs, raw |-> Ev.raw] ELSE ref
            /\ used' = IF DevHier THEN used \cup {"hier_label_order"} ELSE used
            /\ e' = e + 1
       ELSE /\ Fail(Case.id, <<e, WhyShort>>)
            /\ PrintT("DIAG " \o ToString(Case.id) \o " " \o In.est \o "/" \o In.var \o ": " \o Why)
            /\ e' = Len(Case.ev) + 2 /\ UNCHANGED <<ref, envs, used>>
  /\ UNCHANGED <<c, dvars>>

\* an event that is not a run (a crashed child process), or a plan that was not covered
Stuck ==
  /\ e <= Len(Case.ev) + 1
  /\ ~HasEv("run") /\ ~AcceptGuard
  /\ Fail(Case.id, <<e, WhyShort>>)
  /\ PrintT("DIAG " \o ToString(Case.id) \o " " \o In.est \o "/" \o In.var \o ": " \o Why)
  /\ e' = Len(Case.ev) + 2 /\ UNCHANGED <<c, ref, envs, used, dvars>>

TraceNext == TRun \/ Accept \/ Stuck
=============================================================================
