------------------------------- MODULE DTree -------------------------------
(***************************************************************************)
(* C14 -- decision trees (linfa-trees, decision_trees/algorithm.rs).       *)
(*                                                                         *)
(* Part 1: the property-level predicates on a tree given as a set of node  *)
(*   records [path, depth, leaf, feat, thr2, pred, dec6] over a dataset    *)
(*   D = [n, d, x2, y, w4] and hyper-parameters H = [crit, md, mws4, mwl4, *)
(*   mid6].  Units: x2 / thr2 are DOUBLED feature values (thresholds are   *)
(*   midpoints of integers, so 2*threshold is an integer), w4 / mws4 /     *)
(*   mwl4 are QUARTER units of weight, dec6 / mid6 are 10^-6 units.        *)
(*   Routing convention cv: "lt" = left iff x < threshold (what predict    *)
(*   does), "le" = left iff x <= threshold (what the documentation says    *)
(*   and the fit-time masks use).  The statement does not fix it, so it is *)
(*   a parameter which the trace specification quantifies existentially.   *)
(*                                                                         *)
(* Part 2: a design model at the grain of the code: Grow (one call of      *)
(*   TreeNode::fit: stop tests, any admissible split, masks by <=),        *)
(*   Prune (merge sibling leaves with equal prediction), whose invariants  *)
(*   are the predicates of part 1 evaluated with predict-time routing.     *)
(*   The model may choose ANY admissible split and ANY modal label (the    *)
(*   statement does not promise the best split nor a tie-break).           *)
(***************************************************************************)
EXTENDS Fx, DTreeLn, TLC

CONSTANTS MaxN, MaxV, MaxK, MaxD,   \* bounds of the design model only (MaxD = 1 or 2 features)
          Mws, Mwl, Mid          \* sets of min_weight_split / min_weight_leaf (quarter units) / min decrease (1e-6)

VARIABLES ds, hp, nodes, fm, todo, pc
vars == <<ds, hp, nodes, fm, todo, pc>>

-----------------------------------------------------------------------------
(* Paths and nodes *)
Parent(p) == SubSeq(p, 1, Len(p) - 1)
IsPrefix(p, q) == Len(p) <= Len(q) /\ SubSeq(q, 1, Len(p)) = p
HasPath(NS, p) == \E nd \in NS : nd.path = p
Node(NS, p) == CHOOSE nd \in NS : nd.path = p
Splits(NS) == {nd \in NS : ~nd.leaf}
Leaves(NS) == {nd \in NS : nd.leaf}

\* a binary tree: unique paths, root present, every non-root node hangs under a split node,
\* a split node has exactly two children and tests an existing feature, a leaf has none
PathsUnique(NS) == \A a, b \in NS : a.path = b.path => a = b
PathsBinary(NS) == \A nd \in NS : \A q \in 1..Len(nd.path) : nd.path[q] \in {0, 1}
DepthIsLen(NS) == \A nd \in NS : nd.depth = Len(nd.path)
ParentsSplit(NS) == \A nd \in NS : Len(nd.path) > 0 => (HasPath(NS, Parent(nd.path)) /\ ~Node(NS, Parent(nd.path)).leaf)
ChildrenOk(NS) ==
  \A nd \in NS :
    IF nd.leaf THEN ~HasPath(NS, Append(nd.path, 0)) /\ ~HasPath(NS, Append(nd.path, 1))
    ELSE HasPath(NS, Append(nd.path, 0)) /\ HasPath(NS, Append(nd.path, 1))
FeatOk(NS, d) == \A nd \in Splits(NS) : nd.feat \in 0..(d - 1)
WellFormed(NS, d) ==
  /\ PathsUnique(NS) /\ HasPath(NS, <<>>) /\ PathsBinary(NS) /\ DepthIsLen(NS)
  /\ ParentsSplit(NS) /\ ChildrenOk(NS) /\ FeatOk(NS, d)

DepthOk(NS, H) == H.md >= 0 => \A nd \in NS : Len(nd.path) <= H.md

-----------------------------------------------------------------------------
(* Routing a point (doubled coordinates q2) to its leaf; requires WellFormed *)
GoesLeft(cv, v2, thr2) == IF cv = "lt" THEN v2 < thr2 ELSE v2 <= thr2
RECURSIVE RouteLeaf(_, _, _, _)
RouteLeaf(NS, cv, q2, p) ==
  LET nd == Node(NS, p) IN
  IF nd.leaf THEN p
  ELSE IF GoesLeft(cv, q2[nd.feat + 1], nd.thr2) THEN RouteLeaf(NS, cv, q2, Append(p, 0))
  ELSE RouteLeaf(NS, cv, q2, Append(p, 1))

LeafOf(NS, cv, D) == [i \in 1..D.n |-> RouteLeaf(NS, cv, D.x2[i], <<>>)]
\* training samples whose route passes through the node at path p (lf = LeafOf)
Reach(lf, p) == {i \in DOMAIN lf : IsPrefix(p, lf[i])}

-----------------------------------------------------------------------------
(* Weighted label statistics of a set S of sample indices *)
WSum(D, S) == SumSeq([i \in 1..D.n |-> IF i \in S THEN D.w4[i] ELSE 0])
CW(D, S, c) == SumSeq([i \in 1..D.n |-> IF i \in S /\ D.y[i] = c THEN D.w4[i] ELSE 0])
LabelsOf(D) == {D.y[i] : i \in 1..D.n}
\* labels of maximal weight among the samples of S (ties: all of them)
Modal(D, S) ==
  LET present == {D.y[i] : i \in S} IN
  {c \in present : \A c2 \in present : CW(D, S, c) >= CW(D, S, c2)}

\* floor(A * 10^6 / B) by long division in base 1000; 0 <= A <= 2147 * B, B < 2 * 10^6 ; 0 if B = 0
LongDiv6(A, B) ==
  IF B = 0 THEN 0
  ELSE LET q1 == A \div B  r1 == A % B
           q2 == (r1 * 1000) \div B  r2 == (r1 * 1000) % B
           q3 == (r2 * 1000) \div B
       IN q1 * 1000000 + q2 * 1000 + q3

\* sum over classes of (class weight)^2 = sum over samples i of w_i * (weight of i's class)
SqSum(D, S) == SumSeq([i \in 1..D.n |-> IF i \in S THEN D.w4[i] * CW(D, S, D.y[i]) ELSE 0])

\* Gini:  W * Imp(S) = W - SqSum(S)/W, hence
\*   decrease = Imp(P) - WL/W Imp(L) - WR/W Imp(R) = (SqSum(L)/WL + SqSum(R)/WR - SqSum(P)/W) / W
\* in 10^-6 units, |error| <= 2 (three floors, W >= 2)
GiniDec6(D, P, L, R) ==
  LET W == WSum(D, P) IN
  IF W = 0 THEN 0
  ELSE (LongDiv6(SqSum(D, L), WSum(D, L)) + LongDiv6(SqSum(D, R), WSum(D, R)) - LongDiv6(SqSum(D, P), W)) \div W

\* Entropy (bits):  W * H(S) * ln 2 = W ln W - sum_c w_c ln w_c =: G(S)  (scale-free in the weight unit)
\*   decrease = (G(P) - G(L) - G(R)) / (W ln 2) ; ln from the self-checked table DTreeLn.Ln6 (10^-6 units,
\*   total weight <= 320 quarter units so that W * Ln6(W) < 2^31)
\*   sum_c w_c ln w_c = sum over samples i of w_i ln(weight of i's class)
GEnt(D, S) ==
  LET W == WSum(D, S) IN
  IF W = 0 THEN 0
  ELSE W * Ln6(W) - SumSeq([i \in 1..D.n |-> IF i \in S THEN D.w4[i] * Ln6(CW(D, S, D.y[i])) ELSE 0])
EntDec6(D, P, L, R) ==
  LET W == WSum(D, P) IN
  IF W = 0 THEN 0
  ELSE LET nat6 == RoundDiv(GEnt(D, P) - GEnt(D, L) - GEnt(D, R), W)     \* nats, 10^-6
       IN nat6 + MulS6(nat6, 442695)                                      \* / ln 2 = * 1.442695

Dec6(crit, D, P, L, R) == IF crit = "gini" THEN GiniDec6(D, P, L, R) ELSE EntDec6(D, P, L, R)
\* allowance in 10^-6 units between the reported (f32 arithmetic, rounded to 10^-6) and the recomputed
\* decrease.  Gini: 2 (floors) + 1 (rounding of the log) + 5 (f32: ~10 operations at 6e-8 on values <= 1).
\* Entropy: ln table within 1 unit per entry -> (2W + 2WL + 2WR)/W = 4 units of nats, + 0.5 (RoundDiv),
\* times 1.4427 -> 6.5, + 2 (MulS6) + 0.5 (rounding of the log) + 3 (f32 log2 / sums on values <= 3)
DecSlack(crit) == IF crit = "gini" THEN 8 ELSE 12

-----------------------------------------------------------------------------
(* The clauses of the statement, on a well-formed tree with lf = LeafOf(NS, cv, D) *)
L0(nd) == Append(nd.path, 0)
R0(nd) == Append(nd.path, 1)

\* reached by at least min_weight_split training samples (the code and the statement count samples)
MinSplitOk(NS, D, H, lf) == \A nd \in Splits(NS) : 4 * Cardinality(Reach(lf, nd.path)) >= H.mws4
\* at least min_weight_leaf of training weight on each side
MinLeafOk(NS, D, H, lf) ==
  \A nd \in Splits(NS) : WSum(D, Reach(lf, L0(nd))) >= H.mwl4 /\ WSum(D, Reach(lf, R0(nd))) >= H.mwl4
\* the reported decrease is the actual decrease of the criterion
DecActualOk(NS, D, H, lf, slack) ==
  \A nd \in Splits(NS) :
    Abs(nd.dec6 - Dec6(H.crit, D, Reach(lf, nd.path), Reach(lf, L0(nd)), Reach(lf, R0(nd)))) <= slack
DecMinOk(NS, H, slack) == \A nd \in Splits(NS) : nd.dec6 >= H.mid6 - slack
\* each leaf predicts a label of maximal weight among the training samples reaching it
LeafModalOk(NS, D, lf) ==
  \A nd \in Leaves(NS) : Reach(lf, nd.path) # {} => nd.pred \in Modal(D, Reach(lf, nd.path))
LeafLabelOk(NS, D) == \A nd \in Leaves(NS) : nd.pred \in LabelsOf(D)
\* the leaves partition the training set (consequence of well-formedness + routing)
PartitionOk(NS, D, lf) ==
  /\ \A i \in 1..D.n : \E nd \in Leaves(NS) : lf[i] = nd.path
  /\ \A nd \in Splits(NS) :
       Reach(lf, nd.path) = Reach(lf, L0(nd)) \cup Reach(lf, R0(nd)) /\ Reach(lf, L0(nd)) \cap Reach(lf, R0(nd)) = {}

TreeClauses(NS, D, H, lf, slack, mslack) ==
  /\ MinSplitOk(NS, D, H, lf) /\ MinLeafOk(NS, D, H, lf) /\ DecActualOk(NS, D, H, lf, slack)
  /\ DecMinOk(NS, H, mslack) /\ LeafModalOk(NS, D, lf) /\ LeafLabelOk(NS, D) /\ PartitionOk(NS, D, lf)

-----------------------------------------------------------------------------
(* Part 2: design model *)

Idx == 1..ds.n
Val2(i, f) == ds.x2[i][f + 1]

\* nondecreasing sequences (the model does not depend on the row order)
NonDec(s) == \A q \in 1..(Len(s) - 1) : s[q] <= s[q + 1]
WPat(n, pat) == IF pat = "unit" THEN [i \in 1..n |-> 4]
                ELSE [i \in 1..n |-> <<2, 2, 8, 4, 6, 4>>[i]]

ModelPoint2(cell) == IF MaxD = 1 THEN <<2 * cell>> ELSE <<2 * (cell \div (MaxV + 1)), 2 * (cell % (MaxV + 1))>>
ModelCells == IF MaxD = 1 THEN 0..MaxV ELSE 0..((MaxV + 1) * (MaxV + 1) - 1)

Init ==
  /\ \E n \in 1..MaxN :
     \E xs \in {s \in [1..n -> ModelCells] : NonDec(s)}, ys \in [1..n -> 0..(MaxK - 1)], pat \in {"unit", "mixed"} :
        /\ ys[1] = 0
        /\ ds = [n |-> n, d |-> MaxD, x2 |-> [i \in 1..n |-> ModelPoint2(xs[i])], y |-> ys, w4 |-> WPat(n, pat)]
  /\ hp \in [crit : {"gini", "entropy"}, md : {-1, 0, 1, 2}, mws4 : Mws, mwl4 : Mwl, mid6 : Mid]
  /\ nodes = {}
  /\ fm = <<>>                   \* path -> fit-time mask, as a sequence of <<path, mask>> pairs
  /\ todo = {<<<<>>, 1..ds.n>>}
  /\ pc = "grow"

FitMask(p) == LET q == CHOOSE q \in DOMAIN fm : fm[q][1] = p IN fm[q][2]

LeafNode(p, c) == [path |-> p, depth |-> Len(p), leaf |-> TRUE, feat |-> 0, thr2 |-> 0, pred |-> c, dec6 |-> 0]

\* candidate thresholds (doubled) of feature f inside mask m: any value strictly between two
\* neighbouring distinct values of the mask (the code takes the midpoint with the next value in the
\* global sort order, which may belong to a sample outside the mask but lies in the same gap)
Cands(m, f) ==
  {t2 \in 0..(2 * MaxV) :
     \E a, b \in m : /\ Val2(a, f) < t2 /\ t2 < Val2(b, f)
                     /\ ~\E c \in m : Val2(a, f) < Val2(c, f) /\ Val2(c, f) < Val2(b, f)}

LeftOf(m, f, t2)  == {i \in m : Val2(i, f) <= t2}      \* fit-time mask: <=
RightOf(m, f, t2) == {i \in m : ~(Val2(i, f) <= t2)}

Admissible(m, f, t2) ==
  /\ WSum(ds, LeftOf(m, f, t2)) >= hp.mwl4 /\ WSum(ds, RightOf(m, f, t2)) >= hp.mwl4
  /\ Dec6(hp.crit, ds, m, LeftOf(m, f, t2), RightOf(m, f, t2)) >= hp.mid6

Grow ==
  /\ pc = "grow"
  /\ \E item \in todo :
       LET p == item[1]  m == item[2] IN
       \E c \in Modal(ds, m) :
         /\ fm' = Append(fm, <<p, m>>)
         /\ IF 4 * Cardinality(m) < hp.mws4 \/ (hp.md >= 0 /\ Len(p) >= hp.md)
                \/ ~\E f \in 0..(ds.d - 1) : \E t2 \in Cands(m, f) : Admissible(m, f, t2)
              THEN /\ nodes' = nodes \cup {LeafNode(p, c)}
                   /\ todo' = todo \ {item}
              ELSE \E f \in 0..(ds.d - 1) : \E t2 \in Cands(m, f) :
                   /\ Admissible(m, f, t2)
                   /\ nodes' = nodes \cup {[path |-> p, depth |-> Len(p), leaf |-> FALSE, feat |-> f, thr2 |-> t2, pred |-> c,
                                            dec6 |-> Dec6(hp.crit, ds, m, LeftOf(m, f, t2), RightOf(m, f, t2))]}
                   /\ todo' = (todo \ {item}) \cup {<<Append(p, 0), LeftOf(m, f, t2)>>, <<Append(p, 1), RightOf(m, f, t2)>>}
         /\ pc' = IF todo' = {} THEN "prune" ELSE "grow"
  /\ UNCHANGED <<ds, hp>>

Prunable(nd) ==
  /\ ~nd.leaf
  /\ Node(nodes, L0(nd)).leaf /\ Node(nodes, R0(nd)).leaf
  /\ Node(nodes, L0(nd)).pred = Node(nodes, R0(nd)).pred

Prune ==
  /\ pc = "prune"
  /\ IF \E nd \in nodes : Prunable(nd)
       THEN \E nd \in nodes :
              /\ Prunable(nd)
              /\ nodes' = (nodes \ {nd, Node(nodes, L0(nd)), Node(nodes, R0(nd))})
                            \cup {LeafNode(nd.path, Node(nodes, L0(nd)).pred)}
              /\ pc' = "prune"
       ELSE nodes' = nodes /\ pc' = "done"
  /\ UNCHANGED <<ds, hp, fm, todo>>

Next == Grow \/ Prune
Spec == Init /\ [][Next]_vars

-----------------------------------------------------------------------------
(* Invariants of the design.  The final tree is judged with PREDICT-time routing ("lt"),    *)
(* although the masks were built with <=: thresholds never coincide with a sample value.    *)
Final == pc \in {"prune", "done"}
PLf == LeafOf(nodes, "lt", ds)

InvWellFormed == Final => WellFormed(nodes, ds.d)
InvDepth      == DepthOk(nodes, hp)
InvClauses    == Final => TreeClauses(nodes, ds, hp, PLf, 0, 0)
\* every training sample is routed by prediction into the node it was routed to while fitting
InvFitReach   == Final => \A nd \in nodes : Reach(PLf, nd.path) = FitMask(nd.path)
\* ... under either reading of the threshold test
InvConvAgree  == Final => LeafOf(nodes, "lt", ds) = LeafOf(nodes, "le", ds)
\* only labels seen in training are predicted, for any point of feature space
InvLabels     == Final => \A v \in -1..(2 * MaxV + 1), u \in (IF MaxD = 1 THEN {0} ELSE -1..(2 * MaxV + 1)) :
                   Node(nodes, RouteLeaf(nodes, "lt", IF MaxD = 1 THEN <<v>> ELSE <<v, u>>, <<>>)).pred \in LabelsOf(ds)
\* the recomputed decrease is never negative (concavity of both criteria), up to the table error
InvDecNonNeg  == \A nd \in Splits(nodes) : nd.dec6 >= hp.mid6

=============================================================================
