---------------------------- MODULE EmIdxProofs ----------------------------
(***************************************************************************)
(* X08 -- TLAPS proof that IndInv of specs/EmIdx.tla (pointwise EM outer   *)
(* loop / restart bookkeeping, every variable an unbounded integer) is     *)
(* inductive and implies Safety: a second, independent tool for the        *)
(* unbounded result that Apalache discharges (props/x08.py).               *)
(***************************************************************************)
EXTENDS EmIdx, TLAPS

ASSUME VariantOk == Variant = "ok"

THEOREM IndInit == Init => IndInv
  BY VariantOk DEF Init, IndInv, TypeOk, InvBudget, PBest, PConv, PResult

THEOREM IndSafe == IndInv => Safety
  BY DEF IndInv, Safety

THEOREM IndStep == IndInv /\ [Next]_vars => IndInv'
<1> SUFFICES ASSUME IndInv, [Next]_vars PROVE IndInv'
  OBVIOUS
<1>1. CASE StartRun
  BY <1>1, VariantOk DEF StartRun, IndInv, TypeOk, InvBudget, PBest, PConv, PResult
<1>2. CASE EmIter
  <2>1. EmIterV(lbv') /\ lbv' \in Int
    BY <1>2 DEF EmIter
  <2>2. CASE Conv(lbv')
    BY <2>1, <2>2, VariantOk DEF EmIterV, Conv, EAbs, IndInv, TypeOk, InvBudget, PBest, PConv, PResult
  <2>3. CASE ~Conv(lbv')
    BY <2>1, <2>3, VariantOk DEF EmIterV, Conv, EAbs, IndInv, TypeOk, InvBudget, PBest, PConv, PResult
  <2> QED
    BY <2>2, <2>3
<1>3. CASE EmRunEnd
  <2>2. CASE Kept /\ hlen + 1 = s
    BY <1>3, <2>2, VariantOk DEF EmRunEnd, Kept, IndInv, TypeOk, InvBudget, PBest, PConv, PResult
  <2>3. CASE Kept /\ hlen + 1 # s
    BY <1>3, <2>3, VariantOk DEF EmRunEnd, Kept, IndInv, TypeOk, InvBudget, PBest, PConv, PResult
  <2>4. CASE ~Kept /\ hlen + 1 = s
    BY <1>3, <2>4, VariantOk DEF EmRunEnd, Kept, IndInv, TypeOk, InvBudget, PBest, PConv, PResult
  <2>5. CASE ~Kept /\ hlen + 1 # s
    BY <1>3, <2>5, VariantOk DEF EmRunEnd, Kept, IndInv, TypeOk, InvBudget, PBest, PConv, PResult
  <2> QED
    BY <2>2, <2>3, <2>4, <2>5
<1>4. CASE EmResult
  BY <1>4, VariantOk DEF EmResult, IndInv, TypeOk, InvBudget, PBest, PConv, PResult
<1>5. CASE UNCHANGED vars
  BY <1>5 DEF vars, IndInv, TypeOk, InvBudget, PBest, PConv, PResult
<1> QED
  BY <1>1, <1>2, <1>3, <1>4, <1>5 DEF Next
=============================================================================
