------------------------------- MODULE SmoInd -------------------------------
(***************************************************************************)
(* X06 (b) -- Apalache-typed restatement of the bookkeeping layer of       *)
(* specs/Smo.tla (linfa-svm/src/solver_smo.rs: SolverState::swap,          *)
(* do_shrinking, the write-back loop of solve()) with an inductive         *)
(* invariant.                                                              *)
(*                                                                         *)
(* Differences to Smo.tla (checked by the TLC cross-check XC_SmoInd.tla:   *)
(* the states of this module with pc \in {"run","done"}, projected on the  *)
(* variables of Smo.tla, are exactly the reachable states of Smo.tla):     *)
(*  - the per-position arrays are functions 1..L -> Int (for TLC these ARE *)
(*    the sequences of Smo.tla);                                           *)
(*  - Smo.tla runs the shrink loop inside one atomic Shrink action with    *)
(*    RECURSIVE operators Outer/Inner (Apalache has no recursion).  Here   *)
(*    the loop is unrolled into steps at the grain of the code:            *)
(*      ShrinkBegin (choose the set S of variables to be shrunk, i := 0),  *)
(*      OuterStep   (`while i < nactive`, `if should_shrunk(i)`),          *)
(*      InnerStep   (`while nactive > i`, swap-and-break / nactive -= 1),  *)
(*    so the loop invariant is part of IndInv and the Assert of Smo.Shrink *)
(*    becomes the state invariant InvShrinkPost;                           *)
(*  - Smo.tla writes back with  out[s] = a[CHOOSE q : pos2s[q] = s-1].     *)
(*    Here the write-back is the scatter loop of the code, one WbStep per  *)
(*    position:  out[pos2s[q] + 1] := a[q]  (no CHOOSE).                   *)
(*                                                                         *)
(* L is a CONSTANT: one Apalache run proves IndInv inductive for one L,    *)
(* for every permutation, every alpha vector, every shrink set and any     *)
(* number of Update/Shrink/Unshrink rounds.  The proof for ALL L is        *)
(* SmoProofs.tla (TLAPS).                                                  *)
(*                                                                         *)
(* Variant # "ok" seeds the design bugs of Smo.tla:                        *)
(*   "nobounds"   swap() forgets the bounds array                          *)
(*   "inverse"    write-back gathers  out[s] = alpha[pos2s[s]]             *)
(*   "staticloop" loop bound of the shrink loop fixed before shrinking     *)
(***************************************************************************)
EXTENDS Integers, FiniteSets

CONSTANTS
  \* @type: Int;
  L,
  \* @type: Str;
  Variant

VARIABLES
  \* position -> sample id (0-based): active_set
  \* @type: Int -> Int;
  pos2s,
  \* @type: Int -> Int;
  yP,
  \* @type: Int -> Int;
  bP,
  \* @type: Int -> Int;
  pP,
  \* @type: Int -> Int;
  kiP,
  \* alpha per position: 0 = at lower bound, 1 = free, 2 = at upper bound
  \* @type: Int -> Int;
  aP,
  \* @type: Int;
  nact,
  \* @type: Str;
  pc,
  \* @type: Int -> Int;
  outv,
  \* shrink loop: chosen samples, loop index (0-based position), nact at loop entry
  \* @type: Set(Int);
  S,
  \* @type: Int;
  i0,
  \* @type: Int;
  nact0,
  \* write-back loop index (1-based position)
  \* @type: Int;
  wq

vars == <<pos2s, yP, bP, pP, kiP, aP, nact, pc, outv, S, i0, nact0, wq>>

PosSet == 1..L

(* ------------------------------------------------------ shared predicates (Smo.tla) *)
\* @type: (Int -> Int, Int) => Bool;
IsPerm0(as, n) == DOMAIN as = 1..n /\ \A s \in 0..(n - 1) : \E q \in 1..n : as[q] = s
\* @type: (Int -> Int, Int -> Int, Int -> Int) => Bool;
Follows(arr, orig, as) == DOMAIN arr = DOMAIN as /\ \A q \in DOMAIN as : arr[q] = orig[as[q] + 1]
\* @type: (Int -> Int, Int -> Int, Int -> Int) => Bool;
ScatterOk(out, a, as) == DOMAIN out = DOMAIN as /\ \A q \in DOMAIN as : out[as[q] + 1] = a[q]

Y0  == [s \in PosSet |-> s % 2]
B0  == [s \in PosSet |-> 10 + s]
P0  == [s \in PosSet |-> 20 + s]
KI0 == [s \in PosSet |-> s - 1]
Zero == [s \in PosSet |-> 0]

Init ==
  /\ pos2s = [q \in PosSet |-> q - 1]
  /\ yP = Y0 /\ bP = B0 /\ pP = P0 /\ kiP = KI0
  /\ aP = Zero
  /\ nact = L /\ pc = "run" /\ outv = Zero
  /\ S = {} /\ i0 = 0 /\ nact0 = 0 /\ wq = 1

\* @type: (Int -> Int, Int, Int) => (Int -> Int);
SwapF(fn, a, b) == [fn EXCEPT ![a] = fn[b], ![b] = fn[a]]

\* SolverState::swap(a-1, b-1)
SwapAll(a, b) ==
  /\ pos2s' = SwapF(pos2s, a, b)
  /\ yP' = SwapF(yP, a, b)
  /\ bP' = IF Variant = "nobounds" THEN bP ELSE SwapF(bP, a, b)
  /\ pP' = SwapF(pP, a, b)
  /\ kiP' = SwapF(kiP, a, b)
  /\ aP' = SwapF(aP, a, b)

Update ==
  /\ pc = "run"
  /\ \E i, j \in PosSet : \E vi, vj \in 0..2 :
       /\ i <= nact /\ j <= nact /\ i # j
       /\ aP' = [aP EXCEPT ![i] = vi, ![j] = vj]
  /\ UNCHANGED <<pos2s, yP, bP, pP, kiP, nact, pc, outv, S, i0, nact0, wq>>

\* samples whose variable is active and at a bound: the candidates of be_shrunk
Shrinkable == {pos2s[q] : q \in {r \in PosSet : r <= nact /\ aP[r] \in {0, 2}}}

ShrinkBegin ==
  /\ pc = "run"
  /\ \E T \in SUBSET Shrinkable :
       /\ T # {}
       /\ S' = T
  /\ i0' = 0 /\ nact0' = nact /\ pc' = "outer"
  /\ UNCHANGED <<pos2s, yP, bP, pP, kiP, aP, nact, outv, wq>>

LoopBound == IF Variant = "staticloop" THEN nact0 ELSE nact

\* `while i < self.nactive() { if self.should_shrunk(i) { self.nactive -= 1; <inner> } i += 1 }`
OuterStep ==
  /\ pc = "outer"
  /\ IF i0 >= LoopBound
       THEN /\ pc' = "run" /\ S' = {} /\ i0' = 0 /\ nact0' = 0
            /\ UNCHANGED <<pos2s, yP, bP, pP, kiP, aP, nact, outv, wq>>
       ELSE IF nact >= 0 /\ pos2s[i0 + 1] \in S
              THEN /\ nact' = nact - 1 /\ pc' = "inner"
                   /\ UNCHANGED <<pos2s, yP, bP, pP, kiP, aP, outv, S, i0, nact0, wq>>
              ELSE /\ i0' = i0 + 1
                   /\ UNCHANGED <<pos2s, yP, bP, pP, kiP, aP, nact, pc, outv, S, nact0, wq>>

\* `while self.nactive > i { if !self.should_shrunk(self.nactive) { self.swap(i, self.nactive); break; } self.nactive -= 1; }`
InnerStep ==
  /\ pc = "inner"
  /\ IF nact > i0
       THEN IF pos2s[nact + 1] \notin S
              THEN /\ SwapAll(i0 + 1, nact + 1)
                   /\ i0' = i0 + 1 /\ pc' = "outer"
                   /\ UNCHANGED <<nact, outv, S, nact0, wq>>
              ELSE /\ nact' = nact - 1
                   /\ UNCHANGED <<pos2s, yP, bP, pP, kiP, aP, pc, outv, S, i0, nact0, wq>>
       ELSE /\ i0' = i0 + 1 /\ pc' = "outer"
            /\ UNCHANGED <<pos2s, yP, bP, pP, kiP, aP, nact, outv, S, nact0, wq>>

Unshrink ==
  /\ pc = "run" /\ nact < L
  /\ nact' = L
  /\ UNCHANGED <<pos2s, yP, bP, pP, kiP, aP, pc, outv, S, i0, nact0, wq>>

\* `for i in 0..ntotal { alpha[self.active_set[i]] = self.alpha[i] }`
WbBegin ==
  /\ pc = "run"
  /\ pc' = "wb" /\ wq' = 1 /\ outv' = Zero
  /\ UNCHANGED <<pos2s, yP, bP, pP, kiP, aP, nact, S, i0, nact0>>

WbStep ==
  /\ pc = "wb"
  /\ outv' = IF Variant = "inverse"
               THEN [outv EXCEPT ![wq] = aP[pos2s[wq] + 1]]
               ELSE [outv EXCEPT ![pos2s[wq] + 1] = aP[wq]]
  /\ wq' = wq + 1
  /\ pc' = IF wq = L THEN "done" ELSE "wb"
  /\ UNCHANGED <<pos2s, yP, bP, pP, kiP, aP, nact, S, i0, nact0>>

Next == Update \/ ShrinkBegin \/ OuterStep \/ InnerStep \/ Unshrink \/ WbBegin \/ WbStep

-----------------------------------------------------------------------------
(* The invariants of Smo.tla *)
InvPerm      == IsPerm0(pos2s, L)
InvFollow    == Follows(yP, Y0, pos2s) /\ Follows(bP, B0, pos2s) /\ Follows(pP, P0, pos2s) /\ Follows(kiP, KI0, pos2s)
InvActive    == nact \in 0..L
InvInactive  == pc \in {"run", "wb", "done"} => \A q \in PosSet : q > nact => aP[q] \in {0, 2}
InvWriteBack == pc = "done" => ScatterOk(outv, aP, pos2s)
\* the Assert of Smo.Shrink: when the loop exits, exactly the chosen variables left the active part
InvShrinkPost ==
  (pc = "outer" /\ i0 >= nact) =>
     /\ \A q \in PosSet : q <= nact => pos2s[q] \notin S
     /\ \A q \in PosSet : (q > nact /\ q <= nact0) => pos2s[q] \in S
     /\ \A s \in S : \E q \in PosSet : q > nact /\ q <= nact0 /\ pos2s[q] = s

Safety == InvPerm /\ InvFollow /\ InvActive /\ InvInactive /\ InvWriteBack /\ InvShrinkPost

-----------------------------------------------------------------------------
(* The inductive invariant *)
Injective == \A q1, q2 \in PosSet : pos2s[q1] = pos2s[q2] => q1 = q2

LoopInv ==
  /\ nact0 \in 0..L /\ i0 \in 0..L /\ nact <= nact0 /\ i0 <= nact + 1
  /\ S \subseteq 0..(L - 1)
  \* the chosen variables are at a bound, and so is everything that was inactive before
  /\ \A q \in PosSet : (q > nact0 \/ pos2s[q] \in S) => aP[q] \in {0, 2}
  \* every chosen variable is still among the first nact0 positions
  /\ \A s \in S : \E q \in PosSet : q <= nact0 /\ pos2s[q] = s
  \* examined prefix: no chosen variable; suffix cut off so far: only chosen variables
  /\ \A q \in PosSet : (q <= i0 /\ q <= nact) => pos2s[q] \notin S
  /\ pc = "outer" => \A q \in PosSet : (q > nact /\ q <= nact0) => pos2s[q] \in S
  /\ pc = "inner" => /\ i0 <= nact /\ nact + 1 <= nact0
                     /\ pos2s[i0 + 1] \in S
                     /\ \A q \in PosSet : (q > nact + 1 /\ q <= nact0) => pos2s[q] \in S

IndInv ==
  /\ pos2s \in [PosSet -> 0..(L - 1)]
  /\ yP \in [PosSet -> Int] /\ bP \in [PosSet -> Int] /\ pP \in [PosSet -> Int] /\ kiP \in [PosSet -> Int]
  /\ aP \in [PosSet -> 0..2]
  /\ outv \in [PosSet -> 0..2]
  /\ nact \in 0..L
  /\ pc \in {"run", "outer", "inner", "wb", "done"}
  /\ S \in SUBSET (0..(L - 1)) /\ i0 \in 0..L /\ nact0 \in 0..L /\ wq \in 1..(L + 1)
  /\ Injective
  /\ InvPerm
  /\ InvFollow
  /\ InvInactive
  /\ pc \in {"outer", "inner"} => LoopInv
  /\ pc \notin {"outer", "inner"} => (S = {} /\ i0 = 0 /\ nact0 = 0)
  /\ pc = "run" => (outv = Zero /\ wq = 1)
  /\ pc = "wb" => (wq <= L /\ \A q \in PosSet : q < wq => outv[pos2s[q] + 1] = aP[q])
  /\ pc = "done" => (wq = L + 1 /\ \A q \in PosSet : outv[pos2s[q] + 1] = aP[q])
  /\ pc \in {"outer", "inner"} => (outv = Zero /\ wq = 1)
=============================================================================
