------------------------------- MODULE SmoKkt -------------------------------
(***************************************************************************)
(* C13, layer 2: the relation a *published* SVM model must satisfy.        *)
(*                                                                         *)
(* Inputs are lattice data (integer coordinates / targets), so the kernel  *)
(* matrix of the linear and polynomial kernels is an exact integer matrix; *)
(* the Gaussian kernel exp(-|x-x'|^2 / w) comes from the self-checked      *)
(* table module Elem (scale 10^4, error <= ElemErr units).                 *)
(* Published coefficients a_i, rho are observed in fixed point 10^-6       *)
(* (SA).  All clauses are integer inequalities with an explicit slack:     *)
(*   slack = Tau (numerical allowance, 5*10^-3 for f64)                    *)
(*         + quantisation of the observed coefficients propagated through  *)
(*           the linear form (QSlack).                                     *)
(* A coefficient within one unit of 0 or of its bound may be read either   *)
(* way; "free" (equality) is allowed for every coefficient.                *)
(* Products stay below 2^31 by splitting a = 1000*ah + al; a sum that      *)
(* leaves the representable range makes the clause "range" false.          *)
(***************************************************************************)
EXTENDS Elem

SA == 1000000

RECURSIVE Ipow(_, _)
Ipow(b, d) == IF d = 0 THEN 1 ELSE b * Ipow(b, d - 1)
SqDist(p, q) == SumSeq([d \in 1..Len(p) |-> (p[d] - q[d]) * (p[d] - q[d])])

(* ---------------------------------------------------------------- kernels *)
IsRbf(kern) == kern.k = "rbf"
KScale(kern) == IF IsRbf(kern) THEN ES ELSE 1
\* K(p,q) * KScale :  <p,q> ; (<p,q> + c)^d ; exp(-|p-q|^2 / (w1/w2))
KRaw(kern, p, q) ==
  CASE kern.k = "lin"  -> Dot(p, q)
    [] kern.k = "poly" -> Ipow(Dot(p, q) + kern.c, kern.d)
    [] kern.k = "rbf"  -> ExpNeg((SqDist(p, q) * ES * kern.w[2]) \div kern.w[1])

(* sum_j A[j] * kv[j] with A in 10^-6 units, split to stay inside 31 bits (one pass, kv[j]   *)
(* evaluated once per j)                                                                      *)
RECURSIVE PartsLoop(_, _, _, _, _, _)
PartsLoop(A, kv, j, h, lo, ak) ==
  IF j > Len(A) THEN [h |-> h, lo |-> lo, ak |-> ak]
  ELSE LET kk == kv[j] IN
       PartsLoop(A, kv, j + 1, h + (A[j] \div 1000) * kk, lo + (A[j] % 1000) * kk, ak + Abs(kk))
PartsKv(A, kv) == PartsLoop(A, kv, 1, 0, 0, 0)
Parts(kern, X, A, p) == PartsKv(A, [j \in 1..Len(X) |-> KRaw(kern, X[j], p)])
\* the weighted sum  sum_j a_j K(x_j, p)  in 10^-6 units (error < 2 units for rbf); only for sums below 2000
Ws6(kern, pt) == IF IsRbf(kern) THEN pt.h \div 10 + pt.lo \div 10000 ELSE 1000 * pt.h + pt.lo

(* Values that may be too large for 10^-6 units inside 31 bits are kept as records [h, l] meaning        *)
(* 1000 h + l  (h in 10^-3 units).  Sub is the difference in 10^-6 units, saturated at +-2*10^9 when it   *)
(* exceeds 2000 in absolute value: every comparison below is against thresholds far smaller than that,    *)
(* so a saturated difference decides it correctly.                                                        *)
V6(w) == [h |-> w \div 1000, l |-> w % 1000]             \* from a fine value (10^-6 units)
V3(cc) == [h |-> cc, l |-> 0]                             \* from a coarse value (10^-3 units)
NormV(h, lo) == [h |-> h + lo \div 1000, l |-> lo % 1000]
SAT == 2000000000
Sub(a, b) == LET d == a.h - b.h IN
             IF Abs(d) <= 2000000 THEN 1000 * d + (a.l - b.l) ELSE IF d > 0 THEN SAT ELSE -SAT
\* an observed number logged in fine ("f", 10^-6) or coarse ("c", 10^-3, used when |v| >= 1073) fixed point
ObsV(k, v) == IF k = "c" THEN V3(v) ELSE V6(v)
ObsS(k) == IF k = "c" THEN 600 ELSE 0                     \* quantisation of a coarse observation
PartsV(kern, pt) == IF IsRbf(kern) THEN V6(Ws6(kern, pt)) ELSE NormV(pt.h, pt.lo)
SumAbsH(A) == SumSeq([j \in 1..Len(A) |-> Abs(A[j]) \div 1000])     \* in 10^-3 units
\* quantisation slack of a weighted sum: half a unit per coefficient times |K|, the kernel table error
\* (sabsh = SumAbsH(A), only used for the Gaussian kernel)
QSlackS(kern, pt, sabsh, len) ==
  pt.ak \div (2 * KScale(kern)) + 4
  + (IF IsRbf(kern) THEN ((sabsh + len) \div 10) * (ElemErr + 1) + 3 ELSE 0)
QSlack(kern, pt, A) == QSlackS(kern, pt, IF IsRbf(kern) THEN SumAbsH(A) ELSE 0, Len(A))

\* a sequence with evaluated elements (TLC evaluates function constructors lazily, element by element,
\* on every application)
RECURSIVE ForceSeq(_, _)
ForceSeq(f, n) == IF n = 0 THEN <<>> ELSE Append(ForceSeq(f, n - 1), f[n])

\* for every point of P: [v: weighted sum (value record), s: its quantisation slack in 10^-6 units]
PointVals(kern, X, A, P) ==
  LET sabsh == IF IsRbf(kern) THEN SumAbsH(A) ELSE 0 IN
  ForceSeq([i \in 1..Len(P) |->
              LET pt == Parts(kern, X, A, P[i]) IN
              [v |-> PartsV(kern, pt), s |-> QSlackS(kern, pt, sabsh, Len(A))]], Len(P))

\* sum of the coefficients is zero up to quantisation (split to avoid overflow)
EqZero(A, slack) ==
  LET sh == SumSeq([j \in 1..Len(A) |-> A[j] \div 1000])
      sl == SumSeq([j \in 1..Len(A) |-> A[j] % 1000])
  IN Abs(sh) <= 1000 /\ Abs(1000 * sh + sl) <= slack

(* --------------------------------------------------------- case accessors *)
N(In) == Len(In.x)
YS(In, i) == IF In.y[i] > 0 THEN 1 ELSE -1
Rat6(r) == (r[1] * SA) \div r[2]
Tau(In) == IF In.ft = "f32" THEN 50000 ELSE 5000
NumSlack(In) == IF In.ft = "f32" THEN 5000 ELSE 4
TrainVals(In, A) == PointVals(In.kern, In.x, A, In.x)

\* KKT of one coefficient: a (its magnitude bound cb, "at the bound" if >= cb - du), margin value m,
\* margin target one, slack s
MarginOk(a, cb, du, m, one, s) ==
  \/ Abs(a) <= 1 /\ m >= one - s            \* zero coefficient: on or outside the margin
  \/ Abs(a) >= cb - du /\ m <= one + s      \* bounded: on or inside the margin
  \/ Abs(m - one) <= s                      \* free: on the margin

(* ---------------------------------------------------------------- C-SVC   *)
(* min 1/2 a'Qa - e'a , 0 <= a_i <= C_{y_i}, y'a = 0 ; published a_i carries the sign y_i         *)
CsvcWhy(In, A, rho) ==
  LET n == N(In)
      cb == [i \in 1..n |-> IF In.y[i] > 0 THEN Rat6(In.cp) ELSE Rat6(In.cn)]
  IN IF Len(A) # n THEN "len"
     ELSE IF \E i \in 1..n : A[i] * YS(In, i) < 0 THEN "sign"
     ELSE IF \E i \in 1..n : Abs(A[i]) > cb[i] + 1 THEN "box"
     ELSE IF ~EqZero(A, n \div 2 + 2) THEN "equality"
     ELSE LET pv == TrainVals(In, A) IN
          IF \E i \in 1..n :
                    ~MarginOk(A[i], cb[i], 1, YS(In, i) * Sub(pv[i].v, rho.v), SA, Tau(In) + pv[i].s + rho.s) THEN "kkt"
          ELSE "none"

(* ---------------------------------------------------------------- nu-SVC  *)
(* solver: min 1/2 a'Qa, 0 <= a_i <= 1, e'a = nu l, y'a = 0 ; published a_i y_i / r, rho / r.       *)
(* In published units: sum |a_i| = nu l / r =: T, box |a_i| <= 1/r = T / (nu l), margin 1.         *)
NuT(A) == 1000 * SumAbsH(A) + SumSeq([j \in 1..Len(A) |-> Abs(A[j]) % 1000])
NusvcWhy(In, A, rho) ==
  LET n == N(In)  nun == In.nu[1]  nud == In.nu[2] IN
  IF Len(A) # n THEN "len"
  ELSE IF \E i \in 1..n : A[i] * YS(In, i) < 0 THEN "sign"
  ELSE IF SumAbsH(A) > 200000 THEN "range"
  ELSE LET T == NuT(A)
           ub == (T * nud) \div (nun * n)
           du == nud \div 2 + 3
       IN IF T = 0 THEN "allzero"
          ELSE IF \E i \in 1..n : Abs(A[i]) > ub + du THEN "box"
          ELSE IF ~EqZero(A, n \div 2 + 2) THEN "equality"
          ELSE LET pv == TrainVals(In, A) IN
               IF \E i \in 1..n :
                         ~MarginOk(A[i], ub, du, YS(In, i) * Sub(pv[i].v, rho.v), SA, Tau(In) + pv[i].s + rho.s) THEN "kkt"
               ELSE "none"

(* -------------------------------------------------------------- one-class *)
(* min 1/2 a'Ka, 0 <= a_i <= 1, e'a = nu l ; decision f = sum a_i K(x_i, .) - rho                  *)
OneclassWhy(In, A, rho) ==
  LET n == N(In)  nun == In.nu[1]  nud == In.nu[2] IN
  IF Len(A) # n THEN "len"
  ELSE IF \E i \in 1..n : A[i] < 0 THEN "sign"
  ELSE IF \E i \in 1..n : A[i] > SA + 1 THEN "box"
  ELSE IF Abs(SumSeq(A) * nud - nun * n * SA) > (n \div 2 + 2) * nud THEN "equality"
  ELSE LET pv == TrainVals(In, A) IN
       IF \E i \in 1..n : ~MarginOk(A[i], SA, 1, Sub(pv[i].v, rho.v), 0, Tau(In) + pv[i].s + rho.s) THEN "kkt"
       ELSE "none"

(* ---------------------------------------------------------- epsilon-SVR   *)
(* published b_i = a_i - a*_i ; |b_i| <= C, sum b_i = 0 ; residual e_i = y_i - f(x_i):             *)
(*   b_i = 0: |e_i| <= eps ;  0 < b_i < C: e_i = eps ;  b_i = C: e_i >= eps ; mirrored for b_i < 0 *)
SvrOne(b, c6, e, eps6, s) ==
  \/ Abs(b) <= 1 /\ Abs(e) <= eps6 + s
  \/ b >= 1  /\ (Abs(e - eps6) <= s \/ (b >= c6 - 1 /\ e >= eps6 - s))
  \/ b <= -1 /\ (Abs(e + eps6) <= s \/ (b <= 1 - c6 /\ e <= s - eps6))
Resid(In, rho, pv, i) == In.y[i] * SA - Sub(pv[i].v, rho.v)
EsvrWhyEps(In, A, rho, eps6) ==
  LET n == N(In)  c6 == Rat6(In.c) IN
  IF Len(A) # n THEN "len"
  ELSE IF \E i \in 1..n : Abs(A[i]) > c6 + 1 THEN "box"
  ELSE IF ~EqZero(A, n + 2) THEN "equality"
  ELSE LET pv == TrainVals(In, A) IN
       IF \E i \in 1..n : ~SvrOne(A[i], c6, Resid(In, rho, pv, i), eps6, Tau(In) + pv[i].s + rho.s) THEN "kkt"
       ELSE "none"
EsvrWhy(In, A, rho) == EsvrWhyEps(In, A, rho, Rat6(In.le))

(* --------------------------------------------------------------- nu-SVR   *)
(* min 1/2 b'Kb - y'b  s.t. sum b = 0, |b_i| <= C, sum |b_i| <= C nu l  (epsilon eliminated).       *)
(* KKT: there is a tube width eps >= 0 with the epsilon-SVR conditions, and eps > 0 only if the    *)
(* nu constraint is tight.  The existential is decided by intersecting the intervals each          *)
(* coefficient allows for eps.                                                                      *)
NusvrWhy(In, A, rho) ==
  LET n == N(In)  c6 == Rat6(In.c)  nun == In.nu[1]  nud == In.nu[2] IN
  IF Len(A) # n THEN "len"
  ELSE IF \E i \in 1..n : Abs(A[i]) > c6 + 1 THEN "box"
  ELSE IF ~EqZero(A, n + 2) THEN "equality"
  ELSE LET T == NuT(A)                                    \* sum |b_i|
           cap == MulDiv(c6, nun * n, nud)                \* C nu l
       IN IF T > cap + n + 2 THEN "nu-budget"
          ELSE LET pv == TrainVals(In, A) IN
               LET s == [i \in 1..n |-> Tau(In) + pv[i].s + rho.s]
                        e == [i \in 1..n |-> Resid(In, rho, pv, i)]
                        u == [i \in 1..n |-> IF A[i] > 0 THEN e[i] ELSE -e[i]]
                        Zs == {i \in 1..n : A[i] = 0}
                        Fr == {i \in 1..n : A[i] # 0 /\ Abs(A[i]) < c6 - 1}     \* certainly not at the bound
                        Bd == {i \in 1..n : A[i] # 0 /\ Abs(A[i]) >= c6 - 1}
                        lo == MaxSet({0} \cup {Abs(e[i]) - s[i] : i \in Zs} \cup {u[i] - s[i] : i \in Fr})
                        his == {u[i] + s[i] : i \in Fr \cup Bd}
                        smax == MaxSet({s[i] : i \in 1..n})
                    IN IF his # {} /\ lo > MinSet(his) THEN "kkt"
                       ELSE IF lo > 2 * smax /\ T < cap - n - 2 THEN "nu-slack"   \* eps > 0 but budget unused
                       ELSE "none"

(* ------------------------------------------------------ decision values   *)
RelErr(In, v) == Abs(v) \div (IF In.ft = "f32" THEN 100000 ELSE 100000000)
\* observed weighted sums (values obs, kinds kd) of a list of points (pv = PointVals of that list) agree with
\* sum_i a_i K(x_i, .)
WsAgree(In, pv, obs, kd) ==
  /\ Len(obs) = Len(pv) /\ Len(kd) = Len(pv)
  /\ \A i \in 1..Len(pv) :
       Abs(Sub(ObsV(kd[i], obs[i]), pv[i].v)) <= pv[i].s + ObsS(kd[i]) + NumSlack(In) + RelErr(In, Sub(pv[i].v, V6(0)))
\* labels are the sign of the decision value (either label inside the slack band around zero)
LabelsAgree(In, pv, rho, lab) ==
  /\ Len(lab) = Len(pv)
  /\ \A i \in 1..Len(pv) :
       LET f == Sub(pv[i].v, rho.v)
           s == pv[i].s + rho.s + NumSlack(In) + RelErr(In, f)
       IN (f > s => lab[i]) /\ (f < -s => ~lab[i])
\* regression predictions are  weighted sum - rho :  pred + rho = weighted sum
PredAgree(In, pv, rho, pred, kd) ==
  /\ Len(pred) = Len(pv) /\ Len(kd) = Len(pv)
  /\ \A i \in 1..Len(pv) :
       LET f == Sub(pv[i].v, rho.v)                        \* expected prediction (saturated when huge)
           o == Sub(ObsV(kd[i], pred[i]), V6(0))           \* observed prediction (saturated when huge)
       IN IF Abs(f) < SAT /\ Abs(o) < SAT
            THEN Abs(o - f) <= pv[i].s + rho.s + ObsS(kd[i]) + NumSlack(In) + RelErr(In, f)
            ELSE \* |value| > 2000: compare in 10^-3 units
                 LET oh == ObsV(kd[i], pred[i]).h  fh == pv[i].v.h - rho.v.h IN
                 Abs(oh - fh) <= (pv[i].s + rho.s) \div 1000 + 3 + Abs(fh) \div (IF In.ft = "f32" THEN 100000 ELSE 100000000)
\* probabilities are an order-monotone function of the decision value (either direction), in [0,1]
\* (ws: order-preserving keys of the decision values, Fx.KeyLt ; pr: probabilities in 10^-6)
MonoUp(ws, pr)   == \A i, j \in 1..Len(ws) : KeyLt(ws[i], ws[j]) => pr[i] <= pr[j] + 1
MonoDown(ws, pr) == \A i, j \in 1..Len(ws) : KeyLt(ws[i], ws[j]) => pr[i] + 1 >= pr[j]
ProbOk(ws, pr) ==
  /\ Len(ws) = Len(pr)
  /\ \A i \in 1..Len(pr) : pr[i] >= 0 /\ pr[i] <= SA
  /\ (MonoUp(ws, pr) \/ MonoDown(ws, pr))
\* number of support vectors = number of non-zero coefficients: every coefficient that is visibly
\* non-zero counts, a coefficient that is exactly zero (flag z) never does
\* (nzmin: smallest logged magnitude that certainly counts: nsupport() counts |a| > 100 machine epsilons,
\* i.e. 1.2e-5 for f32 -- 13 units of the 10^-6 log -- and 2e-14 for f64 -- 1 unit)
NzMin(In) == IF In.ft = "f32" THEN 13 ELSE 1
NsupOk(A, z, nsup, nzmin) ==
  /\ Cardinality({i \in 1..Len(A) : Abs(A[i]) >= nzmin}) <= nsup
  /\ nsup <= Cardinality({i \in 1..Len(A) : ~z[i]})

\* the stored support-vector rows R of a non-linear model are the samples of the non-zero coefficients, in
\* sample order: row k is the sample of the k-th non-zero coefficient (a coefficient below nzmin that is not
\* exactly zero may or may not count -- TLC searches the assignment)
RECURSIVE SvMatch(_, _, _, _, _, _, _)
SvMatch(X, A, z, R, nzmin, i, r) ==
  IF i > Len(X) THEN r = Len(R) + 1
  ELSE IF Abs(A[i]) >= nzmin THEN r <= Len(R) /\ R[r] = X[i] /\ SvMatch(X, A, z, R, nzmin, i + 1, r + 1)
  ELSE IF ~z[i] THEN \/ r <= Len(R) /\ R[r] = X[i] /\ SvMatch(X, A, z, R, nzmin, i + 1, r + 1)
                     \/ SvMatch(X, A, z, R, nzmin, i + 1, r)
  ELSE SvMatch(X, A, z, R, nzmin, i + 1, r)
SvRowsOk(X, A, z, R, nsup, nzmin) == Len(R) = nsup /\ SvMatch(X, A, z, R, nzmin, 1, 1)

=============================================================================
