---------------------------- MODULE Gen_Density ----------------------------
(* Case generator for C08: every sequence of lattice points of the bounded domain (so chains,   *)
(* touching clusters, duplicates, isolated noise, empty and singleton inputs, zero and one      *)
(* feature all arise by exhaustion), every min_points, tolerances both exactly on attainable      *)
(* distances and strictly between them, every metric where metrics differ (dim >= 2).            *)
(* A case is run by the harness on the three neighbour indices; float type, leaf size and the    *)
(* index used for the dataset calling form rotate with a hash of the input.                      *)
(* Inputs are normalised by translation (minimum coordinate 0 in every dimension).              *)
EXTENDS Naturals, Sequences, FiniteSets, TLC, Json

CONSTANTS Lattices,     \* set of lattices, each coded dim * 100 + maxcoord
          MinPts, MaxPts,
          MinPtsSet,
          EpsSet,       \* tolerances en/ed coded en * 10 + ed ; 0 = infinite tolerance (eps = {n: 0, d: 0})
          Specials      \* 0 | 1 : also emit the hand-picked on-the-radius L2 inputs (3-4-5 triangles)

VARIABLE case

Points(dim, mx) == [1..dim -> 0..mx]

RECURSIVE SumS(_)
SumS(s) == IF s = <<>> THEN 0 ELSE Head(s) + SumS(Tail(s))
Hash(pts, mp, en) == SumS([p \in 1..Len(pts) |-> (p + 1) * (1 + SumS(pts[p]))]) + 3 * mp + 5 * en + Len(pts)

Normal(pts, dim) ==
  Len(pts) = 0 \/ \A d \in 1..dim : \E p \in 1..Len(pts) : pts[p][d] = 0

Ft(h)   == IF h % 4 = 3 THEN "f32" ELSE "f64"
Leaf(h) == <<0, 1, 2, 3, 0, 2>>[(h % 6) + 1]       \* 0 = the index's default leaf size (16)
IndexNames == <<"linear", "kdtree", "balltree">>

\* for one feature the three metrics coincide: one metric per input, rotating
MetricsFor(dim, h) ==
  IF dim >= 2 THEN {"l1", "l2", "linf"} ELSE {<<"l1", "l2", "linf">>[(h % 3) + 1]}

Mk(kind, dim, pts, mp, en, ed, metric) ==
  LET h == Hash(pts, mp, en) IN
  [kind |-> kind,
   inp |-> [dim |-> dim, pts |-> pts, minpts |-> mp, eps |-> [n |-> en, d |-> ed], metric |-> metric,
            ft |-> Ft(h), leaf |-> Leaf(h), dsindex |-> IndexNames[((h \div 3) % 3) + 1]]]

\* hand-picked inputs with L2 distances exactly on an integer radius (3-4-5, 6-8-10, 5-12-13)
SpecialPts ==
  { << <<0, 0>>, <<3, 4>>, <<6, 8>>, <<1, 0>> >>,
    << <<0, 0>>, <<3, 4>>, <<6, 8>> >>,
    << <<3, 4>>, <<0, 0>>, <<6, 8>>, <<3, 4>> >>,
    << <<0, 0>>, <<4, 3>>, <<3, 4>>, <<8, 6>>, <<0, 5>> >>,
    << <<0, 0>>, <<5, 12>>, <<10, 24>>, <<5, 0>>, <<0, 12>> >>,
    << <<0, 0, 0>>, <<1, 2, 2>>, <<2, 4, 4>>, <<3, 6, 6>> >>,
    << <<0, 0, 0>>, <<2, 3, 6>>, <<2, 3, 0>>, <<0, 0, 6>> >> }
SpecialEps == {<<5, 1>>, <<3, 1>>, <<7, 1>>, <<13, 1>>, <<11, 2>>, <<6, 1>>}

Init ==
  \/ \E lt \in Lattices : \E nn \in MinPts..MaxPts :
     \E pts \in [1..nn -> Points(lt \div 100, lt % 100)] :
     \E mp \in MinPtsSet, ee \in EpsSet :
       /\ Normal(pts, lt \div 100)
       /\ \E metric \in MetricsFor(lt \div 100, Hash(pts, mp, ee \div 10)) :
            case = Mk("density", lt \div 100, pts, mp, ee \div 10, ee % 10, metric)
  \/ /\ Specials = 1
     /\ \E pts \in SpecialPts, mp \in {2, 3}, ee \in SpecialEps, metric \in {"l1", "l2", "linf"} :
          case = Mk("special", Len(pts[1]), pts, mp, ee[1], ee[2], metric)

Next == UNCHANGED case
Emit == PrintT("CASE " \o ToJson(case))
=============================================================================
