---------------------------- MODULE Gen_Density ----------------------------
(* Case generator for C08: every sequence of lattice points of the bounded domain (so chains,   *)
(* touching clusters, duplicates, isolated noise, empty and singleton inputs, zero and one      *)
(* feature all arise by exhaustion), every min_points, tolerances both exactly on attainable      *)
(* distances and strictly between them, every metric where metrics differ (dim >= 2).            *)
(* A case is run by the harness on the three neighbour indices; float type, leaf size and the    *)
(* index used for the dataset calling form rotate with a hash of the input.                      *)
(* Inputs are normalised by translation (minimum coordinate 0 in every dimension).              *)
EXTENDS Integers, Sequences, FiniteSets, TLC, Json

CONSTANTS Lattices,     \* set of lattices, each coded dim * 100 + maxcoord
          MinPts, MaxPts,
          MinPtsSet,
          EpsSet,       \* tolerances en/ed coded en * 10 + ed ; 0 = infinite tolerance (eps = {n: 0, d: 0})
          Specials,     \* 0 | 1 : also emit the hand-picked on-the-radius L2 inputs (3-4-5 triangles)
          Hubs          \* 0 | 1 | 2 : also emit the structured "hub" family (1 = quick set, 2 = thorough set)

VARIABLE case

Points(dim, mx) == [1..dim -> 0..mx]

RECURSIVE SumS(_)
SumS(s) == IF s = <<>> THEN 0 ELSE Head(s) + SumS(Tail(s))
Hash(pts, mp, en) == SumS([p \in 1..Len(pts) |-> (p + 1) * (1 + SumS(pts[p]))]) + 3 * mp + 5 * en + Len(pts)

Normal(pts, dim) ==
  Len(pts) = 0 \/ \A d \in 1..dim : \E p \in 1..Len(pts) : pts[p][d] = 0

Ft(h)   == IF h % 4 = 3 THEN "f32" ELSE "f64"
Leaf(h) == <<0, 1, 2, 3, 0, 2>>[(h % 6) + 1]       \* 0 = the index's default leaf size (16)
IndexNames == <<"linear", "kdtree", "balltree">>

\* for one feature the three metrics coincide: one metric per input, rotating
MetricsFor(dim, h) ==
  IF dim >= 2 THEN {"l1", "l2", "linf"} ELSE {<<"l1", "l2", "linf">>[(h % 3) + 1]}

Mk(kind, dim, pts, mp, en, ed, metric) ==
  LET h == Hash(pts, mp, en) IN
  [kind |-> kind,
   inp |-> [dim |-> dim, pts |-> pts, minpts |-> mp, eps |-> [n |-> en, d |-> ed], metric |-> metric,
            ft |-> Ft(h), leaf |-> Leaf(h), dsindex |-> IndexNames[((h \div 3) % 3) + 1]]]

\* hand-picked inputs with L2 distances exactly on an integer radius (3-4-5, 6-8-10, 5-12-13)
SpecialPts ==
  { << <<0, 0>>, <<3, 4>>, <<6, 8>>, <<1, 0>> >>,
    << <<0, 0>>, <<3, 4>>, <<6, 8>> >>,
    << <<3, 4>>, <<0, 0>>, <<6, 8>>, <<3, 4>> >>,
    << <<0, 0>>, <<4, 3>>, <<3, 4>>, <<8, 6>>, <<0, 5>> >>,
    << <<0, 0>>, <<5, 12>>, <<10, 24>>, <<5, 0>>, <<0, 12>> >>,
    << <<0, 0, 0>>, <<1, 2, 2>>, <<2, 4, 4>>, <<3, 6, 6>> >>,
    << <<0, 0, 0>>, <<2, 3, 6>>, <<2, 3, 0>>, <<0, 0, 6>> >> }
SpecialEps == {<<5, 1>>, <<3, 1>>, <<7, 1>>, <<13, 1>>, <<11, 2>>, <<6, 1>>}

-----------------------------------------------------------------------------
(* The "hub" family (2-D).  A hub at the origin has k border points at distance 2, one per direction; each    *)
(* border point hangs off its own dense arm: an arm core A1 at distance 4 from the hub (2 from the border      *)
(* point) plus a chosen subset of three extra points around A1 that are within the tolerance of A1 but not of  *)
(* the border point.  With tolerance 5/2 (or 9/4) every distance 2 is within and every other distance between  *)
(* parts of the figure (>= 2*sqrt(2) in L2, 4 in L1/Linf) is not, so: the border points see only themselves,   *)
(* the hub and A1 (non-core for min_points >= 4), the hub sees itself and its k border points, and the arms    *)
(* are separate clusters.  For min_points = k + 1 the hub is a core point *all of whose neighbours are border  *)
(* points of other clusters*: when it comes late in the sequence every neighbour is already labelled           *)
(* (DBSCAN) / processed (OPTICS) when the outer loop reaches it, and it must still found its own cluster /     *)
(* be listed with its core distance.  Directions are the axes for L1/L2 and the diagonals for Linf (where      *)
(* axis neighbours of the hub would be within the tolerance of each other).  Other (k, min_points) pairs are   *)
(* near misses of the same figure (hub not core, or border points core so that everything merges).             *)
Axis == << <<1, 0>>, <<0, 1>>, <<-1, 0>>, <<0, -1>> >>
Diag == << <<1, 1>>, <<-1, 1>>, <<-1, -1>>, <<1, -1>> >>
HDirs(metric) == IF metric = "linf" THEN Diag ELSE Axis
HOff == 6                                         \* translation: all coordinates >= 0
HPt(x, y) == <<x + HOff, y + HOff>>
\* the three extra points around the arm core A1 = 4u
HExtra(metric, u, j) ==
  IF j = 1 THEN HPt(6 * u[1], 6 * u[2])
  ELSE IF metric = "linf"
    THEN (IF j = 2 THEN HPt(6 * u[1], 4 * u[2]) ELSE HPt(4 * u[1], 6 * u[2]))
    ELSE (IF j = 2 THEN HPt(4 * u[1] + 2 * u[2], 4 * u[2] + 2 * u[1])
                   ELSE HPt(4 * u[1] - 2 * u[2], 4 * u[2] - 2 * u[1]))
RECURSIVE SeqOfSet(_)
SeqOfSet(S) == IF S = {} THEN <<>> ELSE LET x == CHOOSE y \in S : \A z \in S : y <= z IN <<x>> \o SeqOfSet(S \ {x})
HArm(metric, u, shape, bfirst) ==
  LET body == <<HPt(4 * u[1], 4 * u[2])>> \o [q \in 1..Cardinality(shape) |-> HExtra(metric, u, SeqOfSet(shape)[q])]
      b    == <<HPt(2 * u[1], 2 * u[2])>>
  IN IF bfirst THEN b \o body ELSE body \o b
RECURSIVE HArms(_, _, _, _, _)
HArms(metric, from, to, shape, bfirst) ==
  IF from > to THEN <<>>
  ELSE HArm(metric, HDirs(metric)[from], shape, bfirst) \o HArms(metric, from + 1, to, shape, bfirst)
HubPts(metric, k, shape, bfirst, hubpos) ==
  LET hub == <<HPt(0, 0)>> IN
  IF hubpos = "first" THEN hub \o HArms(metric, 1, k, shape, bfirst)
  ELSE IF hubpos = "last" THEN HArms(metric, 1, k, shape, bfirst) \o hub
  ELSE HArms(metric, 1, k - 1, shape, bfirst) \o hub \o HArms(metric, k, k, shape, bfirst)
HShapes == {{1, 2}, {1, 3}, {2, 3}, {1, 2, 3}}
HubK    == IF Hubs = 2 THEN 2..4 ELSE 3..4
HubMp   == IF Hubs = 2 THEN 3..6 ELSE 4..5
HubEps  == IF Hubs = 2 THEN {<<5, 2>>, <<9, 4>>} ELSE {<<5, 2>>}

Init ==
  \/ /\ Hubs > 0
     /\ \E metric \in {"l1", "l2", "linf"}, k \in HubK, shape \in HShapes, bfirst \in BOOLEAN,
           hubpos \in {"first", "middle", "last"}, mp \in HubMp, ee \in HubEps :
          case = Mk("hub", 2, HubPts(metric, k, shape, bfirst, hubpos), mp, ee[1], ee[2], metric)
  \/ \E lt \in Lattices : \E nn \in MinPts..MaxPts :
     \E pts \in [1..nn -> Points(lt \div 100, lt % 100)] :
     \E mp \in MinPtsSet, ee \in EpsSet :
       /\ Normal(pts, lt \div 100)
       /\ \E metric \in MetricsFor(lt \div 100, Hash(pts, mp, ee \div 10)) :
            case = Mk("density", lt \div 100, pts, mp, ee \div 10, ee % 10, metric)
  \/ /\ Specials = 1
     /\ \E pts \in SpecialPts, mp \in {2, 3}, ee \in SpecialEps, metric \in {"l1", "l2", "linf"} :
          case = Mk("special", Len(pts[1]), pts, mp, ee[1], ee[2], metric)

Next == UNCHANGED case
Emit == PrintT("CASE " \o ToJson(case))
=============================================================================
