------------------------------ MODULE Gen_Pca ------------------------------
(* Case generator for C18.  A case is an integer record matrix x (n rows, p columns, n > p) with   *)
(* two probe rows q and a calling form.  TLC enumerates, for p = 1, 2, 3, every multiset of n rows *)
(* over a small grid (rows sorted: PCA does not depend on the row order), derives an offset and a   *)
(* badly scaled variant from a hash of the entries, and keeps the matrices whose exact scatter     *)
(* matrix M = n X^T X - s s^T is well conditioned:  det M > 0  and  sigma_min^2 >= 1/4, decided     *)
(* exactly from  mu_min(M) >= det(M) / e_{p-1}(M).  Mod1/Mod2/Mod3 thin the larger sub-domains      *)
(* deterministically (keep a matrix iff Hash(x) % Mod = 0; Mod = 1 keeps everything).               *)
EXTENDS Integers, Sequences, TLC, Json

CONSTANTS MaxN1, MaxN2, MaxN3,        \* largest n for p = 1, 2, 3 (0 = skip that p)
          Mod1, Mod2, Mod3, Mod2Big   \* thinning ; Mod2Big applies to p = 2, n >= 4

VARIABLE case

RECURSIVE SumSeq(_)
SumSeq(s) == IF s = <<>> THEN 0 ELSE Head(s) + SumSeq(Tail(s))

\* non-decreasing index sequences of length n over lo..hi
RECURSIVE Sorted(_, _, _)
Sorted(n, lo, hi) ==
  IF n = 0 THEN {<<>>}
  ELSE UNION {{<<a>> \o t : t \in Sorted(n - 1, a, hi)} : a \in lo..hi}

\* grids: p = 1: -2..3 ; p = 2: (-1..2)^2 ; p = 3: (-1..1)^3   (index -> point)
Pt(p, i) ==
  IF p = 1 THEN <<i - 3>>
  ELSE IF p = 2 THEN <<((i - 1) \div 4) - 1, ((i - 1) % 4) - 1>>
  ELSE <<((i - 1) \div 9) - 1, (((i - 1) \div 3) % 3) - 1, ((i - 1) % 3) - 1>>
NPts(p) == IF p = 1 THEN 6 ELSE IF p = 2 THEN 16 ELSE 27

Hash(x, p) == SumSeq([r \in 1..Len(x) |-> SumSeq([j \in 1..p |-> (7 * r + 3 * j + 1) * (x[r][j] + 5) * (r + 2 * j)])])

\* variants: 0,1 plain ; 2 offset columns ; 3 first column badly scaled (p <= 2) / offset (p = 3)
Variant(x, p) ==
  LET h == (Hash(x, p) % 4) IN
  IF h <= 1 THEN x
  ELSE IF h = 2 \/ p = 3
    THEN [r \in 1..Len(x) |-> [j \in 1..p |-> x[r][j] + (IF j = 1 THEN 50 ELSE IF j = p THEN -7 ELSE 3)]]
    ELSE [r \in 1..Len(x) |-> [j \in 1..p |-> IF j = 1 THEN 8 * x[r][j] ELSE x[r][j]]]

ColSum(x, j)  == SumSeq([r \in 1..Len(x) |-> x[r][j]])
Gram(x, j, l) == SumSeq([r \in 1..Len(x) |-> x[r][j] * x[r][l]])
M(x, j, l)    == Len(x) * Gram(x, j, l) - ColSum(x, j) * ColSum(x, l)

\* det M > 0 and 4 det M >= n e_{p-1}(M)   ( => sigma_min^2 = mu_min / n >= 1/4 )
WellConditioned(x, p) ==
  LET n == Len(x) IN
  IF p = 1 THEN 4 * M(x, 1, 1) >= n
  ELSE IF p = 2 THEN
    LET det == M(x, 1, 1) * M(x, 2, 2) - M(x, 1, 2) * M(x, 1, 2) IN
    det > 0 /\ 4 * det >= n * (M(x, 1, 1) + M(x, 2, 2))
  ELSE
    LET a == M(x, 1, 1)  b == M(x, 1, 2)  cc == M(x, 1, 3)  d == M(x, 2, 2)  ee == M(x, 2, 3)  f == M(x, 3, 3)
        det == a * (d * f - ee * ee) - b * (b * f - ee * cc) + cc * (b * ee - d * cc)
        e2  == (a * d - b * b) + (a * f - cc * cc) + (d * f - ee * ee)
    IN det > 0 /\ 4 * det >= n * e2

Forms == <<"owned", "view", "fortran">>
Probe(x, p) == << [j \in 1..p |-> x[1][j] + j], [j \in 1..p |-> IF (j % 2) = 1 THEN -3 ELSE 4] >>

MaxN(p) == IF p = 1 THEN MaxN1 ELSE IF p = 2 THEN MaxN2 ELSE MaxN3
ModOf(p, n) == IF p = 1 THEN Mod1 ELSE IF p = 2 THEN (IF n >= 4 THEN Mod2Big ELSE Mod2) ELSE Mod3

Init ==
  \E p \in 1..3 : \E n \in (p + 1)..MaxN(p) : \E idx \in Sorted(n, 1, NPts(p)) :
    LET base == [r \in 1..n |-> Pt(p, idx[r])] IN
    /\ (Hash(base, p) % ModOf(p, n)) = 0
    /\ LET x == Variant(base, p) IN
       /\ WellConditioned(x, p)
       /\ case = [kind |-> "pca",
                  inp |-> [n |-> n, p |-> p, x |-> x, q |-> Probe(x, p), form |-> Forms[((Hash(base, p) \div 4) % 3) + 1]]]

Next == UNCHANGED case
Emit == PrintT("CASE " \o ToJson(case))
=============================================================================
