--------------------------- MODULE Trace_Density ---------------------------
(***************************************************************************)
(* C08 trace validation.  One case = one input (points, metric, tolerance, *)
(* min_points) run by the harness through DBSCAN (array and dataset        *)
(* calling form) and OPTICS on the three neighbour indices.  Every event   *)
(* must satisfy the relation of Density.tla (DbscanOk / OpticsOk) on the   *)
(* neighbourhoods computed here from the case's lattice points.            *)
(*                                                                         *)
(* Boundary convention: whether a point exactly on the radius is a         *)
(* neighbour is not decided by the specification; TLC infers `incl` once   *)
(* per case (two initial states when some distance equals the tolerance)   *)
(* and all events of the case -- all three indices, both algorithms --     *)
(* must be explained under the same convention.                            *)
(* Calling forms: "array" (params_with on an owned array, every index),    *)
(* and on one rotating index "strided" (a view with row stride 2),         *)
(* "default" (Dbscan::params / Optics::params + nn_algo, Euclidean only)   *)
(* and "dataset" (DBSCAN on a DatasetBase, records handed back unchanged). *)
(* "Neither result depends on the choice of neighbour index": at the end   *)
(* of the case the label vectors (resp. orderings) recorded for the three  *)
(* indices must be equal.                                                  *)
(*                                                                         *)
(* Named deviations (enabled only when listed in Devs, see                 *)
(* known_findings.json):                                                   *)
(*  "zero_features_all_noise" : with zero feature columns the code returns *)
(*      all-noise / all-undefined in index order although all points       *)
(*      coincide.                                                          *)
(*  "kdtree_inclusive_radius" : the k-d tree index counts points exactly   *)
(*      on the radius as neighbours, linear scan and ball tree do not; the *)
(*      k-d tree events are judged with the inclusive convention, the      *)
(*      others with the strict one, and results are compared between       *)
(*      linear scan and ball tree only.                                    *)
(***************************************************************************)
EXTENDS Density, TraceIO

CONSTANT Devs

VARIABLES c, e,      \* case and event cursor
          incl,      \* inferred boundary convention of the case
          used       \* deviations that were needed

Case == Rec[c]
In   == Case.inp
Ev   == Case.ev[e]
P    == In.pts
N    == Len(P)
MP   == In.minpts
TD   == DistM(P, In.metric)

ZeroDev == "zero_features_all_noise"
KdDev   == "kdtree_inclusive_radius"

\* the design-model variables are idle during trace validation, except that dm / nb cache the distance
\* matrix and the neighbourhoods of the case under the inferred convention
DesignIdle ==
  /\ alg = "trace" /\ pts = <<>> /\ metric = "" /\ mp = 0 /\ eps = <<0, 1>> /\ inc = FALSE
  /\ pc = "trace" /\ oi = 0 /\ lab = <<>> /\ cur = 0 /\ queue = {} /\ ord = <<>> /\ processed = {}
  /\ rch = <<>> /\ seeds = {}

TraceInit ==
  /\ c \in 1..Len(Rec) /\ e = 1
  /\ dm = TD
  /\ incl \in (IF KdDev \notin Devs /\ HasOnRadius(dm, In.metric, In.eps.n, In.eps.d) THEN BOOLEAN ELSE {FALSE})
  /\ nb = NbF(dm, In.metric, In.eps.n, In.eps.d, incl)
  /\ used = {}
  /\ DesignIdle

\* the neighbourhoods under which the events of one index are judged
NbFor(index) == IF KdDev \in Devs /\ index = "kdtree" THEN NbF(dm, In.metric, In.eps.n, In.eps.d, TRUE) ELSE nb
KdUsed(ok_strict) == IF KdDev \in Devs /\ Ev.index = "kdtree" /\ ~ok_strict THEN {KdDev} ELSE {}

AllNoise(labels) == Len(labels) = N /\ \A i \in 1..N : labels[i] = -1
AllUndefInOrder(order) ==
  /\ Len(order) = N
  /\ \A p \in 1..N : order[p].idx = p - 1 /\ ~order[p].core.def /\ ~order[p].reach.def

\* "ok" or the name of the first false clause of the relation for the current event
EvWhy ==
  IF Ev.ev = "dbscan" THEN
     IF Ev.form \notin {"array", "dataset", "strided", "default"} THEN "unknown_form"
     ELSE IF Ev.form = "dataset" /\ Ev.rec # P THEN "records_changed"    \* the dataset form hands the records back
     ELSE DbscanWhy(Ev.labels, NbFor(Ev.index), MP)
  ELSE IF Ev.ev = "optics" THEN
     IF Ev.form \notin {"array", "strided", "default"} THEN "unknown_form"
     ELSE OpticsWhy(Ev.order, dm, NbFor(Ev.index), MP)
  ELSE "unexplained_event"                                               \* panic / error events
\* the same under the strict convention (only needed to tell whether the k-d tree deviation was used)
EvOkStrict ==
  IF Ev.ev = "dbscan" THEN DbscanOk(Ev.labels, NbF(dm, In.metric, In.eps.n, In.eps.d, FALSE), MP)
  ELSE OpticsOk(Ev.order, dm, NbF(dm, In.metric, In.eps.n, In.eps.d, FALSE), MP)
\* what the zero-feature code path returns
ZeroPath ==
  /\ ZeroDev \in Devs /\ In.dim = 0
  /\ \/ Ev.ev = "dbscan" /\ AllNoise(Ev.labels)
     \/ Ev.ev = "optics" /\ AllUndefInOrder(Ev.order)

Conv == IF incl THEN "incl" ELSE "strict"
Idx  == IF Ev.ev \in {"dbscan", "optics"} THEN Ev.index ELSE "-"

\* one event: explained by the relation, or by a named deviation, or the case is rejected here
TEvent ==
  /\ e <= Len(Case.ev)
  /\ LET w == EvWhy IN
     IF w = "ok"
       THEN e' = e + 1 /\ used' = used \cup KdUsed(EvOkStrict)
       ELSE IF ZeroPath
         THEN e' = e + 1 /\ used' = used \cup {ZeroDev}
         ELSE /\ Fail(Case.id, "ev" \o ToString(e) \o ":" \o Ev.ev \o ":" \o Idx \o ":" \o w \o ":" \o Conv)
              /\ e' = Len(Case.ev) + 2 /\ used' = used
  /\ UNCHANGED <<c, incl, vars>>

\* "neither result depends on the choice of neighbour index"
Compared == IF KdDev \in Devs THEN {"linear", "balltree"} ELSE {"linear", "kdtree", "balltree"}
EvIdx(name) == {q \in 1..Len(Case.ev) : Case.ev[q].ev = name /\ Case.ev[q].index \in Compared}
SameDbscan == \A q1, q2 \in EvIdx("dbscan") : Case.ev[q1].labels = Case.ev[q2].labels
SameOptics == \A q1, q2 \in EvIdx("optics") : Case.ev[q1].order = Case.ev[q2].order
\* every index and both algorithms were observed
Complete ==
  /\ \A ix \in {"linear", "kdtree", "balltree"} :
        /\ \E q \in 1..Len(Case.ev) : Case.ev[q].ev = "dbscan" /\ Case.ev[q].index = ix /\ Case.ev[q].form = "array"
        /\ \E q \in 1..Len(Case.ev) : Case.ev[q].ev = "optics" /\ Case.ev[q].index = ix /\ Case.ev[q].form = "array"
  /\ \A fm \in {"dataset", "strided"} \cup (IF In.metric = "l2" THEN {"default"} ELSE {}) :
        \E q \in 1..Len(Case.ev) : Case.ev[q].ev = "dbscan" /\ Case.ev[q].form = fm
  /\ \A fm \in {"strided"} \cup (IF In.metric = "l2" THEN {"default"} ELSE {}) :
        \E q \in 1..Len(Case.ev) : Case.ev[q].ev = "optics" /\ Case.ev[q].form = fm
KdDiffers ==
  \/ \E q1, q2 \in {q \in 1..Len(Case.ev) : Case.ev[q].ev = "dbscan"} : Case.ev[q1].labels # Case.ev[q2].labels
  \/ \E q1, q2 \in {q \in 1..Len(Case.ev) : Case.ev[q].ev = "optics"} : Case.ev[q1].order # Case.ev[q2].order

Accept ==
  /\ e = Len(Case.ev) + 1
  /\ Complete /\ SameDbscan /\ SameOptics
  /\ LET u == used \cup (IF KdDev \in Devs /\ KdDiffers THEN {KdDev} ELSE {}) IN
     IF u = {} THEN Ok(Case.id)
     ELSE OkDev(Case.id, IF u = {ZeroDev} THEN <<ZeroDev>> ELSE IF u = {KdDev} THEN <<KdDev>> ELSE <<KdDev, ZeroDev>>)
  /\ e' = e + 1 /\ UNCHANGED <<c, incl, used, vars>>

\* all events explained but the results differ between the indices (or an index is missing)
Reject ==
  /\ e = Len(Case.ev) + 1
  /\ ~(Complete /\ SameDbscan /\ SameOptics)
  /\ Fail(Case.id, "end:" \o (IF ~Complete THEN "incomplete"
                              ELSE IF ~SameDbscan THEN "dbscan_depends_on_index" ELSE "optics_depends_on_index")
                    \o ":" \o Conv)
  /\ e' = Len(Case.ev) + 2 /\ UNCHANGED <<c, incl, used, vars>>

TraceNext == TEvent \/ Accept \/ Reject
=============================================================================
