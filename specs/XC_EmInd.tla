------------------------------ MODULE XC_EmInd ------------------------------
(***************************************************************************)
(* X08 cross-check, typed side: TLC explores specs/EmInd.tla with the      *)
(* lower bounds drawn from -2..2 and tol = 2 (the bounded model of         *)
(* X10Em.tla; EmInd itself draws them from Int), checks IndInv and Safety  *)
(* on all reachable states and prints them in the JSON form of XC_EmRef.   *)
(***************************************************************************)
EXTENDS EmInd, Sequences, Json, TLC

TInit ==
  /\ maxit \in 1..I /\ nruns \in 1..R /\ tol = 2
  /\ pc = "start" /\ run = 0 /\ it = 0 /\ lbfin = FALSE /\ lbv = 0 /\ conv = -1 /\ dec = "none"
  /\ brun = 0 /\ blbfin = FALSE /\ blbv = 0 /\ bconv = -1
  /\ hlen = 0 /\ hlb = [r \in Runs |-> 0] /\ hconv = [r \in Runs |-> -1]
  /\ hkept = [r \in Runs |-> FALSE] /\ hiters = [r \in Runs |-> 0]
  /\ res = "none"
TIter == \E v \in -2..2 : EmIterV(v)
TNext == StartRun \/ TIter \/ EmRunEnd \/ EmResult

Proj == [maxit |-> maxit, nruns |-> nruns, tol |-> tol, pc |-> pc, run |-> run, it |-> it, lbfin |-> lbfin, lbv |-> lbv,
         conv |-> conv, dec |-> dec, brun |-> brun, blbfin |-> blbfin, blbv |-> blbv, bconv |-> bconv,
         hlen |-> hlen, hlb |-> hlb, hconv |-> hconv, hkept |-> hkept, hiters |-> hiters, res |-> res]
Emit == PrintT("ST " \o ToJson(Proj))
=============================================================================
