---------------------------- MODULE Incremental ----------------------------
(***************************************************************************)
(* C15 -- incremental fitting (`fit_with`) of linfa's online learners.     *)
(*                                                                         *)
(* PART I   relations (pure operators), used unchanged by Trace_Incremental *)
(*   naive Bayes : sufficient statistics of a row prefix (class counts,    *)
(*                 per-class sums and sums of squares, exact integers on    *)
(*                 lattice data) and the textbook estimates derived from    *)
(*                 them: prior = cnt/N, mean, population variance + eps     *)
(*                 (Gaussian); ln((N_cj+a)/(N_c+a d)) (multinomial);        *)
(*                 posterior scores and the arg-max relation (existential   *)
(*                 on ties and near-ties)                                   *)
(*   k-means     : state (Sum_c, N_c); a batch is assigned with the         *)
(*                 centroids at batch start, then folded by the running     *)
(*                 mean; converged <=> shift < tolerance                    *)
(*   FTRL        : per-coordinate FTRL-proximal step on fixed point 10^-6   *)
(*                 with an explicit first-order error bound                 *)
(* PART II  a bounded design model at the grain of the code: one action per *)
(*   fit_with call, the state is what the code stores (count, mean,         *)
(*   variance; feature counts; centroid, count) in exact rationals, merged  *)
(*   with the code's formulas (pooled mean/variance, point-by-point running *)
(*   mean).  TLC proves for every dataset and every ordered cut into        *)
(*   non-empty batches that the folded state is the textbook estimate of    *)
(*   the rows consumed so far -- hence independent of the cut.              *)
(***************************************************************************)
EXTENDS Elem, TLC

CONSTANTS MaxN, MaxV, MaxC       \* design-model bounds: rows, largest lattice value, classes

S6 == 1000000
S4 == 10000
\* sentinels written by the harness for non-finite / oversized floats (never a legal fixed-point value)
NONFIN == 2000000000
IsNum(v) == v < NONFIN /\ v > -NONFIN

-----------------------------------------------------------------------------
(* arithmetic helpers (31-bit safe) *)

RECURSIVE GCD(_, _)
GCD(a, b) == IF b = 0 THEN a ELSE GCD(b, a % b)                  \* a, b >= 0

Pow10(kk) == CASE kk = 0 -> 1 [] kk = 1 -> 10 [] kk = 2 -> 100 [] kk = 3 -> 1000 [] kk = 4 -> 10000
               [] kk = 5 -> 100000 [] kk = 6 -> 1000000

\* exact floor(r * 10^digits / cc) for 0 <= r < cc < 2*10^8, digit by digit
RECURSIVE LongDiv(_, _, _)
LongDiv(r, cc, digits) ==
  IF digits = 0 THEN 0
  ELSE LET r10 == r * 10 IN (r10 \div cc) * Pow10(digits - 1) + LongDiv(r10 % cc, cc, digits - 1)

\* a * 10^digits / cc truncated towards zero ; cc > 0 ; |result| < 2^31
DivPow(a, cc, digits) ==
  LET aa == Abs(a) IN Sgn(a) * ((aa \div cc) * Pow10(digits) + LongDiv(aa % cc, cc, digits))
FxDiv(a, cc) == DivPow(a, cc, 6)                                  \* the rational a/cc at scale 10^6

\* sqrt at scale 10^6 of a value at scale 10^6 (0 <= v < 2^31), error <= 3 units
SqrtS6(v) ==
  IF v <= 2147 THEN Isqrt(v * 1000000)
  ELSE LET r  == Isqrt(v)
           dd == (1000 * (v - r * r)) \div (2 * r)
       IN 1000 * r + dd - (dd * dd) \div (2000 * r)

\* ln(v / 10^6) * 10^4 for v >= 1 (error ~ 4 units): LnFx reads v at scale 10^4, ln(100) = 4.60517
LnS6(v) == LnFx(v) - 46052

\* TLC evaluates a function constructor lazily and re-evaluates its body at every application; concatenating with
\* the empty sequence turns a function over 1..n into an explicit tuple whose elements are computed once
Eag(sq) == sq \o <<>>

-----------------------------------------------------------------------------
(* I.1  naive Bayes: sufficient statistics of the prefix 1..m of a labelled dataset *)

ClassesOf(labs, m) == {labs[i] : i \in 1..m}
Cnt(labs, m, cl) == Cardinality({i \in 1..m : labs[i] = cl})
Sx(rows, labs, m, cl, j)  == SumSeq([i \in 1..m |-> IF labs[i] = cl THEN rows[i][j] ELSE 0])
Sxx(rows, labs, m, cl, j) == SumSeq([i \in 1..m |-> IF labs[i] = cl THEN rows[i][j] * rows[i][j] ELSE 0])
\* the same for a row range lo..hi (one batch)
CntR(labs, lo, hi, cl) == Cardinality({i \in lo..hi : labs[i] = cl})
SxR(rows, labs, lo, hi, cl, j)  == SumSeq([q \in 1..(hi - lo + 1) |-> IF labs[lo + q - 1] = cl THEN rows[lo + q - 1][j] ELSE 0])
SxxR(rows, labs, lo, hi, cl, j) == SumSeq([q \in 1..(hi - lo + 1) |-> IF labs[lo + q - 1] = cl THEN rows[lo + q - 1][j] * rows[lo + q - 1][j] ELSE 0])
\* all rows of the range, regardless of class
TotR(rows, lo, hi, j)   == SumSeq([q \in 1..(hi - lo + 1) |-> rows[lo + q - 1][j]])
TotSqR(rows, lo, hi, j) == SumSeq([q \in 1..(hi - lo + 1) |-> rows[lo + q - 1][j] * rows[lo + q - 1][j]])

\* population variance of a sample with count cc, sum s, sum of squares ss: (cc ss - s^2) / cc^2
VarNum(cc, s, ss) == cc * ss - s * s
\* largest per-feature variance of all rows lo..hi as a rational <<num, den>>
MaxVarNum(rows, lo, hi, d) == MaxSet({VarNum(hi - lo + 1, TotR(rows, lo, hi, j), TotSqR(rows, lo, hi, j)) : j \in 1..d})
\* variance smoothing term eps = vs * max_j Var_j at scale 10^6 ; vs = <<num, den>> ; a vs below 10^-3 is
\* below the resolution (eps < 10^-7 on the generated lattices) and counts as 0
Eps6(rows, lo, hi, d, vs) ==
  IF vs.num = 0 \/ vs.den > 1000 THEN 0
  ELSE FxDiv(vs.num * MaxVarNum(rows, lo, hi, d), vs.den * (hi - lo + 1) * (hi - lo + 1))

\* textbook Gaussian estimates of class cl from the prefix 1..m, at scale 10^6
Prior6(labs, m, cl) == FxDiv(Cnt(labs, m, cl), m)
Theta6(rows, labs, m, cl, j) == FxDiv(Sx(rows, labs, m, cl, j), Cnt(labs, m, cl))
Var6(rows, labs, m, cl, j) ==
  LET cc == Cnt(labs, m, cl) IN FxDiv(VarNum(cc, Sx(rows, labs, m, cl, j), Sxx(rows, labs, m, cl, j)), cc * cc)
Sigma6(rows, labs, m, d, vs, cl, j) == Var6(rows, labs, m, cl, j) + Eps6(rows, 1, m, d, vs)

\* multinomial: smoothed feature log-probability ln((N_cj + a) / (N_c + a d)) at scale 10^4, a = <<num, den>>
\* numerator / denominator as integers (multiplied by a.den) ; NONFIN when the estimate is 0 or 0/0
FlpNum(rows, labs, m, alpha, cl, j) == alpha.den * Sx(rows, labs, m, cl, j) + alpha.num
FlpDen(rows, labs, m, d, alpha, cl) == alpha.den * SumSeq([j \in 1..d |-> Sx(rows, labs, m, cl, j)]) + alpha.num * d
Flp4(rows, labs, m, d, alpha, cl, j) ==
  LET a == FlpNum(rows, labs, m, alpha, cl, j)  b == FlpDen(rows, labs, m, d, alpha, cl)
  IN IF a = 0 \/ b = 0 THEN NONFIN ELSE LnRat(a, b)

-----------------------------------------------------------------------------
(* I.2  posterior scores (scale 10^4) and the arg-max relation *)

\* a score is <<kind, value, err>>: kind 0 = finite, -1 = minus infinity, 2 = undefined (NaN in the textbook too)
\* Gaussian: ln prior - 1/2 sum ln sigma - 1/2 sum (q-theta)^2/sigma   (the d ln(2 pi)/2 term is common to all classes)
\* theta6 / sigma6 are sequences over features at scale 10^6 ; demanded only when every sigma >= MinSig6
MinSig6 == 62500
GTerm4(qv, th6, sg6) ==           \* (q - theta)^2 / sigma at scale 10^4
  LET dq == qv * S6 - th6
      sq == MulS6(dq, dq)
  IN DivPow(sq, sg6, 4)
GScore(cc, nn, th6, sg6, q, d) ==
  LET lnp  == LnRat(cc, nn)
      lns  == SumSeq([j \in 1..d |-> LnS6(sg6[j])])
      mah  == SumSeq([j \in 1..d |-> GTerm4(q[j], th6[j], sg6[j])])
      \* error: tables (5 per feature + 2), relative error 2*10^-4 of the quadratic term (sigma known to ~10^-5)
  IN <<0, lnp - (lns + mah) \div 2, 8 * d + 6 + mah \div 4000>>

\* multinomial: ln prior + sum q_j flp_j ; 0 * ln 0 = 0 (an absent feature contributes nothing)
MScore(cc, nn, flp, q, d) ==
  IF \E j \in 1..d : flp[j] = NONFIN /\ q[j] > 0 THEN <<-1, 0, 0>>
  ELSE <<0, LnRat(cc, nn) + SumSeq([j \in 1..d |-> IF q[j] = 0 THEN 0 ELSE q[j] * flp[j]]),
         2 + SumSeq([j \in 1..d |-> q[j]])>>

\* `pred` is an admissible prediction given the scores (a function class -> score): it maximises the
\* posterior; classes whose scores differ by no more than the stated error are tied
Admissible(pred, scores, classes) ==
  /\ pred \in classes
  /\ IF \A cl \in classes : scores[cl][1] = -1 THEN TRUE          \* all minus infinity: tied
     ELSE /\ scores[pred][1] = 0
          /\ \A cl \in classes : scores[cl][1] = 0 =>
                scores[pred][2] + scores[pred][3] + scores[cl][3] >= scores[cl][2]

-----------------------------------------------------------------------------
(* I.3  mini-batch k-means *)
(* state: sum[c] (sequence over features), cnt[c] ; centroid of c = init[c] while cnt[c] = 0, else sum[c]/cnt[c] *)

\* centroid as a pair <<numerators (seq), denominator>>
KmCent(st, cl) == IF st.cnt[cl] = 0 THEN <<st.init[cl], 1>> ELSE <<st.sum[cl], st.cnt[cl]>>
\* squared distance point-centroid times den^2
KmD2Num(p, cen, d) == SumSeq([j \in 1..d |-> (p[j] * cen[2] - cen[1][j]) * (p[j] * cen[2] - cen[1][j])])
\* the same for the other metrics of linfa-nn (legal through KMeans::params_with): the distance times den
KmD1Num(p, cen, d)   == SumSeq([j \in 1..d |-> Abs(p[j] * cen[2] - cen[1][j])])                 \* L1  (Manhattan)
KmDInfNum(p, cen, d) == MaxSet({Abs(p[j] * cen[2] - cen[1][j]) : j \in 1..d})                   \* Linf (Chebyshev)
\* cl is a nearest centroid of p under the metric (exact rational comparison by cross-multiplication)
KmNearest(st, p, cl, kk, d, metric) ==
  LET a == KmCent(st, cl) IN
  \A c2 \in 1..kk : LET bb == KmCent(st, c2) IN
      CASE metric = "l2"   -> KmD2Num(p, a, d) * (bb[2] * bb[2]) <= KmD2Num(p, bb, d) * (a[2] * a[2])
        [] metric = "l1"   -> KmD1Num(p, a, d) * bb[2] <= KmD1Num(p, bb, d) * a[2]
        [] metric = "linf" -> KmDInfNum(p, a, d) * bb[2] <= KmDInfNum(p, bb, d) * a[2]
KmNearestSet(st, p, kk, d, metric) == {cl \in 1..kk : KmNearest(st, p, cl, kk, d, metric)}
\* all assignments of the batch points to nearest centroids (ties: every choice)
RECURSIVE KmAssigns(_, _, _, _, _, _)
KmAssigns(st, batch, i, kk, d, metric) ==
  IF i > Len(batch) THEN {<<>>}
  ELSE {<<cl>> \o rest : cl \in KmNearestSet(st, batch[i], kk, d, metric), rest \in KmAssigns(st, batch, i + 1, kk, d, metric)}
\* the running-mean fold of one batch in closed form: the first point of an empty cluster replaces its initial centroid
KmFold(st, batch, asg, kk, d) ==
  [init |-> st.init,
   cnt  |-> Eag([cl \in 1..kk |-> st.cnt[cl] + Cardinality({i \in 1..Len(batch) : asg[i] = cl})]),
   sum  |-> Eag([cl \in 1..kk |-> Eag([j \in 1..d |->
               (IF st.cnt[cl] = 0 THEN 0 ELSE st.sum[cl][j])
               + SumSeq([i \in 1..Len(batch) |-> IF asg[i] = cl THEN batch[i][j] ELSE 0])])])]
KmMoved(st, st2, kk) == {cl \in 1..kk : st2.cnt[cl] # st.cnt[cl]}

\* squared shift of all centroids between two states, compared with tol^2 (tol = <<num, den>>):
\* returns -1 (shift < tol), 1 (shift > tol), 0 (equal or too close to call: either flag is acceptable --
\* the documentation says "lower or equal" in one place and "below" in another)
KmDenProd(st, st2, kk) ==
  LET f[cl \in 0..kk] == IF cl = 0 THEN 1
                         ELSE IF cl \in KmMoved(st, st2, kk) THEN f[cl - 1] * KmCent(st, cl)[2] * st2.cnt[cl] ELSE f[cl - 1]
  IN f[kk]
KmShiftCmpL2(st, st2, kk, d, tol) ==
  LET moved == KmMoved(st, st2, kk)
      small == /\ \A cl \in moved : /\ KmCent(st, cl)[2] * st2.cnt[cl] <= 30
                                    /\ \A j \in 1..d : Abs(st2.sum[cl][j] * KmCent(st, cl)[2] - KmCent(st, cl)[1][j] * st2.cnt[cl]) <= 240
               /\ Cardinality(moved) <= 2 /\ tol.den <= 2 /\ tol.num <= 30
  IN
  IF moved = {} THEN -1                                           \* nothing moved: shift 0 < tol
  ELSE IF small THEN
    \* exact: common denominator D = prod (den_c n'_c) over moved clusters
    LET D == KmDenProd(st, st2, kk)
        num == SumSeq([cl \in 1..kk |-> IF cl \notin moved THEN 0 ELSE
                 LET a == KmCent(st, cl)  m2 == st2.cnt[cl]  w == D \div (a[2] * m2) IN
                 SumSeq([j \in 1..d |-> (w * (st2.sum[cl][j] * a[2] - a[1][j] * m2)) * (w * (st2.sum[cl][j] * a[2] - a[1][j] * m2))])])
        lhs == num * (tol.den * tol.den)               \* shift^2 * D^2 * tden^2
        rhs == (tol.num * D) * (tol.num * D)
    IN IF lhs < rhs THEN -1 ELSE IF lhs > rhs THEN 1 ELSE 0
  ELSE
    \* fixed point 10^-3 with an explicit window
    LET diff(cl, j) == LET a == KmCent(st, cl) IN
                         DivPow(st2.sum[cl][j] * a[2] - a[1][j] * st2.cnt[cl], a[2] * st2.cnt[cl], 3)
        sq  == SumSeq([cl \in 1..kk |-> IF cl \notin moved THEN 0 ELSE SumSeq([j \in 1..d |-> diff(cl, j) * diff(cl, j)])])
        win == SumSeq([cl \in 1..kk |-> IF cl \notin moved THEN 0 ELSE SumSeq([j \in 1..d |-> 2 * Abs(diff(cl, j)) + 2])]) + 2
        t3  == DivPow(tol.num, tol.den, 3)
        tsq == t3 * t3
        twin == 2 * t3 + 2
    IN IF sq + win < tsq - twin THEN -1 ELSE IF sq - win > tsq + twin THEN 1 ELSE 0

\* The shift is the configured metric applied to the whole centroid matrix (fit_with: dist_fn.distance(old, new)).
\* entry (cl, j) of |new - old| is |e.n| / e.d
KmShiftEntries(st, st2, kk, d) ==
  {[n |-> Abs(st2.sum[cl][j] * KmCent(st, cl)[2] - KmCent(st, cl)[1][j] * st2.cnt[cl]), d |-> KmCent(st, cl)[2] * st2.cnt[cl], at |-> <<cl, j>>] :
      cl \in KmMoved(st, st2, kk), j \in 1..d}
\* Linf: the largest entry against tol, entry by entry, exact
KmShiftCmpLinf(st, st2, kk, d, tol) ==
  LET es == KmShiftEntries(st, st2, kk, d) IN
  IF \E en \in es : en.n * tol.den > tol.num * en.d THEN 1
  ELSE IF \A en \in es : en.n * tol.den < tol.num * en.d THEN -1 ELSE 0
\* L1: the sum of the entries at 10^-6 (each truncated by < 1 unit) against tol
KmShiftCmpL1(st, st2, kk, d, tol) ==
  LET moved == KmMoved(st, st2, kk)
      lo == SumSeq([cl \in 1..kk |-> IF cl \notin moved THEN 0 ELSE
              SumSeq([j \in 1..d |-> DivPow(Abs(st2.sum[cl][j] * KmCent(st, cl)[2] - KmCent(st, cl)[1][j] * st2.cnt[cl]),
                                            KmCent(st, cl)[2] * st2.cnt[cl], 6)])])
      hi == lo + Cardinality(moved) * d
      t6 == DivPow(tol.num, tol.den, 6)
  IN IF hi < t6 THEN -1 ELSE IF lo > t6 + 1 THEN 1 ELSE 0
KmShiftCmp(st, st2, kk, d, tol, metric) ==
  CASE metric = "l2"   -> KmShiftCmpL2(st, st2, kk, d, tol)
    [] metric = "l1"   -> KmShiftCmpL1(st, st2, kk, d, tol)
    [] metric = "linf" -> KmShiftCmpLinf(st, st2, kk, d, tol)

-----------------------------------------------------------------------------
(* I.4  FTRL-proximal, per coordinate, fixed point 10^-6 *)
(* hyper-parameters h = [alpha, beta, l1, l2] at scale 10^6.  The documented recurrence (McMahan et al. 2013,  *)
(* algorithm 1, the paper the crate documentation refers to), with the batch gradient g = sum_i (p_i - y_i) x_i: *)
(*    w      = 0                                              if |z| <= l1                                     *)
(*           = (sgn(z) l1 - z) / ((beta + sqrt n)/alpha + l2) otherwise                                        *)
(*    sigma  = (sqrt(n + g^2) - sqrt n) / alpha                                                                *)
(*    z'     = z + g - sigma w          n' = n + g^2                                                           *)

FtDen6(n6, h) == SqrtS6(n6) + h.beta + MulS6(h.alpha, h.l2)       \* sqrt(n) + beta + alpha l2   (= alpha * D)
FtNum6(z6, h) == Sgn(z6) * h.l1 - z6                              \* sgn(z) l1 - z
\* the closed form can be evaluated inside 31 bits when alpha/den < 40
FtWInRange(n6, h) == FtDen6(n6, h) > 0 /\ h.alpha \div FtDen6(n6, h) < 40
\* w = (sgn(z) l1 - z) * (alpha / (sqrt(n) + beta + alpha l2))
FtW6(z6, n6, h) == MulS6(FtNum6(z6, h), DivPow(h.alpha, FtDen6(n6, h), 6))
\* gradient of the batch: sum_i (p_i - y_i) x_ij  (p at scale 10^6, x integer)
FtG6(p6, ys, xs, j) == SumSeq([i \in 1..Len(xs) |-> (p6[i] - (IF ys[i] THEN S6 ELSE 0)) * xs[i][j]])
FtEg(xs, j) == 1 + SumSeq([i \in 1..Len(xs) |-> Abs(xs[i][j])])   \* error of g (quantisation of p)
\* error (units) of SqrtS6(v6) when v6 itself is only known to +-ev units
ESqrt(v6, ev) == 3 + (IF v6 <= ev THEN 1000 * (Isqrt(v6 + ev) + 1) ELSE (1000 * ev) \div Isqrt(v6) + 1)
FtEs0(n6, nzero) == IF nzero THEN 0 ELSE ESqrt(n6, 1)
FtEg2(g6, eg) == 3 + (2 * (Abs(g6) \div 1000 + 1) * eg) \div 1000           \* error of g^2
\* sqrt(n + g^2) - sqrt(n) ; exactly |g| when n is exactly zero
FtDsq(n6, g6, nzero) == IF nzero THEN Abs(g6) ELSE SqrtS6(n6 + MulS6(g6, g6)) - SqrtS6(n6)
FtEd(n6, g6, nzero, eg) ==
  IF nzero THEN eg ELSE FtEs0(n6, nzero) + ESqrt(n6 + MulS6(g6, g6), 1 + FtEg2(g6, eg))
\* sigma = dsq / alpha ; the z-step can be evaluated inside 31 bits when sigma < 2000 and sigma |w| < 2000
FtSigma6(n6, g6, h, nzero) == DivPow(FtDsq(n6, g6, nzero), h.alpha, 6)
FtZInRange(n6, g6, h, w6, nzero) ==
  /\ h.alpha >= 1000 /\ Abs(g6) < 40000000 /\ n6 < 400000000
  /\ FtDsq(n6, g6, nzero) \div h.alpha < 2000
  /\ (FtDsq(n6, g6, nzero) \div h.alpha + 1) * (Abs(w6) \div S6 + 1) < 2000
\* z' = z + g - sigma w  with the weight w of the previous state
FtZNext6(z6, n6, g6, h, w6, nzero) == z6 + g6 - MulS6(FtSigma6(n6, g6, h, nzero), w6)
FtNNext6(n6, g6) == n6 + MulS6(g6, g6)
\* first-order error bounds (units of 10^-6)
FtSlackN(g6, eg) == 3 + FtEg2(g6, eg)
FtSlackZ(n6, g6, h, w6, wzero, nzero, eg) ==
  IF wzero THEN 3 + eg
  ELSE 8 + eg + FtEd(n6, g6, nzero, eg) * (Abs(w6) \div h.alpha + 1) + (FtSigma6(n6, g6, h, nzero) \div S6 + 1)
FtSlackW(z6, n6, h, es0) ==
  6 + (Abs(FtNum6(z6, h)) \div S6 + 1) + (Abs(FtW6(z6, n6, h)) \div FtDen6(n6, h) + 1) * (es0 + 4)

-----------------------------------------------------------------------------
(* PART II  bounded design model: one action per fit_with call                                   *)
(* 1-D features (every formula is coordinate-wise), classes 0..MaxC-1, lattice 0..MaxV.          *)
(* The stored state is what the code stores, as exact rationals <<num, den>> (reduced):           *)
(*   g[cl]  = [cnt, mu, var]      Gaussian  (update_mean_variance)                                *)
(*   mn[cl] = [cnt, fc]           multinomial (feature count)                                    *)
(*   km[cl] = [cnt, cen]          mini-batch k-means, 2 clusters, initial centroids 0 and MaxV   *)
(* ghost variable `used` = number of rows consumed.                                              *)

VARIABLES drows, dlabs, dcut, b, used, g, mn, km, ksum

dvars == <<drows, dlabs, dcut, b, used, g, mn, km, ksum>>

RNorm(r) == LET gg == GCD(Abs(r[1]), r[2]) IN IF gg = 0 THEN <<0, 1>> ELSE <<r[1] \div gg, r[2] \div gg>>
RAdd(x, y) == RNorm(<<x[1] * y[2] + y[1] * x[2], x[2] * y[2]>>)
RSub(x, y) == RNorm(<<x[1] * y[2] - y[1] * x[2], x[2] * y[2]>>)
RMul(x, y) == RNorm(<<x[1] * y[1], x[2] * y[2]>>)
RDivI(x, kk) == RNorm(<<x[1], x[2] * kk>>)
RInt(kk) == <<kk, 1>>

\* all compositions of nn into ordered positive parts
RECURSIVE Compositions(_)
Compositions(nn) == IF nn = 0 THEN {<<>>} ELSE UNION {{<<first>> \o rest : rest \in Compositions(nn - first)} : first \in 1..nn}

Absent == [cnt |-> 0, mu |-> <<0, 1>>, var |-> <<0, 1>>]
DInit ==
  /\ \E nn \in 1..MaxN :
       /\ drows \in [1..nn -> 0..MaxV]
       /\ dlabs \in {l \in [1..nn -> 0..(MaxC - 1)] : l[1] = 0}       \* class names are symmetric
       /\ dcut \in Compositions(nn)
  /\ b = 0 /\ used = 0
  /\ g = [cl \in 0..(MaxC - 1) |-> Absent]
  /\ mn = [cl \in 0..(MaxC - 1) |-> [cnt |-> 0, fc |-> 0]]
  /\ km = [cl \in 1..2 |-> [cnt |-> 0, cen |-> RInt(IF cl = 1 THEN 0 ELSE MaxV)]]
  /\ ksum = [cl \in 1..2 |-> 0]

\* the code's pooled update of mean and variance (gaussian_nb.rs update_mean_variance)
BatchIdx(lo, hi, cl) == {i \in lo..hi : dlabs[i] = cl}
SumOver(I) == LET idx == [q \in 1..Len(drows) |-> IF q \in I THEN drows[q] ELSE 0] IN SumSeq(idx)
SumSqOver(I) == LET idx == [q \in 1..Len(drows) |-> IF q \in I THEN drows[q] * drows[q] ELSE 0] IN SumSeq(idx)
GMerge(old, I) ==
  LET cn == Cardinality(I) IN
  IF cn = 0 THEN old
  ELSE LET muN  == RNorm(<<SumOver(I), cn>>)
           varN == RNorm(<<VarNum(cn, SumOver(I), SumSqOver(I)), cn * cn>>)
       IN IF old.cnt = 0 THEN [cnt |-> cn, mu |-> muN, var |-> varN]
          ELSE LET ct   == old.cnt + cn
                   mu   == RDivI(RAdd(RMul(muN, RInt(cn)), RMul(old.mu, RInt(old.cnt))), ct)
                   dm   == RSub(old.mu, muN)
                   ssd  == RAdd(RAdd(RMul(old.var, RInt(old.cnt)), RMul(varN, RInt(cn))),
                                RMul(RNorm(<<cn * old.cnt, ct>>), RMul(dm, dm)))
               IN [cnt |-> ct, mu |-> mu, var |-> RDivI(ssd, ct)]

\* the code's point-by-point running mean (compute_centroids_incremental), assignment at batch start
KmNear1(p) ==      \* nearest of the two centroids in 1-D, exact ; ties -> both
  LET d1 == RSub(RInt(p), km[1].cen)  d2 == RSub(RInt(p), km[2].cen)
      a == d1[1] * d1[1] * d2[2] * d2[2]  bb == d2[1] * d2[1] * d1[2] * d1[2]
  IN IF a < bb THEN {1} ELSE IF bb < a THEN {2} ELSE {1, 2}
RECURSIVE KmRun(_, _, _, _)
KmRun(st, lo, hi, asg) ==       \* fold rows lo..hi one by one
  IF lo > hi THEN st
  ELSE LET cl == asg[lo]
           c2 == st[cl].cnt + 1
           cen2 == RAdd(st[cl].cen, RDivI(RSub(RInt(drows[lo]), st[cl].cen), c2))
       IN KmRun([st EXCEPT ![cl] = [cnt |-> c2, cen |-> cen2]], lo + 1, hi, asg)

Batch ==
  /\ b < Len(dcut)
  /\ LET lo == used + 1  hi == used + dcut[b + 1] IN
     /\ g'  = [cl \in 0..(MaxC - 1) |-> GMerge(g[cl], BatchIdx(lo, hi, cl))]
     /\ mn' = [cl \in 0..(MaxC - 1) |-> LET I == BatchIdx(lo, hi, cl) IN
                 IF I = {} THEN mn[cl]
                 ELSE [cnt |-> mn[cl].cnt + Cardinality(I),
                       fc  |-> (IF mn[cl].cnt > 0 THEN mn[cl].fc ELSE 0) + SumOver(I)]]
     /\ \E asg \in [lo..hi -> 1..2] :
          /\ \A i \in lo..hi : asg[i] \in KmNear1(drows[i])
          /\ km' = KmRun(km, lo, hi, asg)
          /\ ksum' = [cl \in 1..2 |-> (IF km[cl].cnt = 0 THEN 0 ELSE ksum[cl]) + SumOver({i \in lo..hi : asg[i] = cl})]
     /\ used' = hi
  /\ b' = b + 1
  /\ UNCHANGED <<drows, dlabs, dcut>>

DDone == b = Len(dcut) /\ UNCHANGED dvars
DNext == Batch \/ DDone
DSpec == DInit /\ [][DNext]_dvars

\* ---- invariants of the design: the stored state is the textbook estimate of the rows consumed,
\* whatever the cut (so any two cuts of the same rows agree, and agree with the single fit)
Pref == 1..used
InvGaussian ==
  \A cl \in 0..(MaxC - 1) :
    LET I == {i \in Pref : dlabs[i] = cl}  cn == Cardinality(I) IN
    /\ g[cl].cnt = cn
    /\ cn > 0 => /\ REq(g[cl].mu, <<SumOver(I), cn>>)
                 /\ REq(g[cl].var, <<VarNum(cn, SumOver(I), SumSqOver(I)), cn * cn>>)
                 /\ g[cl].var[1] >= 0
InvPriors ==    \* class counts sum to the rows consumed (priors sum to one), absent classes keep their count
  SumSeq([q \in 1..MaxC |-> g[q - 1].cnt]) = used /\ SumSeq([q \in 1..MaxC |-> mn[q - 1].cnt]) = used
InvMultinomial ==
  \A cl \in 0..(MaxC - 1) :
    LET I == {i \in Pref : dlabs[i] = cl} IN mn[cl].cnt = Cardinality(I) /\ mn[cl].fc = SumOver(I)
InvKMeans ==    \* running mean = sum / cumulative count ; the initial centroid survives only while the count is 0
  \A cl \in 1..2 :
    /\ km[cl].cnt = 0 => km[cl].cen = RInt(IF cl = 1 THEN 0 ELSE MaxV)
    /\ km[cl].cnt > 0 => REq(km[cl].cen, <<ksum[cl], km[cl].cnt>>)
InvKmCount == km[1].cnt + km[2].cnt = used
\* the relations of part I, evaluated on the same data, agree with the stored state (guards the operators
\* the trace specification uses against being wrong or vacuous)
InvRelations ==
  LET rows2 == [i \in 1..Len(drows) |-> <<drows[i]>>] IN
  \A cl \in 0..(MaxC - 1) :
    LET cn == Cnt(dlabs, used, cl) IN
    /\ cn = g[cl].cnt
    /\ cn > 0 => /\ Abs(Theta6(rows2, dlabs, used, cl, 1) - FxDiv(g[cl].mu[1], g[cl].mu[2])) <= 1
                 /\ Abs(Var6(rows2, dlabs, used, cl, 1) - FxDiv(g[cl].var[1], g[cl].var[2])) <= 1
                 /\ Sx(rows2, dlabs, used, cl, 1) = mn[cl].fc

-----------------------------------------------------------------------------
(* FTRL design facts on a fixed-point grid (second bounded model, no history needed: one step)          *)
(* FtOgd: without L1 and L2 the step is online gradient descent with rate alpha/(beta+sqrt(n')) (README) *)
(* FtSparse / FtSign / FtMono: structure of the proximal weights and of n                               *)
FtGridZ == {-2500000, -1000000, -500000, -250000, 0, 125000, 500000, 750000, 1500000, 3000000}
FtGridN == {0, 10000, 250000, 1000000, 4000000, 9000000}
FtGridG == {-2000000, -700000, -10000, 0, 300000, 1000000, 2500000}
FtGridH == {[alpha |-> 500000, beta |-> 1000000, l1 |-> 500000, l2 |-> 500000],
            [alpha |-> 100000, beta |-> 0, l1 |-> 250000, l2 |-> 1000000],
            [alpha |-> 1000000, beta |-> 500000, l1 |-> 0, l2 |-> 0],
            [alpha |-> 50000, beta |-> 1000000, l1 |-> 0, l2 |-> 0]}
FtFacts ==
  \A z6 \in FtGridZ, n6 \in FtGridN, g6 \in FtGridG, h \in FtGridH :
    LET wz == Abs(z6) <= h.l1
        w  == IF wz THEN 0 ELSE FtW6(z6, n6, h)
        z2 == FtZNext6(z6, n6, g6, h, w, n6 = 0)
        n2 == FtNNext6(n6, g6)
        w2 == IF Abs(z2) <= h.l1 THEN 0 ELSE FtW6(z2, n2, h)
    IN /\ FtWInRange(n6, h) /\ FtZInRange(n6, g6, h, w, n6 = 0)
       /\ n2 >= n6                                                         \* FtMono
       /\ (~wz) => Sgn(w) = -Sgn(z6)                                       \* FtSign
       /\ (h.l1 = 0 /\ h.l2 = 0) =>                                        \* FtOgd: w' = w - alpha g / (beta + sqrt n')
             Abs(w2 - (w - MulS6(g6, DivPow(h.alpha, SqrtS6(n2) + h.beta, 6)))) <= 60
\* k-means shift under the three metrics: with one feature and one moved cluster they are the same number |c' - c|,
\* so the three comparisons must agree wherever both decide; and L1 >= L2 >= Linf in general
KmGridSt == {[init |-> <<<<i1>>, <<4>>>>, sum |-> <<<<s1>>, <<0>>>>, cnt |-> <<n1, 0>>] : i1 \in {0, 3}, s1 \in 0..6, n1 \in 0..3}
KmMetricFacts ==
  \A st \in KmGridSt, pt \in {0, 1, 2, 5}, tol \in {[num |-> 1, den |-> 2], [num |-> 3, den |-> 4], [num |-> 3, den |-> 2], [num |-> 2, den |-> 1]} :
    LET st2 == KmFold(st, <<<<pt>>>>, <<1>>, 2, 1)
        c2 == KmShiftCmp(st, st2, 2, 1, tol, "l2")  c1 == KmShiftCmp(st, st2, 2, 1, tol, "l1")  ci == KmShiftCmp(st, st2, 2, 1, tol, "linf")
    IN /\ (c1 # 0 /\ ci # 0) => c1 = ci
       /\ (c2 # 0 /\ ci # 0) => c2 = ci
       /\ \* the exact rational |c' - c| against tol, straight from the definition
          LET a == KmCent(st, 1)  nn == Abs(st2.sum[1][1] * a[2] - a[1][1] * st2.cnt[1])  dd == a[2] * st2.cnt[1] IN
          ci = (IF nn * tol.den > tol.num * dd THEN 1 ELSE IF nn * tol.den < tol.num * dd THEN -1 ELSE 0)
\* evaluated once (in the single state of the smallest design model), not in every state
FtFactsOnce == (b = 0 /\ Len(drows) = 1 /\ drows[1] = 0) => (FtFacts /\ KmMetricFacts)
=============================================================================
