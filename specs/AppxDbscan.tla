----------------------------- MODULE AppxDbscan -----------------------------
(***************************************************************************)
(* X05 -- rho-approximate DBSCAN (Gan & Tao) as documented for             *)
(* linfa_clustering::AppxDbscan (tolerance eps, min_points, slack rho).    *)
(*                                                                         *)
(* Part 1: the contract, as a relation between an input (lattice points,   *)
(*   eps = en/ed, rho = rn/rd, min_points) and a label vector.  All        *)
(*   comparisons are between integers: squared Euclidean distances of      *)
(*   lattice points against en^2/ed^2 and en^2 (rd+rn)^2 / (ed^2 rd^2).    *)
(*     ACoreLab    a core point (>= min_points points within eps, itself   *)
(*                 counted, radius exact) carries a cluster label          *)
(*     AMust       two core points within eps carry the same label         *)
(*     AChain      core points with the same label are joined by a chain   *)
(*                 of core points with consecutive distance <= eps(1+rho)  *)
(*     ABorderMay  a non-core point carries a label only if a core point   *)
(*                 of that cluster lies within eps(1+rho) of it            *)
(*     ABorderMust a non-core point with a core point within eps carries   *)
(*                 a label (which one is free)                             *)
(*   everything else is noise (-1).  Cluster numbering is free.            *)
(*   Consequences checked as invariants of the design model (part 2):      *)
(*   the sandwich (every exact DBSCAN(eps) cluster inside one approximate  *)
(*   cluster, every approximate cluster inside one exact                   *)
(*   DBSCAN(eps(1+rho)) cluster), and: when no attainable distance lies in *)
(*   (eps, eps(1+rho)] the relation is the exact DBSCAN relation.          *)
(*                                                                         *)
(* Part 2: the algorithm's state machine at the grain of                   *)
(*   algorithms/linfa-clustering/src/appx_dbscan: grid cells of side       *)
(*   eps/sqrt(d) anchored at the origin, points inserted into cells, the   *)
(*   neighbour-cell relation, core points per cell (dense cell: all core;  *)
(*   sparse cell: exact count over neighbour cells), union of neighbouring *)
(*   core cells (the approximate range count is abstracted to its          *)
(*   guarantee: positive if a core point within eps, zero if none within   *)
(*   eps(1+rho), free in between), cluster ids per set, border points.     *)
(*   CONSTANTS IdxMode / NbMode select the design or the variants found by *)
(*   reading the code:                                                     *)
(*     IdxMode "halfopen" : cell k = [k-1/2, k+1/2) side   (design)        *)
(*             "ascoded"  : get_cell_index as written: (k-1/2, k+1/2] for  *)
(*                          k # 0 and the closed cell [-1/2, 1/2] for 0    *)
(*     NbMode  "centre"      : cells whose centres are closer than 2 eps   *)
(*             "centre_incl" : ... at most 2 eps                           *)
(*             "firstpoint"  : as written: the range query runs over the   *)
(*                          first point inserted into each cell            *)
(*   TLC shows halfopen+centre, halfopen+centre_incl, ascoded+centre_incl  *)
(*   correct and ascoded+centre, *+firstpoint incorrect (props/x05.py).    *)
(***************************************************************************)
EXTENDS Geo, TLC

-----------------------------------------------------------------------------
(* Part 1a: radii *)

D2M(P) == [i \in 1..Len(P) |-> [j \in 1..Len(P) |-> L2sq(P[i], P[j])]]

\* d <= eps (inc) resp. d < eps on squared distances
InEps(en, ed, inc, dd) == IF inc THEN dd * ed * ed <= en * en ELSE dd * ed * ed < en * en
OnEps(en, ed, dd) == dd * ed * ed = en * en

\* "tiny" slack: 4 rho en^2 <= 1.  Then rho <= 1/4 and eps^2((1+rho)^2 - 1) = en^2 (2 rho + rho^2) / ed^2
\* <= (9/16) / ed^2 < 1 / ed^2, while an integer squared distance above en^2/ed^2 exceeds it by >= 1/ed^2:
\* no lattice distance lies in (eps, eps(1+rho)], the relaxed radius selects the same pairs as eps.
\* (Used for rho = 2^-10 whose exact products would leave TLC's 32-bit integers.)
Tiny(en, rn, rd) == 4 * rn * en * en <= rd
InAppx(en, ed, rn, rd, dd) ==
  IF Tiny(en, rn, rd) THEN dd * ed * ed <= en * en
  ELSE dd * ed * ed * rd * rd <= en * en * (rd + rn) * (rd + rn)

NbOf(D, In(_)) == [i \in 1..Len(D) |-> {j \in 1..Len(D) : In(D[i][j])}]
NbEps(D, en, ed, inc) == LET In(x) == InEps(en, ed, inc, x) IN NbOf(D, In)
NbAppx(D, en, ed, rn, rd) == LET In(x) == InAppx(en, ed, rn, rd, x) IN NbOf(D, In)
HasOnEps(D, en, ed) == \E i \in 1..Len(D) : \E j \in 1..Len(D) : OnEps(en, ed, D[i][j])
HasGap(D, en, ed, rn, rd) ==      \* some pair in the free zone (eps, eps(1+rho)]
  \E i \in 1..Len(D) : \E j \in 1..Len(D) : InAppx(en, ed, rn, rd, D[i][j]) /\ ~InEps(en, ed, TRUE, D[i][j])

-----------------------------------------------------------------------------
(* Part 1b: the contract.  lab[i] = -1 (noise) or a cluster label; Nb1 = within eps, Nb2 = within eps(1+rho) *)

CoreSet(Nb, mp) == {i \in DOMAIN Nb : Cardinality(Nb[i]) >= mp}

RECURSIVE GrowC(_, _, _, _)
GrowC(S, F, Nb, C) ==
  LET new == ((UNION {Nb[i] : i \in F}) \cap C) \ S
  IN IF new = {} THEN S ELSE GrowC(S \cup new, new, Nb, C)
Comp(a, Nb, C) == GrowC({a}, {a}, Nb, C)

ALen(lab, Nb)          == Len(lab) = Len(Nb) /\ \A i \in DOMAIN lab : lab[i] >= -1
ACoreLab(lab, C)       == \A a \in C : lab[a] >= 0
AMust(lab, Nb1, C)     == \A a \in C : \A b \in Nb1[a] \cap C : lab[a] = lab[b]
AChain(lab, Nb2, C)    ==
  \A l \in {lab[a] : a \in C} :
     LET S == {a \in C : lab[a] = l}
         r == CHOOSE a \in S : TRUE
     IN S \subseteq Comp(r, Nb2, C)
ABorderMay(lab, Nb2, C)  == \A i \in (DOMAIN Nb2) \ C : lab[i] >= 0 => \E o \in Nb2[i] \cap C : lab[o] = lab[i]
ABorderMust(lab, Nb1, C) == \A i \in (DOMAIN Nb1) \ C : (Nb1[i] \cap C # {}) => lab[i] >= 0

ApproxWhy(lab, Nb1, Nb2, mp) ==
  LET C == CoreSet(Nb1, mp) IN
  IF ~ALen(lab, Nb1) THEN "length"
  ELSE IF ~ACoreLab(lab, C) THEN "core_point_unlabelled"
  ELSE IF ~AMust(lab, Nb1, C) THEN "cores_within_eps_split"
  ELSE IF ~AChain(lab, Nb2, C) THEN "cluster_without_chain"
  ELSE IF ~ABorderMay(lab, Nb2, C) THEN "label_without_core_in_reach"
  ELSE IF ~ABorderMust(lab, Nb1, C) THEN "border_point_unlabelled"
  ELSE "ok"
ApproxOk(lab, Nb1, Nb2, mp) == ApproxWhy(lab, Nb1, Nb2, mp) = "ok"

\* exact DBSCAN stated independently (as in Density.tla, without the numbering clause)
ExactOk(lab, Nb, mp) ==
  LET C == CoreSet(Nb, mp) IN
  /\ ALen(lab, Nb)
  /\ \A i \in DOMAIN Nb : (lab[i] >= 0) <=> (i \in C \/ Nb[i] \cap C # {})
  /\ \A a \in C : \A b \in C : (lab[a] = lab[b]) <=> (b \in Comp(a, Nb, C))
  /\ \A i \in (DOMAIN Nb) \ C : lab[i] >= 0 => \E o \in Nb[i] \cap C : lab[o] = lab[i]

\* two label vectors describe the same clustering up to numbering and border ties
Equivalent(l1, l2, C) ==
  /\ Len(l1) = Len(l2)
  /\ \A i \in DOMAIN l1 : (l1[i] = -1) <=> (l2[i] = -1)
  /\ \A a \in C : \A b \in C : (l1[a] = l1[b]) <=> (l2[a] = l2[b])

-----------------------------------------------------------------------------
(* Part 2a: the grid.  Cell index of coordinate x for side eps/sqrt(d): comparisons of A sqrt(d) with B *)

GeSqrt(A, d, B) ==        \* A sqrt(d) >= B
  IF A >= 0 THEN (IF B <= 0 THEN TRUE ELSE A * A * d >= B * B)
  ELSE (IF B > 0 THEN FALSE ELSE A * A * d <= B * B)
LeSqrt(A, d, B) == GeSqrt(-A, d, -B)

\* x / side = x ed sqrt(d) / en ; with A = 2 x ed : cell k  <=>  (2k-1) en <= A sqrt(d) < (2k+1) en
IdxHalfOpen(x, d, en, ed) ==
  LET A == 2 * x * ed
      K == (Abs(A) \div en) + 2
  IN CHOOSE k \in (-K)..K : GeSqrt(A, d, (2 * k - 1) * en) /\ ~GeSqrt(A, d, (2 * k + 1) * en)
\* get_cell_index as written: 0 for -half <= x < half, ceil((x - half)/side) for x > 0, -1 + ceil((x + half)/side)
\* for x < 0  ==  (2k-1) en < A sqrt(d) <= (2k+1) en, except that x = -half goes to cell 0
IdxAsCoded(x, d, en, ed) ==
  LET A == 2 * x * ed
      K == (Abs(A) \div en) + 2
  IN IF d = 1 /\ A = -en THEN 0
     ELSE CHOOSE k \in (-K)..K : ~LeSqrt(A, d, (2 * k - 1) * en) /\ LeSqrt(A, d, (2 * k + 1) * en)
CellIdx(mode, p, en, ed) ==
  [q \in 1..Len(p) |-> IF mode = "halfopen" THEN IdxHalfOpen(p[q], Len(p), en, ed) ELSE IdxAsCoded(p[q], Len(p), en, ed)]

\* squared distance of cell centres in units of side^2 ; centre distance < 2 eps  <=>  sum < 4 d
IdxD2(a, b) == SumSeq([q \in 1..Len(a) |-> (a[q] - b[q]) * (a[q] - b[q])])

-----------------------------------------------------------------------------
(* Part 2b: the state machine *)

CONSTANTS IdxMode, NbMode,
          Dims,             \* set of dimensions
          XNeg, XHi,        \* range -XNeg..XHi of the first coordinate (cfg files have no negative numbers)
          YNeg, YHi,        \* range -YNeg..YHi of the other coordinates
          MinN, MaxN,       \* number of points
          MinPtsSet,        \* values of min_points
          EpsSet,           \* tolerances en/ed coded en * 10 + ed
          RhoSet            \* slacks rn/rd coded rn * 10000 + rd

VARIABLES pts, mp, eps, rho,        \* the input (eps = <<en, ed>>, rho = <<rn, rd>>)
          d2, nb1, nb2,             \* caches: squared distances, within eps (inclusive), within eps(1+rho)
          pc,                       \* "insert" | "nbrs" | "label" | "unite" | "ids" | "border" | "done"
          cellOf,                   \* sequence: point -> cell index (a tuple), for the points inserted so far
          rep,                      \* function cell -> first point inserted into it
          cnb,                      \* function cell -> set of neighbour cells
          labelled,                 \* set of cells whose core points have been determined
          core,                     \* set of core points found so far
          part,                     \* union-find: set of disjoint sets of cells
          asked,                    \* unite: ordered pairs <<cell, neighbour>> already processed
          bdone,                    \* border phase: non-core points already decided
          lab                       \* labels

vars == <<pts, mp, eps, rho, d2, nb1, nb2, pc, cellOf, rep, cnb, labelled, core, part, asked, bdone, lab>>
inputs == <<pts, mp, eps, rho, d2, nb1, nb2>>

N == Len(pts)
Cells == DOMAIN rep
PtsOf(c) == {i \in 1..Len(cellOf) : cellOf[i] = c}
CorePts(c) == PtsOf(c) \cap core
IsCoreCell(c) == CorePts(c) # {}
Block(c) == CHOOSE b \in part : c \in b

Coord(q) == IF q = 1 THEN (-XNeg)..XHi ELSE (-YNeg)..YHi
PointSet(dim) == {p \in [1..dim -> (-Max2(XNeg, YNeg))..Max2(XHi, YHi)] : \A q \in 1..dim : p[q] \in Coord(q)}

Init ==
  /\ \E dim \in Dims : \E nn \in MinN..MaxN : pts \in [1..nn -> PointSet(dim)]
  /\ mp \in MinPtsSet
  /\ eps \in {<<x \div 10, x % 10>> : x \in EpsSet}
  /\ rho \in {<<x \div 10000, x % 10000>> : x \in RhoSet}
  /\ d2 = D2M(pts)
  /\ nb1 = NbEps(d2, eps[1], eps[2], TRUE)
  /\ nb2 = NbAppx(d2, eps[1], eps[2], rho[1], rho[2])
  /\ pc = "insert" /\ cellOf = <<>> /\ rep = <<>> /\ cnb = <<>> /\ labelled = {} /\ core = {}
  /\ part = {} /\ asked = {} /\ bdone = {} /\ lab = [i \in 1..Len(pts) |-> -1]

\* CellsGrid::insert_point, in input order
Insert ==
  /\ pc = "insert" /\ Len(cellOf) < N
  /\ LET i == Len(cellOf) + 1
         c == CellIdx(IdxMode, pts[i], eps[1], eps[2])
     IN /\ cellOf' = Append(cellOf, c)
        /\ rep' = IF c \in DOMAIN rep THEN rep ELSE [x \in (DOMAIN rep) \cup {c} |-> IF x = c THEN i ELSE rep[x]]
  /\ UNCHANGED <<inputs, pc, cnb, labelled, core, part, asked, bdone, lab>>

\* CellsGrid::populate_neighbours
NbCells(a, b) ==
  CASE NbMode = "centre"      -> IdxD2(a, b) < 4 * Len(a)
    [] NbMode = "centre_incl" -> IdxD2(a, b) <= 4 * Len(a)
    [] NbMode = "firstpoint"  -> d2[rep[a]][rep[b]] * eps[2] * eps[2] < 4 * eps[1] * eps[1]
Neighbours ==
  /\ pc = "insert" /\ Len(cellOf) = N
  /\ cnb' = [a \in Cells |-> {b \in Cells : NbCells(a, b)}]
  /\ part' = {{a} : a \in Cells}
  /\ pc' = "label"
  /\ UNCHANGED <<inputs, cellOf, rep, labelled, core, asked, bdone, lab>>

\* Cell::label (label_dense / label_sparse); the order of the cells is immaterial (each reads the points only)
LabelCell ==
  /\ pc = "label" /\ labelled # Cells
  /\ LET c == CHOOSE x \in Cells \ labelled : TRUE
         near(p) == {q \in UNION {PtsOf(b) : b \in cnb[c]} : q \in nb1[p]}
         found == IF Cardinality(PtsOf(c)) >= mp THEN PtsOf(c)
                  ELSE {p \in PtsOf(c) : Cardinality(near(p)) >= mp}
     IN /\ core' = core \cup found
        /\ labelled' = labelled \cup {c}
  /\ UNCHANGED <<inputs, pc, cellOf, rep, cnb, part, asked, bdone, lab>>

LabelEnd ==
  /\ pc = "label" /\ labelled = Cells
  /\ pc' = "unite"
  /\ UNCHANGED <<inputs, cellOf, rep, cnb, labelled, core, part, asked, bdone, lab>>

\* CellsGrid::unite_neighbouring_cells: for a core cell and a neighbouring core cell of another set, some core point
\* of the first is looked up in the counting tree of the second.  The tree's guarantee: positive if a core point of
\* the second cell lies within eps, zero if none within eps(1+rho), anything in between.
Pairs == {pr \in Cells \X Cells : pr[1] # pr[2] /\ pr[2] \in cnb[pr[1]] /\ IsCoreCell(pr[1]) /\ IsCoreCell(pr[2])}
MustJoin(a, b) == \E p \in CorePts(a) : \E q \in CorePts(b) : q \in nb1[p]
MayJoin(a, b)  == \E p \in CorePts(a) : \E q \in CorePts(b) : q \in nb2[p]
Unite ==
  /\ pc = "unite" /\ Pairs \ asked # {}
  /\ LET pr == CHOOSE x \in Pairs \ asked : TRUE
         a == pr[1]
         b == pr[2]
     IN /\ asked' = asked \cup {pr}
        /\ IF Block(a) = Block(b) THEN part' = part
           ELSE \E ans \in (IF MustJoin(a, b) THEN {TRUE} ELSE IF MayJoin(a, b) THEN {TRUE, FALSE} ELSE {FALSE}) :
                  part' = IF ans THEN (part \ {Block(a), Block(b)}) \cup {Block(a) \cup Block(b)} ELSE part
  /\ UNCHANGED <<inputs, pc, cellOf, rep, cnb, labelled, core, bdone, lab>>

\* label_connected_components: one id per set with core cells; every core point gets the id of its cell's set
CoreBlocks == {b \in part : \E c \in b : IsCoreCell(c)}
RECURSIVE Number(_, _)
Number(S, k) == IF S = {} THEN <<>> ELSE LET b == CHOOSE x \in S : TRUE IN [x \in {b} |-> k] @@ Number(S \ {b}, k + 1)
Ids ==
  /\ pc = "unite" /\ Pairs \ asked = {}
  /\ LET id == Number(CoreBlocks, 0)
     IN lab' = [i \in 1..N |-> IF i \in core THEN id[Block(cellOf[i])] ELSE -1]
  /\ pc' = "border"
  /\ UNCHANGED <<inputs, cellOf, rep, cnb, labelled, core, part, asked, bdone>>

\* label_border_noise_points: a non-core point takes the cluster of the first neighbour cell whose counting tree
\* answers positively (the order of the neighbour cells is arbitrary)
BorderTodo == ((1..N) \ core) \ bdone
ClusterOf(c) == lab[CHOOSE p \in CorePts(c) : TRUE]
MayCells(i)  == {b \in cnb[cellOf[i]] : \E q \in CorePts(b) : q \in nb2[i]}
MustCells(i) == {b \in cnb[cellOf[i]] : \E q \in CorePts(b) : q \in nb1[i]}
Border ==
  /\ pc = "border" /\ BorderTodo # {}
  /\ LET i == CHOOSE x \in BorderTodo : TRUE IN
     /\ bdone' = bdone \cup {i}
     /\ \/ \E b \in MayCells(i) : lab' = [lab EXCEPT ![i] = ClusterOf(b)]
        \/ MustCells(i) = {} /\ lab' = lab
  /\ UNCHANGED <<inputs, pc, cellOf, rep, cnb, labelled, core, part, asked>>
Done ==
  /\ pc = "border" /\ BorderTodo = {}
  /\ pc' = "done"
  /\ UNCHANGED <<inputs, cellOf, rep, cnb, labelled, core, part, asked, bdone, lab>>

Next == Insert \/ Neighbours \/ LabelCell \/ LabelEnd \/ Unite \/ Ids \/ Border \/ Done

-----------------------------------------------------------------------------
(* Invariants of the design *)

InvCache == d2 = D2M(pts) /\ nb1 = NbEps(d2, eps[1], eps[2], TRUE) /\ nb2 = NbAppx(d2, eps[1], eps[2], rho[1], rho[2])
InvNested == \A i \in 1..N : i \in nb1[i] /\ nb1[i] \subseteq nb2[i]

\* every cell has diameter <= eps (what label_dense relies on)
InvCellDiameter == \A i \in 1..Len(cellOf) : \A j \in 1..Len(cellOf) : cellOf[i] = cellOf[j] => j \in nb1[i]
\* the neighbour relation covers every pair of cells that hold points within eps of each other
InvNeighbourCover ==
  pc \notin {"insert"} => \A i \in 1..N : \A j \in nb1[i] : cellOf[j] \in cnb[cellOf[i]]
\* core status is exact for radius eps
InvCoreExact == pc \in {"unite", "border", "done"} => core = CoreSet(nb1, mp)
\* the contract holds for every run
InvContract == pc = "done" => ApproxOk(lab, nb1, nb2, mp)

\* the sandwich
InvSandwichLower ==       \* every exact DBSCAN(eps) cluster lies inside one approximate cluster
  pc = "done" =>
    LET C == CoreSet(nb1, mp) IN
    \A a \in C : /\ \A b \in Comp(a, nb1, C) : lab[b] = lab[a]
                 /\ \A i \in (1..N) \ C : (nb1[i] \cap C # {}) => lab[i] >= 0
InvSandwichUpper ==       \* every approximate cluster lies inside one exact DBSCAN(eps(1+rho)) cluster
  pc = "done" =>
    LET C  == CoreSet(nb1, mp)
        C2 == CoreSet(nb2, mp)
    IN /\ C \subseteq C2
       /\ \A a \in C : \A b \in C : lab[a] = lab[b] => b \in Comp(a, nb2, C2)
       /\ \A i \in (1..N) \ C : lab[i] >= 0 => \E o \in nb2[i] \cap C2 : lab[o] = lab[i]
\* no lattice distance in the free zone: the result is an exact DBSCAN clustering
InvExactWhenNoGap == (pc = "done" /\ nb1 = nb2) => ExactOk(lab, nb1, mp)
\* and the two formulations of the exact relation agree on the final labels
InvExactForms == pc = "done" => (ExactOk(lab, nb1, mp) <=> ApproxOk(lab, nb1, nb1, mp))
\* the relation pins the freedom down: a final vector with one label changed is accepted only where the contract
\* leaves a choice (a non-core point: noise only if no core point within eps, a label only of a core point in reach)
InvTight ==
  pc = "done" =>
    LET C == CoreSet(nb1, mp) IN
    /\ \A i \in C : ~ApproxOk([lab EXCEPT ![i] = -1], nb1, nb2, mp)
    /\ \A i \in (1..N) \ C : \A v \in -1..N :
          (v # lab[i] /\ ApproxOk([lab EXCEPT ![i] = v], nb1, nb2, mp))
             => IF v = -1 THEN nb1[i] \cap C = {} ELSE \E o \in nb2[i] \cap C : lab[o] = v
=============================================================================
