--------------------------- MODULE C06BuilderOps ---------------------------
(* Builder histories (C06).  A parameter builder is a record of fields; every setter call assigns one field and     *)
(* leaves the others alone.  A history is a sequence of setter calls [f |-> field, v |-> value]; the configuration   *)
(* it ends in is the fold of ApplyOp over the history: for every field the LAST value set, or the default.           *)
(* Used by Trace_KernelMat (KernelParams: method / kind / nn_algo) and Trace_HierClust (HierarchicalCluster:         *)
(* with_method / num_clusters | max_distance, the two criterion setters write the same field).                       *)
EXTENDS Naturals, Sequences

ApplyOp(c, op) == [c EXCEPT ![op.f] = op.v]
RECURSIVE FoldOps(_, _)
FoldOps(c, h) == IF h = <<>> THEN c ELSE FoldOps(ApplyOp(c, Head(h)), Tail(h))

\* the declarative form: last writer wins
OpsOn(h, f) == {q \in 1..Len(h) : h[q].f = f}
LastOn(h, f) == CHOOSE q \in OpsOn(h, f) : \A r \in OpsOn(h, f) : r <= q
LastWins(dflt, h) == [f \in DOMAIN dflt |-> IF OpsOn(h, f) = {} THEN dflt[f] ELSE h[LastOn(h, f)].v]
=============================================================================
