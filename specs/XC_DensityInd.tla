--------------------------- MODULE XC_DensityInd ---------------------------
(***************************************************************************)
(* X08 cross-check, typed side: TLC explores specs/DensityInd.tla for      *)
(* EVERY reflexive symmetric relation and EVERY core set on N points       *)
(* (initial states enumerated by edge sets: TInit; every TInit state must  *)
(* satisfy DensityInd!Init, checked as the invariant TInitIsInit in the    *)
(* initial states), checks IndInv and Safety on all reachable states and   *)
(* prints them in the JSON form of XC_DensityRef.tla.                      *)
(***************************************************************************)
EXTENDS DensityInd, Sequences, Json, TLC

Pairs == {e \in P \X P : e[1] < e[2]}
TInit ==
  /\ \E E \in SUBSET Pairs : nb = [i \in P |-> {i} \cup {j \in P : <<i, j>> \in E \/ <<j, i>> \in E}]
  /\ core \in SUBSET P
  /\ pc = "outer" /\ oi = 1
  /\ lab = [i \in P |-> -1] /\ cur = 0 /\ queue = {}
  /\ nlab = [i \in P |-> 0] /\ npush = [i \in P |-> 0] /\ ext = {}
TInitIsInit == (pc = "outer" /\ oi = 1) => Init

Vec(s) == [i \in P |-> IF i \in s THEN 1 ELSE 0]
Proj == [nb |-> [i \in P |-> Vec(nb[i])], core |-> Vec(core), pc |-> pc, oi |-> oi, lab |-> lab, cur |-> cur,
         queue |-> Vec(queue), nlab |-> nlab, npush |-> npush, ext |-> Vec(ext)]
Emit == PrintT("ST " \o ToJson(Proj))
\* states only counted (thorough tier: all relations on 5 points)
=============================================================================
