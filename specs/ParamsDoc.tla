----------------------------- MODULE ParamsDoc -----------------------------
(***************************************************************************)
(* C04 -- the documented ranges of every hyper-parameter builder of the    *)
(* linfa workspace, transcribed from the doc comments / range tables /     *)
(* error messages of the anchored files (one descriptor per builder).      *)
(*                                                                         *)
(* Values.  A real-valued parameter is an integer number of micro-units    *)
(* (M = 10^6 is 1.0; the harness passes v / 10^6 to the setter), a count   *)
(* is the integer itself.  Inf stands for +infinity (OPTICS default),       *)
(* NegZero for the float -0.0 (equal to 0 for every range).                *)
(*                                                                         *)
(* Bound kinds (lok for the lower bound lo, hik for the upper bound hi):   *)
(*   "closed"   v <  lo is outside, v >= lo inside                         *)
(*   "open"     v <= lo is outside                                         *)
(*   "atunspec" v <  lo is outside, v = lo is UNSPECIFIED (documentation   *)
(*              contradicts itself or only says "positive", a word this    *)
(*              workspace uses both for > 0 and >= 0), v > lo inside       *)
(*   "undoc"    v <= lo is UNSPECIFIED (no documented range at all, but    *)
(*              the guard rejects something there), v > lo inside          *)
(*   "none"     no bound on that side                                      *)
(*   "hole"     (lok only) the open interval (lo, hi) is outside           *)
(* Unspecified points accept either verdict; everything else is decided.   *)
(***************************************************************************)
EXTENDS Integers, Sequences, FiniteSets

M   == 1000000
Inf == 2000000000
NegZero == 0 - 2000000001      \* the float -0.0: numerically 0, generated next to every real bound at 0
\* "barely outside / barely inside" probes, far below the micro-unit: an infinitesimal offset next to a bound.
\* The harness concretises them per float type (values must be representable in the parameter's type):
\*   TinyNeg / TinyPos   -+1e-50 for an f64 parameter, -+1e-30 for an f32 parameter   (next to a bound at 0)
\*   OneMinus / OnePlus  1 -+ 1e-9 for f64, 1 - 2^-24 / 1 + 2^-23 (adjacent floats) for f32   (next to a bound at 1)
TinyNeg  == 0 - 2000000002
TinyPos  == 0 - 2000000003
OneMinus == 0 - 2000000004
OnePlus  == 0 - 2000000005
\* a value is the pair (Mic, Sub): micro-units and the sign of the infinitesimal offset, ordered lexicographically
Mic(v) == CASE v \in {NegZero, TinyNeg, TinyPos} -> 0 [] v \in {OneMinus, OnePlus} -> M [] OTHER -> v
Sub(v) == CASE v \in {TinyNeg, OneMinus} -> 0 - 1 [] v \in {TinyPos, OnePlus} -> 1 [] OTHER -> 0
Lt(v, b) == Mic(v) < b \/ (Mic(v) = b /\ Sub(v) < 0)         \* v < b for a plain bound b
Le(v, b) == Mic(v) < b \/ (Mic(v) = b /\ Sub(v) <= 0)
Gt(v, b) == ~Le(v, b)
Ge(v, b) == ~Lt(v, b)
At(v, b) == Mic(v) = b /\ Sub(v) = 0
LeVV(u, v) == Mic(u) < Mic(v) \/ (Mic(u) = Mic(v) /\ Sub(u) <= Sub(v))
Num(v) == Mic(v)                \* what a read-back in micro-units shows

Fd(n, ty, lo, lok, hi, hik, d, typ) ==
  [n |-> n, ty |-> ty, lo |-> lo, lok |-> lok, hi |-> hi, hik |-> hik,
   d |-> d, on |-> TRUE, rd |-> TRUE, typ |-> typ, skip |-> {}, cush |-> FALSE]
\* the guard has a machine-epsilon cushion around the bound (decision tree: `< F::epsilon()` for "greater
\* than zero"): the infinitesimal probes next to that bound are UNSPECIFIED, not judged
Cushion(fd) == [fd EXCEPT !.cush = TRUE]
Skip(fd, S) == [fd EXCEPT !.skip = S]     \* grid values that are never generated (the fit of a builder that
                                          \* passes checking does not terminate there -- not a C04 matter)
Off(fd)  == [fd EXCEPT !.on = FALSE]       \* field absent in the default builder (Option / enum variant)
NoRd(fd) == [fd EXCEPT !.rd = FALSE]       \* value not observable on the checked parameters

\* frequent shapes
RealGt0(n, d, typ)  == Fd(n, "real", 0, "open", 0, "none", d, typ)         \* (0, inf)
RealGe0(n, d, typ)  == Fd(n, "real", 0, "closed", 0, "none", d, typ)       \* [0, inf)
RealPos(n, d, typ)  == Fd(n, "real", 0, "atunspec", 0, "none", d, typ)     \* "positive": < 0 outside, 0 unspecified
RealUnit(n, d, typ) == Fd(n, "real", 0, "closed", M, "closed", d, typ)     \* [0, 1]
CountGe(n, m, d, typ) == Fd(n, "count", m, "closed", 0, "none", d, typ)    \* [m, inf)
FreeC(n, d, typ)    == Fd(n, "count", 0, "none", 0, "none", d, typ)        \* undocumented, never rejected
FreeR(n, d, typ)    == Fd(n, "real", 0, "none", 0, "none", d, typ)
\* enum / boolean / selector option: a free field whose values are codes (the harness maps them to the
\* variants); the documented range of no numeric parameter depends on it
Sel(n, d, codes)    == FreeC(n, d, codes)
UndocC(n, lo, d, typ) == Fd(n, "count", lo, "undoc", 0, "none", d, typ)
UndocR(n, lo, d, typ) == Fd(n, "real", lo, "undoc", 0, "none", d, typ)

\* setter descriptor: w = sequence of <<field index, argument index>>; argument index 0 switches the
\* field off (the setter discards it: Option := None / other enum variant)
St(n, na, w, ctor) == [n |-> n, na |-> na, w |-> w, ctor |-> ctor]
Set1(n, f) == St(n, 1, << <<f, 1>> >>, FALSE)        \* ordinary one-argument setter writing field f
Ctor1(n, f) == St(n, 1, << <<f, 1>> >>, TRUE)        \* mandatory constructor argument

Alg(f, s, forms, pre, cross) == [f |-> f, s |-> s, forms |-> forms, pre |-> pre, cross |-> cross]

-----------------------------------------------------------------------------
(* k-means: KMeansParamsError "n_clusters cannot be 0", "n_runs cannot be 0",             *)
(* "tolerance must be greater than 0", "max_n_iterations cannot be 0"                      *)
D_kmeans == Alg(
  << CountGe("n_clusters", 1, 2, {2}), CountGe("n_runs", 1, 10, {2}),
     RealGt0("tolerance", 100, {10000}), CountGe("max_n_iterations", 1, 300, {20}),
     Sel("init_method", 1, {0, 1}) >>,          \* Random | KMeansPlusPlus (KMeansPara is not reproducible run to run: C20)
  << Ctor1("new", 1), Set1("n_runs", 2), Set1("tolerance", 3), Set1("max_n_iterations", 4), Set1("init_method", 5) >>,
  {"fit", "fit_with", "fit_empty", "fit_with_empty"}, "Invalid hyperparameter: ", "none")

(* DBSCAN: "min_points must be greater than 1", "tolerance must be greater than 0" *)
D_dbscan == Alg(
  << CountGe("min_points", 2, 3, {3}), RealGt0("tolerance", 100, {1500000}),
     Sel("nn_algo", 1, {0, 1, 2}) >>,                                      \* LinearSearch | KdTree | BallTree
  << Ctor1("new", 1), Set1("tolerance", 2), Set1("nn_algo", 3) >>,
  {"transform", "transform_ds", "transform_empty"}, "", "none")

(* "approximate DBSCAN" is a type alias of DBSCAN in this tree (AppxDbscanParams = DbscanParams), so it
   has no builder of its own *)

(* OPTICS: "`tolerance` must be greater than 0!", "`min_points` must be greater than 1!"; default tolerance = inf *)
D_optics == Alg(
  << CountGe("min_points", 2, 3, {3}), RealGt0("tolerance", Inf, {3000000}), Sel("nn_algo", 1, {0, 1, 2}) >>,
  << Ctor1("new", 1), Set1("tolerance", 2), Set1("nn_algo", 3) >>,
  {"transform", "transform_empty"}, "", "none")

(* Gaussian mixture: "`n_clusters` cannot be 0!", "`tolerance` must be greater than 0!",           *)
(* reg_covariance: "Non-negative regularization added to the diagonal of covariance",              *)
(* "`n_runs` cannot be 0!", "`max_n_iterations` cannot be 0!"                                      *)
D_gmm == Alg(
  << CountGe("n_clusters", 1, 2, {2}), RealGt0("tolerance", 1000, {10000}), RealGe0("reg_covar", 1, {1000}),
     CountGe("n_runs", 1, 1, {2}), CountGe("max_n_iterations", 1, 100, {20}),
     Sel("init_method", 0, {0, 1}) >>,                                     \* KMeans | Random
  << Ctor1("new", 1), Set1("tolerance", 2), Set1("reg_covariance", 3), Set1("n_runs", 4), Set1("max_n_iterations", 5),
     Set1("init_method", 6) >>,
  {"fit", "fit_empty"}, "", "none")

(* elastic net (single and multi-task), range table of ElasticNetParams:                            *)
(*   penalty [0, inf) | l1_ratio [0.0, 1.0] | tolerance (0, inf) | max_iterations [1, inf)           *)
(* "Errors" section: InvalidTolerance "if the tolerance is negative"  => tolerance = 0 contradictory *)
D_enet == Alg(
  << RealGe0("penalty", M, {100000}), RealUnit("l1_ratio", 500000, {500000}),
     RealPos("tolerance", 100, {100}), CountGe("max_iterations", 1, 1000, {200}), FreeC("with_intercept", 1, {0, 1}) >>,
  << Set1("penalty", 1), Set1("l1_ratio", 2), Set1("tolerance", 3), Set1("max_iterations", 4), Set1("with_intercept", 5) >>,
  {"fit", "fit_empty"}, "", "none")

(* logistic regression (binary and multinomial): "alpha must be a positive, finite number" (and      *)
(* "Setting alpha close to zero removes regularization"), "gradient_tolerance must be a positive,    *)
(* finite number"; max_iterations undocumented and never rejected                                    *)
D_logistic == Alg(
  << RealPos("alpha", M, {100000}), RealPos("gradient_tolerance", 100, {1000}), FreeC("max_iterations", 100, {30}),
     Sel("with_intercept", 1, {0, 1}) >>,
  << Set1("alpha", 1), Set1("gradient_tolerance", 2), Set1("max_iterations", 3), Set1("with_intercept", 4) >>,
  {"fit", "fit_empty"}, "", "none")

(* Tweedie GLM: "`alpha` set to 0 is equivalent to unpenalized GLM" / "penalty should be positive",  *)
(* "tweedie distribution power should not be in (0, 1)"                                              *)
D_tweedie == Alg(
  << RealGe0("alpha", M, {100000}), Skip(Fd("power", "real", 0, "hole", M, "none", M, {2 * M}), {0 - M, 0 - 1}),
     FreeC("max_iter", 100, {30}), Sel("fit_intercept", 1, {0, 1}),
     NoRd(Off(Sel("link", 1, {1}))) >>,   \* Log, set explicitly (default: chosen from power; Identity with power >= 1 does not terminate)
  << Set1("alpha", 1), Set1("power", 2), Set1("max_iter", 3), Set1("fit_intercept", 4), Set1("link", 5) >>,
  {"fit", "fit_empty"}, "", "none")

(* SVM, crate documentation: C "should be in the interval (0, inf)", Nu "should be in the interval   *)
(* (0, 1]" but nu_weight: "The Nu value should lie in range [0, 1]" => nu = 0 contradictory.          *)
(* eps has no documented range ("Invalid epsilon"; eps = 0 passes and SMO then never stops, so 0 is  *)
(* not generated); the loss epsilon of c_svr has none either.  The C of nu_svr is the same "C value" *)
(* as everywhere else in the crate: (0, inf).  Platt sub-parameters as in D_platt (minstep = 0 passes *)
(* and the line search of the calibration then never stops when it finds no improvement: not        *)
(* generated for the SVM, where that happens).                                                      *)
(* fields: 1 eps 2 c1 3 c2 4 nu 5 nu.1 6 platt.maxiter 7 platt.minstep 8 platt.sigma                  *)
SvmNu == Fd("nu", "real", 0, "atunspec", M, "closed", 0, {500000})
D_svc == Alg(
  << Skip(UndocR("eps", 0, 0, {1000}), {0}), RealGt0("c_pos", M, {2 * M}), RealGt0("c_neg", M, {2 * M}),
     Off(SvmNu), Off(FreeR("nu_second", 0, {})),
     CountGe("platt_maxiter", 1, 100, {50}), Skip(RealPos("platt_minstep", 0, {1}), {0}), RealPos("platt_sigma", 0, {1}),
     NoRd(Sel("kernel", 0, {0, 1, 2})), Sel("shrinking", 0, {0, 1}) >>,     \* linear | gaussian(30) | polynomial(1, 2)
  << Set1("eps", 1),
     St("pos_neg_weights", 2, << <<2, 1>>, <<3, 2>>, <<4, 0>>, <<5, 0>> >>, FALSE),
     St("nu_weight", 1, << <<4, 1>>, <<5, 1>>, <<2, 0>>, <<3, 0>> >>, FALSE),
     St("with_platt_params", 3, << <<6, 1>>, <<7, 2>>, <<8, 3>> >>, FALSE), Set1("kernel", 9), Set1("shrinking", 10) >>,
  {"fit", "fit_empty"}, "", "none")
D_svr == Alg(
  << Skip(UndocR("eps", 0, 0, {1000}), {0}), RealGt0("c", M, {2 * M}), UndocR("loss_eps", 0, M, {100000}),
     Off(SvmNu), Off(RealGt0("nu_c", 0, {M})), NoRd(Sel("kernel", 0, {0, 1, 2})), Sel("shrinking", 0, {0, 1}) >>,
  << Set1("eps", 1),
     St("c_svr", 2, << <<2, 1>>, <<3, 2>>, <<4, 0>>, <<5, 0>> >>, FALSE),
     St("nu_svr", 2, << <<4, 1>>, <<5, 2>>, <<2, 0>>, <<3, 0>> >>, FALSE), Set1("kernel", 6), Set1("shrinking", 7) >>,
  {"fit", "fit_empty"}, "", "none")

(* decision tree: "Minimum impurity decrease should be greater than zero"; other limits undocumented *)
D_tree == Alg(
  << Cushion(RealGt0("min_impurity_decrease", 10, {10})), Off(FreeC("max_depth", 0, {1, 3})),
     FreeR("min_weight_split", 2 * M, {2 * M, 3 * M}), FreeR("min_weight_leaf", M, {M, 2 * M}),
     Sel("split_quality", 0, {0, 1}) >>,                                   \* Gini | Entropy
  << Set1("min_impurity_decrease", 1), Set1("max_depth", 2), Set1("min_weight_split", 3), Set1("min_weight_leaf", 4),
     Set1("split_quality", 5) >>,
  {"fit", "fit_empty"}, "", "none")

(* naive Bayes range tables: var_smoothing [0, inf), alpha [0, inf) *)
D_gnb == Alg(<< RealGe0("var_smoothing", 0, {1000}) >>, << Set1("var_smoothing", 1) >>, {"fit", "fit_with", "fit_empty", "fit_with_empty"}, "", "none")
D_mnb == Alg(<< RealGe0("alpha", M, {500000}) >>, << Set1("alpha", 1) >>, {"fit", "fit_with", "fit_empty", "fit_with_empty"}, "", "none")

(* FTRL: "alpha must be positive and finite", "beta must be positive and finite" with default beta   *)
(* 0.0 (so 0 is inside for beta), l1_ratio / l2_ratio "must be between 0.0 and 1.0" / "[0, 1]"        *)
D_ftrl == Alg(
  << RealPos("alpha", 5000, {100000}), RealGe0("beta", 0, {M}), RealUnit("l1_ratio", 500000, {500000}),
     RealUnit("l2_ratio", 500000, {500000}) >>,
  << Set1("alpha", 1), Set1("beta", 2), Set1("l1_ratio", 3), Set1("l2_ratio", 4) >>,
  {"fit_with", "fit_with_empty"}, "", "none")

(* PLS: "The tolerance is should not be negative, NaN or inf", "The maximal number of iterations     *)
(* should be positive" (ZeroMaxIter); n_components is checked against the data, not by the guard     *)
D_pls == Alg(
  << NoRd(FreeC("n_components", 1, {1, 2})), NoRd(RealGe0("tolerance", 1, {100})), NoRd(CountGe("max_iterations", 1, 500, {100})),
     NoRd(Sel("algorithm", 0, {0, 1})), NoRd(Sel("scale", 1, {0, 1})) >>,  \* Nipals | Svd ; scale false | true
  << Ctor1("new", 1), Set1("tolerance", 2), Set1("max_iterations", 3), Set1("algorithm", 4), Set1("scale", 5) >>,
  {"fit", "fit_empty"}, "", "none")

(* t-SNE: "negative perplexity"; approx_threshold "lies in range (0, inf) where a value of 0         *)
(* disables approximation" + "negative approximation threshold" => 0 contradictory                   *)
D_tsne == Alg(
  << FreeC("embedding_size", 2, {2}), RealGe0("perplexity", 5 * M, {M}), RealPos("approx_threshold", 500000, {500000}) >>,
  << Ctor1("new", 1), Set1("perplexity", 2), Set1("approx_threshold", 3) >>,
  {"transform", "transform_ds", "transform_ds_empty", "transform_empty"}, "", "none")

(* FastICA: "tolerance should be positive" (guard: tol < 0) *)
D_ica == Alg(
  << RealPos("tol", 100, {1000}), FreeC("max_iter", 200, {50}), Sel("gfunc", 0, {0, 1, 2}) >>,   \* Logcosh(1) | Exp | Cube
  << Set1("tol", 1), Set1("max_iter", 2), Set1("gfunc", 3) >>,
  {"fit", "fit_empty"}, "", "none")

(* diffusion map: "Number of steps zero in diffusion map operator"; embedding_size 0 is rejected with *)
(* a garbled message and has no documented range                                                      *)
D_diffmap == Alg(
  << UndocC("embedding_size", 0, 2, {2}), CountGe("steps", 1, 1, {2}) >>,
  << Ctor1("new", 1), Set1("steps", 2) >>,
  {"transform"}, "", "none")

(* random projection: "Target dimension of the projection must be positive" (NonPositiveEmbeddingSize), *)
(* "Precision parameter must be in the interval (0; 1)"; the two setters discard each other              *)
D_rproj == Alg(
  << Off(CountGe("target_dim", 1, 0, {2})), Fd("eps", "real", 0, "open", M, "open", 100000, {500000}) >>,
  << St("target_dim", 1, << <<1, 1>>, <<2, 0>> >>, FALSE), St("eps", 1, << <<2, 1>>, <<1, 0>> >>, FALSE) >>,
  {"fit", "fit_empty"}, "", "none")

(* Platt scaling: "maxiter should be larger than zero", "minstep should be positive", "sigma should be positive" *)
D_platt == Alg(
  \* (minstep = 0 passes checking and the line search then need not terminate -- on empty input it never does: not generated)
  << CountGe("maxiter", 1, 100, {50}), Skip(RealPos("minstep", 0, {1}), {0}), RealPos("sigma", 0, {1}) >>,
  << Set1("maxiter", 1), Set1("minstep", 2), Set1("sigma", 3) >>,
  {"fit_with", "fit_with_empty"}, "", "none")

(* hierarchical clustering: "The stopping condition .. is not valid" -- no range is documented *)
D_hier == Alg(
  << UndocC("num_clusters", 0, 2, {2, 3}), Off(UndocR("max_distance", 0, 0, {M, 3 * M})),
     Sel("method", 2, {0, 1, 2, 3}) >>,                                    \* Single | Complete | Average | Ward
  << St("num_clusters", 1, << <<1, 1>>, <<2, 0>> >>, FALSE), St("max_distance", 1, << <<2, 1>>, <<1, 0>> >>, FALSE),
     Set1("with_method", 3) >>,
  {"transform", "transform_ds"}, "", "none")

(* count vectoriser: "n_gram boundaries cannot be zero", "`min_n` should not be greater than `max_n`", *)
(* "`min_freq` and `max_freq` must lie in `0..=1` and `min_freq` should not be greater than `max_freq`"  *)
D_countvec == Alg(
  << CountGe("n_gram_min", 1, 1, {1, 3}), CountGe("n_gram_max", 1, 1, {2}),
     RealUnit("df_min", 0, {250000}), RealUnit("df_max", M, {750000}),
     Sel("convert_to_lowercase", 1, {0, 1}), Sel("normalize", 1, {0, 1}),
     \* tokenizer(Regex(..)): "Returns an error if the regex expression for the split is invalid";
     \* codes 0 = the default expression, 1 = another valid expression, 2 = an invalid expression "("
     Fd("split_regex", "count", 0, "none", 1, "closed", 0, {0, 1}),
     Off(FreeC("max_features", 0, {2, 5})) >>,
  << St("n_gram_range", 2, << <<1, 1>>, <<2, 2>> >>, FALSE), St("document_frequency", 2, << <<3, 1>>, <<4, 2>> >>, FALSE),
     Set1("convert_to_lowercase", 5), Set1("normalize", 6), Set1("tokenizer_regex", 7), Set1("max_features", 8) >>,
  \* fit_files: documents read from files; fit_files_missing: one of the paths does not exist (input that fails
  \* on its own -- on an invalid builder the parameter error must still be the result)
  {"fit", "fit_vocabulary", "fit_files", "fit_files_missing", "fit_empty"}, "", "countvec")

\* "...32" = the same builder instantiated with f32 instead of f64
Algs == {"kmeans", "kmeans32", "dbscan", "dbscan32", "tree32", "optics", "gmm", "enet", "mtenet", "logistic", "mlogistic", "tweedie",
         "svc", "svr", "tree", "gnb", "mnb", "ftrl", "plsreg", "plscan", "plscca", "tsne", "ica", "diffmap",
         "rpgauss", "rpsparse", "platt", "hier", "countvec"}

\* builders that implement Clone (the PLS wrappers and the unchecked random-projection builder do not)
CloneAlgs == Algs \ {"plsreg", "plscan", "plscca", "rpgauss", "rpsparse"}
\* operations a program may interleave with its setter calls (setter index 0): they must not change any
\* parameter, and every later check judges the values the builder holds *then*
\*   "check_ref"   check by reference, result discarded, same builder continues
\*   "check_clone" check by reference, then continue with a clone of the builder
MidOps(a) == {"check_ref"} \cup (IF a \in CloneAlgs THEN {"check_clone"} ELSE {})

Doc == [a \in Algs |->
  CASE a \in {"kmeans", "kmeans32"} -> D_kmeans [] a \in {"dbscan", "dbscan32"} -> D_dbscan [] a = "optics" -> D_optics
    [] a = "gmm" -> D_gmm [] a \in {"enet", "mtenet"} -> D_enet [] a \in {"logistic", "mlogistic"} -> D_logistic
    [] a = "tweedie" -> D_tweedie [] a = "svc" -> D_svc [] a = "svr" -> D_svr [] a \in {"tree", "tree32"} -> D_tree
    [] a = "gnb" -> D_gnb [] a = "mnb" -> D_mnb [] a = "ftrl" -> D_ftrl [] a \in {"plsreg", "plscan", "plscca"} -> D_pls
    [] a = "tsne" -> D_tsne [] a = "ica" -> D_ica [] a = "diffmap" -> D_diffmap [] a \in {"rpgauss", "rpsparse"} -> D_rproj
    [] a = "platt" -> D_platt [] a = "hier" -> D_hier [] a = "countvec" -> D_countvec]

=============================================================================
