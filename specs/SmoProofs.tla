----------------------------- MODULE SmoProofs -----------------------------
(***************************************************************************)
(* X06 (b), TLAPS -- the inductive invariant of SmoInd.tla for an          *)
(* ARBITRARY number L >= 1 of variables: the module that Apalache checks   *)
(* for L <= 10 and that TLC cross-checks against Smo.tla is proved here    *)
(* without any bound on L.                                                 *)
(*                                                                         *)
(*   IndInvInit   Init => IndInv                                           *)
(*   IndInvStep   IndInv /\ [Next]_vars => IndInv'                         *)
(*   IndInvSafe   IndInv => Safety    (InvPerm, InvFollow, InvActive,      *)
(*                InvInactive, InvWriteBack, InvShrinkPost)                *)
(*   Correct      Init /\ [][Next]_vars => []Safety                        *)
(***************************************************************************)
EXTENDS SmoInd, TLAPS

ASSUME ConstAssump == L \in Nat /\ L >= 1 /\ Variant = "ok"

-----------------------------------------------------------------------------
(* IndInv, cut into named pieces *)
Ty ==
  /\ pos2s \in [PosSet -> 0..(L - 1)]
  /\ yP \in [PosSet -> Int] /\ bP \in [PosSet -> Int] /\ pP \in [PosSet -> Int] /\ kiP \in [PosSet -> Int]
  /\ aP \in [PosSet -> 0..2]
  /\ outv \in [PosSet -> 0..2]
  /\ nact \in 0..L
  /\ pc \in {"run", "outer", "inner", "wb", "done"}
  /\ S \in SUBSET (0..(L - 1)) /\ i0 \in 0..L /\ nact0 \in 0..L /\ wq \in 1..(L + 1)
InLoop == pc \in {"outer", "inner"}
CLoop == InLoop => LoopInv
CIdle == ~InLoop => (S = {} /\ i0 = 0 /\ nact0 = 0)
CRun  == pc = "run" => (outv = Zero /\ wq = 1)
CWb   == pc = "wb" => (wq <= L /\ \A q \in PosSet : q < wq => outv[pos2s[q] + 1] = aP[q])
CDone == pc = "done" => (wq = L + 1 /\ \A q \in PosSet : outv[pos2s[q] + 1] = aP[q])
CLoopOut == InLoop => (outv = Zero /\ wq = 1)

LEMMA Split ==
  IndInv <=> /\ Ty /\ Injective /\ InvPerm /\ InvFollow /\ InvInactive
             /\ CLoop /\ CIdle /\ CRun /\ CWb /\ CDone /\ CLoopOut
  BY DEF IndInv, Ty, InLoop, CLoop, CIdle, CRun, CWb, CDone, CLoopOut

LEMMA SplitPrime ==
  IndInv' <=> /\ Ty' /\ Injective' /\ InvPerm' /\ InvFollow' /\ InvInactive'
              /\ CLoop' /\ CIdle' /\ CRun' /\ CWb' /\ CDone' /\ CLoopOut'
  BY DEF IndInv, Ty, InLoop, CLoop, CIdle, CRun, CWb, CDone, CLoopOut

-----------------------------------------------------------------------------
(* the permutation part does not change when the arrays do not *)
Perm == Injective /\ InvPerm /\ InvFollow

LEMMA PermUnch ==
  ASSUME Perm, UNCHANGED <<pos2s, yP, bP, pP, kiP>>
  PROVE  Perm'
  BY DEF Perm, Injective, InvPerm, InvFollow, IsPerm0, Follows, Y0, B0, P0, KI0, PosSet

(* swapping two positions *)
LEMMA SwapFProps ==
  ASSUME NEW X, NEW g \in [PosSet -> X], NEW a \in PosSet, NEW b \in PosSet
  PROVE  /\ SwapF(g, a, b) \in [PosSet -> X]
         /\ \A q \in PosSet : SwapF(g, a, b)[q] = IF q = b THEN g[a] ELSE IF q = a THEN g[b] ELSE g[q]
  BY DEF SwapF

LEMMA PermSwap ==
  ASSUME Ty, Perm, NEW a \in PosSet, NEW b \in PosSet, SwapAll(a, b)
  PROVE  /\ Perm'
         /\ pos2s' \in [PosSet -> 0..(L - 1)]
         /\ yP' \in [PosSet -> Int] /\ bP' \in [PosSet -> Int] /\ pP' \in [PosSet -> Int] /\ kiP' \in [PosSet -> Int]
         /\ aP' \in [PosSet -> 0..2]
         /\ \A q \in PosSet : pos2s'[q] = IF q = b THEN pos2s[a] ELSE IF q = a THEN pos2s[b] ELSE pos2s[q]
         /\ \A q \in PosSet : aP'[q] = IF q = b THEN aP[a] ELSE IF q = a THEN aP[b] ELSE aP[q]
<1> USE ConstAssump
<1>1. /\ pos2s \in [PosSet -> 0..(L - 1)]
      /\ yP \in [PosSet -> Int] /\ bP \in [PosSet -> Int] /\ pP \in [PosSet -> Int] /\ kiP \in [PosSet -> Int]
      /\ aP \in [PosSet -> 0..2]
  BY DEF Ty
<1>2. /\ pos2s' = SwapF(pos2s, a, b) /\ yP' = SwapF(yP, a, b) /\ bP' = SwapF(bP, a, b)
      /\ pP' = SwapF(pP, a, b) /\ kiP' = SwapF(kiP, a, b) /\ aP' = SwapF(aP, a, b)
  BY DEF SwapAll
<1>3. /\ pos2s' \in [PosSet -> 0..(L - 1)]
      /\ \A q \in PosSet : pos2s'[q] = IF q = b THEN pos2s[a] ELSE IF q = a THEN pos2s[b] ELSE pos2s[q]
  BY <1>1, <1>2, SwapFProps
<1>4. /\ yP' \in [PosSet -> Int]
      /\ \A q \in PosSet : yP'[q] = IF q = b THEN yP[a] ELSE IF q = a THEN yP[b] ELSE yP[q]
  BY <1>1, <1>2, SwapFProps
<1>5. /\ bP' \in [PosSet -> Int]
      /\ \A q \in PosSet : bP'[q] = IF q = b THEN bP[a] ELSE IF q = a THEN bP[b] ELSE bP[q]
  BY <1>1, <1>2, SwapFProps
<1>6. /\ pP' \in [PosSet -> Int]
      /\ \A q \in PosSet : pP'[q] = IF q = b THEN pP[a] ELSE IF q = a THEN pP[b] ELSE pP[q]
  BY <1>1, <1>2, SwapFProps
<1>7. /\ kiP' \in [PosSet -> Int]
      /\ \A q \in PosSet : kiP'[q] = IF q = b THEN kiP[a] ELSE IF q = a THEN kiP[b] ELSE kiP[q]
  BY <1>1, <1>2, SwapFProps
<1>8. /\ aP' \in [PosSet -> 0..2]
      /\ \A q \in PosSet : aP'[q] = IF q = b THEN aP[a] ELSE IF q = a THEN aP[b] ELSE aP[q]
  BY <1>1, <1>2, SwapFProps
<1>9. Injective'
  <2>1. \A q1, q2 \in PosSet : pos2s[q1] = pos2s[q2] => q1 = q2
    BY DEF Perm, Injective
  <2>2. \A q1, q2 \in PosSet : pos2s'[q1] = pos2s'[q2] => q1 = q2
    BY <2>1, <1>3
  <2> QED
    BY <2>2 DEF Injective, PosSet
<1>10. InvPerm'
  <2>1. \A s \in 0..(L - 1) : \E q \in PosSet : pos2s[q] = s
    BY DEF Perm, InvPerm, IsPerm0, PosSet
  <2>2. ASSUME NEW s \in 0..(L - 1) PROVE \E q \in PosSet : pos2s'[q] = s
    <3>1. PICK q \in PosSet : pos2s[q] = s
      BY <2>1
    <3>2. CASE q = a
      BY <3>1, <3>2, <1>3
    <3>3. CASE q = b
      BY <3>1, <3>3, <1>3
    <3>4. CASE q # a /\ q # b
      BY <3>1, <3>4, <1>3
    <3> QED
      BY <3>2, <3>3, <3>4
  <2>3. DOMAIN pos2s' = 1..L
    BY <1>3 DEF PosSet
  <2> QED
    BY <2>2, <2>3 DEF InvPerm, IsPerm0, PosSet
<1>11. InvFollow'
  <2>1. /\ \A q \in PosSet : yP[q] = Y0[pos2s[q] + 1]
        /\ \A q \in PosSet : bP[q] = B0[pos2s[q] + 1]
        /\ \A q \in PosSet : pP[q] = P0[pos2s[q] + 1]
        /\ \A q \in PosSet : kiP[q] = KI0[pos2s[q] + 1]
    BY <1>1 DEF Perm, InvFollow, Follows
  <2>2. /\ \A q \in PosSet : yP'[q] = Y0[pos2s'[q] + 1]
        /\ \A q \in PosSet : bP'[q] = B0[pos2s'[q] + 1]
        /\ \A q \in PosSet : pP'[q] = P0[pos2s'[q] + 1]
        /\ \A q \in PosSet : kiP'[q] = KI0[pos2s'[q] + 1]
    BY <2>1, <1>3, <1>4, <1>5, <1>6, <1>7
  <2>3. /\ DOMAIN pos2s' = PosSet /\ DOMAIN yP' = PosSet /\ DOMAIN bP' = PosSet
        /\ DOMAIN pP' = PosSet /\ DOMAIN kiP' = PosSet
    BY <1>3, <1>4, <1>5, <1>6, <1>7
  <2> QED
    BY <2>2, <2>3 DEF InvFollow, Follows, Y0, B0, P0, KI0, PosSet
<1> QED
  BY <1>3, <1>4, <1>5, <1>6, <1>7, <1>8, <1>9, <1>10, <1>11 DEF Perm

-----------------------------------------------------------------------------
THEOREM IndInvInit == Init => IndInv
<1> SUFFICES ASSUME Init PROVE IndInv
  OBVIOUS
<1> USE ConstAssump
<1>1. Ty
  BY DEF Init, Ty, PosSet, Zero, Y0, B0, P0, KI0
<1>2. Injective /\ InvPerm
  <2>1. pos2s = [q \in 1..L |-> q - 1]
    BY DEF Init, PosSet
  <2>2. Injective
    BY <2>1 DEF Injective, PosSet
  <2>3. DOMAIN pos2s = 1..L
    BY <2>1
  <2>4. ASSUME NEW s \in 0..(L - 1) PROVE \E q \in 1..L : pos2s[q] = s
    <3>1. s + 1 \in 1..L /\ pos2s[s + 1] = s
      BY <2>1
    <3> QED
      BY <3>1
  <2> QED
    BY <2>2, <2>3, <2>4 DEF InvPerm, IsPerm0
<1>3. InvFollow
  BY DEF Init, InvFollow, Follows, PosSet, Y0, B0, P0, KI0
<1>4. InvInactive
  BY DEF Init, InvInactive, PosSet
<1>5. CLoop /\ CIdle /\ CRun /\ CWb /\ CDone /\ CLoopOut
  BY DEF Init, CLoop, CIdle, CRun, CWb, CDone, CLoopOut, InLoop
<1> QED
  BY <1>1, <1>2, <1>3, <1>4, <1>5, Split

-----------------------------------------------------------------------------
THEOREM IndInvStep == IndInv /\ [Next]_vars => IndInv'
<1> SUFFICES ASSUME IndInv, [Next]_vars PROVE IndInv'
  OBVIOUS
<1> USE ConstAssump
<1>s. /\ Ty /\ Injective /\ InvPerm /\ InvFollow /\ InvInactive
      /\ CLoop /\ CIdle /\ CRun /\ CWb /\ CDone /\ CLoopOut
  BY Split
<1>p. Perm
  BY <1>s DEF Perm
<1>1. CASE Update
  <2>1. pc = "run" /\ UNCHANGED <<pos2s, yP, bP, pP, kiP, nact, pc, outv, S, i0, nact0, wq>>
    BY <1>1 DEF Update
  <2>2. PICK i \in PosSet, j \in PosSet, vi \in 0..2, vj \in 0..2 :
          /\ i <= nact /\ j <= nact /\ i # j
          /\ aP' = [aP EXCEPT ![i] = vi, ![j] = vj]
    BY <1>1 DEF Update
  <2>3. aP' \in [PosSet -> 0..2] /\ \A q \in PosSet : q > nact => aP'[q] = aP[q]
    BY <2>2, <1>s DEF Ty, PosSet
  <2>4. Ty'
    BY <2>1, <2>3, <1>s DEF Ty
  <2>5. Perm'
    BY <2>1, <1>p, PermUnch
  <2>6. InvInactive'
    BY <2>1, <2>3, <1>s DEF InvInactive, PosSet
  <2>7. CLoop' /\ CIdle' /\ CRun' /\ CWb' /\ CDone' /\ CLoopOut'
    BY <2>1, <1>s DEF CLoop, CIdle, CRun, CWb, CDone, CLoopOut, InLoop, Zero
  <2> QED
    BY <2>4, <2>5, <2>6, <2>7, SplitPrime DEF Perm
<1>2. CASE ShrinkBegin
  <2>1. /\ pc = "run" /\ pc' = "outer" /\ i0' = 0 /\ nact0' = nact
        /\ UNCHANGED <<pos2s, yP, bP, pP, kiP, aP, nact, outv, wq>>
    BY <1>2 DEF ShrinkBegin
  <2>2. S' \in SUBSET Shrinkable
    BY <1>2 DEF ShrinkBegin
  <2>3. \A s \in S' : \E r \in PosSet : r <= nact /\ aP[r] \in {0, 2} /\ pos2s[r] = s
    BY <2>2 DEF Shrinkable
  <2>4. S' \in SUBSET (0..(L - 1))
    BY <2>3, <1>s DEF Ty
  <2>5. Ty'
    BY <2>1, <2>4, <1>s DEF Ty
  <2>6. Perm'
    BY <2>1, <1>p, PermUnch
  <2>7. InvInactive'
    BY <2>1 DEF InvInactive
  <2>8. LoopInv'
    <3>1. \A q \in PosSet : (q > nact \/ pos2s[q] \in S') => aP[q] \in {0, 2}
      <4> TAKE q \in PosSet
      <4> HAVE q > nact \/ pos2s[q] \in S'
      <4>1. CASE q > nact
        BY <4>1, <2>1, <1>s DEF InvInactive
      <4>2. CASE pos2s[q] \in S'
        <5>1. PICK r \in PosSet : r <= nact /\ aP[r] \in {0, 2} /\ pos2s[r] = pos2s[q]
          BY <4>2, <2>3
        <5>2. r = q
          BY <5>1, <1>s DEF Injective
        <5> QED
          BY <5>1, <5>2
      <4> QED
        BY <4>1, <4>2
    <3>2. \A s \in S' : \E q \in PosSet : q <= nact /\ pos2s[q] = s
      BY <2>3
    <3>3. nact \in 0..L
      BY <1>s DEF Ty
    <3> QED
      BY <2>1, <2>4, <3>1, <3>2, <3>3 DEF LoopInv, PosSet
  <2>9. CLoop' /\ CIdle' /\ CRun' /\ CWb' /\ CDone' /\ CLoopOut'
    BY <2>1, <2>8, <1>s DEF CLoop, CIdle, CRun, CWb, CDone, CLoopOut, InLoop, Zero
  <2> QED
    BY <2>5, <2>6, <2>7, <2>9, SplitPrime DEF Perm
<1>3. CASE OuterStep
  <2>0. pc = "outer" /\ LoopInv /\ outv = Zero /\ wq = 1 /\ LoopBound = nact
    BY <1>3, <1>s DEF OuterStep, CLoop, CLoopOut, InLoop, LoopBound
  <2>t. /\ nact \in 0..L /\ i0 \in 0..L /\ nact0 \in 0..L /\ pos2s \in [PosSet -> 0..(L - 1)] /\ aP \in [PosSet -> 0..2]
        /\ S \in SUBSET (0..(L - 1))
    BY <1>s DEF Ty
  <2>1. CASE i0 >= nact
    <3>1. /\ pc' = "run" /\ S' = {} /\ i0' = 0 /\ nact0' = 0
          /\ UNCHANGED <<pos2s, yP, bP, pP, kiP, aP, nact, outv, wq>>
      BY <1>3, <2>0, <2>1 DEF OuterStep
    <3>2. Ty'
      BY <3>1, <1>s DEF Ty
    <3>3. Perm'
      BY <3>1, <1>p, PermUnch
    <3>4. InvInactive'
      <4>1. \A q \in PosSet : q > nact => aP[q] \in {0, 2}
        BY <2>0, <2>t DEF LoopInv, PosSet
      <4> QED
        BY <4>1, <3>1 DEF InvInactive
    <3>5. CLoop' /\ CIdle' /\ CRun' /\ CWb' /\ CDone' /\ CLoopOut'
      BY <3>1, <2>0 DEF CLoop, CIdle, CRun, CWb, CDone, CLoopOut, InLoop, Zero
    <3> QED
      BY <3>2, <3>3, <3>4, <3>5, SplitPrime DEF Perm
  <2>2. CASE i0 < nact /\ pos2s[i0 + 1] \in S
    <3>1. /\ nact' = nact - 1 /\ pc' = "inner"
          /\ UNCHANGED <<pos2s, yP, bP, pP, kiP, aP, outv, S, i0, nact0, wq>>
      BY <1>3, <2>0, <2>2, <2>t DEF OuterStep
    <3>2. Ty'
      BY <3>1, <2>2, <2>t, <1>s DEF Ty
    <3>3. Perm'
      BY <3>1, <1>p, PermUnch
    <3>4. InvInactive'
      BY <3>1 DEF InvInactive
    <3>5. LoopInv'
      BY <3>1, <2>0, <2>2, <2>t DEF LoopInv, PosSet
    <3>6. CLoop' /\ CIdle' /\ CRun' /\ CWb' /\ CDone' /\ CLoopOut'
      BY <3>1, <3>5, <2>0 DEF CLoop, CIdle, CRun, CWb, CDone, CLoopOut, InLoop, Zero
    <3> QED
      BY <3>2, <3>3, <3>4, <3>6, SplitPrime DEF Perm
  <2>3. CASE i0 < nact /\ pos2s[i0 + 1] \notin S
    <3>1. /\ i0' = i0 + 1 /\ pc' = "outer"
          /\ UNCHANGED <<pos2s, yP, bP, pP, kiP, aP, nact, outv, S, nact0, wq>>
      BY <1>3, <2>0, <2>3, <2>t DEF OuterStep
    <3>2. Ty'
      BY <3>1, <2>3, <2>t, <1>s DEF Ty
    <3>3. Perm'
      BY <3>1, <1>p, PermUnch
    <3>4. InvInactive'
      BY <3>1 DEF InvInactive
    <3>5. LoopInv'
      BY <3>1, <2>0, <2>3, <2>t DEF LoopInv, PosSet
    <3>6. CLoop' /\ CIdle' /\ CRun' /\ CWb' /\ CDone' /\ CLoopOut'
      BY <3>1, <3>5, <2>0 DEF CLoop, CIdle, CRun, CWb, CDone, CLoopOut, InLoop, Zero
    <3> QED
      BY <3>2, <3>3, <3>4, <3>6, SplitPrime DEF Perm
  <2> QED
    BY <2>1, <2>2, <2>3, <2>t
<1>4. CASE InnerStep
  <2>0. pc = "inner" /\ LoopInv /\ outv = Zero /\ wq = 1
    BY <1>4, <1>s DEF InnerStep, CLoop, CLoopOut, InLoop
  <2>t. /\ nact \in 0..L /\ i0 \in 0..L /\ nact0 \in 0..L /\ pos2s \in [PosSet -> 0..(L - 1)] /\ aP \in [PosSet -> 0..2]
        /\ S \in SUBSET (0..(L - 1))
    BY <1>s DEF Ty
  <2>l. /\ nact <= nact0 /\ i0 <= nact /\ nact + 1 <= nact0
        /\ pos2s[i0 + 1] \in S
        /\ \A q \in PosSet : (q > nact0 \/ pos2s[q] \in S) => aP[q] \in {0, 2}
        /\ \A s \in S : \E q \in PosSet : q <= nact0 /\ pos2s[q] = s
        /\ \A q \in PosSet : (q <= i0 /\ q <= nact) => pos2s[q] \notin S
        /\ \A q \in PosSet : (q > nact + 1 /\ q <= nact0) => pos2s[q] \in S
    BY <2>0 DEF LoopInv
  <2>1. CASE nact > i0 /\ pos2s[nact + 1] \notin S
    <3> DEFINE a == i0 + 1
               b == nact + 1
    <3>1. a \in PosSet /\ b \in PosSet /\ a # b /\ a <= nact0 /\ b <= nact0
      BY <2>1, <2>t, <2>l DEF PosSet
    <3>2. /\ SwapAll(a, b) /\ i0' = i0 + 1 /\ pc' = "outer"
          /\ UNCHANGED <<nact, outv, S, nact0, wq>>
      BY <1>4, <2>0, <2>1 DEF InnerStep
    <3>3. /\ Perm'
          /\ pos2s' \in [PosSet -> 0..(L - 1)]
          /\ yP' \in [PosSet -> Int] /\ bP' \in [PosSet -> Int] /\ pP' \in [PosSet -> Int] /\ kiP' \in [PosSet -> Int]
          /\ aP' \in [PosSet -> 0..2]
          /\ \A q \in PosSet : pos2s'[q] = IF q = b THEN pos2s[a] ELSE IF q = a THEN pos2s[b] ELSE pos2s[q]
          /\ \A q \in PosSet : aP'[q] = IF q = b THEN aP[a] ELSE IF q = a THEN aP[b] ELSE aP[q]
      BY <3>1, <3>2, <1>s, <1>p, PermSwap
    <3> HIDE DEF a, b
    <3>4. Ty'
      BY <3>2, <3>3, <2>1, <2>t, <1>s DEF Ty
    <3>5. InvInactive'
      BY <3>2 DEF InvInactive
    <3>6. pos2s[a] \in S /\ pos2s[b] \notin S
      BY <2>1, <2>l DEF a, b
    <3>7. LoopInv'
      <4>1. nact0' \in 0..L /\ i0' \in 0..L /\ nact' <= nact0' /\ i0' <= nact' + 1 /\ S' \subseteq 0..(L - 1)
        BY <3>2, <2>1, <2>t, <2>l
      <4>2. \A q \in PosSet : (q > nact0' \/ pos2s'[q] \in S') => aP'[q] \in {0, 2}
        <5> TAKE q \in PosSet
        <5> HAVE q > nact0' \/ pos2s'[q] \in S'
        <5>0. nact0' = nact0 /\ S' = S /\ nact0 \in 0..L /\ q \in 1..L
          BY <3>2, <2>t DEF PosSet
        <5>1. CASE q = b
          <6>1. pos2s'[q] = pos2s[a] /\ aP'[q] = aP[a]
            BY <5>1, <3>1, <3>3
          <6>2. aP[a] \in {0, 2}
            BY <3>1, <3>6, <2>l
          <6> QED
            BY <6>1, <6>2
        <5>2. CASE q = a /\ q # b
          <6>1. pos2s'[q] = pos2s[b] /\ aP'[q] = aP[b]
            BY <5>2, <3>1, <3>3
          <6>2. ~(q > nact0)
            BY <5>2, <3>1, <5>0
          <6> QED
            BY <6>1, <6>2, <3>6, <5>0
        <5>3. CASE q # a /\ q # b
          <6>1. pos2s'[q] = pos2s[q] /\ aP'[q] = aP[q]
            BY <5>3, <3>3
          <6> QED
            BY <6>1, <5>0, <2>l
        <5> QED
          BY <5>1, <5>2, <5>3
      <4>3. \A s \in S' : \E q \in PosSet : q <= nact0' /\ pos2s'[q] = s
        <5> TAKE s \in S'
        <5>1. PICK q \in PosSet : q <= nact0 /\ pos2s[q] = s
          BY <3>2, <2>l
        <5>2. CASE q = a
          BY <5>1, <5>2, <3>1, <3>2, <3>3
        <5>3. CASE q # a
          <6>1. q # b
            BY <5>1, <3>6, <3>2
          <6> QED
            BY <5>1, <5>3, <6>1, <3>2, <3>3
        <5> QED
          BY <5>2, <5>3
      <4>4. \A q \in PosSet : (q <= i0' /\ q <= nact') => pos2s'[q] \notin S'
        BY <3>1, <3>2, <3>3, <3>6, <2>1, <2>l, <2>t DEF a, b, PosSet
      <4>5. \A q \in PosSet : (q > nact' /\ q <= nact0') => pos2s'[q] \in S'
        BY <3>1, <3>2, <3>3, <3>6, <2>1, <2>l, <2>t DEF a, b, PosSet
      <4> QED
        BY <4>1, <4>2, <4>3, <4>4, <4>5, <3>2 DEF LoopInv
    <3>8. CLoop' /\ CIdle' /\ CRun' /\ CWb' /\ CDone' /\ CLoopOut'
      BY <3>2, <3>7, <2>0 DEF CLoop, CIdle, CRun, CWb, CDone, CLoopOut, InLoop, Zero
    <3> QED
      BY <3>3, <3>4, <3>5, <3>8, SplitPrime DEF Perm
  <2>2. CASE nact > i0 /\ pos2s[nact + 1] \in S
    <3>1. /\ nact' = nact - 1
          /\ UNCHANGED <<pos2s, yP, bP, pP, kiP, aP, pc, outv, S, i0, nact0, wq>>
      BY <1>4, <2>0, <2>2 DEF InnerStep
    <3>2. Ty'
      BY <3>1, <2>2, <2>t, <1>s DEF Ty
    <3>3. Perm'
      BY <3>1, <1>p, PermUnch
    <3>4. InvInactive'
      BY <3>1, <2>0 DEF InvInactive
    <3>5. LoopInv'
      BY <3>1, <2>0, <2>2, <2>t, <2>l DEF LoopInv, PosSet
    <3>6. CLoop' /\ CIdle' /\ CRun' /\ CWb' /\ CDone' /\ CLoopOut'
      BY <3>1, <3>5, <2>0 DEF CLoop, CIdle, CRun, CWb, CDone, CLoopOut, InLoop, Zero
    <3> QED
      BY <3>2, <3>3, <3>4, <3>6, SplitPrime DEF Perm
  <2>3. CASE ~(nact > i0)
    <3>1. /\ i0' = i0 + 1 /\ pc' = "outer"
          /\ UNCHANGED <<pos2s, yP, bP, pP, kiP, aP, nact, outv, S, nact0, wq>>
      BY <1>4, <2>0, <2>3 DEF InnerStep
    <3>2. nact = i0
      BY <2>3, <2>l, <2>t
    <3>3. Ty'
      BY <3>1, <3>2, <2>t, <2>l, <1>s DEF Ty
    <3>4. Perm'
      BY <3>1, <1>p, PermUnch
    <3>5. InvInactive'
      BY <3>1 DEF InvInactive
    <3>6. LoopInv'
      BY <3>1, <3>2, <2>0, <2>t, <2>l DEF LoopInv, PosSet
    <3>7. CLoop' /\ CIdle' /\ CRun' /\ CWb' /\ CDone' /\ CLoopOut'
      BY <3>1, <3>6, <2>0 DEF CLoop, CIdle, CRun, CWb, CDone, CLoopOut, InLoop, Zero
    <3> QED
      BY <3>3, <3>4, <3>5, <3>7, SplitPrime DEF Perm
  <2> QED
    BY <2>1, <2>2, <2>3
<1>5. CASE Unshrink
  <2>1. /\ pc = "run" /\ nact' = L
        /\ UNCHANGED <<pos2s, yP, bP, pP, kiP, aP, pc, outv, S, i0, nact0, wq>>
    BY <1>5 DEF Unshrink
  <2>2. Ty'
    BY <2>1, <1>s DEF Ty
  <2>3. Perm'
    BY <2>1, <1>p, PermUnch
  <2>4. InvInactive'
    BY <2>1 DEF InvInactive, PosSet
  <2>5. CLoop' /\ CIdle' /\ CRun' /\ CWb' /\ CDone' /\ CLoopOut'
    BY <2>1, <1>s DEF CLoop, CIdle, CRun, CWb, CDone, CLoopOut, InLoop, Zero
  <2> QED
    BY <2>2, <2>3, <2>4, <2>5, SplitPrime DEF Perm
<1>6. CASE WbBegin
  <2>1. /\ pc = "run" /\ pc' = "wb" /\ wq' = 1 /\ outv' = Zero
        /\ UNCHANGED <<pos2s, yP, bP, pP, kiP, aP, nact, S, i0, nact0>>
    BY <1>6 DEF WbBegin
  <2>2. Ty'
    BY <2>1, <1>s DEF Ty, Zero, PosSet
  <2>3. Perm'
    BY <2>1, <1>p, PermUnch
  <2>4. InvInactive'
    BY <2>1, <1>s DEF InvInactive
  <2>5. CLoop' /\ CIdle' /\ CRun' /\ CWb' /\ CDone' /\ CLoopOut'
    BY <2>1, <1>s DEF CLoop, CIdle, CRun, CWb, CDone, CLoopOut, InLoop, PosSet
  <2> QED
    BY <2>2, <2>3, <2>4, <2>5, SplitPrime DEF Perm
<1>7. CASE WbStep
  <2>1. /\ pc = "wb" /\ wq' = wq + 1 /\ pc' = IF wq = L THEN "done" ELSE "wb"
        /\ outv' = [outv EXCEPT ![pos2s[wq] + 1] = aP[wq]]
        /\ UNCHANGED <<pos2s, yP, bP, pP, kiP, aP, nact, S, i0, nact0>>
    BY <1>7 DEF WbStep
  <2>2. wq \in PosSet /\ wq <= L /\ \A q \in PosSet : q < wq => outv[pos2s[q] + 1] = aP[q]
    BY <2>1, <1>s DEF CWb, Ty, PosSet
  <2>t. /\ pos2s \in [PosSet -> 0..(L - 1)] /\ aP \in [PosSet -> 0..2] /\ outv \in [PosSet -> 0..2]
    BY <1>s DEF Ty
  <2>3. pos2s[wq] + 1 \in PosSet /\ aP[wq] \in 0..2
    BY <2>2, <2>t DEF PosSet
  <2>4. /\ outv' \in [PosSet -> 0..2]
        /\ \A x \in PosSet : outv'[x] = IF x = pos2s[wq] + 1 THEN aP[wq] ELSE outv[x]
    BY <2>1, <2>3, <2>t
  <2>5. Ty'
    BY <2>1, <2>2, <2>4, <1>s DEF Ty, PosSet
  <2>6. Perm'
    BY <2>1, <1>p, PermUnch
  <2>7. InvInactive'
    BY <2>1, <1>s DEF InvInactive
  <2>8. \A q \in PosSet : q < wq + 1 => outv'[pos2s[q] + 1] = aP[q]
    <3> TAKE q \in PosSet
    <3> HAVE q < wq + 1
    <3>1. pos2s[q] + 1 \in PosSet
      BY <2>t DEF PosSet
    <3>2. CASE q = wq
      BY <3>2, <2>4, <3>1
    <3>3. CASE q < wq
      <4>1. pos2s[q] # pos2s[wq]
        BY <3>3, <2>2, <1>s DEF Injective
      <4>2. pos2s[q] \in 0..(L - 1) /\ pos2s[wq] \in 0..(L - 1)
        BY <2>2, <2>t
      <4>3. pos2s[q] + 1 # pos2s[wq] + 1
        BY <4>1, <4>2
      <4>4. outv'[pos2s[q] + 1] = outv[pos2s[q] + 1]
        BY <4>3, <3>1, <2>4
      <4> QED
        BY <4>4, <3>3, <2>2
    <3> QED
      BY <3>2, <3>3, <2>2 DEF PosSet
  <2>9. CLoop' /\ CIdle' /\ CRun' /\ CLoopOut'
    BY <2>1, <1>s DEF CLoop, CIdle, CRun, CLoopOut, InLoop
  <2>10. CWb' /\ CDone'
    BY <2>1, <2>2, <2>8 DEF CWb, CDone, PosSet
  <2> QED
    BY <2>5, <2>6, <2>7, <2>9, <2>10, SplitPrime DEF Perm
<1>8. CASE UNCHANGED vars
  <2>1. UNCHANGED <<pos2s, yP, bP, pP, kiP, aP, nact, pc, outv, S, i0, nact0, wq>>
    BY <1>8 DEF vars
  <2>2. Perm'
    BY <2>1, <1>p, PermUnch
  <2>3. Ty' /\ InvInactive' /\ CLoop' /\ CIdle' /\ CRun' /\ CWb' /\ CDone' /\ CLoopOut'
    BY <2>1, <1>s DEF Ty, InvInactive, CLoop, CIdle, CRun, CWb, CDone, CLoopOut, InLoop, LoopInv, Zero, PosSet
  <2> QED
    BY <2>2, <2>3, SplitPrime DEF Perm
<1> QED
  BY <1>1, <1>2, <1>3, <1>4, <1>5, <1>6, <1>7, <1>8 DEF Next

-----------------------------------------------------------------------------
THEOREM IndInvSafe == IndInv => Safety
<1> SUFFICES ASSUME IndInv PROVE Safety
  OBVIOUS
<1> USE ConstAssump
<1>s. /\ Ty /\ Injective /\ InvPerm /\ InvFollow /\ InvInactive
      /\ CLoop /\ CIdle /\ CRun /\ CWb /\ CDone /\ CLoopOut
  BY Split
<1>1. InvActive
  BY <1>s DEF Ty, InvActive
<1>2. InvWriteBack
  <2>1. DOMAIN outv = PosSet /\ DOMAIN pos2s = PosSet
    BY <1>s DEF Ty
  <2> QED
    BY <2>1, <1>s DEF InvWriteBack, ScatterOk, CDone
<1>3. InvShrinkPost
  <2> SUFFICES ASSUME pc = "outer", i0 >= nact
               PROVE  /\ \A q \in PosSet : q <= nact => pos2s[q] \notin S
                      /\ \A q \in PosSet : (q > nact /\ q <= nact0) => pos2s[q] \in S
                      /\ \A s \in S : \E q \in PosSet : q > nact /\ q <= nact0 /\ pos2s[q] = s
    BY DEF InvShrinkPost
  <2>1. LoopInv
    BY <1>s DEF CLoop, InLoop
  <2>2. \A q \in PosSet : q <= nact => pos2s[q] \notin S
    <3>1. nact \in 0..L /\ i0 \in 0..L
      BY <1>s DEF Ty
    <3>2. \A q \in PosSet : (q <= i0 /\ q <= nact) => pos2s[q] \notin S
      BY <2>1 DEF LoopInv
    <3> QED
      BY <3>1, <3>2 DEF PosSet
  <2>3. \A q \in PosSet : (q > nact /\ q <= nact0) => pos2s[q] \in S
    BY <2>1 DEF LoopInv
  <2>4. \A s \in S : \E q \in PosSet : q > nact /\ q <= nact0 /\ pos2s[q] = s
    <3> TAKE s \in S
    <3>1. PICK q \in PosSet : q <= nact0 /\ pos2s[q] = s
      BY <2>1 DEF LoopInv
    <3>2. q > nact
      BY <3>1, <2>2, <1>s DEF Ty, PosSet
    <3> QED
      BY <3>1, <3>2
  <2> QED
    BY <2>2, <2>3, <2>4
<1> QED
  BY <1>1, <1>2, <1>3, <1>s DEF Safety

THEOREM Correct == Init /\ [][Next]_vars => []Safety
<1>1. Init => IndInv
  BY IndInvInit
<1>2. IndInv /\ [Next]_vars => IndInv'
  BY IndInvStep
<1>3. IndInv => Safety
  BY IndInvSafe
<1> QED
  BY <1>1, <1>2, <1>3, PTL
=============================================================================
