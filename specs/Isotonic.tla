------------------------------ MODULE Isotonic ------------------------------
(***************************************************************************************************)
(* X01 -- isotonic regression (algorithms/linfa-linear/src/isotonic.rs).                           *)
(*                                                                                                 *)
(* Part 1: the defining relation, exact rational arithmetic on integer data.                       *)
(*   A weighted sequence is (sy, sw): sy[i] = (sum of) w*y, sw[i] = (sum of) w > 0.                *)
(*   IsoFit(sy, sw)[i] = max_{a<=i} min_{b>=i} mean(a..b)     (the max-min formula of block means) *)
(*   is the non-decreasing sequence minimising SUM sw[i] (sy[i]/sw[i] - f[i])^2.                   *)
(*   A regression model is a *function of x*: samples with the same abscissa share one fitted      *)
(*   value, so the data are first pooled per distinct x (Groups: weighted mean, summed weight) --  *)
(*   min SUM w_i (y_i - f(x_i))^2 = const + min SUM W_g (m_g - f_g)^2.  The decreasing variant is  *)
(*   the mirror image (AntiFit).  The direction is what linfa documents in the code: the sign of   *)
(*   the (unweighted) Pearson correlation of x and y; zero covariance leaves it open (Dirs).       *)
(*   KnotsOk   : the published knots (regressor r, response v) reproduce the fit as a step         *)
(*               function: every training abscissa t gets v at the smallest knot >= t              *)
(*   Interp    : clamped piecewise-linear interpolation through the knots (the prediction)         *)
(* Part 2: the pool-adjacent-violators algorithm as a state machine over a list of blocks.         *)
(*   mode "any" : Merge(k) pools ANY adjacent pair of blocks that violates the order               *)
(*                (TLC explores every merge order: confluence)                                     *)
(*   mode "best": the schedule of Best & Chakravarti (1990) that linfa implements: a cursor block  *)
(*                B0, Advance / MergeNext (step 1 / step 2) / MergeBack (step 2.1: pool with the   *)
(*                predecessor *while* it is larger, one comparison per pop)                        *)
(*   Invariants: the blocks always partition 1..n into consecutive runs with the right sums, no    *)
(*   block mean ever leaves the hull of the data, the number of steps is bounded (termination),    *)
(*   and EVERY terminal state, whatever the merge order, is the max-min solution.                  *)
(*   Consequences of the definition checked on every input of the bounded domain (they guard       *)
(*   against a wrong or vacuous relation): monotone, max-min = min-max, the KKT conditions of the  *)
(*   projection on the monotone cone, brute-force optimality over a half-integer grid, mirror.     *)
(***************************************************************************************************)
EXTENDS Fx, TLC

CONSTANTS MaxN, MaxY, MaxW

-----------------------------------------------------------------------------
(* Part 1 -- the relation *)

Eag(s) == s \o <<>>                     \* force a lazily evaluated sequence
Rev(s) == [i \in 1..Len(s) |-> s[Len(s) + 1 - i]]

RECURSIVE SumFromTo(_, _, _)
SumFromTo(s, a, b) == IF a > b THEN 0 ELSE s[a] + SumFromTo(s, a + 1, b)
MeanR(sy, sw, a, b) == <<SumFromTo(sy, a, b), SumFromTo(sw, a, b)>>      \* rational <<num, den>>

RMinSet(Q) == CHOOSE r \in Q : \A s \in Q : RLe(r, s)
RMaxSet(Q) == CHOOSE r \in Q : \A s \in Q : RLe(s, r)

MaxMinAt(sy, sw, i) == RMaxSet({RMinSet({MeanR(sy, sw, a, b) : b \in i..Len(sy)}) : a \in 1..i})
MinMaxAt(sy, sw, i) == RMinSet({RMaxSet({MeanR(sy, sw, a, b) : a \in 1..i}) : b \in i..Len(sy)})

IsoFit(sy, sw)  == Eag([i \in 1..Len(sy) |-> MaxMinAt(sy, sw, i)])       \* non-decreasing fit
AntiFit(sy, sw) == Rev(IsoFit(Rev(sy), Rev(sw)))                         \* non-increasing fit
DirFit(dir, sy, sw) == IF dir = "inc" THEN IsoFit(sy, sw) ELSE AntiFit(sy, sw)

RNonDecr(f) == \A i \in 1..(Len(f) - 1) : RLe(f[i], f[i + 1])
RNonIncr(f) == \A i \in 1..(Len(f) - 1) : RLe(f[i + 1], f[i])

\* ---- data level: abscissae xs, targets ys, weights ws (<<>> = unweighted), all integers ----
Wt(ws, i) == IF ws = <<>> THEN 1 ELSE ws[i]
RECURSIVE SortSet(_)
SortSet(Q) == IF Q = {} THEN <<>> ELSE LET m == MinSet(Q) IN <<m>> \o SortSet(Q \ {m})
GX(xs) == SortSet(Range(xs))                                             \* distinct abscissae, ascending
GSY(xs, ys, ws) == LET gx == GX(xs) IN
  Eag([g \in 1..Len(gx) |-> SumSeq([i \in 1..Len(xs) |-> IF xs[i] = gx[g] THEN Wt(ws, i) * ys[i] ELSE 0])])
GSW(xs, ws) == LET gx == GX(xs) IN
  Eag([g \in 1..Len(gx) |-> SumSeq([i \in 1..Len(xs) |-> IF xs[i] = gx[g] THEN Wt(ws, i) ELSE 0])])

\* fitted value per distinct abscissa (ascending order of x), direction dir
GroupFit(dir, xs, ys, ws) == DirFit(dir, GSY(xs, ys, ws), GSW(xs, ws))

\* n^2 * covariance of x and y (sign of the Pearson correlation; unweighted as in the code)
CovN(xs, ys) == Len(xs) * SumSeq([i \in 1..Len(xs) |-> xs[i] * ys[i]]) - SumSeq(xs) * SumSeq(ys)
Dirs(xs, ys) == IF CovN(xs, ys) > 0 THEN {"inc"} ELSE IF CovN(xs, ys) < 0 THEN {"dec"} ELSE {"inc", "dec"}

StrictAsc(r)  == \A b \in 1..(Len(r) - 1) : r[b] < r[b + 1]
StrictDesc(r) == \A b \in 1..(Len(r) - 1) : r[b] > r[b + 1]

\* index of the knot that covers abscissa t: the smallest knot >= t (r has distinct entries, max r >= t)
KnotOf(r, t) == CHOOSE b \in 1..Len(r) : r[b] >= t /\ \A d \in 1..Len(r) : r[d] >= t => r[b] <= r[d]

\* The published knots reproduce the fit.  r: knot abscissae (integers), v: knot values observed at scale S.
\* Not prescribed: how many knots a level set of the fit gets, whether the list ascends or descends.
KnotsShape(xs, r, v) ==
  /\ Len(r) = Len(v) /\ Len(r) >= 1
  /\ StrictAsc(r) \/ StrictDesc(r)
  /\ Range(r) \subseteq Range(xs)
  /\ MaxSeq(r) = MaxSeq(xs)
KnotsFit(dir, xs, ys, ws, r, v, S, slack) ==
  \E gx \in {GX(xs)} : \E F \in {GroupFit(dir, xs, ys, ws)} :          \* (singleton sets: evaluated once)
    \A g \in 1..Len(gx) : Close(v[KnotOf(r, gx[g])], F[g][1], F[g][2], S, slack)
KnotsOk(dir, xs, ys, ws, r, v, S, slack) ==
  KnotsShape(xs, r, v) /\ KnotsFit(dir, xs, ys, ws, r, v, S, slack)

\* Clamped linear interpolation through the knots at the query q2/2 (q2 = doubled query), as the
\* rational <<num, den>> at scale S.  Knots are a set of points: the order of the list is irrelevant.
Interp(r, v, q2) ==
  LET lo == CHOOSE b \in 1..Len(r) : \A d \in 1..Len(r) : r[b] <= r[d]
      hi == CHOOSE b \in 1..Len(r) : \A d \in 1..Len(r) : r[b] >= r[d]
  IN IF q2 >= 2 * r[hi] THEN <<v[hi], 1>>
     ELSE IF q2 <= 2 * r[lo] THEN <<v[lo], 1>>
     ELSE LET a == CHOOSE b \in 1..Len(r) : 2 * r[b] < q2  /\ \A d \in 1..Len(r) : 2 * r[d] < q2  => r[d] <= r[b]
              z == CHOOSE b \in 1..Len(r) : 2 * r[b] >= q2 /\ \A d \in 1..Len(r) : 2 * r[d] >= q2 => r[d] >= r[b]
              den == 2 * (r[z] - r[a])
          IN <<v[a] * den + (q2 - 2 * r[a]) * (v[z] - v[a]), den>>
PredOk(r, v, qs, p, slack) ==
  /\ Len(p) = Len(qs)
  /\ \A j \in 1..Len(qs) : LET e == Interp(r, v, qs[j]) IN Abs(p[j] * e[2] - e[1]) <= slack * e[2]
\* predictions are monotone in the query, in the direction of the fit
MonoOk(dir, qs, p, slack) ==
  \A j \in 1..Len(qs) : \A l \in 1..Len(qs) :
     qs[j] <= qs[l] => IF dir = "inc" THEN p[j] <= p[l] + slack ELSE p[j] >= p[l] - slack

-----------------------------------------------------------------------------
(* Part 2 -- pool adjacent violators as a state machine *)

VARIABLES ys, ws,       \* the input sequence (already in processing order), chosen in Init
          mode,         \* "any": any violating pair may be pooled ; "best": Best & Chakravarti's schedule
          blocks,       \* sequence of blocks [lo, hi, sy, sw]: samples lo..hi pooled, sy = SUM w y, sw = SUM w
          cur,          \* best: index of the cursor block B0
          pc,           \* "run" | "back" (best: inside step 2.1) | "done"
          steps         \* number of actions taken (termination measure)

vars == <<ys, ws, mode, blocks, cur, pc, steps>>

N == Len(ys)
SY0 == [i \in 1..N |-> ws[i] * ys[i]]
BMean(b) == <<b.sy, b.sw>>
Pool(a, b) == [lo |-> a.lo, hi |-> b.hi, sy |-> a.sy + b.sy, sw |-> a.sw + b.sw]
\* blocks k and k+1 replaced by their union
Pooled(bs, k) == [q \in 1..(Len(bs) - 1) |-> IF q < k THEN bs[q] ELSE IF q = k THEN Pool(bs[k], bs[k + 1]) ELSE bs[q + 1]]
Violates(bs, k) == RLt(BMean(bs[k + 1]), BMean(bs[k]))          \* mean(k) > mean(k+1)

\* The input is chosen by actions (not in Init), level by level, and the run starts with a separate action, so that
\* TLC's workers share the inputs (initial states and the successors of one state are processed by a single thread).
Init ==
  /\ ys = <<>> /\ ws = <<>> /\ mode = "any" /\ blocks = <<>>
  /\ cur = 1 /\ pc = "pickN" /\ steps = 0
PickN ==
  /\ pc = "pickN"
  /\ \E n \in 1..MaxN : ys' = [i \in 1..n |-> 0]
  /\ mode' \in {"any", "best"}
  /\ pc' = "pickY"
  /\ UNCHANGED <<ws, blocks, cur, steps>>
PickY ==
  /\ pc = "pickY"
  /\ ys' \in [1..Len(ys) -> 0..MaxY]
  /\ pc' = "pickW"
  /\ UNCHANGED <<ws, mode, blocks, cur, steps>>
PickW ==
  /\ pc = "pickW"
  /\ ws' \in [1..Len(ys) -> 1..MaxW]
  /\ blocks' = [i \in 1..Len(ys) |-> [lo |-> i, hi |-> i, sy |-> ws'[i] * ys[i], sw |-> ws'[i]]]
  /\ pc' = "ready"
  /\ UNCHANGED <<ys, mode, cur, steps>>
Start ==
  /\ pc = "ready" /\ pc' = "run"
  /\ UNCHANGED <<ys, ws, mode, blocks, cur, steps>>

\* ---- mode "any" ----
Merge(k) ==
  /\ mode = "any" /\ pc = "run"
  /\ Violates(blocks, k)
  /\ blocks' = Pooled(blocks, k)
  /\ steps' = steps + 1
  /\ UNCHANGED <<ys, ws, mode, cur, pc>>
FinishAny ==
  /\ mode = "any" /\ pc = "run"
  /\ \A k \in 1..(Len(blocks) - 1) : ~Violates(blocks, k)
  /\ pc' = "done"
  /\ UNCHANGED <<ys, ws, mode, blocks, cur, steps>>

\* ---- mode "best" (isotonic.rs: fn pva) ----
\* step 1: Av(B0) <= Av(B+): B0 is final for now, B+ becomes B0
Advance ==
  /\ mode = "best" /\ pc = "run" /\ cur < Len(blocks)
  /\ ~Violates(blocks, cur)
  /\ cur' = cur + 1 /\ steps' = steps + 1
  /\ UNCHANGED <<ys, ws, mode, blocks, pc>>
\* step 2: Av(B0) > Av(B+): pool B+ into B0, then look back
MergeNext ==
  /\ mode = "best" /\ pc = "run" /\ cur < Len(blocks)
  /\ Violates(blocks, cur)
  /\ blocks' = Pooled(blocks, cur) /\ pc' = "back" /\ steps' = steps + 1
  /\ UNCHANGED <<ys, ws, mode, cur>>
\* step 2.1: while Av(B0) < Av(B-): pool B- into B0 (B- is re-read after every pooling)
MergeBack ==
  /\ mode = "best" /\ pc = "back" /\ cur > 1
  /\ Violates(blocks, cur - 1)
  /\ blocks' = Pooled(blocks, cur - 1) /\ cur' = cur - 1 /\ steps' = steps + 1
  /\ UNCHANGED <<ys, ws, mode, pc>>
BackDone ==
  /\ mode = "best" /\ pc = "back"
  /\ ~(cur > 1 /\ Violates(blocks, cur - 1))
  /\ pc' = "run"
  /\ UNCHANGED <<ys, ws, mode, blocks, cur, steps>>
FinishBest ==
  /\ mode = "best" /\ pc = "run" /\ cur = Len(blocks)
  /\ pc' = "done"
  /\ UNCHANGED <<ys, ws, mode, blocks, cur, steps>>

MergeAny == \E k \in 1..(Len(blocks) - 1) : Merge(k)
Next == PickN \/ PickY \/ PickW \/ Start \/ MergeAny \/ FinishAny
        \/ Advance \/ MergeNext \/ MergeBack \/ BackDone \/ FinishBest

Spec == Init /\ [][Next]_vars /\ WF_vars(Next)

\* fitted value per sample: every sample of a block gets the block mean
BlockOf(bs, i) == CHOOSE q \in 1..Len(bs) : bs[q].lo <= i /\ i <= bs[q].hi
Expand(bs) == [i \in 1..N |-> BMean(bs[BlockOf(bs, i)])]

\* ---- invariants of the algorithm ----
\* the blocks are consecutive runs covering 1..n and carry the sums of their samples
Running == pc \in {"run", "back", "done"}
InvPartition ==
  Running =>
  /\ Len(blocks) >= 1 /\ blocks[1].lo = 1 /\ blocks[Len(blocks)].hi = N
  /\ \A q \in 1..Len(blocks) :
       /\ blocks[q].lo <= blocks[q].hi
       /\ q > 1 => blocks[q].lo = blocks[q - 1].hi + 1
       /\ blocks[q].sy = SumFromTo(SY0, blocks[q].lo, blocks[q].hi)
       /\ blocks[q].sw = SumFromTo(ws, blocks[q].lo, blocks[q].hi)
\* every action either pools (at most n-1 times) or moves the cursor forward (at most n-1 times; the cursor moves
\* back only together with a pooling): the algorithm terminates within 2(n-1) steps
InvSteps == Running => steps <= 2 * (N - 1) /\ steps + Len(blocks) >= N /\ (mode = "any" => steps + Len(blocks) = N)
\* loop invariant of Best's schedule: everything left of the cursor is in order, everything right of it is untouched
InvBestPrefix ==
  (Running /\ mode = "best") =>
    /\ cur \in 1..Len(blocks)
    /\ \A q \in 1..(cur - 2) : ~Violates(blocks, q)
    /\ (pc = "run" /\ cur > 1) => ~Violates(blocks, cur - 1)
    /\ \A q \in (cur + 1)..Len(blocks) : blocks[q].lo = blocks[q].hi
\* pooling never creates a value outside the hull of the data
InvHull == Running => \A q \in 1..Len(blocks) : RLe(<<0, 1>>, BMean(blocks[q])) /\ RLe(BMean(blocks[q]), <<MaxY, 1>>)
\* THE theorem: whatever the order of poolings, the terminal state is the max-min solution
InvTerminal ==
  pc = "done" =>
    LET f == Expand(blocks)  g == IsoFit(SY0, ws)
    IN /\ \A i \in 1..N : REq(f[i], g[i])
       /\ \A k \in 1..(Len(blocks) - 1) : ~Violates(blocks, k)
\* no deadlock before "done"
InvProgress == pc # "done" => ENABLED Next

Termination == <>(pc = "done")

\* ---- consequences of the definition, on every input of the bounded domain (evaluated once per input, in the state
\*      reached by Start) ----
Fit0 == IsoFit(SY0, ws)
AtStart == steps = 0 /\ pc = "run" /\ mode = "any"
InvMonotone == AtStart => RNonDecr(Fit0) /\ RNonIncr(AntiFit(SY0, ws))
InvMaxMinMinMax == AtStart => \A i \in 1..N : REq(MaxMinAt(SY0, ws, i), MinMaxAt(SY0, ws, i))
\* the decreasing fit by its own formula: min_{a<=i} max_{b>=i} mean(a..b)
InvMirror ==
  AtStart => \A i \in 1..N :
     REq(AntiFit(SY0, ws)[i], RMinSet({RMaxSet({MeanR(SY0, ws, a, b) : b \in i..N}) : a \in 1..i}))
\* KKT of the projection on the cone of non-decreasing sequences (generators: +-constant, indicators of upper sets).
\* With D a common denominator: G[i] = D*f[i] integer; residual R[i] = w_i (D y_i - G[i]).
\*   SUM R = 0 ; for every c: SUM_{i>=c} R[i] <= 0 ; SUM R[i] G[i] = 0        (<y - f, g> <= 0 on the cone, = 0 at f)
LcmD == 2520 * 11 * 13                      \* lcm(1..14): every block weight of the bounded model divides it
InvKKT ==
  (AtStart /\ SumSeq(ws) <= 14) =>
    LET G == Eag([i \in 1..N |-> Fit0[i][1] * (LcmD \div Fit0[i][2])])
        R == Eag([i \in 1..N |-> ws[i] * (LcmD * ys[i] - G[i])])
    IN /\ \A i \in 1..N : LcmD % Fit0[i][2] = 0
       /\ SumSeq(R) = 0
       /\ \A c \in 2..N : SumFromTo(R, c, N) <= 0
       /\ \A q \in 1..N :                      \* <y - f, f> = 0 level set by level set: residuals of a level set sum to 0
            LET L == {i \in 1..N : REq(Fit0[i], Fit0[q])} IN SumSeq([i \in 1..N |-> IF i \in L THEN R[i] ELSE 0]) = 0
\* brute force: no non-decreasing sequence on the half-integer grid has a smaller weighted squared error
\* (errors scaled by 4 D^2 would overflow: compare through  SUM w (2y - g)^2 >= SUM w (2y - 2f)^2  with f rational,
\*  i.e.  q^2 SUM w (2y-g)^2 >= SUM w (2 y q - 2 p)^2 per common denominator -- done with D = LcmD restricted to n <= 4)
RECURSIVE MonoSeqs(_, _, _)
MonoSeqs(len, lo, hi) == IF len = 0 THEN {<<>>}
                         ELSE UNION {{<<h>> \o t : t \in MonoSeqs(len - 1, h, hi)} : h \in lo..hi}
InvBrute ==
  (AtStart /\ N <= 4 /\ SumSeq(ws) <= 8) =>
    LET D  == 840                                     \* lcm(1..8)
        G2 == Eag([i \in 1..N |-> 2 * Fit0[i][1] * (D \div Fit0[i][2])])       \* 2 D f[i]
        best == SumSeq([i \in 1..N |-> ws[i] * (2 * D * ys[i] - G2[i]) * (2 * D * ys[i] - G2[i])])
    IN \A g \in MonoSeqs(N, 0, 2 * MaxY) :            \* g[i]/2 on the half-integer grid
         best <= SumSeq([i \in 1..N |-> ws[i] * D * (2 * ys[i] - g[i]) * D * (2 * ys[i] - g[i])])
\* the knot relation accepts the step function of the fit itself and rejects it moved by more than the slack:
\* knots = one per sample position (distinct abscissae 1..n), values = fit rounded to the grid
InvKnots ==
  AtStart =>
    LET S == 1000000
        xs == [i \in 1..N |-> i]
        v  == Eag([i \in 1..N |-> RoundDiv(Fit0[i][1] * S, Fit0[i][2])])
    IN /\ KnotsOk("inc", xs, ys, ws, xs, v, S, 2)
       /\ ~KnotsOk("inc", xs, ys, ws, xs, [v EXCEPT ![N] = @ + 4], S, 2)
       /\ PredOk(xs, v, [j \in 1..(2 * N) |-> j], [j \in 1..(2 * N) |-> IF j % 2 = 0 THEN v[j \div 2] ELSE
                          IF j = 1 THEN v[1] ELSE (v[(j - 1) \div 2] + v[(j + 1) \div 2]) \div 2], 2)

=============================================================================
