--------------------------- MODULE Gen_HierClust ---------------------------
(* Case generator for the clustering half of C06.                                            *)
(*  "expmat": every symmetric dissimilarity matrix dk over a small value set (n = 1..MaxN),  *)
(*            realised by the harness as the similarity matrix exp(-dk/4); 80 stands for a   *)
(*            similarity below 1e-6 (floored), 0 for similarity exactly 1.                   *)
(*  "pts":    Gaussian kernels of lattice point multisets, built through the kernel API.     *)
(* Every case lists all stop criteria: each count 1..n+1, thresholds strictly between the    *)
(* attainable linkage values (denominator 101 is coprime to every cluster-size product and   *)
(* power of two), the exact boundaries 0 and -ln(1e-6), and one threshold above the floor.   *)
EXTENDS Integers, Sequences, FiniteSets, TLC, Json

CONSTANTS MaxN,     \* largest matrix
          Stride    \* keep one in Stride of the largest sizes (1 = all)

VARIABLE case

RECURSIVE SumSeq(_)
SumSeq(s) == IF s = <<>> THEN 0 ELSE Head(s) + SumSeq(Tail(s))
RECURSIVE Tuples(_, _)
Tuples(S, d) == IF d = 0 THEN {<<>>} ELSE {Append(t, x) : t \in Tuples(S, d - 1), x \in S}
PKey(p) == SumSeq([d \in 1..Len(p) |-> (p[d] + 8) * (IF d = 1 THEN 1 ELSE 16)])
RECURSIVE SortedSeqs(_, _)
SortedSeqs(S, n) == IF n = 0 THEN {<<>>}
                    ELSE UNION {{Append(s, x) : x \in {y \in S : n = 1 \/ PKey(s[n - 1]) <= PKey(y)}} : s \in SortedSeqs(S, n - 1)}

\* symmetric matrix with zero diagonal from the sequence of its upper triangle (row-major)
PairIdx(n, i, j) == LET a == IF i < j THEN i ELSE j  b == IF i < j THEN j ELSE i
                    IN SumSeq([r \in 1..(a - 1) |-> n - r]) + (b - a)
MatOf(n, ut) == [i \in 1..n |-> [j \in 1..n |-> IF i = j THEN 0 ELSE ut[PairIdx(n, i, j)]]]
NPairs(n) == (n * (n - 1)) \div 2

ExactLinks == {"single", "complete", "average", "weighted"}
OtherLinks == <<"ward", "centroid", "median">>
ValsFor(n) == IF n <= 3 THEN {0, 1, 2, 3, 80} ELSE IF n = 4 THEN {1, 2, 3} ELSE {1, 2}
\* a second family for n = 4: exact boundaries and floored entries
Vals4b == {0, 2, 80}

Num(c)  == [t |-> "num", c |-> c, tn |-> 0, td |-> 1]
Dist(h, den) == [t |-> "dist", c |-> 0, tn |-> 101 * h + 37, td |-> 101 * den]
Crits(n, hs, den) ==
  [q \in 1..(n + 1) |-> Num(q)] \o hs \o
  << [t |-> "dist", c |-> 0, tn |-> 0, td |-> 1],        \* threshold 0: nothing is below it
     [t |-> "floor", c |-> 0, tn |-> 0, td |-> 1],       \* threshold -ln(1e-6): floored entries are not below it
     [t |-> "dist", c |-> 0, tn |-> 15, td |-> 1] >>     \* above the floor: everything is below it

\* Builder histories for HierarchicalCluster (default: average linkage, 2 clusters): sequences of setter calls
\* [f |-> "link" | "crit", ...] that end in (link, crits[ci]).  num_clusters and max_distance write the same field.
DNum == Num(2)
OpL(lk) == [f |-> "link", link |-> lk, crit |-> DNum]
OpC(cr) == [f |-> "crit", link |-> "average", crit |-> cr]
HHists(lk, crits, n) ==
  LET c1 == 2  cD == n + 3  other == IF lk = "complete" THEN "single" ELSE "complete" IN      \* count 2 ; second threshold
  << [ci |-> c1, ops |-> <<OpC(crits[c1]), OpL(lk)>>],                                       \* criterion first
     [ci |-> c1, ops |-> (IF lk = "average" THEN <<>> ELSE <<OpL(lk)>>)],                      \* default criterion (2 clusters) not set
     [ci |-> cD, ops |-> <<OpL(other), OpC(Num(1)), OpL(lk), OpC(crits[cD])>>],               \* decoys overwritten
     [ci |-> cD, ops |-> <<OpC(crits[cD]), OpC(Num(n)), OpL(lk), OpC(crits[cD])>>],           \* count then threshold
     [ci |-> n + 1, ops |-> <<OpC(crits[cD]), OpL(lk), OpC(crits[n + 1])>>] >>               \* threshold then count

HashSeq(s) == SumSeq([i \in 1..Len(s) |-> (2 * i + 1) * s[i]])

LinkNo(lk) == IF lk = "single" THEN 0 ELSE IF lk = "complete" THEN 1 ELSE IF lk = "average" THEN 2 ELSE 3
UTs(n) == Tuples(ValsFor(n), NPairs(n)) \cup (IF n = 4 THEN Tuples(Vals4b, NPairs(4)) ELSE {})

ExpCase(n, ut, lk) ==
  [kind |-> "hier",
   inp |-> [src |-> "expmat", dk |-> MatOf(n, ut), qd |-> 4, pts |-> <<>>, pd |-> 1, off |-> 0,
            meth |-> [name |-> "none", en |-> 1, ed |-> 1, c |-> 0, d |-> 0, dd |-> 1],
            link |-> lk, f32 |-> ((HashSeq(ut) \div 7) % 6 = 0),
            crits |-> Crits(n, [h \in 1..4 |-> Dist(h - 1, 4)], 4),
            hists |-> IF n >= 2 THEN HHists(lk, Crits(n, [h \in 1..4 |-> Dist(h - 1, 4)], 4), n) ELSE <<>>]]
\* small matrices: every linkage; n >= 4: the four replayable linkages (one in Stride), the others sampled
KeepExp(n, ut, lk) ==
  LET h == HashSeq(ut) IN
  IF lk \in ExactLinks THEN (n <= 3 \/ (h + LinkNo(lk)) % (IF n >= 5 THEN 3 * Stride ELSE Stride) = 0)
  ELSE lk = OtherLinks[((h \div 16) % 3) + 1] /\ (n <= 2 \/ h % (5 * Stride) = 0)

Grid == Tuples({0, 1, 2}, 2)
Eps == { [name |-> "gauss", en |-> 1, ed |-> 2, c |-> 0, d |-> 0, dd |-> 1],     \* eps = 1/2 : |x-y|^2 = 8 is floored
         [name |-> "gauss", en |-> 2, ed |-> 1, c |-> 0, d |-> 0, dd |-> 1] }   \* eps = 2
PtsKey(s) == HashSeq([i \in 1..Len(s) |-> PKey(s[i])])
PtsCase(s, m, lk) ==
  [kind |-> "hier",
   inp |-> [src |-> "pts", dk |-> <<>>, qd |-> 1, pts |-> s, pd |-> 1, off |-> (PtsKey(s) \div 5) % 4, meth |-> m,
            link |-> lk, f32 |-> ((PtsKey(s) \div 7) % 6 = 0),
            crits |-> Crits(Len(s), [h \in 1..5 |-> Dist(<<0, 1, 2, 4, 9>>[h], m.en)], m.en),
            hists |-> HHists(lk, Crits(Len(s), [h \in 1..5 |-> Dist(<<0, 1, 2, 4, 9>>[h], m.en)], m.en), Len(s))]]
KeepPts(s, m, lk) == (PtsKey(s) + m.en + LinkNo(lk)) % (4 * Stride) = 0

\* linear / polynomial kernels of (half-)integer points with negative coordinates: similarities a/q, some <= 0
\* (floored), some > 1 (negative dissimilarity).  Thresholds -ln((2h+1)/(2q)) lie strictly between the levels.
SGrid == Tuples({-1, 0, 1}, 2)
SimMeths == << [name |-> "linear", en |-> 1, ed |-> 1, c |-> 0, d |-> 1, dd |-> 1],
               [name |-> "poly",   en |-> 1, ed |-> 1, c |-> 1, d |-> 2, dd |-> 1],
               [name |-> "poly",   en |-> 1, ed |-> 1, c |-> 1, d |-> 3, dd |-> 1],
               [name |-> "poly",   en |-> 1, ed |-> 1, c |-> 0, d |-> 3, dd |-> 1] >>
RECURSIVE IPow(_, _)
IPow(b, d) == IF d = 0 THEN 1 ELSE b * IPow(b, d - 1)
SimQ(m, pd) == IF m.name = "linear" THEN pd * pd ELSE IPow(pd, 2 * m.d)
LnRat(h, q) == [t |-> "lnrat", c |-> 0, tn |-> 2 * h + 1, td |-> 2 * q]
AllLinks == <<"single", "complete", "average", "weighted", "ward", "centroid", "median", "single", "complete">>
SimCase(s, pd, m, lk) ==
  LET q == SimQ(m, pd) IN
  [kind |-> "hier",
   inp |-> [src |-> "pts", dk |-> <<>>, qd |-> 1, pts |-> s, pd |-> pd, off |-> 0, meth |-> m,
            link |-> lk, f32 |-> ((PtsKey(s) \div 7) % 6 = 0),
            crits |-> Crits(Len(s), <<LnRat(0, q), LnRat(q \div 4, q), LnRat(q \div 2, q), LnRat(q - 1, q)>>, 1),
            hists |-> HHists(lk, Crits(Len(s), <<LnRat(0, q), LnRat(q \div 4, q), LnRat(q \div 2, q), LnRat(q - 1, q)>>, 1), Len(s))]]

Init ==
  \/ \E n \in 1..MaxN : \E ut \in UTs(n) : \E lk \in ExactLinks \cup {OtherLinks[q] : q \in 1..3} :
        KeepExp(n, ut, lk) /\ case = ExpCase(n, ut, lk)
  \/ \E n \in 3..4 : \E s \in SortedSeqs(Grid, n) : \E m \in Eps : \E lk \in ExactLinks :
        KeepPts(s, m, lk) /\ case = PtsCase(s, m, lk)
  \/ \E n \in 2..4 : \E s \in SortedSeqs(SGrid, n) : \E pd \in {1, 2} : \E mi \in 1..Len(SimMeths) :
        LET h == PtsKey(s) + 3 * pd + 5 * mi IN
        /\ (IF n <= 2 THEN h % 4 = 0 ELSE h % (2 * Stride) = 0)
        /\ case = SimCase(s, pd, SimMeths[mi], AllLinks[((h \div 8) % Len(AllLinks)) + 1])

Next == UNCHANGED case
Emit == PrintT("CASE " \o ToJson(case))
=============================================================================
