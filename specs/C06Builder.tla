----------------------------- MODULE C06Builder -----------------------------
(* Design model of a parameter builder: state = the parameter record `cfg`, one action per setter call, history      *)
(* variable `hist`.  TLC checks for every history up to MaxLen calls over Fields x Values:                            *)
(*   InvFold      the state reached by the actions is the fold used by the trace specifications                       *)
(*   InvLastWins  = for every field the last value set, the default where no setter was called                        *)
(*   InvOrderFree histories that set every field at most once reach the same state in every order of the calls       *)
(*   InvOthers    a setter call changes no other field (checked on the last step of the history)                      *)
EXTENDS C06BuilderOps, FiniteSets, TLC

CONSTANTS Fields, Values, MaxLen

VARIABLES cfg, hist
bvars == <<cfg, hist>>

Default == [f \in Fields |-> 0]

Init == cfg = Default /\ hist = <<>>
Set(f, v) ==
  /\ Len(hist) < MaxLen
  /\ cfg' = ApplyOp(cfg, [f |-> f, v |-> v])
  /\ hist' = Append(hist, [f |-> f, v |-> v])
Next == \E f \in Fields, v \in Values : Set(f, v)

InvFold     == cfg = FoldOps(Default, hist)
InvLastWins == cfg = LastWins(Default, hist)
Once(h) == \A f \in Fields : Cardinality(OpsOn(h, f)) <= 1
Reorderings(h) == {g \in [1..Len(h) -> {h[q] : q \in 1..Len(h)}] : {g[q] : q \in 1..Len(h)} = {h[q] : q \in 1..Len(h)}}
InvOrderFree == Once(hist) => \A g \in Reorderings(hist) : FoldOps(Default, g) = cfg
InvOthers == Len(hist) > 0 =>
               LET before == FoldOps(Default, SubSeq(hist, 1, Len(hist) - 1))
                   f == hist[Len(hist)].f
               IN \A g \in Fields \ {f} : cfg[g] = before[g]
=============================================================================
