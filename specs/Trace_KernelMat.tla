-------------------------- MODULE Trace_KernelMat --------------------------
(***************************************************************************)
(* C06 trace validation, kernel half.  A case = one record matrix (lattice *)
(* points), one kernel method, dense (k = 0) or sparse with k neighbours.  *)
(* The harness builds the kernel through every calling form, neighbour     *)
(* index and float type; every "kern" event carries what that kernel holds *)
(* (stored pattern pat, stored values val) and, for some forms, what its   *)
(* views report.  Each event must satisfy the relations of KernelMat:      *)
(*   PatBad = {}   (pattern: diagonal, symmetric, exactly the k-nearest    *)
(*                  pairs, ties at the k-th distance left open)            *)
(*   ValsOK        (entries = kernel function; symmetric; Gaussian: unit   *)
(*                  diagonal, positive semidefinite)                       *)
(*   ViewsOK       (size, columns, diagonal, sums, upper triangle, dot)    *)
(* A panic of the library is an event no action explains.                  *)
(***************************************************************************)
EXTENDS KernelMat, C06BuilderOps, TraceIO

CONSTANT Devs      \* named deviations (known findings)

VARIABLES c, e

Case == Rec[c]
In   == Case.inp
Ev   == Case.ev[e]

TraceInit ==
  /\ c \in 1..Len(Rec) /\ e = 1
  /\ pts = <<>> /\ kk = 0 /\ meth = 0        \* design-model variables are not used here

NN == Len(In.pts)

\* Builder histories.  An event of form "hist" was built by Kernel::params() followed by the setter calls of
\* In.hists[o.hi]; by the builder model (C06Builder: last writer wins, other fields untouched) that history ends in
\* the configuration of the case, so the event must satisfy the same relations as every other event of the case.
\* That the generated history really ends in the case's configuration is checked, not assumed.
KDefault == [meth |-> [name |-> "gauss", en |-> 1, ed |-> 2, c |-> 0, d |-> 0, dd |-> 1], kind |-> 0, nn |-> "kd"]
KOps(h) == [q \in 1..Len(h) |-> [f |-> h[q].f, v |-> IF h[q].f = "meth" THEN h[q].m ELSE IF h[q].f = "kind" THEN h[q].k ELSE h[q].nn]]
HistOK(o) ==
  o.form = "hist" =>
    /\ o.hi \in 1..Len(In.hists)
    /\ FoldOps(KDefault, KOps(In.hists[o.hi])) = [meth |-> In.meth, kind |-> In.k, nn |-> In.hnn]

\* names of the false clauses of one "kern" event
FlagsBad(o) ==
  (IF o.dense = (In.k = 0) /\ o.isdense = o.dense THEN {} ELSE {"dense-flag"}) \cup
  (IF o.islinear = (In.meth.name = "linear") THEN {} ELSE {"is-linear"}) \cup
  (IF o.size = NN THEN {} ELSE {"size"}) \cup
  (IF HistOK(o) THEN {} ELSE {"unsafe-history"}) \cup
  \* records shifted by an offset: only for the shift-invariant Gaussian kernel (the relation uses the un-shifted points)
  (IF In.off = 0 \/ In.meth.name = "gauss" THEN {} ELSE {"unsafe-case"}) \cup
  (IF o.dup = 0 THEN {} ELSE {"csr-entries"}) \cup
  (IF o.bad = 0 THEN {} ELSE {"non-finite-value"}) \cup
  (IF o.ft \in {"f64", "f32"} THEN {} ELSE {"float-type"}) \cup
  (IF o.hastgt => o.tgt = [i \in 1..NN |-> 99 + i] THEN {} ELSE {"targets"})

ValsBad(o) ==
  (IF ValsKernel(In.pts, In.pd, In.meth, o.ft, o.pat, o.val) THEN {} ELSE {"value-not-kernel"}) \cup
  (IF ValsSym(In.pts, o.val) THEN {} ELSE {"value-symmetry"}) \cup
  (IF GaussUnitDiag(In.pts, In.meth, o.val) THEN {} ELSE {"gauss-unit-diagonal"}) \cup
  (IF GaussPSD(In.pts, In.meth, In.k, o.ft, o.val) THEN {} ELSE {"gauss-psd"})

ViewsBad(o) ==
  IF ~o.views THEN {}
  ELSE (IF ViewSize(NN, o) THEN {} ELSE {"view-size"}) \cup
       (IF ViewCols(NN, o.val, o) THEN {} ELSE {"view-column"}) \cup
       (IF ViewDiag(NN, o.val, o) THEN {} ELSE {"view-diagonal"}) \cup
       (IF ViewUT(NN, o.val, o) THEN {} ELSE {"view-triangle"}) \cup
       (IF ViewSum(NN, o.val, o.ft, o) THEN {} ELSE {"view-sum"}) \cup
       (IF ViewDot(NN, o.val, o.ft, In.rhs, o) THEN {} ELSE {"view-dot"})

\* an event whose flags, pattern and values equal those of the first (already explained) event of the same
\* float type needs no second evaluation of the pattern / value relations
SameAsFirst(o) ==
  LET f == Case.ev[1] IN
  /\ e > 1 /\ f.ev = "kern" /\ f.ft = o.ft
  /\ o.pat = f.pat /\ o.val = f.val

KernBad(o) ==
  LET fb == FlagsBad(o) IN
  IF fb # {} THEN fb
  ELSE IF SameAsFirst(o) THEN ViewsBad(o)
  ELSE LET pb == PatBad(In.pts, In.k, o.pat) IN
       IF pb # {} THEN pb ELSE ValsBad(o) \cup ViewsBad(o)

EvBad == IF Ev.ev = "kern" THEN KernBad(Ev)
         ELSE IF Ev.ev = "end" /\ e = Len(Case.ev) THEN {}
         ELSE {"unexplained"}

\* one step per event: explained -> next event (the last one prints OK), otherwise FAIL and the case ends rejected
TStep ==
  /\ e <= Len(Case.ev)
  /\ LET bad == EvBad IN
       IF bad = {}
         THEN /\ (e = Len(Case.ev) => (Ev.ev = "end" /\ Ok(Case.id)))
              /\ e' = e + 1
         ELSE /\ Fail(Case.id, IF Ev.ev = "kern" THEN <<e, Ev.form, Ev.nn, Ev.ft, CHOOSE b \in bad : TRUE>> ELSE <<e, Ev.ev, CHOOSE b \in bad : TRUE>>)
              /\ e' = Len(Case.ev) + 2
  /\ UNCHANGED <<c, kvars>>

TraceNext == TStep
=============================================================================
