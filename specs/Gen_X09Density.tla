--------------------------- MODULE Gen_X09Density ---------------------------
(* Case generator for the DBSCAN / OPTICS part of X09: the lattice case families of C08         *)
(* (Gen_Density: every point sequence of the bounded domain x min_points x tolerance x metric,   *)
(* the 3-4-5 style on-the-radius inputs, the hub family), each expanded into single *runs*:      *)
(* one algorithm on one neighbour index.  The states are those of Gen_Density (same Init); only  *)
(* the emitted JSON differs.  Inputs without feature columns are left to C08 (the code returns   *)
(* before its first step there: known finding zero_features_all_noise).                          *)
EXTENDS Gen_Density

Run(a, ix) ==
  [kind |-> "dstep",
   inp |-> [alg |-> a, index |-> ix, src |-> case.kind,
            dim |-> case.inp.dim, pts |-> case.inp.pts, minpts |-> case.inp.minpts, eps |-> case.inp.eps,
            metric |-> case.inp.metric, ft |-> case.inp.ft, leaf |-> case.inp.leaf]]

XEmit ==
  case.inp.dim > 0 =>
     \A a \in {"dbscan", "optics"} : \A ix \in {"linear", "kdtree", "balltree"} :
        PrintT("CASE " \o ToJson(Run(a, ix)))
=============================================================================
