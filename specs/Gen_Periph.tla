----------------------------- MODULE Gen_Periph -----------------------------
(* Case generator for X07 (TLC enumerates the parameter grids; one CASE line per initial state).       *)
(*   blobs  : centroids x blob size x features x distribution x (centroid layout, rng kind)            *)
(*   mkds   : make_dataset shapes x supports of the two distributions                                  *)
(*   loader : the four built-in loaders                                                                *)
(*   tsne   : samples x features x embedding size x perplexity x theta x float type, plus the          *)
(*            preliminary_iter variants, a zero-iteration run and constant data                        *)
EXTENDS Integers, Sequences, TLC, Json

CONSTANTS KSet, MSet, FSet, DistIds, Combos,      \* blobs
          TsN, TsD, TsE, TsP2, TsTh2, TsFt, TsIter  \* t-SNE grid

VARIABLE case

\* centroids of different blocks differ by >= 30 in every coordinate and are NOT in ascending order
PermTab == <<1, 3, 0, 2>>
Cent(k, f) == [b \in 1..k |-> [c \in 1..f |-> (30 * PermTab[b] - 45) * (IF c % 2 = 1 THEN 1 ELSE -1) + c]]

Dist(i) == CASE i = 1 -> [t |-> "lat", s10 |-> 0, lo |-> 0, hi |-> 0]        \* sigma-0: rows = centroid
             [] i = 2 -> [t |-> "lat", s10 |-> 0, lo |-> 2, hi |-> 2]        \* point mass off the origin
             [] i = 3 -> [t |-> "lat", s10 |-> 0, lo |-> -1, hi |-> 1]
             [] i = 4 -> [t |-> "std", s10 |-> 10, lo |-> 0, hi |-> 0]       \* `blobs`
             [] i = 5 -> [t |-> "normal", s10 |-> 5, lo |-> 0, hi |-> 0]
             [] i = 6 -> [t |-> "normal", s10 |-> 20, lo |-> 0, hi |-> 0]

Combo(i) == CASE i = 1 -> <<"C", "xoshiro">> [] i = 2 -> <<"F", "small">> [] i = 3 -> <<"view", "xoshiro">>
               [] i = 4 -> <<"C", "small">> [] i = 5 -> <<"F", "xoshiro">> [] i = 6 -> <<"view", "small">>
Blobs ==
  \E k \in KSet, m \in MSet, f \in FSet, di \in DistIds, ci \in Combos : \E cb \in {Combo(ci)} :
    case = [kind |-> "blobs",
            inp |-> [m |-> m, f |-> f, cent |-> Cent(k, f), dist |-> Dist(di),
                     seed |-> 1 + ((3 * k + 5 * m + 7 * f + di) % 11),
                     seed2 |-> 13 + ((k + m) % 3),
                     clay |-> cb[1], rngk |-> cb[2]]]

Supports == { <<0, 0, 5, 5>>, <<-1, 1, 10, 12>>, <<3, 3, 7, 9>> }
MkDs ==
  \E rows \in 0..3, feats \in 0..2, tg \in 0..2, s \in Supports :
    case = [kind |-> "mkds",
            inp |-> [rows |-> rows, feats |-> feats, tg |-> tg, flo |-> s[1], fhi |-> s[2], tlo |-> s[3], thi |-> s[4]]]

Loader == \E nm \in {"iris", "diabetes", "winequality", "linnerud"} : case = [kind |-> "loader", inp |-> [name |-> nm]]

\* integer data, no constant column for n >= 2, rows not sorted
XMat(n, d) == [r \in 1..n |-> [c \in 1..d |-> ((r * (c + 1) * (1 + ((n + d) % 3)) + (r - 1) * (r - 1)) % 7) - 3]]
TsCase(X, d, e, p2, th2, mi, pre, ft) ==
  [kind |-> "tsne",
   inp |-> [X |-> X, d |-> d, e |-> e, p2 |-> p2, th2 |-> th2, mi |-> mi, pre |-> pre,
            seed |-> 3 + ((5 * Len(X) + 3 * d + e) % 17), seed2 |-> 40 + ((Len(X) + p2 + 1) % 5), ft |-> ft]]

TsGrid ==
  \* TsP2 / TsTh2 hold p2 + 1 / th2 + 1 (a cfg file cannot hold negative numbers)
  \E n \in TsN, d \in TsD, e \in TsE, p2 \in {x - 1 : x \in TsP2}, th2 \in {x - 1 : x \in TsTh2}, ft \in TsFt :
    case = TsCase(XMat(n, d), d, e, p2, th2, TsIter, -1, ft)
TsExtra ==
  \/ \E pre \in {0, 1, TsIter, TsIter + 3}, th2 \in {0, 1} : case = TsCase(XMat(9, 3), 3, 2, 2, th2, TsIter, pre, "f64")
  \/ \E mi \in {0, 1}, th2 \in {0, 1} : case = TsCase(XMat(9, 3), 3, 2, 2, th2, mi, -1, "f64")
  \/ \E th2 \in {0, 1} : case = TsCase([r \in 1..8 |-> <<2, -1, 2>>], 3, 2, 2, th2, TsIter, -1, "f64")   \* constant data
  \/ \E n \in {12, 16}, th2 \in {0, 1, 2} : case = TsCase(XMat(n, 3), 3, 2, 6, th2, 4 * TsIter, -1, "f64")

Init == Blobs \/ MkDs \/ Loader \/ TsGrid \/ TsExtra
Next == UNCHANGED case
Emit == PrintT("CASE " \o ToJson(case))
=============================================================================
