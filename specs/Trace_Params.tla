--------------------------- MODULE Trace_Params ---------------------------
(***************************************************************************)
(* C04 trace validation.  A case is a program (constructor + setter calls) *)
(* executed on a real builder; the recorded events are explained by the    *)
(* actions of the design model Params:                                     *)
(*                                                                         *)
(*  built        the abstract builder state is Replay(program)             *)
(*  check_ref    verdict \in Expected(state) -- the documented ranges of   *)
(*               ParamsDoc evaluated by TLC; the values read back from the *)
(*               checked parameters equal the state (setters write the     *)
(*               field they name, nothing is clamped); builder unchanged   *)
(*  call/unch.   fit / fit_with / transform on the unchecked builder: on a *)
(*               rejected builder exactly the checking error (with the     *)
(*               documented wrapper prefix), never a panic, never a model  *)
(*  check_ref_again, check   same verdict, same error, same values         *)
(*  call/checked the same calls on the checked parameters (twice)          *)
(*  done         every calling form was exercised and, on an accepted      *)
(*               builder, gave what the checked parameters give            *)
(*                                                                         *)
(* At a point the documentation leaves unspecified either verdict is       *)
(* accepted, but all the consistency clauses still apply.                  *)
(***************************************************************************)
EXTENDS Params, TraceIO

CONSTANT Devs      \* named deviations (known findings), see Params!Relax

VARIABLES c, e,     \* case and event cursor
          x,        \* abstract builder state
          obs0,     \* observation of the builder right after construction
          ver,      \* verdict observed at the first check_ref: "none" | "pass" | "reject"
          cerr,     \* its error rendering
          ures, cres1, cres2   \* results per calling form: unchecked, checked run 1, checked run 2

tvars == <<c, e, x, obs0, ver, cerr, ures, cres1, cres2>>

Case == Rec[c]
In   == Case.inp
Ev   == Case.ev[e]
A    == In.alg
Prog == [q \in 1..Len(In.prog) |-> [s |-> In.prog[q].s, a |-> In.prog[q].a]]

NoRes  == [res |-> "none", err |-> "", dig |-> <<0, 0>>]
NoneAll == [fm \in Forms |-> NoRes]
ResOf(ev) == [res |-> ev.res, err |-> ev.err, dig |-> ev.dig]

TraceInit ==
  /\ c \in 1..Len(Rec) /\ e = 1
  /\ x = <<>> /\ obs0 = <<>> /\ ver = "none" /\ cerr = ""
  /\ ures = NoneAll /\ cres1 = NoneAll /\ cres2 = NoneAll
  \* the design-model variables are not used during trace validation
  /\ alg = "" /\ st = <<>> /\ hist = <<>> /\ pc = "" /\ verdict = "" /\ out = <<>>

HasEv(name) == e <= Len(Case.ev) /\ Ev.ev = name
Adv == e' = e + 1 /\ UNCHANGED <<c, vars>>

\* the program only uses setters of the documented builder, by their names, with the right arity
ProgOk ==
  /\ A \in Algs
  /\ \A q \in 1..Len(In.prog) :
       IF In.prog[q].s = 0
         THEN In.prog[q].n \in MidOps(A) /\ In.prog[q].a = <<>>              \* interleaved check / clone
         ELSE /\ In.prog[q].s \in 1..NS(A)
              /\ In.prog[q].n = Doc[A].s[In.prog[q].s].n
              /\ Len(In.prog[q].a) = Doc[A].s[In.prog[q].s].na

\* the checks interleaved with the setters: the k-th one judged the values the builder held at that point
MidIdx == SelectSeq([q \in 1..Len(In.prog) |-> q], LAMBDA q : In.prog[q].s = 0)
MidOk(mid) ==
  /\ Len(mid) = Len(MidIdx)
  /\ \A k \in 1..Len(mid) : ~mid[k].panic /\ mid[k].ok \in Expected(A, Replay(A, SubSeq(Prog, 1, MidIdx[k])), Devs)

\* values read back from the checked parameters (only fields the API lets us observe)
ValsOk(ev) ==
  /\ Len(ev.vals) = NF(A) /\ Len(ev.on) = NF(A)
  /\ \A i \in 1..NF(A) : Doc[A].f[i].rd =>
       /\ ev.on[i] = x.on[i]
       /\ x.on[i] => ev.vals[i] = Num(x.v[i])

Exp == Expected(A, x, Devs)

TBuilt ==
  /\ HasEv("built") /\ e = 1
  /\ ProgOk
  /\ MidOk(Ev.mid)
  /\ x' = Replay(A, Prog)
  /\ obs0' = Ev.obs
  /\ Adv /\ UNCHANGED <<ver, cerr, ures, cres1, cres2>>

TCheckRef ==
  /\ HasEv("check_ref") /\ ver = "none" /\ e = 2
  /\ Ev.ok \in Exp                         \* passes iff every value lies in its documented range
  /\ Ev.obs = obs0                         \* checking by reference leaves the builder unchanged
  /\ IF Ev.ok THEN ValsOk(Ev) /\ Ev.err = "" ELSE Ev.err # "" /\ Ev.vals = <<>> /\ Ev.on = <<>>
  /\ ver' = IF Ev.ok THEN "pass" ELSE "reject"
  /\ cerr' = Ev.err
  /\ Adv /\ UNCHANGED <<x, obs0, ures, cres1, cres2>>

\* fit / fit_with / transform called directly on the unchecked builder
TCallU ==
  /\ HasEv("call") /\ Ev.who = "unchecked" /\ ver # "none"
  /\ Ev.form \in Doc[A].forms /\ ures[Ev.form].res = "none" /\ Ev.run = 1
  /\ ver = "reject" => Ev.res = "err" /\ Ev.err = Doc[A].pre \o cerr /\ Ev.dig = <<0, 0>>   \* exactly that error; no panic, no model
  /\ ures' = [ures EXCEPT ![Ev.form] = ResOf(Ev)]
  /\ Adv /\ UNCHANGED <<x, obs0, ver, cerr, cres1, cres2>>

\* after the by-reference uses the builder still holds the same parameters and gives the same verdict
TCheckRefAgain ==
  /\ HasEv("check_ref_again") /\ ver # "none"
  /\ Ev.ok = (ver = "pass") /\ Ev.err = cerr /\ Ev.obs = obs0
  /\ IF Ev.ok THEN ValsOk(Ev) ELSE Ev.vals = <<>> /\ Ev.on = <<>>
  /\ Adv /\ UNCHANGED <<x, obs0, ver, cerr, ures, cres1, cres2>>

\* checking by value: same verdict, same error, same parameters
TCheck ==
  /\ HasEv("check") /\ ver # "none"
  /\ Ev.ok = (ver = "pass") /\ Ev.err = cerr
  /\ IF Ev.ok THEN ValsOk(Ev) ELSE Ev.vals = <<>> /\ Ev.on = <<>>
  /\ Adv /\ UNCHANGED <<x, obs0, ver, cerr, ures, cres1, cres2>>

TCallC ==
  /\ HasEv("call") /\ Ev.who = "checked" /\ ver = "pass"
  /\ Ev.form \in Doc[A].forms
  /\ \/ Ev.run = 1 /\ cres1[Ev.form].res = "none" /\ cres1' = [cres1 EXCEPT ![Ev.form] = ResOf(Ev)] /\ UNCHANGED cres2
     \/ Ev.run = 2 /\ cres2[Ev.form].res = "none" /\ cres2' = [cres2 EXCEPT ![Ev.form] = ResOf(Ev)] /\ UNCHANGED cres1
  /\ Adv /\ UNCHANGED <<x, obs0, ver, cerr, ures>>

\* a valid builder behaves exactly like its checked form: same kind of outcome, same error, and the
\* same model.  Only the model digest has an escape: if two runs of the *checked* form disagree with
\* each other (an algorithm that is not reproducible) the digest is not comparable.
SameAsChecked(fm) ==
  LET uu == ures[fm]  c1 == cres1[fm]  c2 == cres2[fm] IN
  /\ c1.res # "none" /\ c2.res # "none"
  /\ uu.res = c1.res /\ c1.res = c2.res
  /\ uu.err = c1.err /\ c1.err = c2.err
  /\ c1.dig = c2.dig => uu.dig = c1.dig

TDone ==
  /\ HasEv("done") /\ ver # "none" /\ e = Len(Case.ev)
  /\ \A fm \in Doc[A].forms : ures[fm].res # "none"
  /\ ver = "pass" => \A fm \in Doc[A].forms : SameAsChecked(fm)
  /\ Adv /\ UNCHANGED <<x, obs0, ver, cerr, ures, cres1, cres2>>

\* known finding "svr-nu-svr-c-unchecked": nu_svr(nu, C <= 0) passes checking and the SMO solver then does
\* not terminate; the harness records the call that exhausted its CPU budget as a `timeout` event
TTimeoutDev ==
  /\ HasEv("timeout") /\ ver = "pass" /\ e = Len(Case.ev)
  /\ "svr-nu-svr-c-unchecked" \in Devs /\ A = "svr" /\ x.on[5] /\ Num(x.v[5]) <= 0
  /\ Adv /\ UNCHANGED <<x, obs0, ver, cerr, ures, cres1, cres2>>

\* which named deviations were needed to explain the verdict (pass 2 only)
UsedDevs == {d \in Devs : (ver = "pass") \notin Expected(A, x, Devs \ {d})}

Accept ==
  /\ e = Len(Case.ev) + 1
  /\ Len(Case.ev) > 0 /\ Case.ev[Len(Case.ev)].ev \in {"done", "timeout"}    \* "timeout" only via TTimeoutDev
  /\ IF UsedDevs = {} THEN Ok(Case.id) ELSE \A d \in UsedDevs : OkDev(Case.id, <<d>>)
  /\ e' = e + 1 /\ UNCHANGED <<c, vars, x, obs0, ver, cerr, ures, cres1, cres2>>

\* diagnostics: name the first false clause of the first unexplained event.  The FAIL tuple is kept
\* short (TLC wraps long values over several lines); the DETAIL string carries the values.
Why ==
  IF Ev.ev = "built" THEN (IF ProgOk THEN <<"interleaved-check-verdict">> ELSE <<"program-not-in-doc">>)
  ELSE IF Ev.ev = "check_ref" THEN
       IF Ev.ok \notin Exp THEN <<"verdict", Ev.ok>>
       ELSE IF Ev.obs # obs0 THEN <<"builder-changed">>
       ELSE IF Ev.ok /\ ~ValsOk(Ev) THEN <<"values-differ">>
       ELSE <<"error-rendering">>
  ELSE IF Ev.ev = "call" /\ Ev.who = "unchecked" THEN <<Ev.form, "not-the-check-error", Ev.res>>
  ELSE IF Ev.ev = "check_ref_again" THEN <<"changed-after-use", Ev.ok>>
  ELSE IF Ev.ev = "check" THEN <<"differs-from-check_ref", Ev.ok>>
  ELSE IF Ev.ev = "call" THEN <<Ev.form, "on-checked", Ev.res>>
  ELSE IF Ev.ev = "done" THEN
       <<"unlike-checked-form", {fm \in Doc[A].forms : ures[fm].res = "none" \/ (ver = "pass" /\ ~SameAsChecked(fm))}>>
  ELSE <<"unexplained">>
Detail ==
  IF Ev.ev \in {"check_ref", "check_ref_again", "check"} /\ e > 1
    THEN ToString(<<"documented", Exp, "values", x.v, "written", x.wr, "event", Ev>>)
  ELSE IF Ev.ev = "call" THEN ToString(<<"check error", Doc[A].pre \o cerr, "event", Ev>>)
  ELSE IF Ev.ev = "done" THEN ToString(<<ures, cres1, cres2>>)
  ELSE ToString(Ev)

Stuck ==
  /\ e <= Len(Case.ev)
  /\ ~(ENABLED TBuilt \/ ENABLED TCheckRef \/ ENABLED TCallU \/ ENABLED TCheckRefAgain \/ ENABLED TCheck
       \/ ENABLED TCallC \/ ENABLED TDone \/ ENABLED TTimeoutDev)
  /\ Fail(Case.id, <<e, Ev.ev>> \o Why)
  /\ PrintT("DETAIL " \o ToString(Case.id) \o " " \o Detail)
  /\ e' = Len(Case.ev) + 2 /\ UNCHANGED <<c, vars, x, obs0, ver, cerr, ures, cres1, cres2>>

TraceNext == TBuilt \/ TCheckRef \/ TCallU \/ TCheckRefAgain \/ TCheck \/ TCallC \/ TDone \/ TTimeoutDev \/ Accept \/ Stuck
=============================================================================
