---------------------------- MODULE Trace_SmoStep ----------------------------
(***************************************************************************)
(* X12 trace validation: the recorded STEPS of the real SMO solver are     *)
(* replayed against the state machine of SmoStep.                          *)
(*                                                                         *)
(* One case = one fit (harness x12).  The model state is SmoStep's own:     *)
(* pr = ProblemOf(case), A = the alphas in fixed point 10^-6 (so the       *)
(* denominator multiplier is E = 10^6 / D0, constant), G = Q A + p         *)
(* recomputed exactly from A after every step.  The implementation's       *)
(* alphas are floats logged as round(a * 10^6); the model adopts the       *)
(* logged new alphas after it has checked that they are its own update     *)
(* within the fixed-point slack, so errors do not accumulate: at every     *)
(* step  |model gradient - true gradient| <= Dl = max_t sum_s |Q_ts| / 2   *)
(* + 2 units, and every comparison below is an integer inequality widened   *)
(* by that interval (a near-tie inside the slack is a tie).                *)
(*                                                                         *)
(* Event grammar (tree with the X12 hook, inp.hook = 1):                   *)
(*   ( smo.select smo.update )*  [smo.skip]  smo.select [smo.select]       *)
(*   smo.stop  smo.rho  smo.writeback  fit  end                            *)
(*  smo.select followed by smo.update: the logged pair must be an          *)
(*     admissible WSS2 selection in the model's current state (ties free), *)
(*     the gap must not be clearly below eps, the logged gradient-derived  *)
(*     quantities (m, -M, gap, second-order gain, the whole gradient) must *)
(*     be the model's.                                                     *)
(*  smo.select followed by smo.select / smo.stop: the solver found no      *)
(*     violating pair beyond eps: the model's Stop must be enabled.        *)
(*  smo.update: old alphas, box bounds, targets, gradients, curvature are  *)
(*     the model's; the new alphas are the model's analytic update with    *)
(*     box clipping; the clipping branch is consistent; feasibility        *)
(*     (box, y'a) holds after the step.  That the step decreases f is      *)
(*     InvDecr of the design model (the step is the model's step).         *)
(*  smo.stop / smo.rho / smo.writeback / fit: stop reason, iteration       *)
(*     count, rho from the free variables (or the bound midpoint), the     *)
(*     written-back and the published solution are the model's final state. *)
(* Tree without the hook (inp.hook = 0): only smo.writeback / fit exist;   *)
(*  the step clauses are skipped, the final point must be feasible and a   *)
(*  state in which the model's Stop is enabled; acceptance is tagged       *)
(*  "nosteps".                                                             *)
(***************************************************************************)
EXTENDS SmoStep, TraceIO

CONSTANT Devs      \* named deviations (known findings) -- none for X12

VARIABLES c, e, ms

SA == 1000000
Case == Rec[c]
In   == Case.inp
Ev   == Case.ev[e]
NEv  == Len(Case.ev)
NextName == IF e < NEv THEN Case.ev[e + 1].ev ELSE "none"
Hooked == In.hook = 1
N == pr.n

MS0(st) == [ph |-> "sel", nsel |-> 0, sel |-> <<0, 0>>, st |-> st, k |-> 0, resync |-> FALSE, skipped |-> 0,
            rho |-> <<0, 0>>, r |-> <<0, 0>>, tag |-> "steps"]

TraceInit ==
  /\ c \in 1..Len(Rec) /\ e = 1
  /\ case = [kind |-> Rec[c].kind, inp |-> Rec[c].inp]
  /\ pr = ProblemOf(case)
  /\ E = SA \div pr.D0
  /\ A = Eag([t \in 1..pr.n |-> pr.A0[t] * E])
  /\ G = GradOf(pr, A, E)
  /\ pc = "trace" /\ h = H0
  /\ ms = MS0(StOf(A, Bnd(pr, E)))

(* ------------------------------------------------------------ helpers     *)
Fv(x) == x[1]
Fin(x) == x[2] = 0
BndV == Bnd(pr, E)
RowAbs(t) == SumSeq([s \in 1..N |-> Abs(pr.Q[t][s])])
Dl == MaxSet({RowAbs(t) : t \in 1..N}) \div 2 + 2          \* gradient slack (units 10^-6)
Y01(t) == IF pr.y[t] = 1 THEN 1 ELSE 0
FloorDiv(a, b) == a \div b                                  \* b > 0 (TLA+ \div floors)
CeilDiv(a, b) == -((-a) \div b)
\* gap (units 10^-6) < eps = 2^-epsk
LtEps(g) == g <= (SA - 1) \div Ipow(2, In.epsk)

\* snapshots are per position; position q holds variable as[q] + 1
IsPerm(S) == Len(S.as) = N /\ \A v \in 1..N : \E q \in 1..N : S.as[q] = v - 1
PosOf(S, v) == CHOOSE q \in 1..N : S.as[q] = v - 1
ByVar(S, arr) == Eag([v \in 1..N |-> arr[PosOf(S, v)]])
ActOf(S) == {S.as[q] + 1 : q \in 1..S.nactive}

StatusFits(st, a, bnd) ==
  \A v \in 1..N : /\ st[v] \in {0, 1, 2}
                  /\ st[v] = 0 => a[v] = 0
                  /\ st[v] = 2 => a[v] = bnd[v]

\* sync = TRUE: the snapshot must be the model's state; FALSE (after smo.skip): it is adopted after a feasibility check
SnapWhy(S, sync) ==
  IF S.coarse # 0 THEN "coarse-snapshot"
  ELSE IF S.n # N \/ Len(S.a) # N \/ Len(S.g) # N \/ Len(S.st) # N \/ Len(S.y) # N THEN "snapshot-length"
  ELSE IF ~IsPerm(S) THEN "active-set-not-a-permutation"
  ELSE IF S.nactive < 1 \/ S.nactive > N THEN "nactive-range"
  ELSE LET a == ByVar(S, S.a)  st == ByVar(S, S.st)  g == ByVar(S, S.g)  gm == IF sync THEN G ELSE GradOf(pr, a, E) IN
       IF ByVar(S, S.y) # Eag([t \in 1..N |-> Y01(t)]) THEN "targets-not-permuted"
       ELSE IF sync /\ a # A THEN "alpha-not-model-state"
       ELSE IF \E v \in 1..N : a[v] < 0 \/ a[v] > BndV[v] THEN "alpha-outside-box"
       ELSE IF Abs(SumY(pr, a) - SumY(pr, pr.A0) * E) > N THEN "equality-constraint-y"
       ELSE IF pr.nu /\ Abs(SumSeq(a) - SumSeq(pr.A0) * E) > N THEN "equality-constraint-e"
       ELSE IF ~StatusFits(st, a, BndV) THEN "status-vs-alpha"
       ELSE IF sync /\ st # ms.st THEN "status-not-model-state"
       ELSE IF \E v \in ActOf(S) : Abs(g[v] - gm[v]) > Dl THEN "gradient-not-Qa+p"
       ELSE "none"

(* ------------------------------------------------------------ smo.select  *)
NearArgMaxUp(st, act, cls) ==
  LET u == {t \in UpSet(pr, st, act) : cls = 0 \/ pr.y[t] = cls} IN {t \in u : \A s \in u : Vv(pr, G, s) <= Vv(pr, G, t) + 2 * Dl}

\* the second-order choice of j (given i) is not clearly beaten by a clearly violating competitor t paired with i2
NotBeaten(i, j, i2, t) ==
  LET bt == Vv(pr, G, i2) - Vv(pr, G, t) - 2 * Dl IN
  bt > 0 => GainGe(Vv(pr, G, i) - Vv(pr, G, j) + 2 * Dl, Aq(pr, i, j), bt, Aq(pr, i2, t))

\* |gain * abar + b^2| small: the logged second-order objective value -b^2/a of the chosen pair (a > 0)
GainOk(gain6, i, j) ==
  LET a == Aq(pr, i, j)  b == Abs(Vv(pr, G, i) - Vv(pr, G, j))
      lhs == BMul(BOf(Abs(gain6)), BOf(a * SA))                   \* |gain| a 10^12
      rhs == BSq(b)                                               \* b^2 10^12
      tol == BAdd(BMul(BOf(b), BOf(4 * Dl)), BOf(4 * Dl * Dl + 2 * a * SA))
  IN gain6 <= 0 /\ BCmp(lhs, BAdd(rhs, tol)) <= 0 /\ BCmp(rhs, BAdd(lhs, tol)) <= 0

\* the logged gain left the fixed-point range (flag -3): then b^2 / a really is beyond 2^30 units (up to the slack)
GainBig(i, j) ==
  LET a == Aq(pr, i, j)  b == Abs(Vv(pr, G, i) - Vv(pr, G, j)) + 2 * Dl IN
  BCmp(BSq(b), BMul(BOf(1073741000), BOf(a * SA))) >= 0

SelectWhy(S) ==
  LET sw == SnapWhy(S, ~ms.resync) IN
  IF ms.ph # "sel" THEN "select-out-of-order"
  ELSE IF sw # "none" THEN sw
  ELSE
  LET st  == IF ms.resync THEN ByVar(S, S.st) ELSE ms.st
      act == ActOf(S)
      gap == MaxViol(pr, st, G, act)
      up  == UpSet(pr, st, act)
      low == LowSet(pr, st, act)
  IN
  IF ms.resync THEN "none"          \* re-synchronised; judged at the next event (see TraceNext: two-phase)
  ELSE IF ~Fin(S.eps) \/ Fv(S.eps) \notin {1000000000 \div Ipow(2, In.epsk), 1000000000 \div Ipow(2, In.epsk) + 1} THEN "eps-not-configured"
  ELSE IF (S.nu = 1) # pr.nu THEN "nu-constraint-flag"
  ELSE IF gap # NEGINF /\ (~Fin(S.gap) \/ Abs(Fv(S.gap) - gap) > 2 * Dl) THEN "logged-gap-differs-from-m-M"
  ELSE IF NextName = "smo.update" THEN
     LET i == S.si + 1  j == S.sj + 1 IN
     IF S.i < 0 \/ S.j < 0 \/ S.i >= N \/ S.j >= N THEN "update-without-selected-pair"
     ELSE IF S.as[S.i + 1] # S.si \/ S.as[S.j + 1] # S.sj THEN "pair-vs-active-set"
     ELSE IF i \notin up THEN "i-not-in-I_up"
     ELSE IF j \notin low THEN "j-not-in-I_low"
     ELSE IF ~SameCls(pr, i, j) THEN "pair-not-in-one-class"
     ELSE IF i \notin NearArgMaxUp(st, act, IF pr.nu THEN pr.y[j] ELSE 0) THEN "i-not-a-maximal-violator"
     ELSE IF Vv(pr, G, i) - Vv(pr, G, j) + 2 * Dl <= 0 THEN "selected-pair-not-violating"
     ELSE IF gap = NEGINF \/ LtEps(gap + 2 * Dl) THEN "continues-although-gap-below-eps"
     ELSE IF \E t \in low : SameCls(pr, i, t) /\ ~NotBeaten(i, j, i, t) THEN "j-not-second-order-optimal"
     ELSE IF pr.nu /\ LET oc == -pr.y[j]  io == NearArgMaxUp(st, act, oc) IN
                      io # {} /\ \A i2 \in io : \E t \in {s \in low : pr.y[s] = oc} : ~NotBeaten(i, j, i2, t)
          THEN "j-not-2nd-order-opt(other-class)"
     ELSE IF ~pr.nu /\ (~Fin(S.gm[1]) \/ Abs(Fv(S.gm[1]) - Vv(pr, G, i)) > Dl) THEN "logged-m-differs"
     ELSE IF ~pr.nu /\ (~Fin(S.gm[2]) \/ Abs(Fv(S.gm[2]) + MinSet({Vv(pr, G, t) : t \in low})) > Dl) THEN "logged-M-differs"
     ELSE IF Aq(pr, i, j) > 0 /\ ~(IF Fin(S.gain) THEN GainOk(Fv(S.gain), i, j) ELSE S.gain[2] = -3 /\ GainBig(i, j)) THEN "logged-gain-differs-from-b^2/a"
     ELSE "none"
  ELSE IF NextName \in {"smo.select", "smo.stop"} THEN
     IF gap # NEGINF /\ ~LtEps(gap - 2 * Dl) THEN "stop-with-violation-beyond-eps"
     ELSE IF NextName = "smo.select" /\ ms.nsel # 0 THEN "third-selection-without-update"
     ELSE IF NextName = "smo.stop" /\ S.nactive # N THEN "stop-without-full-check"
     ELSE "none"
  ELSE "select-followed-by-" \o NextName

SelectPost(S) ==
  IF ms.resync THEN ms          \* handled by Resync below
  ELSE IF NextName = "smo.update" THEN [ms EXCEPT !.ph = "upd", !.sel = <<S.si + 1, S.sj + 1>>, !.nsel = 0]
  ELSE [ms EXCEPT !.nsel = @ + 1]

(* ------------------------------------------------------------ smo.update  *)
UpdateWhy(U) ==
  IF ms.ph # "upd" THEN "update-without-selection"
  ELSE IF U.si + 1 # ms.sel[1] \/ U.sj + 1 # ms.sel[2] THEN "update-pair-differs-from-selection"
  ELSE IF ~(Fin(U.ci) /\ Fin(U.cj) /\ Fin(U.gi) /\ Fin(U.gj) /\ Fin(U.oi) /\ Fin(U.oj) /\ Fin(U.ni) /\ Fin(U.nj)) THEN "update-nonfinite"
  ELSE
  LET i == ms.sel[1]  j == ms.sel[2]
      yi == pr.y[i]  yj == pr.y[j]
      a  == Aq(pr, i, j)
      b  == Vv(pr, G, i) - Vv(pr, G, j)
      oi == Fv(U.oi)  oj == Fv(U.oj)  ni == Fv(U.ni)  nj == Fv(U.nj)
      di == yi * (ni - oi)                       \* observed step, seen on a_i and on a_j
      dj == -yj * (nj - oj)
      dmax == Min2(LimI(pr, A, BndV, i), LimJ(pr, A, BndV, j))
      rawlo == IF a > 0 THEN FloorDiv(b - 2 * Dl, a) ELSE IF b - 2 * Dl >= 1 THEN dmax ELSE 0
      rawhi == IF a > 0 THEN CeilDiv(b + 2 * Dl, a) ELSE IF b + 2 * Dl >= 1 THEN dmax ELSE 0
      lo == Max2(0, Min2(rawlo, dmax))
      hi == Min2(rawhi, dmax)
      last == IF U.br[2] # 0 THEN U.br[2] ELSE U.br[1]
  IN
  IF U.yi # Y01(i) \/ U.yj # Y01(j) THEN "targets-of-the-pair"
  ELSE IF Fv(U.ci) # BndV[i] \/ Fv(U.cj) # BndV[j] THEN "box-bounds-used"
  ELSE IF oi # A[i] \/ oj # A[j] THEN "old-alpha-not-model-state"
  ELSE IF Abs(Fv(U.gi) - G[i]) > Dl \/ Abs(Fv(U.gj) - G[j]) > Dl THEN "gradient-used-not-Qa+p"
  ELSE IF ~Fin(U.qc) \/ Fv(U.qc) # (IF a > 0 THEN a * SA ELSE 0) THEN "curvature-not-Kii+Kjj-2Kij"
  ELSE IF a > 0 /\ (~Fin(U.delta) \/ Abs(Fv(U.delta)) > 2000000000 \div a \/ Abs(Abs(Fv(U.delta)) * a - Abs(b)) > 2 * Dl + a) THEN "unclipped-step-not-b/a"
  ELSE IF ni < 0 \/ ni > BndV[i] \/ nj < 0 \/ nj > BndV[j] THEN "new-alpha-outside-box"
  ELSE IF Abs(di - dj) > 2 THEN "equality-constraint-broken"
  ELSE IF di < lo - 2 \/ di > hi + 2 THEN
       (IF di < 0 THEN "step-in-ascent-direction" ELSE IF di > hi + 2 THEN "step-longer-than-analytic-update" ELSE "step-shorter-than-analytic-update")
  ELSE IF last \notin 0..4 THEN "clipping-branch-code"
  ELSE IF last = 0 /\ a > 0 /\ (di < rawlo - 2 \/ di > rawhi + 2) THEN "unclipped-but-not-newton-step"
  \* tau case: b / 1e-10 stays inside the box only for b below 1e-9, i.e. zero within the slack
  ELSE IF last = 0 /\ a <= 0 /\ b > 2 * Dl THEN "unclipped-step-with-zero-curvature"
  ELSE IF (last = 1 /\ (nj # 0 \/ U.stj # 0)) \/ (last = 2 /\ (ni # 0 \/ U.sti # 0))
          \/ (last = 3 /\ (ni # BndV[i] \/ U.sti # 2)) \/ (last = 4 /\ (nj # BndV[j] \/ U.stj # 2)) THEN "clipping-branch-not-at-its-bound"
  ELSE IF ~({U.sti, U.stj} \subseteq {0, 1, 2}) \/ (U.sti = 0 /\ ni # 0) \/ (U.sti = 2 /\ ni # BndV[i])
          \/ (U.stj = 0 /\ nj # 0) \/ (U.stj = 2 /\ nj # BndV[j]) THEN "status-after-step"
  ELSE "none"

(* --------------------------------------------------- smo.stop / smo.rho   *)
StopWhy(T) ==
  IF ms.ph # "sel" \/ ms.nsel = 0 THEN "stop-without-optimality-check"
  ELSE IF T.why # 0 THEN "stop-by-iteration-budget"
  ELSE IF T.skipped # ms.skipped \/ T.logged # ms.k \/ T.iter # ms.k + ms.skipped THEN "iteration-count"
  ELSE SnapWhy(T, TRUE)

YG(t) == pr.y[t] * G[t]
RhoWhy(R) ==
  LET sw == SnapWhy(R, TRUE)
      st == ms.st
      free == {t \in 1..N : st[t] = 1}
  IN
  IF ms.ph # "rho" THEN "rho-out-of-order"
  ELSE IF sw # "none" THEN sw
  ELSE IF ~pr.nu THEN
     LET ubs == {YG(t) : t \in {s \in 1..N : (st[s] = 2 /\ pr.y[s] = -1) \/ (st[s] = 0 /\ pr.y[s] = 1)}}
         lbs == {YG(t) : t \in {s \in 1..N : (st[s] = 2 /\ pr.y[s] = 1) \/ (st[s] = 0 /\ pr.y[s] = -1)}}
     IN IF R.nu # 0 THEN "nu-constraint-flag"
        ELSE IF R.nfree[1] # Cardinality(free) THEN "free-variable-count"
        ELSE IF free # {} THEN
           (IF ~Fin(R.rho) \/ Abs(Fv(R.rho) * Cardinality(free) - SumSeq([t \in 1..N |-> IF t \in free THEN YG(t) ELSE 0])) > Cardinality(free) * (Dl + 1)
              THEN "rho-not-mean-of-free" ELSE "none")
        ELSE IF ubs = {} THEN (IF R.rho[2] = 1 THEN "none" ELSE "rho-not-the-bound-midpoint")
        ELSE IF lbs = {} THEN (IF R.rho[2] = -1 THEN "none" ELSE "rho-not-the-bound-midpoint")
        ELSE IF ~Fin(R.rho) \/ Abs(2 * Fv(R.rho) - (MinSet(ubs) + MaxSet(lbs))) > 2 * Dl + 2 THEN "rho-not-the-bound-midpoint"
        ELSE "none"
  ELSE
     \* nu form: r1 / r2 = mean gradient of the free variables of the class, else midpoint of
     \* min{G : at lower bound} and max{G : at upper bound}; rho = (r1 - r2) / 2, r = (r1 + r2) / 2
     LET Cls(cl) == {t \in 1..N : pr.y[t] = cl}
         Fr(cl) == Cls(cl) \cap free
         Ub(cl) == {G[t] : t \in {s \in Cls(cl) : st[s] = 0}}
         Lb(cl) == {G[t] : t \in {s \in Cls(cl) : st[s] = 2}}
         Defined(cl) == Fr(cl) # {} \/ (Ub(cl) # {} /\ Lb(cl) # {})
         \* 2 * |Fr| * r_cl  resp. (x 1) the midpoint doubled: keep r_cl as a fraction num / den
         Num(cl) == IF Fr(cl) # {} THEN 2 * SumSeq([t \in 1..N |-> IF t \in Fr(cl) THEN G[t] ELSE 0]) ELSE MinSet(Ub(cl)) + MaxSet(Lb(cl))
         Den(cl) == IF Fr(cl) # {} THEN 2 * Cardinality(Fr(cl)) ELSE 2
     IN IF R.nu # 1 THEN "nu-constraint-flag"
        ELSE IF R.nfree[1] # Cardinality(Fr(1)) \/ R.nfree[2] # Cardinality(Fr(-1)) THEN "free-variable-count"
        ELSE IF ~Defined(1) \/ ~Defined(-1) THEN "none"        \* a class without bracket: infinite / undefined, unspecified
        ELSE IF ~Fin(R.rho) \/ ~Fin(R.r) THEN "rho-nonfinite"
        \* rho = (r1 - r2)/2, r = (r1 + r2)/2 with r_cl = Num/Den:  2 rho D1 D2 = N1 D2 - N2 D1
        ELSE IF Abs(2 * Fv(R.rho) * Den(1) * Den(-1) - (Num(1) * Den(-1) - Num(-1) * Den(1))) > (2 * Dl + 2) * Den(1) * Den(-1) THEN "rho-not-(r1-r2)/2"
        ELSE IF Abs(2 * Fv(R.r) * Den(1) * Den(-1) - (Num(1) * Den(-1) + Num(-1) * Den(1))) > (2 * Dl + 2) * Den(1) * Den(-1) THEN "r-not-(r1+r2)/2"
        ELSE "none"

(* ---------------------------------------- smo.writeback / fit (final point) *)
NS == Len(In.x)
\* tree without the step hook: the final point must be feasible and a state in which Stop is enabled.  A variable
\* within one unit of a bound is read as sitting at it (that only removes it from I_up or I_low: lenient, sound)
FinalWhy(a) ==
  LET st == Eag([t \in 1..N |-> IF a[t] >= BndV[t] - 1 THEN 2 ELSE IF a[t] <= 1 THEN 0 ELSE 1])
      g  == GradOf(pr, a, E)
      gap == MaxViol(pr, st, g, 1..N)
  IN IF \E t \in 1..N : a[t] < 0 \/ a[t] > BndV[t] THEN "final-alpha-outside-box"
     ELSE IF Abs(SumY(pr, a) - SumY(pr, pr.A0) * E) > N THEN "final-equality-constraint-y"
     ELSE IF pr.nu /\ Abs(SumSeq(a) - SumSeq(pr.A0) * E) > N THEN "final-equality-constraint-e"
     ELSE IF gap # NEGINF /\ ~LtEps(gap - 2 * Dl) THEN "final-violation-beyond-eps"
     ELSE "none"

WritebackWhy(W) ==
  IF Len(W.out) # N THEN "writeback-length"
  ELSE IF Hooked THEN (IF ms.ph # "wb" THEN "writeback-out-of-order" ELSE IF W.out # A THEN "writeback-not-final-state" ELSE "none")
  ELSE IF ms.ph # "sel" \/ ms.k # 0 THEN "writeback-out-of-order"
  ELSE FinalWhy(W.out)

\* published coefficients: y_s a_s (classification), a_s (one-class), a_s - a*_s (regression); nu-classification is
\* rescaled by 1/r (only its shape is checked here, C13 judges the published model)
PublishedWhy(F, a) ==
  IF ~F.ok THEN "fit-error"
  \* (nu-classification with margin parameter r = 0 publishes a / r = NaN: unspecified here as in C13)
  ELSE IF case.kind = "nusvc" THEN (IF F.exit # 0 THEN "exit-reason" ELSE "none")
  ELSE IF ~F.afin \/ Len(F.alpha) # NS THEN "published-coefficients"
  ELSE IF case.kind = "csvc" /\ \E s \in 1..NS : F.alpha[s] # pr.y[s] * a[s] THEN "published-alpha-not-final-state"
  ELSE IF case.kind = "oneclass" /\ \E s \in 1..NS : F.alpha[s] # a[s] THEN "published-alpha-not-final-state"
  ELSE IF IsSvr(case) /\ \E s \in 1..NS : Abs(F.alpha[s] - (a[s] - a[s + NS])) > 1 THEN "published-alpha-not-final-state"
  ELSE IF F.exit # 0 THEN "exit-reason"
  ELSE "none"

FitWhy(F) ==
  IF Hooked THEN
     IF ms.ph # "fit" THEN "fit-out-of-order"
     ELSE LET p == PublishedWhy(F, A) IN
          IF p # "none" THEN p
          ELSE IF F.iters # ms.k + ms.skipped THEN "published-iteration-count"
          ELSE IF ~pr.nu /\ F.rho # ms.rho THEN "published-rho-not-solver-rho"
          ELSE IF pr.nu /\ (~F.hasr \/ F.r # ms.r) THEN "published-r"
          ELSE "none"
  ELSE IF ms.ph = "fit" THEN PublishedWhy(F, A)               \* after a write-back event
  ELSE IF ms.ph # "sel" \/ ms.k # 0 THEN "fit-out-of-order"
  \* no write-back event at all: the solver variables can be recovered from the published ones for csvc / one-class
  ELSE IF ~F.ok THEN "fit-error"
  ELSE IF ~F.afin \/ Len(F.alpha) # NS THEN "published-coefficients"
  ELSE IF case.kind = "csvc" THEN FinalWhy(Eag([s \in 1..NS |-> pr.y[s] * F.alpha[s]]))
  ELSE IF case.kind = "oneclass" THEN FinalWhy(F.alpha)
  ELSE "none"

(* --------------------------------------------------------------- actions *)
Why ==
  IF SA % pr.D0 # 0 THEN "units"
  ELSE CASE Ev.ev = "smo.select" -> IF Hooked THEN SelectWhy(Ev) ELSE "step-event-in-unhooked-tree"
         [] Ev.ev = "smo.update" -> IF Hooked THEN UpdateWhy(Ev) ELSE "step-event-in-unhooked-tree"
         [] Ev.ev = "smo.skip"   -> IF ~Hooked \/ ms.ph # "sel" \/ ms.nsel # 0 \/ ms.resync THEN "skip-out-of-order"
                                    ELSE IF Ev.logged # ms.k \/ Ev.skipped < 1 THEN "skip-count" ELSE "none"
         [] Ev.ev = "smo.stop"   -> IF Hooked THEN StopWhy(Ev) ELSE "step-event-in-unhooked-tree"
         [] Ev.ev = "smo.rho"    -> IF Hooked THEN RhoWhy(Ev) ELSE "step-event-in-unhooked-tree"
         [] Ev.ev = "smo.writeback" -> WritebackWhy(Ev)
         [] Ev.ev = "fit" -> FitWhy(Ev)
         [] Ev.ev = "end" -> IF ms.ph = "end" THEN "none" ELSE IF Hooked THEN "run-incomplete:" \o ms.ph ELSE "no-fit-event"
         [] Ev.ev = "panic" -> "panic"
         [] OTHER -> "unexpected-event"

\* effect of an explained event on the model state
Post ==
  CASE Ev.ev = "smo.select" ->
         IF ms.resync
           THEN [a |-> ByVar(Ev, Ev.a), m |-> [ms EXCEPT !.resync = FALSE, !.st = ByVar(Ev, Ev.st)], again |-> TRUE]
           ELSE [a |-> A, m |-> SelectPost(Ev), again |-> FALSE]
    [] Ev.ev = "smo.update" ->
         LET i == ms.sel[1]  j == ms.sel[2] IN
         [a |-> [A EXCEPT ![i] = Fv(Ev.ni), ![j] = Fv(Ev.nj)],
          m |-> [ms EXCEPT !.ph = "sel", !.k = @ + 1, !.st = [@ EXCEPT ![i] = Ev.sti, ![j] = Ev.stj]], again |-> FALSE]
    [] Ev.ev = "smo.skip" -> [a |-> A, m |-> [ms EXCEPT !.resync = TRUE, !.skipped = Ev.skipped, !.tag = "steps+skip"], again |-> FALSE]
    [] Ev.ev = "smo.stop" -> [a |-> A, m |-> [ms EXCEPT !.ph = "rho"], again |-> FALSE]
    [] Ev.ev = "smo.rho"  -> [a |-> A, m |-> [ms EXCEPT !.ph = "wb", !.rho = Ev.rho, !.r = Ev.r], again |-> FALSE]
    [] Ev.ev = "smo.writeback" ->
         IF Hooked THEN [a |-> A, m |-> [ms EXCEPT !.ph = "fit"], again |-> FALSE]
         ELSE [a |-> Ev.out, m |-> [ms EXCEPT !.ph = "fit", !.tag = "nosteps"], again |-> FALSE]
    [] Ev.ev = "fit" -> [a |-> A, m |-> [ms EXCEPT !.ph = "end", !.tag = IF Hooked THEN @ ELSE "nosteps"], again |-> FALSE]
    [] OTHER -> [a |-> A, m |-> ms, again |-> FALSE]

\* (a select event that re-synchronises the state after smo.skip is consumed twice: first it is adopted, then judged)
TStep ==
  /\ e <= NEv
  /\ LET w == Why IN
     IF w = "none"
       THEN LET p == Post IN
            /\ A' = p.a /\ G' = (IF p.a = A THEN G ELSE GradOf(pr, p.a, E))
            /\ ms' = p.m
            /\ e' = (IF p.again THEN e ELSE e + 1)
            /\ UNCHANGED <<c, case, pr, E, pc, h>>
       ELSE /\ Fail(Case.id, <<e, Ev.ev, w>>)
            /\ e' = NEv + 2 /\ UNCHANGED <<c, case, pr, A, E, G, pc, h, ms>>

Accept ==
  /\ e = NEv + 1
  /\ NEv > 0 /\ Case.ev[NEv].ev = "end"
  /\ IF ms.tag = "steps" THEN Ok(Case.id) ELSE OkDev(Case.id, <<ms.tag>>)
  /\ e' = e + 1 /\ UNCHANGED <<c, case, pr, A, E, G, pc, h, ms>>

TraceNext == TStep \/ Accept
=============================================================================
