--------------------------- MODULE Gen_X10Lloyd ---------------------------
(* Case generator for X10 / k-means (one case = one `fit`, f64, squared euclidean distance).          *)
(*  The lattice datasets are those of the C09 families (Gen_KMeans): sorted multisets of points of   *)
(*  0..Grid1 resp. (0..Grid2)^2, so duplicates and "fewer distinct points than clusters" are included; *)
(*  every k <= min(n, MaxK).                                                                          *)
(*  "short": initialiser precomputed (every tuple of lattice centroids for one feature; corners,     *)
(*           centre and an edge midpoint for two), random and k-means++ (seeds), n_runs 1..3,        *)
(*           max_n_iterations 1..3, tolerance 2^-30 (never met by a non-zero move), 1/2, 1/4, 3/4,   *)
(*           1/8 -- the last four chosen by a checksum of the input, Variants different choices per  *)
(*           input.                                                                                   *)
(*  "long" : precomputed centroids, budgets 6 / 8 / 12, tolerance 2^-2 .. 2^-5: runs that stop by    *)
(*           the tolerance; with clusters of 1, 3 or 7 points every centroid coordinate is a dyadic  *)
(*           rational, the float arithmetic is exact and a move EQUAL to the tolerance occurs        *)
(*           (e.g. one point at distance 1 from its centroid: moves 1/2, 1/4, 1/8, ...).            *)
(*  Tolerances are powers of two times 1 or 3, so tolerance^2 is exact in binary fixed point.        *)
EXTENDS Integers, Sequences, FiniteSets, TLC, Json

CONSTANTS Grid1, MaxN1, Grid2, MaxN2, MaxK, Variants, Seeds,
          LGrid, LMaxN      \* long family: one feature, points on 0..LGrid, <= LMaxN points

VARIABLE case

Pts1(g) == {<<a>> : a \in 0..g}
Pts2(g) == {<<a, b>> : a \in 0..g, b \in 0..g}
PLe(p, q) == \/ p[1] < q[1]
             \/ p[1] = q[1] /\ (Len(p) = 1 \/ p[2] <= q[2])
SortedSeqs(PP, nn) == {s \in [1..nn -> PP] : \A i \in 1..(nn - 1) : PLe(s[i], s[i + 1])}

RECURSIVE SumTo(_, _)
SumTo(s, i) == IF i = 0 THEN 0 ELSE s[i] + SumTo(s, i - 1)
Check(pts, c0) ==
  SumTo([i \in 1..Len(pts) |-> (i + 2) * SumTo(pts[i], Len(pts[i])) + pts[i][1]], Len(pts))
  + SumTo([j \in 1..Len(c0) |-> (3 * j + 1) * SumTo(c0[j], Len(c0[j])) + 5 * c0[j][Len(c0[j])]], Len(c0))
  + Len(pts)

Sub2(g) == {<<0, 0>>, <<g, 0>>, <<0, g>>, <<g, g>>, <<g \div 2, g \div 2>>, <<g \div 2, 0>>}
C0s(f, g, PP, k) == IF f = 2 /\ k >= 2 THEN [1..k -> Sub2(g)] ELSE [1..k -> PP]

\* <<tn, te>> : tolerance tn / 2^te
Tols == << <<1, 30>>, <<1, 1>>, <<1, 2>>, <<3, 2>>, <<1, 3>>, <<1, 30>> >>
Cfg(h) == [nruns |-> 1 + (h % 3), maxit |-> 1 + ((h \div 3) % 3), tol |-> Tols[((h \div 9) % 6) + 1]]

Short ==
  \E f \in 1..2 :
  LET g  == IF f = 1 THEN Grid1 ELSE Grid2
      PP == IF f = 1 THEN Pts1(g) ELSE Pts2(g)
  IN \E n \in 1..(IF f = 1 THEN MaxN1 ELSE MaxN2) :
     \E k \in 1..(IF n < MaxK THEN n ELSE MaxK) :
     \E pts \in SortedSeqs(PP, n), v \in 0..(Variants - 1) :
       \/ \E c0 \in C0s(f, g, PP, k) :
            LET cf == Cfg(Check(pts, c0) + 7 * v) IN
            case = [kind |-> "km",
                    inp |-> [fam |-> "short", f |-> f, pts |-> pts, k |-> k, init |-> "pre", c0 |-> c0, seed |-> 1,
                             nruns |-> cf.nruns, maxit |-> cf.maxit, tn |-> cf.tol[1], te |-> cf.tol[2]]]
       \/ \E init \in {"random", "kmpp"}, seed \in Seeds :
            LET cf == Cfg(Check(pts, <<>>) + 7 * v + 5 * seed + k + Len(init)) IN
            case = [kind |-> "km",
                    inp |-> [fam |-> "short", f |-> f, pts |-> pts, k |-> k, init |-> init, c0 |-> <<>>, seed |-> seed,
                             nruns |-> cf.nruns, maxit |-> cf.maxit, tn |-> cf.tol[1], te |-> cf.tol[2]]]

Long ==
  \E n \in 1..LMaxN : \E k \in 1..(IF n < 2 THEN n ELSE 2) :
  \E pts \in SortedSeqs(Pts1(LGrid), n), c0 \in [1..k -> Pts1(LGrid)] :
    LET h == Check(pts, c0) IN
    case = [kind |-> "km",
            inp |-> [fam |-> "long", f |-> 1, pts |-> pts, k |-> k, init |-> "pre", c0 |-> c0, seed |-> 1,
                     nruns |-> 1 + (h % 2), maxit |-> <<6, 8, 12>>[((h \div 2) % 3) + 1],
                     tn |-> 1, te |-> 2 + ((h \div 6) % 4)]]

Init == Short \/ Long
Next == UNCHANGED case
Emit == PrintT("CASE " \o ToJson(case))
=============================================================================
