--------------------------- MODULE Trace_Logistic ---------------------------
(***************************************************************************)
(* C12 trace validation, logistic part.  One case = one fit of the real    *)
(* LogisticRegression / MultiLogisticRegression followed by                *)
(* predict_probabilities and predict (binary: once per threshold).         *)
(* Every clause is evaluated by TLC with the relations of Logistic.tla:    *)
(*   fit     : reported classes = classes of the training labels;          *)
(*             gradient of the documented objective encloses 0             *)
(*   proba   : every probability = sigmoid / soft-max of the linear        *)
(*             predictor (training rows, zero row, rows with |x| = 1000),  *)
(*             finite, inside [0,1] by order key, multinomial rows sum to 1*)
(*             -- the validity clauses alone for the rows inp.qv (both     *)
(*             signs, magnitudes 10^2 .. 10^4)                             *)
(*   predict : binary  cls = pos iff prob >= threshold (order keys of the  *)
(*             implementation's own floats; threshold = default 1/2, a     *)
(*             dyadic fraction, or exactly the probability of a row);      *)
(*             multinomial  cls is a class of maximal probability.         *)
(* A fit error / time-out on these (convex, everywhere defined) problems   *)
(* is not explained by any action.                                         *)
(***************************************************************************)
EXTENDS Logistic, TraceIO

CONSTANT Devs      \* named deviations (known findings) -- none for the logistic part

VARIABLES c, e

tvars == <<c, e>>

Case == Rec[c]
In   == Case.inp
Ev   == Case.ev[e]
FitEv == Case.ev[1]
ProbaEv == Case.ev[2]

TraceInit ==
  /\ c \in 1..Len(Rec) /\ e = 1
  /\ ys = <<>> /\ pc = "trace" /\ i = 0 /\ c1 = <<>> /\ c2 = <<>> /\ res = <<>> /\ num = <<>>

HasEv(name) == e <= Len(Case.ev) /\ Ev.ev = name
Adv == e' = e + 1 /\ UNCHANGED <<c, vars>>

\* solver tolerance 10^-te is at most one unit of 10^-4; numerical allowance 5 units (5 * 10^-4)
Allow == 6
WMax == 50000000

P == In.p
N == Len(In.x)
Rows == In.x \o In.q \o In.qv                \* query rows: training rows, extra rows, validity-only extreme rows
NVal == Len(In.x) + Len(In.q)                \* rows 1..NVal: the probability value is checked as well
NameOf(q) == In.names[In.y[q] + 1]           \* label (as printed) of training row q
UsedNames == {NameOf(q) : q \in 1..N}

\* ---------------------------------------------------------------------------------------------
BinShapeOk == /\ FitEv.ok /\ FitEv.sane
              /\ Len(FitEv.w6) = P
              /\ \A j \in 1..P : Abs(FitEv.w6[j]) <= WMax
BinLabelsOk == FitEv.pos # FitEv.neg /\ {FitEv.pos, FitEv.neg} = UsedNames
BinT == [q \in 1..N |-> IF NameOf(q) = FitEv.pos THEN 1 ELSE 0]
BinStat == BinStationary(In.x, BinT, FitEv.w6, FitEv.b6, In.an, In.ad, In.icpt, Allow)

MultiK == Len(FitEv.classes)
MultiShapeOk == /\ FitEv.ok /\ FitEv.sane
                /\ Len(FitEv.w6) = P /\ Len(FitEv.b6) = MultiK
                /\ \A j \in 1..P : Len(FitEv.w6[j]) = MultiK /\ \A k \in 1..MultiK : Abs(FitEv.w6[j][k]) <= WMax
MultiLabelsOk == NoDupSeq(FitEv.classes) /\ SeqSet(FitEv.classes) = UsedNames
MultiT == [q \in 1..N |-> [k \in 1..MultiK |-> IF NameOf(q) = FitEv.classes[k] THEN 1 ELSE 0]]
MultiStat == MultiStationary(In.x, MultiT, FitEv.w6, FitEv.b6, In.an, In.ad, In.icpt, Allow)

\* best-effort diagnostics: the first false clause of the stuck event
Why ==
  IF Ev.ev = "fit" THEN
     (IF ~Ev.ok THEN "fit failed " \o Ev.err
      ELSE IF Case.kind = "bin" THEN
         (IF ~BinShapeOk THEN "shape/range" ELSE IF ~BinLabelsOk THEN "labels" ELSE "stationarity")
      ELSE (IF ~MultiShapeOk THEN "shape/range" ELSE IF ~MultiLabelsOk THEN "classes" ELSE "stationarity"))
  ELSE IF Ev.ev = "proba" THEN "probabilities"
  ELSE IF Ev.ev = "predict" THEN "decision"
  ELSE "unexplained event"

\* every action evaluates its clause once: explained -> next event, otherwise a FAIL diagnostic and the case is dead
Dead == e' = Len(Case.ev) + 2 /\ UNCHANGED <<c, vars>>
TFit ==
  /\ HasEv("fit") /\ e = 1
  /\ IF (IF Case.kind = "bin" THEN BinShapeOk /\ BinLabelsOk /\ BinStat
         ELSE MultiShapeOk /\ MultiLabelsOk /\ MultiStat)
     THEN Adv ELSE Fail(Case.id, ToString(e) \o " " \o Ev.ev \o ": " \o Why) /\ Dead

BinProbaOk ==
  /\ Ev.fin /\ Len(Ev.p4) = Len(Rows) /\ Len(Ev.pk) = Len(Rows)
  /\ \A r \in 1..Len(Rows) :
       /\ ProbKeyInRange(Ev.pk[r]) /\ Ev.p4[r] \in 0..S
       /\ r <= NVal => BinProbOk(Rows[r], FitEv.w6, FitEv.b6, Ev.p4[r])
MultiProbaOk ==
  /\ Ev.fin /\ Len(Ev.p4) = Len(Rows) /\ Len(Ev.pk) = Len(Rows) /\ Len(Ev.rs6) = Len(Rows)
  /\ \A r \in 1..Len(Rows) :
       /\ Len(Ev.p4[r]) = MultiK /\ Len(Ev.pk[r]) = MultiK
       /\ r <= NVal => MultiProbOk(Rows[r], FitEv.w6, FitEv.b6, Ev.p4[r])
       /\ \A k \in 1..MultiK : ProbKeyInRange(Ev.pk[r][k])
       /\ Abs(Ev.rs6[r] - 1000000) <= 2                          \* each row sums to one
       /\ Abs(SumSeq(Ev.p4[r]) - S) <= MultiK \div 2 + 1

TProba ==
  /\ HasEv("proba") /\ e = 2
  /\ IF (IF Case.kind = "bin" THEN BinProbaOk ELSE MultiProbaOk)
     THEN Adv ELSE Fail(Case.id, ToString(e) \o " " \o Ev.ev \o ": " \o Why) /\ Dead

\* order keys of the dyadic thresholds (harness::key64)
KeyHalf == <<3143680, 0, 0>>
FracKey(a, b) ==
  CASE a = 0 -> KeyZero
    [] a = b -> KeyOne
    [] 2 * a = b -> KeyHalf
    [] 4 * a = b -> <<3142656, 0, 0>>
    [] 4 * a = 3 * b -> <<3144192, 0, 0>>
ThrKey(spec) ==
  CASE spec.k = "default" -> KeyHalf                 \* documented default threshold 0.5
    [] spec.k = "frac" -> FracKey(spec.a, spec.b)
    [] spec.k = "row" -> ProbaEv.pk[spec.r]          \* exactly the probability returned for that row

BinPredictOk ==
  /\ e - 2 \in 1..Len(In.thrs)
  /\ Ev.thr = In.thrs[e - 2]
  /\ Ev.tk = ThrKey(Ev.thr)
  /\ Ev.pk = ProbaEv.pk                              \* the probabilities the decision is about
  /\ Len(Ev.cls) = Len(Rows)
  /\ \A r \in 1..Len(Rows) : BinDecisionOk(Ev.pk[r], ThrKey(Ev.thr), Ev.cls[r], FitEv.pos, FitEv.neg)
MultiPredictOk ==
  /\ e = 3 /\ Len(Ev.cls) = Len(Rows)
  /\ \A r \in 1..Len(Rows) : MultiDecisionOk(ProbaEv.pk[r], Ev.cls[r], FitEv.classes)

TPredict ==
  /\ HasEv("predict") /\ e >= 3
  /\ IF (IF Case.kind = "bin" THEN BinPredictOk ELSE MultiPredictOk)
     THEN Adv ELSE Fail(Case.id, ToString(e) \o " " \o Ev.ev \o ": " \o Why) /\ Dead

Accept ==
  /\ e = Len(Case.ev) + 1
  /\ Len(Case.ev) = (IF Case.kind = "bin" THEN 2 + Len(In.thrs) ELSE 3)
  /\ Ok(Case.id)
  /\ e' = e + 1 /\ UNCHANGED <<c, vars>>

\* an event no action explains (panic, out-of-order event)
Stuck ==
  /\ e <= Len(Case.ev)
  /\ ~(\/ (Ev.ev = "fit" /\ e = 1) \/ (Ev.ev = "proba" /\ e = 2) \/ (Ev.ev = "predict" /\ e >= 3))
  /\ Fail(Case.id, ToString(e) \o " " \o Ev.ev \o ": unexplained event")
  /\ Dead

TraceNext == TFit \/ TProba \/ TPredict \/ Accept \/ Stuck
=============================================================================
