---------------------------- MODULE Gen_Params ----------------------------
(***************************************************************************)
(* C04 case generator.  A case is a *program*: the constructor call (if    *)
(* the builder has mandatory arguments) followed by setter calls, every    *)
(* argument taken from the boundary grid of the field it writes (Params!   *)
(* Grid: below / at / just inside / far inside every documented bound).    *)
(*                                                                         *)
(*   Level 1: every single deviation from the default builder              *)
(*   Level 2: + every pair of deviations (constructor x one setter, two    *)
(*            different setters; both orders when they write a common      *)
(*            field; the same setter twice = "last write wins"); setters   *)
(*            with several arguments vary one argument at a time here      *)
(*   Level 3: + every triple of different setters (multi-argument setters   *)
(*            vary one argument at a time inside triples), pairs with the   *)
(*            full argument products                                        *)
(*   Full   : for builders whose full grid has at most MaxFull points:     *)
(*            every subset of setters, each with every argument tuple      *)
(***************************************************************************)
EXTENDS Params, Json

CONSTANTS Level, MaxFull

VARIABLE case

\* the design-model variables are unused here
GenVarsUnused == alg = "" /\ st = <<>> /\ hist = <<>> /\ pc = "" /\ verdict = "" /\ out = <<>>

Typical(a, s) ==      \* one all-typical argument tuple of setter s (constructor default)
  LET T(k) == LET fd == Doc[a].f[ArgField(a, s, k)] IN CHOOSE x \in fd.typ : \A y \in fd.typ : x <= y
  IN [s |-> s, a |-> [k \in 1..Doc[a].s[s].na |-> T(k)], op |-> ""]

CtorCalls(a)  == IF CtorIdx(a) = {} THEN {<<>>} ELSE {<<c>> : c \in Calls(a, CHOOSE s \in CtorIdx(a) : TRUE)}
CtorTyp(a)    == IF CtorIdx(a) = {} THEN <<>> ELSE <<Typical(a, CHOOSE s \in CtorIdx(a) : TRUE)>>

Overlap(a, s1, s2) == \E w1 \in PRange(Doc[a].s[s1].w), w2 \in PRange(Doc[a].s[s2].w) : w1[1] = w2[1]

Singles(a) == CtorCalls(a) \cup {CtorTyp(a) \o <<c>> : c \in UNION {Calls(a, s) : s \in NonCtor(a)}}

\* in pairs (Level 2) a multi-argument setter varies one argument at a time around its typical tuple;
\* its full argument product is covered by Singles and, from Level 3 on, everywhere
OneAxis(a, s) == {c \in Calls(a, s) : Cardinality({k \in 1..Doc[a].s[s].na : c.a[k] # Typical(a, s).a[k]}) <= 1}
AxisCalls(a, s) == IF Level >= 3 THEN Calls(a, s) ELSE OneAxis(a, s)

Pairs(a) ==
  {p \o <<c>> : p \in CtorCalls(a), c \in UNION {AxisCalls(a, s) : s \in NonCtor(a)}}
  \* (two multi-argument setters: full product x one-argument-at-a-time, so the pair stays quadratic in the grid)
  \cup UNION {{CtorTyp(a) \o <<c1, c2>> : c1 \in AxisCalls(a, sp[1]),
                                         c2 \in (IF Doc[a].s[sp[1]].na > 1 /\ Doc[a].s[sp[2]].na > 1 THEN OneAxis(a, sp[2]) ELSE AxisCalls(a, sp[2]))} :
              sp \in {q \in NonCtor(a) \X NonCtor(a) :
                        \/ q[1] < q[2]
                        \/ q[1] > q[2] /\ Overlap(a, q[1], q[2])
                        \/ q[1] = q[2]}}

\* checks interleaved with setters: Set ; check_ref (or check + clone) ; Set' on the same setter ; then the
\* usual protocol.  Set takes a typical or a clearly invalid value, Set' ranges over the boundary tuples, so the
\* value moves from valid to invalid, from invalid to valid, and between two invalid / two valid values; the final verdict must be that of
\* the values held at the end (a verdict, a compiled regex, an error cached by the first check must not survive)
Mid(a, op) == [s |-> 0, a |-> <<>>, op |-> op]
\* representative first values: the typical ones and one clearly invalid value beyond each documented bound
RepVals(fd) ==
  fd.typ
  \cup (IF fd.lok \in {"none", "hole"} THEN {} ELSE IF fd.ty = "real" THEN {fd.lo - M} ELSE {y \in {fd.lo - 1} : y >= 0})
  \cup (IF fd.lok = "hole" THEN {(fd.lo + fd.hi) \div 2} ELSE IF fd.hik = "none" THEN {} ELSE IF fd.ty = "real" THEN {fd.hi + M} ELSE {fd.hi + 1})
RepCalls(a, s) == {c \in OneAxis(a, s) : \A k \in 1..Doc[a].s[s].na : c.a[k] \in RepVals(Doc[a].f[ArgField(a, s, k)])}
Interleaved(a) ==
  UNION {{CtorTyp(a) \o <<c1, Mid(a, op), c2>> : c1 \in RepCalls(a, s), c2 \in OneAxis(a, s)} :
         s \in NonCtor(a), op \in MidOps(a)}
  \cup {CtorTyp(a) \o <<Mid(a, op)>> : op \in MidOps(a)}

Triples(a) ==
  UNION {{CtorTyp(a) \o <<c1, c2, c3>> : c1 \in OneAxis(a, t[1]), c2 \in OneAxis(a, t[2]), c3 \in OneAxis(a, t[3])} :
         t \in {q \in NonCtor(a) \X NonCtor(a) \X NonCtor(a) : q[1] < q[2] /\ q[2] < q[3]}}

\* full grid: setters in index order, each absent or called once
RECURSIVE FullFrom(_, _)
FullFrom(a, s) ==
  IF s > NS(a) THEN {<<>>}
  ELSE LET rest == FullFrom(a, s + 1) IN
       IF Doc[a].s[s].ctor THEN {<<c>> \o r : c \in Calls(a, s), r \in rest}
       ELSE rest \cup {<<c>> \o r : c \in Calls(a, s), r \in rest}
RECURSIVE FullSizeFrom(_, _)
FullSizeFrom(a, s) ==
  IF s > NS(a) THEN 1
  ELSE LET k == Cardinality(ArgTuples(a, s))  r == FullSizeFrom(a, s + 1) IN
       IF r > MaxFull THEN r ELSE IF Doc[a].s[s].ctor THEN k * r ELSE (1 + k) * r
Full(a) == IF FullSizeFrom(a, 1) <= MaxFull THEN FullFrom(a, 1) ELSE {}

Programs(a) ==
  Singles(a)
  \cup (IF Level >= 2 THEN Pairs(a) ELSE {})
  \cup (IF Level >= 2 THEN Interleaved(a) ELSE {})
  \cup (IF Level >= 3 THEN Triples(a) ELSE {})
  \cup (IF MaxFull > 0 THEN Full(a) ELSE {})

\* the harness addresses setters by name, the trace specification by index
Named(a, p) == [q \in 1..Len(p) |-> [s |-> p[q].s, n |-> IF p[q].s = 0 THEN p[q].op ELSE Doc[a].s[p[q].s].n, a |-> p[q].a]]

GenInit ==
  /\ GenVarsUnused
  /\ \E a \in AlgSet : \E p \in Programs(a) :
       case = [kind |-> a, inp |-> [alg |-> a, prog |-> Named(a, p)]]

GenNext == UNCHANGED <<case, vars>>
Emit == PrintT("CASE " \o ToJson(case))
=============================================================================
